(* Properties_C13.v — statements only: each property theorem is stated in full and closed by
   `exact <lemma>`; the lemmas live in the Proofs_*.v files.  Assembled by tools/mkprops.py. *)
(* C13 Attached buffer accounting and the caller's buffer (models Abuf.v, Nonblocking.v). *)
(* A. attached-buffer pool: the refusal test NC_EINSUFFBUF is exactly `size_allocated - size_used < nbytes`; *)
(* over ALL histories pending <= usage <= attached size (no over-commitment) and a request that cannot *)
(* fit is always refused; usage = pending and "refused iff no real free space" are REFUTED over all *)
(* histories (out-of-order completion leaves holes that are not reused) and PROVED for LIFO histories; *)
(* slices of the pool are disjoint and inside the pool; detach succeeds iff no bput is pending. *)
(* B. caller's buffer: ncmpii_in_swapn is an involution, so the in-place byte swap of a put is undone by *)
(* every exit (blocking return, completing wait, cancel of all / by ids, close); bput never swaps the *)
(* caller's buffer and copies the data into the pool at posting time; a get modifies only the bytes *)
(* selected by buftype/imap. *)
From Coq Require Import ZArith List.
From Pnc Require Import Nonblocking.
From Pnc Require Import Proofs_Abuf.
Set Printing Width 100.
Set Printing Depth 100000.

Theorem C13_abuf_insufficient_iff :
  forall (a : abuf) (n : Z), abuf_insufficient a n = true <-> (ab_alloc a - ab_used a < n)%Z.
Proof. exact @abuf_insufficient_iff. Qed.
Print Assumptions C13_abuf_insufficient_iff.

Theorem C13_einsuffbuf_iff_varm :
  forall (st : nbstate) (g : geom) (start count : list Z) (stride : option (list Z))
           (xaddr : Z) (data : list byte) (sw : bool) (tag : Z) (a : abuf),
         st_abuf st = Some a ->
         (0 < zprod count * g_xsz g)%Z ->
         snd (post_varm st KBput g start count stride xaddr data sw tag) = NC_EINSUFFBUF <->
         (ab_alloc a - ab_used a < zprod count * g_xsz g)%Z.
Proof. exact @einsuffbuf_iff_varm. Qed.
Print Assumptions C13_einsuffbuf_iff_varm.

Theorem C13_einsuffbuf_iff_varn :
  forall (st : nbstate) (g : geom) (parts : list (list Z * option (list Z))) 
           (xaddr : Z) (data : list byte) (sw : bool) (tag : Z) (a : abuf),
         st_abuf st = Some a ->
         (0 <
          zsum
            (map (fun p : list Z * option (list Z) => zprod (part_count (fst p) (snd p)))
               (filter
                  (fun p : list Z * option (list Z) => negb (zprod (part_count (fst p) (snd p)) =? 0))
                  parts)) * g_xsz g)%Z ->
         snd (post_varn st KBput g parts xaddr data sw tag) = NC_EINSUFFBUF <->
         (ab_alloc a - ab_used a <
          zsum
            (map (fun p : list Z * option (list Z) => zprod (part_count (fst p) (snd p)))
               (filter
                  (fun p : list Z * option (list Z) => negb (zprod (part_count (fst p) (snd p)) =? 0))
                  parts)) * g_xsz g)%Z.
Proof. exact @einsuffbuf_iff_varn. Qed.
Print Assumptions C13_einsuffbuf_iff_varn.

Theorem C13_bput_without_attach :
  forall (st : nbstate) (g : geom) (start count : list Z) (stride : option (list Z))
           (xaddr : Z) (data : list byte) (sw : bool) (tag : Z),
         st_abuf st = None ->
         snd (post_varm st KBput g start count stride xaddr data sw tag) = NC_ENULLABUF.
Proof. exact @bput_without_attach. Qed.
Print Assumptions C13_bput_without_attach.

Theorem C13_bput_without_attach_varn :
  forall (st : nbstate) (g : geom) (parts : list (list Z * option (list Z))) 
           (xaddr : Z) (data : list byte) (sw : bool) (tag : Z),
         st_abuf st = None -> snd (post_varn st KBput g parts xaddr data sw tag) = NC_ENULLABUF.
Proof. exact @bput_without_attach_varn. Qed.
Print Assumptions C13_bput_without_attach_varn.

Theorem C13_ab_run_wf :
  forall (ops : list abop) (a : abuf),
         ab_wf a -> tail_used a -> abops_pos ops -> ab_wf (ab_run a ops) /\ tail_used (ab_run a ops).
Proof. exact @ab_run_wf. Qed.
Print Assumptions C13_ab_run_wf.

Theorem C13_usage_ge_pending :
  forall (ops : list abop) (n : Z),
         (0 < n)%Z ->
         abops_pos ops ->
         (abuf_pending (ab_run {| ab_alloc := n; ab_used := 0; ab_table := [] |} ops) <=
          abuf_usage (ab_run {| ab_alloc := n; ab_used := 0; ab_table := [] |} ops) <= n)%Z.
Proof. exact @usage_ge_pending. Qed.
Print Assumptions C13_usage_ge_pending.

(* witness: pool of 32, [ABput 16; ABput 16; AComplete [0]] gives usage 32, pending 16 *)
Theorem C13_usage_eq_pending_refuted :
  ~ usage_eq_pending_full.
Proof. exact @usage_eq_pending_refuted. Qed.
Print Assumptions C13_usage_eq_pending_refuted.

Theorem C13_usage_eq_pending_all_used :
  forall a : abuf, ab_wf a -> all_used a -> abuf_usage a = abuf_pending a.
Proof. exact @usage_eq_pending_all_used. Qed.
Print Assumptions C13_usage_eq_pending_all_used.

Theorem C13_usage_eq_pending_lifo :
  forall (ops : list abop) (a : abuf),
         ab_wf a ->
         all_used a ->
         abops_pos ops ->
         lifo_hist a ops ->
         abuf_usage (ab_run a ops) = abuf_pending (ab_run a ops) /\ all_used (ab_run a ops).
Proof. exact @usage_eq_pending_lifo. Qed.
Print Assumptions C13_usage_eq_pending_lifo.

(* same witness, request of 16 bytes: refused although 16 bytes are not pending *)
Theorem C13_refused_iff_no_space_refuted :
  ~ refused_iff_no_space_full.
Proof. exact @refused_iff_no_space_refuted. Qed.
Print Assumptions C13_refused_iff_no_space_refuted.

Theorem C13_refused_if_no_space :
  forall (ops : list abop) (n m : Z),
         (0 < n)%Z ->
         (0 < m)%Z ->
         abops_pos ops ->
         (n - abuf_pending (ab_run {| ab_alloc := n; ab_used := 0; ab_table := [] |} ops) < m)%Z ->
         abuf_insufficient (ab_run {| ab_alloc := n; ab_used := 0; ab_table := [] |} ops) m = true.
Proof. exact @refused_if_no_space. Qed.
Print Assumptions C13_refused_if_no_space.

Theorem C13_abuf_regions_disjoint :
  forall (a : abuf) (i j : Z),
         ab_wf a ->
         (0 <= i < j)%Z ->
         (j < ab_tail a)%Z ->
         (abuf_offset a i + snd (znth (ab_table a) i (false, 0)) <= abuf_offset a j)%Z.
Proof. exact @abuf_regions_disjoint. Qed.
Print Assumptions C13_abuf_regions_disjoint.

Theorem C13_abuf_region_inside :
  forall (a : abuf) (i : Z),
         ab_wf a ->
         (0 <= i < ab_tail a)%Z ->
         (0 <= abuf_offset a i)%Z /\
         (abuf_offset a i + snd (znth (ab_table a) i (false, 0)) <= ab_alloc a)%Z.
Proof. exact @abuf_region_inside. Qed.
Print Assumptions C13_abuf_region_inside.

Theorem C13_abuf_malloc_offset :
  forall (a : abuf) (n : Z),
         ab_wf a ->
         let '(a', idx, off) := abuf_malloc a n in off = abuf_offset a' idx /\ idx = ab_tail a.
Proof. exact @abuf_malloc_offset. Qed.
Print Assumptions C13_abuf_malloc_offset.

Theorem C13_detach_requires_no_pending :
  forall st : nbstate,
         snd (detach st) = NC_EPENDINGBPUT <->
         st_abuf st <> None /\ (exists l : lead, In l (put_lead st) /\ (0 <= l_abuf_index l)%Z).
Proof. exact @detach_requires_no_pending. Qed.
Print Assumptions C13_detach_requires_no_pending.

Theorem C13_detach_ok :
  forall st : nbstate,
         snd (detach st) = NC_NOERR ->
         st_abuf (fst (detach st)) = None /\
         (forall l : lead, In l (put_lead st) -> (l_abuf_index l < 0)%Z).
Proof. exact @detach_ok. Qed.
Print Assumptions C13_detach_ok.

Theorem C13_swap_involutive :
  forall (buf : list byte) (nelems esize : Z),
         in_swapn (in_swapn buf nelems esize) nelems esize = buf.
Proof. exact @swap_involutive. Qed.
Print Assumptions C13_swap_involutive.

Theorem C13_in_swapn_length :
  forall (buf : list byte) (nelems esize : Z), length (in_swapn buf nelems esize) = length buf.
Proof. exact @in_swapn_length. Qed.
Print Assumptions C13_in_swapn_length.

Theorem C13_put_buffer_restored :
  forall (api : putapi) (nconv nswap contig himap : bool) (h : swaphint) 
           (nbytes : Z) (buf : list byte) (nelems xsz : Z),
         let flag := put_swaps_user_buf api nconv nswap contig himap h nbytes in
         user_buf_after_exit flag (user_buf_in_flight flag buf nelems xsz) nelems xsz = buf.
Proof. exact @put_buffer_restored. Qed.
Print Assumptions C13_put_buffer_restored.

(* blocking put with a derived contiguous buftype: both swaps run over bnelems = bufcount * elements per buftype *)
Theorem C13_put_buffer_restored_bnelems :
  forall (api : putapi) (nconv nswap contig himap : bool) (h : swaphint) 
           (nbytes : Z) (bt : btype) (buf : list byte) (xsz : Z),
         put_blocking_buffer (put_swaps_user_buf api nconv nswap contig himap h nbytes) bt buf xsz =
         buf.
Proof. exact @put_buffer_restored_bnelems. Qed.
Print Assumptions C13_put_buffer_restored_bnelems.

(* swapping back over the MPI count (bufcount) instead would leave the rest of the buffer byte-swapped *)
Theorem C13_swap_back_over_mpi_count_refuted :
  ~ swap_back_over_mpi_count_full.
Proof. exact @swap_back_over_mpi_count_refuted. Qed.
Print Assumptions C13_swap_back_over_mpi_count_refuted.

Theorem C13_bput_never_swaps :
  forall (nconv nswap contig himap : bool) (h : swaphint) (nbytes : Z),
         put_swaps_user_buf PBput nconv nswap contig himap h nbytes = false.
Proof. exact @bput_never_swaps. Qed.
Print Assumptions C13_bput_never_swaps.

Theorem C13_bput_varn_never_swaps :
  forall (nconv nswap contig himap : bool) (h : swaphint) (nbytes : Z),
         put_swaps_user_buf PBputVarn nconv nswap contig himap h nbytes = false.
Proof. exact @bput_varn_never_swaps. Qed.
Print Assumptions C13_bput_varn_never_swaps.

Theorem C13_small_auto_never_swaps :
  forall (api : putapi) (nconv nswap contig himap : bool) (nbytes : Z),
         (nbytes <= NC_BYTE_SWAP_BUFFER_SIZE)%Z ->
         put_swaps_user_buf api nconv nswap contig himap SwapAuto nbytes = false.
Proof. exact @small_auto_never_swaps. Qed.
Print Assumptions C13_small_auto_never_swaps.

Theorem C13_swap_off_never_swaps :
  forall (api : putapi) (nconv nswap contig himap : bool) (nbytes : Z),
         put_swaps_user_buf api nconv nswap contig himap SwapOff nbytes = false.
Proof. exact @swap_off_never_swaps. Qed.
Print Assumptions C13_swap_off_never_swaps.

Theorem C13_commit_post_swaps_back :
  forall (st : nbstate) (nwl nrl : Z) (st' : nbstate) (ev : list event),
         commit_post st nwl nrl = (st', ev) ->
         (0 < nwl)%Z ->
         forall l : lead,
         In l (put_lead st) ->
         l_to_free l = true ->
         In (EvPutDone (l_tag l)) ev /\ (l_swapbuf l = true -> In (EvSwapBack (l_tag l)) ev).
Proof. exact @commit_post_swaps_back. Qed.
Print Assumptions C13_commit_post_swaps_back.

Theorem C13_commit_post_swaps_only_flagged :
  forall (st : nbstate) (nwl nrl : Z) (st' : nbstate) (ev : list event) (t : Z),
         commit_post st nwl nrl = (st', ev) ->
         In (EvSwapBack t) ev ->
         exists l : lead,
           In l (put_lead st) /\ l_to_free l = true /\ l_swapbuf l = true /\ l_tag l = t.
Proof. exact @commit_post_swaps_only_flagged. Qed.
Print Assumptions C13_commit_post_swaps_only_flagged.

(* the version without `0 < nwl` is false: with nwl = 0 a lead carrying NC_REQ_TO_FREE stays queued *)
Theorem C13_commit_post_keeps_unflagged_partial :
  forall (st : nbstate) (nwl nrl : Z) (st' : nbstate) (ev : list event),
         commit_post st nwl nrl = (st', ev) ->
         forall l : lead,
         In l (put_lead st') -> In l (put_lead st) /\ ((0 < nwl)%Z -> l_to_free l = false).
Proof. exact @commit_post_keeps_unflagged_partial. Qed.
Print Assumptions C13_commit_post_keeps_unflagged_partial.

Theorem C13_cancel_all_swaps_back :
  forall (st : nbstate) (num_req : Z) (ids stat0 : list Z),
         num_req = NC_PUT_REQ_ALL \/ num_req = NC_REQ_ALL ->
         put_lead (wr_st (cancel st num_req ids stat0)) = [] /\
         (forall l : lead,
          In l (put_lead st) ->
          In (EvPutDone (l_tag l)) (wr_ev (cancel st num_req ids stat0)) /\
          (l_swapbuf l = true -> In (EvSwapBack (l_tag l)) (wr_ev (cancel st num_req ids stat0)))).
Proof. exact @cancel_all_swaps_back. Qed.
Print Assumptions C13_cancel_all_swaps_back.

Theorem C13_cancel_all_swaps_only_flagged :
  forall (st : nbstate) (num_req : Z) (ids stat0 : list Z) (t : Z),
         (num_req < 0)%Z ->
         In (EvSwapBack t) (wr_ev (cancel st num_req ids stat0)) ->
         (num_req = NC_PUT_REQ_ALL \/ num_req = NC_REQ_ALL) /\
         (exists l : lead, In l (put_lead st) /\ l_swapbuf l = true /\ l_tag l = t).
Proof. exact @cancel_all_swaps_only_flagged. Qed.
Print Assumptions C13_cancel_all_swaps_only_flagged.

Theorem C13_cancel_all_get_keeps_puts :
  forall (st : nbstate) (ids stat0 : list Z) (t : Z),
         put_lead (wr_st (cancel st NC_GET_REQ_ALL ids stat0)) = put_lead st /\
         ~ In (EvSwapBack t) (wr_ev (cancel st NC_GET_REQ_ALL ids stat0)).
Proof. exact @cancel_all_get_keeps_puts. Qed.
Print Assumptions C13_cancel_all_get_keeps_puts.

Theorem C13_cancel_ids_swaps_back :
  forall (st : nbstate) (num_req : Z) (ids stat0 : list Z) (pre : list lead) 
           (l : lead) (post : list lead),
         (0 < num_req)%Z ->
         put_lead st = pre ++ l :: post ->
         Forall (fun l' : lead => l_id l' <> l_id l) pre ->
         In (l_id l) ids ->
         l_id l <> NC_REQ_NULL ->
         Z.land (l_id l) 1 <> 1%Z ->
         In (EvPutDone (l_tag l)) (wr_ev (cancel st num_req ids stat0)) /\
         (l_swapbuf l = true -> In (EvSwapBack (l_tag l)) (wr_ev (cancel st num_req ids stat0))).
Proof. exact @cancel_ids_swaps_back. Qed.
Print Assumptions C13_cancel_ids_swaps_back.

Theorem C13_cancel_ids_swaps_only_flagged :
  forall (st : nbstate) (num_req : Z) (ids stat0 : list Z) (t : Z),
         (0 < num_req)%Z ->
         In (EvSwapBack t) (wr_ev (cancel st num_req ids stat0)) ->
         exists l : lead,
           In l (put_lead st) /\
           l_swapbuf l = true /\ l_tag l = t /\ In (l_id l) ids /\ l_id l <> NC_REQ_NULL.
Proof. exact @cancel_ids_swaps_only_flagged. Qed.
Print Assumptions C13_cancel_ids_swaps_only_flagged.

Theorem C13_cancel_ids_keeps_unnamed :
  forall (st : nbstate) (num_req : Z) (ids stat0 : list Z) (l : lead),
         (0 < num_req)%Z ->
         In l (put_lead st) ->
         ~ In (l_id l) ids ->
         exists off : Z, In (l_set_off l off) (put_lead (wr_st (cancel st num_req ids stat0))).
Proof. exact @cancel_ids_keeps_unnamed. Qed.
Print Assumptions C13_cancel_ids_keeps_unnamed.

Theorem C13_cancel_ids_removes_named :
  forall (st : nbstate) (num_req : Z) (ids stat0 : list Z) (pre : list lead) 
           (l : lead) (post : list lead),
         (0 < num_req)%Z ->
         put_lead st = pre ++ l :: post ->
         Forall (fun l' : lead => l_id l' <> l_id l) pre ->
         Forall (fun l' : lead => l_id l' <> l_id l) post ->
         In (l_id l) ids ->
         l_id l <> NC_REQ_NULL ->
         Z.land (l_id l) 1 <> 1%Z ->
         forall l' : lead,
         In l' (put_lead (wr_st (cancel st num_req ids stat0))) -> l_id l' <> l_id l.
Proof. exact @cancel_ids_removes_named. Qed.
Print Assumptions C13_cancel_ids_removes_named.

Theorem C13_close_pending_swaps_back :
  forall (st : nbstate) (l : lead),
         In l (put_lead st) ->
         l_swapbuf l = true -> In (EvSwapBack (l_tag l)) (wr_ev (close_pending st)).
Proof. exact @close_pending_swaps_back. Qed.
Print Assumptions C13_close_pending_swaps_back.

Theorem C13_bput_captures_at_post :
  forall (st : nbstate) (g : geom) (start count : list Z) (stride : option (list Z))
           (xaddr : Z) (data : list byte) (sw : bool) (tag : Z) (st' : nbstate) 
           (id : Z) (a : abuf),
         st_abuf st = Some a ->
         ab_wf a ->
         post_varm st KBput g start count stride xaddr data sw tag = (st', id, NC_NOERR) ->
         id <> NC_REQ_NULL ->
         Zlen data = (zprod count * g_xsz g)%Z ->
         exists l : lead,
           In l (put_lead st') /\
           l_id l = id /\
           l_xaddr l = (ABUF_BASE + ab_used a)%Z /\
           (0 <= l_abuf_index l)%Z /\
           dk_read (st_mem st') (l_xaddr l) (Zlen data) = data /\
           (ABUF_BASE <= l_xaddr l)%Z /\ (l_xaddr l + Zlen data <= ABUF_BASE + ab_alloc a)%Z.
Proof. exact @bput_captures_at_post. Qed.
Print Assumptions C13_bput_captures_at_post.

Theorem C13_bput_varn_captures_at_post :
  forall (st : nbstate) (g : geom) (parts : list (list Z * option (list Z))) 
           (xaddr : Z) (data : list byte) (sw : bool) (tag : Z) (st' : nbstate) 
           (id : Z) (a : abuf),
         st_abuf st = Some a ->
         ab_wf a ->
         post_varn st KBput g parts xaddr data sw tag = (st', id, NC_NOERR) ->
         id <> NC_REQ_NULL ->
         Zlen data = varn_nbytes g parts ->
         exists l : lead,
           In l (put_lead st') /\
           l_id l = id /\
           l_xaddr l = (ABUF_BASE + ab_used a)%Z /\
           (0 <= l_abuf_index l)%Z /\
           dk_read (st_mem st') (l_xaddr l) (Zlen data) = data /\
           (ABUF_BASE <= l_xaddr l)%Z /\ (l_xaddr l + Zlen data <= ABUF_BASE + ab_alloc a)%Z.
Proof. exact @bput_varn_captures_at_post. Qed.
Print Assumptions C13_bput_varn_captures_at_post.

Theorem C13_overwrite_length :
  forall (buf : list byte) (off : Z) (bs : list byte),
         length (overwrite buf off bs) = length buf.
Proof. exact @overwrite_length. Qed.
Print Assumptions C13_overwrite_length.

Theorem C13_scatter_elems_length :
  forall (pos : list Z) (buf : list byte) (el : Z) (data : list byte),
         length (scatter_elems buf el pos data) = length buf.
Proof. exact @scatter_elems_length. Qed.
Print Assumptions C13_scatter_elems_length.

Theorem C13_unpack_xbuf_length :
  forall (contig : bool) (impos : option (list Z)) (btpos : list Z) 
           (el nelems : Z) (buf idata tmp : list byte),
         length (unpack_xbuf contig impos btpos el nelems buf idata tmp) = length buf.
Proof. exact @unpack_xbuf_length. Qed.
Print Assumptions C13_unpack_xbuf_length.

(* needs non-negative positions: `overwrite` clips a negative offset to 0 *)
Theorem C13_scatter_elems_frame :
  forall (pos : list Z) (buf : list byte) (el : Z) (data : list byte) (x : Z) (d : byte),
         (0 < el)%Z ->
         (0 <= x)%Z ->
         Forall (fun p : Z => (0 <= p)%Z) pos ->
         ~ covered el pos x -> znth (scatter_elems buf el pos data) x d = znth buf x d.
Proof. exact @scatter_elems_frame. Qed.
Print Assumptions C13_scatter_elems_frame.

Theorem C13_get_writes_only_selected :
  forall (contig : bool) (impos : option (list Z)) (btpos : list Z) 
           (el nelems : Z) (buf idata tmp : list byte) (x : Z) (d : byte),
         (0 < el)%Z ->
         (0 <= nelems)%Z ->
         (0 <= x)%Z ->
         Forall (fun p : Z => (0 <= p)%Z) (selected_positions contig impos btpos nelems) ->
         ~ covered el (selected_positions contig impos btpos nelems) x ->
         znth (unpack_xbuf contig impos btpos el nelems buf idata tmp) x d = znth buf x d.
Proof. exact @get_writes_only_selected. Qed.
Print Assumptions C13_get_writes_only_selected.

Theorem C13_scatter_elems_content :
  forall (pos : list Z) (buf : list byte) (el : Z) (data : list byte) (d : byte),
         NoDup pos ->
         Forall (fun p : Z => (0 <= p)%Z /\ ((p + 1) * el <= Zlen buf)%Z) pos ->
         Zlen data = (Zlen pos * el)%Z ->
         (0 < el)%Z ->
         forall k : Z,
         (0 <= k < Zlen pos)%Z ->
         forall i : Z,
         (0 <= i < el)%Z ->
         znth (scatter_elems buf el pos data) (znth pos k 0%Z * el + i) d = znth data (k * el + i) d.
Proof. exact @scatter_elems_content. Qed.
Print Assumptions C13_scatter_elems_content.
