(* Properties_C07.v — statements only: each property theorem is stated in full and closed by
   `exact <lemma>`; the lemmas live in the Proofs_*.v files.  Assembled by tools/mkprops.py. *)
(* C07 Metadata and namespace operations behave like a sequential model: the hash-bucket name tables of *)
(* dimensions, variables and attributes (Meta.v: model of ncmpio_hash_func.c, ncmpio_dim.c, ncmpio_var.c, *)
(* ncmpio_attr.m4, the dispatcher checks, check_name.c) refine ordered lists with linear lookup, for EVERY hash *)
(* function whose range is below the table size and every NFC function; no step indexes out of bounds; lookup by *)
(* name agrees with lookup by id; data-mode updates are on disk and never grow the header; content persists over *)
(* close/open (composition with Proofs_Header.decode_encode_full). *)
From Coq Require Import ZArith List.
From Pnc Require Import Proofs_Meta.
Set Printing Width 100.
Set Printing Depth 100000.

Theorem C07_library_hash_range :
  forall (nm : list Base.byte) (hs : Z), hs_ok hs -> (0 <= Meta.bernstein nm hs < hs)%Z.
Proof. exact @bernstein_range. Qed.
Print Assumptions C07_library_hash_range.

Theorem C07_lookup_never_out_of_bounds :
  forall hashf : list Base.byte -> Z -> Z,
         (forall (nm : list Base.byte) (hs : Z), hs_ok hs -> (0 <= hashf nm hs < hs)%Z) ->
         forall (names : list (list Base.byte)) (t : Meta.ntab) (nm : list Base.byte),
         tab_inv hashf names t ->
         exists r : option nat,
           Meta.hfind hashf names t nm = Some r /\
           match r with
           | Some i => nth_error names i = Some nm
           | None => ~ In nm names
           end.
Proof. exact @hfind_spec. Qed.
Print Assumptions C07_lookup_never_out_of_bounds.

Theorem C07_lookup_hash_eq_linear :
  forall hashf : list Base.byte -> Z -> Z,
         (forall (nm : list Base.byte) (hs : Z), hs_ok hs -> (0 <= hashf nm hs < hs)%Z) ->
         forall (names : list (list Base.byte)) (t : Meta.ntab) (nm : list Base.byte),
         tab_inv hashf names t ->
         NoDup names -> Meta.hfind hashf names t nm = Some (Meta.find_name nm names).
Proof. exact @hfind_linear. Qed.
Print Assumptions C07_lookup_hash_eq_linear.

Theorem C07_lookup_hash_eq_linear_refuted_with_duplicates :
  ~ lookup_hash_eq_linear_full.
Proof. exact @lookup_hash_eq_linear_refuted. Qed.
Print Assumptions C07_lookup_hash_eq_linear_refuted_with_duplicates.

Theorem C07_table_inv_insert :
  forall hashf : list Base.byte -> Z -> Z,
         (forall (nm : list Base.byte) (hs : Z), hs_ok hs -> (0 <= hashf nm hs < hs)%Z) ->
         forall (names : list (list Base.byte)) (t : Meta.ntab) (nm : list Base.byte),
         tab_inv hashf names t ->
         (exists bs : list (list nat), Meta.nt_tab t = Some bs) ->
         exists t' : Meta.ntab,
           Meta.hash_insert hashf t nm (length names) = Some t' /\
           tab_inv hashf (names ++ nm :: nil) t' /\ Meta.nt_hsize t' = Meta.nt_hsize t.
Proof. exact @hash_insert_inv. Qed.
Print Assumptions C07_table_inv_insert.

Theorem C07_table_inv_update_name_lookup_table :
  forall hashf : list Base.byte -> Z -> Z,
         (forall (nm : list Base.byte) (hs : Z), hs_ok hs -> (0 <= hashf nm hs < hs)%Z) ->
         forall (names : list (list Base.byte)) (t : Meta.ntab) (i : nat) (old new : list Base.byte),
         tab_inv hashf names t ->
         nth_error names i = Some old ->
         exists t' : Meta.ntab,
           Meta.hash_update hashf t i old new = Some t' /\
           tab_inv hashf (Meta.set_nth i names new) t' /\ Meta.nt_hsize t' = Meta.nt_hsize t.
Proof. exact @hash_update_inv. Qed.
Print Assumptions C07_table_inv_update_name_lookup_table.

Theorem C07_table_inv_replace :
  forall hashf : list Base.byte -> Z -> Z,
         (forall (nm : list Base.byte) (hs : Z), hs_ok hs -> (0 <= hashf nm hs < hs)%Z) ->
         forall (names : list (list Base.byte)) (t : Meta.ntab) (i : nat) (old new : list Base.byte),
         tab_inv hashf names t ->
         nth_error names i = Some old ->
         exists t' : Meta.ntab,
           Meta.hash_replace hashf t i old new = Some t' /\
           tab_inv hashf (Meta.set_nth i names new) t' /\ Meta.nt_hsize t' = Meta.nt_hsize t.
Proof. exact @hash_replace_inv. Qed.
Print Assumptions C07_table_inv_replace.

Theorem C07_table_inv_delete_renumbers :
  forall hashf : list Base.byte -> Z -> Z,
         (forall (nm : list Base.byte) (hs : Z), hs_ok hs -> (0 <= hashf nm hs < hs)%Z) ->
         forall (names : list (list Base.byte)) (t : Meta.ntab) (i : nat) (nm : list Base.byte),
         tab_inv hashf names t ->
         nth_error names i = Some nm ->
         exists t' : Meta.ntab,
           Meta.hash_delete hashf t nm i = Some (Some t') /\
           tab_inv hashf (Meta.del_nth i names) t' /\ Meta.nt_hsize t' = Meta.nt_hsize t.
Proof. exact @hash_delete_inv. Qed.
Print Assumptions C07_table_inv_delete_renumbers.

Theorem C07_table_inv_bucket_order_irrelevant :
  forall (hashf : list Base.byte -> Z -> Z) (names : list (list Base.byte)) 
           (hs : Z) (bs bs' : list (list nat)),
         Forall2 (Permutation.Permutation (A:=nat)) bs bs' ->
         tab_inv hashf names {| Meta.nt_hsize := hs; Meta.nt_tab := Some bs |} ->
         tab_inv hashf names {| Meta.nt_hsize := hs; Meta.nt_tab := Some bs' |}.
Proof. exact @tab_inv_bucket_order_irrelevant. Qed.
Print Assumptions C07_table_inv_bucket_order_irrelevant.

Theorem C07_lookup_any_bucket_order :
  forall hashf : list Base.byte -> Z -> Z,
         (forall (nm : list Base.byte) (hs : Z), hs_ok hs -> (0 <= hashf nm hs < hs)%Z) ->
         forall (names : list (list Base.byte)) (hs : Z) (bs bs' : list (list nat))
           (nm : list Base.byte),
         Forall2 (Permutation.Permutation (A:=nat)) bs bs' ->
         tab_inv hashf names {| Meta.nt_hsize := hs; Meta.nt_tab := Some bs |} ->
         NoDup names ->
         Meta.hfind hashf names {| Meta.nt_hsize := hs; Meta.nt_tab := Some bs' |} nm =
         Some (Meta.find_name nm names).
Proof. exact @lookup_any_bucket_order. Qed.
Print Assumptions C07_lookup_any_bucket_order.

Theorem C07_replace_then_delete_any_order :
  forall hashf : list Base.byte -> Z -> Z,
         (forall (nm : list Base.byte) (hs : Z), hs_ok hs -> (0 <= hashf nm hs < hs)%Z) ->
         forall (names : list (list Base.byte)) (t : Meta.ntab) (i : nat) 
           (old new : list Base.byte) (j : nat) (nm : list Base.byte),
         tab_inv hashf names t ->
         nth_error names i = Some old ->
         nth_error (Meta.set_nth i names new) j = Some nm ->
         exists t1 t2 : Meta.ntab,
           Meta.hash_replace hashf t i old new = Some t1 /\
           Meta.hash_delete hashf t1 nm j = Some (Some t2) /\
           tab_inv hashf (Meta.del_nth j (Meta.set_nth i names new)) t2 /\
           (NoDup (Meta.del_nth j (Meta.set_nth i names new)) ->
            forall q : list Base.byte,
            Meta.hfind hashf (Meta.del_nth j (Meta.set_nth i names new)) t2 q =
            Some (Meta.find_name q (Meta.del_nth j (Meta.set_nth i names new)))).
Proof. exact @replace_then_delete_any_order. Qed.
Print Assumptions C07_replace_then_delete_any_order.

Theorem C07_hash_delete_tail_walk_refuted :
  let names :=
           (97%Z :: 48%Z :: nil)
           :: (97%Z :: 49%Z :: nil)
              :: (97%Z :: 50%Z :: nil) :: (97%Z :: 51%Z :: nil) :: (97%Z :: 52%Z :: nil) :: nil in
         let names1 := Meta.set_nth 1 names (122%Z :: 49%Z :: nil) in
         let t :=
           {| Meta.nt_hsize := 1; Meta.nt_tab := Some ((0 :: 1 :: 2 :: 3 :: 4 :: nil) :: nil) |} in
         exists t1 : Meta.ntab,
           Meta.hash_replace Meta.bernstein t 1 (97%Z :: 49%Z :: nil) (122%Z :: 49%Z :: nil) =
           Some t1 /\
           (exists t2 : Meta.ntab,
              Meta.hash_delete Meta.bernstein t1 (97%Z :: 51%Z :: nil) 3 = Some (Some t2) /\
              Meta.hfind Meta.bernstein (Meta.del_nth 3 names1) t2 (97%Z :: 52%Z :: nil) =
              Some (Some 3)) /\
           (exists t2' : Meta.ntab,
              hash_delete_tail_walk Meta.bernstein t1 (97%Z :: 51%Z :: nil) 3 = Some (Some t2') /\
              Meta.hfind Meta.bernstein (Meta.del_nth 3 names1) t2' (97%Z :: 52%Z :: nil) = None).
Proof. exact @hash_delete_tail_walk_refuted. Qed.
Print Assumptions C07_hash_delete_tail_walk_refuted.

Theorem C07_table_inv_populate :
  forall hashf : list Base.byte -> Z -> Z,
         (forall (nm : list Base.byte) (hs : Z), hs_ok hs -> (0 <= hashf nm hs < hs)%Z) ->
         forall (hs : Z) (names : list (list Base.byte)),
         hs_ok hs ->
         exists t : Meta.ntab,
           Meta.hash_populate hashf hs names = Some t /\
           tab_inv hashf names t /\ Meta.nt_hsize t = hs.
Proof. exact @hash_populate_inv. Qed.
Print Assumptions C07_table_inv_populate.

Theorem C07_table_inv_copy :
  forall (hashf : list Base.byte -> Z -> Z) (names : list (list Base.byte)) (t : Meta.ntab),
         tab_inv hashf names t ->
         exists t' : Meta.ntab,
           Meta.hash_dup (Meta.nt_hsize t) (length names) t = Some t' /\
           tab_inv hashf names t' /\ Meta.nt_hsize t' = Meta.nt_hsize t.
Proof. exact @hash_dup_inv. Qed.
Print Assumptions C07_table_inv_copy.

Theorem C07_meta_refines :
  forall (hashf : list Base.byte -> Z -> Z) (nfc : list Base.byte -> list Base.byte),
         (forall (nm : list Base.byte) (hs : Z), hs_ok hs -> (0 <= hashf nm hs < hs)%Z) ->
         (forall nm : list Base.byte,
          (Base.Zlen nm <= Gen_consts.NC_MAX_NAME)%Z ->
          (Base.Zlen (nfc nm) <= Gen_consts.NC_MAX_INT)%Z) ->
         forall (w : Meta.cworld) (o : Meta.op),
         world_inv hashf w ->
         op_repr o ->
         exists (w' : Meta.cworld) (ob : list Z),
           Meta.c_step hashf nfc w o = Some (w', ob) /\
           Meta.s_step nfc (Meta.abs_world w) o = (Meta.abs_world w', ob) /\ world_inv hashf w'.
Proof. exact @step_refines. Qed.
Print Assumptions C07_meta_refines.

Theorem C07_inq_matches_model :
  forall (hashf : list Base.byte -> Z -> Z) (nfc : list Base.byte -> list Base.byte),
         (forall (nm : list Base.byte) (hs : Z), hs_ok hs -> (0 <= hashf nm hs < hs)%Z) ->
         (forall nm : list Base.byte,
          (Base.Zlen nm <= Gen_consts.NC_MAX_NAME)%Z ->
          (Base.Zlen (nfc nm) <= Gen_consts.NC_MAX_INT)%Z) ->
         forall (n : nat) (ops : list Meta.op),
         Forall op_repr ops ->
         exists w' : Meta.cworld,
           Meta.c_run hashf nfc (Meta.cworld0 n) ops =
           Some (w', snd (Meta.s_run nfc (Meta.sworld0 n) ops)) /\ world_inv hashf w'.
Proof. exact @inq_matches_model. Qed.
Print Assumptions C07_inq_matches_model.

Theorem C07_inq_matches_model_for_the_run_instance :
  forall (n : nat) (ops : list Meta.op),
         Forall op_repr ops ->
         exists w' : Meta.cworld,
           Meta.c_run Meta.bernstein Meta.nfc_tab (Meta.cworld0 n) ops =
           Some (w', snd (Meta.s_run Meta.nfc_tab (Meta.sworld0 n) ops)) /\
           world_inv Meta.bernstein w'.
Proof. exact @inq_matches_model_instance. Qed.
Print Assumptions C07_inq_matches_model_for_the_run_instance.

Theorem C07_table_inv_reachable :
  forall (hashf : list Base.byte -> Z -> Z) (nfc : list Base.byte -> list Base.byte),
         (forall (nm : list Base.byte) (hs : Z), hs_ok hs -> (0 <= hashf nm hs < hs)%Z) ->
         (forall nm : list Base.byte,
          (Base.Zlen nm <= Gen_consts.NC_MAX_NAME)%Z ->
          (Base.Zlen (nfc nm) <= Gen_consts.NC_MAX_INT)%Z) ->
         forall (n : nat) (ops : list Meta.op) (w' : Meta.cworld) (obs : list (list Z)) 
           (s : Z) (sl : Meta.cslot) (f : Meta.cfile),
         Forall op_repr ops ->
         Meta.c_run hashf nfc (Meta.cworld0 n) ops = Some (w', obs) ->
         Meta.slot_get w' s = Some sl -> Meta.cs_file sl = Some f -> file_inv hashf f.
Proof. exact @table_inv_reachable. Qed.
Print Assumptions C07_table_inv_reachable.

Theorem C07_name_id_agree :
  forall hashf : list Base.byte -> Z -> Z,
         (forall (nm : list Base.byte) (hs : Z), hs_ok hs -> (0 <= hashf nm hs < hs)%Z) ->
         forall f : Meta.cfile,
         file_inv hashf f ->
         let m := Meta.cf_meta f in
         (forall (i : nat) (nm : list Base.byte),
          Meta.hfind hashf (Meta.dnames m) (Meta.cm_dtab m) nm = Some (Some i) <->
          nth_error (Meta.dnames m) i = Some nm) /\
         (forall (i : nat) (nm : list Base.byte),
          Meta.hfind hashf (Meta.vnames m) (Meta.cm_vtab m) nm = Some (Some i) <->
          nth_error (Meta.vnames m) i = Some nm) /\
         (forall (v : Z) (ca : Meta.cattrs) (i : nat) (nm : list Base.byte),
          Meta.get_ca m v = Some ca ->
          Meta.ca_find hashf ca nm = Some (Some i) <-> nth_error (Meta.ca_names ca) i = Some nm).
Proof. exact @name_id_agree. Qed.
Print Assumptions C07_name_id_agree.

Theorem C07_datamode_update_in_file :
  forall (hashf : list Base.byte -> Z -> Z) (nfc : list Base.byte -> list Base.byte),
         (forall (nm : list Base.byte) (hs : Z), hs_ok hs -> (0 <= hashf nm hs < hs)%Z) ->
         (forall nm : list Base.byte,
          (Base.Zlen nm <= Gen_consts.NC_MAX_NAME)%Z ->
          (Base.Zlen (nfc nm) <= Gen_consts.NC_MAX_INT)%Z) ->
         forall (n : nat) (ops : list Meta.op) (w' : Meta.cworld) (obs : list (list Z)) 
           (s : Z) (sl : Meta.cslot) (f : Meta.cfile),
         Forall op_repr ops ->
         Meta.c_run hashf nfc (Meta.cworld0 n) ops = Some (w', obs) ->
         Meta.slot_get w' s = Some sl ->
         Meta.cs_file sl = Some f ->
         Meta.cf_indef f = false ->
         exists rest : list Base.byte,
           Meta.cs_disk sl = Some (Header.encode_header (Meta.cf_hdr f) ++ rest) /\
           Header.hdr_len (Meta.cf_hdr f) = Base.Zlen (Header.encode_header (Meta.cf_hdr f)).
Proof. exact @datamode_update_in_file. Qed.
Print Assumptions C07_datamode_update_in_file.

Theorem C07_datamode_no_growth :
  forall (nfc : list Base.byte -> list Base.byte) (f : Meta.sfile),
         Meta.sf_indef f = false ->
         hdr_ok (Meta.sf_hdr f) ->
         (forall (v : Z) (nm : list Base.byte) (t : Z) (vals : list Z),
          (Header.hdr_len (Meta.sf_hdr (fst (fst (Meta.s_put_att nfc f v nm t vals)))) <=
           Header.hdr_len (Meta.sf_hdr f))%Z) /\
         (forall (v : Z) (nm nnm : list Base.byte),
          (Header.hdr_len (Meta.sf_hdr (fst (fst (Meta.s_rename_att nfc f v nm nnm)))) <=
           Header.hdr_len (Meta.sf_hdr f))%Z) /\
         (forall (id : Z) (nm : list Base.byte),
          (Header.hdr_len (Meta.sf_hdr (fst (fst (Meta.s_rename_dim nfc f id nm)))) <=
           Header.hdr_len (Meta.sf_hdr f))%Z) /\
         (forall (id : Z) (nm : list Base.byte),
          (Header.hdr_len (Meta.sf_hdr (fst (fst (Meta.s_rename_var nfc f id nm)))) <=
           Header.hdr_len (Meta.sf_hdr f))%Z) /\
         (forall (v : Z) (nm : list Base.byte) (a : Header.att) (self : bool),
          Header.valid_type (Header.h_format (Meta.sf_hdr f)) (Header.a_type a) = true ->
          (0 <= Header.a_nelems a)%Z ->
          (Header.hdr_len (Meta.sf_hdr (fst (fst (Meta.s_copy_write nfc f v nm a self)))) <=
           Header.hdr_len (Meta.sf_hdr f))%Z).
Proof. exact @datamode_no_growth. Qed.
Print Assumptions C07_datamode_no_growth.

Theorem C07_header_always_decodable :
  forall h : Header.hdr, hdr_ok h -> Proofs_Header.wf_hdr h = true.
Proof. exact @hdr_ok_wf. Qed.
Print Assumptions C07_header_always_decodable.

Theorem C07_persistence :
  forall (hashf : list Base.byte -> Z -> Z) (nfc : list Base.byte -> list Base.byte),
         (forall (nm : list Base.byte) (hs : Z), hs_ok hs -> (0 <= hashf nm hs < hs)%Z) ->
         forall (w : Meta.cworld) (s : Z) (sl : Meta.cslot) (f : Meta.cfile) 
           (mode : Z) (hd hv hg ha : option Z) (bl : list Z),
         hint_ok hd ->
         hint_ok hv ->
         hint_ok hg ->
         hint_ok ha ->
         world_inv hashf w ->
         Meta.slot_get w s = Some sl ->
         Meta.cs_file sl = Some f ->
         Meta.cf_indef f = false ->
         exists (w1 w2 : Meta.cworld) (sl2 : Meta.cslot) (f2 : Meta.cfile),
           Meta.c_step hashf nfc w (Meta.OClose s bl) = Some (w1, Gen_consts.NC_NOERR :: nil) /\
           Meta.c_step hashf nfc w1 (Meta.OOpen s mode hd hv hg ha) =
           Some (w2, Gen_consts.NC_NOERR :: nil) /\
           Meta.slot_get w2 s = Some sl2 /\
           Meta.cs_file sl2 = Some f2 /\ Meta.cf_hdr f2 = Meta.cf_hdr f /\ file_inv hashf f2.
Proof. exact @persistence. Qed.
Print Assumptions C07_persistence.

Theorem C07_nfc_table_meets_assumption :
  forall nm : list Base.byte,
         (Base.Zlen nm <= Gen_consts.NC_MAX_NAME)%Z ->
         (Base.Zlen (Meta.nfc_tab nm) <= Gen_consts.NC_MAX_INT)%Z.
Proof. exact @nfc_tab_len. Qed.
Print Assumptions C07_nfc_table_meets_assumption.

Theorem C07_hash_size_0_old_refuted :
  Meta.hint_size_old (Some 0%Z) Gen_consts.PNC_HSIZE_DIM = 0%Z /\
         Meta.c_def_dim Meta.bernstein Meta.nfc_tab
           (Meta.c_create_file 1
              {|
                Meta.hc_dim := Meta.hint_size_old (Some 0%Z) Gen_consts.PNC_HSIZE_DIM;
                Meta.hc_var := 256;
                Meta.hc_gatt := 64;
                Meta.hc_vatt := 8
              |}) (120%Z :: nil) 5 = None.
Proof. exact @hint_size_old_refuted. Qed.
Print Assumptions C07_hash_size_0_old_refuted.

Theorem C07_hint_size_repaired :
  forall v d : Z,
         hs_ok d -> (v <= Gen_consts.NC_MAX_INT)%Z -> hs_ok (Meta.hint_size (Some v) d).
Proof. exact @hint_size_repaired. Qed.
Print Assumptions C07_hint_size_repaired.

Theorem C07_example_history_defined :
  exists (w : Meta.cworld) (obs : list (list Z)),
           Meta.c_run Meta.bernstein Meta.nfc_tab (Meta.cworld0 1) ex_ops = Some (w, obs) /\
           snd (Meta.s_run Meta.nfc_tab (Meta.sworld0 1) ex_ops) = obs /\
           nth 12 obs nil = Gen_consts.NC_NOERR :: 0%Z :: nil.
Proof. exact @ex_run_defined. Qed.
Print Assumptions C07_example_history_defined.

Theorem C07_example_history_representable :
  Forall op_repr ex_ops.
Proof. exact @ex_ops_repr. Qed.
Print Assumptions C07_example_history_representable.
