(* Proofs_Disk.v — generic lemmas about the byte-map disk (Disk.v) and the Z-indexed list
   helpers of Base.v: znth / zseq / zrange / dk_read / dk_write, and folds of writes.
   All reasoning about a disk is extensional, through dk_get / dk_size / dk_exists. *)
From Pnc Require Import Disk.
Require Import Lia ZArith List Bool ZifyBool.
Import ListNotations.
Local Open Scope Z_scope.

(* ---------- Zlen ---------- *)
Lemma Zlen_nil A : Zlen (@nil A) = 0.
Proof. reflexivity. Qed.

Lemma Zlen_cons A (x : A) l : Zlen (x :: l) = Zlen l + 1.
Proof. unfold Zlen. cbn [length]. lia. Qed.

Lemma Zlen_nonneg {A} (l : list A) : 0 <= Zlen l.
Proof. unfold Zlen. lia. Qed.

Lemma Zlen_map {A B} (f : A -> B) l : Zlen (map f l) = Zlen l.
Proof. unfold Zlen. now rewrite map_length. Qed.

Lemma Zlen_app {A} (l1 l2 : list A) : Zlen (l1 ++ l2) = Zlen l1 + Zlen l2.
Proof. unfold Zlen. rewrite app_length. lia. Qed.

Lemma Zlen_zero_nil {A} (l : list A) : Zlen l = 0 -> l = [].
Proof. destruct l as [|a l]; [reflexivity|]. rewrite Zlen_cons. pose proof (Zlen_nonneg l). lia. Qed.

Lemma Zlen_pos_not_nil {A} (l : list A) : 0 < Zlen l <-> l <> [].
Proof.
  split.
  - intros H E. subst l. rewrite Zlen_nil in H. lia.
  - intros H. destruct l as [|a l]; [congruence|]. rewrite Zlen_cons. pose proof (Zlen_nonneg l). lia.
Qed.

(* ---------- zseq / zrange ---------- *)
Lemma Zlen_zseq s n : Zlen (zseq s n) = Z.of_nat n.
Proof.
  revert s. induction n as [|n IH]; intros s.
  - reflexivity.
  - cbn [zseq]. rewrite Zlen_cons, IH. lia.
Qed.

Lemma Zlen_zrange lo n : Zlen (zrange lo n) = Z.max 0 n.
Proof. unfold zrange. rewrite Zlen_zseq. lia. Qed.

Lemma In_zseq s n x : In x (zseq s n) <-> s <= x < s + Z.of_nat n.
Proof.
  revert s. induction n as [|n IH]; intros s.
  - cbn [zseq In]. lia.
  - cbn [zseq In]. rewrite IH. lia.
Qed.

Lemma In_zrange lo n x : In x (zrange lo n) <-> lo <= x < lo + n.
Proof. unfold zrange. rewrite In_zseq. lia. Qed.

Lemma zseq_S_app s n : zseq s (S n) = zseq s n ++ [s + Z.of_nat n].
Proof.
  revert s. induction n as [|n IH]; intros s.
  - cbn [zseq app]. f_equal. lia.
  - change (zseq s (S (S n))) with (s :: zseq (s + 1) (S n)).
    rewrite IH. cbn [zseq app]. do 3 f_equal. lia.
Qed.

Lemma rev_zseq_S s n : rev (zseq s (S n)) = (s + Z.of_nat n) :: rev (zseq s n).
Proof. rewrite zseq_S_app, rev_app_distr. reflexivity. Qed.

Lemma znth_zseq s n i d : 0 <= i < Z.of_nat n -> znth (zseq s n) i d = s + i.
Proof.
  revert s i. induction n as [|n IH]; intros s i Hi.
  - lia.
  - cbn [zseq znth]. destruct (Z.eqb_spec i 0) as [E|E].
    + lia.
    + rewrite IH by lia. lia.
Qed.

Lemma znth_zrange lo n i d : 0 <= i < n -> znth (zrange lo n) i d = lo + i.
Proof. intros Hi. unfold zrange. apply znth_zseq. lia. Qed.

(* ---------- znth ---------- *)
Lemma znth_map {A B} (f : A -> B) l i da db :
  0 <= i < Zlen l -> znth (map f l) i db = f (znth l i da).
Proof.
  revert i. induction l as [|a l IH]; intros i Hi.
  - rewrite Zlen_nil in Hi. lia.
  - rewrite Zlen_cons in Hi. cbn [map znth].
    destruct (Z.eqb_spec i 0) as [E|E]; [reflexivity|]. apply IH. lia.
Qed.

Lemma znth_In {A} (l : list A) i d : 0 <= i < Zlen l -> In (znth l i d) l.
Proof.
  revert i. induction l as [|a l IH]; intros i Hi.
  - rewrite Zlen_nil in Hi. lia.
  - rewrite Zlen_cons in Hi. cbn [znth In].
    destruct (Z.eqb_spec i 0) as [E|E]; [now left|]. right. apply IH. lia.
Qed.

(* ---------- dk_read ---------- *)
Lemma Zlen_dk_read d o n : Zlen (dk_read d o n) = Z.max 0 n.
Proof. unfold dk_read. rewrite Zlen_map. apply Zlen_zrange. Qed.

Lemma znth_dk_read d o n i : 0 <= i < n -> znth (dk_read d o n) i 0 = dk_get d (o + i).
Proof.
  intros Hi. unfold dk_read.
  rewrite (znth_map (dk_get d) (zrange o n) i 0 0) by (rewrite Zlen_zrange; lia).
  now rewrite znth_zrange by lia.
Qed.

Lemma dk_read_nil d o n : n <= 0 -> dk_read d o n = [].
Proof. intros H. apply Zlen_zero_nil. rewrite Zlen_dk_read. lia. Qed.

(* ---------- dk_write ---------- *)
Lemma dk_get_write d off bs x :
  dk_get (dk_write d off bs) x =
  if (off <=? x) && (x <? off + Zlen bs) then znth bs (x - off) 0 else dk_get d x.
Proof.
  destruct bs as [|b bs].
  - cbn [dk_write]. rewrite Zlen_nil.
    replace ((off <=? x) && (x <? off + 0)) with false by lia. reflexivity.
  - reflexivity.
Qed.

Lemma dk_size_write d off bs :
  dk_size (dk_write d off bs) =
  if 0 <? Zlen bs then Z.max (dk_size d) (off + Zlen bs) else dk_size d.
Proof.
  destruct bs as [|b bs].
  - reflexivity.
  - pose proof (Zlen_nonneg bs) as Hn.
    replace (0 <? Zlen (b :: bs)) with true by (rewrite Zlen_cons; lia). reflexivity.
Qed.

Lemma dk_exists_write d off bs :
  dk_exists (dk_write d off bs) = (0 <? Zlen bs) || dk_exists d.
Proof.
  destruct bs as [|b bs].
  - reflexivity.
  - pose proof (Zlen_nonneg bs) as Hn.
    replace (0 <? Zlen (b :: bs)) with true by (rewrite Zlen_cons; lia). reflexivity.
Qed.

(* ---------- folds of writes over a list of tiles (offset, bytes) ---------- *)
Definition covers (p : Z * list byte) (x : Z) : Prop := fst p <= x < fst p + Zlen (snd p).

Definition write_tiles (data : list (Z * list byte)) (d : disk) : disk :=
  fold_left (fun acc p => dk_write acc (fst p) (snd p)) data d.

Lemma write_tiles_app l1 l2 d : write_tiles (l1 ++ l2) d = write_tiles l2 (write_tiles l1 d).
Proof. unfold write_tiles. apply fold_left_app. Qed.

Lemma write_tiles_get_out data d x :
  (forall p, In p data -> ~ covers p x) ->
  dk_get (write_tiles data d) x = dk_get d x.
Proof.
  revert d. induction data as [|q data IH]; intros d H.
  - reflexivity.
  - change (write_tiles (q :: data) d) with (write_tiles data (dk_write d (fst q) (snd q))).
    rewrite IH by (intros p Hp; apply H; now right).
    rewrite dk_get_write.
    assert (Hq : ~ covers q x) by (apply H; now left). unfold covers in Hq.
    replace ((fst q <=? x) && (x <? fst q + Zlen (snd q))) with false by lia. reflexivity.
Qed.

(* if at least one tile covers x and every covering tile carries the value v at x, the result
   holds v at x (in particular when the covering tile is unique) *)
Lemma write_tiles_get_in data d x v :
  (exists p, In p data /\ covers p x) ->
  (forall q, In q data -> covers q x -> znth (snd q) (x - fst q) 0 = v) ->
  dk_get (write_tiles data d) x = v.
Proof.
  induction data as [|q data IH] using rev_ind; intros [p [Hp Hc]] Hv.
  - destruct Hp.
  - rewrite write_tiles_app.
    change (write_tiles [q] (write_tiles data d))
      with (dk_write (write_tiles data d) (fst q) (snd q)).
    rewrite dk_get_write.
    destruct ((fst q <=? x) && (x <? fst q + Zlen (snd q))) eqn:E.
    + apply Hv; [apply in_or_app; right; now left | unfold covers; lia].
    + apply IH.
      * exists p. split; [|exact Hc]. apply in_app_or in Hp. destruct Hp as [Hp|[Hp|[]]]; [exact Hp|].
        subst p. unfold covers in Hc. lia.
      * intros r Hr. apply Hv. apply in_or_app. now left.
Qed.

Lemma write_tiles_size_mono data d : dk_size d <= dk_size (write_tiles data d).
Proof.
  revert d. induction data as [|q data IH]; intros d.
  - cbn. lia.
  - change (write_tiles (q :: data) d) with (write_tiles data (dk_write d (fst q) (snd q))).
    specialize (IH (dk_write d (fst q) (snd q))). rewrite dk_size_write in IH.
    destruct (0 <? Zlen (snd q)); lia.
Qed.

Lemma write_tiles_size_ge data d p :
  In p data -> 0 < Zlen (snd p) -> fst p + Zlen (snd p) <= dk_size (write_tiles data d).
Proof.
  revert d. induction data as [|q data IH]; intros d Hp Hl.
  - destruct Hp.
  - change (write_tiles (q :: data) d) with (write_tiles data (dk_write d (fst q) (snd q))).
    destruct Hp as [Hp|Hp].
    + subst q. pose proof (write_tiles_size_mono data (dk_write d (fst p) (snd p))) as Hm.
      rewrite dk_size_write in Hm. replace (0 <? Zlen (snd p)) with true in Hm by lia. lia.
    + now apply IH.
Qed.

Lemma write_tiles_size_le data d B :
  (forall p, In p data -> 0 < Zlen (snd p) -> fst p + Zlen (snd p) <= B) ->
  dk_size (write_tiles data d) <= Z.max (dk_size d) B.
Proof.
  revert d. induction data as [|q data IH]; intros d H.
  - cbn. lia.
  - change (write_tiles (q :: data) d) with (write_tiles data (dk_write d (fst q) (snd q))).
    assert (H' : forall p, In p data -> 0 < Zlen (snd p) -> fst p + Zlen (snd p) <= B)
      by (intros p Hp; apply H; now right).
    specialize (IH (dk_write d (fst q) (snd q)) H'). rewrite dk_size_write in IH.
    destruct (0 <? Zlen (snd q)) eqn:E.
    + assert (fst q + Zlen (snd q) <= B) by (apply H; [now left|lia]). lia.
    + lia.
Qed.

Lemma write_tiles_size data d B :
  (forall p, In p data -> 0 < Zlen (snd p) -> fst p + Zlen (snd p) <= B) ->
  (exists p, In p data /\ 0 < Zlen (snd p) /\ fst p + Zlen (snd p) = B) ->
  dk_size (write_tiles data d) = Z.max (dk_size d) B.
Proof.
  intros Hle [p [Hp [Hl He]]].
  pose proof (write_tiles_size_le data d B Hle).
  pose proof (write_tiles_size_ge data d p Hp Hl).
  pose proof (write_tiles_size_mono data d). lia.
Qed.

Lemma write_tiles_exists data d :
  dk_exists (write_tiles data d) = existsb (fun p => 0 <? Zlen (snd p)) data || dk_exists d.
Proof.
  revert d. induction data as [|q data IH]; intros d.
  - reflexivity.
  - change (write_tiles (q :: data) d) with (write_tiles data (dk_write d (fst q) (snd q))).
    rewrite IH, dk_exists_write. cbn [existsb].
    destruct (0 <? Zlen (snd q)), (existsb (fun p => 0 <? Zlen (snd p)) data), (dk_exists d); reflexivity.
Qed.
