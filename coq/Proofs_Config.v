(* Proofs_Config.v — theorems about Config.v (property C10):
     align_precedence            closed form of the alignment resolution: a precedence list
     env_over_info_*             PNETCDF_HINTS overrides the MPI_Info argument, key by key
     offsets_only_by_alignment   non-interference: the layout is a function of the schema, the
                                 alignment part of the configuration and the enddef arguments
     reported_hints_in_force     what inq_file_info reports after enddef is what begins used
     ibuf_pack_equiv / ibuf_unpack_equiv   the packing-buffer branch never changes the bytes
     swap_mode_equiv             in-place swap + swap back == swap in a copy
     hash_sizes_positive         every accepted configuration has positive name-table sizes (the
                                 pre-fix code, which accepted 0 - F9 -, is refuted: hash_sizes_old_refuted)
   No axioms. *)
From Pnc Require Import Config Proofs_Disk Proofs_Lists.
Require Import String.
Require Import Lia ZArith List Bool ZifyBool.
Import ListNotations.
Local Open Scope string_scope.
Local Open Scope list_scope.
Ltac Zify.zify_post_hook ::= Z.div_mod_to_equations.
Local Open Scope Z_scope.
Local Arguments Z.mul : simpl never.
Local Arguments Z.add : simpl never.
Local Arguments Z.sub : simpl never.
Local Arguments Z.div : simpl never.
Local Arguments Z.modulo : simpl never.
Local Arguments Z.of_nat : simpl never.
Local Arguments Z.to_nat : simpl never.

(* ================================================================== *)
(* 1. zfirstn / zskipn / zip                                           *)
(* ================================================================== *)
Lemma zfirstn_nonpos {A} n (l : list A) : n <= 0 -> zfirstn n l = [].
Proof. intros H. destruct l as [|x l]; cbn [zfirstn]; [reflexivity|]. destruct (n <=? 0) eqn:E; [reflexivity|lia]. Qed.

Lemma zskipn_nonpos {A} n (l : list A) : n <= 0 -> zskipn n l = l.
Proof. intros H. destruct l as [|x l]; cbn [zskipn]; [reflexivity|]. destruct (n <=? 0) eqn:E; [reflexivity|lia]. Qed.

Lemma zfirstn_cons {A} n (x : A) l : 0 < n -> zfirstn n (x :: l) = x :: zfirstn (n - 1) l.
Proof. intros H. cbn [zfirstn]. destruct (n <=? 0) eqn:E; [lia|reflexivity]. Qed.

Lemma zskipn_cons {A} n (x : A) l : 0 < n -> zskipn n (x :: l) = zskipn (n - 1) l.
Proof. intros H. cbn [zskipn]. destruct (n <=? 0) eqn:E; [lia|reflexivity]. Qed.

Lemma zfirstn_zskipn {A} n (l : list A) : zfirstn n l ++ zskipn n l = l.
Proof.
  revert n. induction l as [|x l IH]; intros n; [reflexivity|].
  destruct (Z_le_gt_dec n 0) as [H|H].
  - rewrite zfirstn_nonpos, zskipn_nonpos by lia. reflexivity.
  - rewrite zfirstn_cons, zskipn_cons by lia. cbn [app]. now rewrite IH.
Qed.

Lemma zfirstn_all {A} n (l : list A) : Zlen l <= n -> zfirstn n l = l.
Proof.
  revert n. induction l as [|x l IH]; intros n H; [reflexivity|].
  rewrite Zlen_cons in H. pose proof (Zlen_nonneg l).
  rewrite zfirstn_cons by lia. now rewrite IH by lia.
Qed.

Lemma zskipn_all {A} n (l : list A) : Zlen l <= n -> zskipn n l = [].
Proof.
  revert n. induction l as [|x l IH]; intros n H; [reflexivity|].
  rewrite Zlen_cons in H. pose proof (Zlen_nonneg l).
  rewrite zskipn_cons by lia. now rewrite IH by lia.
Qed.

Lemma Zlen_zfirstn {A} n (l : list A) : Zlen (zfirstn n l) = Z.max 0 (Z.min n (Zlen l)).
Proof.
  revert n. induction l as [|x l IH]; intros n.
  - cbn [zfirstn]. rewrite Zlen_nil. lia.
  - pose proof (Zlen_nonneg l). destruct (Z_le_gt_dec n 0) as [H0|H0].
    + rewrite zfirstn_nonpos by lia. rewrite Zlen_nil, Zlen_cons. lia.
    + rewrite zfirstn_cons by lia. rewrite !Zlen_cons, IH. lia.
Qed.

Lemma Zlen_zskipn {A} n (l : list A) : Zlen (zskipn n l) = Zlen l - Z.max 0 (Z.min n (Zlen l)).
Proof.
  pose proof (zfirstn_zskipn n l) as H. apply (f_equal Zlen) in H.
  rewrite Zlen_app, Zlen_zfirstn in H. lia.
Qed.

Lemma zfirstn_app_exact {A} (a b : list A) : zfirstn (Zlen a) (a ++ b) = a.
Proof.
  induction a as [|x a IH]; cbn [app].
  - rewrite Zlen_nil. apply zfirstn_nonpos. lia.
  - pose proof (Zlen_nonneg a). rewrite Zlen_cons, zfirstn_cons by lia.
    replace (Zlen a + 1 - 1) with (Zlen a) by lia. now rewrite IH.
Qed.

Lemma zskipn_app_exact {A} (a b : list A) : zskipn (Zlen a) (a ++ b) = b.
Proof.
  induction a as [|x a IH]; cbn [app].
  - rewrite Zlen_nil. apply zskipn_nonpos. lia.
  - pose proof (Zlen_nonneg a). rewrite Zlen_cons, zskipn_cons by lia.
    replace (Zlen a + 1 - 1) with (Zlen a) by lia. exact IH.
Qed.

Lemma zfirstn_app_le {A} n (a b : list A) : n <= Zlen a -> zfirstn n (a ++ b) = zfirstn n a.
Proof.
  revert n. induction a as [|x a IH]; intros n H.
  - rewrite Zlen_nil in H. now rewrite !zfirstn_nonpos by lia.
  - cbn [app]. rewrite Zlen_cons in H. destruct (Z_le_gt_dec n 0) as [H0|H0].
    + now rewrite !zfirstn_nonpos by lia.
    + rewrite !zfirstn_cons by lia. now rewrite IH by lia.
Qed.

Lemma zskipn_app_le {A} n (a b : list A) : n <= Zlen a -> zskipn n (a ++ b) = zskipn n a ++ b.
Proof.
  revert n. induction a as [|x a IH]; intros n H.
  - rewrite Zlen_nil in H. now rewrite !zskipn_nonpos by lia.
  - cbn [app]. rewrite Zlen_cons in H. destruct (Z_le_gt_dec n 0) as [H0|H0].
    + now rewrite !zskipn_nonpos by lia.
    + rewrite !zskipn_cons by lia. now rewrite IH by lia.
Qed.

Lemma zskipn_zskipn {A} m n (l : list A) : 0 <= m -> 0 <= n -> zskipn m (zskipn n l) = zskipn (n + m) l.
Proof.
  revert n. induction l as [|x l IH]; intros n Hm Hn.
  - cbn [zskipn]. reflexivity.
  - destruct (Z.eq_dec n 0) as [->|Hn0].
    + rewrite (zskipn_nonpos 0) by lia. f_equal.
    + rewrite (zskipn_cons n) by lia. rewrite (zskipn_cons (n + m)) by lia.
      rewrite IH by lia. f_equal. lia.
Qed.

Lemma zfirstn_zskipn_comm {A} m n (l : list A) : 0 <= m -> 0 <= n ->
  zfirstn m (zskipn n l) = zskipn n (zfirstn (n + m) l).
Proof.
  revert n. induction l as [|x l IH]; intros n Hm Hn.
  - reflexivity.
  - destruct (Z.eq_dec n 0) as [->|Hn0].
    + rewrite !(zskipn_nonpos 0) by lia. f_equal.
    + destruct (Z.eq_dec m 0) as [->|Hm0].
      * rewrite zfirstn_nonpos by lia. rewrite zskipn_all; [reflexivity|].
        rewrite Zlen_zfirstn. lia.
      * rewrite (zskipn_cons n) by lia. rewrite (zfirstn_cons (n + m)) by lia.
        rewrite (zskipn_cons n) by lia. rewrite IH by lia. do 2 f_equal. lia.
Qed.

Lemma zfirstn_zfirstn {A} m n (l : list A) : m <= n -> zfirstn m (zfirstn n l) = zfirstn m l.
Proof.
  revert m n. induction l as [|x l IH]; intros m n H; [reflexivity|].
  destruct (Z_le_gt_dec m 0) as [H0|H0].
  - now rewrite !zfirstn_nonpos by lia.
  - rewrite (zfirstn_cons n) by lia. rewrite !zfirstn_cons by lia. now rewrite IH by lia.
Qed.

Lemma zfirstn_map {A B} (f : A -> B) n l : zfirstn n (map f l) = map f (zfirstn n l).
Proof.
  revert n. induction l as [|x l IH]; intros n; [reflexivity|].
  cbn [map zfirstn]. destruct (n <=? 0); [reflexivity|]. cbn [map]. now rewrite IH.
Qed.

Lemma zskipn_map {A B} (f : A -> B) n l : zskipn n (map f l) = map f (zskipn n l).
Proof.
  revert n. induction l as [|x l IH]; intros n; [reflexivity|].
  cbn [map zskipn]. destruct (n <=? 0); [reflexivity|]. now rewrite IH.
Qed.

Lemma zip_nil_r {A B} (a : list A) : zip a (@nil B) = [].
Proof. destruct a; reflexivity. Qed.

Lemma zip_app_split {A B} (p : list A) (a b : list B) :
  zip p (a ++ b) = zip (zfirstn (Zlen a) p) a ++ zip (zskipn (Zlen a) p) b.
Proof.
  revert p. induction a as [|x a IH]; intros p; cbn [app].
  - rewrite Zlen_nil, zfirstn_nonpos, zskipn_nonpos by lia. reflexivity.
  - destruct p as [|y p]; [reflexivity|].
    pose proof (Zlen_nonneg a). rewrite Zlen_cons, zfirstn_cons, zskipn_cons by lia.
    replace (Zlen a + 1 - 1) with (Zlen a) by lia. cbn [zip app]. now rewrite IH.
Qed.

(* ================================================================== *)
(* 2. scatter: writing a stream in pieces = writing it at once         *)
(* ================================================================== *)
Lemma scatter_app d p a b :
  scatter d p (a ++ b) = scatter (scatter d (zfirstn (Zlen a) p) a) (zskipn (Zlen a) p) b.
Proof. unfold scatter. rewrite zip_app_split. apply fold_left_app. Qed.

Lemma scatter_nil d p : scatter d p [] = d.
Proof. unfold scatter. rewrite zip_nil_r. reflexivity. Qed.

Theorem scatter_pieces_concat : forall pieces d pos,
  scatter_pieces d pos pieces = scatter d pos (concat pieces).
Proof.
  induction pieces as [|p r IH]; intros d pos; cbn [scatter_pieces concat].
  - now rewrite scatter_nil.
  - rewrite scatter_app. apply IH.
Qed.

Lemma length_zskipn_le {A} n (l : list A) : (length (zskipn n l) <= length l)%nat.
Proof.
  revert n. induction l as [|x l IH]; intros n; cbn [zskipn]; [lia|].
  destruct (n <=? 0); cbn [length]; [lia|]. specialize (IH (n - 1)). lia.
Qed.

Lemma concat_chunks : forall fuel n l, (length l <= fuel)%nat -> concat (chunks fuel n l) = l.
Proof.
  induction fuel as [|k IH]; intros n l H; cbn [chunks].
  - destruct l; [reflexivity|cbn [length] in H; lia].
  - destruct l as [|x r]; [reflexivity|].
    destruct (n <=? 0) eqn:E.
    + cbn [concat]. now rewrite app_nil_r.
    + cbn [concat]. rewrite IH.
      * apply zfirstn_zskipn.
      * rewrite zskipn_cons by lia. pose proof (length_zskipn_le (n - 1) r). cbn [length] in H. lia.
Qed.

Lemma concat_chunked n l : concat (chunked n l) = l.
Proof. apply concat_chunks. lia. Qed.

(* the stream reaches the file unchanged whatever the size of the intermediate buffer *)
Theorem scatter_chunked : forall cb d pos s, scatter_pieces d pos (chunked cb s) = scatter d pos s.
Proof. intros. now rewrite scatter_pieces_concat, concat_chunked. Qed.

(* C10 ibuf_pack_equiv: for ANY two values of nc_ibuf_size (and any piece size cb of the MPI
   library) ncmpio_read_write puts the same bytes at the same positions *)
Theorem ibuf_pack_equiv : forall ibuf1 ibuf2 cb contig mem tm d pos,
  rw_write ibuf1 cb contig mem tm d pos = rw_write ibuf2 cb contig mem tm d pos.
Proof.
  intros. unfold rw_write.
  destruct ((0 <? tm_size tm) && negb contig && (tm_size tm <=? ibuf1));
  destruct ((0 <? tm_size tm) && negb contig && (tm_size tm <=? ibuf2));
  rewrite ?scatter_chunked; reflexivity.
Qed.

Corollary rw_write_is_scatter : forall ibuf cb contig mem tm d pos,
  rw_write ibuf cb contig mem tm d pos = scatter d pos (pack mem tm).
Proof.
  intros. unfold rw_write.
  destruct ((0 <? tm_size tm) && negb contig && (tm_size tm <=? ibuf));
  rewrite ?scatter_chunked; reflexivity.
Qed.

Example ibuf_pack_example :
  let mem := [10; 11; 12; 13; 14; 15; 16; 17] in
  let tm := [(0, 2); (4, 3)] in
  let d := rw_write 1 2 false mem tm empty_disk [100; 101; 102; 200; 201] in
  dk_read d 100 3 = [10; 11; 14] /\ dk_read d 200 2 = [15; 16] /\
  d = rw_write 64 2 false mem tm empty_disk [100; 101; 102; 200; 201].
Proof. repeat split; first [reflexivity | apply ibuf_pack_equiv]. Qed.

(* ---------- read side ---------- *)
Definition tm_nonneg (tm : typemap) : Prop := Forall (fun b => 0 <= snd b) tm.

Lemma tm_size_nonneg tm : tm_nonneg tm -> 0 <= tm_size tm.
Proof.
  unfold tm_size. induction 1 as [|b tm Hb _ IH]; cbn [map zsum]; lia.
Qed.

Lemma unpack_direct : forall tm mem (d : disk) pos,
  tm_nonneg tm ->
  unpack mem tm (gather_view d (zfirstn (tm_size tm) pos)) =
  fst (fold_left (fun st b => let '(m, p) := st in
                              (mem_write m (fst b) (gather_view d (zfirstn (snd b) p)), zskipn (snd b) p))
                 tm (mem, pos)).
Proof.
  induction tm as [|[o l] tm IH]; intros mem d pos Hnn; [reflexivity|].
  inversion Hnn as [|b tm' Hl Htm]; subst. cbn [snd] in Hl.
  pose proof (tm_size_nonneg tm Htm) as Hs.
  cbn [unpack fold_left fst snd]. unfold gather_view at 1 2.
  rewrite zfirstn_map, zskipn_map.
  assert (Hsz : tm_size ((o, l) :: tm) = l + tm_size tm) by reflexivity.
  rewrite Hsz. rewrite zfirstn_zfirstn by lia.
  replace (zskipn l (zfirstn (l + tm_size tm) pos)) with (zfirstn (tm_size tm) (zskipn l pos))
    by (apply zfirstn_zskipn_comm; lia).
  fold (gather_view d (zfirstn l pos)). fold (gather_view d (zfirstn (tm_size tm) (zskipn l pos))).
  apply IH. exact Htm.
Qed.

(* C10: a read delivers the same user buffer for any two values of nc_ibuf_size *)
Theorem ibuf_unpack_equiv : forall ibuf1 ibuf2 contig mem tm d pos,
  tm_nonneg tm ->
  rw_read ibuf1 contig mem tm d pos = rw_read ibuf2 contig mem tm d pos.
Proof.
  intros ibuf1 ibuf2 contig mem tm d pos Hnn. unfold rw_read.
  destruct ((0 <? tm_size tm) && negb contig && (tm_size tm <=? ibuf1));
  destruct ((0 <? tm_size tm) && negb contig && (tm_size tm <=? ibuf2));
  rewrite ?unpack_direct by exact Hnn; reflexivity.
Qed.

Example ibuf_unpack_example :
  let d := dk_write empty_disk 100 [1; 2; 3; 4; 5] in
  rw_read 1 false [0; 0; 0; 0; 0; 0; 0; 0] [(6, 2); (0, 3)] d [100; 101; 102; 103; 104]
  = [3; 4; 5; 0; 0; 0; 1; 2] /\
  rw_read 64 false [0; 0; 0; 0; 0; 0; 0; 0] [(6, 2); (0, 3)] d [100; 101; 102; 103; 104]
  = [3; 4; 5; 0; 0; 0; 1; 2].
Proof. split; reflexivity. Qed.

(* ================================================================== *)
(* 3. in-place swap                                                    *)
(* ================================================================== *)
Lemma swapn_nil esz n : swapn esz n [] = [].
Proof. induction n as [|k IH]; cbn [swapn zfirstn zskipn rev app]; [reflexivity|exact IH]. Qed.

Lemma Zlen_rev {A} (l : list A) : Zlen (rev l) = Zlen l.
Proof. unfold Zlen. now rewrite rev_length. Qed.

Theorem swapn_involutive : forall esz n l, swapn esz n (swapn esz n l) = l.
Proof.
  intros esz n. induction n as [|k IH]; intros l; [reflexivity|].
  cbn [swapn].
  destruct (Z_le_gt_dec esz 0) as [He|He].
  { rewrite !zfirstn_nonpos, !zskipn_nonpos by lia. cbn [rev app].
    rewrite ?zfirstn_nonpos, ?zskipn_nonpos by lia. cbn [rev app]. apply IH. }
  destruct (Z_le_gt_dec esz (Zlen l)) as [Hl|Hl].
  - (* a complete group *)
    assert (Hf : Zlen (rev (zfirstn esz l)) = esz) by (rewrite Zlen_rev, Zlen_zfirstn; lia).
    remember (rev (zfirstn esz l)) as F eqn:EF.
    remember (swapn esz k (zskipn esz l)) as R eqn:ER.
    assert (H1 : zfirstn esz (F ++ R) = F) by (rewrite <- Hf; apply zfirstn_app_exact).
    assert (H2 : zskipn esz (F ++ R) = R) by (rewrite <- Hf; apply zskipn_app_exact).
    rewrite H1, H2. subst F R. rewrite rev_involutive, IH.
    apply zfirstn_zskipn.
  - (* the list ends inside this group *)
    rewrite (zfirstn_all esz l), (zskipn_all esz l) by lia.
    rewrite swapn_nil, app_nil_r.
    rewrite zfirstn_all, zskipn_all by (rewrite Zlen_rev; lia).
    now rewrite swapn_nil, app_nil_r, rev_involutive.
Qed.

Lemma slice_all buf : slice buf 0 (Zlen buf) = buf.
Proof. unfold slice. rewrite zskipn_nonpos by lia. apply zfirstn_all. lia. Qed.

Lemma length_swapn esz n l : length (swapn esz n l) = length l.
Proof.
  revert l. induction n as [|k IH]; intros l; [reflexivity|].
  cbn [swapn]. rewrite app_length, rev_length, IH, <- app_length. now rewrite zfirstn_zskipn.
Qed.

(* when the buffer type is contiguous its type map is the one block [0, nbytes) and the buffer
   holds exactly the request *)
Definition contig_ok (contig : bool) (esz : Z) (nelems : nat) (buf : list byte) (tm : typemap) : Prop :=
  contig = true -> tm = [(0, Z.of_nat nelems * esz)] /\ Zlen buf = Z.of_nat nelems * esz.

(* C10 swap_mode_equiv: whatever nc_in_place_swap says (and on whichever side of
   NC_BYTE_SWAP_BUFFER_SIZE the request lies) the same bytes go to the file and the user buffer
   is returned unchanged *)
Theorem swap_mode_equiv : forall m1 m2 need_swap contig esz nelems buf tm,
  contig_ok contig esz nelems buf tm ->
  p_stream (put_bytes m1 need_swap contig esz nelems buf tm) =
  p_stream (put_bytes m2 need_swap contig esz nelems buf tm) /\
  p_buf_after (put_bytes m1 need_swap contig esz nelems buf tm) = buf.
Proof.
  intros m1 m2 need_swap contig esz nelems buf tm Hc.
  assert (Hkey : contig = true ->
                 pack (swapn esz nelems buf) tm = swapn esz nelems (pack buf tm)).
  { intros E. destruct (Hc E) as [-> Hlen]. unfold pack. cbn [flat_map fst snd].
    rewrite !app_nil_r. rewrite <- Hlen. rewrite slice_all.
    replace (Zlen buf) with (Zlen (swapn esz nelems buf))
      by (unfold Zlen; now rewrite length_swapn).
    now rewrite slice_all. }
  unfold put_bytes.
  destruct need_swap; cbn [negb orb].
  - destruct contig.
    + specialize (Hkey eq_refl). rewrite !andb_true_r.
      destruct (can_swap_in_place m1 true (Z.of_nat nelems * esz));
      destruct (can_swap_in_place m2 true (Z.of_nat nelems * esz)); cbn [p_stream p_buf_after];
        rewrite ?swapn_involutive; auto.
    + rewrite !andb_false_r. cbn [p_stream p_buf_after]. auto.
  - cbn [p_stream p_buf_after]. auto.
Qed.

(* the in-place branch is really taken on one side of the threshold and not on the other *)
Example swap_mode_example :
  let buf := [1; 2; 3; 4; 5; 6; 7; 8] in
  let tm := [(0, 8)] in
  p_inplace (put_bytes SwapOn true true 4 2 buf tm) = true /\
  p_inplace (put_bytes SwapAuto true true 4 2 buf tm) = false /\
  p_inplace (put_bytes SwapOff true true 4 2 buf tm) = false /\
  p_stream (put_bytes SwapOn true true 4 2 buf tm) = [4; 3; 2; 1; 8; 7; 6; 5] /\
  p_buf_during (put_bytes SwapOn true true 4 2 buf tm) = [4; 3; 2; 1; 8; 7; 6; 5] /\
  p_buf_after (put_bytes SwapOn true true 4 2 buf tm) = buf /\
  can_swap_in_place SwapAuto true 4096 = false /\ can_swap_in_place SwapAuto true 4097 = true.
Proof. repeat split; reflexivity. Qed.

(* ================================================================== *)
(* 4. alignment precedence                                             *)
(* ================================================================== *)
(* first positive element, 0 when there is none *)
Fixpoint first_pos (l : list Z) : Z :=
  match l with [] => 0 | x :: r => if x >? 0 then x else first_pos r end.
(* all CDF formats require 4-byte alignment *)
Definition fin4 (x : Z) : Z := if x =? 0 then 4 else rndup x 4.

(* C10 align_precedence.  hints (already merged: PNETCDF_HINTS over MPI_Info) over the
   arguments of ncmpi__enddef over the defaults; exactly as implemented:
     h_align : nc_header_align_size, nc_var_align_size, v_align argument,
               then - only when no fixed-size variable is counted - nc_record_align_size and the
               r_align argument, then 512 on a new file, else 4
     v_align : nc_var_align_size, v_align argument, 4
     r_align : nc_record_align_size, r_align argument, 4
   every value is rounded up to a multiple of 4. *)
Theorem align_precedence : forall cfg ea nfix is_new,
  0 <= env_h_align cfg -> 0 <= env_v_align cfg -> 0 <= env_r_align cfg ->
  resolve_align cfg ea nfix is_new =
  (fin4 (first_pos [env_h_align cfg; env_v_align cfg; e_v_align ea;
                    (if nfix =? 0 then env_r_align cfg else 0);
                    (if nfix =? 0 then e_r_align ea else 0);
                    (if is_new then FILE_ALIGNMENT_DEFAULT else 0)]),
   fin4 (first_pos [env_v_align cfg; e_v_align ea]),
   fin4 (first_pos [env_r_align cfg; e_r_align ea])).
Proof.
  intros [h v r] [hm va vm ra] nfix is_new Hh Hv Hr.
  cbn [env_h_align env_v_align env_r_align e_v_align e_r_align] in *.
  unfold resolve_align, fin4, first_pos, FILE_ALIGNMENT_DEFAULT.
  cbn [env_h_align env_v_align env_r_align e_v_align e_r_align].
  destruct is_new;
  repeat (cbn [andb Z.eqb Z.gtb Z.compare]; try lia; try reflexivity;
          match goal with
          | |- context [?a =? 0] => is_var a; destruct (a =? 0) eqn:?
          | |- context [?a >? 0] => is_var a; destruct (a >? 0) eqn:?
          end).
Qed.

Lemma rndup4_props x : 0 < x -> 4 <= rndup x 4 /\ rndup x 4 mod 4 = 0 /\ x <= rndup x 4 < x + 4.
Proof. intros H. unfold rndup. cbn [Z.eqb]. lia. Qed.

Lemma first_pos_nonneg l : 0 <= first_pos l.
Proof. induction l as [|x l IH]; cbn [first_pos]; [lia|]. destruct (x >? 0) eqn:E; lia. Qed.

Lemma fin4_props x : 0 <= x -> 4 <= fin4 x /\ fin4 x mod 4 = 0 /\ x <= fin4 x.
Proof.
  intros H. unfold fin4. destruct (x =? 0) eqn:E.
  - assert (x = 0) by lia. subst. cbn. lia.
  - pose proof (rndup4_props x). lia.
Qed.

(* whatever the hints and arguments, the alignments used by NC_begins are positive multiples of 4 *)
Theorem resolved_alignment_mult4 : forall cfg ea nfix is_new ha va ra,
  0 <= env_h_align cfg -> 0 <= env_v_align cfg -> 0 <= env_r_align cfg ->
  resolve_align cfg ea nfix is_new = (ha, va, ra) ->
  (4 <= ha /\ ha mod 4 = 0) /\ (4 <= va /\ va mod 4 = 0) /\ (4 <= ra /\ ra mod 4 = 0).
Proof.
  intros cfg ea nfix is_new ha va ra Hh Hv Hr H.
  rewrite align_precedence in H by assumption.
  apply pair_equal_spec in H. destruct H as [H Hra].
  apply pair_equal_spec in H. destruct H as [Hha Hva]. subst ha va ra.
  repeat split; apply fin4_props; apply first_pos_nonneg.
Qed.

Lemma align_hint_nonneg ui k : 0 <= align_hint ui k.
Proof.
  unfold align_hint. destruct (uget ui k) as [v|]; [|lia].
  destruct (strtoll v) as [x|]; [|lia]. destruct (x <? 0) eqn:E; lia.
Qed.

Lemma open_config_align_nonneg user env hook safe np :
  let c := fst (open_config user env hook safe np) in
  0 <= env_h_align (c_align c) /\ 0 <= env_v_align (c_align c) /\ 0 <= env_r_align (c_align c).
Proof.
  unfold open_config, set_pnetcdf_hints.
  destruct (swap_hint _) as [sw swstr]. cbn [fst c_align env_h_align env_v_align env_r_align].
  repeat split; apply align_hint_nonneg.
Qed.

(* ---------- PNETCDF_HINTS over MPI_Info ---------- *)
(* the value the environment string finally assigns to key k, if any *)
Definition env_last (items : list env_item) (k : list byte) : option (list byte) :=
  fold_left (fun acc it => match it with
                           | EnvSet k' v => if bytes_eqb k k' then Some v else acc
                           | _ => acc
                           end) items None.

Lemma bytes_eqb_refl k : bytes_eqb k k = true.
Proof. unfold bytes_eqb. induction k as [|b k IH]; cbn [list_eqb]; [reflexivity|]. rewrite IH, Z.eqb_refl. reflexivity. Qed.

Lemma bytes_eqb_eq a b : bytes_eqb a b = true -> a = b.
Proof.
  unfold bytes_eqb. revert b. induction a as [|x a IH]; intros [|y b] H; cbn [list_eqb] in H; try discriminate; [reflexivity|].
  apply andb_prop in H. destruct H as [H1 H2]. f_equal; [lia|now apply IH].
Qed.

Lemma bytes_eqb_sym a b : bytes_eqb a b = bytes_eqb b a.
Proof.
  destruct (bytes_eqb a b) eqn:E.
  - apply bytes_eqb_eq in E. subst. symmetry. apply bytes_eqb_refl.
  - destruct (bytes_eqb b a) eqn:E'; [|reflexivity].
    apply bytes_eqb_eq in E'. subst. rewrite bytes_eqb_refl in E. discriminate.
Qed.

Lemma info_get_del_same k i : info_get k (info_del k i) = None.
Proof.
  induction i as [|[k' v] i IH]; cbn [info_del info_get]; [reflexivity|].
  destruct (bytes_eqb k k') eqn:E; [exact IH|]. cbn [info_get]. now rewrite E.
Qed.

Lemma info_get_del_other k k' i : bytes_eqb k k' = false -> info_get k (info_del k' i) = info_get k i.
Proof.
  intros Hne. induction i as [|[k2 v] i IH]; cbn [info_del info_get]; [reflexivity|].
  destruct (bytes_eqb k' k2) eqn:E.
  - apply bytes_eqb_eq in E. subst k2. now rewrite Hne.
  - cbn [info_get]. now rewrite IH.
Qed.

Lemma info_get_set k k' v i :
  info_get k (info_set k' v i) = if bytes_eqb k k' then Some v else info_get k i.
Proof.
  unfold info_set. cbn [info_get]. destruct (bytes_eqb k k') eqn:E; [reflexivity|].
  now apply info_get_del_other.
Qed.

Lemma combine_fold_get : forall items acc k,
  uget (fold_left (fun acc it =>
                     match it with
                     | EnvSet k v => Some (info_set k v (match acc with Some i => i | None => [] end))
                     | EnvSkip => acc
                     end) items acc) k =
  match fold_left (fun a it => match it with
                               | EnvSet k' v => if bytes_eqb k k' then Some v else a
                               | _ => a
                               end) items None with
  | Some v => Some v
  | None => uget acc k
  end.
Proof.
  induction items as [|it items IH] using rev_ind; intros acc k.
  - reflexivity.
  - rewrite !fold_left_app. cbn [fold_left].
    destruct it as [k' v|].
    + cbn [uget]. rewrite info_get_set. destruct (bytes_eqb k k') eqn:E; [reflexivity|].
      specialize (IH acc k). destruct (fold_left _ items acc) as [i|]; cbn [uget] in *; [exact IH|].
      cbn [info_get]. exact IH.
    + apply IH.
Qed.

(* C10 align_precedence, first half: a well-formed "k=v" in PNETCDF_HINTS decides the value of
   hint k whatever the MPI_Info argument holds; a key the environment does not set keeps the
   MPI_Info value *)
Theorem env_over_info : forall user s k,
  uget (combine_env_hints user (Some s)) k =
  match env_last (env_items s) k with
  | Some v => Some v
  | None => uget user k
  end.
Proof. intros. unfold combine_env_hints, env_last. apply combine_fold_get. Qed.

Corollary env_over_info_align : forall user s k v,
  env_last (env_items s) k = Some v ->
  forall user', align_hint (combine_env_hints user (Some s)) k =
                align_hint (combine_env_hints user' (Some s)) k.
Proof. intros user s k v H user'. unfold align_hint. now rewrite !env_over_info, H. Qed.

Corollary env_absent_keeps_info : forall user k,
  uget (combine_env_hints user None) k = uget user k.
Proof. reflexivity. Qed.

(* ill-formed pieces are skipped, among them "key=" and "key= value" (whose value the first
   strtok cuts off): no MPI_Info_set with a NULL value any more *)
Example env_items_example :
  env_items (B "a=1; b = 2;c=;;nc_x=3=4; d=5 ;e= 6") =
  [EnvSet (B "a") (B "1"); EnvSkip; EnvSkip; EnvSkip; EnvSkip; EnvSet (B "d") (B "5"); EnvSkip].
Proof. reflexivity. Qed.

Example env_over_info_example :
  let user := Some [(k_h_align, B "100"); (k_r_align, B "8")] in
  let env := Some (B "nc_header_align_size=64;nc_var_align_size = 9; nc_hash_size_dim=2 ;") in
  let c := fst (open_config user env None None 1) in
  c_align c = mkalign 64 0 8 /\ c_hash_dim c = 2 /\
  resolve_align (c_align c) (mkeargs 0 32 0 16) 1 true = (64, 32, 8).
Proof. repeat split; reflexivity. Qed.

(* ================================================================== *)
(* 5. non-interference: the layout depends on the alignment part only  *)
(* ================================================================== *)
(* C10 offsets_only_by_alignment: two configurations that agree on the three alignment hints
   give the same alignments and the same layout for every schema, enddef arguments and history —
   whatever nprocs, hash sizes, ibuf size, swap mode, chunk size, collective header I/O,
   aggregators per node and safe mode are *)
Theorem offsets_only_by_alignment : forall c1 c2 h ea stale old prev,
  c_align c1 = c_align c2 ->
  cfg_enddef c1 h ea stale old prev = cfg_enddef c2 h ea stale old prev.
Proof. intros c1 c2 h ea stale old prev H. unfold cfg_enddef. now rewrite H. Qed.

(* more precisely: the layout is a function of the schema, h_minfree/v_minfree, and the RESOLVED
   h_align and r_align; the resolved v_align does not enter NC_begins at all *)
Theorem layout_by_resolved_alignment : forall c1 c2 h ea1 ea2 stale1 stale2 old prev ha va1 va2 ra,
  fst (cfg_enddef c1 h ea1 stale1 old prev) = (ha, va1, ra) ->
  fst (cfg_enddef c2 h ea2 stale2 old prev) = (ha, va2, ra) ->
  e_h_minfree ea1 = e_h_minfree ea2 -> e_v_minfree ea1 = e_v_minfree ea2 ->
  snd (cfg_enddef c1 h ea1 stale1 old prev) = snd (cfg_enddef c2 h ea2 stale2 old prev).
Proof.
  intros c1 c2 h ea1 ea2 stale1 stale2 old prev ha va1 va2 ra H1 H2 Hm Hv.
  unfold cfg_enddef in *.
  destruct (resolve_align (c_align c1) ea1 _ _) as [[a1 b1] r1].
  destruct (resolve_align (c_align c2) ea2 _ _) as [[a2 b2] r2].
  cbn [fst snd] in *. inversion H1; inversion H2; subst. now rewrite Hm, Hv.
Qed.

Example offsets_only_by_alignment_example :
  let c1 := mkcfg (mkalign 64 0 0) 262144 SwapAuto 16777216 false 256 256 64 8 0 false 1 in
  let c2 := mkcfg (mkalign 64 0 0) 64 SwapOn 1 true 1 2 1 1 2 true 4 in
  let h := mkhdr 2 0 [mkdim [116] 0; mkdim [120] 3]
                 [] [mkvar [97] [0; 1] [] 4 0 false; mkvar [98] [1] [] 6 0 false] in
  cfg_enddef c1 h (mkeargs 0 0 0 0) 0 None 0 = cfg_enddef c2 h (mkeargs 0 0 0 0) 0 None 0 /\
  option_map l_begins (snd (cfg_enddef c1 h (mkeargs 0 0 0 0) 0 None 0)) = Some [216; 192].
Proof. split; [apply offsets_only_by_alignment|]; reflexivity. Qed.

(* ================================================================== *)
(* 6. reported hints are the ones in force                             *)
(* ================================================================== *)
(* C10 reported_hints_in_force: after create (+ PNETCDF_HINTS) and enddef, the alignment values
   ncmpi_inq_file_info reports are exactly the ones passed to NC_begins, and the other hints are
   the fields of the configuration that the I/O paths consult *)
Theorem reported_hints_in_force : forall user env hook safe np h ea,
  let c := fst (open_config user env hook safe np) in
  let rep := fst (reported_after_enddef user env hook safe np h ea) in
  let lay := snd (reported_after_enddef user env hook safe np h ea) in
  exists ha va ra,
    resolve_align (c_align c) ea (Zlen (h_vars h)) true = (ha, va, ra) /\
    lay = begins h (e_h_minfree ea) (e_v_minfree ea) ha ra None 0 /\
    info_get k_h_align rep = Some (dec ha) /\
    info_get k_v_align rep = Some (dec va) /\
    info_get k_r_align rep = Some (dec ra) /\
    info_get k_chunk rep = Some (dec (c_chunk c)) /\
    info_get k_ibuf rep = Some (dec (c_ibuf c)) /\
    info_get k_swap rep = Some (match c_swap c with SwapOn => B "enable" | SwapOff => B "disable"
                                               | SwapAuto => B "auto" end) /\
    info_get k_hash_dim rep = Some (dec (c_hash_dim c)) /\
    info_get k_hash_var rep = Some (dec (c_hash_var c)) /\
    info_get k_hash_gattr rep = Some (dec (c_hash_gattr c)) /\
    info_get k_hash_vattr rep = Some (dec (c_hash_vattr c)) /\
    info_get k_num_aggrs rep = Some (dec (c_num_aggrs c)).
Proof.
  intros user env hook safe np h ea. cbv zeta.
  unfold reported_after_enddef, open_config.
  set (ui := combine_env_hints user env).
  unfold set_pnetcdf_hints. destruct (swap_hint ui) as [sw swstr].
  unfold cfg_enddef. cbn [c_align fst snd].
  replace (Zlen (h_vars h) - 0) with (Zlen (h_vars h)) by lia.
  destruct (resolve_align _ ea (Zlen (h_vars h)) true) as [[ha va] ra].
  exists ha, va, ra. cbn [fst snd].
  split; [reflexivity|]. split; [reflexivity|].
  unfold inq_info. cbn [c_ibuf c_swap c_chunk c_hash_dim c_hash_var c_hash_gattr c_hash_vattr c_num_aggrs].
  rewrite !info_get_set.
  repeat split; reflexivity.
Qed.

Example reported_hints_example :
  let r := reported_after_enddef (Some [(k_v_align, B "100"); (k_ibuf, B "64")])
             (Some (B "nc_record_align_size=24")) None None 2
             (mkhdr 1 0 [mkdim [116] 0; mkdim [120] 3] []
                    [mkvar [97] [0; 1] [] 4 0 false; mkvar [98] [1] [] 6 0 false])
             (mkeargs 0 0 0 0) in
  info_num (fst r) k_h_align = 100 /\ info_num (fst r) k_v_align = 100 /\
  info_num (fst r) k_r_align = 24 /\ info_num (fst r) k_ibuf = 64 /\
  option_map l_begins (snd r) = Some [240; 200] /\ option_map l_begin_rec (snd r) = Some 240.
Proof. repeat split; reflexivity. Qed.

(* before the first enddef the three alignment fields are still zero: that is what is reported
   (observed on the library as well; nothing has been laid out yet) *)
Lemma reported_before_enddef : forall user env hook safe np,
  let rep := reported_after_open user env hook safe np in
  info_get k_h_align rep = Some (B "0") /\ info_get k_v_align rep = Some (B "0") /\
  info_get k_r_align rep = Some (B "0").
Proof.
  intros. subst rep. unfold reported_after_open, open_config, set_pnetcdf_hints.
  destruct (swap_hint _) as [sw swstr]. unfold inq_info, align_fields0.
  rewrite !info_get_set. repeat split; reflexivity.
Qed.

(* ================================================================== *)
(* 7. hash sizes (F9, fixed in /repo: `<= 0` falls back to the default) *)
(* ================================================================== *)
Lemma hash_hint_pos ui k dflt : 0 < dflt -> 0 < hash_hint ui k dflt.
Proof.
  intros Hd. unfold hash_hint. destruct (uget ui k) as [v|]; [|lia].
  destruct (atoi v <=? 0) eqn:E; lia.
Qed.

(* every accepted configuration has usable (positive) hash table sizes, whatever the hint strings *)
Theorem hash_sizes_positive : forall user env hook safe np,
  hash_sizes_ok (fst (open_config user env hook safe np)) = true.
Proof.
  intros user env hook safe np.
  unfold open_config, set_pnetcdf_hints. set (ui := combine_env_hints user env).
  destruct (swap_hint ui) as [sw swstr].
  unfold hash_sizes_ok. cbn [fst c_hash_dim c_hash_var c_hash_gattr c_hash_vattr].
  pose proof (hash_hint_pos ui k_hash_dim PNC_HSIZE_DIM ltac:(reflexivity)).
  pose proof (hash_hint_pos ui k_hash_var PNC_HSIZE_VAR ltac:(reflexivity)).
  pose proof (hash_hint_pos ui k_hash_gattr PNC_HSIZE_GATTR ltac:(reflexivity)).
  pose proof (hash_hint_pos ui k_hash_vattr PNC_HSIZE_VATTR ltac:(reflexivity)).
  lia.
Qed.

Example hash_sizes_example :
  let c := fst (open_config (Some [(k_hash_dim, B "1"); (k_hash_var, B "0"); (k_hash_vattr, B "x")])
                            (Some (B "nc_hash_size_gattr=256")) None None 1) in
  (c_hash_dim c, c_hash_var c, c_hash_gattr c, c_hash_vattr c) = (1, 256, 256, 8).
Proof. reflexivity. Qed.

(* the code before the fix: only negative values were rejected *)
Definition hash_hint_old (ui : option info) (k : list byte) (dflt : Z) : Z :=
  match uget ui k with
  | None => dflt
  | Some v => let x := atoi v in if x <? 0 then dflt else x
  end.

(* refuted for the old code: a hint value of 0 passed the `< 0` test and became the table size;
   calloc(0) and the mask (0 - 1) followed (heap overrun in ncmpio_hash_insert, seen under ASan) *)
Theorem hash_sizes_old_refuted :
  ~ (forall ui k dflt, 0 < dflt -> 0 < hash_hint_old ui k dflt).
Proof.
  intros H. specialize (H (Some [(k_hash_dim, B "0")]) k_hash_dim 256 ltac:(lia)).
  vm_compute in H. discriminate.
Qed.
