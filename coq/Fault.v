(* Fault.v -- MODEL for property C11 (I/O failures are never silently dropped).  No proofs here.

   1. MPI error classes and [mpi2nc] = ncmpii_error_mpi2nc (src/drivers/common/error_mpi2nc.c);
      tied to the table the translator extracts from that file by Proofs_Fault.mpi2nc_matches_source.
   2. The POLICY LANGUAGE into which tools/tr_iosites.py slices the continuation of a function after a
      call (an MPI-IO data-transfer call = I/O site, or a call of a function from which one is
      reachable = link site), and its semantics: an abstract interpreter over the `int` locals of the
      function that are relevant for its return value (mpireturn / err / status / ...),
      nondeterministic wherever the slice does not determine a condition or a value.
      Exactly ONE fault is injected: the marked call; every other MPI call of the continuation
      succeeds.  Loops: the set of loop-head states is closed under the loop body by a worklist and
      the closure is CHECKED (otherwise the outcome is OBad), so the outcomes cover any number of
      iterations (Proofs_Fault.loop_exec_covers_all_iterations).  Whatever the translator does not
      recognise is SUnrec, whose outcome OBad is never an error return: fail closed.
   3. [predict_all]: return values of the API predicted for an observed call stack (correspondence
      with the fault-injection harness).
   4. The hand-written propagation table [chains]: through which functions the status of the
      function containing an I/O site reaches the return value of which API; every hop is checked
      against the generated link sites (chain_in_graph) and evaluated (chain_reaches_api).
   5. The specification predicates used by Properties_C11.v (no_silent_drop, ...).

   Assumption made explicit in the semantics (see [refine_ne0], [allmin]): an `int` local that the
   code compares with NC_NOERR holds a netCDF status code, and status codes are never positive
   (every `#define NC_Exxx (<int>)` of pnetcdf.h is negative: Proofs_Fault.nc_codes_negative). *)
From Coq Require Import ZArith String List Bool.
From Pnc Require Import Gen_consts.
Import ListNotations.
Local Open Scope Z_scope.
Local Open Scope string_scope.

(* ------------------------------------------------------------------------------------------ *)
(** * 1. MPI error classes, ncmpii_error_mpi2nc *)

(* every error class of MPI-3.1 (mpi.h of the MPI in use: values 1..53, 68..71) and one generic
   representative for any other class value (MPI_T_ERR_*, classes added by MPI_Add_error_class,
   implementation-specific classes) *)
Inductive errclass :=
| E_BUFFER | E_COUNT | E_TYPE | E_TAG | E_COMM | E_RANK | E_REQUEST | E_ROOT | E_GROUP | E_OP
| E_TOPOLOGY | E_DIMS | E_ARG | E_UNKNOWN | E_TRUNCATE | E_OTHER | E_INTERN | E_IN_STATUS
| E_PENDING | E_ACCESS | E_AMODE | E_ASSERT | E_BAD_FILE | E_BASE | E_CONVERSION | E_DISP
| E_DUP_DATAREP | E_FILE_EXISTS | E_FILE_IN_USE | E_FILE | E_INFO_KEY | E_INFO_NOKEY
| E_INFO_VALUE | E_INFO | E_IO | E_KEYVAL | E_LOCKTYPE | E_NAME | E_NO_MEM | E_NOT_SAME
| E_NO_SPACE | E_NO_SUCH_FILE | E_PORT | E_QUOTA | E_READ_ONLY | E_RMA_CONFLICT | E_RMA_SYNC
| E_SERVICE | E_SIZE | E_SPAWN | E_UNSUPPORTED_DATAREP | E_UNSUPPORTED_OPERATION | E_WIN
| E_RMA_RANGE | E_RMA_ATTACH | E_RMA_FLAVOR | E_RMA_SHARED
| E_ANY_OTHER_CLASS.

Definition all_classes : list errclass :=
  [ E_BUFFER; E_COUNT; E_TYPE; E_TAG; E_COMM; E_RANK; E_REQUEST; E_ROOT; E_GROUP; E_OP;
    E_TOPOLOGY; E_DIMS; E_ARG; E_UNKNOWN; E_TRUNCATE; E_OTHER; E_INTERN; E_IN_STATUS;
    E_PENDING; E_ACCESS; E_AMODE; E_ASSERT; E_BAD_FILE; E_BASE; E_CONVERSION; E_DISP;
    E_DUP_DATAREP; E_FILE_EXISTS; E_FILE_IN_USE; E_FILE; E_INFO_KEY; E_INFO_NOKEY;
    E_INFO_VALUE; E_INFO; E_IO; E_KEYVAL; E_LOCKTYPE; E_NAME; E_NO_MEM; E_NOT_SAME;
    E_NO_SPACE; E_NO_SUCH_FILE; E_PORT; E_QUOTA; E_READ_ONLY; E_RMA_CONFLICT; E_RMA_SYNC;
    E_SERVICE; E_SIZE; E_SPAWN; E_UNSUPPORTED_DATAREP; E_UNSUPPORTED_OPERATION; E_WIN;
    E_RMA_RANGE; E_RMA_ATTACH; E_RMA_FLAVOR; E_RMA_SHARED; E_ANY_OTHER_CLASS ].

Definition class_name (c : errclass) : string :=
  match c with
  | E_BUFFER => "MPI_ERR_BUFFER" | E_COUNT => "MPI_ERR_COUNT" | E_TYPE => "MPI_ERR_TYPE"
  | E_TAG => "MPI_ERR_TAG" | E_COMM => "MPI_ERR_COMM" | E_RANK => "MPI_ERR_RANK"
  | E_REQUEST => "MPI_ERR_REQUEST" | E_ROOT => "MPI_ERR_ROOT" | E_GROUP => "MPI_ERR_GROUP"
  | E_OP => "MPI_ERR_OP" | E_TOPOLOGY => "MPI_ERR_TOPOLOGY" | E_DIMS => "MPI_ERR_DIMS"
  | E_ARG => "MPI_ERR_ARG" | E_UNKNOWN => "MPI_ERR_UNKNOWN" | E_TRUNCATE => "MPI_ERR_TRUNCATE"
  | E_OTHER => "MPI_ERR_OTHER" | E_INTERN => "MPI_ERR_INTERN" | E_IN_STATUS => "MPI_ERR_IN_STATUS"
  | E_PENDING => "MPI_ERR_PENDING" | E_ACCESS => "MPI_ERR_ACCESS" | E_AMODE => "MPI_ERR_AMODE"
  | E_ASSERT => "MPI_ERR_ASSERT" | E_BAD_FILE => "MPI_ERR_BAD_FILE" | E_BASE => "MPI_ERR_BASE"
  | E_CONVERSION => "MPI_ERR_CONVERSION" | E_DISP => "MPI_ERR_DISP"
  | E_DUP_DATAREP => "MPI_ERR_DUP_DATAREP" | E_FILE_EXISTS => "MPI_ERR_FILE_EXISTS"
  | E_FILE_IN_USE => "MPI_ERR_FILE_IN_USE" | E_FILE => "MPI_ERR_FILE"
  | E_INFO_KEY => "MPI_ERR_INFO_KEY" | E_INFO_NOKEY => "MPI_ERR_INFO_NOKEY"
  | E_INFO_VALUE => "MPI_ERR_INFO_VALUE" | E_INFO => "MPI_ERR_INFO" | E_IO => "MPI_ERR_IO"
  | E_KEYVAL => "MPI_ERR_KEYVAL" | E_LOCKTYPE => "MPI_ERR_LOCKTYPE" | E_NAME => "MPI_ERR_NAME"
  | E_NO_MEM => "MPI_ERR_NO_MEM" | E_NOT_SAME => "MPI_ERR_NOT_SAME"
  | E_NO_SPACE => "MPI_ERR_NO_SPACE" | E_NO_SUCH_FILE => "MPI_ERR_NO_SUCH_FILE"
  | E_PORT => "MPI_ERR_PORT" | E_QUOTA => "MPI_ERR_QUOTA" | E_READ_ONLY => "MPI_ERR_READ_ONLY"
  | E_RMA_CONFLICT => "MPI_ERR_RMA_CONFLICT" | E_RMA_SYNC => "MPI_ERR_RMA_SYNC"
  | E_SERVICE => "MPI_ERR_SERVICE" | E_SIZE => "MPI_ERR_SIZE" | E_SPAWN => "MPI_ERR_SPAWN"
  | E_UNSUPPORTED_DATAREP => "MPI_ERR_UNSUPPORTED_DATAREP"
  | E_UNSUPPORTED_OPERATION => "MPI_ERR_UNSUPPORTED_OPERATION" | E_WIN => "MPI_ERR_WIN"
  | E_RMA_RANGE => "MPI_ERR_RMA_RANGE" | E_RMA_ATTACH => "MPI_ERR_RMA_ATTACH"
  | E_RMA_FLAVOR => "MPI_ERR_RMA_FLAVOR" | E_RMA_SHARED => "MPI_ERR_RMA_SHARED"
  | E_ANY_OTHER_CLASS => "(any other class)"
  end.

(* constants of pnetcdf.h that Gen_consts.v does not carry *)
Definition NC_EMULTIDEFINE_OMODE : Z := -251.
Definition NC_EMULTIDEFINE_FNC_ARGS : Z := -269.

(* ncmpii_error_mpi2nc: nine classes have their own NC code, everything else is NC_EFILE *)
Definition mpi2nc (c : errclass) : Z :=
  match c with
  | E_FILE_EXISTS => NC_EEXIST
  | E_NO_SUCH_FILE => NC_ENOENT
  | E_NOT_SAME => NC_EMULTIDEFINE_FNC_ARGS
  | E_AMODE => NC_EMULTIDEFINE_OMODE
  | E_READ_ONLY => NC_EPERM
  | E_ACCESS => NC_EACCESS
  | E_BAD_FILE => NC_EBAD_FILE
  | E_NO_SPACE => NC_ENO_SPACE
  | E_QUOTA => NC_EQUOTA
  | _ => NC_EFILE
  end.

(* ------------------------------------------------------------------------------------------ *)
(** * 2. Policy language *)

Inductive cmpop := Eq | Ne | Lt | Le | Gt | Ge.

Inductive expr :=
| EConst (z : Z)                  (* integer constant after macro expansion, e.g. NC_EFILE = -204 *)
| EVar (v : string)               (* tracked `int` local / parameter *)
| EMark                           (* the result of the marked (faulted) call *)
| EMap (v : string)               (* ncmpii_error_mpi2nc(v, ..) *)
| EMpiCall (f : string)           (* another MPI call: succeeds (single fault) *)
| ECall (f : string)              (* a call of any other function: unknown result *)
| ECond (c : cond) (a b : expr)   (* c ? a : b *)
| EOpaque (txt : string)          (* anything else: unknown value *)
with cond :=
| CCmp (o : cmpop) (a b : expr)
| CRoot                           (* rank == 0 *)
| CAtom (txt : string)            (* a condition over untracked state: both outcomes possible *)
| CAnd (a b : cond) | COr (a b : cond) | CNot (a : cond).

Inductive stmt :=
| SSkip
| SAssign (v : string) (e : expr)
| SHavoc (v : string)             (* v becomes unknown (passed by address, ++, uninitialised, ...) *)
| SAllMin (a b : string)          (* MPI_Allreduce(&a, &b, 1, MPI_INT, MPI_MIN, comm) *)
| SBcast0 (v : string)            (* MPI_Bcast(&v, 1, MPI_INT, 0, comm) *)
| SIf (c : cond) (a b : stmt)
| SSeq (a b : stmt)
| SLoop (body inc : stmt)         (* while/for/do: any number of iterations *)
| SRet (e : expr) | SRetVoid | SBreak | SContinue
| SLabel (l : string) | SGoto (l : string)
| SDiscard (note : string)        (* the marked call as a statement of its own: result discarded *)
| SUnrec (why : string).          (* not recognised by the translator: fails closed *)

(* the continuation of a call inside its function: the statement containing the call, the rest
   of each enclosing block, the enclosing loops, innermost first *)
Inductive frame := FSeq (s : stmt) | FLoop (body inc : stmt).

Record body := mkBody {
  b_vars : list string;            (* the tracked variables of the function *)
  b_facts : list (cond * bool);    (* enclosing `if` conditions known to hold / fail at the call *)
  b_frames : list frame;
  b_void : bool }.

Inductive skind := KRead | KWrite | KLink.

Record site := mkSite {
  s_id : string;                   (* file:function:callee[#ordinal] *)
  s_file : string; s_line : Z; s_line_end : Z;    (* span of the statement containing the call *)
  s_func : string;                 (* enclosing function *)
  s_callee : string;               (* MPI_File_xxx, or the called library function *)
  s_kind : skind;
  s_api : bool;                    (* enclosing function is a public ncmpi_* entry (dispatcher) *)
  s_policy : string;               (* readable policy term of the consuming statement *)
  s_body : body }.

(* ------------------------------------------------------------------------------------------ *)
(** * 3. Abstract values and states *)

Inductive aval :=
| VInt (z : Z)      (* exactly z *)
| VErr              (* some netCDF error code: negative, otherwise unknown *)
| VAny              (* unknown *)
| VFail.            (* the MPI error code returned by the faulted call (non-zero) *)

Definition aval_eqb (a b : aval) : bool :=
  match a, b with
  | VInt x, VInt y => Z.eqb x y
  | VErr, VErr | VAny, VAny | VFail, VFail => true
  | _, _ => false
  end.

(* variables (in the fixed order of b_vars) and what is known about `rank == 0` *)
Record state := mkState { st_vars : list (string * aval); st_root : option bool }.

Fixpoint lookup (v : string) (l : list (string * aval)) : aval :=
  match l with
  | [] => VAny
  | (k, a) :: t => if String.eqb k v then a else lookup v t
  end.

Fixpoint update (v : string) (a : aval) (l : list (string * aval)) : list (string * aval) :=
  match l with
  | [] => [(v, a)]
  | (k, b) :: t => if String.eqb k v then (k, a) :: t else (k, b) :: update v a t
  end.

Definition getv (v : string) (st : state) : aval := lookup v (st_vars st).
Definition setv (v : string) (a : aval) (st : state) : state :=
  mkState (update v a (st_vars st)) (st_root st).

Fixpoint vars_eqb (a b : list (string * aval)) : bool :=
  match a, b with
  | [], [] => true
  | (k, x) :: s, (l, y) :: t => String.eqb k l && aval_eqb x y && vars_eqb s t
  | _, _ => false
  end.

Definition optb_eqb (a b : option bool) : bool :=
  match a, b with
  | None, None => true
  | Some x, Some y => Bool.eqb x y
  | _, _ => false
  end.

Definition state_eqb (a b : state) : bool :=
  vars_eqb (st_vars a) (st_vars b) && optb_eqb (st_root a) (st_root b).

Fixpoint smem (s : state) (l : list state) : bool :=
  match l with [] => false | h :: t => state_eqb s h || smem s t end.

Inductive outcome :=
| ONormal (st : state) | OBreak (st : state) | OContinue (st : state) | OGoto (l : string) (st : state)
| ORet (v : aval) | ORetVoid | OFall            (* OFall: control reaches the end of the function *)
| OBad (why : string).

(* a value that is certainly not NC_NOERR *)
Definition is_err (v : aval) : bool :=
  match v with VInt z => negb (Z.eqb z 0) | VErr => true | VFail => true | VAny => false end.

Definition out_is_err (o : outcome) : bool :=
  match o with ORet v => is_err v | _ => false end.

Definition outcome_eqb (a b : outcome) : bool :=
  match a, b with
  | ONormal x, ONormal y | OBreak x, OBreak y | OContinue x, OContinue y => state_eqb x y
  | OGoto k x, OGoto l y => String.eqb k l && state_eqb x y
  | ORet x, ORet y => aval_eqb x y
  | ORetVoid, ORetVoid | OFall, OFall => true
  | OBad x, OBad y => String.eqb x y
  | _, _ => false
  end.

Fixpoint omem (o : outcome) (l : list outcome) : bool :=
  match l with [] => false | h :: t => outcome_eqb o h || omem o t end.

(* identical outcomes are merged after every statement: the interpretation follows abstract states,
   not paths *)
Fixpoint odedup (l : list outcome) : list outcome :=
  match l with [] => [] | h :: t => if omem h t then odedup t else h :: odedup t end.

(* join of two values of a conditional expression whose condition is not determined *)
Definition join (a b : aval) : aval :=
  if aval_eqb a b then a else if is_err a && is_err b then VErr else VAny.

Inductive tri := TT | FF | TF.

Definition tri_not (t : tri) : tri := match t with TT => FF | FF => TT | TF => TF end.

(* a == b on abstract values *)
Definition cmp_eq (a b : aval) : tri :=
  match a, b with
  | VInt x, VInt y => if Z.eqb x y then TT else FF
  | VFail, VInt y | VInt y, VFail => if Z.eqb y 0 then FF else TF
  | VErr, VInt y | VInt y, VErr => if Z.ltb y 0 then TF else FF
  | _, _ => TF
  end.

Definition cmp_ord (o : cmpop) (a b : aval) : tri :=
  match a, b with
  | VInt x, VInt y =>
      let r := match o with Lt => Z.ltb x y | Le => Z.leb x y | Gt => Z.ltb y x | Ge => Z.leb y x
                          | Eq => Z.eqb x y | Ne => negb (Z.eqb x y) end in
      if r then TT else FF
  | VErr, VInt y => (* VErr < 0 *)
      match o with
      | Lt => if Z.leb 0 y then TT else TF
      | Le => if Z.leb (-1) y then TT else TF
      | Gt => if Z.leb (-1) y then FF else TF
      | Ge => if Z.leb 0 y then FF else TF
      | _ => TF
      end
  | _, _ => TF
  end.

(* what a comparison outcome teaches about a variable *)
Definition refine_eq (e : expr) (other : aval) (st : state) : state :=
  match e, other with
  | EVar v, VInt y => setv v (VInt y) st
  | _, _ => st
  end.

(* ASSUMPTION (status codes are never positive): a tracked variable found different from
   NC_NOERR (0) holds an error code *)
Definition refine_ne0 (e : expr) (mine other : aval) (st : state) : state :=
  match e, mine, other with
  | EVar v, VAny, VInt 0 => setv v VErr st
  | _, _, _ => st
  end.

Section Sem.
  (* the value produced by the marked call: VFail for an I/O site (MPI error code),
     for a link site the value returned by the callee *)
  Variable mark : aval.
  (* ncmpii_error_mpi2nc of the injected error class *)
  Variable mapv : Z.

  Definition both (st1 st2 : state) (t : tri) : list (bool * state) :=
    match t with TT => [(true, st1)] | FF => [(false, st2)] | TF => [(true, st1); (false, st2)] end.

  Fixpoint eval (e : expr) (st : state) {struct e} : aval :=
    match e with
    | EConst z => VInt z
    | EVar v => getv v st
    | EMark => mark
    | EMap v => match getv v st with VFail => VInt mapv | _ => VAny end
    | EMpiCall _ => VInt 0
    | ECall _ => VAny
    | EOpaque _ => VAny
    | ECond c a b =>
        match ceval c st with
        | [] => VAny
        | (b0, s0) :: rest =>
            fold_left (fun (acc : aval) (bs : bool * state) =>
                         join acc (if fst bs then eval a (snd bs) else eval b (snd bs)))
                      rest (if (b0 : bool) then eval a s0 else eval b s0)
        end
    end
  with ceval (c : cond) (st : state) {struct c} : list (bool * state) :=
    match c with
    | CCmp o a b =>
        let va := eval a st in
        let vb := eval b st in
        match o with
        | Eq => both (refine_eq a vb (refine_eq b va st))
                     (refine_ne0 a va vb (refine_ne0 b vb va st)) (cmp_eq va vb)
        | Ne => both (refine_ne0 a va vb (refine_ne0 b vb va st))
                     (refine_eq a vb (refine_eq b va st)) (tri_not (cmp_eq va vb))
        | _ => both st st (cmp_ord o va vb)
        end
    | CRoot =>
        match st_root st with
        | Some r => [(r, st)]
        | None => [(true, mkState (st_vars st) (Some true)); (false, mkState (st_vars st) (Some false))]
        end
    | CAtom _ => [(true, st); (false, st)]
    | CAnd a b => flat_map (fun bs : bool * state => if fst bs then ceval b (snd bs) else [(false, snd bs)]) (ceval a st)
    | COr a b => flat_map (fun bs : bool * state => if fst bs then [(true, snd bs)] else ceval b (snd bs)) (ceval a st)
    | CNot a => map (fun bs : bool * state => (negb (fst bs), snd bs)) (ceval a st)
    end.

  (* MPI_Allreduce(MIN) of a status: if mine is an error the minimum over all ranks is an error *)
  Definition allmin (a : aval) : aval :=
    match a with
    | VInt z => if Z.ltb z 0 then VErr else VAny
    | VErr => VErr
    | _ => VAny
    end.

  (* ---- loops: the set of states at the loop head reachable by any number of iterations is
     computed by a worklist and then CHECKED to be closed (certificate), so that the outcomes cover
     every iteration count (Proofs_Fault.loop_heads_cover) *)
  Definition LOOPFUEL : nat := 400.

  Fixpoint closure (fuel : nat) (next : state -> list state) (todo seen : list state)
    : option (list state) :=
    match todo with
    | [] => Some seen
    | h :: t =>
        match fuel with
        | O => None
        | S f => if smem h seen then closure f next t seen
                 else closure f next (next h ++ t) (h :: seen)
        end
    end.

  Definition closed (next : state -> list state) (hs : list state) : bool :=
    forallb (fun h => forallb (fun h' => smem h' hs) (next h)) hs.

  (* states at the next loop head after one iteration started in h *)
  Definition heads_next (eb ei : state -> list outcome) (h : state) : list state :=
    flat_map (fun o => match o with
                       | ONormal s | OContinue s =>
                           flat_map (fun o2 => match o2 with ONormal s2 => [s2] | _ => [] end) (ei s)
                       | _ => []
                       end) (eb h).

  Definition inc_bad (ei : state -> list outcome) (s : state) : list outcome :=
    flat_map (fun o2 => match o2 with ONormal _ => [] | _ => [OBad "loop increment"] end) (ei s).

  (* outcomes of `zero or more iterations starting at head st, then whatever follows the loop` *)
  Definition loop_exec (eb ei : state -> list outcome) (st : state) : list outcome :=
    match closure LOOPFUEL (heads_next eb ei) [st] [] with
    | None => [OBad "loop: fuel"]
    | Some hs =>
        if closed (heads_next eb ei) hs && smem st hs then
          flat_map (fun h =>
            ONormal h ::                       (* the loop condition fails at this head *)
            flat_map (fun o => match o with
                               | OBreak s => [ONormal s]
                               | ONormal s | OContinue s => inc_bad ei s
                               | other => [other]
                               end) (eb h)) hs
        else [OBad "loop: not closed"]
    end.

  (* suffix of a (right-nested) sequence after label l *)
  Fixpoint from_label (l : string) (s : stmt) : option stmt :=
    match s with
    | SLabel k => if String.eqb k l then Some SSkip else None
    | SSeq a b =>
        match from_label l a with
        | Some a' => Some (SSeq a' b)
        | None => from_label l b
        end
    | _ => None
    end.

  (* [fuel] bounds the nesting depth of the interpretation (a forward `goto` continues with the
     suffix of the enclosing sequence after the label, which is not a subterm); exhaustion fails
     closed *)
  Fixpoint exec (fuel : nat) (s : stmt) (st : state) {struct fuel} : list outcome :=
    match fuel with
    | O => [OBad "exec: fuel"]
    | S f =>
      odedup
      match s with
      | SSkip => [ONormal st]
      | SAssign v e => [ONormal (setv v (eval e st) st)]
      | SHavoc v => [ONormal (setv v VAny st)]
      | SAllMin a b => [ONormal (setv b (allmin (getv a st)) st)]
      | SBcast0 v => match st_root st with
                     | Some true => [ONormal st]           (* the root keeps its own value *)
                     | _ => [ONormal (setv v VAny st)]
                     end
      | SIf c a b => flat_map (fun bs : bool * state => if fst bs then exec f a (snd bs) else exec f b (snd bs)) (ceval c st)
      | SSeq a b =>
          flat_map (fun o => match o with
                             | ONormal s1 => exec f b s1
                             | OGoto l s1 => match from_label l b with
                                             | Some b' => exec f b' s1
                                             | None => [o]
                                             end
                             | other => [other]
                             end) (exec f a st)
      | SLoop b i => loop_exec (exec f b) (exec f i) st
      | SRet e => [ORet (eval e st)]
      | SRetVoid => [ORetVoid]
      | SBreak => [OBreak st]
      | SContinue => [OContinue st]
      | SLabel _ => [ONormal st]
      | SGoto l => [OGoto l st]
      | SDiscard _ => [ONormal st]
      | SUnrec why => [OBad why]
      end
    end.

  Definition EXECFUEL : nat := 3000.
  Definition ex (s : stmt) (st : state) : list outcome := exec EXECFUEL s st.

  (* incoming outcome -> outcomes at function exit *)
  Fixpoint exec_frames (fs : list frame) (o : outcome) : list outcome :=
    odedup
    match fs with
    | [] => match o with
            | ONormal _ => [OFall]
            | OBreak _ | OContinue _ => [OBad "break/continue outside a loop"]
            | OGoto l _ => [OBad ("label not found: " ++ l)]
            | r => [r]
            end
    | FSeq s :: k =>
        match o with
        | ONormal st => flat_map (exec_frames k) (ex s st)
        | OGoto l st => match from_label l s with
                        | Some s' => flat_map (exec_frames k) (ex s' st)
                        | None => exec_frames k o
                        end
        | OBreak _ | OContinue _ => exec_frames k o
        | r => [r]
        end
    | FLoop b i :: k =>
        match o with
        | ONormal st | OContinue st =>
            (* the current iteration is finished: increment, then any number of further iterations *)
            flat_map (fun oi => match oi with
                                | ONormal s1 => flat_map (exec_frames k) (loop_exec (ex b) (ex i) s1)
                                | _ => [OBad "loop increment"]
                                end) (ex i st)
        | OBreak st => exec_frames k (ONormal st)
        | OGoto _ _ => exec_frames k o
        | r => [r]
        end
    end.

  Definition init_state (vars : list string) : state :=
    mkState (map (fun v => (v, VAny)) vars) None.

  Fixpoint assume (facts : list (cond * bool)) (sts : list state) : list state :=
    match facts with
    | [] => sts
    | (c, b) :: t =>
        assume t (flat_map (fun st => flat_map (fun bs : bool * state => if Bool.eqb (fst bs) b then [snd bs] else [])
                                               (ceval c st)) sts)
    end.

  (* every outcome of the function after the marked call returned [mark] *)
  Definition run (b : body) : list outcome :=
    odedup (flat_map (fun st => exec_frames (b_frames b) (ONormal st))
                     (assume (b_facts b) [init_state (b_vars b)])).
End Sem.

(* the function containing the site returns an error whatever the (unknown) rest of the state *)
Definition propagates (mark : aval) (mapv : Z) (s : site) : bool :=
  let outs := run mark mapv (s_body s) in
  negb (match outs with [] => true | _ => false end) && forallb out_is_err outs.

(* I/O site: the call returned an MPI error of class c *)
Definition io_propagates (s : site) (c : errclass) : bool := propagates VFail (mpi2nc c) s.
(* link site: the callee returned some error code *)
Definition link_propagates (s : site) : bool := propagates VErr 0 s.

(* ------------------------------------------------------------------------------------------ *)
(** * 4. Call graph (over the generated link sites) *)

Fixpoint str_mem (x : string) (l : list string) : bool :=
  match l with [] => false | h :: t => String.eqb x h || str_mem x t end.

(* R contains f and with a function all its callers *)
Definition up_closed (links : list site) (f : string) (R : list string) : bool :=
  str_mem f R && forallb (fun l => implb (str_mem (s_callee l) R) (str_mem (s_func l) R)) links.

Definition find_site (id : string) (l : list site) : option site :=
  find (fun s => String.eqb (s_id s) id) l.

(* ------------------------------------------------------------------------------------------ *)
(** * 5. Prediction for the fault-injection correspondence
   [stack] = ids of the I/O site and of the link sites of the frames above it (innermost first),
   as observed in the backtrace of the faulted call.  Result: the possible return values of the
   outermost function (the ncmpi_* API) -- the concrete value flows from level to level. *)
Inductive pred := PVal (v : aval) | PVoid | PBad (why : string).

Definition pred_of (o : outcome) : pred :=
  match o with
  | ORet v => PVal v
  | ORetVoid => PVoid
  | OFall => PVoid
  | OBad w => PBad w
  | _ => PBad "unexpected outcome"
  end.

Definition pred_eqb (a b : pred) : bool :=
  match a, b with
  | PVal x, PVal y => aval_eqb x y
  | PVoid, PVoid => true
  | PBad x, PBad y => String.eqb x y
  | _, _ => false
  end.

Fixpoint pmem (p : pred) (l : list pred) : bool :=
  match l with [] => false | h :: t => pred_eqb p h || pmem p t end.

Fixpoint pdedup (l : list pred) : list pred :=
  match l with [] => [] | h :: t => if pmem h t then pdedup t else h :: pdedup t end.

Fixpoint predict_up (mapv : Z) (levels : list site) (cur : list pred) : list pred :=
  match levels with
  | [] => cur
  | l :: up =>
      predict_up mapv up
        (pdedup (flat_map (fun p => match p with
                                    | PVal v => map pred_of (run v mapv (s_body l))
                                    | other => [other]
                                    end) cur))
  end.

Definition predict (io links : list site) (stack : list string) (c : errclass) : list pred :=
  match stack with
  | [] => [PBad "empty stack"]
  | id0 :: ups =>
      match find_site id0 io with
      | None => [PBad ("unknown I/O site " ++ id0)]
      | Some s0 =>
          let lv := map (fun id => find_site id links) ups in
          if forallb (fun o => match o with Some _ => true | None => false end) lv then
            predict_up (mpi2nc c)
                       (flat_map (fun o => match o with Some s => [s] | None => [] end) lv)
                       (pdedup (map pred_of (run VFail (mpi2nc c) (s_body s0))))
          else [PBad "unknown link site"]
      end
  end.

(* the same, level by level (to name the level at which an error is lost) *)
Fixpoint predict_levels (mapv : Z) (levels : list site) (cur : list pred) : list (string * list pred) :=
  match levels with
  | [] => []
  | l :: up =>
      let nxt := pdedup (flat_map (fun p => match p with
                                            | PVal v => map pred_of (run v mapv (s_body l))
                                            | other => [other]
                                            end) cur) in
      (s_id l, nxt) :: predict_levels mapv up nxt
  end.

Definition predict_all (io links : list site) (stack : list string) (c : errclass)
  : list (string * list pred) :=
  match stack with
  | [] => [("", [PBad "empty stack"])]
  | id0 :: ups =>
      match find_site id0 io with
      | None => [(id0, [PBad "unknown I/O site"])]
      | Some s0 =>
          let p0 := pdedup (map pred_of (run VFail (mpi2nc c) (s_body s0))) in
          (id0, p0) ::
          predict_levels (mpi2nc c)
            (flat_map (fun id => match find_site id links with
                                 | Some s => [s]
                                 | None => [mkSite id "" 0 0 "" "" KLink false "unknown link site"
                                                   (mkBody [] [] [FSeq (SUnrec "unknown link site")] false)]
                                 end) ups) p0
      end
  end.

(* decimal rendering, for the case files of the correspondence check *)
Fixpoint pos_digits (fuel : nat) (n : Z) (acc : string) : string :=
  match fuel with
  | O => acc
  | S f =>
      let d := String (Ascii.ascii_of_nat (48 + Z.to_nat (n mod 10)%Z)) acc in
      if (n <? 10)%Z then d else pos_digits f (n / 10)%Z d
  end.
Definition zstr (z : Z) : string :=
  if (z <? 0)%Z then "-" ++ pos_digits 20 (- z)%Z "" else pos_digits 20 z "".
Definition pred_tok (p : pred) : string :=
  match p with
  | PVal (VInt z) => "I" ++ zstr z
  | PVal VErr => "E" | PVal VAny => "A" | PVal VFail => "F"
  | PVoid => "V"
  | PBad w => "B(" ++ w ++ ")"
  end.
Definition show_levels (l : list (string * list pred)) : string :=
  String.concat "|" (map (fun x => fst x ++ "=" ++ String.concat "," (map pred_tok (snd x))) l).

(* ------------------------------------------------------------------------------------------ *)
(** * 6. Hand-written propagation table
   (scenario, API, functions from the API down to the function that issues the MPI-IO call).
   Proofs_Fault.chains_in_graph checks every hop against the generated link sites;
   chain_propagates evaluates every link site of every hop. *)
Definition chains : list (string * list string) :=
  [ (* header write at enddef *)
    ("enddef: header write",            ["ncmpi_enddef"; "ncmpio_enddef"; "ncmpio__enddef"; "write_NC"]);
    ("_enddef: header write",           ["ncmpi__enddef"; "ncmpio__enddef"; "write_NC"]);
    (* record-count update *)
    ("put (collective): numrecs",       ["ncmpi_put_vara_int_all"; "ncmpio_put_var"; "put_varm"; "ncmpio_write_numrecs"]);
    ("sync_numrecs: numrecs",           ["ncmpi_sync_numrecs"; "ncmpio_sync_numrecs"; "ncmpio_write_numrecs"]);
    ("sync: numrecs",                   ["ncmpi_sync"; "ncmpio_sync"; "ncmpio_sync_numrecs"; "ncmpio_write_numrecs"]);
    ("end_indep_data: numrecs",         ["ncmpi_end_indep_data"; "ncmpio_end_indep_data"; "ncmpio_sync_numrecs"; "ncmpio_write_numrecs"]);
    ("close (independent mode): numrecs", ["ncmpi_close"; "ncmpio_close"; "ncmpio_end_indep_data"; "ncmpio_sync_numrecs"; "ncmpio_write_numrecs"]);
    ("wait_all: numrecs",               ["ncmpi_wait_all"; "ncmpio_wait"; "req_commit"; "wait_getput"; "ncmpio_write_numrecs"]);
    (* data movement when the header grows at redef/enddef *)
    ("enddef after redef: move fixed",  ["ncmpi_enddef"; "ncmpio_enddef"; "ncmpio__enddef"; "move_fixed_vars"; "move_file_block"]);
    ("enddef after redef: move records", ["ncmpi_enddef"; "ncmpio_enddef"; "ncmpio__enddef"; "move_record_vars"; "move_file_block"]);
    (* fill *)
    ("enddef: fill new variables",      ["ncmpi_enddef"; "ncmpio_enddef"; "ncmpio__enddef"; "ncmpio_fill_vars"; "fillerup_aggregate"]);
    ("fill_var_rec",                    ["ncmpi_fill_var_rec"; "ncmpio_fill_var_rec"; "fill_var_rec"]);
    ("fill_var_rec: numrecs",           ["ncmpi_fill_var_rec"; "ncmpio_fill_var_rec"; "fill_var_rec"; "ncmpio_write_numrecs"]);
    (* blocking data transfer *)
    ("put (blocking)",                  ["ncmpi_put_vara_int_all"; "ncmpio_put_var"; "put_varm"; "ncmpio_read_write"]);
    ("put (independent)",               ["ncmpi_put_vara_int"; "ncmpio_put_var"; "put_varm"; "ncmpio_read_write"]);
    ("get (blocking)",                  ["ncmpi_get_vara_int_all"; "ncmpio_get_var"; "get_varm"; "ncmpio_read_write"]);
    ("get (independent)",               ["ncmpi_get_vara_int"; "ncmpio_get_var"; "get_varm"; "ncmpio_read_write"]);
    ("put, zero-length participation",  ["ncmpi_put_vara_int_all"; "ncmpio_put_var"; "ncmpio_getput_zero_req"]);
    ("get, zero-length participation",  ["ncmpi_get_vara_int_all"; "ncmpio_get_var"; "ncmpio_getput_zero_req"]);
    (* nonblocking: the wait that completes the request *)
    ("wait_all",                        ["ncmpi_wait_all"; "ncmpio_wait"; "req_commit"; "wait_getput"; "req_aggregation"; "ncmpio_read_write"]);
    ("wait_all (one request per call)", ["ncmpi_wait_all"; "ncmpio_wait"; "req_commit"; "wait_getput"; "req_aggregation"; "mgetput"; "ncmpio_read_write"]);
    ("wait (independent)",              ["ncmpi_wait"; "ncmpio_wait"; "req_commit"; "wait_getput"; "req_aggregation"; "ncmpio_read_write"]);
    ("wait_all, zero-length participation", ["ncmpi_wait_all"; "ncmpio_wait"; "req_commit"; "wait_getput"; "req_aggregation"; "ncmpio_getput_zero_req"]);
    (* header read at open *)
    ("open: header read",               ["ncmpi_open"; "ncmpio_open"; "ncmpio_hdr_get_NC"; "hdr_fetch"]);
    ("open: header read (variables)",   ["ncmpi_open"; "ncmpio_open"; "ncmpio_hdr_get_NC"; "hdr_get_NC_vararray"; "hdr_get_NC_var"; "hdr_get_uint32"; "hdr_fetch"]);
    (* header rewrite in data mode *)
    ("put_att in data mode: header write", ["ncmpi_put_att_text"; "ncmpio_put_att"; "ncmpio_write_header"]);
    ("rename_var in data mode: header write", ["ncmpi_rename_var"; "ncmpio_rename_var"; "ncmpio_write_header"]) ].

(* the link sites of one hop caller -> callee *)
Definition hop_links (links : list site) (caller callee : string) : list site :=
  filter (fun l => String.eqb (s_func l) caller && String.eqb (s_callee l) callee) links.

Fixpoint chain_hops (fs : list string) : list (string * string) :=
  match fs with
  | a :: ((b :: _) as t) => (a, b) :: chain_hops t
  | _ => []
  end.

Definition chain_in_graph (links : list site) (fs : list string) : bool :=
  forallb (fun h => negb (match hop_links links (fst h) (snd h) with [] => true | _ => false end))
          (chain_hops fs).

Definition chain_propagates (links : list site) (fs : list string) : bool :=
  forallb (fun h => forallb link_propagates (hop_links links (fst h) (snd h))) (chain_hops fs).

(* ------------------------------------------------------------------------------------------ *)
(** * 7. Specification (the statements of Properties_C11.v are built from these) *)

(* a value that is certainly not NC_NOERR *)
Definition nonzero (v : aval) : Prop :=
  match v with VInt z => z <> 0%Z | VErr => True | VFail => True | VAny => False end.

(* every possible outcome is `return v` with v certainly an error (and there is an outcome) *)
Definition returns_error (outs : list outcome) : Prop :=
  outs <> [] /\ forall o, In o outs -> exists v, o = ORet v /\ nonzero v.

(* the function containing I/O site s returns an error when the MPI call fails with class c *)
Definition site_returns_error (s : site) (c : errclass) : Prop :=
  returns_error (run VFail (mpi2nc c) (s_body s)).

(* the function containing link site l returns an error when the callee of l returned one *)
Definition link_returns_error (l : site) : Prop :=
  returns_error (run VErr 0%Z (s_body l)).

(* g is f or a direct or indirect caller of f (static call graph = the generated link sites) *)
Inductive calls_up (links : list site) (f : string) : string -> Prop :=
| cu_refl : calls_up links f f
| cu_step : forall l, In l links -> calls_up links f (s_callee l) -> calls_up links f (s_func l).

(* link site l lies on a call path from some API down to function f *)
Definition on_path (links : list site) (f : string) (l : site) : Prop :=
  In l links /\ calls_up links f (s_callee l).

(* C11 for one I/O site: for every error class, the enclosing function returns an error and so
   does every function on every call path above it, up to the ncmpi_* entry points *)
Definition no_silent_drop (links : list site) (s : site) : Prop :=
  forall c : errclass, mpi2nc c <> NC_NOERR ->
    site_returns_error s c /\
    forall l, on_path links (s_func s) l -> link_returns_error l.

(* what remains true when classes D are lost in the function itself and link sites B lose errors *)
Definition no_silent_drop_except (links : list site) (s : site) (D : list errclass) (B : list string) : Prop :=
  forall c : errclass, mpi2nc c <> NC_NOERR ->
    (~ In c D -> site_returns_error s c) /\
    forall l, on_path links (s_func s) l -> ~ In (s_id l) B -> link_returns_error l.

(* the model really loses these classes in the function of s: some outcome is not an error return *)
Definition drops_classes (s : site) (D : list errclass) : Prop :=
  forall c, In c D -> ~ site_returns_error s c.

Definition unknown_site (id : string) : site :=
  mkSite id "" 0 0 "" "" KLink false "unknown site"
         (mkBody [] [] [FSeq (SUnrec ("unknown site " ++ id))] false).

Definition site_of (id : string) (l : list site) : site :=
  match find_site id l with Some s => s | None => unknown_site id end.

(* hand-written propagation table: every hop of the chain exists in the generated call graph and
   every call of the hop passes the callee's error on *)
Definition chain_reaches_api (links : list site) (fs : list string) : Prop :=
  chain_in_graph links fs = true /\
  forall caller callee l, In (caller, callee) (chain_hops fs) ->
                          In l (hop_links links caller callee) -> link_returns_error l.

Definition chain_reaches_api_except (links : list site) (fs : list string) (B : list string) : Prop :=
  chain_in_graph links fs = true /\
  forall caller callee l, In (caller, callee) (chain_hops fs) ->
                          In l (hop_links links caller callee) -> ~ In (s_id l) B -> link_returns_error l.

Definition chain_of (name : string) : list string :=
  match find (fun x => String.eqb (fst x) name) chains with Some x => snd x | None => [] end.
