(* Proofs_Convert.v — C09: the conversion functions of ncx.c AS BUILT (Gen_ncx.ncx_table, interpreted
   by Convert.conv1/convn) against the mathematical specification Convert.spec_conv.

   Method.  A source value is placed on one integer axis: sc v = value * 2^1074 (exact for every
   integer and every finite float/double).  On that axis a C comparison of the table is an integer
   comparison (vcmp_sc), truncation is Z.quot by 2^1074 (ftrunc_sc), the destination range is an
   interval [dst_lo, dst_hi].  `run_tests_generic` evaluates an arbitrary decision list
   symbolically; `entry_chk` is a boolean static check of one table entry whose soundness
   (`entry_sound`) gives  model = specification  for EVERY source value outside the computed
   exclusion set `exclb` (values the code accepts although they are out of range, NaN into integer
   types, missing infinity tests).  The checks are then evaluated on the whole generated table by
   vm_compute (a finite domain: 308 functions); the quantification over source values is never
   sampled.  If ncx.m4 changes a bound, `table_chk`/`table_noexcl` stop computing to true. *)
From Coq Require Import ZArith List Bool Lia ZifyBool.
From Pnc Require Import Gen_ncx Convert.
Import ListNotations.
Local Open Scope Z_scope.
Ltac Zify.zify_post_hook ::= Z.div_mod_to_equations.

(* ---------- integer wrap ---------- *)
Lemma wrap_id : forall t z, is_float t = false -> imin t <= z <= imax t -> wrap t z = z.
Proof.
  intros t z Hf H.
  destruct t; try discriminate Hf; unfold wrap, imin, imax in *; cbn [ibits isigned] in *; cbv zeta;
    cbn [andb] in *;
    repeat match goal with
           | H : context [2 ^ ?n] |- _ => let v := eval vm_compute in (2 ^ n) in change (2 ^ n) with v in H
           | |- context [2 ^ ?n] => let v := eval vm_compute in (2 ^ n) in change (2 ^ n) with v
           | |- context [?a / 2] => let v := eval vm_compute in (a / 2) in change (a / 2) with v
           end;
    try (match goal with |- context [?a <=? ?b] => destruct (a <=? b) eqn:E end); lia.
Qed.
Local Arguments Z.pow : simpl never.

Definition K : Z := 2 ^ 1074.
Lemma K_pos : 0 < K. Proof. unfold K. apply Z.pow_pos_nonneg; lia. Qed.

Definition sc (v : val) : Z :=
  match v with VI z => z * K | VF n m e => smant n m * 2 ^ (e + 1074) | _ => 0 end.

Lemma dy_cmp_sc : forall m1 e1 m2 e2, -1074 <= e1 -> -1074 <= e2 ->
  dy_cmp m1 e1 m2 e2 = (m1 * 2 ^ (e1 + 1074) ?= m2 * 2 ^ (e2 + 1074)).
Proof.
  intros m1 e1 m2 e2 H1 H2. unfold dy_cmp.
  set (e0 := Z.min e1 e2).
  assert (He0 : -1074 <= e0 /\ e0 <= e1 /\ e0 <= e2) by (unfold e0; lia).
  replace (e1 + 1074) with ((e1 - e0) + (e0 + 1074)) by lia.
  replace (e2 + 1074) with ((e2 - e0) + (e0 + 1074)) by lia.
  rewrite (Z.pow_add_r 2 (e1 - e0)) by lia. rewrite (Z.pow_add_r 2 (e2 - e0)) by lia. rewrite !Z.mul_assoc.
  apply Zmult_compare_compat_r. apply Z.lt_gt. apply Z.pow_pos_nonneg; lia.
Qed.

Lemma ftrunc_sc : forall n m e, 0 <= m -> -1074 <= e ->
  ftrunc n m e = Z.quot (smant n m * 2 ^ (e + 1074)) K.
Proof.
  intros n m e Hm He. unfold ftrunc, K.
  destruct (0 <=? e) eqn:E.
  - apply Z.leb_le in E.
    rewrite Z.pow_add_r by lia. rewrite Z.mul_assoc.
    rewrite Z.quot_mul by (apply Z.pow_nonzero; lia).
    destruct n; unfold smant; ring.
  - apply Z.leb_gt in E.
    replace (2 ^ 1074) with (2 ^ ((- e) + (e + 1074))) by (f_equal; lia).
    rewrite (Z.pow_add_r 2 (- e) (e + 1074)) by lia.
    assert (HA : 0 < 2 ^ (e + 1074)) by (apply Z.pow_pos_nonneg; lia).
    assert (HB : 0 < 2 ^ (- e)) by (apply Z.pow_pos_nonneg; lia).
    rewrite Z.quot_mul_cancel_r by lia.
    destruct n; unfold smant.
    + rewrite Z.quot_opp_l by lia. rewrite Z.quot_div_nonneg by lia. reflexivity.
    + rewrite Z.quot_div_nonneg by lia. reflexivity.
Qed.

Lemma quot_range : forall a b X, a * K <= X <= b * K -> a <= Z.quot X K <= b.
Proof.
  intros a b X [H1 H2]. pose proof K_pos as HK.
  split.
  - rewrite <- (Z.quot_mul a K) by lia. apply Z.quot_le_mono; lia.
  - rewrite <- (Z.quot_mul b K) by lia. apply Z.quot_le_mono; lia.
Qed.

(* ---------- scaled values ---------- *)
Definition okv (v : val) : Prop :=
  match v with VI _ => True | VF _ m e => 0 <= m /\ -1074 <= e | _ => False end.
Definition okk (k : kconst) : bool :=
  match k with KI _ => true | KF _ m e => (0 <=? m) && (-1074 <=? e) end.
Definition sck (k : kconst) : Z := sc (kval k).

Lemma okk_okv : forall k, okk k = true -> okv (kval k).
Proof. intros [z | n m e] H; cbn in *; [exact I | lia]. Qed.

Lemma sc_VI_pow : forall z, z * K = z * 2 ^ (0 + 1074).
Proof. intros; reflexivity. Qed.

Lemma vcmp_sc : forall a b, okv a -> okv b -> vcmp a b = Some (sc a ?= sc b).
Proof.
  intros [x | n1 m1 e1 | | ] [y | n2 m2 e2 | | ] Ha Hb; cbn in Ha, Hb; try contradiction; cbn [vcmp sc].
  - f_equal. apply Zmult_compare_compat_r. pose proof K_pos; lia.
  - f_equal. rewrite dy_cmp_sc by lia. reflexivity.
  - f_equal. rewrite dy_cmp_sc by lia. reflexivity.
  - f_equal. rewrite dy_cmp_sc by lia. reflexivity.
Qed.

Lemma wf_okv : forall t v, wf_val t v = true -> (match v with VInf _ | VNaN => False | _ => True end) -> okv v.
Proof.
  intros t [z | n m e | n | ] H Hf; cbn in *; try contradiction; auto.
  destruct t; cbn in H; try discriminate; lia.
Qed.

(* ---------- conversion chains that keep every source value ---------- *)
Fixpoint chain_pres (lo hi : Z) (ch : list cty) : bool :=
  match ch with
  | [] => true
  | t :: r => negb (is_float t) && (imin t <=? lo) && (hi <=? imax t) && chain_pres lo hi r
  end.
Definition chain_id (S : cty) (ch : list cty) : bool :=
  if is_float S then forallb (fun t => cty_eqb t Double) ch else chain_pres (imin S) (imax S) ch.

Lemma cty_eqb_eq : forall a b, cty_eqb a b = true -> a = b.
Proof. destruct a, b; cbn; congruence. Qed.

Lemma chain_pres_ok : forall ch lo hi z, chain_pres lo hi ch = true -> lo <= z <= hi ->
  cchain ch (VI z) = Some (VI z).
Proof.
  induction ch as [| t r IH]; intros lo hi z H Hz; cbn in *; [reflexivity|].
  apply andb_prop in H as [H H4]. apply andb_prop in H as [H H3]. apply andb_prop in H as [H1 H2].
  apply negb_true_iff in H1. rewrite H1. rewrite wrap_id by (auto; lia). eauto.
Qed.

Lemma chain_id_ok : forall S ch v, chain_id S ch = true -> wf_val S v = true -> cchain ch v = Some v.
Proof.
  intros S ch v H Hw. unfold chain_id in H. destruct (is_float S) eqn:Ef.
  - revert H. induction ch as [| t r IH]; cbn; intros H; [reflexivity|].
    apply andb_prop in H as [H1 H2]. apply cty_eqb_eq in H1. subst t.
    destruct v as [z | n m e | n | ]; cbn in Hw.
    + rewrite Ef in Hw. discriminate.
    + cbn. auto.
    + cbn. auto.
    + cbn. auto.
  - destruct v as [z | n m e | n | ]; cbn in Hw; rewrite Ef in Hw; cbn in Hw; try discriminate.
    eapply chain_pres_ok; eauto. lia.
Qed.

(* ---------- the fill action ---------- *)
Definition val_eqb (a b : val) : bool :=
  match a, b with
  | VI x, VI y => x =? y
  | VF n1 m1 e1, VF n2 m2 e2 => Bool.eqb n1 n2 && (m1 =? m2) && (e1 =? e2)
  | VInf a, VInf b => Bool.eqb a b
  | VNaN, VNaN => true
  | _, _ => false
  end.
Lemma val_eqb_eq : forall a b, val_eqb a b = true -> a = b.
Proof.
  intros [x | n1 m1 e1 | n1 | ] [y | n2 m2 e2 | n2 | ]; cbn; intros H; try discriminate; auto.
  - f_equal; lia.
  - apply andb_prop in H as [H H3]. apply andb_prop in H as [H1 H2]. apply eqb_prop in H1. f_equal; lia || auto.
  - apply eqb_prop in H. congruence.
Qed.

Definition is_none {A} (o : option A) : bool := match o with None => true | _ => false end.

Definition act_fill_ok (d : cdir) (D : cty) (needp : bool) (a : cact) : bool :=
  match a, d with
  | AFill true (Some k), Put => val_eqb (kval k) (fill_of_cty D)
  | AFill true None, Put => negb needp
  | AFill false (Some k), Get => val_eqb (kval k) (fill_of_cty D)
  | _, _ => false
  end.
Lemma act_fill_ok_sound : forall d D fillp a, act_fill_ok d D (is_none fillp) a = true ->
  do_act a fillp = RRange (Some (spec_fill d D fillp)).
Proof.
  intros d D fillp [p [k|] | k] H; destruct d; cbn in H; try discriminate; destruct p; try discriminate.
  - apply val_eqb_eq in H. destruct fillp; cbn; rewrite ?H; reflexivity.
  - apply val_eqb_eq in H. cbn. rewrite H. destruct fillp; reflexivity.
  - destruct fillp; cbn in *; [reflexivity | discriminate].
Qed.

(* ---------- decision lists over the scaled source value ---------- *)
Section Tests.
  Variables (S : cty) (d : cdir) (D : cty) (needp dint : bool) (dstlo dsthi : Z).

  Definition test_ok (t : ctest) : bool :=
    cty_eqb (chain_ty S (t_chain t)) (t_cmp t) && chain_id S (t_chain t) && okk (t_k t) &&
    match t_op t, t_act t with
    | OGt, AFill _ _ => act_fill_ok d D needp (t_act t) && (dsthi <=? sck (t_k t))
    | OGe, AFill _ _ => act_fill_ok d D needp (t_act t) && (dsthi <? sck (t_k t))
    | OLt, AFill _ _ => act_fill_ok d D needp (t_act t) && (sck (t_k t) <=? dstlo)
    | OLe, AFill _ _ => act_fill_ok d D needp (t_act t) && (sck (t_k t) <? dstlo)
    | OEq, AStore (KI s) =>
        dint && (((dstlo <=? sck (t_k t)) && (sck (t_k t) <=? dsthi) && (s =? Z.quot (sck (t_k t)) K))
                 || (sck (t_k t) <? dstlo) || (dsthi <? sck (t_k t)))
    | _, _ => false
    end.

  Fixpoint bounds (ts : list ctest) (lo hi : Z) : Z * Z :=
    match ts with
    | [] => (lo, hi)
    | t :: r => match t_op t with
                | OGt => bounds r lo (Z.min hi (sck (t_k t)))
                | OGe => bounds r lo (Z.min hi (sck (t_k t) - 1))
                | OLt => bounds r (Z.max lo (sck (t_k t))) hi
                | OLe => bounds r (Z.max lo (sck (t_k t) + 1)) hi
                | _ => bounds r lo hi
                end
    end.
  (* Eq tests whose constant is outside the destination range *)
  Fixpoint eq_harm (ts : list ctest) : list Z :=
    match ts with
    | [] => []
    | t :: r => match t_op t with
                | OEq => if (dstlo <=? sck (t_k t)) && (sck (t_k t) <=? dsthi) then eq_harm r
                         else sck (t_k t) :: eq_harm r
                | _ => eq_harm r
                end
    end.
  Definition has_eq (ts : list ctest) : bool :=
    existsb (fun t => match t_op t with OEq => true | _ => false end) ts.

  (* values the code accepts although they are outside the destination range *)
  Definition gapb (ts : list ctest) (lo hi X : Z) : bool :=
    let '(lo', hi') := bounds ts lo hi in
    ((dsthi <? X) && (X <=? hi')) || ((lo' <=? X) && (X <? dstlo)) || existsb (Z.eqb X) (eq_harm ts).

  Lemma run_tests_generic : forall fillp v dflt, is_none fillp = needp -> wf_val S v = true -> okv v ->
    forall ts lo hi, forallb test_ok ts = true -> lo <= sc v <= hi -> gapb ts lo hi (sc v) = false ->
    (has_eq ts = true -> dstlo <= sc v <= dsthi -> dflt = ROk (VI (Z.quot (sc v) K))) ->
    run_tests S ts fillp v dflt =
      if (dstlo <=? sc v) && (sc v <=? dsthi) then dflt else RRange (Some (spec_fill d D fillp)).
  Proof.
    intros fillp v dflt Hnp Hw Hv. set (X := sc v).
    induction ts as [| t r IH]; intros lo hi Hok HX Hgap Hd.
    - cbn. unfold gapb in Hgap. cbn in Hgap.
      destruct ((dstlo <=? X) && (X <=? dsthi)) eqn:E; [reflexivity | exfalso; lia].
    - cbn [forallb] in Hok. apply andb_prop in Hok as [Ht Hr].
      unfold test_ok in Ht.
      apply andb_prop in Ht as [Ht Hact]. apply andb_prop in Ht as [Ht Hk]. apply andb_prop in Ht as [Hty Hch].
      cbn [run_tests]. rewrite Hty. cbn [negb].
      rewrite (chain_id_ok _ _ _ Hch Hw).
      rewrite (vcmp_sc _ _ Hv (okk_okv _ Hk)). fold X. fold (sck (t_k t)).
      assert (Hsub : has_eq r = true -> dstlo <= X <= dsthi -> dflt = ROk (VI (Z.quot X K))).
      { intros H1 H2. apply Hd; auto. unfold has_eq in *. cbn [existsb]. rewrite H1. apply orb_true_r. }
      unfold gapb in Hgap. cbn [bounds eq_harm] in Hgap.
      pose proof (Z.compare_spec X (sck (t_k t))) as Hc.
      destruct (t_op t) eqn:Eop; try discriminate Hact;
        destruct (t_act t) as [p dk | ks] eqn:Eact; try discriminate Hact; cbv iota in Hgap.
      + (* OGt fill *)
        apply andb_prop in Hact as [Ha Hb]. rewrite <- Eact, <- Hnp in Ha.
        destruct Hc as [Hc | Hc | Hc]; cbn [test_op].
        * apply (IH lo (Z.min hi (sck (t_k t)))); auto. lia.
        * apply (IH lo (Z.min hi (sck (t_k t)))); auto. lia.
        * rewrite <- Eact. rewrite (act_fill_ok_sound _ _ _ _ Ha).
          destruct ((dstlo <=? X) && (X <=? dsthi)) eqn:E; [exfalso; lia | reflexivity].
      + (* OLt fill *)
        apply andb_prop in Hact as [Ha Hb]. rewrite <- Eact, <- Hnp in Ha.
        destruct Hc as [Hc | Hc | Hc]; cbn [test_op].
        * apply (IH (Z.max lo (sck (t_k t))) hi); auto. lia.
        * rewrite <- Eact. rewrite (act_fill_ok_sound _ _ _ _ Ha).
          destruct ((dstlo <=? X) && (X <=? dsthi)) eqn:E; [exfalso; lia | reflexivity].
        * apply (IH (Z.max lo (sck (t_k t))) hi); auto. lia.
      + (* OGe fill *)
        apply andb_prop in Hact as [Ha Hb]. rewrite <- Eact, <- Hnp in Ha.
        destruct Hc as [Hc | Hc | Hc]; cbn [test_op].
        * rewrite <- Eact. rewrite (act_fill_ok_sound _ _ _ _ Ha).
          destruct ((dstlo <=? X) && (X <=? dsthi)) eqn:E; [exfalso; lia | reflexivity].
        * apply (IH lo (Z.min hi (sck (t_k t) - 1))); auto. lia.
        * rewrite <- Eact. rewrite (act_fill_ok_sound _ _ _ _ Ha).
          destruct ((dstlo <=? X) && (X <=? dsthi)) eqn:E; [exfalso; lia | reflexivity].
      + (* OLe fill *)
        apply andb_prop in Hact as [Ha Hb]. rewrite <- Eact, <- Hnp in Ha.
        destruct Hc as [Hc | Hc | Hc]; cbn [test_op].
        * rewrite <- Eact. rewrite (act_fill_ok_sound _ _ _ _ Ha).
          destruct ((dstlo <=? X) && (X <=? dsthi)) eqn:E; [exfalso; lia | reflexivity].
        * rewrite <- Eact. rewrite (act_fill_ok_sound _ _ _ _ Ha).
          destruct ((dstlo <=? X) && (X <=? dsthi)) eqn:E; [exfalso; lia | reflexivity].
        * apply (IH (Z.max lo (sck (t_k t) + 1)) hi); auto. lia.
      + (* OEq store *)
        destruct ks as [s | ? ? ?]; try discriminate Hact.
        apply andb_prop in Hact as [Hdi Hb].
        destruct Hc as [Hc | Hc | Hc]; cbn [test_op].
        * (* X = constant *)
          destruct ((dstlo <=? sck (t_k t)) && (sck (t_k t) <=? dsthi)) eqn:Ein.
          -- cbn [do_act kval].
             assert (Hs : s = Z.quot (sck (t_k t)) K) by lia.
             rewrite Hc. rewrite Ein. rewrite Hs.
             symmetry. rewrite <- Hc. apply Hd; [unfold has_eq; cbn [existsb]; rewrite Eop; reflexivity | lia].
          -- exfalso. cbn [existsb] in Hgap. rewrite <- Hc in Hgap. rewrite Z.eqb_refl in Hgap.
             destruct (bounds r lo hi). rewrite orb_true_l, orb_true_r in Hgap. discriminate.
        * apply (IH lo hi); auto.
          destruct ((dstlo <=? sck (t_k t)) && (sck (t_k t) <=? dsthi)); auto.
          cbn [existsb] in Hgap. unfold gapb. destruct (bounds r lo hi) as [lo' hi'].
          apply orb_false_iff in Hgap as [Hg1 Hg3]. apply orb_false_iff in Hg3 as [_ Hg3]. rewrite Hg1, Hg3. reflexivity.
        * apply (IH lo hi); auto.
          destruct ((dstlo <=? sck (t_k t)) && (sck (t_k t) <=? dsthi)); auto.
          cbn [existsb] in Hgap. unfold gapb. destruct (bounds r lo hi) as [lo' hi'].
          apply orb_false_iff in Hgap as [Hg1 Hg3]. apply orb_false_iff in Hg3 as [_ Hg3]. rewrite Hg1, Hg3. reflexivity.
  Qed.
End Tests.

Arguments test_ok S d D needp dint dstlo dsthi t : assert.

(* ---------- NaN and infinities ---------- *)
Definition is_upper (t : ctest) : bool := match t_op t with OGt | OGe => true | _ => false end.
Definition is_lower (t : ctest) : bool := match t_op t with OLt | OLe => true | _ => false end.

Lemma run_tests_nan : forall S d D needp dint lo hi fillp dflt ts, is_float S = true ->
  forallb (test_ok S d D needp dint lo hi) ts = true -> run_tests S ts fillp VNaN dflt = dflt.
Proof.
  intros S d D needp dint lo hi fillp dflt ts HS. induction ts as [| t r IH]; intros Hok; [reflexivity|].
  cbn [forallb] in Hok. apply andb_prop in Hok as [Ht Hr]. unfold test_ok in Ht.
  apply andb_prop in Ht as [Ht Hact]. apply andb_prop in Ht as [Ht Hk]. apply andb_prop in Ht as [Hty Hch].
  cbn [run_tests]. rewrite Hty. cbn [negb].
  rewrite (chain_id_ok S _ VNaN Hch) by (cbn; exact HS).
  cbn [vcmp].
  destruct (t_op t); try discriminate Hact; cbn [test_op]; auto.
Qed.

Lemma run_tests_inf : forall S d D needp dint lo hi fillp dflt n ts, is_float S = true ->
  is_none fillp = needp ->
  forallb (test_ok S d D needp dint lo hi) ts = true ->
  run_tests S ts fillp (VInf n) dflt =
    if existsb (if n then is_lower else is_upper) ts then RRange (Some (spec_fill d D fillp)) else dflt.
Proof.
  intros S d D needp dint lo hi fillp dflt n ts HS Hnp. induction ts as [| t r IH]; intros Hok; [reflexivity|].
  cbn [forallb] in Hok. apply andb_prop in Hok as [Ht Hr]. unfold test_ok in Ht.
  apply andb_prop in Ht as [Ht Hact]. apply andb_prop in Ht as [Ht Hk]. apply andb_prop in Ht as [Hty Hch].
  cbn [run_tests existsb]. rewrite Hty. cbn [negb].
  rewrite (chain_id_ok S _ (VInf n) Hch) by (cbn; exact HS).
  assert (Hv : vcmp (VInf n) (kval (t_k t)) = Some (if n then Lt else Gt)) by (destruct (t_k t); reflexivity).
  rewrite Hv. rewrite (IH Hr).
  destruct (t_op t) eqn:Eop; try discriminate Hact;
    destruct (t_act t) as [p dk | ks] eqn:Eact; try discriminate Hact;
    try (apply andb_prop in Hact as [Ha _]; rewrite <- Eact, <- Hnp in Ha; apply act_fill_ok_sound in Ha;
         rewrite Eact in Ha);
    destruct n; unfold is_lower, is_upper; rewrite Eop; cbn [test_op orb]; auto.
Qed.

(* ---------- the destination range on the scaled axis ---------- *)
Definition fmaxsc (D : cty) : Z := fmax_m D * 2 ^ (femax D + 1074).
Definition dst_lo (D : cty) : Z := if is_float D then - fmaxsc D else imin D * K.
Definition dst_hi (D : cty) : Z := if is_float D then fmaxsc D else imax D * K.

Lemma leb_scale : forall a b, (a <=? b) = (a * K <=? b * K).
Proof.
  intros a b. pose proof K_pos as HK. generalize dependent K. intros k HK.
  destruct (Z.leb_spec a b), (Z.leb_spec (a * k) (b * k)); try reflexivity; exfalso; nia.
Qed.

Lemma cmp_ge_leb : forall X lo, (match X ?= lo with Lt => false | _ => true end) = (lo <=? X).
Proof. intros. destruct (Z.compare_spec X lo), (Z.leb_spec lo X); try reflexivity; lia. Qed.
Lemma cmp_le_leb : forall X hi, (match X ?= hi with Gt => false | _ => true end) = (X <=? hi).
Proof. intros. destruct (Z.compare_spec X hi), (Z.leb_spec X hi); try reflexivity; lia. Qed.

Lemma femax_ge : forall D, -1074 <= femax D. Proof. destruct D; cbn; lia. Qed.

Lemma spec_in_range_sc : forall D v, okv v ->
  (match v with VI _ => is_float D = false | _ => True end) ->
  spec_in_range D v = (dst_lo D <=? sc v) && (sc v <=? dst_hi D).
Proof.
  intros D [z | n m e | | ] Hv Hc; cbn in Hv; try contradiction.
  - cbn [spec_in_range sc]. unfold dst_lo, dst_hi. rewrite Hc. rewrite <- !leb_scale. reflexivity.
  - cbn [spec_in_range sc]. unfold dst_lo, dst_hi. pose proof (femax_ge D).
    destruct (is_float D).
    + rewrite !dy_cmp_sc by lia. unfold fmaxsc.
      rewrite cmp_ge_leb, cmp_le_leb. f_equal. f_equal. ring.
    + rewrite !dy_cmp_sc by lia. change (2 ^ (0 + 1074)) with K.
      rewrite cmp_ge_leb, cmp_le_leb. reflexivity.
Qed.

(* ---------- the in-range path ---------- *)
Definition casts_ok (S D : cty) (casts : list cty) : bool :=
  cty_eqb (chain_ty S casts) D &&
  (if is_float D then (match casts with [t] => cty_eqb t D | _ => false end)
   else if is_float S then
     (match casts with
      | t1 :: r => negb (is_float t1) && (imin t1 <=? imin D) && (imax D <=? imax t1) &&
                   chain_pres (imin D) (imax D) r
      | [] => false
      end)
   else chain_pres (Z.max (imin S) (imin D)) (Z.min (imax S) (imax D)) casts).

Lemma casts_ok_sound : forall S D casts v, casts_ok S D casts = true -> wf_val S v = true ->
  spec_in_range D v = true -> cchain casts v = Some (spec_value D v).
Proof.
  intros S D casts v H Hw Hr. unfold casts_ok in H. apply andb_prop in H as [_ H].
  destruct (is_float D) eqn:ED.
  - destruct casts as [| t [| ? ?]]; try discriminate H. apply cty_eqb_eq in H. subst t.
    destruct v as [z | n m e | n | ]; cbn [cchain cconv spec_value]; rewrite ?ED.
    + reflexivity.
    + destruct D; try discriminate ED; reflexivity.
    + cbn in Hr. discriminate.
    + reflexivity.
  - destruct (is_float S) eqn:ES.
    + destruct casts as [| t1 r]; try discriminate H.
      apply andb_prop in H as [H H4]. apply andb_prop in H as [H H3]. apply andb_prop in H as [H1 H2].
      apply negb_true_iff in H1.
      destruct v as [z | n m e | n | ]; cbn in Hw; rewrite ?ES in Hw; try discriminate Hw;
        try (cbn in Hr; rewrite ?ED in Hr; discriminate Hr).
      assert (Hv : okv (VF n m e)) by (cbn; destruct S; cbn in Hw; try discriminate; lia).
      rewrite spec_in_range_sc in Hr by (auto; exact I).
      unfold dst_lo, dst_hi in Hr. rewrite ED in Hr. cbn [sc] in Hr.
      assert (Hq : imin D <= ftrunc n m e <= imax D).
      { cbn in Hv. rewrite ftrunc_sc by lia. apply quot_range. lia. }
      cbn [cchain cconv spec_value]. rewrite H1, ED.
      replace ((imin t1 <=? ftrunc n m e) && (ftrunc n m e <=? imax t1)) with true by (symmetry; lia).
      eapply chain_pres_ok; eauto.
    + destruct v as [z | n m e | n | ]; cbn in Hw; rewrite ?ES in Hw; cbn in Hw; try discriminate Hw.
      cbn in Hr. rewrite ED in Hr. cbn [spec_value]. rewrite ED.
      eapply chain_pres_ok; eauto. lia.
Qed.

(* ---------- the source range on the scaled axis ---------- *)
Definition BIG : Z := 2 ^ 53 * 2 ^ (971 + 1074).
Definition src_lo (S : cty) : Z := if is_float S then - BIG else imin S * K.
Definition src_hi (S : cty) : Z := if is_float S then BIG else imax S * K.

Lemma sc_bounds : forall S v, wf_val S v = true -> okv v -> src_lo S <= sc v <= src_hi S.
Proof.
  intros S [z | n m e | | ] Hw Hv; cbn in Hv; try contradiction; unfold src_lo, src_hi; cbn [wf_val sc] in *.
  - destruct (is_float S); cbn in Hw; [discriminate|]. pose proof K_pos. nia.
  - destruct (is_float S) eqn:ES; cbn in Hw; [|discriminate].
    assert (Hm : m < 2 ^ 53).
    { destruct S; try discriminate ES; cbn in Hw.
      - assert (2 ^ 24 < 2 ^ 53) by (apply Z.pow_lt_mono_r; lia). lia.
      - lia. }
    assert (He : e <= 971) by (destruct S; try discriminate ES; cbn in Hw; lia).
    assert (Hp : 0 < 2 ^ (e + 1074) <= 2 ^ (971 + 1074)).
    { split; [apply Z.pow_pos_nonneg; lia | apply Z.pow_le_mono_r; lia]. }
    assert (0 < 2 ^ 53) by (apply Z.pow_pos_nonneg; lia).
    unfold BIG. assert (m * 2 ^ (e + 1074) <= 2 ^ 53 * 2 ^ (971 + 1074)) by (apply Z.mul_le_mono_nonneg; lia).
    assert (0 <= m * 2 ^ (e + 1074)) by (apply Z.mul_nonneg_nonneg; lia).
    destruct n; unfold smant; lia.
Qed.

(* ---------- bytes written by hand ---------- *)
Fixpoint zrange (lo : Z) (n : nat) : list Z := match n with O => [] | Datatypes.S k => lo :: zrange (lo + 1) k end.
Lemma zrange_in : forall n lo z, lo <= z < lo + Z.of_nat n -> In z (zrange lo n).
Proof.
  induction n as [| k IH]; intros lo z H; [lia|]. cbn [zrange].
  destruct (Z.eq_dec z lo); [left; auto | right; apply IH; lia].
Qed.
Definition res_eqb (a b : res) : bool :=
  match a, b with
  | ROk x, ROk y => val_eqb x y
  | _, _ => false
  end.
Definition ext_ok (sext : bool) (S D : cty) : bool :=
  forallb (fun z => implb ((imin S <=? z) && (z <=? imax S) && (imin D <=? z) && (z <=? imax D))
                          (res_eqb (ext_bytes sext D (VI z)) (ROk (VI z)))) (zrange (-128) 384).
Lemma ext_ok_sound : forall sext S D z, ext_ok sext S D = true ->
  -128 <= imin S -> imax S <= 255 -> imin S <= z <= imax S -> imin D <= z <= imax D ->
  ext_bytes sext D (VI z) = ROk (VI z).
Proof.
  intros sext S D z H H1 H2 H3 H4. unfold ext_ok in H. rewrite forallb_forall in H.
  assert (Hin : In z (zrange (-128) 384)) by (apply zrange_in; change (Z.of_nat 384) with 384; lia).
  specialize (H z Hin).
  replace ((imin S <=? z) && (z <=? imax S) && (imin D <=? z) && (z <=? imax D)) with true in H by (symmetry; lia).
  cbn [implb] in H. destruct (ext_bytes sext D (VI z)); cbn in H; try discriminate.
  apply val_eqb_eq in H. congruence.
Qed.

(* ---------- static check of one table entry ---------- *)
Definition small_int (S : cty) : bool := match S with Schar | Uchar => true | _ => false end.

Definition entry_chk (needp : bool) (f : cfun) : bool :=
  let S := src_ty f in
  let D := dst_ty f in
  let tests_ok ts := forallb (test_ok S (f_dir f) D needp (negb (is_float D)) (dst_lo D) (dst_hi D)) ts in
  match f_body f with
  | BIdent => same_repr S D
  | BTests ts casts =>
      if same_repr S D then (match ts with [] => true | _ => false end) && chain_id S casts &&
                            cty_eqb (chain_ty S casts) D
      else if is_float D && negb (is_float S) then (match ts with [] => true | _ => false end) && casts_ok S D casts
      else tests_ok ts && casts_ok S D casts
  | BSext ts => negb (same_repr S D) && small_int S && negb (is_float D) && tests_ok ts && ext_ok true S D
  | BZext ts => negb (same_repr S D) && small_int S && negb (is_float D) && tests_ok ts && ext_ok false S D
  | BUnrec => false
  end.

(* source values at which the code deviates from the specification (computed from the entry) *)
Definition exclb (f : cfun) (v : val) : bool :=
  let S := src_ty f in
  let D := dst_ty f in
  if same_repr S D then false
  else if is_float D && negb (is_float S) then false
  else match f_body f with
       | BTests ts _ | BSext ts | BZext ts =>
           match v with
           | VNaN => negb (is_float D)
           | VInf n => negb (existsb (if n then is_lower else is_upper) ts)
           | _ => gapb (dst_lo D) (dst_hi D) ts (src_lo S) (src_hi S) (sc v)
           end
       | _ => false
       end.

Lemma has_eq_dint : forall S d D needp dint lo hi ts,
  forallb (test_ok S d D needp dint lo hi) ts = true -> has_eq ts = true -> dint = true.
Proof.
  intros S d D needp dint lo hi ts. induction ts as [| t r IH]; cbn; intros H He; [discriminate|].
  apply andb_prop in H as [Ht Hr]. apply orb_prop in He as [He | He]; [| auto].
  unfold test_ok in Ht. apply andb_prop in Ht as [_ Hact].
  destruct (t_op t); try discriminate He. destruct (t_act t) as [? ? | [s | ? ? ?]]; try discriminate Hact.
  apply andb_prop in Hact as [Hd _]. exact Hd.
Qed.

Lemma spec_conv_not_same : forall d S D fillp v, same_repr S D = false ->
  spec_conv d S D fillp v =
    if spec_in_range D v then ROk (spec_value D v) else RRange (Some (spec_fill d D fillp)).
Proof. intros. unfold spec_conv. rewrite H. reflexivity. Qed.

Lemma tests_path : forall f needp ts fillp v dflt,
  let S := src_ty f in let D := dst_ty f in
  same_repr S D = false -> (is_float D && negb (is_float S)) = false ->
  forallb (test_ok S (f_dir f) D needp (negb (is_float D)) (dst_lo D) (dst_hi D)) ts = true ->
  is_none fillp = needp -> wf_val S v = true ->
  (match v with
   | VNaN => negb (is_float D)
   | VInf n => negb (existsb (if n then is_lower else is_upper) ts)
   | _ => gapb (dst_lo D) (dst_hi D) ts (src_lo S) (src_hi S) (sc v)
   end) = false ->
  (spec_in_range D v = true -> dflt = ROk (spec_value D v)) ->
  run_tests S ts fillp v dflt = spec_conv (f_dir f) S D fillp v.
Proof.
  intros f needp ts fillp v dflt S D Hsame Hif Hok Hnp Hw Hex Hd.
  rewrite spec_conv_not_same by exact Hsame.
  destruct v as [z | n m e | n | ].
  - (* integer source *)
    assert (HS : is_float S = false) by (cbn in Hw; destruct (is_float S); [discriminate | reflexivity]).
    assert (HD : is_float D = false) by (rewrite HS in Hif; cbn in Hif; destruct (is_float D); auto).
    assert (Hv : okv (VI z)) by exact I.
    rewrite spec_in_range_sc by (auto; exact HD).
    erewrite run_tests_generic; eauto.
    + destruct ((dst_lo D <=? sc (VI z)) && (sc (VI z) <=? dst_hi D)) eqn:E; [| reflexivity].
      apply Hd. rewrite spec_in_range_sc by (auto; exact HD). exact E.
    + apply sc_bounds; auto.
    + intros _ Hr. rewrite Hd.
      * cbn [spec_value sc]. rewrite HD. rewrite Z.quot_mul by (pose proof K_pos; lia). reflexivity.
      * rewrite spec_in_range_sc by (auto; exact HD). lia.
  - (* finite floating-point source *)
    assert (Hv : okv (VF n m e)).
    { cbn in Hw. cbn. destruct S; cbn in Hw; try discriminate; lia. }
    rewrite spec_in_range_sc by (auto; exact I).
    erewrite run_tests_generic; eauto.
    + destruct ((dst_lo D <=? sc (VF n m e)) && (sc (VF n m e) <=? dst_hi D)) eqn:E; [| reflexivity].
      apply Hd. rewrite spec_in_range_sc by (auto; exact I). exact E.
    + apply sc_bounds; auto.
    + intros He Hr.
      assert (HD : is_float D = false).
      { apply has_eq_dint in Hok; auto. destruct (is_float D); [discriminate | reflexivity]. }
      rewrite Hd.
      * cbn [spec_value sc]. rewrite HD. cbn in Hv. rewrite ftrunc_sc by lia. reflexivity.
      * rewrite spec_in_range_sc by (auto; exact I). lia.
  - (* infinity *)
    assert (HS : is_float S = true) by (cbn in Hw; exact Hw).
    erewrite run_tests_inf; eauto.
    apply negb_false_iff in Hex. rewrite Hex. reflexivity.
  - (* NaN *)
    assert (HS : is_float S = true) by (cbn in Hw; exact Hw).
    erewrite run_tests_nan; eauto.
    apply negb_false_iff in Hex. cbn [spec_in_range]. rewrite Hex. apply Hd. cbn. exact Hex.
Qed.

Theorem entry_sound : forall needp f, entry_chk needp f = true ->
  forall fillp v, is_none fillp = needp -> wf_val (src_ty f) v = true -> exclb f v = false ->
  conv1 f fillp v = spec_conv (f_dir f) (src_ty f) (dst_ty f) fillp v.
Proof.
  intros needp f Hchk fillp v Hnp Hw Hex.
  unfold entry_chk in Hchk. unfold conv1. unfold exclb in Hex.
  destruct (f_body f) as [| ts casts | ts | ts | ] eqn:Eb; try discriminate Hchk.
  - (* BIdent *) unfold spec_conv. rewrite Hchk. reflexivity.
  - (* BTests *)
    destruct (same_repr (src_ty f) (dst_ty f)) eqn:Esame.
    + apply andb_prop in Hchk as [Hchk Hty]. apply andb_prop in Hchk as [Hts Hch].
      destruct ts; try discriminate Hts. rewrite Hty. cbn [negb run_tests].
      rewrite (chain_id_ok _ _ _ Hch Hw). unfold spec_conv. rewrite Esame. reflexivity.
    + destruct (is_float (dst_ty f) && negb (is_float (src_ty f))) eqn:Eif.
      * apply andb_prop in Hchk as [Hts Hc]. destruct ts; try discriminate Hts.
        pose proof Hc as Hc'. unfold casts_ok in Hc'. apply andb_prop in Hc' as [Hty _]. rewrite Hty.
        cbn [negb run_tests].
        apply andb_prop in Eif as [ED ES]. apply negb_true_iff in ES.
        destruct v as [z | n m e | n | ]; cbn in Hw; rewrite ?ES in Hw; cbn in Hw; try discriminate Hw.
        assert (Hr : spec_in_range (dst_ty f) (VI z) = true) by (cbn; rewrite ED; reflexivity).
        rewrite (casts_ok_sound _ _ _ (VI z) Hc) by (auto; cbn; rewrite ES; cbn; exact Hw).
        rewrite spec_conv_not_same by exact Esame. rewrite Hr. reflexivity.
      * apply andb_prop in Hchk as [Hts Hc].
        pose proof Hc as Hc'. unfold casts_ok in Hc'. apply andb_prop in Hc' as [Hty _]. rewrite Hty.
        cbn [negb].
        eapply tests_path; eauto.
        intros Hr. rewrite (casts_ok_sound _ _ _ v Hc); auto.
  - (* BSext *)
    apply andb_prop in Hchk as [Hchk Hext]. apply andb_prop in Hchk as [Hchk Hts].
    apply andb_prop in Hchk as [Hchk HD]. apply andb_prop in Hchk as [Hsame Hsm].
    apply negb_true_iff in Hsame, HD. rewrite Hsame in Hex. rewrite HD in Hex. cbn [andb] in Hex.
    eapply tests_path; eauto; [rewrite HD; reflexivity | rewrite HD; exact Hex |].
    intros Hr.
    assert (ES : is_float (src_ty f) = false) by (destruct (src_ty f); try discriminate Hsm; reflexivity).
    destruct v as [z | n m e | n | ]; cbn in Hw; rewrite ?ES in Hw; cbn in Hw; try discriminate Hw.
    cbn in Hr. rewrite HD in Hr. cbn [spec_value]. rewrite HD.
    eapply ext_ok_sound; eauto; try lia; destruct (src_ty f); try discriminate Hsm; cbn; lia.
  - (* BZext *)
    apply andb_prop in Hchk as [Hchk Hext]. apply andb_prop in Hchk as [Hchk Hts].
    apply andb_prop in Hchk as [Hchk HD]. apply andb_prop in Hchk as [Hsame Hsm].
    apply negb_true_iff in Hsame, HD. rewrite Hsame in Hex. rewrite HD in Hex. cbn [andb] in Hex.
    eapply tests_path; eauto; [rewrite HD; reflexivity | rewrite HD; exact Hex |].
    intros Hr.
    assert (ES : is_float (src_ty f) = false) by (destruct (src_ty f); try discriminate Hsm; reflexivity).
    destruct v as [z | n m e | n | ]; cbn in Hw; rewrite ?ES in Hw; cbn in Hw; try discriminate Hw.
    cbn in Hr. rewrite HD in Hr. cbn [spec_value]. rewrite HD.
    eapply ext_ok_sound; eauto; try lia; destruct (src_ty f); try discriminate Hsm; cbn; lia.
Qed.

(* ---------- entries without excluded values ---------- *)
Definition body_ts (b : cbody) : list ctest :=
  match b with BTests ts _ | BSext ts | BZext ts => ts | _ => [] end.

(* every finite value and the infinities are treated as specified *)
Definition noexcl_fin (f : cfun) : bool :=
  let S := src_ty f in
  let D := dst_ty f in
  same_repr S D || (is_float D && negb (is_float S)) ||
  match f_body f with
  | BTests ts _ | BSext ts | BZext ts =>
      (let '(lo', hi') := bounds ts (src_lo S) (src_hi S) in (dst_lo D <=? lo') && (hi' <=? dst_hi D)) &&
      (match eq_harm (dst_lo D) (dst_hi D) ts with [] => true | _ => false end) &&
      (negb (is_float S) || (existsb is_upper ts && existsb is_lower ts))
  | _ => true
  end.
(* ... and NaN too *)
Definition noexcl (f : cfun) : bool :=
  noexcl_fin f && (negb (is_float (src_ty f)) || is_float (dst_ty f)).

Lemma noexcl_fin_sound : forall f v, noexcl_fin f = true -> wf_val (src_ty f) v = true ->
  v <> VNaN -> exclb f v = false.
Proof.
  intros f v H Hw Hn. unfold noexcl_fin in H. unfold exclb.
  destruct (same_repr (src_ty f) (dst_ty f)); [reflexivity|].
  destruct (is_float (dst_ty f) && negb (is_float (src_ty f))); [reflexivity|].
  cbn [orb] in H.
  assert (G : forall ts,
    (let '(lo', hi') := bounds ts (src_lo (src_ty f)) (src_hi (src_ty f)) in
       (dst_lo (dst_ty f) <=? lo') && (hi' <=? dst_hi (dst_ty f))) &&
    (match eq_harm (dst_lo (dst_ty f)) (dst_hi (dst_ty f)) ts with [] => true | _ => false end) &&
    (negb (is_float (src_ty f)) || (existsb is_upper ts && existsb is_lower ts)) = true ->
    match v with
    | VNaN => negb (is_float (dst_ty f))
    | VInf n => negb (existsb (if n then is_lower else is_upper) ts)
    | _ => gapb (dst_lo (dst_ty f)) (dst_hi (dst_ty f)) ts (src_lo (src_ty f)) (src_hi (src_ty f)) (sc v)
    end = false).
  { intros ts G. apply andb_prop in G as [G G3]. apply andb_prop in G as [G1 G2].
    assert (Hfin : gapb (dst_lo (dst_ty f)) (dst_hi (dst_ty f)) ts (src_lo (src_ty f)) (src_hi (src_ty f)) (sc v) = false).
    { unfold gapb. destruct (bounds ts (src_lo (src_ty f)) (src_hi (src_ty f))) as [lo' hi'].
      destruct (eq_harm (dst_lo (dst_ty f)) (dst_hi (dst_ty f)) ts); [| discriminate G2].
      cbn [existsb]. lia. }
    destruct v as [z | n m e | n | ]; auto; [| congruence].
    cbn in Hw. rewrite Hw in G3. cbn [negb orb] in G3. apply andb_prop in G3 as [Gu Gl].
    destruct n; [rewrite Gl | rewrite Gu]; reflexivity. }
  destruct (f_body f); auto.
Qed.

Lemma noexcl_sound : forall f v, noexcl f = true -> wf_val (src_ty f) v = true -> exclb f v = false.
Proof.
  intros f v H Hw. unfold noexcl in H. apply andb_prop in H as [H1 H2].
  destruct v as [z | n m e | n | ]; try (apply noexcl_fin_sound; auto; discriminate).
  cbn in Hw. rewrite Hw in H2. cbn in H2.
  unfold exclb. destruct (same_repr (src_ty f) (dst_ty f)); [reflexivity|].
  destruct (is_float (dst_ty f) && negb (is_float (src_ty f))); [reflexivity|].
  rewrite H2. destruct (f_body f); reflexivity.
Qed.

(* a NULL fill pointer is tolerated by the functions that have a default constant on every fill path *)
Definition fill_dflt_ok (f : cfun) : bool :=
  forallb (fun t => match t_act t with AFill _ None => false | _ => true end) (body_ts (f_body f)).

(* ---------- the table ---------- *)
Lemma table_chk : forallb (entry_chk false) ncx_table = true.
Proof. vm_compute. reflexivity. Qed.
Lemma table_chk_null : forallb (fun f => implb (fill_dflt_ok f) (entry_chk true f)) ncx_table = true.
Proof. vm_compute. reflexivity. Qed.

Definition fi_pair (f : cfun) : bool := is_float (src_ty f) && negb (is_float (dst_ty f)).
Definition is_put (f : cfun) : bool := match f_dir f with Put => true | Get => false end.
Definition get_float_double (f : cfun) : bool :=
  negb (is_put f) && xty_eqb (f_x f) XFLOAT && cty_eqb (f_i f) Double.

Lemma table_noexcl :
  forallb (fun f => implb (negb (fi_pair f) && negb (get_float_double f)) (noexcl f)) ncx_table = true.
Proof. vm_compute. reflexivity. Qed.
Lemma table_noexcl_fi32 :
  forallb (fun f => implb (fi_pair f && (ibits (dst_ty f) <=? 32)) (noexcl_fin f)) ncx_table = true.
Proof. vm_compute. reflexivity. Qed.

(* core: model = specification outside the computed exclusion set, for every function of the table *)
Theorem conv_exact_outside_excl : forall f, In f ncx_table ->
  forall fillp v, (fillp = None -> fill_dflt_ok f = true) ->
  wf_val (src_ty f) v = true -> exclb f v = false ->
  conv1 f fillp v = spec_conv (f_dir f) (src_ty f) (dst_ty f) fillp v.
Proof.
  intros f Hin fillp v Hnull Hw Hex.
  destruct fillp as [fv |].
  - apply (entry_sound false); auto.
    pose proof table_chk as T. rewrite forallb_forall in T. apply T. exact Hin.
  - apply (entry_sound true); auto.
    pose proof table_chk_null as T. rewrite forallb_forall in T. specialize (T f Hin).
    rewrite (Hnull eq_refl) in T. exact T.
Qed.

(* C09 conv_put_exact / conv_get_exact at full strength *)
Definition conv_put_exact_full : Prop := forall f, In f ncx_table -> f_dir f = Put ->
  forall fillp v, (fillp = None -> fill_dflt_ok f = true) -> wf_val (src_ty f) v = true ->
  conv1 f fillp v = spec_conv Put (src_ty f) (dst_ty f) fillp v.
Definition conv_get_exact_full : Prop := forall f, In f ncx_table -> f_dir f = Get ->
  forall fillp v, wf_val (src_ty f) v = true ->
  conv1 f fillp v = spec_conv Get (src_ty f) (dst_ty f) fillp v.

Definition the (o : option cfun) : cfun :=
  match o with Some f => f | None => mkF Put false XBYTE Schar LUnrec BUnrec end.
Lemma lookup_in : forall d p x i f, lookup d p x i = Some f -> In f ncx_table.
Proof. intros d p x i f H. unfold lookup in H. apply find_some in H. tauto. Qed.
Lemma the_lookup_in : forall d p x i, lookup d p x i <> None -> In (the (lookup d p x i)) ncx_table.
Proof.
  intros d p x i H. destruct (lookup d p x i) eqn:E; [| congruence]. cbn. eapply lookup_in; eauto.
Qed.

(* witness: double 2^63 written to NC_INT64 passes `> (double)X_INT64_MAX` and is cast (undefined) *)
Theorem conv_put_exact_refuted : ~ conv_put_exact_full.
Proof.
  intros H.
  specialize (H (the (lookup Put false XINT64 Double)) ltac:(apply the_lookup_in; vm_compute; discriminate) eq_refl
                (Some (VI 0)) (VF false 1 63) ltac:(discriminate) eq_refl).
  vm_compute in H. discriminate H.
Qed.
(* witness: NC_DOUBLE 2^63 read as long long returns LLONG_MAX with NC_NOERR *)
Theorem conv_get_exact_refuted : ~ conv_get_exact_full.
Proof.
  intros H.
  specialize (H (the (lookup Get false XDOUBLE Longlong)) ltac:(apply the_lookup_in; vm_compute; discriminate) eq_refl
                None (VF false 1 63) eq_refl).
  vm_compute in H. discriminate H.
Qed.

(* the same two refutations with the refuted statement written out *)
Theorem conv_put_exact_refuted_stmt :
  ~ (forall f, In f ncx_table -> f_dir f = Put ->
     forall fillp v, (fillp = None -> fill_dflt_ok f = true) -> wf_val (src_ty f) v = true ->
     conv1 f fillp v = spec_conv Put (src_ty f) (dst_ty f) fillp v).
Proof. exact conv_put_exact_refuted. Qed.
Theorem conv_get_exact_refuted_stmt :
  ~ (forall f, In f ncx_table -> f_dir f = Get ->
     forall fillp v, wf_val (src_ty f) v = true ->
     conv1 f fillp v = spec_conv Get (src_ty f) (dst_ty f) fillp v).
Proof. exact conv_get_exact_refuted. Qed.

Theorem conv_put_exact_partial : forall f, In f ncx_table -> f_dir f = Put ->
  forall fillp v, (fillp = None -> fill_dflt_ok f = true) -> wf_val (src_ty f) v = true ->
  exclb f v = false ->
  conv1 f fillp v = spec_conv Put (src_ty f) (dst_ty f) fillp v.
Proof. intros f Hin Hd fillp v Hn Hw He. rewrite <- Hd. apply conv_exact_outside_excl; auto. Qed.
Theorem conv_get_exact_partial : forall f, In f ncx_table -> f_dir f = Get ->
  forall fillp v, (fillp = None -> fill_dflt_ok f = true) -> wf_val (src_ty f) v = true ->
  exclb f v = false ->
  conv1 f fillp v = spec_conv Get (src_ty f) (dst_ty f) fillp v.
Proof. intros f Hin Hd fillp v Hn Hw He. rewrite <- Hd. apply conv_exact_outside_excl; auto. Qed.

(* all pairs whose source is an integer type, and float<->double: exact for EVERY source value *)
Theorem conv_put_exact : forall f, In f ncx_table -> f_dir f = Put -> fi_pair f = false ->
  forall fillp v, (fillp = None -> fill_dflt_ok f = true) -> wf_val (src_ty f) v = true ->
  conv1 f fillp v = spec_conv Put (src_ty f) (dst_ty f) fillp v.
Proof.
  intros f Hin Hd Hfi fillp v Hn Hw. apply conv_put_exact_partial; auto.
  apply noexcl_sound; auto.
  pose proof table_noexcl as T. rewrite forallb_forall in T. specialize (T f Hin).
  rewrite Hfi in T. unfold get_float_double, is_put in T. rewrite Hd in T. exact T.
Qed.
Theorem conv_get_exact : forall f, In f ncx_table -> f_dir f = Get -> fi_pair f = false ->
  get_float_double f = false ->
  forall fillp v, (fillp = None -> fill_dflt_ok f = true) -> wf_val (src_ty f) v = true ->
  conv1 f fillp v = spec_conv Get (src_ty f) (dst_ty f) fillp v.
Proof.
  intros f Hin Hd Hfi Hfd fillp v Hn Hw. apply conv_get_exact_partial; auto.
  apply noexcl_sound; auto.
  pose proof table_noexcl as T. rewrite forallb_forall in T. specialize (T f Hin).
  rewrite Hfi, Hfd in T. exact T.
Qed.
(* float/double -> integer of at most 32 bits: exact for every value except NaN *)
Theorem conv_float_to_int32_exact : forall f, In f ncx_table -> fi_pair f = true ->
  ibits (dst_ty f) <= 32 ->
  forall fillp v, (fillp = None -> fill_dflt_ok f = true) -> wf_val (src_ty f) v = true -> v <> VNaN ->
  conv1 f fillp v = spec_conv (f_dir f) (src_ty f) (dst_ty f) fillp v.
Proof.
  intros f Hin Hfi Hb fillp v Hn Hw Hnan. apply conv_exact_outside_excl; auto.
  apply noexcl_fin_sound; auto.
  pose proof table_noexcl_fi32 as T. rewrite forallb_forall in T. specialize (T f Hin).
  rewrite Hfi in T. replace (ibits (dst_ty f) <=? 32) with true in T by (symmetry; lia). exact T.
Qed.

(* ---------- NaN: no float/double -> integer function tests for it ---------- *)
Definition res_is_undef (r : res) : bool := match r with RUndef => true | _ => false end.
Definition res_is_range (r : res) : bool := match r with RRange _ => true | _ => false end.
Theorem conv_nan_to_int_unchecked : forall f, In f ncx_table -> fi_pair f = true ->
  forall fillp, conv1 f fillp VNaN = RUndef /\
                res_is_range (spec_conv (f_dir f) (src_ty f) (dst_ty f) fillp VNaN) = true.
Proof.
  assert (T : forallb (fun f => implb (fi_pair f)
                (res_is_undef (conv1 f None VNaN) && res_is_undef (conv1 f (Some VNaN) VNaN) &&
                 res_is_range (spec_conv (f_dir f) (src_ty f) (dst_ty f) None VNaN))) ncx_table = true)
    by (vm_compute; reflexivity).
  intros f Hin Hfi fillp. rewrite forallb_forall in T. specialize (T f Hin). rewrite Hfi in T. cbn [implb] in T.
  apply andb_prop in T as [T T3]. apply andb_prop in T as [T1 T2].
  split.
  - (* the fill pointer is not used on the path NaN takes *)
    unfold conv1 in *. destruct (f_body f) as [| ts casts | ts | ts | ]; try discriminate T1.
    + destruct (negb (cty_eqb (chain_ty (src_ty f) casts) (dst_ty f))); [discriminate T1|].
      revert T1 T2. generalize (match cchain casts VNaN with Some r => ROk r | None => RUndef end).
      induction ts as [| t r IH]; intros dflt T1 T2; cbn [run_tests] in *.
      * destruct dflt; try discriminate T1; reflexivity.
      * destruct (negb (cty_eqb (chain_ty (src_ty f) (t_chain t)) (t_cmp t))); [discriminate T1|].
        destruct (cchain (t_chain t) VNaN); [| reflexivity].
        destruct (test_op (t_op t) (vcmp v (kval (t_k t)))).
        -- destruct (t_act t) as [p dk | k]; cbn in T1, T2 |- *; try discriminate T1.
        -- apply IH; auto.
    + revert T1 T2. generalize (ext_bytes true (dst_ty f) VNaN).
      induction ts as [| t r IH]; intros dflt T1 T2; cbn [run_tests] in *.
      * destruct dflt; try discriminate T1; reflexivity.
      * destruct (negb (cty_eqb (chain_ty (src_ty f) (t_chain t)) (t_cmp t))); [discriminate T1|].
        destruct (cchain (t_chain t) VNaN); [| reflexivity].
        destruct (test_op (t_op t) (vcmp v (kval (t_k t)))).
        -- destruct (t_act t) as [p dk | k]; cbn in T1, T2 |- *; try discriminate T1.
        -- apply IH; auto.
    + revert T1 T2. generalize (ext_bytes false (dst_ty f) VNaN).
      induction ts as [| t r IH]; intros dflt T1 T2; cbn [run_tests] in *.
      * destruct dflt; try discriminate T1; reflexivity.
      * destruct (negb (cty_eqb (chain_ty (src_ty f) (t_chain t)) (t_cmp t))); [discriminate T1|].
        destruct (cchain (t_chain t) VNaN); [| reflexivity].
        destruct (test_op (t_op t) (vcmp v (kval (t_k t)))).
        -- destruct (t_act t) as [p dk | k]; cbn in T1, T2 |- *; try discriminate T1.
        -- apply IH; auto.
  - unfold spec_conv in *. destruct (same_repr (src_ty f) (dst_ty f)); [discriminate T3|].
    destruct (spec_in_range (dst_ty f) VNaN); [discriminate T3 | reflexivity].
Qed.

(* ---------- n elements ---------- *)
Definition loop_ok (f : cfun) : bool :=
  match f_loop f with
  | LSwap | LMemcpy => match f_body f with BIdent => true | _ => false end
  | LCall | LInline => true
  | LUnrec => false
  end.
Lemma table_loops : forallb loop_ok ncx_table = true.
Proof. vm_compute. reflexivity. Qed.

Lemma loop_status_call : forall rs st,
  fold_left (fun st r => if st =? NC_NOERR then status1 r else st) rs st =
  if st =? NC_NOERR then (if existsb res_is_range rs then NC_ERANGE else NC_NOERR) else st.
Proof.
  induction rs as [| r rs IH]; intros st; cbn [fold_left existsb].
  - destruct (st =? NC_NOERR) eqn:E; [apply Z.eqb_eq in E; auto | reflexivity].
  - rewrite IH. destruct (st =? NC_NOERR) eqn:E.
    + destruct r; cbn [status1 res_is_range orb]; try reflexivity.
    + rewrite E. reflexivity.
Qed.
Lemma loop_status_inline : forall rs st, (st = NC_NOERR \/ st = NC_ERANGE) ->
  fold_left (fun st r => match r with RRange _ => NC_ERANGE | _ => st end) rs st =
  if (st =? NC_ERANGE) || existsb res_is_range rs then NC_ERANGE else NC_NOERR.
Proof.
  induction rs as [| r rs IH]; intros st Hst; cbn [fold_left existsb].
  - destruct Hst; subst; reflexivity.
  - destruct r; cbn [res_is_range orb]; try (apply IH; assumption).
    rewrite IH by (right; reflexivity). cbn. rewrite orb_true_r. reflexivity.
Qed.

(* the status of the n-element functions is NC_ERANGE iff some element is out of range, every
   element is converted by the element rule (no early exit, no dependence on neighbours) *)
Theorem convn_elementwise : forall f, In f ncx_table -> forall fillp vs,
  convn f fillp vs =
    ((if existsb res_is_range (map (conv1 f fillp) vs) then NC_ERANGE else NC_NOERR),
     map (conv1 f fillp) vs).
Proof.
  intros f Hin fillp vs. pose proof table_loops as T. rewrite forallb_forall in T. specialize (T f Hin).
  unfold convn, loop_ok in *. destruct (f_loop f) eqn:El; try discriminate T; f_equal; unfold loop_status.
  - (* LMemcpy *) unfold conv1. destruct (f_body f); try discriminate T.
    induction vs; cbn; auto.
  - (* LSwap *) unfold conv1. destruct (f_body f); try discriminate T.
    induction vs; cbn; auto.
  - rewrite loop_status_call. reflexivity.
  - rewrite loop_status_inline by (left; reflexivity). reflexivity.
Qed.

Lemma spec_conv_range : forall d S D fillp v,
  res_is_range (spec_conv d S D fillp v) = spec_erange S D v.
Proof.
  intros. unfold spec_conv, spec_erange. destruct (same_repr S D); [reflexivity|].
  destruct (spec_in_range D v); reflexivity.
Qed.

Theorem putn_elementwise : forall f, In f ncx_table -> forall fillp vs,
  (fillp = None -> fill_dflt_ok f = true) ->
  (forall v, In v vs -> wf_val (src_ty f) v = true /\ exclb f v = false) ->
  convn f fillp vs = spec_convn (f_dir f) (src_ty f) (dst_ty f) fillp vs.
Proof.
  intros f Hin fillp vs Hn Hvs. rewrite convn_elementwise by exact Hin. unfold spec_convn.
  assert (E : map (conv1 f fillp) vs = map (spec_conv (f_dir f) (src_ty f) (dst_ty f) fillp) vs).
  { apply map_ext_in. intros v Hv. destruct (Hvs v Hv). apply conv_exact_outside_excl; auto. }
  rewrite E. f_equal.
  replace (existsb res_is_range (map (spec_conv (f_dir f) (src_ty f) (dst_ty f) fillp) vs))
    with (existsb (spec_erange (src_ty f) (dst_ty f)) vs); [reflexivity|].
  clear. induction vs as [| v vs IH]; cbn; [reflexivity|]. rewrite spec_conv_range, IH. reflexivity.
Qed.

(* offending positions receive the fill value, all other elements are exact, whatever the position *)
Corollary putn_positions : forall f, In f ncx_table -> forall fillp vs k v,
  (fillp = None -> fill_dflt_ok f = true) ->
  (forall v, In v vs -> wf_val (src_ty f) v = true /\ exclb f v = false) ->
  nth_error vs k = Some v ->
  nth_error (snd (convn f fillp vs)) k =
    Some (if spec_erange (src_ty f) (dst_ty f) v then RRange (Some (spec_fill (f_dir f) (dst_ty f) fillp))
          else if same_repr (src_ty f) (dst_ty f) then ROk v else ROk (spec_value (dst_ty f) v)).
Proof.
  intros f Hin fillp vs k v Hn Hvs Hk. rewrite putn_elementwise by auto. unfold spec_convn. cbn [snd].
  rewrite nth_error_map, Hk. cbn. f_equal. unfold spec_conv, spec_erange.
  destruct (same_repr (src_ty f) (dst_ty f)); [reflexivity|]. destruct (spec_in_range (dst_ty f) v); reflexivity.
Qed.

(* ---------- text and numbers never convert ---------- *)
Definition is_nchar (x : nct) : bool := match x with NChar => true | _ => false end.
Definition is_mtext (m : mty) : bool := match m with MText => true | _ => false end.

Theorem text_never_numeric : forall fmt d x m fill vs, is_nchar x <> is_mtext m ->
  api_var fmt d x m fill vs = (NC_ECHAR, []) /\ api_att fmt d x m vs = (NC_ECHAR, []).
Proof. intros fmt d [| x] [| t] fill vs H; cbn in H; try congruence; split; reflexivity. Qed.
(* ---------- attributes use the same element rule as variables ---------- *)
Definition cty_eq_dec : forall a b : cty, {a = b} + {a <> b}. Proof. decide equality. Defined.
Definition cop_eq_dec : forall a b : cop, {a = b} + {a <> b}. Proof. decide equality. Defined.
Definition kconst_eq_dec : forall a b : kconst, {a = b} + {a <> b}.
Proof. decide equality; try apply Z.eq_dec; apply bool_dec. Defined.
Definition cact_eq_dec : forall a b : cact, {a = b} + {a <> b}.
Proof.
  decide equality; try apply kconst_eq_dec; try apply bool_dec.
  decide equality. apply kconst_eq_dec.
Defined.
Definition ctest_eq_dec : forall a b : ctest, {a = b} + {a <> b}.
Proof.
  decide equality; try apply cact_eq_dec; try apply kconst_eq_dec; try apply cty_eq_dec; try apply cop_eq_dec.
  apply list_eq_dec, cty_eq_dec.
Defined.
Definition cbody_eq_dec : forall a b : cbody, {a = b} + {a <> b}.
Proof. decide equality; try (apply list_eq_dec; try apply ctest_eq_dec; apply cty_eq_dec). Defined.

Lemma table_pad_same :
  forallb (fun f => if f_pad f then
                      match lookup (f_dir f) false (f_x f) (f_i f) with
                      | Some g => if cbody_eq_dec (f_body f) (f_body g) then true else false
                      | None => false
                      end
                    else true) ncx_table = true.
Proof. vm_compute. reflexivity. Qed.

Lemma lookup_key : forall d p x i f, lookup d p x i = Some f ->
  f_dir f = d /\ f_pad f = p /\ f_x f = x /\ f_i f = i.
Proof.
  intros d p x i f H. unfold lookup in H. apply find_some in H as [_ H]. unfold key_eqb in H.
  apply andb_prop in H as [H H4]. apply andb_prop in H as [H H3]. apply andb_prop in H as [H1 H2].
  repeat split.
  - destruct (f_dir f), d; cbn in H1; congruence.
  - apply eqb_prop in H2. exact H2.
  - destruct (f_x f), x; cbn in H3; congruence.
  - apply cty_eqb_eq. exact H4.
Qed.

(* the padding variants used for attributes (1- and 2-byte types) convert exactly like the functions
   used for variables; the other types use the very same functions *)
Theorem att_same_rules : forall d x i f g,
  lookup d true x i = Some f -> lookup d false x i = Some g ->
  forall fillp v, conv1 f fillp v = conv1 g fillp v.
Proof.
  intros d x i f g Hf Hg fillp v.
  pose proof table_pad_same as T. rewrite forallb_forall in T. specialize (T f (lookup_in _ _ _ _ _ Hf)).
  destruct (lookup_key _ _ _ _ _ Hf) as (F1 & F2 & F3 & F4).
  destruct (lookup_key _ _ _ _ _ Hg) as (G1 & G2 & G3 & G4).
  rewrite F1, F2, F3, F4, Hg in T.
  destruct (cbody_eq_dec (f_body f) (f_body g)) as [E | E]; [| discriminate T].
  unfold conv1, src_ty, dst_ty. rewrite E, F1, F3, F4, G1, G3, G4. reflexivity.
Qed.

(* ---------- API level ---------- *)
Lemma same_repr_range : forall a b, same_repr a b = true -> is_float a = false ->
  is_float b = false /\ imin a = imin b /\ imax a = imax b.
Proof.
  intros a b H Ha. unfold same_repr in H. rewrite Ha in H. cbn [orb] in H.
  destruct (is_float b) eqn:Eb; [destruct a, b; cbn in *; discriminate|].
  apply andb_prop in H as [H1 H2]. apply Z.eqb_eq in H1. apply eqb_prop in H2.
  unfold imin, imax. rewrite H1, H2. auto.
Qed.
Lemma reinterpret_same : forall S D v, same_repr S D = true -> wf_val S v = true -> reinterpret D v = v.
Proof.
  intros S D [z | n m e | n | ] H Hw; cbn in *; try reflexivity.
  destruct (is_float S) eqn:ES; cbn in Hw; [discriminate|].
  destruct (same_repr_range _ _ H ES) as (ED & E1 & E2). rewrite ED. rewrite wrap_id; auto. lia.
Qed.
Lemma spec_conv_get_fill : forall S D fa fb v, spec_conv Get S D fa v = spec_conv Get S D fb v.
Proof. intros. unfold spec_conv, spec_fill. destruct fa, fb; reflexivity. Qed.

Lemma same_type_repr : forall x t, same_type x t = true -> same_repr (xcty x) t = true /\ same_repr t (xcty x) = true.
Proof. intros x t H. destruct x, t; cbn in H; try discriminate; split; reflexivity. Qed.

(* variables: the typed/flexible put/get API = the specification, for all element lists whose
   elements are outside the exclusion set of the conversion function the call is routed to *)
Definition routed (isatt : bool) (fmt : Z) (d : cdir) (x : xty) (t : cty) : option cfun :=
  match (if isatt then route_att fmt d (NNum x) (MNum t) else route_var fmt d (NNum x) (MNum t)) with
  | RtEntry o => o
  | _ => None
  end.
Definition api_excl (isatt : bool) (fmt : Z) (d : cdir) (x : xty) (t : cty) (v : val) : bool :=
  match routed isatt fmt d x t with Some f => exclb f v | None => false end.

Lemma table_complete :
  forallb (fun d => forallb (fun x => forallb (fun i =>
     (match lookup d false x i with Some _ => true | None => false end) &&
     (if att_pad x then match lookup d true x i with Some _ => true | None => false end else true))
     all_i) all_x) [Put; Get] = true.
Proof. vm_compute. reflexivity. Qed.

Lemma xty_eqb_eq : forall a b, xty_eqb a b = true -> a = b.
Proof. destruct a, b; cbn; congruence. Qed.

Theorem api_var_exact : forall fmt d x t fill vs, In x all_x -> In t all_i ->
  (forall v, In v vs -> wf_val (api_src d x t) v = true /\ api_excl false fmt d x t v = false) ->
  api_var fmt d (NNum x) (MNum t) fill vs = spec_api fmt d (NNum x) (MNum t) fill vs.
Proof.
  intros fmt d x t fill vs Hx Ht Hvs. unfold api_var, spec_api, route_var, exempt.
  destruct ((fmt <? 5) && xty_eqb x XBYTE && cty_eqb t Uchar) eqn:Eex; [reflexivity|].
  destruct (same_type x t) eqn:Est.
  - (* no conversion *)
    destruct (same_type_repr _ _ Est) as [R1 R2].
    assert (Hs : same_repr (api_src d x t) (api_dst d x t) = true) by (destruct d; cbn; auto).
    assert (E : run_route (if xsize x =? 1 then RtCopy else RtSwap) (api_dst d x t)
                  (Some match fill with Some f => f | None => spec_default_fill x end) vs =
                (NC_NOERR, map (fun v => ROk (reinterpret (api_dst d x t) v)) vs))
      by (destruct (xsize x =? 1); reflexivity).
    rewrite E. unfold spec_convn. f_equal.
    + replace (existsb (spec_erange (api_src d x t) (api_dst d x t)) vs) with false; [reflexivity|].
      symmetry. clear -Hs. induction vs; cbn; auto. unfold spec_erange at 1. rewrite Hs. cbn. auto.
    + apply map_ext_in. intros v Hv. destruct (Hvs v Hv) as [Hw _].
      unfold spec_conv. rewrite Hs. rewrite (reinterpret_same _ _ _ Hs Hw). reflexivity.
  - (* conversion function *)
    assert (Hl : exists f, lookup d false x t = Some f).
    { pose proof table_complete as T. rewrite forallb_forall in T.
      assert (Hd : In d [Put; Get]) by (destruct d; cbn; auto).
      specialize (T d Hd). rewrite forallb_forall in T. specialize (T x Hx).
      rewrite forallb_forall in T. specialize (T t Ht). apply andb_prop in T as [T _].
      destruct (lookup d false x t); [eauto | discriminate]. }
    destruct Hl as [f Hf]. rewrite Hf. cbn [run_route].
    destruct (lookup_key _ _ _ _ _ Hf) as (F1 & F2 & F3 & F4).
    assert (HS : src_ty f = api_src d x t) by (unfold src_ty, api_src; rewrite F1, F3, F4; reflexivity).
    assert (HD : dst_ty f = api_dst d x t) by (unfold dst_ty, api_dst; rewrite F1, F3, F4; reflexivity).
    rewrite putn_elementwise.
    + rewrite F1, HS, HD. unfold spec_convn. destruct d; reflexivity.
    + eapply lookup_in; eauto.
    + discriminate.
    + intros v Hv. destruct (Hvs v Hv) as [Hw He]. rewrite HS. split; [exact Hw|].
      unfold api_excl, routed, route_var in He. rewrite Eex, Est, Hf in He. exact He.
Qed.

(* the CDF-1/2 exemption: NC_BYTE accessed as unsigned char is transferred without range check *)
Lemma exemption_elem : forall d, 
  forallb (fun z =>
     match lookup d true XUBYTE Uchar with
     | Some f => implb ((imin (api_src d XBYTE Uchar) <=? z) && (z <=? imax (api_src d XBYTE Uchar)))
                   (match map_ok (reinterpret (api_dst d XBYTE Uchar))
                                 (conv1 f (Some (spec_default_fill XUBYTE)) (reinterpret Uchar (VI z))) with
                    | ROk v => val_eqb v (reinterpret (api_dst d XBYTE Uchar) (VI z))
                    | _ => false
                    end)
     | None => false
     end) (zrange (-128) 384) = true.
Proof. destruct d; vm_compute; reflexivity. Qed.

Theorem byte_uchar_exemption : forall fmt d fill vs, fmt < 5 ->
  (forall v, In v vs -> wf_val (api_src d XBYTE Uchar) v = true) ->
  api_var fmt d (NNum XBYTE) (MNum Uchar) fill vs = spec_api fmt d (NNum XBYTE) (MNum Uchar) fill vs /\
  api_att fmt d (NNum XBYTE) (MNum Uchar) vs = spec_api fmt d (NNum XBYTE) (MNum Uchar) fill vs /\
  fst (spec_api fmt d (NNum XBYTE) (MNum Uchar) fill vs) = NC_NOERR.
Proof.
  intros fmt d fill vs Hfmt Hvs.
  assert (E : (fmt <? 5) = true) by lia.
  split; [| split].
  - unfold api_var, spec_api, route_var, exempt. rewrite E. reflexivity.
  - unfold api_att, spec_api, exempt, route_att. rewrite E. cbn [xty_eqb cty_eqb andb att_pad].
    pose proof (exemption_elem d) as T. rewrite forallb_forall in T.
    destruct (lookup d true XUBYTE Uchar) as [f |] eqn:El.
    2:{ specialize (T 0 ltac:(apply zrange_in; change (Z.of_nat 384) with 384; lia)). discriminate T. }
    cbn [run_route]. rewrite convn_elementwise by (eapply lookup_in; eauto).
    assert (M : map (map_ok (reinterpret (api_dst d XBYTE Uchar)))
                  (map (conv1 f (Some (spec_default_fill XUBYTE))) (map (reinterpret Uchar) vs)) =
                map (fun v => ROk (reinterpret (api_dst d XBYTE Uchar) v)) vs).
    { rewrite !map_map. apply map_ext_in. intros v Hv. specialize (Hvs v Hv).
      destruct v as [z | ? ? ? | ? | ]; try (destruct d; cbn in Hvs; discriminate Hvs).
      assert (Hz : imin (api_src d XBYTE Uchar) <= z <= imax (api_src d XBYTE Uchar))
        by (destruct d; cbn in Hvs |- *; lia).
      assert (Hin : In z (zrange (-128) 384))
        by (apply zrange_in; change (Z.of_nat 384) with 384; destruct d; cbn in Hz; lia).
      specialize (T z Hin).
      replace ((imin (api_src d XBYTE Uchar) <=? z) && (z <=? imax (api_src d XBYTE Uchar))) with true in T
        by (symmetry; lia).
      cbn [implb] in T.
      destruct (map_ok (reinterpret (api_dst d XBYTE Uchar))
                 (conv1 f (Some (spec_default_fill XUBYTE)) (reinterpret Uchar (VI z)))); try discriminate T.
      apply val_eqb_eq in T. congruence. }
    rewrite M. f_equal.
    (* status: no element is out of range *)
    replace (existsb res_is_range (map (conv1 f (Some (spec_default_fill XUBYTE))) (map (reinterpret Uchar) vs)))
      with false; [reflexivity|].
    symmetry. apply not_true_is_false. intros Hex. apply existsb_exists in Hex as (r & Hr & Hrr).
    rewrite map_map in Hr. apply in_map_iff in Hr as (v & Hv1 & Hv2).
    assert (Hm : In (map_ok (reinterpret (api_dst d XBYTE Uchar)) r)
                   (map (fun v => ROk (reinterpret (api_dst d XBYTE Uchar) v)) vs)).
    { rewrite <- M. rewrite !map_map. apply in_map_iff. exists v. rewrite Hv1. auto. }
    apply in_map_iff in Hm as (w & Hw1 & _). destruct r; cbn in Hrr, Hw1; discriminate.
  - unfold spec_api, exempt. rewrite E. reflexivity.
Qed.

(* ---------- where exactly the 64-bit functions deviate ---------- *)
(* a finite double strictly above 2^63 - 1 and at most 2^63 is 2^63 *)
Lemma double_gap_is_2p63 : forall t n m e, is_float t = true -> wf_val t (VF n m e) = true ->
  (2 ^ 63 - 1) * K < sc (VF n m e) <= 2 ^ 63 * K -> sc (VF n m e) = 2 ^ 63 * K.
Proof.
  intros t n m e Ht Hw H. cbn [sc] in *.
  assert (Hm : 0 <= m < 2 ^ 53 /\ -1074 <= e).
  { destruct t; try discriminate Ht; cbn in Hw.
    - assert (2 ^ 24 < 2 ^ 53) by (apply Z.pow_lt_mono_r; lia). lia.
    - lia. }
  pose proof K_pos as HK.
  assert (H63 : 2 ^ 53 < 2 ^ 63 - 1) by (vm_compute; reflexivity).
  destruct n; unfold smant in *.
  - assert (0 < 2 ^ (e + 1074)) by (apply Z.pow_pos_nonneg; lia). assert (0 < 2 ^ 63 - 1) by lia. nia.
  - destruct (Z.le_gt_cases 0 e) as [He | He].
    + replace (e + 1074) with (e + 1074) in * by lia. unfold K in *.
      rewrite Z.pow_add_r in * by lia. fold K in *.
      assert (HA : (2 ^ 63 - 1) < m * 2 ^ e <= 2 ^ 63) by nia.
      assert (m * 2 ^ e = 2 ^ 63) by lia. nia.
    + exfalso. assert (2 ^ (e + 1074) < K) by (unfold K; apply Z.pow_lt_mono_r; lia).
      assert (0 < 2 ^ (e + 1074)) by (apply Z.pow_pos_nonneg; lia). nia.
Qed.

(* attributes: same rule; `long` buffers are handled as `long long` (dispatcher), there is no
   _FillValue for attributes (default fill of the external type) *)
Theorem api_att_long_is_longlong : forall fmt d x vs,
  api_att fmt d (NNum x) (MNum Long) vs = api_att fmt d (NNum x) (MNum Longlong) vs.
Proof.
  intros. unfold api_att, exempt, route_att. cbn [cty_eqb]. rewrite !andb_false_r.
  destruct d; reflexivity.
Qed.

Theorem api_att_exact : forall fmt d x t vs, In x all_x -> In t all_i -> t <> Long ->
  (forall v, In v vs -> wf_val (api_src d x t) v = true /\ api_excl true fmt d x t v = false) ->
  exempt fmt x t = false ->
  api_att fmt d (NNum x) (MNum t) vs = spec_api fmt d (NNum x) (MNum t) None vs.
Proof.
  intros fmt d x t vs Hx Ht Hlong Hvs Hex. unfold api_att, spec_api. rewrite Hex.
  assert (Hr : route_att fmt d (NNum x) (MNum t) = RtEntry (lookup d (att_pad x) x t)).
  { unfold route_att. replace (match t with Long => Longlong | _ => t end) with t by (destruct t; congruence).
    unfold exempt in Hex. rewrite Hex. reflexivity. }
  rewrite Hr.
  assert (Hl : exists f, lookup d (att_pad x) x t = Some f).
  { pose proof table_complete as T. rewrite forallb_forall in T.
    assert (Hd : In d [Put; Get]) by (destruct d; cbn; auto).
    specialize (T d Hd). rewrite forallb_forall in T. specialize (T x Hx).
    rewrite forallb_forall in T. specialize (T t Ht). apply andb_prop in T as [T1 T2].
    destruct (att_pad x).
    - destruct (lookup d true x t); [eauto | discriminate].
    - destruct (lookup d false x t); [eauto | discriminate]. }
  destruct Hl as [f Hf]. rewrite Hf. cbn [run_route].
  destruct (lookup_key _ _ _ _ _ Hf) as (F1 & F2 & F3 & F4).
  assert (HS : src_ty f = api_src d x t) by (unfold src_ty, api_src; rewrite F1, F3, F4; reflexivity).
  assert (HD : dst_ty f = api_dst d x t) by (unfold dst_ty, api_dst; rewrite F1, F3, F4; reflexivity).
  rewrite putn_elementwise.
  - rewrite F1, HS, HD. unfold spec_convn. destruct d; reflexivity.
  - eapply lookup_in; eauto.
  - discriminate.
  - intros v Hv. destruct (Hvs v Hv) as [Hw He]. rewrite HS. split; [exact Hw|].
    unfold api_excl, routed in He. rewrite Hr, Hf in He. exact He.
Qed.

(* ---------- the hypotheses are satisfiable; the theorems speak about the real table ---------- *)
Example ex_put_short_int :
  let f := the (lookup Put false XSHORT Int) in
  In f ncx_table /\ fi_pair f = false /\
  conv1 f (Some (VI (-5))) (VI 32767) = ROk (VI 32767) /\
  conv1 f (Some (VI (-5))) (VI 32768) = RRange (Some (VI (-5))) /\
  conv1 f None (VI (-32769)) = RRange (Some (VI (-32767))) /\
  spec_conv Put Int Short None (VI (-32769)) = RRange (Some (VI (-32767))).
Proof. cbn zeta. split; [apply the_lookup_in; vm_compute; discriminate | vm_compute; repeat split]. Qed.

Example ex_get_double_float :
  let f := the (lookup Get false XDOUBLE Float) in
  In f ncx_table /\ fi_pair f = false /\ get_float_double f = false /\
  wf_val (src_ty f) (VF false 1 128) = true /\
  conv1 f None (VF false 1 128) = RRange (Some (VF false 15728640 99)) /\
  conv1 f None (VF false 16777217 0) = ROk (VF false 8388608 1) /\
  conv1 f None VNaN = ROk VNaN.
Proof. cbn zeta. split; [apply the_lookup_in; vm_compute; discriminate | vm_compute; repeat split]. Qed.

Example ex_put_double_int :
  let f := the (lookup Put false XINT Double) in
  In f ncx_table /\ fi_pair f = true /\ ibits (dst_ty f) <= 32 /\
  wf_val (src_ty f) (VF true 5 (-1)) = true /\
  conv1 f None (VF true 5 (-1)) = ROk (VI (-2)) /\
  conv1 f None (VF false 4294967295 (-1)) = RRange (Some (VI (-2147483647))) /\
  exclb f (VF false 4294967295 (-1)) = false /\ exclb f VNaN = true.
Proof. cbn zeta. split; [apply the_lookup_in; vm_compute; discriminate | vm_compute; repeat split; discriminate]. Qed.

Example ex_excl_int64 :
  let f := the (lookup Put false XINT64 Double) in
  exclb f (VF false 1 63) = true /\ exclb f (VF false 9007199254740991 10) = false /\
  exclb f (VF true 1 63) = false /\ conv1 f None (VF true 1 63) = ROk (VI (- 2 ^ 63)) /\
  conv1 f None (VF false 9007199254740991 10) = ROk (VI 9223372036854774784).
Proof. vm_compute. repeat split. Qed.

Example ex_putn_positions :
  let f := the (lookup Put false XUSHORT Int) in
  convn f (Some (VI 7)) [VI (-1); VI 1; VI 65535; VI 65536; VI 2] =
    (NC_ERANGE, [RRange (Some (VI 7)); ROk (VI 1); ROk (VI 65535); RRange (Some (VI 7)); ROk (VI 2)]) /\
  convn f (Some (VI 7)) [VI 0; VI 1] = (NC_NOERR, [ROk (VI 0); ROk (VI 1)]).
Proof. vm_compute. split; reflexivity. Qed.

Example ex_api :
  api_var 2 Put (NNum XBYTE) (MNum Uchar) None [VI 200] = (NC_NOERR, [ROk (VI (-56))]) /\
  api_var 5 Put (NNum XBYTE) (MNum Uchar) None [VI 200] = (NC_ERANGE, [RRange (Some (VI (-127)))]) /\
  api_att 2 Get (NNum XBYTE) (MNum Uchar) [VI (-56)] = (NC_NOERR, [ROk (VI 200)]) /\
  api_var 5 Get (NNum XINT64) (MNum Long) None [VI (-9)] = (NC_NOERR, [ROk (VI (-9))]) /\
  api_var 5 Put NChar (MNum Int) None [VI 1] = (NC_ECHAR, []).
Proof. vm_compute. repeat split. Qed.

(* the other known deviation: NC_FLOAT +-Inf read into double is not reported (the write direction
   float -> NC_DOUBLE does report it) *)
Theorem conv_get_float_double_inf :
  let f := the (lookup Get false XFLOAT Double) in
  In f ncx_table /\ src_ty f = Float /\ dst_ty f = Double /\
  conv1 f None (VInf false) = ROk (VInf false) /\
  spec_conv Get Float Double None (VInf false) = RRange (Some (VF false 8444249301319680 70)) /\
  (forall fillp v, wf_val (src_ty f) v = true -> v <> VInf false -> v <> VInf true ->
     conv1 f fillp v = spec_conv (f_dir f) (src_ty f) (dst_ty f) fillp v).
Proof.
  cbn zeta. set (f := the (lookup Get false XFLOAT Double)).
  assert (Hin : In f ncx_table) by (apply the_lookup_in; vm_compute; discriminate).
  assert (HS : src_ty f = Float) by reflexivity.
  assert (HD : dst_ty f = Double) by reflexivity.
  assert (HB : f_body f = BTests [] [Double]) by reflexivity.
  repeat split; auto.
  intros fillp v Hw H1 H2.
  apply conv_exact_outside_excl; [exact Hin | intros _; vm_compute; reflexivity | exact Hw |].
  - unfold exclb. rewrite HS, HD, HB. cbn [same_repr is_float orb cty_eqb andb negb].
    destruct v as [z | n m e | [|] | ]; try congruence; try reflexivity.
    + rewrite HS in Hw. cbn in Hw. discriminate Hw.
    + (* finite: a float is far below DBL_MAX *)
      rewrite HS in Hw. unfold gapb. cbn [bounds eq_harm existsb].
      assert (Hs : - dst_hi Double <= sc (VF n m e) <= dst_hi Double).
      { cbn [sc]. cbn in Hw. unfold dst_hi, fmaxsc, fmax_m. cbn [is_float fprec femax].
        assert (0 <= m < 2 ^ 24 /\ -149 <= e <= 104) by lia.
        assert (Hp : 0 < 2 ^ (e + 1074) <= 2 ^ (104 + 1074)) by (split; [apply Z.pow_pos_nonneg; lia | apply Z.pow_le_mono_r; lia]).
        assert (Hq : 2 ^ (104 + 1074) <= 2 ^ (971 + 1074)) by (apply Z.pow_le_mono_r; lia).
        assert (H24 : 2 ^ 24 <= 2 ^ 53 - 1) by (vm_compute; discriminate).
        assert (0 < 2 ^ (971 + 1074)) by (apply Z.pow_pos_nonneg; lia).
        assert (m * 2 ^ (e + 1074) <= 2 ^ 24 * 2 ^ (971 + 1074)) by (apply Z.mul_le_mono_nonneg; lia).
        assert (0 <= m * 2 ^ (e + 1074)) by (apply Z.mul_nonneg_nonneg; lia).
        destruct n; unfold smant; nia. }
      assert (dst_lo Double = - dst_hi Double) by reflexivity. lia.
Qed.
(* ---------- rounding: a value of the format is returned unchanged (in value) ---------- *)
Theorem rne_exact : forall t n m e, is_float t = true ->
  0 <= m < 2 ^ fprec t -> femin t <= e <= femax t ->
  exists m' e', rne t n m e = VF n m' e' /\ 0 <= m' < 2 ^ fprec t /\ femin t <= e' <= femax t /\
                m' * 2 ^ (e' + 1074) = m * 2 ^ (e + 1074).
Proof.
  intros t n m e Ht Hm He. unfold rne.
  assert (Hmin : -1074 <= femin t) by (destruct t; cbn; lia).
  assert (Hp : 0 < fprec t) by (destruct t; cbn; lia).
  destruct (m =? 0) eqn:E0.
  - apply Z.eqb_eq in E0. subst m. exists 0, (femin t). repeat split; try lia.
  - apply Z.eqb_neq in E0.
    assert (Hl : Z.log2 m < fprec t) by (apply Z.log2_lt_pow2; lia).
    cbv zeta.
    set (e' := Z.max (e + (Z.log2 m + 1) - fprec t) (femin t)).
    assert (He' : femin t <= e' <= e) by (unfold e'; lia).
    replace (e' <=? e) with true by (symmetry; lia).
    replace (femax t <? e') with false by (symmetry; lia).
    exists (m * 2 ^ (e - e')), e'.
    assert (Hpow : 0 < 2 ^ (e - e')) by (apply Z.pow_pos_nonneg; lia).
    split; [reflexivity|]. split; [| split; [lia|]].
    + split; [nia|].
      (* m * 2^(e-e') < 2^p : m < 2^(log2 m + 1) and log2 m + 1 + (e - e') <= p *)
      assert (Hm2 : m < 2 ^ (Z.log2 m + 1)) by (apply Z.log2_spec; lia).
      assert (H2 : 2 ^ (Z.log2 m + 1) * 2 ^ (e - e') <= 2 ^ fprec t).
      { rewrite <- Z.pow_add_r by (pose proof (Z.log2_nonneg m); lia).
        apply Z.pow_le_mono_r; [lia|]. unfold e'. lia. }
      nia.
    + rewrite <- Z.mul_assoc. f_equal. rewrite <- Z.pow_add_r by lia. f_equal. lia.
Qed.

(* ---------- request level: status assignment of req_commit for completed GET requests ---------- *)
Fixpoint first_err (errs : list Z) : Z :=
  match errs with [] => NC_NOERR | e :: r => if e =? NC_NOERR then first_err r else e end.

Lemma commit_get_own : forall errs st,
  commit_get GateOwn st errs = ((if st =? NC_NOERR then first_err errs else st), errs).
Proof.
  induction errs as [| e r IH]; intros st; cbn [commit_get gate_step first_err].
  - destruct (st =? NC_NOERR) eqn:E; [apply Z.eqb_eq in E; subst |]; reflexivity.
  - destruct (e =? NC_NOERR) eqn:Ee.
    + rewrite IH. apply Z.eqb_eq in Ee. subst e. reflexivity.
    + change (NC_NOERR =? NC_NOERR) with true. cbv iota. rewrite IH.
      destruct (st =? NC_NOERR) eqn:Es; [rewrite Ee | rewrite Es]; reflexivity.
Qed.

(* every batch: the status word of request i is the conversion status of request i, the return value
   of wait/wait_all is the first error in queue order (uses the gating AS TRANSLATED from ncmpio_wait.c) *)
Theorem req_status_local : forall errs,
  commit_get req_gate NC_NOERR errs = (first_err errs, errs).
Proof. intros. unfold req_gate. rewrite commit_get_own. reflexivity. Qed.

Theorem req_status_independent : forall errs1 errs2 i,
  nth_error errs1 i = nth_error errs2 i ->
  nth_error (snd (commit_get req_gate NC_NOERR errs1)) i =
  nth_error (snd (commit_get req_gate NC_NOERR errs2)) i.
Proof. intros. rewrite !req_status_local. exact H. Qed.

(* the variant that gates the status word on the function-wide first error loses the status of every
   later request: 2-request witness *)
Theorem req_status_global_gate_refuted :
  ~ (forall errs1 errs2 i, nth_error errs1 i = nth_error errs2 i ->
       nth_error (snd (commit_get GateGlobal NC_NOERR errs1)) i =
       nth_error (snd (commit_get GateGlobal NC_NOERR errs2)) i).
Proof.
  intros H. specialize (H [NC_ERANGE; NC_ERANGE] [NC_NOERR; NC_ERANGE] 1%nat eq_refl).
  vm_compute in H. discriminate H.
Qed.
Example ex_global_gate_drops_status :
  commit_get GateGlobal NC_NOERR [NC_ERANGE; NC_ERANGE] = (NC_ERANGE, [NC_ERANGE; NC_NOERR]) /\
  commit_get req_gate NC_NOERR [NC_ERANGE; NC_NOERR; NC_ERANGE] = (NC_ERANGE, [NC_ERANGE; NC_NOERR; NC_ERANGE]).
Proof. split; vm_compute; reflexivity. Qed.

(* a batch of nonblocking requests: what is reported for request i is a function of request i alone *)
Definition nb_req1 (fmt : Z) (r : nbreq) : Z * Z * list (Z * Z) :=
  let c := nb_conv fmt r in
  if nb_is_put r then (fst c, NC_NOERR, snd c) else (NC_NOERR, fst c, snd c).

Lemma nb_assign_local : forall fmt reqs,
  nb_assign reqs (map (nb_conv fmt) reqs) (nb_geterrs fmt reqs) = map (nb_req1 fmt) reqs.
Proof.
  intros fmt. induction reqs as [| r rs IH]; [reflexivity|].
  unfold nb_geterrs in *. cbn [map nb_assign filter]. unfold nb_req1 at 1.
  destruct (nb_is_put r) eqn:E; cbn [negb map]; rewrite IH; reflexivity.
Qed.

Theorem nb_model_local : forall fmt reqs,
  nb_model fmt reqs = (first_err (nb_geterrs fmt reqs), map (nb_req1 fmt) reqs).
Proof.
  intros. unfold nb_model. rewrite req_status_local. rewrite nb_assign_local. reflexivity.
Qed.

(* ---------- blocking put_varn and mput: the posted requests are completed ---------- *)
Definition put_conv (fmt xi ii : Z) (cs : list Z) : Z * list (Z * Z) := api_model false true fmt xi ii false 0 cs.
Definition st_ok (st : Z) : Prop := st = NC_NOERR \/ st = NC_ERANGE.

(* ncmpio_put_varn as built (`varn_gate` is translated from ncmpio_varn.c): in collective and in independent
   mode the request is completed (nothing pending, close succeeds), every element is transferred by the
   element rule and the call returns the conversion status *)
Theorem varn_repaired_complete : forall indep fmt xi ii cs,
  varn_model_g VarnEarlyFatal indep fmt xi ii cs =
    (fst (put_conv fmt xi ii cs), 0, NC_NOERR, snd (put_conv fmt xi ii cs)).
Proof.
  intros. unfold varn_model_g, put_conv. destruct (api_model false true fmt xi ii false 0 cs). reflexivity.
Qed.
Theorem varn_complete : forall indep fmt xi ii cs,
  varn_model indep fmt xi ii cs = (fst (put_conv fmt xi ii cs), 0, NC_NOERR, snd (put_conv fmt xi ii cs)).
Proof. intros. unfold varn_model, varn_gate. apply varn_repaired_complete. Qed.
(* the form before the repair (return as soon as the posting reports NC_ERANGE in independent mode):
   witness ncmpi_put_varn_int to NC_SHORT with -32769: request left pending, nothing written *)
Theorem varn_early_any_refuted :
  ~ (forall indep fmt xi ii cs,
       varn_model_g VarnEarlyAny indep fmt xi ii cs =
         (fst (put_conv fmt xi ii cs), 0, NC_NOERR, snd (put_conv fmt xi ii cs))).
Proof. intros H. specialize (H true 5 2 4 [-32769; -126]). vm_compute in H. discriminate H. Qed.
Example ex_varn_early_any :
  varn_model_g VarnEarlyAny true 5 2 4 [-32769; -126] = (NC_ERANGE, 1, NC_EPENDING, [(2, 0); (2, 0)]) /\
  varn_model_g VarnEarlyAny false 5 2 4 [-32769; -126] = (NC_ERANGE, 0, NC_NOERR, [(1, -32767); (0, -126)]) /\
  varn_model true 5 2 4 [-32769; -126] = (NC_ERANGE, 0, NC_NOERR, [(1, -32767); (0, -126)]).
Proof. vm_compute. repeat split. Qed.

Lemma run_route_status : forall r dst fp vs,
  (forall f, r = RtEntry (Some f) -> In f ncx_table) -> r <> RtEchar -> st_ok (fst (run_route r dst fp vs)).
Proof.
  intros r dst fp vs Hin Hne. destruct r as [| | | [f |]]; cbn [run_route fst]; try (left; reflexivity).
  - congruence.
  - rewrite convn_elementwise by (apply Hin; reflexivity). cbn [fst].
    destruct (existsb res_is_range (map (conv1 f fp) vs)); [right | left]; reflexivity.
Qed.

Lemma put_conv_status : forall fmt xi ii cs, 0 <= xi < 10 -> 0 <= ii < 11 -> st_ok (fst (put_conv fmt xi ii cs)).
Proof.
  intros fmt xi ii cs Hx Hi. unfold put_conv, api_model.
  assert (Ex : exists x, nct_of xi = NNum x).
  { unfold nct_of. destruct (nth_error all_x (Z.to_nat xi)) eqn:E; [eauto|].
    apply nth_error_None in E. cbn in E. lia. }
  assert (Et : exists t, mty_of ii = MNum t).
  { unfold mty_of. destruct (nth_error all_i (Z.to_nat ii)) eqn:E; [eauto|].
    apply nth_error_None in E. cbn in E. lia. }
  destruct Ex as [x Ex]. destruct Et as [t Et]. rewrite Ex, Et. cbn [api_types].
  set (vs := map (val_of_code (api_src Put x t)) cs).
  assert (S : st_ok (fst (api_var fmt Put (NNum x) (MNum t) None vs))).
  { unfold api_var. apply run_route_status.
    - intros f Hf. unfold route_var in Hf.
      destruct ((fmt <? 5) && xty_eqb x XBYTE && cty_eqb t Uchar); [discriminate|].
      destruct (same_type x t); [destruct (xsize x =? 1); discriminate|].
      injection Hf as Hf. eapply lookup_in; eauto.
    - unfold route_var. destruct ((fmt <? 5) && xty_eqb x XBYTE && cty_eqb t Uchar); [discriminate|].
      destruct (same_type x t); [destruct (xsize x =? 1); discriminate | discriminate]. }
  destruct (api_var fmt Put (NNum x) (MNum t) None vs) as [st rs]. exact S.
Qed.

Lemma mput_cont_loop_spec : forall fmt xi ii vars er,
  (forall cs, In cs vars -> st_ok (fst (put_conv fmt xi ii cs))) ->
  mput_cont_loop fmt xi ii vars er =
    (NC_NOERR,
     (if existsb (fun cs => fst (put_conv fmt xi ii cs) =? NC_ERANGE) vars then NC_ERANGE else er),
     flat_map (fun cs => snd (put_conv fmt xi ii cs)) vars).
Proof.
  intros fmt xi ii. induction vars as [| cs r IH]; intros er H; [reflexivity|].
  cbn [mput_cont_loop existsb flat_map]. unfold put_conv in *.
  pose proof (H cs (or_introl eq_refl)) as Hc.
  assert (Hr : forall c, In c r -> st_ok (fst (api_model false true fmt xi ii false 0 c))) by (intros; apply H; right; auto).
  destruct (api_model false true fmt xi ii false 0 cs) as [st rs] eqn:E. cbn [fst snd] in *.
  destruct Hc as [Hc | Hc]; subst st.
  - change (NC_NOERR =? NC_ERANGE) with false. change (NC_NOERR =? NC_NOERR) with true. cbv iota.
    rewrite (IH er Hr). reflexivity.
  - change (NC_ERANGE =? NC_ERANGE) with true. cbv iota. rewrite (IH NC_ERANGE Hr). cbn [orb].
    destruct (existsb _ r); reflexivity.
Qed.

(* ncmpi_mput_var_<T>[_all] as built (`mput_gate` is translated from dispatchers/var_getput.c): every variable is
   posted and completed, every element of every variable is transferred by the element rule, and the call
   returns NC_ERANGE iff some variable has an element that is out of range *)
Theorem mput_complete : forall fmt xi ii vars, 0 <= xi < 10 -> 0 <= ii < 11 ->
  mput_model fmt xi ii vars =
    ((if existsb (fun cs => fst (put_conv fmt xi ii cs) =? NC_ERANGE) vars then NC_ERANGE else NC_NOERR),
     0, NC_NOERR, flat_map (fun cs => snd (put_conv fmt xi ii cs)) vars).
Proof.
  intros fmt xi ii vars Hx Hi. unfold mput_model, mput_gate, mput_model_g.
  rewrite mput_cont_loop_spec by (intros; apply put_conv_status; assumption).
  change (NC_NOERR =? NC_NOERR) with true. reflexivity.
Qed.
(* the loop before the repair (left at the first status <> NC_NOERR): witness 3 NC_SHORT variables written
   from int, the second holds 70000: its request stays pending, the third variable is never written *)
Theorem mput_break_any_refuted :
  ~ (forall fmt xi ii vars, 0 <= xi < 10 -> 0 <= ii < 11 ->
       mput_model_g MputBreakAny fmt xi ii vars =
         ((if existsb (fun cs => fst (put_conv fmt xi ii cs) =? NC_ERANGE) vars then NC_ERANGE else NC_NOERR),
          0, NC_NOERR, flat_map (fun cs => snd (put_conv fmt xi ii cs)) vars)).
Proof.
  intros H. specialize (H 5 2 4 [[1]; [70000]; [2]] ltac:(lia) ltac:(lia)). vm_compute in H. discriminate H.
Qed.
Example ex_mput :
  mput_model_g MputBreakAny 5 2 4 [[1]; [70000]; [2]] = (NC_ERANGE, 1, NC_EPENDING, [(0, 1); (2, 0); (2, 0)]) /\
  mput_model 5 2 4 [[1]; [70000]; [2]] = (NC_ERANGE, 0, NC_NOERR, [(0, 1); (1, -32767); (0, 2)]) /\
  mput_model 5 2 4 [[1]; [7]; [2]] = (NC_NOERR, 0, NC_NOERR, [(0, 1); (0, 7); (0, 2)]).
Proof. vm_compute. repeat split. Qed.
