(* Proofs_Aggregate.v — theorems about Aggregate.v (property C10):
     write_tiles_perm        pairwise disjoint writes commute (any permutation, same file)
     aggr_after_sort_equiv   merge + pack + coalesce + ONE write  ==  the tiles written one by one,
                             for ANY sorted permutation the (unstable) sort may return
     aggr_group_equiv        one aggregation group == its members' own writes
     aggr_equiv              any number of ranks, any assignment of ranks to aggregators:
                             aggregated file == union of the ranks' own writes
     aggr_init_*             the groups computed by ncmpio_intra_node_aggr_init (one node)
     flatten_req_spec        flatten_req == the row-major SPEC, every variable kind and request
                             (flatten_req_old_refuted: the code before the record-stride fix)
   Disks are compared extensionally (disk_eq).  No axioms. *)
From Pnc Require Import Aggregate Proofs_Disk Proofs_Lists Proofs_Config.
Require Import Lia ZArith List Bool ZifyBool Permutation Sorted.
Import ListNotations.
Ltac Zify.zify_post_hook ::= Z.div_mod_to_equations.
Local Open Scope Z_scope.
Local Arguments Z.mul : simpl never.
Local Arguments Z.add : simpl never.
Local Arguments Z.sub : simpl never.
Local Arguments Z.div : simpl never.
Local Arguments Z.modulo : simpl never.
Local Arguments Z.of_nat : simpl never.
Local Arguments Z.to_nat : simpl never.

(* ================================================================== *)
(* 1. extensional equality of disks                                    *)
(* ================================================================== *)
Definition disk_eq (a b : disk) : Prop :=
  dk_exists a = dk_exists b /\ dk_size a = dk_size b /\ forall x, dk_get a x = dk_get b x.

Lemma disk_eq_refl a : disk_eq a a.
Proof. split; [reflexivity|split; [reflexivity|intros x; reflexivity]]. Qed.

Lemma disk_eq_sym a b : disk_eq a b -> disk_eq b a.
Proof. intros (H1 & H2 & H3). split; [auto|split; [auto|intros x; auto]]. Qed.

Lemma disk_eq_trans a b c : disk_eq a b -> disk_eq b c -> disk_eq a c.
Proof.
  intros (H1 & H2 & H3) (K1 & K2 & K3).
  split; [congruence|split; [congruence|intros x; now rewrite H3]].
Qed.

Lemma dk_write_ext a b o bs : disk_eq a b -> disk_eq (dk_write a o bs) (dk_write b o bs).
Proof.
  intros (H1 & H2 & H3). repeat split.
  - now rewrite !dk_exists_write, H1.
  - now rewrite !dk_size_write, H2.
  - intros x. now rewrite !dk_get_write, H3.
Qed.

Lemma write_tiles_ext l : forall a b, disk_eq a b -> disk_eq (write_tiles l a) (write_tiles l b).
Proof.
  induction l as [|p l IH]; intros a b H; [exact H|].
  change (write_tiles (p :: l) a) with (write_tiles l (dk_write a (fst p) (snd p))).
  change (write_tiles (p :: l) b) with (write_tiles l (dk_write b (fst p) (snd p))).
  apply IH. now apply dk_write_ext.
Qed.

Lemma write_tiles_cons p l d : write_tiles (p :: l) d = write_tiles l (dk_write d (fst p) (snd p)).
Proof. reflexivity. Qed.

(* ================================================================== *)
(* 2. pairwise disjoint tiles: any order of writing gives the same file *)
(* ================================================================== *)
Definition tile := (Z * list byte)%type.
Definition tile_disj (p q : tile) : Prop := forall x, ~ (covers p x /\ covers q x).

Fixpoint pdisj (l : list tile) : Prop :=
  match l with
  | [] => True
  | p :: r => Forall (tile_disj p) r /\ pdisj r
  end.

Lemma tile_disj_sym p q : tile_disj p q -> tile_disj q p.
Proof. intros H x [A B]. apply (H x). now split. Qed.

Lemma pdisj_perm l l' : Permutation l l' -> pdisj l -> pdisj l'.
Proof.
  induction 1 as [|x l l' HP IH|x y l|l l' l'' HP1 IH1 HP2 IH2]; intros H.
  - exact H.
  - destruct H as [H1 H2]. split; [|now apply IH]. now rewrite <- HP.
  - destruct H as [H1 [H2 H3]]. inversion H1 as [|? ? Hyx Hy]; subst.
    repeat split; try assumption.
    constructor; [now apply tile_disj_sym|assumption].
  - auto.
Qed.

Lemma pdisj_app l1 l2 : pdisj (l1 ++ l2) -> pdisj l1 /\ pdisj l2.
Proof.
  induction l1 as [|p l1 IH]; cbn [app pdisj]; intros H; [now split|].
  destruct H as [H1 H2]. apply Forall_app in H1. destruct H1 as [H1a H1b].
  destruct (IH H2) as [K1 K2]. repeat split; assumption.
Qed.

Lemma pdisj_unique l : pdisj l ->
  forall p q x, In p l -> In q l -> covers p x -> covers q x ->
  znth (snd p) (x - fst p) 0 = znth (snd q) (x - fst q) 0.
Proof.
  induction l as [|t l IH]; intros H p q x Hp Hq Cp Cq; [destruct Hp|].
  destruct H as [H1 H2]. rewrite Forall_forall in H1.
  destruct Hp as [<-|Hp], Hq as [<-|Hq].
  - reflexivity.
  - exfalso. apply (H1 q Hq x). now split.
  - exfalso. apply (H1 p Hp x). now split.
  - now apply IH.
Qed.

Definition coversb (p : tile) (x : Z) : bool := (fst p <=? x) && (x <? fst p + Zlen (snd p)).
Lemma coversb_spec p x : coversb p x = true <-> covers p x.
Proof. unfold coversb, covers. lia. Qed.

Lemma existsb_perm {A} (f : A -> bool) l l' : Permutation l l' -> existsb f l = existsb f l'.
Proof.
  intros HP. destruct (existsb f l) eqn:E.
  - apply existsb_exists in E. destruct E as [x [Hx Hf]]. symmetry. apply existsb_exists.
    exists x. split; [now apply (Permutation_in _ HP)|assumption].
  - destruct (existsb f l') eqn:E'; [|reflexivity].
    apply existsb_exists in E'. destruct E' as [x [Hx Hf]].
    assert (existsb f l = true) by (apply existsb_exists; exists x; split;
      [now apply (Permutation_in _ (Permutation_sym HP))|assumption]). congruence.
Qed.

(* C10 core: disjoint writes commute *)
Theorem write_tiles_perm : forall l l' d,
  Permutation l l' -> pdisj l -> disk_eq (write_tiles l d) (write_tiles l' d).
Proof.
  intros l l' d HP Hd. pose proof (pdisj_perm _ _ HP Hd) as Hd'.
  repeat split.
  - rewrite !write_tiles_exists. now rewrite (existsb_perm _ _ _ HP).
  - assert (Hle : forall a b, Permutation a b -> dk_size (write_tiles a d) <= dk_size (write_tiles b d)).
    { intros a b Hab.
      pose proof (write_tiles_size_le a d (dk_size (write_tiles b d))) as H.
      pose proof (write_tiles_size_mono b d) as Hm.
      assert (K : dk_size (write_tiles a d) <= Z.max (dk_size d) (dk_size (write_tiles b d))).
      { apply H. intros p Hp Hl. apply write_tiles_size_ge; [|assumption].
        now apply (Permutation_in _ Hab). }
      lia. }
    pose proof (Hle l l' HP). pose proof (Hle l' l (Permutation_sym HP)). lia.
  - intros x. destruct (find (fun p => coversb p x) l) as [p|] eqn:E.
    + apply find_some in E. destruct E as [Hp Hc]. apply coversb_spec in Hc.
      rewrite (write_tiles_get_in l d x (znth (snd p) (x - fst p) 0)).
      * symmetry. apply write_tiles_get_in.
        -- exists p. split; [now apply (Permutation_in _ HP)|assumption].
        -- intros q Hq Cq. apply (pdisj_unique l' Hd'); try assumption.
           now apply (Permutation_in _ HP).
      * exists p. now split.
      * intros q Hq Cq. now apply (pdisj_unique l Hd).
    + assert (Hn : forall p, In p l -> ~ covers p x).
      { intros p Hp Hc. apply coversb_spec in Hc.
        pose proof (find_none _ _ E p Hp) as K. cbv beta in K. congruence. }
      rewrite write_tiles_get_out by assumption.
      rewrite write_tiles_get_out; [reflexivity|].
      intros p Hp. apply Hn. now apply (Permutation_in _ (Permutation_sym HP)).
Qed.

(* ================================================================== *)
(* 3. one write of a ++ b = two adjacent writes; scatter = dk_write    *)
(* ================================================================== *)
Lemma znth_app {A} (a b : list A) i d : 0 <= i ->
  znth (a ++ b) i d = if i <? Zlen a then znth a i d else znth b (i - Zlen a) d.
Proof.
  revert i. induction a as [|x a IH]; intros i Hi; cbn [app].
  - rewrite Zlen_nil. replace (i <? 0) with false by lia. f_equal. lia.
  - pose proof (Zlen_nonneg a). rewrite Zlen_cons. cbn [znth].
    destruct (i =? 0) eqn:E.
    + replace (i <? Zlen a + 1) with true by lia. reflexivity.
    + rewrite IH by lia. replace (i - 1 <? Zlen a) with (i <? Zlen a + 1) by lia.
      destruct (i <? Zlen a + 1); [reflexivity|]. f_equal. lia.
Qed.

Lemma dk_write_app d o a b :
  disk_eq (dk_write d o (a ++ b)) (dk_write (dk_write d o a) (o + Zlen a) b).
Proof.
  pose proof (Zlen_nonneg a). pose proof (Zlen_nonneg b).
  repeat split.
  - rewrite !dk_exists_write, Zlen_app.
    destruct (0 <? Zlen a) eqn:Ea, (0 <? Zlen b) eqn:Eb, (dk_exists d);
      cbn [orb]; try reflexivity; lia.
  - rewrite !dk_size_write, Zlen_app.
    destruct (0 <? Zlen a) eqn:Ea, (0 <? Zlen b) eqn:Eb;
      destruct (0 <? Zlen a + Zlen b) eqn:Eab; lia.
  - intros x. rewrite !dk_get_write, Zlen_app.
    destruct ((o <=? x) && (x <? o + (Zlen a + Zlen b))) eqn:E1.
    + rewrite znth_app by lia.
      destruct (x - o <? Zlen a) eqn:E2.
      * replace ((o + Zlen a <=? x) && (x <? o + Zlen a + Zlen b)) with false by lia.
        replace ((o <=? x) && (x <? o + Zlen a)) with true by lia. reflexivity.
      * replace ((o + Zlen a <=? x) && (x <? o + Zlen a + Zlen b)) with true by lia.
        f_equal. lia.
    + replace ((o + Zlen a <=? x) && (x <? o + Zlen a + Zlen b)) with false by lia.
      replace ((o <=? x) && (x <? o + Zlen a)) with false by lia. reflexivity.
Qed.

Lemma scatter_as_tiles d pos bs :
  scatter d pos bs = write_tiles (map (fun pb => (fst pb, [snd pb])) (zip pos bs)) d.
Proof.
  unfold scatter, write_tiles. generalize (zip pos bs). intros l. revert d.
  induction l as [|x l IH]; intros d; [reflexivity|]. cbn [map fold_left fst snd]. apply IH.
Qed.

Lemma scatter_ext pos bs a b : disk_eq a b -> disk_eq (scatter a pos bs) (scatter b pos bs).
Proof. intros H. rewrite !scatter_as_tiles. now apply write_tiles_ext. Qed.

Lemma zrange_succ o n : 0 <= n -> zrange o (n + 1) = o :: zrange (o + 1) n.
Proof.
  intros Hn. unfold zrange. replace (Z.to_nat (n + 1)) with (S (Z.to_nat n)) by lia. reflexivity.
Qed.

Lemma scatter_cons d o pos b bs : scatter d (o :: pos) (b :: bs) = scatter (dk_write d o [b]) pos bs.
Proof. reflexivity. Qed.

(* writing a stream through a contiguous view = one dk_write *)
Lemma scatter_contig : forall bs d o, disk_eq (scatter d (zrange o (Zlen bs)) bs) (dk_write d o bs).
Proof.
  induction bs as [|b bs IH]; intros d o.
  - rewrite scatter_nil. apply disk_eq_refl.
  - pose proof (Zlen_nonneg bs). rewrite Zlen_cons, zrange_succ by lia. rewrite scatter_cons.
    eapply disk_eq_trans; [apply IH|].
    apply disk_eq_sym. change (b :: bs) with ([b] ++ bs).
    replace (o + 1) with (o + Zlen [b]) by reflexivity. apply dk_write_app.
Qed.

(* ================================================================== *)
(* 4. slices of the receive buffer, denotation of a triple             *)
(* ================================================================== *)
Lemma zfirstn_add {A} (l : list A) : forall m n, 0 <= m -> 0 <= n ->
  zfirstn (m + n) l = zfirstn m l ++ zfirstn n (zskipn m l).
Proof.
  induction l as [|x l IH]; intros m n Hm Hn; [reflexivity|].
  destruct (Z.eq_dec m 0) as [->|Hm0].
  - rewrite (zfirstn_nonpos 0), (zskipn_nonpos 0) by lia. reflexivity.
  - destruct (Z.eq_dec n 0) as [->|Hn0].
    + rewrite (zfirstn_nonpos 0) by lia. rewrite app_nil_r. f_equal. lia.
    + rewrite (zfirstn_cons (m + n)), (zfirstn_cons m), (zskipn_cons m) by lia.
      cbn [app]. f_equal. replace (m + n - 1) with ((m - 1) + n) by lia. apply IH; lia.
Qed.

Lemma Zlen_slice buf a l : 0 <= a -> 0 <= l -> a + l <= Zlen buf -> Zlen (slice buf a l) = l.
Proof. intros. unfold slice. rewrite Zlen_zfirstn, Zlen_zskipn. lia. Qed.

Lemma slice_add buf a l1 l2 : 0 <= a -> 0 <= l1 -> 0 <= l2 ->
  slice buf a (l1 + l2) = slice buf a l1 ++ slice buf (a + l1) l2.
Proof. intros. unfold slice. rewrite zfirstn_add by lia. now rewrite zskipn_zskipn by lia. Qed.

Lemma slice_zero buf a : slice buf a 0 = [].
Proof. unfold slice. apply zfirstn_nonpos. lia. Qed.

Section Aggregator.
Variable buf : list byte.

Definition inbuf (t : triple) : Prop := 0 <= t_addr t /\ 0 <= t_len t /\ t_addr t + t_len t <= Zlen buf.
Definition den (t : triple) : tile := (t_off t, slice buf (t_addr t) (t_len t)).
Definition wt (l : list triple) (d : disk) : disk := write_tiles (map den l) d.
Definition sorted_off (l : list triple) : Prop := StronglySorted (fun a b => t_off a <= t_off b) l.
Definition good (l : list triple) : Prop := Forall inbuf l /\ sorted_off l /\ pdisj (map den l).

Lemma covers_den t x : inbuf t -> (covers (den t) x <-> t_off t <= x < t_off t + t_len t).
Proof.
  intros (H1 & H2 & H3). unfold covers, den. cbn [fst snd]. rewrite Zlen_slice by lia. tauto.
Qed.

Lemma wt_cons t l d : wt (t :: l) d = wt l (dk_write d (t_off t) (slice buf (t_addr t) (t_len t))).
Proof. reflexivity. Qed.

Lemma wt_ext l a b : disk_eq a b -> disk_eq (wt l a) (wt l b).
Proof. apply write_tiles_ext. Qed.

Lemma good_tail t l : good (t :: l) -> good l.
Proof.
  intros (H1 & H2 & H3). inversion H1; subst. inversion H2; subst. destruct H3 as [_ H3].
  unfold good. repeat split; assumption.
Qed.

Lemma good_drop2 t u l : good (t :: u :: l) -> good (t :: l).
Proof.
  intros (H1 & H2 & H3).
  inversion H1 as [|? ? Ht H1']; subst. inversion H1' as [|? ? Hu H1'']; subst.
  inversion H2 as [|? ? S2 F2]; subst. inversion S2 as [|? ? S3 F3]; subst.
  inversion F2 as [|? ? Ftu F2']; subst.
  cbn [map pdisj] in H3. destruct H3 as [D1 [D2 D3]]. inversion D1 as [|? ? Dtu D1']; subst.
  unfold good. split; [|split].
  - constructor; assumption.
  - constructor; assumption.
  - cbn [map pdisj]. split; assumption.
Qed.

(* facts about the first two entries of a good list *)
Lemma good_head2 t u l : good (t :: u :: l) ->
  inbuf t /\ inbuf u /\ t_off t <= t_off u /\ (t_len u = 0 \/ t_off t + t_len t <= t_off u).
Proof.
  intros (H1 & H2 & H3).
  inversion H1 as [|? ? Ht H1']; subst. inversion H1' as [|? ? Hu H1'']; subst.
  inversion H2 as [|? ? S2 F2]; subst. inversion F2 as [|? ? Ftu F2']; subst.
  cbn [map pdisj] in H3. destruct H3 as [D1 _]. inversion D1 as [|? ? Dtu D1']; subst.
  split; [exact Ht|split; [exact Hu|split; [exact Ftu|]]].
  destruct (Z.eq_dec (t_len u) 0) as [E|E]; [now left|right].
  destruct (Z_le_gt_dec (t_off t + t_len t) (t_off u)) as [L|G]; [assumption|exfalso].
  apply (Dtu (t_off u)). split; apply covers_den; try assumption.
  - lia.
  - destruct Hu as (? & ? & ?). lia.
Qed.

Lemma merge_loop_nonempty : forall rest cur, merge_loop cur rest <> [].
Proof.
  induction rest as [|j r IH]; intros cur; cbn [merge_loop]; [discriminate|].
  destruct (_ >=? _); [apply IH|].
  destruct (_ >=? 0); [|discriminate].
  destruct (_ =? _); [apply IH|discriminate].
Qed.

(* the overlap-merge loop does not change what is written, as long as the sorted tiles are
   pairwise disjoint (adjacent tiles whose buffers are adjacent as well are fused) *)
Lemma merge_loop_equiv : forall rest cur d,
  good (cur :: rest) ->
  disk_eq (wt (merge_loop cur rest) d) (wt (cur :: rest) d) /\ Forall inbuf (merge_loop cur rest).
Proof.
  induction rest as [|j r IH]; intros cur d Hg.
  - cbn [merge_loop]. split; [apply disk_eq_refl|]. now destruct Hg.
  - destruct (good_head2 _ _ _ Hg) as (Ic & Ij & Hle & Hdis).
    pose proof Ic as (Ic1 & Ic2 & Ic3). pose proof Ij as (Ij1 & Ij2 & Ij3).
    cbn [merge_loop].
    destruct (t_off cur + t_len cur >=? t_off j + t_len j) eqn:Ecov.
    + (* j is covered: under disjointness it is empty *)
      assert (Hl0 : t_len j = 0) by lia.
      destruct (IH cur d (good_drop2 _ _ _ Hg)) as [E F]. split; [|exact F].
      eapply disk_eq_trans; [exact E|].
      rewrite !wt_cons. rewrite Hl0, slice_zero. cbn [dk_write]. apply disk_eq_refl.
    + destruct (t_off cur + t_len cur - t_off j >=? 0) eqn:Egap.
      * (* adjacent (an overlap is excluded by disjointness) *)
        assert (Hgap : t_off cur + t_len cur - t_off j = 0) by lia.
        rewrite Hgap.
        destruct (t_addr cur + t_len cur =? t_addr j + 0) eqn:Econt.
        -- (* fuse j into cur *)
           set (cur' := (t_off cur, t_len cur + (t_len j - 0), t_addr cur) : triple).
           assert (Ic' : inbuf cur').
           { unfold inbuf, cur', t_addr, t_len. cbn [fst snd].
             unfold t_addr, t_len in *. lia. }
           assert (Hg' : good (cur' :: r)).
           { destruct Hg as (H1 & H2 & H3).
             inversion H1 as [|? ? _ H1']; subst. inversion H1' as [|? ? _ H1'']; subst.
             inversion H2 as [|? ? S2 F2]; subst. inversion S2 as [|? ? S3 F3]; subst.
             inversion F2 as [|? ? _ F2']; subst.
             cbn [map pdisj] in H3. destruct H3 as [D1 [D2 D3]]. inversion D1 as [|? ? _ D1']; subst.
             unfold good. split; [|split].
             - constructor; assumption.
             - constructor; [assumption|]. exact F2'.
             - cbn [map pdisj]. split; [|assumption].
               rewrite Forall_forall in *. intros q Hq x [Cc Cq].
               apply covers_den in Cc; [|assumption].
               unfold cur', t_off, t_len in Cc. cbn [fst snd] in Cc.
               destruct (Z_lt_ge_dec x (t_off cur + t_len cur)) as [Hx|Hx].
               + apply (D1' q Hq x). split; [|assumption]. apply covers_den; [assumption|].
                 unfold t_off, t_len in *. lia.
               + apply (D2 q Hq x). split; [|assumption]. apply covers_den; [assumption|].
                 unfold t_off, t_len in *. lia. }
           destruct (IH cur' d Hg') as [E F]. split; [|exact F].
           eapply disk_eq_trans; [exact E|].
           rewrite !wt_cons. apply wt_ext.
           unfold cur', t_off, t_len, t_addr. cbn [fst snd].
           replace (snd (fst cur) + (snd (fst j) - 0)) with (snd (fst cur) + snd (fst j)) by lia.
           unfold t_off, t_len, t_addr in *.
           rewrite slice_add by lia.
           replace (snd cur + snd (fst cur)) with (snd j) by lia.
           eapply disk_eq_trans; [apply dk_write_app|].
           rewrite Zlen_slice by lia.
           replace (fst (fst cur) + snd (fst cur)) with (fst (fst j)) by lia.
           apply disk_eq_refl.
        -- (* keep both *)
           replace ((t_off j + 0, t_len j - 0, t_addr j + 0) : triple) with j
             by (destruct j as [[oj lj] aj]; unfold t_off, t_len, t_addr; cbn [fst snd];
                 repeat f_equal; lia).
           destruct (IH j (dk_write d (t_off cur) (slice buf (t_addr cur) (t_len cur)))
                        (good_tail _ _ Hg)) as [E F].
           split; [|constructor; assumption].
           rewrite wt_cons. eapply disk_eq_trans; [exact E|]. apply disk_eq_refl.
      * (* a hole between cur and j *)
        destruct (IH j (dk_write d (t_off cur) (slice buf (t_addr cur) (t_len cur)))
                     (good_tail _ _ Hg)) as [E F].
        split; [|constructor; assumption].
        rewrite wt_cons. eapply disk_eq_trans; [exact E|]. apply disk_eq_refl.
Qed.

(* ---------- packing into wr_buf and the hindexed file view ---------- *)
Definition offlen (t : triple) : Z * Z := (t_off t, t_len t).
Definition sl (t : triple) : list byte := slice buf (t_addr t) (t_len t).

Lemma Zlen_vbytes_wr : forall merged, Forall inbuf merged ->
  Zlen (vbytes (map offlen merged)) = Zlen (flat_map sl merged).
Proof.
  induction 1 as [|t l Ht _ IH]; [reflexivity|].
  destruct Ht as (H1 & H2 & H3).
  cbn [map flat_map]. unfold vbytes in *. cbn [flat_map]. rewrite !Zlen_app, IH.
  unfold offlen, sl. cbn [fst snd]. rewrite Zlen_zrange, Zlen_slice by lia. lia.
Qed.

Lemma pack_stage : forall merged d, Forall inbuf merged ->
  disk_eq (scatter d (vbytes (map offlen merged)) (flat_map sl merged)) (wt merged d).
Proof.
  induction merged as [|t l IH]; intros d HF.
  - cbn [map flat_map]. rewrite scatter_nil. apply disk_eq_refl.
  - inversion HF as [|? ? Ht HF']; subst. destruct Ht as (H1 & H2 & H3).
    cbn [map flat_map]. unfold vbytes. cbn [flat_map]. fold (vbytes (map offlen l)).
    unfold offlen at 1 2. cbn [fst snd].
    rewrite scatter_app.
    assert (Hs : Zlen (sl t) = t_len t) by (unfold sl; apply Zlen_slice; lia).
    assert (Hz : Zlen (zrange (t_off t) (t_len t)) = Zlen (sl t)) by (rewrite Zlen_zrange; lia).
    rewrite <- Hz. rewrite zfirstn_app_exact, zskipn_app_exact.
    rewrite wt_cons. fold (sl t).
    eapply disk_eq_trans; [|apply IH; assumption].
    apply scatter_ext. rewrite <- Hs. apply scatter_contig.
Qed.

Lemma coalesce_vbytes : forall ps p, 0 <= snd p -> Forall (fun q => 0 <= snd q) ps ->
  vbytes (coalesce p ps) = vbytes (p :: ps).
Proof.
  induction ps as [|j r IH]; intros p Hp HF; [reflexivity|].
  inversion HF as [|? ? Hj HF']; subst. cbn [coalesce].
  destruct (fst p + snd p =? fst j) eqn:E.
  - rewrite IH by (cbn [snd]; try assumption; lia).
    unfold vbytes. cbn [flat_map fst snd]. rewrite zrange_app by assumption.
    rewrite <- app_assoc. do 2 f_equal. f_equal. lia.
  - unfold vbytes in *. cbn [flat_map]. f_equal. apply (IH j); assumption.
Qed.

Lemma zrange_len_eq o l n : 0 <= n -> Zlen (zrange o l) = n -> zrange o l = zrange o n.
Proof.
  intros Hn H. rewrite Zlen_zrange in H. unfold zrange. f_equal. lia.
Qed.

(* everything after the sort: merge, pack, coalesce and the single write put the tiles of the
   sorted list on disk *)
Lemma after_sort_equiv : forall S d, good S -> disk_eq (aggr_after_sort d buf S) (wt S d).
Proof.
  intros [|t r] d Hg; [apply disk_eq_refl|].
  destruct (merge_loop_equiv r t d Hg) as [E F].
  eapply disk_eq_trans; [|exact E].
  unfold aggr_after_sort.
  destruct (merge_loop t r) as [|m ms] eqn:EM; [now apply merge_loop_nonempty in EM|].
  fold sl. change (fun u : triple => (t_off u, t_len u)) with offlen.
  cbn [map].
  set (view := coalesce (offlen m) (map offlen ms)).
  set (wr := flat_map sl (m :: ms)).
  assert (Hv : vbytes view = vbytes (map offlen (m :: ms))).
  { unfold view. cbn [map]. apply coalesce_vbytes.
    - inversion F as [|? ? (A & B & C) _]; subst. exact B.
    - inversion F as [|? ? _ F']; subst. rewrite Forall_map.
      eapply Forall_impl; [|exact F']. intros a (A & B & C). exact B. }
  assert (Hgoal : disk_eq (scatter d (vbytes view) wr) (wt (m :: ms) d)).
  { rewrite Hv. apply pack_stage. exact F. }
  assert (Hlen : Zlen (vbytes view) = Zlen wr) by (rewrite Hv; now apply Zlen_vbytes_wr).
  destruct view as [|[o l] [|q v']] eqn:EV.
  - exact Hgoal.
  - unfold vbytes in Hgoal, Hlen. cbn [flat_map fst snd] in Hgoal, Hlen.
    rewrite app_nil_r in Hgoal, Hlen.
    rewrite <- (zrange_len_eq o l (Zlen wr)); [exact Hgoal|apply Zlen_nonneg|exact Hlen].
  - exact Hgoal.
Qed.

(* ---------- the sort ---------- *)
Lemma ins_perm t : forall l, Permutation (ins_triple t l) (t :: l).
Proof.
  induction l as [|u r IH]; cbn [ins_triple]; [apply Permutation_refl|].
  destruct (t_off t <=? t_off u); [apply Permutation_refl|].
  eapply Permutation_trans; [apply perm_skip, IH|apply perm_swap].
Qed.

Lemma sort_perm : forall l, Permutation (sort_triples l) l.
Proof.
  induction l as [|t l IH]; [apply Permutation_refl|].
  cbn [sort_triples fold_right]. fold (sort_triples l).
  eapply Permutation_trans; [apply ins_perm|]. now apply perm_skip.
Qed.

Lemma ins_sorted t : forall l, sorted_off l -> sorted_off (ins_triple t l).
Proof.
  induction l as [|u r IH]; intros Hs; cbn [ins_triple].
  - constructor; constructor.
  - inversion Hs as [|? ? S F]; subst.
    destruct (t_off t <=? t_off u) eqn:E.
    + constructor; [exact Hs|]. constructor; [lia|].
      eapply Forall_impl; [|exact F]. intros a Ha. cbv beta in *. lia.
    + constructor; [now apply IH|].
      eapply Permutation_Forall; [apply Permutation_sym, ins_perm|].
      constructor; [lia|exact F].
Qed.

Lemma sort_sorted : forall l, sorted_off (sort_triples l).
Proof.
  induction l as [|t l IH]; [constructor|].
  cbn [sort_triples fold_right]. fold (sort_triples l). now apply ins_sorted.
Qed.
End Aggregator.

(* ================================================================== *)
(* 5. contributions, groups, the theorem                               *)
(* ================================================================== *)
(* a rank's pairs consume exactly its data *)
Definition contrib_fits (c : contrib) : Prop :=
  Forall (fun p => 0 <= snd p) (fst c) /\ zsum (map snd (fst c)) = Zlen (snd c).

Definition all_tiles (cs : list contrib) : list tile :=
  flat_map (fun c => tiles_of (fst c) (snd c)) cs.

Lemma spec_writes_tiles : forall cs d, spec_writes d cs = write_tiles (all_tiles cs) d.
Proof.
  unfold spec_writes, all_tiles. induction cs as [|c cs IH]; intros d; [reflexivity|].
  cbn [fold_left flat_map]. rewrite write_tiles_app. rewrite IH. reflexivity.
Qed.

Lemma tiles_of_app : forall p1 d1 p2 d2,
  Forall (fun p => 0 <= snd p) p1 -> zsum (map snd p1) = Zlen d1 ->
  tiles_of (p1 ++ p2) (d1 ++ d2) = tiles_of p1 d1 ++ tiles_of p2 d2.
Proof.
  induction p1 as [|[o l] p1 IH]; intros d1 p2 d2 HF Hs.
  - cbn [map zsum] in Hs. symmetry in Hs. apply Zlen_zero_nil in Hs. subst. reflexivity.
  - inversion HF as [|? ? Hl HF']; subst. cbn [snd] in Hl. cbn [map zsum snd] in Hs.
    assert (Hn : 0 <= zsum (map snd p1)).
    { clear -HF'. induction HF' as [|q r Hq _ IH]; cbn [map zsum]; lia. }
    cbn [app tiles_of]. rewrite zfirstn_app_le, zskipn_app_le by lia.
    rewrite IH; [reflexivity|assumption|]. rewrite Zlen_zskipn. lia.
Qed.

Lemma contrib_sum_nonneg c : contrib_fits c -> 0 <= zsum (map snd (fst c)).
Proof. intros [HF _]. induction HF as [|q r Hq _ IH]; cbn [map zsum]; lia. Qed.

Lemma tiles_of_concat : forall members, Forall contrib_fits members ->
  tiles_of (concat (map fst members)) (concat (map snd members)) = all_tiles members /\
  Forall (fun p => 0 <= snd p) (concat (map fst members)) /\
  zsum (map snd (concat (map fst members))) = Zlen (concat (map snd members)).
Proof.
  induction 1 as [|c cs Hc _ IH]; [repeat split; constructor|].
  destruct IH as (I1 & I2 & I3). destruct Hc as [C1 C2].
  cbn [map concat]. unfold all_tiles. cbn [flat_map]. fold (all_tiles cs).
  repeat split.
  - rewrite tiles_of_app by assumption. now rewrite I1.
  - apply Forall_app. now split.
  - rewrite map_app, Zlen_app. rewrite <- C2, <- I3.
    clear. induction (map snd (fst c)) as [|x l IH]; cbn [app zsum]; lia.
Qed.

Lemma den_mk_triples buf : forall pairs a, 0 <= a -> Forall (fun p => 0 <= snd p) pairs ->
  map (den buf) (mk_triples pairs a) = tiles_of pairs (zskipn a buf).
Proof.
  induction pairs as [|[o l] ps IH]; intros a Ha HF; [reflexivity|].
  inversion HF as [|? ? Hl HF']; subst. cbn [snd] in Hl.
  cbn [mk_triples map tiles_of]. f_equal. rewrite IH by (assumption || lia).
  now rewrite zskipn_zskipn by lia.
Qed.

Lemma inbuf_mk_triples buf : forall pairs a, 0 <= a -> Forall (fun p => 0 <= snd p) pairs ->
  a + zsum (map snd pairs) <= Zlen buf -> Forall (inbuf buf) (mk_triples pairs a).
Proof.
  induction pairs as [|[o l] ps IH]; intros a Ha HF Hs; [constructor|].
  inversion HF as [|? ? Hl HF']; subst. cbn [snd] in Hl. cbn [map zsum snd] in Hs.
  assert (Hn : 0 <= zsum (map snd ps)).
  { clear -HF'. induction HF' as [|q r Hq _ IH']; cbn [map zsum]; lia. }
  cbn [mk_triples]. constructor.
  - unfold inbuf, t_addr, t_len. cbn [fst snd]. lia.
  - apply IH; try assumption; lia.
Qed.

(* C10 aggr_equiv, one aggregator, ANY result of the sort: if the gathered pairs are pairwise
   disjoint, merge + pack + coalesce + one write by the aggregator leaves the same file as the
   pairs written one by one in their original order *)
Theorem aggr_after_sort_equiv : forall (recv_buf : list byte) (pairs : list (Z * Z)) (S : list triple) d,
  Forall (fun p => 0 <= snd p) pairs -> zsum (map snd pairs) = Zlen recv_buf ->
  pdisj (tiles_of pairs recv_buf) ->
  Permutation S (mk_triples pairs 0) -> sorted_off S ->
  disk_eq (aggr_after_sort d recv_buf S) (write_tiles (tiles_of pairs recv_buf) d).
Proof.
  intros buf pairs S d HF Hs Hd HP Hsort.
  assert (Hden : map (den buf) (mk_triples pairs 0) = tiles_of pairs buf).
  { rewrite den_mk_triples by (assumption || lia). now rewrite zskipn_nonpos by lia. }
  assert (Hin : Forall (inbuf buf) (mk_triples pairs 0)) by (apply inbuf_mk_triples; try assumption; lia).
  assert (Hg : good buf S).
  { unfold good. split; [|split].
    - eapply Permutation_Forall; [apply Permutation_sym; exact HP|exact Hin].
    - exact Hsort.
    - apply (pdisj_perm (map (den buf) (mk_triples pairs 0))).
      + apply Permutation_map. now apply Permutation_sym.
      + now rewrite Hden. }
  eapply disk_eq_trans; [apply after_sort_equiv; exact Hg|].
  unfold wt. rewrite <- Hden.
  apply write_tiles_perm.
  - now apply Permutation_map.
  - destruct Hg as (_ & _ & K). exact K.
Qed.

(* one aggregation group, with the model's own sort *)
Theorem aggr_group_equiv : forall members d,
  Forall contrib_fits members -> pdisj (all_tiles members) ->
  disk_eq (aggr_group_write d members) (spec_writes d members).
Proof.
  intros members d HF Hd. destruct (tiles_of_concat members HF) as (T1 & T2 & T3).
  rewrite spec_writes_tiles, <- T1. unfold aggr_group_write.
  apply aggr_after_sort_equiv; try assumption.
  - now rewrite T1.
  - apply sort_perm.
  - apply sort_sorted.
Qed.

Lemma aggr_after_sort_ext buf S a b : disk_eq a b -> disk_eq (aggr_after_sort a buf S) (aggr_after_sort b buf S).
Proof.
  intros H. unfold aggr_after_sort. destruct S as [|t r]; [exact H|].
  destruct (match map _ (merge_loop t r) with [] => [] | p :: ps => coalesce p ps end) as [|[o l] [|q v]];
    try (apply scatter_ext; exact H).
Qed.

Lemma aggr_group_write_ext members a b : disk_eq a b ->
  disk_eq (aggr_group_write a members) (aggr_group_write b members).
Proof. apply aggr_after_sort_ext. Qed.

Lemma write_own_ext c a b : disk_eq a b -> disk_eq (write_own a c) (write_own b c).
Proof. intros H. unfold write_own. now apply write_tiles_ext. Qed.

Lemma spec_writes_ext cs : forall a b, disk_eq a b -> disk_eq (spec_writes a cs) (spec_writes b cs).
Proof. intros a b H. rewrite !spec_writes_tiles. now apply write_tiles_ext. Qed.

Lemma all_tiles_app a b : all_tiles (a ++ b) = all_tiles a ++ all_tiles b.
Proof. unfold all_tiles. apply flat_map_app. Qed.

Lemma groups_equiv : forall groups d,
  Forall (Forall contrib_fits) groups -> pdisj (all_tiles (concat groups)) ->
  disk_eq (fold_left aggr_group_write groups d) (spec_writes d (concat groups)).
Proof.
  induction groups as [|g gs IH]; intros d HF Hd; [apply disk_eq_refl|].
  inversion HF as [|? ? Hg HF']; subst.
  cbn [concat] in *. rewrite all_tiles_app in Hd. destruct (pdisj_app _ _ Hd) as [D1 D2].
  cbn [fold_left]. unfold spec_writes. rewrite fold_left_app. fold (spec_writes d g).
  fold (spec_writes (spec_writes d g) (concat gs)).
  eapply disk_eq_trans; [apply IH; assumption|].
  apply spec_writes_ext. now apply aggr_group_equiv.
Qed.

(* C10 aggr_equiv.  ranks: what every rank wants to write (its (offset,length) pairs and its
   data).  groups/singles: ANY assignment of the ranks to aggregation groups (each group in its
   gather order) and to "not aggregated".  If all pairs are pairwise disjoint, the file after
   "every aggregator gathers, sorts, merges, coalesces and writes once; the others write for
   themselves" equals the file after every rank writes its own pairs. *)
Theorem aggr_equiv : forall (ranks : list contrib) (groups : list (list contrib)) (singles : list contrib) d,
  Forall contrib_fits ranks ->
  Permutation (concat groups ++ singles) ranks ->
  pdisj (all_tiles ranks) ->
  disk_eq (aggr_writes d groups singles) (spec_writes d ranks).
Proof.
  intros ranks groups singles d HF HP Hd.
  assert (HF' : Forall contrib_fits (concat groups ++ singles))
    by (eapply Permutation_Forall; [apply Permutation_sym; exact HP|exact HF]).
  apply Forall_app in HF'. destruct HF' as [HFg HFs].
  assert (HPt : Permutation (all_tiles (concat groups ++ singles)) (all_tiles ranks))
    by (unfold all_tiles; now apply Permutation_flat_map).
  assert (Hd' : pdisj (all_tiles (concat groups ++ singles)))
    by (apply (pdisj_perm (all_tiles ranks)); [now apply Permutation_sym|exact Hd]).
  rewrite all_tiles_app in Hd'. destruct (pdisj_app _ _ Hd') as [Dg Ds].
  assert (HFgg : Forall (Forall contrib_fits) groups).
  { clear -HFg. induction groups as [|g gs IH]; [constructor|].
    cbn [concat] in HFg. apply Forall_app in HFg. destruct HFg. constructor; auto. }
  unfold aggr_writes.
  eapply disk_eq_trans.
  { fold (spec_writes (fold_left aggr_group_write groups d) singles).
    apply spec_writes_ext. apply groups_equiv; assumption. }
  rewrite !spec_writes_tiles, <- write_tiles_app, <- all_tiles_app.
  apply write_tiles_perm; [exact HPt|].
  rewrite all_tiles_app. apply (pdisj_perm (all_tiles ranks)); [|exact Hd].
  rewrite <- all_tiles_app. now apply Permutation_sym.
Qed.

(* the hypotheses are satisfiable and the two sides really compute something: four ranks, two
   aggregation groups {0,1} {2} and rank 3 on its own, interleaved pairs, adjacent tiles that are
   fused, a hole *)
Example aggr_equiv_example :
  let r0 : contrib := ([(10, 2); (20, 2)], [1; 2; 3; 4]) in
  let r1 : contrib := ([(12, 3); (0, 1)], [5; 6; 7; 8]) in
  let r2 : contrib := ([(30, 1); (22, 2)], [9; 10; 11]) in
  let r3 : contrib := ([(15, 5)], [12; 13; 14; 15; 16]) in
  let ranks := [r0; r1; r2; r3] in
  Forall contrib_fits ranks /\ pdisj (all_tiles ranks) /\
  dk_read (aggr_writes empty_disk [[r1; r0]; [r2]] [r3]) 0 32 =
  dk_read (spec_writes empty_disk ranks) 0 32 /\
  dk_read (aggr_writes empty_disk [[r1; r0]; [r2]] [r3]) 10 14 = [1; 2; 5; 6; 7; 12; 13; 14; 15; 16; 3; 4; 10; 11].
Proof.
  cbv zeta. split; [|split; [|split; reflexivity]].
  - repeat constructor; cbn [snd]; lia.
  - match goal with |- pdisj ?l => let v := eval vm_compute in l in change (pdisj v) end.
    cbn [pdisj]. repeat split; repeat constructor; intros x [A B];
      unfold covers, Zlen in *; cbn [fst snd length] in *; lia.
Qed.

(* ================================================================== *)
(* 6. flatten_req against the row-major SPEC (Access.spec_offsets)     *)
(* ================================================================== *)
From Pnc Require Import Proofs_Access.

Lemma gen_map_add b : forall l base, gen l (map (Z.add b) base) = map (Z.add b) (gen l base).
Proof.
  intros l base. rewrite <- !(flat_map_singleton _ _ (Z.add b)).
  symmetry. apply gen_equivariant. intros a d. cbn [map]. apply (f_equal (fun z => [z])). ring.
Qed.

Lemma flatten_outer_map_add b R d :
  flatten_outer R (map (Z.add b) d) = map (Z.add b) (flatten_outer R d).
Proof. rewrite <- (rev_involutive R). rewrite !flatten_outer_rev. apply gen_map_add. Qed.

Lemma last_dim_units_fixed : forall shape rs el dflt, shape <> [] ->
  last (dim_units false rs el shape 0) dflt = el.
Proof.
  intros [|s [|s' ss]] rs el dflt H; [congruence| |].
  - cbn [dim_units last andb zprod]. lia.
  - rewrite dim_units_cons. rewrite last_cons_nonempty by apply dim_units_nonempty.
    apply last_dim_units_S. discriminate.
Qed.

Lemma nonempty_of_length {A B} (l : list A) (m : list B) : length l = length m -> m <> [] -> l <> [].
Proof. intros H Hm ->. destruct m; [congruence|discriminate]. Qed.

(* the fixed dimensions: flatten_subarray enumerates exactly the row-major element offsets *)
Lemma flatten_subarray_spec : forall el b dimlen start count stride,
  0 < el -> dimlen <> [] ->
  length start = length dimlen -> length count = length dimlen -> length stride = length dimlen ->
  zprod count <> 0 ->
  pair_elems el (flatten_subarray el b dimlen start count stride) =
  map (fun idx => b + lin dimlen idx * el) (req_indices start count stride).
Proof.
  intros el b dimlen start count stride Hel Hne Ls Lc Lt Hz.
  unfold flatten_subarray. destruct dimlen as [|s0 ss] eqn:Ed; [congruence|]. rewrite <- Ed in *.
  set (sl_ := last start 0). set (cl := last count 0). set (tl_ := last stride 1).
  set (U := dim_units false 0 el dimlen 0).
  assert (LU : length U = length dimlen) by apply dim_units_length.
  assert (Es : start = removelast start ++ [sl_]) by (apply snoc_decompose; eapply nonempty_of_length; eauto).
  assert (Ec : count = removelast count ++ [cl]) by (apply snoc_decompose; eapply nonempty_of_length; eauto).
  assert (Et : stride = removelast stride ++ [tl_]) by (apply snoc_decompose; eapply nonempty_of_length; eauto).
  assert (EU : U = removelast U ++ [el]).
  { rewrite (snoc_decompose _ U el) at 1 by (eapply nonempty_of_length; eauto).
    unfold U. now rewrite last_dim_units_fixed by assumption. }
  assert (Hzc : zprod (removelast count) <> 0 /\ cl <> 0).
  { rewrite Ec, zprod_app in Hz. cbn [zprod] in Hz. split; nia. }
  destruct Hzc as [Hz1 Hz2].
  replace ((if tl_ =? 1 then 1 else cl) * zprod (removelast count) =? 0) with false
    by (destruct (tl_ =? 1); nia).
  (* right-hand side as a dot product over the units *)
  transitivity (map (fun idx => b + dot (removelast U ++ [el]) idx)
                    (req_indices (removelast start ++ [sl_]) (removelast count ++ [cl])
                                 (removelast stride ++ [tl_]))).
  2:{ rewrite <- Es, <- Ec, <- Et, <- EU. apply map_ext. intros idx. f_equal.
      unfold U. apply dot_dim_units. now left. }
  rewrite <- (flatten_core (removelast start) (removelast count) (removelast stride) (removelast U)
                           sl_ cl tl_ el b el).
  2-4: rewrite !length_removelast; lia.
  2: reflexivity.
  unfold pair_elems. rewrite flat_map_map_comm. cbn [fst snd].
  replace ((if tl_ =? 1 then cl else 1) * el / el) with (if tl_ =? 1 then cl else 1)
    by (symmetry; apply Z.div_mul; lia).
  rewrite <- (map_map (fun k => (sl_ + k * tl_) * el) (Z.add b)).
  rewrite flatten_outer_map_add, flat_map_map_comm.
  apply flat_map_ext. intros d. apply map_ext. intros k. ring.
Qed.

Lemma flat_map_pair_elems {A} xsz (f : A -> list (Z * Z)) l :
  pair_elems xsz (flat_map f l) = flat_map (fun x => pair_elems xsz (f x)) l.
Proof. unfold pair_elems. apply flat_map_flat_map. Qed.

(* C10: flatten_req covers exactly the elements of the request, in row-major order - for every
   variable kind, dimensionality and accepted request (the direct, non-aggregated path addresses
   the same elements: Proofs_Access.model_offsets_spec) *)
Theorem flatten_req_spec : forall g start count stride,
  wf_geom g -> req_ok (g_shape g) start count stride -> zprod count <> 0 ->
  pair_elems (g_xsz g) (flatten_req g start count (Some stride)) = spec_offsets g start count stride.
Proof.
  intros g start count stride (Hx & Hrs & Hdw & Hpk) Hreq Hz.
  destruct (req_ok_lengths _ _ _ _ Hreq) as (Ls & Lc & Lt).
  unfold flatten_req, spec_offsets.
  destruct (g_shape g) as [|s0 ss] eqn:Es.
  - (* scalar *)
    destruct start; [|discriminate]. destruct count; [|discriminate]. destruct stride; [|discriminate].
    unfold pair_elems. cbn [flat_map fst snd req_indices map app].
    rewrite Z.div_same by lia. rewrite zrange_1. cbn [map].
    unfold elem_off, g_isrec. rewrite Es. cbn [lin]. apply (f_equal (fun z => [z])). ring.
  - destruct (g_isrec g) eqn:Er.
    + (* record variable *)
      assert (s0 = 0) by (unfold g_isrec in Er; rewrite Es in Er; lia). subst s0.
      destruct start as [|st0 st]; [discriminate|]. destruct count as [|c0 ct]; [discriminate|].
      destruct stride as [|t0 tt]; [discriminate|].
      cbn [length] in Ls, Lc, Lt. cbn [hd tl] in *. cbn [zprod] in Hz.
      rewrite flat_map_pair_elems. cbn [req_indices]. rewrite map_flat_map_comm.
      apply flat_map_ext. intros j. rewrite map_map.
      destruct ss as [|s1 ss'].
      * (* 1-D record variable *)
        destruct st; [|discriminate]. destruct ct; [|discriminate]. destruct tt; [|discriminate].
        unfold flatten_subarray, pair_elems. cbn [flat_map fst snd req_indices map app].
        rewrite Z.div_same by lia. rewrite zrange_1. cbn [map].
        rewrite elem_off_rec by assumption. rewrite Es. cbn [tl lin].
        apply (f_equal (fun z => [z])). ring.
      * rewrite flatten_subarray_spec by (lia || discriminate || nia).
        apply map_ext. intros idx. rewrite elem_off_rec by assumption. rewrite Es. cbn [tl]. ring.
    + (* fixed-size variable *)
      rewrite flatten_subarray_spec by (lia || discriminate || nia).
      apply map_ext. intros idx. rewrite elem_off_fixed by assumption. now rewrite Es.
Qed.

(* a NULL stride pointer (vara, var1, var) is the all-ones stride *)
Theorem flatten_req_spec_none : forall g start count,
  wf_geom g -> req_ok (g_shape g) start count (ones (length (g_shape g))) -> zprod count <> 0 ->
  pair_elems (g_xsz g) (flatten_req g start count None) =
  spec_offsets g start count (ones (length (g_shape g))).
Proof.
  intros g start count Hwf Hreq Hz.
  rewrite <- (flatten_req_spec g start count (ones (length (g_shape g)))) by assumption.
  f_equal. unfold flatten_req. destruct (g_shape g) as [|s0 ss] eqn:Es; [reflexivity|].
  destruct (g_isrec g); [|reflexivity].
  cbn [length]. rewrite ones_S. cbn [hd]. reflexivity.
Qed.

Example flatten_req_spec_example :
  let g := mkgeom 2048 8 [0; 3; 4] 200 3 in
  wf_geom g /\ req_ok (g_shape g) [2; 0; 1] [3; 2; 2] [2; 2; 2] /\
  flatten_req g [2; 0; 1] [3; 2; 2] (Some [2; 2; 2]) =
    [(2456, 8); (2472, 8); (2520, 8); (2536, 8); (2856, 8); (2872, 8); (2920, 8); (2936, 8);
     (3256, 8); (3272, 8); (3320, 8); (3336, 8)] /\
  pair_elems 8 (flatten_req g [2; 0; 1] [3; 2; 2] (Some [2; 2; 2])) = spec_offsets g [2; 0; 1] [3; 2; 2] [2; 2; 2].
Proof.
  cbv zeta. split; [|split; [|split; reflexivity]].
  - unfold wf_geom, dims_wf, rec_packed. cbn. repeat split; try lia. repeat constructor; lia.
  - cbn. repeat split; try lia.
Qed.

(* ---------- the code before the fix of the record-stride defect ---------- *)
Definition flatten_req_old (g : geom) (start count : list Z) (stride : option (list Z)) : list (Z * Z) :=
  match g_shape g with
  | [] => [(g_begin g, g_xsz g)]
  | _ =>
    let st := match stride with Some t => t | None => ones (length (g_shape g)) end in
    if g_isrec g then
      let vb := g_begin g + hd 0 start * g_recsize g in
      flat_map (fun j => flatten_subarray (g_xsz g) (vb + j * g_recsize g)
                                          (tl (g_shape g)) (tl start) (tl count) (tl st))
               (zrange 0 (hd 0 count))
    else flatten_subarray (g_xsz g) (g_begin g) (g_shape g) start count st
  end.

Definition g_aggr_bug : geom := mkgeom 512 4 [0; 3] 12 1.

(* refuted for the old code: var_begin advanced by ONE record per iteration where the request asks
   for stride[0] records: records 0 and 1 were written instead of 0 and 2.  The witness is replayed
   on the library by checks/C10.py (regression input `aggr:rec-stride`). *)
Theorem flatten_req_old_refuted :
  ~ (forall g start count stride,
       wf_geom g -> req_ok (g_shape g) start count stride -> zprod count <> 0 ->
       pair_elems (g_xsz g) (flatten_req_old g start count (Some stride)) = spec_offsets g start count stride).
Proof.
  intros H. specialize (H g_aggr_bug [0; 0] [2; 3] [2; 1]).
  assert (Hwf : wf_geom g_aggr_bug).
  { unfold wf_geom, g_aggr_bug, dims_wf, rec_packed. cbn. repeat split; try lia.
    repeat constructor; lia. }
  assert (Hreq : req_ok (g_shape g_aggr_bug) [0; 0] [2; 3] [2; 1]).
  { cbn. repeat split; try lia. }
  specialize (H Hwf Hreq ltac:(cbn; lia)). vm_compute in H. discriminate.
Qed.

(* ... and it was wrong only there *)
Theorem flatten_req_old_partial : forall g start count stride,
  (g_isrec g = true -> hd 1 stride = 1 \/ hd 0 count = 1) ->
  flatten_req_old g start count (Some stride) = flatten_req g start count (Some stride) \/
  hd 0 count = 1.
Proof.
  intros g start count stride H. unfold flatten_req_old, flatten_req.
  destruct (g_shape g) as [|s0 ss]; [now left|].
  destruct (g_isrec g); [|now left].
  destruct (H eq_refl) as [E|E]; [left|now right].
  rewrite E. apply flat_map_ext. intros j. do 2 f_equal. ring.
Qed.

(* ================================================================== *)
(* 7. ncmpio_intra_node_aggr_init: the groups are a partition          *)
(* ================================================================== *)
(* all lists of length n over {0, .., k-1} *)
Fixpoint all_lists (k : Z) (n : nat) : list (list Z) :=
  match n with
  | O => [[]]
  | S m => flat_map (fun l => map (fun x => x :: l) (zrange 0 k)) (all_lists k m)
  end.

Fixpoint zinsert (x : Z) (l : list Z) : list Z :=
  match l with [] => [x] | y :: r => if x <=? y then x :: l else y :: zinsert x r end.
Definition zsort (l : list Z) : list Z := fold_right zinsert [] l.

(* every rank is in exactly one place (one group, or unaggregated); every group has at least two
   members, is headed by its aggregator, and every member names that aggregator *)
Definition init_ok (np naggr : Z) (ids : list Z) : bool :=
  let groups := aggr_groups np naggr ids in
  let singles := unaggregated np naggr ids in
  list_eqb Z.eqb (zsort (concat groups ++ singles)) (zrange 0 np) &&
  forallb (fun g => (2 <=? Zlen g) &&
                    forallb (fun r => fst (aggr_init np naggr ids r) =? hd (-1) g) g) groups.

(* the domain of the property: 1..8 processes, 0..8 aggregators per node, any placement of the
   ranks on up to 3 compute nodes *)
Theorem aggr_init_partition_8 : forall np naggr ids,
  In np (zrange 1 8) -> In naggr (zrange 0 9) -> In ids (all_lists 3 (Z.to_nat np)) ->
  init_ok np naggr ids = true.
Proof.
  assert (H : forallb (fun np => forallb (fun naggr => forallb (fun ids => init_ok np naggr ids)
                                   (all_lists 3 (Z.to_nat np))) (zrange 0 9)) (zrange 1 8) = true)
    by (vm_compute; reflexivity).
  intros np naggr ids H1 H2 H3.
  rewrite forallb_forall in H. specialize (H np H1).
  rewrite forallb_forall in H. specialize (H naggr H2).
  rewrite forallb_forall in H. exact (H ids H3).
Qed.

Example aggr_init_example :
  aggr_groups 5 2 [0; 0; 0; 0; 0] = [[0; 1; 2]; [3; 4]] /\ unaggregated 5 2 [0; 0; 0; 0; 0] = [] /\
  aggr_groups 3 2 [0; 0; 0] = [[0; 1]] /\ unaggregated 3 2 [0; 0; 0] = [2] /\
  aggr_groups 4 1 [0; 1; 0; 1] = [[0; 2]; [1; 3]] /\
  aggr_groups 4 4 [0; 0; 0; 0] = [] /\ unaggregated 4 0 [0; 0; 0; 0] = [0; 1; 2; 3].
Proof. repeat split; reflexivity. Qed.

(* ================================================================== *)
(* 8. request level: an aggregated collective put == the requested     *)
(*    elements written at their row-major offsets                      *)
(* ================================================================== *)
Lemma flatten_req_none g start count :
  flatten_req g start count None = flatten_req g start count (Some (ones (length (g_shape g)))).
Proof.
  unfold flatten_req. destruct (g_shape g) as [|s0 ss] eqn:Es; [reflexivity|].
  destruct (g_isrec g); [|reflexivity].
  cbn [length]. rewrite ones_S. cbn [hd]. reflexivity.
Qed.

Lemma dk_scatter_ext xsz offs : forall bs a b,
  disk_eq a b -> disk_eq (dk_scatter a xsz offs bs) (dk_scatter b xsz offs bs).
Proof.
  induction offs as [|o r IH]; intros bs a b H; [exact H|].
  cbn [dk_scatter]. apply IH. now apply dk_write_ext.
Qed.

Lemma dk_scatter_app xsz : forall o1 o2 bs d, 0 <= xsz ->
  dk_scatter d xsz (o1 ++ o2) bs =
  dk_scatter (dk_scatter d xsz o1 bs) xsz o2 (zskipn (Zlen o1 * xsz) bs).
Proof.
  induction o1 as [|o r IH]; intros o2 bs d Hx.
  - cbn [app dk_scatter]. rewrite Zlen_nil. now rewrite zskipn_nonpos by lia.
  - cbn [app dk_scatter]. rewrite IH by assumption. f_equal.
    pose proof (Zlen_nonneg r). rewrite Zlen_cons. rewrite zskipn_zskipn by nia. f_equal. lia.
Qed.

(* one (offset, k*xsz) pair written at once == its k elements written one by one *)
Lemma tile_as_elems xsz : 0 < xsz -> forall k o data d, k * xsz <= Zlen data -> 0 <= k ->
  disk_eq (dk_write d o (zfirstn (k * xsz) data))
          (dk_scatter d xsz (map (fun j => o + j * xsz) (zrange 0 k)) data).
Proof.
  intros Hx k o data d Hlen Hk. revert o data d Hlen.
  pattern k. apply natlike_ind; [| |exact Hk].
  - intros o data d _. cbn. rewrite zfirstn_nonpos by lia. apply disk_eq_refl.
  - intros n Hn IH o data d Hlen.
    replace (Z.succ n) with (n + 1) in * by lia.
    rewrite zrange_succ by lia.
    replace (map (fun j => o + j * xsz) (0 :: zrange (0 + 1) n))
      with (o :: map (fun j => (o + xsz) + j * xsz) (zrange 0 n)).
    2:{ cbn [map]. f_equal; [lia|]. rewrite (zrange_shift (0 + 1) n), map_map.
        apply map_ext. intros j. lia. }
    cbn [dk_scatter].
    replace ((n + 1) * xsz) with (xsz + n * xsz) by lia.
    rewrite zfirstn_add by nia.
    eapply disk_eq_trans; [apply dk_write_app|].
    rewrite Zlen_zfirstn. replace (Z.max 0 (Z.min xsz (Zlen data))) with xsz by nia.
    apply (IH (o + xsz)). rewrite Zlen_zskipn. nia.
Qed.

Definition mult_of (xsz : Z) (p : Z * Z) : Prop := exists k, 0 <= k /\ snd p = k * xsz.

Lemma pair_elems_cons xsz o l ps :
  pair_elems xsz ((o, l) :: ps) = map (fun j => o + j * xsz) (zrange 0 (l / xsz)) ++ pair_elems xsz ps.
Proof. reflexivity. Qed.

(* a rank's own pairs written tile by tile == its elements written one by one *)
Lemma tiles_as_elems xsz : 0 < xsz -> forall pairs data d,
  Forall (mult_of xsz) pairs -> zsum (map snd pairs) <= Zlen data ->
  disk_eq (write_tiles (tiles_of pairs data) d) (dk_scatter d xsz (pair_elems xsz pairs) data).
Proof.
  intros Hx. induction pairs as [|[o l] ps IH]; intros data d HF Hs; [apply disk_eq_refl|].
  inversion HF as [|? ? [k [Hk Hl]] HF']; subst. cbn [snd] in Hl. subst l.
  cbn [map zsum snd] in Hs.
  assert (Hn : 0 <= zsum (map snd ps)).
  { clear -HF' Hx. induction HF' as [|q r [k [Hk Hq]] _ IH']; cbn [map zsum]; nia. }
  cbn [tiles_of]. rewrite write_tiles_cons. cbn [fst snd].
  rewrite pair_elems_cons. rewrite Z.div_mul by lia.
  rewrite dk_scatter_app by lia.
  rewrite Zlen_map, Zlen_zrange. replace (Z.max 0 k) with k by lia.
  eapply disk_eq_trans; [apply IH; [exact HF'|rewrite Zlen_zskipn; nia]|].
  apply dk_scatter_ext. apply tile_as_elems; try assumption; nia.
Qed.

Lemma last_In_cons {A} : forall (l : list A) a d, In (last (a :: l) d) (a :: l).
Proof.
  induction l as [|b l IH]; intros a d; [now left|].
  right. change (last (a :: b :: l) d) with (last (b :: l) d). apply IH.
Qed.

Lemma flatten_subarray_mult el b dimlen start count stride :
  Forall (fun c => 0 <= c) count ->
  Forall (mult_of el) (flatten_subarray el b dimlen start count stride).
Proof.
  intros Hc. unfold flatten_subarray. destruct dimlen as [|s0 ss].
  - constructor; [|constructor]. exists 1. cbn [snd]. lia.
  - destruct (_ =? 0); [constructor|].
    rewrite Forall_map. apply Forall_forall. intros o _. cbn [snd].
    destruct (last stride 1 =? 1).
    + exists (last count 0). split; [|reflexivity].
      destruct count as [|c cs]; [cbn [last]; lia|].
      assert (Hin : In (last (c :: cs) 0) (c :: cs)) by apply last_In_cons.
      rewrite Forall_forall in Hc. apply Hc. exact Hin.
    + exists 1. cbn [snd]. lia.
Qed.

Lemma flatten_req_mult g start count stride :
  0 < g_xsz g -> Forall (fun c => 0 <= c) count ->
  Forall (mult_of (g_xsz g)) (flatten_req g start count (Some stride)).
Proof.
  intros Hx Hc. unfold flatten_req. destruct (g_shape g) as [|s0 ss].
  - constructor; [|constructor]. exists 1. cbn [snd]. lia.
  - destruct (g_isrec g).
    + apply Forall_flat_map. apply Forall_forall. intros j _.
      apply flatten_subarray_mult. destruct count; [constructor|]. inversion Hc; assumption.
    + now apply flatten_subarray_mult.
Qed.

Lemma zsum_mult xsz : 0 < xsz -> forall pairs, Forall (mult_of xsz) pairs ->
  zsum (map snd pairs) = Zlen (pair_elems xsz pairs) * xsz.
Proof.
  intros Hx. induction 1 as [|[o l] ps [k [Hk Hl]] _ IH]; [reflexivity|].
  cbn [snd] in Hl. subst l. cbn [map zsum snd]. rewrite pair_elems_cons, Zlen_app, Zlen_map, Zlen_zrange.
  rewrite Z.div_mul by lia. rewrite IH. nia.
Qed.

(* a request as the API hands it over: geometry, start, count, stride (None = NULL pointer),
   and the packed external data of the request *)
Definition req_stride (r : put_req) : list Z :=
  let '(g, s, c, t, data) := r in stride_or_ones (length (g_shape g)) t.

Definition req_fits (r : put_req) : Prop :=
  let '(g, s, c, t, data) := r in
  wf_geom g /\ req_ok (g_shape g) s c (stride_or_ones (length (g_shape g)) t) /\
  Zlen data = zprod c * g_xsz g.

(* SPEC of one put: element k of the data stream lands at the row-major offset of element k *)
Definition spec_put (d : disk) (r : put_req) : disk :=
  let '(g, s, c, t, data) := r in
  if zprod c =? 0 then d
  else dk_scatter d (g_xsz g) (spec_offsets g s c (stride_or_ones (length (g_shape g)) t)) data.

Lemma contrib_of_req_fits r : req_fits r ->
  contrib_fits (contrib_of_req r) /\
  forall d, disk_eq (write_own d (contrib_of_req r)) (spec_put d r).
Proof.
  destruct r as [[[[g s] c] t] data]. intros (Hwf & Hreq & Hlen).
  unfold contrib_of_req, spec_put. destruct (zprod c =? 0) eqn:Ez.
  - split; [split; [constructor|reflexivity]|]. intros d. apply disk_eq_refl.
  - assert (Hz : zprod c <> 0) by lia.
    pose proof Hwf as (Hx & _).
    assert (Hc : Forall (fun x => 0 <= x) c) by (eapply req_ok_count_nonneg; eassumption).
    set (st := stride_or_ones (length (g_shape g)) t) in *.
    assert (Hfl : flatten_req g s c t = flatten_req g s c (Some st)).
    { destruct t as [t|]; [reflexivity|]. unfold st. cbn [stride_or_ones]. apply flatten_req_none. }
    rewrite Hfl.
    pose proof (flatten_req_mult g s c st Hx Hc) as Hm.
    pose proof (flatten_req_spec g s c st Hwf Hreq Hz) as Hspec.
    pose proof (zsum_mult (g_xsz g) Hx _ Hm) as Hsum.
    rewrite Hspec in Hsum.
    assert (Hl : Zlen (spec_offsets g s c st) = zprod c).
    { unfold Zlen. rewrite (spec_offsets_length_req g s c st Hreq).
      rewrite Z2Nat.id; [reflexivity|]. apply Proofs_Lists.zprod_nonneg. exact Hc. }
    rewrite Hl in Hsum.
    split.
    + split; cbn [fst snd].
      * eapply Forall_impl; [|exact Hm]. intros p [k [Hk Hp]]. nia.
      * lia.
    + intros d. unfold write_own. cbn [fst snd]. rewrite <- Hspec.
      apply tiles_as_elems; try assumption. lia.
Qed.

(* C10 aggr_equiv at request level: whatever the number of ranks and their assignment to
   aggregators, a collective put under intra-node aggregation leaves the file that results from
   writing, for every rank, element k of its data at the row-major offset of element k of its
   request - provided the flattened requests are pairwise disjoint *)
Theorem aggr_put_equiv : forall (reqs : list put_req) (groups : list (list put_req)) (singles : list put_req) d,
  Forall req_fits reqs ->
  Permutation (concat groups ++ singles) reqs ->
  pdisj (all_tiles (map contrib_of_req reqs)) ->
  disk_eq (aggr_writes d (map (map contrib_of_req) groups) (map contrib_of_req singles))
          (fold_left spec_put reqs d).
Proof.
  intros reqs groups singles d HF HP Hd.
  eapply disk_eq_trans.
  - apply (aggr_equiv (map contrib_of_req reqs)).
    + rewrite Forall_map. eapply Forall_impl; [|exact HF]. intros r Hr. now apply contrib_of_req_fits.
    + rewrite <- concat_map, <- map_app. now apply Permutation_map.
    + exact Hd.
  - unfold spec_writes. clear HP Hd groups singles. revert d.
    induction reqs as [|r rs IH]; intros d; [apply disk_eq_refl|].
    inversion HF as [|? ? Hr HF']; subst. cbn [map fold_left].
    eapply disk_eq_trans; [|apply IH; exact HF'].
    fold (spec_writes (write_own d (contrib_of_req r)) (map contrib_of_req rs)).
    fold (spec_writes (spec_put d r) (map contrib_of_req rs)).
    apply spec_writes_ext. now apply contrib_of_req_fits.
Qed.

Example aggr_put_equiv_example :
  let g := mkgeom 512 4 [0; 3] 12 1 in
  let r0 : put_req := (g, [0; 0], [2; 3], Some [2; 1], [0;0;0;1; 0;0;0;2; 0;0;0;3; 0;0;0;4; 0;0;0;5; 0;0;0;6]) in
  let r1 : put_req := (g, [1; 1], [2; 2], Some [2; 1], [0;0;0;7; 0;0;0;8; 0;0;0;9; 0;0;0;10]) in
  Forall req_fits [r0; r1] /\
  dk_read (aggr_writes empty_disk [[contrib_of_req r1; contrib_of_req r0]] []) 512 48 =
  dk_read (fold_left spec_put [r0; r1] empty_disk) 512 48 /\
  dk_read (fold_left spec_put [r0; r1] empty_disk) 536 12 = [0;0;0;4; 0;0;0;5; 0;0;0;6].
Proof.
  cbv zeta. split; [|split; vm_compute; reflexivity].
  repeat constructor; cbn; try lia; try (repeat constructor; lia); intros _; reflexivity.
Qed.
