(* Proofs_Files.v — C17: theorems about the ncid table model Files.v, for arbitrary histories of
   create/open (succeeding or failing at any exit), close, abort, API calls and nonblocking posts with
   arbitrary ids (stale, negative, huge).  The machine is parametrised by the id check; results are proved
   for every "honest" check (one that, when it answers OK, is in range and returns the slot content) and then
   instantiated with the check as built (check_id), the check without / with the NULL-slot test. *)
Require Import Lia ZArith List Bool.
Import ListNotations.
From Pnc Require Import Gen_consts Gen_modes Files.
Local Open Scope Z_scope.

Lemma MAXF_val : Z.of_nat MAXF = NC_MAX_NFILES.
Proof. vm_compute. reflexivity. Qed.
Lemma MAX_pos : 0 < NC_MAX_NFILES.
Proof. vm_compute. reflexivity. Qed.

(* ---------- set_nth / nth ---------- *)
Lemma set_nth_length {A} n (x : A) l : length (set_nth n x l) = length l.
Proof. revert n. induction l as [|y r IH]; intros [|n]; cbn; auto. Qed.
Lemma nth_set_nth_eq {A} n (x d : A) l : (n < length l)%nat -> nth n (set_nth n x l) d = x.
Proof.
  revert n. induction l as [|y r IH]; intros n H; [cbn in H; lia|].
  destruct n as [|n]; cbn; [reflexivity|]. apply IH. cbn in H. lia.
Qed.
Lemma nth_set_nth_neq {A} m n (x d : A) l : m <> n -> nth m (set_nth n x l) d = nth m l d.
Proof.
  revert m n. induction l as [|y r IH]; intros [|m] [|n] H; cbn; auto; try congruence;
    try (apply IH; congruence).
Qed.

(* ---------- count_occ ---------- *)
Lemma count_occ_cons o l : count_occ (o :: l) = ((if is_none o then 0 else 1) + count_occ l)%nat.
Proof. unfold count_occ. cbn. destruct o; cbn; reflexivity. Qed.
Lemma count_occ_le l : (count_occ l <= length l)%nat.
Proof.
  induction l as [|y r IH]; [cbn; lia|]. rewrite count_occ_cons. cbn [length]. destruct y; cbn; lia.
Qed.
Lemma count_occ_set_some i p l :
  (i < length l)%nat -> nth i l None = None -> count_occ (set_nth i (Some p) l) = S (count_occ l).
Proof.
  revert i. induction l as [|y r IH]; intros i H E; [cbn [length] in H; lia|].
  destruct i as [|i]; cbn [set_nth nth length] in *.
  - subst y. rewrite !count_occ_cons. cbn [is_none]. lia.
  - rewrite !count_occ_cons. rewrite IH; [lia | lia | exact E].
Qed.
Lemma count_occ_set_none i f l :
  nth i l None = Some f -> S (count_occ (set_nth i None l)) = count_occ l.
Proof.
  revert i. induction l as [|y r IH]; intros i E; [destruct i; discriminate E|].
  destruct i as [|i]; cbn [set_nth nth] in *.
  - subst y. rewrite !count_occ_cons. cbn [is_none]. lia.
  - rewrite !count_occ_cons. rewrite <- (IH i E). lia.
Qed.
Lemma count_occ_set_same i f g l :
  nth i l None = Some f -> count_occ (set_nth i (Some g) l) = count_occ l.
Proof.
  revert i. induction l as [|y r IH]; intros i E; [destruct i; discriminate E|].
  destruct i as [|i]; cbn [set_nth nth] in *.
  - subst y. rewrite !count_occ_cons. reflexivity.
  - rewrite !count_occ_cons. now rewrite (IH i E).
Qed.
Lemma count_zero_nth l k : count_occ l = 0%nat -> nth k l None = None.
Proof.
  revert k. induction l as [|y r IH]; intros k Hc; [destruct k; reflexivity|].
  rewrite count_occ_cons in Hc. destruct y as [f|]; cbn [is_none] in Hc; [lia|].
  destruct k as [|k]; cbn [nth]; [reflexivity|]. apply IH. lia.
Qed.
Lemma nth_some_lt {A} i (l : list (option A)) f : nth i l None = Some f -> (i < length l)%nat.
Proof.
  intro E. destruct (Nat.lt_ge_cases i (length l)) as [H|H]; [exact H|].
  rewrite nth_overflow in E by exact H. discriminate.
Qed.

(* ---------- first_free ---------- *)
Lemma first_free_some l i :
  first_free l = Some i ->
  (i < length l)%nat /\ nth i l None = None /\ (forall j, (j < i)%nat -> nth j l None <> None).
Proof.
  revert i. induction l as [|y r IH]; intros i H; cbn in H; [discriminate|].
  destruct y as [f|].
  - destruct (first_free r) as [k|] eqn:E; cbn in H; [|discriminate]. injection H as <-.
    destruct (IH k eq_refl) as (A & B & Cc).
    split; [cbn [length]; lia|]. split; [cbn [nth]; exact B|].
    intros [|j] Hj; cbn [nth]; [discriminate|]. apply Cc. lia.
  - injection H as <-. split; [cbn [length]; lia|]. split; [reflexivity|]. intros j Hj. lia.
Qed.
Lemma first_free_none l : first_free l = None -> count_occ l = length l.
Proof.
  induction l as [|y r IH]; intro H; cbn in H; [reflexivity|].
  destruct y as [f|]; [|discriminate].
  destruct (first_free r) eqn:E; cbn in H; [discriminate|].
  rewrite count_occ_cons. cbn. now rewrite IH.
Qed.

(* ---------- invariant of the table ---------- *)
Definition Inv (t : tbl) : Prop :=
  length (slots t) = MAXF /\ numfiles t = Z.of_nat (count_occ (slots t)).
Definition ck_honest (ck : tbl -> Z -> chk) : Prop :=
  forall t id p, ck t id = ChkOk p -> 0 <= id < NC_MAX_NFILES /\ p = nth (Z.to_nat id) (slots t) None.

Lemma check_id_gen_honest z n : ck_honest (check_id_gen z n).
Proof.
  intros t id p H. unfold check_id_gen in H.
  destruct ((z && (numfiles t =? 0)) || (id <? 0) || (id >=? NC_MAX_NFILES)) eqn:E; [discriminate|].
  apply orb_false_iff in E. destruct E as [E E3]. apply orb_false_iff in E. destruct E as [E1 E2].
  apply Z.ltb_ge in E2. apply Z.geb_leb in E3 || idtac.
  assert (id < NC_MAX_NFILES).
  { destruct (id >=? NC_MAX_NFILES) eqn:G; [discriminate|]. rewrite Z.geb_leb in G. apply Z.leb_gt in G. exact G. }
  split; [lia|].
  destruct (n && is_none (nth (Z.to_nat id) (slots t) None)); [discriminate|]. now injection H.
Qed.
Lemma check_id_honest : ck_honest check_id.
Proof. apply check_id_gen_honest. Qed.

Lemma Inv0 : Inv tbl0.
Proof.
  split; cbn [slots numfiles tbl0].
  - apply repeat_length.
  - assert (G : forall n, count_occ (repeat (@None fobj) n) = 0%nat).
    { induction n; [reflexivity|]. cbn [repeat]. rewrite count_occ_cons. cbn. exact IHn. }
    now rewrite G.
Qed.

Lemma idx_lt t id : Inv t -> 0 <= id < NC_MAX_NFILES -> (Z.to_nat id < length (slots t))%nat.
Proof. intros [L _] H. rewrite L. pose proof MAXF_val. lia. Qed.

(* new_id keeps the invariant; on success it takes the first free slot *)
Lemma new_id_spec t p t' err id :
  Inv t -> new_id t p = (t', err, id) ->
  (numfiles t = NC_MAX_NFILES /\ t' = t /\ err = NC_ENFILE /\ id = -1) \/
  (numfiles t < NC_MAX_NFILES /\ err = NC_NOERR /\
   exists i, first_free (slots t) = Some i /\ id = Z.of_nat i /\ 0 <= id < NC_MAX_NFILES /\
             t' = mkT (set_nth i (Some p) (slots t)) (numfiles t + 1) (nextuid t) (heap t)).
Proof.
  intros [L N] H. unfold new_id in H.
  destruct (numfiles t =? NC_MAX_NFILES) eqn:E.
  - apply Z.eqb_eq in E. injection H as <- <- <-. left. auto.
  - apply Z.eqb_neq in E. right.
    pose proof (count_occ_le (slots t)) as Hle. rewrite L in Hle.
    pose proof MAXF_val as MV.
    assert (numfiles t < NC_MAX_NFILES) by lia.
    destruct (first_free (slots t)) as [i|] eqn:F.
    + injection H as <- <- <-. split; [assumption|]. split; [reflexivity|]. exists i.
      destruct (first_free_some _ _ F) as (A & _). rewrite L in A.
      repeat split; auto; try lia.
    + exfalso. apply first_free_none in F. rewrite L in F. lia.
Qed.

Lemma del_id_inv t id f :
  Inv t -> 0 <= id < NC_MAX_NFILES -> nth (Z.to_nat id) (slots t) None = Some f -> Inv (del_id t id).
Proof.
  intros [L N] R E. split; cbn [del_id slots numfiles].
  - now rewrite set_nth_length.
  - rewrite N. pose proof (count_occ_set_none _ _ _ E). lia.
Qed.

Lemma set_heap_inv t h : Inv t -> Inv (set_heap t h).
Proof. intros [L N]. split; assumption. Qed.

Lemma do_create_inv b t o t' r : Inv t -> do_create b t o = (t', r) -> Inv t'.
Proof.
  intros I H. unfold do_create in H.
  destruct o as [|e|e].
  - set (t1 := mkT (slots t) (numfiles t) (S (nextuid t)) (S (heap t))) in *.
    assert (I1 : Inv t1) by (destruct I; split; assumption).
    destruct (new_id t1 (mkF (nextuid t) 0 0)) as [[t2 err] id] eqn:N.
    destruct (new_id_spec _ _ _ _ _ I1 N) as [(A & -> & -> & ->) | (A & -> & i & F & -> & R & ->)].
    + cbn in H. destruct b; injection H as <- <-; [apply set_heap_inv|]; exact I1.
    + cbn in H. injection H as <- <-.
      destruct (first_free_some _ _ F) as (Hi & Hn & _). destruct I1 as [L Nn].
      subst t1. cbn [slots numfiles] in *.
      split; cbn [slots numfiles].
      * now rewrite set_nth_length.
      * rewrite count_occ_set_some by assumption. rewrite Nn. lia.
  - injection H as <- <-. exact I.
  - set (t1 := mkT (slots t) (numfiles t) (S (nextuid t)) (S (heap t))) in *.
    assert (I1 : Inv t1) by (destruct I; split; assumption).
    destruct (new_id t1 (mkF (nextuid t) 0 0)) as [[t2 err] id] eqn:N.
    destruct (new_id_spec _ _ _ _ _ I1 N) as [(A & -> & -> & ->) | (A & -> & i & F & -> & R & ->)].
    + cbn in H. destruct b; injection H as <- <-; [apply set_heap_inv|]; exact I1.
    + cbn in H. injection H as <- <-. apply set_heap_inv.
      destruct (first_free_some _ _ F) as (Hi & Hn & _). destruct I1 as [L Nn].
      subst t1. cbn [slots numfiles] in *.
      split; cbn [del_id slots numfiles].
      * now rewrite !set_nth_length.
      * rewrite Nat2Z.id.
        assert (E : nth i (set_nth i (Some (mkF (nextuid t) 0 0)) (slots t)) None = Some (mkF (nextuid t) 0 0))
          by (apply nth_set_nth_eq; exact Hi).
        pose proof (count_occ_set_none _ _ _ E) as C.
        rewrite count_occ_set_some in C by assumption. rewrite Nn. lia.
Qed.

Section Generic.
Variable ck : tbl -> Z -> chk.
Hypothesis HCK : ck_honest ck.

Lemma step1_inv t e t' r : Inv t -> step1 ck t e = (Some t', r) -> Inv t'.
Proof.
  intros I H. destruct e as [o|o|id|id|id|id]; cbn [step1] in H.
  - destruct (do_create _ t o) as [t1 r1] eqn:D. injection H as <- <-. eapply do_create_inv; eauto.
  - destruct (do_create _ t o) as [t1 r1] eqn:D. injection H as <- <-. eapply do_create_inv; eauto.
  - unfold with_id in H. destruct (ck t id) as [|[f|]] eqn:C; try discriminate.
    + injection H as <- <-. exact I.
    + injection H as <- <-. destruct (HCK _ _ _ C) as [R E]. apply set_heap_inv. eapply del_id_inv; eauto.
  - unfold with_id in H. destruct (ck t id) as [|[f|]] eqn:C; try discriminate.
    + injection H as <- <-. exact I.
    + injection H as <- <-. destruct (HCK _ _ _ C) as [R E]. apply set_heap_inv. eapply del_id_inv; eauto.
  - unfold with_id in H. destruct (ck t id) as [|[f|]] eqn:C; try discriminate.
    + injection H as <- <-. exact I.
    + injection H as <- <-. destruct (HCK _ _ _ C) as [R E]. destruct I as [L N].
      split; cbn [slots numfiles]; [now rewrite set_nth_length|].
      rewrite (count_occ_set_same _ f) by (symmetry; exact E). exact N.
  - unfold with_id in H. destruct (ck t id) as [|[f|]] eqn:C; try discriminate.
    + injection H as <- <-. exact I.
    + injection H as <- <-. destruct (HCK _ _ _ C) as [R E]. destruct I as [L N].
      split; cbn [slots numfiles]; [now rewrite set_nth_length|].
      rewrite (count_occ_set_same _ f) by (symmetry; exact E). exact N.
Qed.

Lemma run_inv h : forall t t', Inv t -> run ck (Some t) h = Some t' -> Inv t'.
Proof.
  induction h as [|e r IH]; intros t t' I H; cbn [run] in H.
  - now injection H as <-.
  - cbn [step] in H. destruct (step1 ck t e) as [[t1|] r1] eqn:St; cbn [fst] in H.
    + eapply IH; [|exact H]. eapply step1_inv; eauto.
    + assert (G : forall h', run ck None h' = None) by (induction h'; cbn; auto). rewrite G in H. discriminate.
Qed.

Theorem table_invariant :
  forall (h : list ev) (t : tbl), run ck (Some tbl0) h = Some t ->
    length (slots t) = MAXF /\ numfiles t = Z.of_nat (count_occ (slots t)) /\ 0 <= numfiles t <= NC_MAX_NFILES.
Proof.
  intros h t H. destruct (run_inv h _ _ Inv0 H) as [L N]. repeat split; auto; try lia.
  pose proof (count_occ_le (slots t)). rewrite L in H0. pose proof MAXF_val. lia.
Qed.

(* ---------- occupied slots = live ids ---------- *)
Definition agrees (t : tbl) (l : list Z) : Prop := forall id, occupied t id = true <-> In id l.

Lemma occupied_iff t id :
  occupied t id = true <-> 0 <= id < NC_MAX_NFILES /\ nth (Z.to_nat id) (slots t) None <> None.
Proof.
  unfold occupied. rewrite !andb_true_iff, Z.leb_le, Z.ltb_lt, negb_true_iff.
  destruct (nth (Z.to_nat id) (slots t) None); cbn; split; intros [A B]; (split; [lia|]); congruence.
Qed.

Lemma In_remove_z x y l : In x (remove_z y l) <-> In x l /\ x <> y.
Proof.
  induction l as [|a r IH]; cbn; [tauto|].
  destruct (y =? a) eqn:E.
  - apply Z.eqb_eq in E. subst a. rewrite IH. split; [tauto|]. intros [[->|H] N]; [congruence | tauto].
  - apply Z.eqb_neq in E. cbn. rewrite IH. split.
    + intros [->|[H N]]; [split; [tauto|congruence] | tauto].
    + intros [[->|H] N]; tauto.
Qed.

Lemma agrees_create b t o t' r l :
  Inv t -> agrees t l -> do_create b t o = (t', r) ->
  agrees t' (live_step l (ECreate o) r) /\ agrees t' (live_step l (EOpen o) r).
Proof.
  intros I A H. unfold do_create in H.
  assert (Same : forall t2, slots t2 = slots t -> agrees t2 l).
  { intros t2 E id. unfold occupied. rewrite E. apply A. }
  destruct o as [|e|e].
  - set (t1 := mkT (slots t) (numfiles t) (S (nextuid t)) (S (heap t))) in *.
    assert (I1 : Inv t1) by (destruct I; split; assumption).
    destruct (new_id t1 (mkF (nextuid t) 0 0)) as [[t2 err] id] eqn:N.
    destruct (new_id_spec _ _ _ _ _ I1 N) as [(Q & -> & -> & ->) | (Q & -> & i & F & -> & R & ->)].
    + cbn in H. assert (agrees t' l).
      { destruct b; injection H as <- <-; apply Same; reflexivity. }
      assert (r = RRc NC_ENFILE (Some (-1))) by (destruct b; now injection H).
      subst r. cbn. split; assumption.
    + cbn in H. injection H as <- <-. cbn [live_step].
      rewrite Z.eqb_refl. cbn [andb].
      assert (G : (0 <=? Z.of_nat i) = true) by (apply Z.leb_le; lia). rewrite G.
      destruct (first_free_some _ _ F) as (Hi & Hn & _).
      assert (AG : agrees (mkT (set_nth i (Some (mkF (nextuid t) 0 0)) (slots t1)) (numfiles t1 + 1) (nextuid t1) (heap t1))
                          (Z.of_nat i :: l)).
      { intro id. rewrite occupied_iff. cbn [slots In].
        destruct (Z_lt_le_dec id 0) as [Lt|Ge].
        - split; [intros [? _]; lia|]. intros [E|E]; [lia|]. apply A in E. rewrite occupied_iff in E. lia.
        - destruct (Z.eq_dec id (Z.of_nat i)) as [->|Ne].
          + rewrite Nat2Z.id, nth_set_nth_eq by exact Hi. split; [auto|]. intros _. split; [lia | discriminate].
          + rewrite nth_set_nth_neq by lia. rewrite <- (A id), occupied_iff. cbn [t1 slots].
            split; [tauto|]. intros [H|H]; [congruence | tauto]. }
      split; exact AG.
  - injection H as <- <-. cbn. split; exact A.
  - set (t1 := mkT (slots t) (numfiles t) (S (nextuid t)) (S (heap t))) in *.
    assert (I1 : Inv t1) by (destruct I; split; assumption).
    destruct (new_id t1 (mkF (nextuid t) 0 0)) as [[t2 err] id] eqn:N.
    destruct (new_id_spec _ _ _ _ _ I1 N) as [(Q & -> & -> & ->) | (Q & -> & i & F & -> & R & ->)].
    + cbn in H. assert (agrees t' l).
      { destruct b; injection H as <- <-; apply Same; reflexivity. }
      assert (r = RRc NC_ENFILE (Some (-1))) by (destruct b; now injection H).
      subst r. cbn. split; assumption.
    + cbn in H. injection H as <- <-. cbn [live_step].
      destruct (first_free_some _ _ F) as (Hi & Hn & _).
      assert (AG : agrees (set_heap (del_id (mkT (set_nth i (Some (mkF (nextuid t) 0 0)) (slots t1)) (numfiles t1 + 1)
                                                 (nextuid t1) (heap t1)) (Z.of_nat i))
                                    (pred (heap t1))) l).
      { intro id. rewrite occupied_iff. cbn [set_heap del_id slots]. rewrite Nat2Z.id. rewrite <- (A id), occupied_iff.
        unfold t1 in Hi, Hn. cbn [slots] in Hi, Hn. unfold t1. cbn [slots].
        destruct (Nat.eq_dec (Z.to_nat id) i) as [E|Ne].
        - rewrite E. rewrite nth_set_nth_eq by (rewrite set_nth_length; exact Hi). rewrite Hn. tauto.
        - rewrite !nth_set_nth_neq by exact Ne. tauto. }
      assert (Hrc : forall e0, (if (e0 =? NC_NOERR) && (0 <=? -1) then -1 :: l else l) = l).
      { intro e0. rewrite andb_false_r. reflexivity. }
      cbn. rewrite Hrc. split; exact AG.
Qed.

Lemma agrees_step t e t' r l :
  Inv t -> agrees t l -> step1 ck t e = (Some t', r) -> agrees t' (live_step l e r).
Proof.
  intros I A H. destruct e as [o|o|id|id|id|id]; cbn [step1] in H.
  - destruct (do_create _ t o) as [t1 r1] eqn:D. injection H as <- <-.
    exact (proj1 (agrees_create _ _ _ _ _ _ I A D)).
  - destruct (do_create _ t o) as [t1 r1] eqn:D. injection H as <- <-.
    exact (proj2 (agrees_create _ _ _ _ _ _ I A D)).
  - unfold with_id in H. destruct (ck t id) as [|[f|]] eqn:C; try discriminate.
    + injection H as <- <-. cbn. exact A.
    + injection H as <- <-. destruct (HCK _ _ _ C) as [R E]. cbn [live_step].
      assert (G : ((if Nat.eqb (pend f) 0 then NC_NOERR else NC_EPENDING) =? NC_EBADID) = false)
        by (destruct (Nat.eqb (pend f) 0); vm_compute; reflexivity).
      rewrite G. intro j. rewrite In_remove_z, <- (A j), !occupied_iff. cbn [set_heap del_id slots].
      destruct (Z_lt_le_dec j 0) as [Lt|Ge]; [split; [intros [? ?]; lia | intros [[? ?] ?]; lia]|].
      destruct (Z.eq_dec j id) as [->|Ne].
      * rewrite nth_set_nth_eq by (apply idx_lt; assumption). split; [intros [_ X]; congruence | tauto].
      * rewrite nth_set_nth_neq by lia. tauto.
  - unfold with_id in H. destruct (ck t id) as [|[f|]] eqn:C; try discriminate.
    + injection H as <- <-. cbn. exact A.
    + injection H as <- <-. destruct (HCK _ _ _ C) as [R E]. cbn [live_step].
      assert (G : (NC_NOERR =? NC_EBADID) = false) by (vm_compute; reflexivity).
      rewrite G. intro j. rewrite In_remove_z, <- (A j), !occupied_iff. cbn [set_heap del_id slots].
      destruct (Z_lt_le_dec j 0) as [Lt|Ge]; [split; [intros [? ?]; lia | intros [[? ?] ?]; lia]|].
      destruct (Z.eq_dec j id) as [->|Ne].
      * rewrite nth_set_nth_eq by (apply idx_lt; assumption). split; [intros [_ X]; congruence | tauto].
      * rewrite nth_set_nth_neq by lia. tauto.
  - unfold with_id in H. destruct (ck t id) as [|[f|]] eqn:C; try discriminate.
    + injection H as <- <-. cbn. exact A.
    + injection H as <- <-. destruct (HCK _ _ _ C) as [R E]. cbn [live_step].
      intro j. rewrite <- (A j), !occupied_iff. cbn [slots].
      destruct (Nat.eq_dec (Z.to_nat j) (Z.to_nat id)) as [Eq|Ne].
      * rewrite Eq. rewrite nth_set_nth_eq by (apply idx_lt; assumption). rewrite <- E. split; intros [? ?]; (split; [assumption | discriminate]).
      * rewrite nth_set_nth_neq by exact Ne. tauto.
  - unfold with_id in H. destruct (ck t id) as [|[f|]] eqn:C; try discriminate.
    + injection H as <- <-. cbn. exact A.
    + injection H as <- <-. destruct (HCK _ _ _ C) as [R E]. cbn [live_step].
      intro j. rewrite <- (A j), !occupied_iff. cbn [slots].
      destruct (Nat.eq_dec (Z.to_nat j) (Z.to_nat id)) as [Eq|Ne].
      * rewrite Eq. rewrite nth_set_nth_eq by (apply idx_lt; assumption). rewrite <- E. split; intros [? ?]; (split; [assumption | discriminate]).
      * rewrite nth_set_nth_neq by exact Ne. tauto.
Qed.

Lemma run_none h : run ck None h = None.
Proof. induction h; cbn; auto. Qed.

Lemma live_agrees h : forall t l t', Inv t -> agrees t l -> run ck (Some t) h = Some t' -> agrees t' (live_of ck (Some t) l h).
Proof.
  induction h as [|e r IH]; intros t l t' I A H; cbn [run live_of] in *.
  - now injection H as <-.
  - cbn [step] in *. destruct (step1 ck t e) as [[t1|] r1] eqn:St; cbn [fst snd] in *.
    + eapply IH; eauto using step1_inv, agrees_step.
    + rewrite run_none in H. discriminate.
Qed.

Theorem ids_valid_exactly_between :
  forall (h : list ev) (t : tbl) (id : Z),
    run ck (Some tbl0) h = Some t ->
    (occupied t id = true <-> In id (live ck h)).
Proof.
  intros h t id H. unfold live. apply (live_agrees h tbl0 [] t Inv0); [|exact H].
  intro j. split; [|intros []]. rewrite occupied_iff. cbn [tbl0 slots]. intros [_ X]. exfalso. apply X.
  clear. generalize (Z.to_nat j). induction MAXF as [|n IH]; intros [|k]; cbn; auto.
Qed.

(* ---------- id_reuse_first_free / max_files ---------- *)
Theorem id_reuse_first_free :
  forall (h : list ev) (t t' : tbl) (o : outcome) (isopen : bool) (rc id : Z),
    run ck (Some tbl0) h = Some t ->
    step1 ck t (if isopen then EOpen o else ECreate o) = (Some t', RRc rc (Some id)) ->
    0 <= id ->
    0 <= id < NC_MAX_NFILES /\ ~ In id (live ck h) /\ (forall j, 0 <= j < id -> In j (live ck h)).
Proof.
  intros h t t' o isopen rc id H St Hid.
  pose proof (run_inv h _ _ Inv0 H) as I.
  assert (D : exists b, do_create b t o = (t', RRc rc (Some id))).
  { destruct isopen; cbn [step1] in St; destruct (do_create _ t o) as [t1 r1] eqn:D; injection St as <- <-; eauto. }
  destruct D as [b D]. unfold do_create in D.
  destruct o as [|e|e]; try (injection D; intros; discriminate).
  - set (t1 := mkT (slots t) (numfiles t) (S (nextuid t)) (S (heap t))) in *.
    assert (I1 : Inv t1) by (destruct I; split; assumption).
    destruct (new_id t1 (mkF (nextuid t) 0 0)) as [[t2 err] id2] eqn:N.
    destruct (new_id_spec _ _ _ _ _ I1 N) as [(Q & -> & -> & ->) | (Q & -> & i & F & -> & R & ->)].
    + cbn in D. destruct b; injection D; intros; lia.
    + cbn in D. injection D as _ _ <-.
      destruct (first_free_some _ _ F) as (Hi & Hn & Hlt). cbn [t1 slots] in *.
      split; [exact R|]. split.
      * rewrite <- (ids_valid_exactly_between h t _ H), occupied_iff. rewrite Nat2Z.id. intros [_ X]. now apply X.
      * intros j Hj. rewrite <- (ids_valid_exactly_between h t _ H), occupied_iff. split; [lia|]. apply Hlt. lia.
  - set (t1 := mkT (slots t) (numfiles t) (S (nextuid t)) (S (heap t))) in *.
    assert (I1 : Inv t1) by (destruct I; split; assumption).
    destruct (new_id t1 (mkF (nextuid t) 0 0)) as [[t2 err] id2] eqn:N.
    destruct (new_id_spec _ _ _ _ _ I1 N) as [(Q & -> & -> & ->) | (Q & -> & i & F & -> & R & ->)].
    + cbn in D. destruct b; injection D; intros; lia.
    + cbn in D. injection D; intros; lia.
Qed.

Theorem max_files :
  forall (h : list ev) (t : tbl) (isopen : bool),
    run ck (Some tbl0) h = Some t ->
    let e := if isopen then EOpen OOk else ECreate OOk in
    (numfiles t < NC_MAX_NFILES ->
       exists t' id, step1 ck t e = (Some t', RRc NC_NOERR (Some id)) /\ 0 <= id < NC_MAX_NFILES /\
                     numfiles t' = numfiles t + 1) /\
    (numfiles t = NC_MAX_NFILES ->
       exists t', step1 ck t e = (Some t', RRc NC_ENFILE (Some (-1))) /\ slots t' = slots t /\ numfiles t' = numfiles t).
Proof.
  intros h t isopen H e. pose proof (run_inv h _ _ Inv0 H) as I.
  set (t1 := mkT (slots t) (numfiles t) (S (nextuid t)) (S (heap t))).
  assert (I1 : Inv t1) by (destruct I; split; assumption).
  destruct (new_id t1 (mkF (nextuid t) 0 0)) as [[t2 err] id2] eqn:N.
  split; intro Hn.
  - destruct (new_id_spec _ _ _ _ _ I1 N) as [(Q & _) | (Q & -> & i & F & -> & R & ->)]; [cbn [t1 numfiles] in Q; lia|].
    eexists. exists (Z.of_nat i). unfold e. destruct isopen; cbn [step1]; unfold do_create; fold t1; rewrite N; cbn;
      (split; [reflexivity|]; split; [exact R | reflexivity]).
  - destruct (new_id_spec _ _ _ _ _ I1 N) as [(Q & -> & -> & ->) | (Q & _)]; [|cbn [t1 numfiles] in Q; lia].
    unfold e. destruct isopen; cbn [step1]; unfold do_create; fold t1; rewrite N; cbn.
    + destruct ncmpi_open_ENFILE_FREES_PNC; eexists; (split; [reflexivity|]); split; reflexivity.
    + destruct ncmpi_create_ENFILE_FREES_PNC; eexists; (split; [reflexivity|]); split; reflexivity.
Qed.

(* ---------- files_independent ---------- *)
Definition ev_id (e : ev) : option Z :=
  match e with EClose id | EAbort id | EApi id | EPost id => Some id | _ => None end.

Lemma do_create_other b t o t' r j :
  Inv t -> do_create b t o = (t', r) -> nth j (slots t) None <> None ->
  nth j (slots t') None = nth j (slots t) None.
Proof.
  intros I D Hj. unfold do_create in D.
  destruct o as [|e|e]; [| injection D as <- <-; reflexivity |].
  - set (t0 := mkT (slots t) (numfiles t) (S (nextuid t)) (S (heap t))) in *.
    assert (I1 : Inv t0) by (destruct I; split; assumption).
    destruct (new_id t0 (mkF (nextuid t) 0 0)) as [[t2 err] id2] eqn:N.
    destruct (new_id_spec _ _ _ _ _ I1 N) as [(Q & -> & -> & ->) | (Q & -> & i & F & -> & R & ->)]; cbn in D.
    + destruct b; injection D as <- <-; reflexivity.
    + injection D as <- <-. destruct (first_free_some _ _ F) as (Hi & Hn & _).
      unfold t0 in Hn. cbn [slots] in *.
      assert (j <> i) by (intro; subst j; apply Hj; exact Hn).
      now rewrite nth_set_nth_neq.
  - set (t0 := mkT (slots t) (numfiles t) (S (nextuid t)) (S (heap t))) in *.
    assert (I1 : Inv t0) by (destruct I; split; assumption).
    destruct (new_id t0 (mkF (nextuid t) 0 0)) as [[t2 err] id2] eqn:N.
    destruct (new_id_spec _ _ _ _ _ I1 N) as [(Q & -> & -> & ->) | (Q & -> & i & F & -> & R & ->)]; cbn in D.
    + destruct b; injection D as <- <-; reflexivity.
    + injection D as <- <-. destruct (first_free_some _ _ F) as (Hi & Hn & _).
      unfold t0 in Hn. cbn [set_heap del_id slots] in *. rewrite Nat2Z.id.
      assert (j <> i) by (intro; subst j; apply Hj; exact Hn).
      now rewrite !nth_set_nth_neq.
Qed.

Theorem files_independent :
  forall (h : list ev) (t t' : tbl) (e : ev) (r : res) (j : nat),
    run ck (Some tbl0) h = Some t ->
    step1 ck t e = (Some t', r) ->
    match ev_id e with
    | Some id => Z.of_nat j <> id      (* an operation on id leaves every other slot alone *)
    | None => nth j (slots t) None <> None    (* create/open leave every occupied slot alone *)
    end ->
    nth j (slots t') None = nth j (slots t) None.
Proof.
  intros h t t' e r j H St Hj. pose proof (run_inv h _ _ Inv0 H) as I.
  destruct e as [o|o|id|id|id|id]; cbn [ev_id] in Hj; cbn [step1] in St.
  - destruct (do_create _ t o) as [t1 r1] eqn:D. injection St as <- <-. eapply do_create_other; eauto.
  - destruct (do_create _ t o) as [t1 r1] eqn:D. injection St as <- <-. eapply do_create_other; eauto.
  - unfold with_id in St. destruct (ck t id) as [|[f|]] eqn:C; try discriminate; injection St as <- <-; [reflexivity|].
    destruct (HCK _ _ _ C) as [R E]. cbn [set_heap del_id slots]. rewrite nth_set_nth_neq by lia. reflexivity.
  - unfold with_id in St. destruct (ck t id) as [|[f|]] eqn:C; try discriminate; injection St as <- <-; [reflexivity|].
    destruct (HCK _ _ _ C) as [R E]. cbn [set_heap del_id slots]. rewrite nth_set_nth_neq by lia. reflexivity.
  - unfold with_id in St. destruct (ck t id) as [|[f|]] eqn:C; try discriminate; injection St as <- <-; [reflexivity|].
    destruct (HCK _ _ _ C) as [R E]. cbn [slots]. rewrite nth_set_nth_neq by lia. reflexivity.
  - unfold with_id in St. destruct (ck t id) as [|[f|]] eqn:C; try discriminate; injection St as <- <-; [reflexivity|].
    destruct (HCK _ _ _ C) as [R E]. cbn [slots]. rewrite nth_set_nth_neq by lia. reflexivity.
Qed.

End Generic.

(* ================= check_id_sound ================= *)
(* the property: OK => slot occupied (and the pointer handed out is that slot's, not NULL); not open => NC_EBADID *)
Definition check_id_sound (ck : tbl -> Z -> chk) : Prop :=
  forall (h : list ev) (t : tbl) (id : Z),
    run ck (Some tbl0) h = Some t ->
    match ck t id with
    | ChkBad => occupied t id = false
    | ChkOk p => occupied t id = true /\ p = nth (Z.to_nat id) (slots t) None /\ p <> None
    end.
Definition never_crashes (ck : tbl -> Z -> chk) : Prop :=
  forall h : list ev, run ck (Some tbl0) h <> None.

Theorem check_id_fixed : forall z : bool, check_id_sound (check_id_gen z true).
Proof.
  intros z h t id H. pose proof (run_inv _ (check_id_gen_honest z true) h _ _ Inv0 H) as [L N].
  unfold check_id_gen. destruct ((z && (numfiles t =? 0)) || (id <? 0) || (id >=? NC_MAX_NFILES)) eqn:E.
  - apply orb_true_iff in E. destruct E as [E|E]; [apply orb_true_iff in E; destruct E as [E|E]|].
    + apply andb_true_iff in E. destruct E as [_ E]. apply Z.eqb_eq in E. rewrite E in N.
      assert (C0 : count_occ (slots t) = 0%nat) by lia.
      destruct (occupied t id) eqn:O; [|reflexivity]. exfalso.
      rewrite occupied_iff in O. destruct O as [R X].
      pose proof count_zero_nth as G.
      apply X. apply G. exact C0.
    + unfold occupied. apply Z.ltb_lt in E. assert ((0 <=? id) = false) by (apply Z.leb_gt; lia). now rewrite H0.
    + unfold occupied. rewrite Z.geb_leb in E. apply Z.leb_le in E.
      assert ((id <? NC_MAX_NFILES) = false) by (apply Z.ltb_ge; lia). rewrite H0. now rewrite andb_false_r.
  - apply orb_false_iff in E. destruct E as [E E3]. apply orb_false_iff in E. destruct E as [_ E2].
    apply Z.ltb_ge in E2. rewrite Z.geb_leb in E3. apply Z.leb_gt in E3.
    cbn [andb]. destruct (nth (Z.to_nat id) (slots t) None) as [f|] eqn:St; cbn [is_none].
    + split; [|split; [reflexivity | discriminate]]. apply occupied_iff. rewrite St. split; [lia | discriminate].
    + destruct (occupied t id) eqn:O; [|reflexivity]. rewrite occupied_iff in O. destruct O as [_ X]. now rewrite St in X.
Qed.

Theorem never_crashes_fixed : forall z : bool, never_crashes (check_id_gen z true).
Proof.
  intros z h. assert (G : forall t, Inv t -> run (check_id_gen z true) (Some t) h <> None).
  { induction h as [|e r IH]; intros t I; cbn [run]; [discriminate|]. cbn [step].
    destruct (step1 (check_id_gen z true) t e) as [[t1|] r1] eqn:St; cbn [fst].
    - apply IH. eapply step1_inv; eauto using check_id_gen_honest.
    - exfalso. destruct e as [o|o|id|id|id|id]; cbn [step1] in St;
        try (destruct (do_create _ t o); discriminate);
        unfold with_id in St; destruct (check_id_gen z true t id) as [|[f|]] eqn:C; try discriminate;
        try (destruct (let t1 := _ in _); discriminate);
        unfold check_id_gen in C;
        destruct ((z && (numfiles t =? 0)) || (id <? 0) || (id >=? NC_MAX_NFILES)); try discriminate;
        cbn [andb] in C; destruct (nth (Z.to_nat id) (slots t) None); cbn [is_none] in C; discriminate. }
  apply G. exact Inv0.
Qed.

(* the code as it is (pnc_numfiles == 0 test, no NULL-slot test): a closed or never-used slot passes the check
   whenever another file is open, and the next dereference kills the process *)
Definition h_witness : list ev := [ECreate OOk; ECreate OOk; EClose 0].
Theorem check_id_sound_refuted : ~ check_id_sound (check_id_gen true false).
Proof. intro H. specialize (H h_witness _ 0 eq_refl). vm_compute in H. destruct H as [H _]. discriminate H. Qed.
Theorem never_crashes_refuted : ~ never_crashes (check_id_gen true false).
Proof. intro H. apply (H (h_witness ++ [EApi 0])). vm_compute. reflexivity. Qed.
(* ... also with an id that was never handed out *)
Example never_used_slot_crashes : run (check_id_gen true false) (Some tbl0) [ECreate OOk; EApi 7] = None.
Proof. vm_compute. reflexivity. Qed.

(* what does hold of the code as it is *)
Theorem check_id_sound_partial :
  forall (z : bool) (h : list ev) (t : tbl) (id : Z),
    run (check_id_gen z false) (Some tbl0) h = Some t ->
    (occupied t id = true -> check_id_gen z false t id = ChkOk (nth (Z.to_nat id) (slots t) None)) /\
    (check_id_gen z false t id = ChkBad -> occupied t id = false) /\
    ((z = true /\ numfiles t = 0) \/ id < 0 \/ NC_MAX_NFILES <= id -> check_id_gen z false t id = ChkBad).
Proof.
  intros z h t id H. pose proof (run_inv _ (check_id_gen_honest z false) h _ _ Inv0 H) as [L N].
  pose proof count_zero_nth as G.
  unfold check_id_gen. cbn [andb].
  repeat split.
  - intro O. rewrite occupied_iff in O. destruct O as [R X].
    assert (E1 : (z && (numfiles t =? 0)) = false).
    { destruct z; [|reflexivity]. cbn. apply Z.eqb_neq. intro E0. apply X. apply G. lia. }
    assert (E2 : (id <? 0) = false) by (apply Z.ltb_ge; lia).
    assert (E3 : (id >=? NC_MAX_NFILES) = false) by (rewrite Z.geb_leb; apply Z.leb_gt; lia).
    rewrite E1, E2, E3. reflexivity.
  - destruct ((z && (numfiles t =? 0)) || (id <? 0) || (id >=? NC_MAX_NFILES)) eqn:E; [|discriminate]. intros _.
    destruct (occupied t id) eqn:O; [|reflexivity]. exfalso. rewrite occupied_iff in O. destruct O as [R X].
    apply orb_true_iff in E. destruct E as [E|E]; [apply orb_true_iff in E; destruct E as [E|E]|].
    + apply andb_true_iff in E. destruct E as [_ E]. apply Z.eqb_eq in E. apply X. apply G. lia.
    + apply Z.ltb_lt in E. lia.
    + rewrite Z.geb_leb in E. apply Z.leb_le in E. lia.
  - intros [[-> E0]|[E|E]].
    + apply Z.eqb_eq in E0. rewrite E0. reflexivity.
    + apply Z.ltb_lt in E. rewrite E. now rewrite orb_true_r.
    + assert ((id >=? NC_MAX_NFILES) = true) by (rewrite Z.geb_leb; apply Z.leb_le; lia). rewrite H0. now rewrite orb_true_r.
Qed.

(* the verdict for the sources as built *)
Theorem check_id_sound_current :
  if CHECK_ID_NULL_TEST then check_id_sound check_id /\ never_crashes check_id
  else ~ check_id_sound check_id /\ ~ never_crashes check_id.
Proof.
  unfold check_id.
  destruct CHECK_ID_NULL_TEST eqn:E.
  - split; [apply check_id_fixed | apply never_crashes_fixed].
  - assert (Z1 : NUMFILES_ZERO_TEST = true \/ NUMFILES_ZERO_TEST = false) by (destruct NUMFILES_ZERO_TEST; auto).
    destruct Z1 as [-> | ->].
    + split; [exact check_id_sound_refuted | exact never_crashes_refuted].
    + split.
      * intro H. specialize (H h_witness _ 0 eq_refl). vm_compute in H. destruct H as [H _]. discriminate H.
      * intro H. apply (H (h_witness ++ [EApi 0])). vm_compute. reflexivity.
Qed.

(* valid ids always work, on the code as built, whatever the switches *)
Theorem valid_ids_accepted :
  forall (h : list ev) (t : tbl) (id : Z),
    run check_id (Some tbl0) h = Some t ->
    In id (live check_id h) ->
    exists f, check_id t id = ChkOk (Some f).
Proof.
  intros h t id H L.
  rewrite <- (ids_valid_exactly_between _ check_id_honest h t id H) in L.
  pose proof (run_inv _ check_id_honest h _ _ Inv0 H) as [Ln N].
  rewrite occupied_iff in L. destruct L as [R X].
  pose proof count_zero_nth as G.
  destruct (nth (Z.to_nat id) (slots t) None) as [f|] eqn:St; [|congruence].
  exists f. unfold check_id, check_id_gen.
  assert (E1 : (NUMFILES_ZERO_TEST && (numfiles t =? 0)) = false).
  { destruct NUMFILES_ZERO_TEST; [|reflexivity]. cbn. apply Z.eqb_neq. intro E0.
    assert (nth (Z.to_nat id) (slots t) None = None) by (apply G; lia). congruence. }
  assert (E2 : (id <? 0) = false) by (apply Z.ltb_ge; lia).
  assert (E3 : (id >=? NC_MAX_NFILES) = false) by (rewrite Z.geb_leb; apply Z.leb_gt; lia).
  rewrite E1, E2, E3, St. cbn [orb is_none]. rewrite andb_false_r. reflexivity.
Qed.

(* ================= max_files on the concrete constant ================= *)
Fixpoint zseq (s : Z) (n : nat) : list Z := match n with O => [] | S k => s :: zseq (s + 1) k end.
Theorem max_files_exact :
  run_codes (repeat (ECreate OOk) MAXF ++ [ECreate OOk; EOpen OOk; EClose 5; ECreate OOk; ECreate OOk]) =
  map (fun i => (NC_NOERR, i)) (zseq 0 MAXF) ++
  [(NC_ENFILE, -1); (NC_ENFILE, -1); (NC_NOERR, -99); (NC_NOERR, 5); (NC_ENFILE, -1)].
Proof. vm_compute. reflexivity. Qed.

(* ================= the PNC object of a refused create/open ================= *)
Definition pnc_objects_balanced : Prop :=
  forall (h : list ev) (t : tbl), run check_id (Some tbl0) h = Some t -> Z.of_nat (heap t) = numfiles t.

Lemma heap_ge h : forall t t', Inv t -> Z.of_nat (heap t) >= numfiles t ->
  run check_id (Some t) h = Some t' -> Z.of_nat (heap t') >= numfiles t'.
Proof.
  induction h as [|e r IH]; intros t t' I G H; cbn [run] in H; [now injection H as <-|].
  cbn [step] in H. destruct (step1 check_id t e) as [[t1|] r1] eqn:St; cbn [fst] in H; [|rewrite run_none in H; discriminate].
  eapply IH; [eapply step1_inv; eauto using check_id_honest | | exact H].
  clear H IH. destruct I as [L N].
  assert (DC : forall b o t1 r1, do_create b t o = (t1, r1) -> Z.of_nat (heap t1) >= numfiles t1).
  { intros b o t2 r2 D. unfold do_create in D. destruct o as [|e0|e0]; [|injection D as <- <-; exact G|].
    - set (t0 := mkT (slots t) (numfiles t) (S (nextuid t)) (S (heap t))) in *.
      assert (I1 : Inv t0) by (split; assumption).
      destruct (new_id t0 (mkF (nextuid t) 0 0)) as [[t3 err] id2] eqn:Nw.
      destruct (new_id_spec _ _ _ _ _ I1 Nw) as [(Q & -> & -> & ->) | (Q & -> & i & F & -> & R & ->)]; cbn in D.
      + destruct b; injection D as <- <-; cbn [set_heap heap numfiles t0]; lia.
      + injection D as <- <-. cbn [heap numfiles t0]. lia.
    - set (t0 := mkT (slots t) (numfiles t) (S (nextuid t)) (S (heap t))) in *.
      assert (I1 : Inv t0) by (split; assumption).
      destruct (new_id t0 (mkF (nextuid t) 0 0)) as [[t3 err] id2] eqn:Nw.
      destruct (new_id_spec _ _ _ _ _ I1 Nw) as [(Q & -> & -> & ->) | (Q & -> & i & F & -> & R & ->)]; cbn in D.
      + destruct b; injection D as <- <-; cbn [set_heap heap numfiles t0]; lia.
      + injection D as <- <-. cbn [set_heap del_id heap numfiles t0]. lia. }
  destruct e as [o|o|id|id|id|id]; cbn [step1] in St.
  - destruct (do_create _ t o) as [t2 r2] eqn:D. injection St as <- <-. eapply DC; eauto.
  - destruct (do_create _ t o) as [t2 r2] eqn:D. injection St as <- <-. eapply DC; eauto.
  - unfold with_id in St. destruct (check_id t id) as [|[f|]] eqn:C; try discriminate; injection St as <- <-; [exact G|].
    cbn [set_heap del_id heap numfiles]. destruct (check_id_honest _ _ _ C) as [R E].
    pose proof (count_occ_set_none _ _ _ (eq_sym E)). lia.
  - unfold with_id in St. destruct (check_id t id) as [|[f|]] eqn:C; try discriminate; injection St as <- <-; [exact G|].
    cbn [set_heap del_id heap numfiles]. destruct (check_id_honest _ _ _ C) as [R E].
    pose proof (count_occ_set_none _ _ _ (eq_sym E)). lia.
  - unfold with_id in St. destruct (check_id t id) as [|[f|]] eqn:C; try discriminate; injection St as <- <-; exact G.
  - unfold with_id in St. destruct (check_id t id) as [|[f|]] eqn:C; try discriminate; injection St as <- <-; exact G.
Qed.

(* never fewer objects than files (no double free), and exactly as many as long as no create/open was refused
   with NC_ENFILE *)
Theorem pnc_objects_never_fewer :
  forall (h : list ev) (t : tbl), run check_id (Some tbl0) h = Some t -> Z.of_nat (heap t) >= numfiles t.
Proof. intros h t H. eapply heap_ge; [exact Inv0 | cbn; lia | exact H]. Qed.

Lemma balanced_refuted_create : ncmpi_create_ENFILE_FREES_PNC = false -> ~ pnc_objects_balanced.
Proof.
  intros E H. first [discriminate E |
    specialize (H (repeat (ECreate OOk) (S MAXF))); vm_compute in H;
    match type of H with forall t, Some ?x = Some t -> _ => specialize (H x eq_refl) end; discriminate H].
Qed.
Lemma balanced_refuted_open : ncmpi_open_ENFILE_FREES_PNC = false -> ~ pnc_objects_balanced.
Proof.
  intros E H. first [discriminate E |
    specialize (H (repeat (EOpen OOk) (S MAXF))); vm_compute in H;
    match type of H with forall t, Some ?x = Some t -> _ => specialize (H x eq_refl) end; discriminate H].
Qed.

(* exact accounting of one step: the number of PNC objects without a table slot changes only when a create/open is
   refused with NC_ENFILE by a function that does not free the object *)
Definition not_enfile (r : res) : Prop := match r with RRc rc _ => rc <> NC_ENFILE | RCrash => True end.
Lemma heap_step t e t1 r1 :
  Inv t -> Z.of_nat (heap t) >= numfiles t -> step1 check_id t e = (Some t1, r1) ->
  not_enfile r1 \/ (ncmpi_create_ENFILE_FREES_PNC = true /\ ncmpi_open_ENFILE_FREES_PNC = true) ->
  Z.of_nat (heap t1) - numfiles t1 = Z.of_nat (heap t) - numfiles t.
Proof.
  intros [L N] G St Hc.
  assert (DC : forall b o t2 r2, do_create b t o = (t2, r2) -> (not_enfile r2 \/ b = true) ->
                                 Z.of_nat (heap t2) - numfiles t2 = Z.of_nat (heap t) - numfiles t).
  { intros b o t2 r2 D Hb. unfold do_create in D. destruct o as [|e0|e0]; [|injection D as <- <-; reflexivity|].
    - set (t0 := mkT (slots t) (numfiles t) (S (nextuid t)) (S (heap t))) in *.
      assert (I1 : Inv t0) by (split; assumption).
      destruct (new_id t0 (mkF (nextuid t) 0 0)) as [[t3 err] id2] eqn:Nw.
      destruct (new_id_spec _ _ _ _ _ I1 Nw) as [(Q & -> & -> & ->) | (Q & -> & i & F & -> & R & ->)]; cbn in D.
      + destruct b; injection D as <- <-; cbn [set_heap heap numfiles t0]; [lia|].
        destruct Hb as [Hb|Hb]; [exfalso; apply Hb; reflexivity | discriminate Hb].
      + injection D as <- <-. cbn [heap numfiles t0]. lia.
    - set (t0 := mkT (slots t) (numfiles t) (S (nextuid t)) (S (heap t))) in *.
      assert (I1 : Inv t0) by (split; assumption).
      destruct (new_id t0 (mkF (nextuid t) 0 0)) as [[t3 err] id2] eqn:Nw.
      destruct (new_id_spec _ _ _ _ _ I1 Nw) as [(Q & -> & -> & ->) | (Q & -> & i & F & -> & R & ->)]; cbn in D.
      + destruct b; injection D as <- <-; cbn [set_heap heap numfiles t0]; [lia|].
        destruct Hb as [Hb|Hb]; [exfalso; apply Hb; reflexivity | discriminate Hb].
      + injection D as <- <-. cbn [set_heap del_id heap numfiles t0]. lia. }
  destruct e as [o|o|id|id|id|id]; cbn [step1] in St.
  - destruct (do_create _ t o) as [t2 r2] eqn:D. injection St as <- <-. eapply DC; [exact D|].
    destruct Hc as [Hc|[Hc1 Hc2]]; [left; exact Hc | right; assumption].
  - destruct (do_create _ t o) as [t2 r2] eqn:D. injection St as <- <-. eapply DC; [exact D|].
    destruct Hc as [Hc|[Hc1 Hc2]]; [left; exact Hc | right; assumption].
  - unfold with_id in St. destruct (check_id t id) as [|[f|]] eqn:C; try discriminate; injection St as <- <-; [reflexivity|].
    cbn [set_heap del_id heap numfiles]. destruct (check_id_honest _ _ _ C) as [R E].
    pose proof (count_occ_set_none _ _ _ (eq_sym E)). lia.
  - unfold with_id in St. destruct (check_id t id) as [|[f|]] eqn:C; try discriminate; injection St as <- <-; [reflexivity|].
    cbn [set_heap del_id heap numfiles]. destruct (check_id_honest _ _ _ C) as [R E].
    pose proof (count_occ_set_none _ _ _ (eq_sym E)). lia.
  - unfold with_id in St. destruct (check_id t id) as [|[f|]] eqn:C; try discriminate; injection St as <- <-; reflexivity.
  - unfold with_id in St. destruct (check_id t id) as [|[f|]] eqn:C; try discriminate; injection St as <- <-; reflexivity.
Qed.

Lemma heap_run h : forall t t',
  Inv t -> Z.of_nat (heap t) >= numfiles t -> run check_id (Some t) h = Some t' ->
  Forall not_enfile (run_res check_id (Some t) h) \/
    (ncmpi_create_ENFILE_FREES_PNC = true /\ ncmpi_open_ENFILE_FREES_PNC = true) ->
  Z.of_nat (heap t') - numfiles t' = Z.of_nat (heap t) - numfiles t.
Proof.
  induction h as [|e r IH]; intros t t' I G H Hc; cbn [run run_res] in *; [now injection H as <-|].
  cbn [step] in *. destruct (step1 check_id t e) as [[t1|] r1] eqn:St; cbn [fst snd] in *; [|rewrite run_none in H; discriminate].
  assert (I1 : Inv t1) by (eapply step1_inv; eauto using check_id_honest).
  assert (S1 : Z.of_nat (heap t1) - numfiles t1 = Z.of_nat (heap t) - numfiles t).
  { eapply heap_step; [exact I | exact G | exact St |].
    destruct Hc as [Hc|Hc]; [left; now inversion Hc | right; exact Hc]. }
  rewrite <- S1. apply IH; [exact I1 | lia | exact H |].
  destruct Hc as [Hc|Hc]; [left; now inversion Hc | right; exact Hc].
Qed.

(* as long as no create/open was refused with NC_ENFILE, there are exactly as many PNC objects as open files *)
Theorem pnc_objects_balanced_partial :
  forall (h : list ev) (t : tbl),
    run check_id (Some tbl0) h = Some t ->
    Forall not_enfile (run_res check_id (Some tbl0) h) ->
    Z.of_nat (heap t) = numfiles t.
Proof.
  intros h t H F. pose proof (heap_run h tbl0 t Inv0) as G. cbn [tbl0 heap numfiles] in G.
  specialize (G ltac:(lia) H (or_introl F)). lia.
Qed.

Theorem pnc_objects_balanced_current :
  if ncmpi_create_ENFILE_FREES_PNC && ncmpi_open_ENFILE_FREES_PNC then pnc_objects_balanced else ~ pnc_objects_balanced.
Proof.
  destruct ncmpi_create_ENFILE_FREES_PNC eqn:E1; cbn [andb].
  - destruct ncmpi_open_ENFILE_FREES_PNC eqn:E2.
    + intros h t H. pose proof (heap_run h tbl0 t Inv0) as G. cbn [tbl0 heap numfiles] in G.
      specialize (G ltac:(lia) H (or_intror (conj E1 E2))). lia.
    + exact (balanced_refuted_open E2).
  - exact (balanced_refuted_create E1).
Qed.

Example pnc_objects_balanced_ex :
  Forall not_enfile (run_res check_id (Some tbl0) [ECreate OOk; EOpen (ODriver NC_ENOENT); ECreate (ODriver NC_EEXIST); EClose 0]) /\
  final_heap [ECreate OOk; EOpen (ODriver NC_ENOENT); ECreate (ODriver NC_EEXIST); EClose 0] = 0.
Proof. split; [vm_compute; repeat constructor; discriminate | vm_compute; reflexivity]. Qed.

(* satisfiable hypotheses of the main theorems *)
Example ids_valid_ex :
  live check_id [ECreate OOk; ECreate OOk; EOpen (OEarly NC_ENOENT); ECreate (ODriver NC_EEXIST); EClose 0; EOpen OOk; EPost 1; EClose 1] = [0].
Proof. vm_compute. reflexivity. Qed.
Example close_pending_ex : run_codes [ECreate OOk; EPost 0; EClose 0; EApi 0] = [(NC_NOERR, 0); (NC_NOERR, -99); (NC_EPENDING, -99); (NC_EBADID, -99)].
Proof. vm_compute. reflexivity. Qed.

(* the translator recognised the exact text of new_id_PNCList and del_from_PNCList that Files.new_id / del_id mirror *)
Lemma table_code_shape : NEW_ID_SHAPE_OK = true /\ DEL_ID_SHAPE_OK = true.
Proof. split; reflexivity. Qed.

(* ================= the allocator always finds a slot while the table is not full ================= *)
(* what the property needs of new_id_PNCList (it does NOT need the slot to be the first free one): *)
Definition allocator_ok (alloc : tbl -> fobj -> tbl * Z * Z) : Prop :=
  forall (h : list ev) (t : tbl) (p : fobj),
    run check_id (Some tbl0) h = Some t ->
    numfiles t < NC_MAX_NFILES ->
    exists t' id, alloc t p = (t', NC_NOERR, id) /\ (0 <= id < NC_MAX_NFILES) /\ (occupied t id = false) /\
                  (nth (Z.to_nat id) (slots t') None = Some p) /\ (numfiles t' = numfiles t + 1).

Theorem new_id_finds_free_slot : allocator_ok new_id.
Proof.
  intros h t p H Hn. pose proof (run_inv _ check_id_honest h _ _ Inv0 H) as I.
  destruct (new_id t p) as [[t' err] id] eqn:N.
  destruct (new_id_spec _ _ _ _ _ I N) as [(Q & _) | (Q & -> & i & F & -> & R & ->)]; [lia|].
  destruct (first_free_some _ _ F) as (Hi & Hnone & _).
  exists (mkT (set_nth i (Some p) (slots t)) (numfiles t + 1) (nextuid t) (heap t)), (Z.of_nat i).
  split; [reflexivity|]. split; [exact R|]. split.
  - destruct (occupied t (Z.of_nat i)) eqn:O; [|reflexivity]. rewrite occupied_iff in O. destruct O as [_ X].
    rewrite Nat2Z.id in X. now elim X.
  - split; [|reflexivity]. cbn [slots]. rewrite Nat2Z.id. now apply nth_set_nth_eq.
Qed.

(* the scan that starts at pnc_numfiles: fill the table, close id 0, allocate -> NC_NOERR with id -1, nothing entered *)
Theorem new_id_from_numfiles_refuted : ~ allocator_ok new_id_from_numfiles.
Proof.
  intro H.
  remember (run check_id (Some tbl0) (repeat (ECreate OOk) MAXF ++ [EClose 0])) as r eqn:Er.
  assert (G : match r with
              | Some t => (numfiles t <? NC_MAX_NFILES) && (snd (new_id_from_numfiles t (mkF 0 0 0)) =? -1)
              | None => false
              end = true).
  { subst r. vm_compute. reflexivity. }
  destruct r as [t|]; [|discriminate G].
  apply andb_prop in G. destruct G as [G1 G2]. apply Z.ltb_lt in G1. apply Z.eqb_eq in G2.
  destruct (H _ t (mkF 0 0 0) (eq_sym Er) G1) as (t' & id & E & R & _).
  rewrite E in G2. cbn [snd] in G2. lia.
Qed.
