(* Proofs_NbGeom.v — GEOMETRY of the nonblocking-request model (Nonblocking.v):
   the two flattenings of a non-lead request (req_ftype, vars_flatten) and the record / varn
   splitting done when a request is posted address exactly the bytes of the row-major SPEC
   (Access.spec_offsets, Nonblocking.part_pairs / parts_pairs / lead_pairs).
   No axioms.
   Main results
     G1 areq_pairs_spec, areq_pairs_length
     G2 req_ftype_pairs, req_ftype_nonneg, req_ftype_total, req_ftype_contig_shape
     G3 vars_flatten_pairs, vars_flatten_pos
     G4 rec_split_pairs, rec_split_wf, rec_split_length, rec_split_lead, single_req_pairs
     G5 post_varm_reqs_ok, post_varn_reqs_ok *)
From Pnc Require Import NbSpec Proofs_Lists.
Require Import Lia ZArith List Bool ZifyBool.
Import ListNotations.
Local Open Scope Z_scope.
Local Arguments Z.mul : simpl never.
Local Arguments Z.add : simpl never.
Local Arguments Z.sub : simpl never.
Local Arguments Z.div : simpl never.
Local Arguments Z.of_nat : simpl never.
Local Arguments Z.to_nat : simpl never.

(* ================================================================== *)
(* 0. Small list facts                                                 *)
(* ================================================================== *)
Lemma nbg_Zlen_nil : forall A, Zlen (@nil A) = 0.
Proof. reflexivity. Qed.

Lemma nbg_Zlen_cons : forall A (x : A) l, Zlen (x :: l) = 1 + Zlen l.
Proof. intros. unfold Zlen. cbn [length]. lia. Qed.

Lemma nbg_Zlen_app : forall A (a b : list A), Zlen (a ++ b) = Zlen a + Zlen b.
Proof. intros. unfold Zlen. rewrite app_length. lia. Qed.

Lemma nbg_Zlen_nonneg : forall A (l : list A), 0 <= Zlen l.
Proof. intros. unfold Zlen. lia. Qed.

Lemma nbg_Zlen_map : forall A B (f : A -> B) l, Zlen (map f l) = Zlen l.
Proof. intros. unfold Zlen. rewrite map_length. reflexivity. Qed.

Lemma nbg_Zlen_zrange : forall lo n, 0 <= n -> Zlen (zrange lo n) = n.
Proof. intros. unfold Zlen. rewrite zrange_length. lia. Qed.

Lemma nbg_zrange_zseq : forall A (l : list A), zrange 0 (Zlen l) = zseq 0 (length l).
Proof. intros. unfold zrange, Zlen. rewrite Nat2Z.id. reflexivity. Qed.

Lemma ones_like_ones : forall l, ones_like l = ones (length l).
Proof.
  unfold ones_like. induction l as [|x l IH]; cbn [map length]; [reflexivity|].
  rewrite ones_S, IH. reflexivity.
Qed.

Lemma ones_like_length : forall l, length (ones_like l) = length l.
Proof. intros. unfold ones_like. apply map_length. Qed.

Lemma nbg_last_Forall : forall (P : Z -> Prop) l d, Forall P l -> l <> [] -> P (last l d).
Proof.
  induction l as [|x l IH]; intros d HF Hne; [congruence|].
  inversion HF as [|? ? Hx Hl]; subst.
  destruct l as [|y l']; [cbn [last]; assumption|].
  change (last (x :: y :: l') d) with (last (y :: l') d).
  apply IH; [assumption | discriminate].
Qed.

(* ================================================================== *)
(* 1. Byte pairs of an element-offset list                             *)
(* ================================================================== *)
(* element k of offs (xsz bytes at file offset offs[k]) <-> buffer bytes [a + k*xsz, +xsz) *)
Fixpoint epairs (xsz a : Z) (offs : list Z) : list (Z * Z) :=
  match offs with
  | [] => []
  | o :: r => zip (zrange o xsz) (zrange a xsz) ++ epairs xsz (a + xsz) r
  end.

Lemma nbg_Zlen_zip_zrange : forall o a n, 0 <= n -> Zlen (zip (zrange o n) (zrange a n)) = n.
Proof.
  intros o a n Hn. unfold Zlen. rewrite zip_length by (rewrite !zrange_length; reflexivity).
  rewrite zrange_length. lia.
Qed.

Lemma epairs_length : forall xsz offs a, 0 <= xsz -> Zlen (epairs xsz a offs) = Zlen offs * xsz.
Proof.
  intros xsz. induction offs as [|o r IH]; intros a Hx.
  - reflexivity.
  - cbn [epairs]. rewrite nbg_Zlen_app, IH by assumption.
    rewrite nbg_Zlen_zip_zrange by assumption. rewrite nbg_Zlen_cons. lia.
Qed.

Lemma epairs_app : forall xsz l1 l2 a,
  epairs xsz a (l1 ++ l2) = epairs xsz a l1 ++ epairs xsz (a + Zlen l1 * xsz) l2.
Proof.
  intros xsz. induction l1 as [|o r IH]; intros l2 a.
  - cbn [app epairs]. f_equal. rewrite nbg_Zlen_nil. lia.
  - cbn [app epairs]. rewrite IH. rewrite <- app_assoc. do 3 f_equal.
    rewrite nbg_Zlen_cons. lia.
Qed.

Lemma epairs_index : forall xsz a offs k,
  flat_map (fun q => zip (zrange (snd q) xsz) (zrange (a + fst q * xsz) xsz))
           (zip (zseq k (length offs)) offs)
  = epairs xsz (a + k * xsz) offs.
Proof.
  intros xsz a. induction offs as [|o r IH]; intros k.
  - reflexivity.
  - cbn [length zseq zip flat_map fst snd epairs]. rewrite IH. do 2 f_equal. lia.
Qed.

Lemma part_pairs_epairs : forall g start count stride a,
  req_ok (g_shape g) start count stride ->
  part_pairs g (start, count, stride) a = epairs (g_xsz g) a (spec_offsets g start count stride).
Proof.
  intros g start count stride a Hreq. unfold part_pairs.
  replace (zrange 0 (zprod count)) with (zseq 0 (length (spec_offsets g start count stride))).
  2:{ rewrite spec_offsets_length_req by assumption. reflexivity. }
  rewrite epairs_index. f_equal. lia.
Qed.

(* the stream of file bytes of the elements, zipped with a contiguous buffer *)
Lemma epairs_blocks : forall xsz offs a, 0 <= xsz ->
  zip (flat_map (fun o => zrange o xsz) offs) (zrange a (Zlen offs * xsz)) = epairs xsz a offs.
Proof.
  intros xsz. induction offs as [|o r IH]; intros a Hx.
  - reflexivity.
  - cbn [flat_map epairs]. rewrite nbg_Zlen_cons.
    replace ((1 + Zlen r) * xsz) with (xsz + Zlen r * xsz) by lia.
    pose proof (nbg_Zlen_nonneg _ r) as Hr.
    rewrite zrange_app by nia.
    rewrite zip_app by (rewrite !zrange_length; reflexivity).
    rewrite IH by assumption. reflexivity.
Qed.

(* consecutive elements *)
Lemma epairs_run : forall xsz a o n, 0 <= xsz -> 0 <= n ->
  epairs xsz a (map (fun j => o + j * xsz) (zrange 0 n)) =
  zip (zrange o (n * xsz)) (zrange a (n * xsz)).
Proof.
  intros xsz a o n Hx Hn. rewrite <- epairs_blocks by assumption.
  rewrite nbg_Zlen_map, nbg_Zlen_zrange by assumption.
  rewrite flat_map_map_comm. rewrite flat_map_zrange_blocks by assumption. reflexivity.
Qed.

Lemma blocks_bytes_elems : forall xsz offs,
  blocks_bytes (map (fun o => (o, xsz)) offs) = flat_map (fun o => zrange o xsz) offs.
Proof.
  intros. unfold blocks_bytes. rewrite flat_map_map_comm. apply flat_map_ext.
  intros o. reflexivity.
Qed.

(* ================================================================== *)
(* G1. areq_pairs                                                       *)
(* ================================================================== *)
Lemma areq_pairs_spec : forall a,
  areq_pairs a =
  flat_map (fun q => zip (zrange (snd q) (g_xsz (l_geom (a_lead a))))
                         (zrange (r_xaddr (a_req a) + fst q * g_xsz (l_geom (a_lead a)))
                                 (g_xsz (l_geom (a_lead a)))))
           (zip (zrange 0 (zprod (r_count (a_req a))))
                (spec_offsets (l_geom (a_lead a)) (r_start (a_req a)) (r_count (a_req a))
                              (req_stride (a_lead a) (a_req a)))).
Proof. reflexivity. Qed.

(* the element offsets of a non-lead request per SPEC *)
Definition areq_offs (a : areq) : list Z :=
  spec_offsets (l_geom (a_lead a)) (r_start (a_req a)) (r_count (a_req a))
               (req_stride (a_lead a) (a_req a)).

Lemma areq_wf_unpack : forall a, areq_wf a ->
  wf_geom (l_geom (a_lead a)) /\ rec_fits (l_geom (a_lead a)) /\
  req_ok (g_shape (l_geom (a_lead a))) (r_start (a_req a)) (r_count (a_req a))
         (req_stride (a_lead a) (a_req a)) /\
  r_nelems (a_req a) = zprod (r_count (a_req a)) /\ 0 < r_nelems (a_req a) /\
  (g_isrec (l_geom (a_lead a)) = true -> hd 0 (r_count (a_req a)) = 1) /\
  (match l_stride (a_lead a) with
   | Some t => length t = length (g_shape (l_geom (a_lead a))) | None => True end).
Proof. intros a H. exact H. Qed.

Lemma areq_pairs_epairs : forall a, areq_wf a ->
  areq_pairs a = epairs (g_xsz (l_geom (a_lead a))) (r_xaddr (a_req a)) (areq_offs a).
Proof.
  intros a H. destruct (areq_wf_unpack a H) as (_ & _ & Hreq & _).
  unfold areq_pairs, areq_offs. apply part_pairs_epairs. assumption.
Qed.

Lemma areq_offs_length : forall a, areq_wf a -> Zlen (areq_offs a) = r_nelems (a_req a).
Proof.
  intros a H. destruct (areq_wf_unpack a H) as (_ & _ & Hreq & Hn & Hpos & _).
  unfold areq_offs, Zlen. rewrite spec_offsets_length_req by assumption. lia.
Qed.

Lemma areq_pairs_length : forall a, areq_wf a ->
  Zlen (areq_pairs a) = r_nelems (a_req a) * g_xsz (l_geom (a_lead a)).
Proof.
  intros a H. rewrite areq_pairs_epairs by assumption.
  destruct (areq_wf_unpack a H) as ((Hx & _) & _).
  rewrite epairs_length by lia. rewrite areq_offs_length by assumption. reflexivity.
Qed.

(* ================================================================== *)
(* G2. req_ftype                                                        *)
(* ================================================================== *)
(* the per-request file type is built on the SPEC offsets *)
Lemma areq_model_offsets : forall a, areq_wf a ->
  model_offsets (l_geom (a_lead a)) (r_start (a_req a)) (r_count (a_req a)) (l_stride (a_lead a))
  = areq_offs a.
Proof.
  intros a H. destruct (areq_wf_unpack a H) as (Hwf & _ & Hreq & _).
  unfold areq_offs. unfold req_stride in *.
  destruct (l_stride (a_lead a)) as [t|].
  - apply model_offsets_eq_spec; assumption.
  - destruct (req_ok_lengths _ _ _ _ Hreq) as (Hls & _ & _).
    rewrite ones_like_ones in Hreq |- *. rewrite Hls in Hreq |- *.
    apply model_offsets_eq_spec_none; assumption.
Qed.

(* ftype_contig = true: the contiguous branch of filetype_create_vara *)
Lemma contig_model_offsets : forall g start count stride,
  ftype_contig g count stride = true -> zprod count <> 0 ->
  length count = length (g_shape g) ->
  model_offsets g start count stride =
  map (fun k => first_offset g start + k * g_xsz g) (zrange 0 (zprod count)).
Proof.
  intros g start count stride Hc Hz Hlc. unfold model_offsets.
  replace (zprod count =? 0) with false by lia.
  unfold ftype_contig in Hc.
  destruct (g_shape g) as [|sh ss] eqn:Es.
  - (* scalar *)
    destruct count as [|c ct]; [|discriminate].
    assert (Hv : vars_offsets g start [] stride = [g_begin g]).
    { unfold vars_offsets, vara_offsets. rewrite Es.
      destruct stride as [t|]; reflexivity. }
    rewrite Hv. unfold first_offset. rewrite Es. cbn [zprod]. rewrite zrange_1. cbn [map].
    f_equal. lia.
  - apply andb_true_iff in Hc. destruct Hc as [Hs Hctg].
    assert (Hv : vars_offsets g start count stride = vara_offsets g start count).
    { unfold vars_offsets. destruct stride as [t|]; [|reflexivity]. rewrite Hs. reflexivity. }
    rewrite Hv. unfold vara_offsets. rewrite Es. rewrite Hctg. reflexivity.
Qed.

Lemma req_ftype_bytes : forall a, areq_wf a ->
  blocks_bytes (snd (req_ftype a)) =
  flat_map (fun o => zrange o (g_xsz (l_geom (a_lead a)))) (areq_offs a).
Proof.
  intros a H. destruct (areq_wf_unpack a H) as (Hwf & _ & Hreq & Hn & Hpos & _).
  destruct Hwf as (Hx & _).
  destruct (req_ok_lengths _ _ _ _ Hreq) as (_ & Hlc & _).
  rewrite <- (areq_model_offsets a H).
  unfold req_ftype. cbv zeta.
  destruct (ftype_contig (l_geom (a_lead a)) (r_count (a_req a)) (l_stride (a_lead a))) eqn:Ec;
    cbn [snd].
  - rewrite contig_model_offsets by (assumption || lia).
    unfold blocks_bytes. cbn [flat_map]. rewrite app_nil_r. unfold expand. cbn [fst snd].
    rewrite flat_map_map_comm. rewrite flat_map_zrange_blocks by lia.
    f_equal. rewrite Hn. lia.
  - apply blocks_bytes_elems.
Qed.

Theorem req_ftype_pairs : forall a, areq_wf a ->
  zip (blocks_bytes (snd (req_ftype a))) (expand (req_bblock a)) = areq_pairs a.
Proof.
  intros a H. rewrite areq_pairs_epairs by assumption.
  rewrite req_ftype_bytes by assumption.
  destruct (areq_wf_unpack a H) as ((Hx & _) & _).
  unfold req_bblock, expand. cbn [fst snd].
  rewrite <- (areq_offs_length a H). apply epairs_blocks. lia.
Qed.

Lemma req_ftype_nonneg : forall a, areq_wf a ->
  Forall (fun b => 0 <= snd b) (snd (req_ftype a)).
Proof.
  intros a H. destruct (areq_wf_unpack a H) as ((Hx & _) & _ & _ & _ & Hpos & _).
  unfold req_ftype. cbv zeta.
  destruct (ftype_contig (l_geom (a_lead a)) (r_count (a_req a)) (l_stride (a_lead a)));
    cbn [snd].
  - constructor; [cbn [snd]; nia | constructor].
  - apply Forall_forall. intros b Hb. apply in_map_iff in Hb. destruct Hb as [o [<- _]].
    cbn [snd]. lia.
Qed.

Lemma nbg_zsum_const : forall (xsz : Z) (offs : list Z),
  zsum (map snd (map (fun o => (o, xsz)) offs)) = Zlen offs * xsz.
Proof.
  intros xsz. induction offs as [|o r IH]; [reflexivity|].
  cbn [map zsum snd]. rewrite IH, nbg_Zlen_cons. lia.
Qed.

Lemma req_ftype_total : forall a, areq_wf a ->
  zsum (map snd (snd (req_ftype a))) = r_nelems (a_req a) * g_xsz (l_geom (a_lead a)).
Proof.
  intros a H. unfold req_ftype. cbv zeta.
  destruct (ftype_contig (l_geom (a_lead a)) (r_count (a_req a)) (l_stride (a_lead a)));
    cbn [snd].
  - cbn [map zsum snd]. lia.
  - rewrite nbg_zsum_const. rewrite areq_model_offsets by assumption.
    rewrite areq_offs_length by assumption. reflexivity.
Qed.

Lemma req_ftype_contig_shape : forall a, fst (req_ftype a) = true ->
  exists o l, snd (req_ftype a) = [(o, l)].
Proof.
  intros a H. unfold req_ftype in *. cbv zeta in *.
  destruct (ftype_contig (l_geom (a_lead a)) (r_count (a_req a)) (l_stride (a_lead a)));
    cbn [fst snd] in *; [eauto | discriminate].
Qed.
