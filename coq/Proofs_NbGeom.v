(* Proofs_NbGeom.v — GEOMETRY of the nonblocking-request model (Nonblocking.v):
   the two flattenings of a non-lead request (req_ftype, vars_flatten) and the record / varn
   splitting done when a request is posted address exactly the bytes of the row-major SPEC
   (Access.spec_offsets, Nonblocking.part_pairs / parts_pairs / lead_pairs).
   No axioms.
   Main results
     G1 areq_pairs_spec, areq_pairs_length
     G2 req_ftype_pairs, req_ftype_nonneg, req_ftype_total, req_ftype_contig_shape
     G3 vars_flatten_pairs, vars_flatten_pos
     G4 rec_split_pairs, rec_split_wf, rec_split_length, rec_split_lead, single_req_pairs
     G5 post_varm_reqs_ok, post_varn_reqs_ok *)
From Pnc Require Import NbSpec Proofs_Lists.
Require Import Lia ZArith List Bool ZifyBool.
Import ListNotations.
Local Open Scope Z_scope.
Local Arguments Z.mul : simpl never.
Local Arguments Z.add : simpl never.
Local Arguments Z.sub : simpl never.
Local Arguments Z.div : simpl never.
Local Arguments Z.of_nat : simpl never.
Local Arguments Z.to_nat : simpl never.

(* ================================================================== *)
(* 0. Small list facts                                                 *)
(* ================================================================== *)
Lemma nbg_Zlen_nil : forall A, Zlen (@nil A) = 0.
Proof. reflexivity. Qed.

Lemma nbg_Zlen_cons : forall A (x : A) l, Zlen (x :: l) = 1 + Zlen l.
Proof. intros. unfold Zlen. cbn [length]. lia. Qed.

Lemma nbg_Zlen_app : forall A (a b : list A), Zlen (a ++ b) = Zlen a + Zlen b.
Proof. intros. unfold Zlen. rewrite app_length. lia. Qed.

Lemma nbg_Zlen_nonneg : forall A (l : list A), 0 <= Zlen l.
Proof. intros. unfold Zlen. lia. Qed.

Lemma nbg_Zlen_map : forall A B (f : A -> B) l, Zlen (map f l) = Zlen l.
Proof. intros. unfold Zlen. rewrite map_length. reflexivity. Qed.

Lemma nbg_Zlen_zrange : forall lo n, 0 <= n -> Zlen (zrange lo n) = n.
Proof. intros. unfold Zlen. rewrite zrange_length. lia. Qed.

Lemma nbg_zrange_zseq : forall A (l : list A), zrange 0 (Zlen l) = zseq 0 (length l).
Proof. intros. unfold zrange, Zlen. rewrite Nat2Z.id. reflexivity. Qed.

Lemma ones_like_ones : forall l, ones_like l = ones (length l).
Proof.
  unfold ones_like. induction l as [|x l IH]; cbn [map length]; [reflexivity|].
  rewrite ones_S, IH. reflexivity.
Qed.

Lemma ones_like_length : forall l, length (ones_like l) = length l.
Proof. intros. unfold ones_like. apply map_length. Qed.

Lemma nbg_last_Forall : forall (P : Z -> Prop) l d, Forall P l -> l <> [] -> P (last l d).
Proof.
  induction l as [|x l IH]; intros d HF Hne; [congruence|].
  inversion HF as [|? ? Hx Hl]; subst.
  destruct l as [|y l']; [cbn [last]; assumption|].
  change (last (x :: y :: l') d) with (last (y :: l') d).
  apply IH; [assumption | discriminate].
Qed.

(* ================================================================== *)
(* 1. Byte pairs of an element-offset list                             *)
(* ================================================================== *)
(* element k of offs (xsz bytes at file offset offs[k]) <-> buffer bytes [a + k*xsz, +xsz) *)
Fixpoint epairs (xsz a : Z) (offs : list Z) : list (Z * Z) :=
  match offs with
  | [] => []
  | o :: r => zip (zrange o xsz) (zrange a xsz) ++ epairs xsz (a + xsz) r
  end.

Lemma nbg_Zlen_zip_zrange : forall o a n, 0 <= n -> Zlen (zip (zrange o n) (zrange a n)) = n.
Proof.
  intros o a n Hn. unfold Zlen. rewrite zip_length by (rewrite !zrange_length; reflexivity).
  rewrite zrange_length. lia.
Qed.

Lemma epairs_length : forall xsz offs a, 0 <= xsz -> Zlen (epairs xsz a offs) = Zlen offs * xsz.
Proof.
  intros xsz. induction offs as [|o r IH]; intros a Hx.
  - reflexivity.
  - cbn [epairs]. rewrite nbg_Zlen_app, IH by assumption.
    rewrite nbg_Zlen_zip_zrange by assumption. rewrite nbg_Zlen_cons. lia.
Qed.

Lemma epairs_app : forall xsz l1 l2 a,
  epairs xsz a (l1 ++ l2) = epairs xsz a l1 ++ epairs xsz (a + Zlen l1 * xsz) l2.
Proof.
  intros xsz. induction l1 as [|o r IH]; intros l2 a.
  - cbn [app epairs]. f_equal. rewrite nbg_Zlen_nil. lia.
  - cbn [app epairs]. rewrite IH. rewrite <- app_assoc. do 3 f_equal.
    rewrite nbg_Zlen_cons. lia.
Qed.

Lemma epairs_index : forall xsz a offs k,
  flat_map (fun q => zip (zrange (snd q) xsz) (zrange (a + fst q * xsz) xsz))
           (zip (zseq k (length offs)) offs)
  = epairs xsz (a + k * xsz) offs.
Proof.
  intros xsz a. induction offs as [|o r IH]; intros k.
  - reflexivity.
  - cbn [length zseq zip flat_map fst snd epairs]. rewrite IH. do 2 f_equal. lia.
Qed.

Lemma part_pairs_epairs : forall g start count stride a,
  req_ok (g_shape g) start count stride ->
  part_pairs g (start, count, stride) a = epairs (g_xsz g) a (spec_offsets g start count stride).
Proof.
  intros g start count stride a Hreq. unfold part_pairs.
  replace (zrange 0 (zprod count)) with (zseq 0 (length (spec_offsets g start count stride))).
  2:{ rewrite spec_offsets_length_req by assumption. reflexivity. }
  rewrite epairs_index. f_equal. lia.
Qed.

(* the stream of file bytes of the elements, zipped with a contiguous buffer *)
Lemma epairs_blocks : forall xsz offs a, 0 <= xsz ->
  zip (flat_map (fun o => zrange o xsz) offs) (zrange a (Zlen offs * xsz)) = epairs xsz a offs.
Proof.
  intros xsz. induction offs as [|o r IH]; intros a Hx.
  - reflexivity.
  - cbn [flat_map epairs]. rewrite nbg_Zlen_cons.
    replace ((1 + Zlen r) * xsz) with (xsz + Zlen r * xsz) by lia.
    pose proof (nbg_Zlen_nonneg _ r) as Hr.
    rewrite zrange_app by nia.
    rewrite zip_app by (rewrite !zrange_length; reflexivity).
    rewrite IH by assumption. reflexivity.
Qed.

(* consecutive elements *)
Lemma epairs_run : forall xsz a o n, 0 <= xsz -> 0 <= n ->
  epairs xsz a (map (fun j => o + j * xsz) (zrange 0 n)) =
  zip (zrange o (n * xsz)) (zrange a (n * xsz)).
Proof.
  intros xsz a o n Hx Hn. rewrite <- epairs_blocks by assumption.
  rewrite nbg_Zlen_map, nbg_Zlen_zrange by assumption.
  rewrite flat_map_map_comm. rewrite flat_map_zrange_blocks by assumption. reflexivity.
Qed.

Lemma blocks_bytes_elems : forall xsz offs,
  blocks_bytes (map (fun o => (o, xsz)) offs) = flat_map (fun o => zrange o xsz) offs.
Proof.
  intros. unfold blocks_bytes. rewrite flat_map_map_comm. apply flat_map_ext.
  intros o. reflexivity.
Qed.

(* ================================================================== *)
(* G1. areq_pairs                                                       *)
(* ================================================================== *)
Lemma areq_pairs_spec : forall a,
  areq_pairs a =
  flat_map (fun q => zip (zrange (snd q) (g_xsz (l_geom (a_lead a))))
                         (zrange (r_xaddr (a_req a) + fst q * g_xsz (l_geom (a_lead a)))
                                 (g_xsz (l_geom (a_lead a)))))
           (zip (zrange 0 (zprod (r_count (a_req a))))
                (spec_offsets (l_geom (a_lead a)) (r_start (a_req a)) (r_count (a_req a))
                              (req_stride (a_lead a) (a_req a)))).
Proof. reflexivity. Qed.

(* the element offsets of a non-lead request per SPEC *)
Definition areq_offs (a : areq) : list Z :=
  spec_offsets (l_geom (a_lead a)) (r_start (a_req a)) (r_count (a_req a))
               (req_stride (a_lead a) (a_req a)).

Lemma areq_wf_unpack : forall a, areq_wf a ->
  wf_geom (l_geom (a_lead a)) /\ rec_fits (l_geom (a_lead a)) /\
  req_ok (g_shape (l_geom (a_lead a))) (r_start (a_req a)) (r_count (a_req a))
         (req_stride (a_lead a) (a_req a)) /\
  r_nelems (a_req a) = zprod (r_count (a_req a)) /\ 0 < r_nelems (a_req a) /\
  (g_isrec (l_geom (a_lead a)) = true -> hd 0 (r_count (a_req a)) = 1) /\
  (match l_stride (a_lead a) with
   | Some t => length t = length (g_shape (l_geom (a_lead a))) | None => True end).
Proof. intros a H. exact H. Qed.

Lemma areq_pairs_epairs : forall a, areq_wf a ->
  areq_pairs a = epairs (g_xsz (l_geom (a_lead a))) (r_xaddr (a_req a)) (areq_offs a).
Proof.
  intros a H. destruct (areq_wf_unpack a H) as (_ & _ & Hreq & _).
  unfold areq_pairs, areq_offs. apply part_pairs_epairs. assumption.
Qed.

Lemma areq_offs_length : forall a, areq_wf a -> Zlen (areq_offs a) = r_nelems (a_req a).
Proof.
  intros a H. destruct (areq_wf_unpack a H) as (_ & _ & Hreq & Hn & Hpos & _).
  unfold areq_offs, Zlen. rewrite spec_offsets_length_req by assumption. lia.
Qed.

Lemma areq_pairs_length : forall a, areq_wf a ->
  Zlen (areq_pairs a) = r_nelems (a_req a) * g_xsz (l_geom (a_lead a)).
Proof.
  intros a H. rewrite areq_pairs_epairs by assumption.
  destruct (areq_wf_unpack a H) as ((Hx & _) & _).
  rewrite epairs_length by lia. rewrite areq_offs_length by assumption. reflexivity.
Qed.

(* ================================================================== *)
(* G2. req_ftype                                                        *)
(* ================================================================== *)
(* the per-request file type is built on the SPEC offsets *)
Lemma areq_model_offsets : forall a, areq_wf a ->
  model_offsets (l_geom (a_lead a)) (r_start (a_req a)) (r_count (a_req a)) (l_stride (a_lead a))
  = areq_offs a.
Proof.
  intros a H. destruct (areq_wf_unpack a H) as (Hwf & _ & Hreq & _).
  unfold areq_offs. unfold req_stride in *.
  destruct (l_stride (a_lead a)) as [t|].
  - apply model_offsets_eq_spec; assumption.
  - destruct (req_ok_lengths _ _ _ _ Hreq) as (Hls & _ & _).
    rewrite ones_like_ones in Hreq |- *. rewrite Hls in Hreq |- *.
    apply model_offsets_eq_spec_none; assumption.
Qed.

(* ftype_contig = true: the contiguous branch of filetype_create_vara *)
Lemma contig_model_offsets : forall g start count stride,
  ftype_contig g count stride = true -> zprod count <> 0 ->
  length count = length (g_shape g) ->
  model_offsets g start count stride =
  map (fun k => first_offset g start + k * g_xsz g) (zrange 0 (zprod count)).
Proof.
  intros g start count stride Hc Hz Hlc. unfold model_offsets.
  replace (zprod count =? 0) with false by lia.
  unfold ftype_contig in Hc.
  destruct (g_shape g) as [|sh ss] eqn:Es.
  - (* scalar *)
    destruct count as [|c ct]; [|discriminate].
    assert (Hv : vars_offsets g start [] stride = [g_begin g]).
    { unfold vars_offsets, vara_offsets. rewrite Es.
      destruct stride as [t|]; reflexivity. }
    rewrite Hv. unfold first_offset. rewrite Es. cbn [zprod]. rewrite zrange_1. cbn [map].
    f_equal. lia.
  - apply andb_true_iff in Hc. destruct Hc as [Hs Hctg].
    assert (Hv : vars_offsets g start count stride = vara_offsets g start count).
    { unfold vars_offsets. destruct stride as [t|]; [|reflexivity]. rewrite Hs. reflexivity. }
    rewrite Hv. unfold vara_offsets. rewrite Es. rewrite Hctg. reflexivity.
Qed.

Lemma req_ftype_bytes : forall a, areq_wf a ->
  blocks_bytes (snd (req_ftype a)) =
  flat_map (fun o => zrange o (g_xsz (l_geom (a_lead a)))) (areq_offs a).
Proof.
  intros a H. destruct (areq_wf_unpack a H) as (Hwf & _ & Hreq & Hn & Hpos & _).
  destruct Hwf as (Hx & _).
  destruct (req_ok_lengths _ _ _ _ Hreq) as (_ & Hlc & _).
  rewrite <- (areq_model_offsets a H).
  unfold req_ftype. cbv zeta.
  destruct (ftype_contig (l_geom (a_lead a)) (r_count (a_req a)) (l_stride (a_lead a))) eqn:Ec;
    cbn [snd].
  - rewrite contig_model_offsets by (assumption || lia).
    unfold blocks_bytes. cbn [flat_map]. rewrite app_nil_r. unfold expand. cbn [fst snd].
    rewrite flat_map_map_comm. rewrite flat_map_zrange_blocks by lia.
    f_equal. rewrite Hn. lia.
  - apply blocks_bytes_elems.
Qed.

Theorem req_ftype_pairs : forall a, areq_wf a ->
  zip (blocks_bytes (snd (req_ftype a))) (expand (req_bblock a)) = areq_pairs a.
Proof.
  intros a H. rewrite areq_pairs_epairs by assumption.
  rewrite req_ftype_bytes by assumption.
  destruct (areq_wf_unpack a H) as ((Hx & _) & _).
  unfold req_bblock, expand. cbn [fst snd].
  rewrite <- (areq_offs_length a H). apply epairs_blocks. lia.
Qed.

Lemma req_ftype_nonneg : forall a, areq_wf a ->
  Forall (fun b => 0 <= snd b) (snd (req_ftype a)).
Proof.
  intros a H. destruct (areq_wf_unpack a H) as ((Hx & _) & _ & _ & _ & Hpos & _).
  unfold req_ftype. cbv zeta.
  destruct (ftype_contig (l_geom (a_lead a)) (r_count (a_req a)) (l_stride (a_lead a)));
    cbn [snd].
  - constructor; [cbn [snd]; nia | constructor].
  - apply Forall_forall. intros b Hb. apply in_map_iff in Hb. destruct Hb as [o [<- _]].
    cbn [snd]. lia.
Qed.

Lemma nbg_zsum_const : forall (xsz : Z) (offs : list Z),
  zsum (map snd (map (fun o => (o, xsz)) offs)) = Zlen offs * xsz.
Proof.
  intros xsz. induction offs as [|o r IH]; [reflexivity|].
  cbn [map zsum snd]. rewrite IH, nbg_Zlen_cons. lia.
Qed.

Lemma req_ftype_total : forall a, areq_wf a ->
  zsum (map snd (snd (req_ftype a))) = r_nelems (a_req a) * g_xsz (l_geom (a_lead a)).
Proof.
  intros a H. unfold req_ftype. cbv zeta.
  destruct (ftype_contig (l_geom (a_lead a)) (r_count (a_req a)) (l_stride (a_lead a)));
    cbn [snd].
  - cbn [map zsum snd]. lia.
  - rewrite nbg_zsum_const. rewrite areq_model_offsets by assumption.
    rewrite areq_offs_length by assumption. reflexivity.
Qed.

Lemma req_ftype_contig_shape : forall a, fst (req_ftype a) = true ->
  exists o l, snd (req_ftype a) = [(o, l)].
Proof.
  intros a H. unfold req_ftype in *. cbv zeta in *.
  destruct (ftype_contig (l_geom (a_lead a)) (r_count (a_req a)) (l_stride (a_lead a)));
    cbn [fst snd] in *; [eauto | discriminate].
Qed.

Example req_ftype_pairs_example :
  let l := mklead 0 gf3 (Some [2; 2; 3]) 0 1 (-1) false false (-1) 5000 12 None 0
                  [([1; 0; 2], [2; 3; 2], [2; 2; 3])] in
  let a := mkareq (mkreq 0 [1; 0; 2] [2; 3; 2] 12 5000) l 0 0 in
  areq_wf a /\ fst (req_ftype a) = false /\
  zip (blocks_bytes (snd (req_ftype a))) (expand (req_bblock a)) = areq_pairs a.
Proof.
  cbv zeta. split; [|split; vm_compute; reflexivity].
  unfold areq_wf. cbn [a_lead a_req l_geom l_stride r_start r_count r_nelems req_stride].
  refine (conj gf3_wf (conj _ (conj gf3_req (conj _ (conj _ (conj _ _)))))).
  - intros H. vm_compute in H. discriminate.
  - vm_compute. reflexivity.
  - lia.
  - intros H. vm_compute in H. discriminate.
  - reflexivity.
Qed.

Example req_ftype_pairs_example_contig :
  (* one record of the record variable gr3, a contiguous piece of it *)
  let l := mklead 0 gr3 None 0 1 6 false false (-1) 7000 8 None 0
                  [([5; 1; 0], [1; 2; 4], [1; 1; 1])] in
  let a := mkareq (mkreq 0 [5; 1; 0] [1; 2; 4] 8 7000) l 0 0 in
  areq_wf a /\ fst (req_ftype a) = true /\
  zip (blocks_bytes (snd (req_ftype a))) (expand (req_bblock a)) = areq_pairs a.
Proof.
  cbv zeta. split; [|split; vm_compute; reflexivity].
  unfold areq_wf. cbn [a_lead a_req l_geom l_stride r_start r_count r_nelems].
  destruct gr3_wf as [Hwf Hfit].
  refine (conj Hwf (conj Hfit (conj _ (conj _ (conj _ (conj _ I)))))).
  - unfold req_stride. cbn [l_stride r_start ones_like map gr3 g_shape req_ok dims_ok]. lia.
  - vm_compute. reflexivity.
  - lia.
  - intros _. reflexivity.
Qed.

(* ================================================================== *)
(* G3. vars_flatten                                                     *)
(* ================================================================== *)
Lemma stride_flatten_snd : forall g s c t,
  snd (stride_flatten g s c t) = if last t 1 =? 1 then last c 0 else 1.
Proof. reflexivity. Qed.

(* stride_flatten + expansion of every block = SPEC, for a fixed-size variable and ANY stride
   (Proofs_Access.strided_path needs a truly strided request only to exclude the 1-D record
   variable) *)
Lemma strided_path_fixed : forall g start count stride,
  g_isrec g = false -> g_shape g <> [] ->
  length start = length (g_shape g) -> length count = length (g_shape g) ->
  length stride = length (g_shape g) ->
  flat_map (fun d => map (fun k => g_begin g + d + k * g_xsz g)
                         (zrange 0 (snd (stride_flatten g start count stride))))
           (fst (stride_flatten g start count stride))
  = spec_offsets g start count stride.
Proof.
  intros g start count stride Hnr Hne Hls Hlc Hlt.
  unfold spec_offsets.
  rewrite (map_ext _ _ (elem_off_dot g)).
  unfold stride_flatten. cbv zeta. cbn [fst snd]. fold (g_units g).
  assert (Hlu : length (g_units g) = length (g_shape g)) by apply dim_units_length.
  assert (Hul : last stride 1 = 1 -> last (g_units g) (g_xsz g) = g_xsz g).
  { intros _. apply last_g_units; [right; assumption | assumption]. }
  remember (g_units g) as units eqn:Eu.
  destruct (snoc_cases _ start) as [->|[so [sl ->]]];
    [destruct (g_shape g); [congruence | discriminate]|].
  destruct (snoc_cases _ count) as [->|[co [cl ->]]];
    [destruct (g_shape g); [congruence | discriminate]|].
  destruct (snoc_cases _ stride) as [->|[to [tl_ ->]]];
    [destruct (g_shape g); [congruence | discriminate]|].
  destruct (snoc_cases _ units) as [->|[uo [ul ->]]];
    [destruct (g_shape g); [congruence | discriminate]|].
  rewrite !app_length in *. cbn [length] in *.
  rewrite !removelast_snoc, !last_snoc in *.
  apply flatten_core; [lia | lia | lia | assumption].
Qed.

(* blocks of seg elements, buffer addresses consecutive *)
Lemma segs_epairs : forall xsz b L seg a0, 0 <= xsz -> 0 <= seg -> L = seg * xsz ->
  forall disps k,
  flat_map seg_pairs (map (fun p => (b + snd p, L, a0 + fst p * L))
                          (zip (zseq k (length disps)) disps))
  = epairs xsz (a0 + k * L)
           (flat_map (fun d => map (fun j => b + d + j * xsz) (zrange 0 seg)) disps).
Proof.
  intros xsz b L seg a0 Hx Hseg HL. induction disps as [|d r IH]; intros k.
  - reflexivity.
  - cbn [length zseq zip map flat_map fst snd]. rewrite IH. rewrite epairs_app. f_equal.
    + unfold seg_pairs, s_off, s_len, s_addr. cbn [fst snd].
      rewrite epairs_run by assumption. subst L. reflexivity.
    + f_equal. rewrite nbg_Zlen_map, nbg_Zlen_zrange by assumption. subst L. lia.
Qed.

(* the record-stripped request of vars_flatten *)
Definition vf_isrec (a : areq) : bool := g_isrec (l_geom (a_lead a)).
Definition vf_shape (a : areq) : list Z :=
  if vf_isrec a then tl (g_shape (l_geom (a_lead a))) else g_shape (l_geom (a_lead a)).
Definition vf_start (a : areq) : list Z :=
  if vf_isrec a then tl (r_start (a_req a)) else r_start (a_req a).
Definition vf_count (a : areq) : list Z :=
  if vf_isrec a then tl (r_count (a_req a)) else r_count (a_req a).
Definition vf_begin (a : areq) : Z :=
  g_begin (l_geom (a_lead a)) +
  (if vf_isrec a then hd 0 (r_start (a_req a)) * g_recsize (l_geom (a_lead a)) else 0).
Definition vf_stride0 (a : areq) : list Z :=
  match l_stride (a_lead a) with
  | Some t => if vf_isrec a then tl t else t
  | None => ones_like (vf_start a)
  end.
Definition vf_geom (a : areq) : geom :=
  mkgeom (vf_begin a) (g_xsz (l_geom (a_lead a))) (vf_shape a) 0 0.

Lemma vars_flatten_unfold : forall a,
  vars_flatten a =
  match vf_shape a with
  | [] => [(vf_begin a, g_xsz (l_geom (a_lead a)), r_xaddr (a_req a))]
  | _ :: _ =>
    let sf := stride_flatten (vf_geom a) (vf_start a) (vf_count a) (vf_stride0 a) in
    map (fun p => (vf_begin a + snd p, snd sf * g_xsz (l_geom (a_lead a)),
                   r_xaddr (a_req a) + fst p * (snd sf * g_xsz (l_geom (a_lead a)))))
        (zip (zrange 0 (Zlen (fst sf))) (fst sf))
  end.
Proof.
  intros a. unfold vars_flatten, vf_geom, vf_stride0, vf_begin, vf_count, vf_start, vf_shape,
    vf_isrec. cbv zeta.
  destruct (if g_isrec (l_geom (a_lead a)) then tl (g_shape (l_geom (a_lead a)))
            else g_shape (l_geom (a_lead a))) as [|z sh']; [reflexivity|].
  match goal with
  | |- (let '(d, s) := ?X in _) = _ => destruct X as [d s]
  end.
  reflexivity.
Qed.

Lemma vf_stride0_eq : forall a,
  vf_stride0 a = if vf_isrec a then tl (req_stride (a_lead a) (a_req a))
                 else req_stride (a_lead a) (a_req a).
Proof.
  intros a. unfold vf_stride0, req_stride, vf_start.
  destruct (l_stride (a_lead a)) as [t|]; [reflexivity|].
  destruct (vf_isrec a); [|reflexivity].
  destruct (r_start (a_req a)); reflexivity.
Qed.

Lemma strip_rec : forall g s0 st ct t0 ts,
  g_isrec g = true -> wf_geom g ->
  let g' := mkgeom (g_begin g + s0 * g_recsize g) (g_xsz g) (tl (g_shape g)) 0 0 in
  g_isrec g' = false /\
  spec_offsets g (s0 :: st) (1 :: ct) (t0 :: ts) = spec_offsets g' st ct ts.
Proof.
  intros g s0 st ct t0 ts Hrec Hwf g'.
  destruct Hwf as (_ & _ & Hd & _).
  destruct (g_isrec_cons g Hrec) as [ss Hs].
  assert (Hnr : g_isrec g' = false).
  { unfold g_isrec, g'. cbn [g_shape]. rewrite Hs in Hd |- *. cbn [tl dims_wf] in Hd |- *.
    destruct Hd as [_ Hd]. destruct ss as [|s1 ss']; [reflexivity|].
    inversion Hd as [|? ? H1 _]; subst. lia. }
  split; [assumption|].
  unfold spec_offsets. cbn [req_indices]. rewrite zrange_1. cbn [flat_map].
  rewrite app_nil_r. rewrite map_map. apply map_ext. intros x.
  rewrite elem_off_rec by assumption. rewrite elem_off_fixed by assumption.
  unfold g'. cbn [g_begin g_xsz g_shape]. lia.
Qed.

Lemma strip_fixed : forall g start count stride,
  g_isrec g = false ->
  let g' := mkgeom (g_begin g + 0) (g_xsz g) (g_shape g) 0 0 in
  g_isrec g' = false /\ spec_offsets g start count stride = spec_offsets g' start count stride.
Proof.
  intros g start count stride Hnr g'.
  assert (Hnr' : g_isrec g' = false) by exact Hnr.
  split; [assumption|].
  unfold spec_offsets. apply map_ext. intros x.
  rewrite !elem_off_fixed by assumption. unfold g'. cbn [g_begin g_xsz g_shape]. lia.
Qed.

Lemma vf_spec : forall a, areq_wf a ->
  g_isrec (vf_geom a) = false /\
  length (vf_start a) = length (vf_shape a) /\
  length (vf_count a) = length (vf_shape a) /\
  length (vf_stride0 a) = length (vf_shape a) /\
  Forall (fun c => 1 <= c) (vf_count a) /\
  areq_offs a = spec_offsets (vf_geom a) (vf_start a) (vf_count a) (vf_stride0 a).
Proof.
  intros a H. destruct (areq_wf_unpack a H) as (Hwf & _ & Hreq & Hn & Hpos & Hrec & _).
  rewrite vf_stride0_eq. unfold areq_offs, vf_geom, vf_begin, vf_count, vf_start, vf_shape, vf_isrec.
  remember (req_stride (a_lead a) (a_req a)) as strd eqn:Es. clear Es.
  remember (l_geom (a_lead a)) as g eqn:Eg. clear Eg.
  remember (r_start (a_req a)) as start eqn:Est. clear Est.
  remember (r_count (a_req a)) as count eqn:Ect.
  assert (Hcp : Forall (fun c => 1 <= c) count).
  { apply zprod_nonzero_pos; [eapply req_ok_count_nonneg; eassumption | lia]. }
  clear Ect Hn Hpos.
  destruct (req_ok_lengths _ _ _ _ Hreq) as (Hls & Hlc & Hlt).
  destruct (g_isrec g) eqn:Erec.
  - specialize (Hrec eq_refl).
    destruct (g_isrec_cons g Erec) as [ss Hs].
    rewrite Hs in Hls, Hlc, Hlt. cbn [length] in Hls, Hlc, Hlt.
    destruct start as [|s0 st]; [discriminate|].
    destruct count as [|c0 ct]; [discriminate|].
    destruct strd as [|t0 ts]; [discriminate|].
    cbn [hd] in Hrec. subst c0. cbn [tl hd length] in *.
    inversion Hcp as [|? ? _ Hcp']; subst.
    destruct (strip_rec g s0 st ct t0 ts Erec Hwf) as [Hnr Hsp]. cbv zeta in Hnr, Hsp.
    rewrite Hs in *. cbn [tl length] in *.
    repeat split; try assumption; lia.
  - destruct (strip_fixed g start count strd Erec) as [Hnr Hsp]. cbv zeta in Hnr, Hsp.
    repeat split; assumption.
Qed.

Theorem vars_flatten_pairs : forall a, areq_wf a -> segs_pairs (vars_flatten a) = areq_pairs a.
Proof.
  intros a H. rewrite areq_pairs_epairs by assumption.
  destruct (vf_spec a H) as (Hnr & Hls & Hlc & Hlt & Hcp & Hsp).
  destruct (areq_wf_unpack a H) as ((Hx & _) & _).
  rewrite Hsp. rewrite vars_flatten_unfold.
  destruct (vf_shape a) as [|z sh'] eqn:Esh.
  - cbn [length] in Hls, Hlc, Hlt.
    apply length_zero_iff_nil in Hls. apply length_zero_iff_nil in Hlc.
    apply length_zero_iff_nil in Hlt. rewrite Hls, Hlc, Hlt.
    unfold spec_offsets. cbn [req_indices map]. rewrite elem_off_fixed by assumption.
    change (g_shape (vf_geom a)) with (vf_shape a). rewrite Esh. cbn [lin].
    change (g_begin (vf_geom a)) with (vf_begin a).
    unfold segs_pairs. cbn [flat_map epairs]. unfold seg_pairs, s_off, s_len, s_addr.
    cbn [fst snd]. do 3 f_equal. lia.
  - cbv zeta.
    set (sf := stride_flatten (vf_geom a) (vf_start a) (vf_count a) (vf_stride0 a)).
    assert (Hseg : 1 <= snd sf).
    { unfold sf. rewrite stride_flatten_snd.
      destruct (last (vf_stride0 a) 1 =? 1); [|lia].
      apply (nbg_last_Forall (fun c => 1 <= c)); [assumption|].
      intros E. rewrite E in Hlc. discriminate. }
    unfold segs_pairs. rewrite nbg_zrange_zseq.
    rewrite (segs_epairs (g_xsz (l_geom (a_lead a))) (vf_begin a)
               (snd sf * g_xsz (l_geom (a_lead a))) (snd sf) (r_xaddr (a_req a)))
      by (lia || reflexivity).
    rewrite <- (strided_path_fixed (vf_geom a) (vf_start a) (vf_count a) (vf_stride0 a));
      [ | assumption
        | change (g_shape (vf_geom a)) with (vf_shape a); rewrite Esh; discriminate
        | change (g_shape (vf_geom a)) with (vf_shape a); rewrite Esh; assumption
        | change (g_shape (vf_geom a)) with (vf_shape a); rewrite Esh; assumption
        | change (g_shape (vf_geom a)) with (vf_shape a); rewrite Esh; assumption ].
    fold sf. f_equal. lia.
Qed.

Theorem vars_flatten_pos : forall a, areq_wf a -> Forall (fun s => 0 < s_len s) (vars_flatten a).
Proof.
  intros a H.
  destruct (vf_spec a H) as (Hnr & Hls & Hlc & Hlt & Hcp & Hsp).
  destruct (areq_wf_unpack a H) as ((Hx & _) & _).
  rewrite vars_flatten_unfold.
  destruct (vf_shape a) as [|z sh'] eqn:Esh.
  - constructor; [|constructor]. unfold s_len. cbn [fst snd]. assumption.
  - cbv zeta.
    set (sf := stride_flatten (vf_geom a) (vf_start a) (vf_count a) (vf_stride0 a)).
    assert (Hseg : 1 <= snd sf).
    { unfold sf. rewrite stride_flatten_snd.
      destruct (last (vf_stride0 a) 1 =? 1); [|lia].
      apply (nbg_last_Forall (fun c => 1 <= c)); [assumption|].
      intros E. rewrite E in Hlc. discriminate. }
    apply Forall_forall. intros s Hin. apply in_map_iff in Hin. destruct Hin as [p [<- _]].
    unfold s_len. cbn [fst snd]. nia.
Qed.

Example vars_flatten_pairs_example :
  (* one record of gr3, strided in the last dimension; and a strided request on gf3 *)
  let l := mklead 0 gr3 (Some [4; 1; 3]) 0 3 14 false false (-1) 7000 12 None 0
                  [([5; 1; 0], [3; 2; 2], [4; 1; 3])] in
  let a := mkareq (mkreq 0 [9; 1; 0] [1; 2; 2] 4 7032) l 0 0 in
  let l2 := mklead 2 gf3 (Some [2; 2; 1]) 3 1 (-1) false false (-1) 5000 24 None 0
                   [([1; 0; 2], [2; 3; 4], [2; 2; 1])] in
  let a2 := mkareq (mkreq 1 [1; 0; 2] [2; 3; 4] 24 5000) l2 0 0 in
  areq_wf a /\ segs_pairs (vars_flatten a) = areq_pairs a /\ Zlen (vars_flatten a) = 4 /\
  areq_wf a2 /\ segs_pairs (vars_flatten a2) = areq_pairs a2 /\ Zlen (vars_flatten a2) = 6.
Proof.
  cbv zeta. destruct gr3_wf as [Hwf Hfit].
  refine (conj _ (conj _ (conj _ (conj _ (conj _ _))))); try (vm_compute; reflexivity).
  - unfold areq_wf. cbn [a_lead a_req l_geom l_stride r_start r_count r_nelems req_stride].
    refine (conj Hwf (conj Hfit (conj _ (conj _ (conj _ (conj _ _)))))).
    + cbn [gr3 gf3 g_shape req_ok dims_ok]. lia.
    + vm_compute. reflexivity.
    + lia.
    + intros _. reflexivity.
    + reflexivity.
  - unfold areq_wf. cbn [a_lead a_req l_geom l_stride r_start r_count r_nelems req_stride].
    refine (conj gf3_wf (conj _ (conj _ (conj _ (conj _ (conj _ _)))))).
    + intros E. vm_compute in E. discriminate.
    + cbn [gr3 gf3 g_shape req_ok dims_ok]. lia.
    + vm_compute. reflexivity.
    + lia.
    + intros E. vm_compute in E. discriminate.
    + reflexivity.
Qed.

(* ================================================================== *)
(* G4. Record splitting (ncmpio_add_record_requests)                    *)
(* ================================================================== *)
Lemma rec_split_length : forall lo start count s0 nrec nel xaddr xsz,
  Zlen (rec_split lo start count s0 nrec nel xaddr xsz) = Z.max 0 nrec.
Proof.
  intros. unfold rec_split. rewrite nbg_Zlen_map. unfold Zlen. rewrite zrange_length. lia.
Qed.

Lemma rec_split_lead : forall lo start count s0 nrec nel xaddr xsz,
  Forall (fun q => r_lead_off q = lo) (rec_split lo start count s0 nrec nel xaddr xsz).
Proof.
  intros. unfold rec_split. apply Forall_forall. intros q Hq.
  apply in_map_iff in Hq. destruct Hq as [i [<- _]]. reflexivity.
Qed.

(* the SPEC enumerates record after record *)
Lemma spec_offsets_rec_split : forall g s0 st c0 ct t0 ts,
  spec_offsets g (s0 :: st) (c0 :: ct) (t0 :: ts) =
  flat_map (fun i => spec_offsets g ((s0 + i * t0) :: st) (1 :: ct) (t0 :: ts)) (zrange 0 c0).
Proof.
  intros. unfold spec_offsets. cbn [req_indices]. rewrite map_flat_map_comm.
  apply flat_map_ext. intros i. rewrite zrange_1. cbn [flat_map]. rewrite app_nil_r.
  replace (s0 + i * t0 + 0 * t0) with (s0 + i * t0) by lia. reflexivity.
Qed.

Lemma epairs_flat_map_const : forall xsz m (f : Z -> list Z) a n k,
  0 <= k -> (forall i, 0 <= i -> Zlen (f i) = m) ->
  epairs xsz (a + k * (m * xsz)) (flat_map f (zseq k n)) =
  flat_map (fun i => epairs xsz (a + i * (m * xsz)) (f i)) (zseq k n).
Proof.
  intros xsz m f a. induction n as [|n IH]; intros k Hk Hlen.
  - reflexivity.
  - cbn [zseq flat_map]. rewrite epairs_app. f_equal.
    rewrite <- IH by (lia || assumption). f_equal. rewrite Hlen by assumption. lia.
Qed.

Lemma rec_req_ok : forall ss s0 st c0 ct t0 ts i,
  req_ok (0 :: ss) (s0 :: st) (c0 :: ct) (t0 :: ts) -> 0 <= i ->
  req_ok (0 :: ss) ((s0 + i * t0) :: st) (1 :: ct) (t0 :: ts).
Proof.
  intros ss s0 st c0 ct t0 ts i H Hi. cbn [req_ok] in *.
  destruct H as (Hs & Hc & Ht & _ & Hd).
  refine (conj _ (conj _ (conj Ht (conj (or_introl eq_refl) Hd)))); nia.
Qed.

Lemma rec_split_core : forall l g lo start count strd xaddr,
  l_geom l = g -> g_isrec g = true -> wf_geom g -> rec_fits g ->
  req_ok (g_shape g) start count strd -> 0 < zprod count ->
  (forall q, length (r_start q) = length start -> req_stride l q = strd) ->
  (match l_stride l with Some t => length t = length (g_shape g) | None => True end) ->
  Forall (fun q => areq_wf (mkareq q l 0 0))
         (rec_split lo start count (hd 1 strd) (hd 1 count) (zprod count / hd 1 count) xaddr (g_xsz g)) /\
  flat_map (fun q => areq_pairs (mkareq q l 0 0))
           (rec_split lo start count (hd 1 strd) (hd 1 count) (zprod count / hd 1 count) xaddr (g_xsz g))
  = part_pairs g (start, count, strd) xaddr.
Proof.
  intros l g lo start count strd xaddr Hg Hrec Hwf Hfit Hreq Hpos Hrs Hlt.
  destruct (g_isrec_cons g Hrec) as [ss Hs].
  pose proof Hreq as Hreq0. rewrite Hs in Hreq.
  destruct start as [|s0 st]; [destruct count; destruct strd; contradiction|].
  destruct count as [|c0 ct]; [destruct strd; contradiction|].
  destruct strd as [|t0 ts]; [contradiction|].
  pose proof Hreq as Hreq1. cbn [req_ok] in Hreq1. destruct Hreq1 as (Hs0 & Hc0 & Ht0 & _ & Hd).
  cbn [hd]. cbn [zprod] in Hpos |- *.
  set (P := zprod ct) in *.
  assert (HP0 : 0 <= P).
  { apply zprod_nonneg. eapply dims_ok_count_nonneg; eassumption. }
  assert (HP : 1 <= P /\ 1 <= c0) by nia. destruct HP as [HP Hc1].
  replace (c0 * P / c0) with P by (rewrite Z.mul_comm, Z.div_mul by lia; reflexivity).
  assert (Hx : 0 < g_xsz g) by (destruct Hwf as (Hx & _); exact Hx).
  assert (Hqi : forall i, 0 <= i ->
            req_ok (g_shape g) ((s0 + i * t0) :: st) (1 :: ct) (t0 :: ts)).
  { intros i Hi. rewrite Hs. apply (rec_req_ok ss s0 st c0 ct t0 ts i); assumption. }
  assert (Hlen : forall i, 0 <= i ->
            Zlen (spec_offsets g ((s0 + i * t0) :: st) (1 :: ct) (t0 :: ts)) = P).
  { intros i Hi. unfold Zlen. rewrite spec_offsets_length_req by (apply Hqi; assumption).
    cbn [zprod]. fold P. lia. }
  unfold rec_split. cbn [hd tl]. split.
  - apply Forall_forall. intros q Hq. apply in_map_iff in Hq. destruct Hq as [i [<- Hi]].
    apply zrange_In in Hi. unfold areq_wf. cbn [a_lead a_req r_start r_count r_nelems].
    rewrite Hg. rewrite Hrs by reflexivity.
    refine (conj Hwf (conj Hfit (conj _ (conj _ (conj _ (conj _ Hlt)))))).
    + apply Hqi. lia.
    + cbn [zprod]. fold P. lia.
    + lia.
    + intros _. reflexivity.
  - rewrite flat_map_map_comm.
    rewrite part_pairs_epairs by assumption. rewrite spec_offsets_rec_split.
    change (zrange 0 c0) with (zseq 0 (Z.to_nat c0)).
    transitivity (epairs (g_xsz g) (xaddr + 0 * (P * g_xsz g))
                    (flat_map (fun i => spec_offsets g ((s0 + i * t0) :: st) (1 :: ct) (t0 :: ts))
                              (zseq 0 (Z.to_nat c0)))); [|f_equal; lia].
    rewrite epairs_flat_map_const by (lia || assumption).
    apply flat_map_ext_In. intros i Hi. apply zseq_In in Hi.
    unfold areq_pairs. cbn [a_lead a_req r_start r_count r_xaddr].
    rewrite Hg. rewrite Hrs by reflexivity.
    apply part_pairs_epairs. apply Hqi. lia.
Qed.

Lemma nbg_all_ones : forall l, Forall (fun t => 1 <= t) l ->
  forallb (fun x => x <=? 1) l = true -> l = ones (length l).
Proof.
  induction l as [|x l IH]; intros HF Hb; [reflexivity|].
  inversion HF as [|? ? Hx Hl]; subst. cbn [forallb] in Hb.
  apply andb_true_iff in Hb. destruct Hb as [Ha Hb].
  cbn [length]. rewrite ones_S. f_equal; [lia | apply IH; assumption].
Qed.

Lemma forallb_ones_like : forall l, forallb (fun x => x <=? 1) (ones_like l) = true.
Proof.
  unfold ones_like. induction l as [|x l IH]; [reflexivity|].
  cbn [map forallb]. rewrite IH. reflexivity.
Qed.

Lemma stride_eff_ones_like : forall l, stride_eff (Some (ones_like l)) = None.
Proof. intros. unfold stride_eff. rewrite forallb_ones_like. reflexivity. Qed.

(* what the lead's (effective) stride means for its non-lead requests *)
Lemma stride_eff_req_stride : forall l shape start count strd,
  req_ok shape start count strd -> l_stride l = stride_eff (Some strd) ->
  (forall q, length (r_start q) = length start -> req_stride l q = strd) /\
  (match stride_eff (Some strd) with Some t => hd 1 t | None => 1 end) = hd 1 strd /\
  (match l_stride l with Some t => length t = length shape | None => True end).
Proof.
  intros l shape start count strd Hreq Hl.
  destruct (req_ok_lengths _ _ _ _ Hreq) as (Hls & _ & Hlt).
  pose proof (req_ok_stride_pos _ _ _ _ Hreq) as Htp.
  unfold req_stride. rewrite Hl. unfold stride_eff.
  destruct (forallb (fun x => x <=? 1) strd) eqn:Ef.
  - pose proof (nbg_all_ones strd Htp Ef) as E1.
    refine (conj _ (conj _ I)).
    + intros q Hq. rewrite ones_like_ones. rewrite Hq, Hls, <- Hlt. symmetry. exact E1.
    + destruct strd as [|t ts]; [reflexivity|].
      cbn [length] in E1. rewrite ones_S in E1. injection E1 as E1 _. cbn [hd]. lia.
  - refine (conj _ (conj _ _)); [intros; reflexivity | reflexivity | assumption].
Qed.

Theorem rec_split_pairs : forall l g lo start count strd xaddr,
  g_isrec g = true -> wf_geom g -> rec_fits g ->
  req_ok (g_shape g) start count strd -> 0 < zprod count ->
  l_geom l = g -> l_stride l = stride_eff (Some strd) ->
  flat_map (fun q => areq_pairs (mkareq q l 0 0))
           (rec_split lo start count
                      (match stride_eff (Some strd) with Some t => hd 1 t | None => 1 end)
                      (hd 1 count) (zprod count / hd 1 count) xaddr (g_xsz g))
  = part_pairs g (start, count, strd) xaddr.
Proof.
  intros l g lo start count strd xaddr Hrec Hwf Hfit Hreq Hpos Hg Hl.
  destruct (stride_eff_req_stride l _ _ _ _ Hreq Hl) as (Hrs & Hhd & Hlt).
  rewrite Hhd. apply rec_split_core; assumption.
Qed.

Theorem rec_split_wf : forall l g lo start count strd xaddr,
  g_isrec g = true -> wf_geom g -> rec_fits g ->
  req_ok (g_shape g) start count strd -> 0 < zprod count ->
  l_geom l = g -> l_stride l = stride_eff (Some strd) ->
  Forall (fun q => areq_wf (mkareq q l 0 0))
         (rec_split lo start count
                    (match stride_eff (Some strd) with Some t => hd 1 t | None => 1 end)
                    (hd 1 count) (zprod count / hd 1 count) xaddr (g_xsz g)).
Proof.
  intros l g lo start count strd xaddr Hrec Hwf Hfit Hreq Hpos Hg Hl.
  destruct (stride_eff_req_stride l _ _ _ _ Hreq Hl) as (Hrs & Hhd & Hlt).
  rewrite Hhd. apply rec_split_core; assumption.
Qed.

Theorem single_req_pairs : forall l g lo start count strd xaddr,
  g_isrec g = false -> wf_geom g -> rec_fits g ->
  req_ok (g_shape g) start count strd -> 0 < zprod count ->
  l_geom l = g -> l_stride l = stride_eff (Some strd) ->
  areq_pairs (mkareq (mkreq lo start count (zprod count) xaddr) l 0 0)
  = part_pairs g (start, count, strd) xaddr /\
  areq_wf (mkareq (mkreq lo start count (zprod count) xaddr) l 0 0).
Proof.
  intros l g lo start count strd xaddr Hrec Hwf Hfit Hreq Hpos Hg Hl.
  destruct (stride_eff_req_stride l _ _ _ _ Hreq Hl) as (Hrs & Hhd & Hlt).
  split.
  - unfold areq_pairs. cbn [a_lead a_req r_start r_count r_xaddr].
    rewrite Hg. rewrite Hrs by reflexivity. reflexivity.
  - unfold areq_wf. cbn [a_lead a_req r_start r_count r_nelems].
    rewrite Hg. rewrite Hrs by reflexivity.
    refine (conj Hwf (conj Hfit (conj Hreq (conj eq_refl (conj Hpos (conj _ Hlt)))))).
    intros E. congruence.
Qed.

Example rec_split_example :
  (* 3 records (stride 4) of gr3, 4 elements each; the lead keeps the stride [4;1;3] *)
  let l := mklead 0 gr3 (stride_eff (Some [4; 1; 3])) 0 3 14 false false (-1) 7000 12 None 0
                  [([5; 1; 0], [3; 2; 2], [4; 1; 3])] in
  req_ok (g_shape gr3) [5; 1; 0] [3; 2; 2] [4; 1; 3] /\ 0 < zprod [3; 2; 2] /\
  map r_start (rec_split 0 [5; 1; 0] [3; 2; 2] 4 3 4 7000 8) = [[5; 1; 0]; [9; 1; 0]; [13; 1; 0]] /\
  map r_xaddr (rec_split 0 [5; 1; 0] [3; 2; 2] 4 3 4 7000 8) = [7000; 7032; 7064] /\
  flat_map (fun q => areq_pairs (mkareq q l 0 0)) (rec_split 0 [5; 1; 0] [3; 2; 2] 4 3 4 7000 8)
  = part_pairs gr3 ([5; 1; 0], [3; 2; 2], [4; 1; 3]) 7000.
Proof.
  cbv zeta. split; [exact gr3_req|]. split; [reflexivity|].
  repeat split; vm_compute; reflexivity.
Qed.

(* ================================================================== *)
(* G5. The non-lead requests built by post_varm / post_varn             *)
(* ================================================================== *)
(* one (start,count,stride) part: record-split or kept whole *)
Lemma piece_reqs_ok : forall g start count strd xaddr lo l,
  wf_geom g -> rec_fits g -> req_ok (g_shape g) start count strd -> 0 < zprod count ->
  l_geom l = g -> l_stride l = stride_eff (Some strd) ->
  let reqs := (if g_isrec g
               then rec_split lo start count
                              (match stride_eff (Some strd) with Some t => hd 1 t | None => 1 end)
                              (hd 1 count) (zprod count / hd 1 count) xaddr (g_xsz g)
               else [mkreq lo start count (zprod count) xaddr]) in
  Forall (fun q => areq_wf (mkareq q l 0 0)) reqs /\
  flat_map (fun q => areq_pairs (mkareq q l 0 0)) reqs = part_pairs g (start, count, strd) xaddr /\
  Forall (fun q => r_lead_off q = lo) reqs /\
  Zlen reqs = (if g_isrec g then hd 1 count else 1) /\ 0 < Zlen reqs.
Proof.
  intros g start count strd xaddr lo l Hwf Hfit Hreq Hpos Hg Hl. cbv zeta.
  destruct (g_isrec g) eqn:Erec.
  - assert (Hc1 : 1 <= hd 1 count).
    { assert (Hcp : Forall (fun c => 1 <= c) count).
      { apply zprod_nonzero_pos; [eapply req_ok_count_nonneg; eassumption | lia]. }
      destruct count as [|c0 ct]; cbn [hd]; [lia|].
      inversion Hcp; subst; assumption. }
    rewrite rec_split_length.
    refine (conj _ (conj _ (conj _ (conj _ _)))); try lia.
    + apply rec_split_wf; assumption.
    + apply rec_split_pairs; assumption.
    + apply rec_split_lead.
  - destruct (single_req_pairs l g lo start count strd xaddr Erec Hwf Hfit Hreq Hpos Hg Hl)
      as [Hp Hw].
    refine (conj _ (conj _ (conj _ (conj _ _)))).
    + constructor; [assumption | constructor].
    + cbn [flat_map]. rewrite app_nil_r. assumption.
    + constructor; [reflexivity | constructor].
    + reflexivity.
    + reflexivity.
Qed.

Theorem post_varm_reqs_ok : forall g start count stride xaddr lo l,
  post_ok g start count stride -> 0 < zprod count * g_xsz g ->
  l_geom l = g -> l_stride l = stride_eff stride -> l_xaddr l = xaddr ->
  l_orig l = [(start, count, match stride with Some t => t | None => ones_like count end)] ->
  let reqs := (if g_isrec g
               then rec_split lo start count
                              (match stride_eff stride with Some t => hd 1 t | None => 1 end)
                              (hd 1 count) (zprod count / hd 1 count) xaddr (g_xsz g)
               else [mkreq lo start count (zprod count) xaddr]) in
  Forall (fun q => areq_wf (mkareq q l 0 0)) reqs /\
  flat_map (fun q => areq_pairs (mkareq q l 0 0)) reqs = lead_pairs l /\
  Forall (fun q => r_lead_off q = lo) reqs /\
  Zlen reqs = (if g_isrec g then hd 1 count else 1) /\ 0 < Zlen reqs.
Proof.
  intros g start count stride xaddr lo l Hok Hnb Hg Hl Hxa Horig.
  destruct Hok as (Hwf & Hfit & Hreq).
  set (strd := match stride with Some t => t | None => ones_like count end) in *.
  assert (Hse : stride_eff stride = stride_eff (Some strd)).
  { unfold strd. destruct stride as [t|]; [reflexivity|].
    rewrite stride_eff_ones_like. reflexivity. }
  assert (Hpos : 0 < zprod count).
  { destruct Hwf as (Hx & _). nia. }
  assert (Hlp : lead_pairs l = part_pairs g (start, count, strd) xaddr).
  { unfold lead_pairs. rewrite Horig, Hg, Hxa. cbn [parts_pairs]. apply app_nil_r. }
  rewrite Hse in Hl |- *. rewrite Hlp.
  apply piece_reqs_ok; assumption.
Qed.

Lemma varn_reqs_core : forall g lo l,
  wf_geom g -> rec_fits g -> l_geom l = g -> l_stride l = None ->
  forall parts xaddr,
  Forall (fun p => req_ok (g_shape g) (fst p) (part_count (fst p) (snd p)) (ones_like (fst p)))
         parts ->
  Forall (fun q => areq_wf (mkareq q l 0 0)) (varn_reqs (g_isrec g) lo (g_xsz g) parts xaddr) /\
  flat_map (fun q => areq_pairs (mkareq q l 0 0)) (varn_reqs (g_isrec g) lo (g_xsz g) parts xaddr)
  = parts_pairs g (map (fun p => (fst p, part_count (fst p) (snd p), ones_like (fst p)))
                       (filter (fun p => negb (zprod (part_count (fst p) (snd p)) =? 0)) parts))
                xaddr /\
  Forall (fun q => r_lead_off q = lo) (varn_reqs (g_isrec g) lo (g_xsz g) parts xaddr) /\
  Zlen (varn_reqs (g_isrec g) lo (g_xsz g) parts xaddr)
  = zsum (map (fun p => if g_isrec g then hd 1 (part_count (fst p) (snd p)) else 1)
              (filter (fun p => negb (zprod (part_count (fst p) (snd p)) =? 0)) parts)).
Proof.
  intros g lo l Hwf Hfit Hg Hl.
  induction parts as [|[s c] r IH]; intros xaddr HF.
  - cbn [varn_reqs filter map parts_pairs zsum flat_map].
    refine (conj _ (conj eq_refl (conj _ eq_refl))); constructor.
  - pose proof (Forall_inv HF) as Hp. pose proof (Forall_inv_tail HF) as HF'. cbn [fst snd] in Hp.
    cbn [varn_reqs filter fst snd].
    destruct (zprod (part_count s c) =? 0) eqn:Ez; cbn [negb].
    + apply IH. assumption.
    + assert (Hpos : 0 < zprod (part_count s c)).
      { assert (0 <= zprod (part_count s c)); [|lia].
        apply zprod_nonneg. eapply req_ok_count_nonneg; eassumption. }
      assert (Hl' : l_stride l = stride_eff (Some (ones_like s))).
      { rewrite stride_eff_ones_like. assumption. }
      pose proof (piece_reqs_ok g s (part_count s c) (ones_like s) xaddr lo l
                    Hwf Hfit Hp Hpos Hg Hl') as Hpc.
      cbv zeta in Hpc. rewrite stride_eff_ones_like in Hpc.
      destruct Hpc as (P1 & P2 & P3 & P4 & _).
      destruct (IH (xaddr + zprod (part_count s c) * g_xsz g) HF') as (I1 & I2 & I3 & I4).
      cbn [map parts_pairs zsum fst snd].
      refine (conj _ (conj _ (conj _ _))).
      * apply Forall_app. split; assumption.
      * rewrite flat_map_app, P2, I2. reflexivity.
      * apply Forall_app. split; assumption.
      * rewrite nbg_Zlen_app, P4, I4. reflexivity.
Qed.

Theorem post_varn_reqs_ok : forall g parts xaddr lo l,
  postn_ok g parts -> l_geom l = g -> l_stride l = None -> l_xaddr l = xaddr ->
  l_orig l = map (fun p => (fst p, part_count (fst p) (snd p), ones_like (fst p)))
                 (filter (fun p => negb (zprod (part_count (fst p) (snd p)) =? 0)) parts) ->
  let reqs := varn_reqs (g_isrec g) lo (g_xsz g) parts xaddr in
  Forall (fun q => areq_wf (mkareq q l 0 0)) reqs /\
  flat_map (fun q => areq_pairs (mkareq q l 0 0)) reqs = lead_pairs l /\
  Forall (fun q => r_lead_off q = lo) reqs /\
  Zlen reqs = zsum (map (fun p => if g_isrec g then hd 1 (part_count (fst p) (snd p)) else 1)
                        (filter (fun p => negb (zprod (part_count (fst p) (snd p)) =? 0)) parts)).
Proof.
  intros g parts xaddr lo l Hok Hg Hl Hxa Horig. cbv zeta.
  destruct Hok as (Hwf & Hfit & _ & HF).
  unfold lead_pairs. rewrite Horig, Hg, Hxa.
  apply varn_reqs_core; assumption.
Qed.

(* the hypotheses are satisfiable: the terms are those inside post_varm / post_varn *)
Example post_varm_reqs_example :
  let g := gr3 in let start := [5; 1; 0] in let count := [3; 2; 2] in
  let stride := Some [4; 1; 3] in
  let l := mklead 0 g (stride_eff stride) 0 3 14 false false (-1) 7000 12 None 0
                  [(start, count, [4; 1; 3])] in
  post_ok g start count stride /\ 0 < zprod count * g_xsz g /\
  Zlen (rec_split 7 start count 4 3 4 7000 8) = 3 /\
  flat_map (fun q => areq_pairs (mkareq q l 0 0)) (rec_split 7 start count 4 3 4 7000 8)
  = lead_pairs l.
Proof.
  cbv zeta. destruct gr3_wf as [Hwf Hfit].
  split; [exact (conj Hwf (conj Hfit gr3_req))|].
  split; [reflexivity|]. split; vm_compute; reflexivity.
Qed.

Example post_varn_reqs_example :
  (* three parts on gr3, the second one empty (dropped); counts[2] = NULL *)
  let parts := [([5; 1; 0], Some [2; 2; 2]); ([0; 0; 0], Some [1; 0; 4]); ([1; 2; 3], None)] in
  let l := mklead 0 gr3 None 0 3 7 false false (-1) 9000 9 None 0
                  [([5; 1; 0], [2; 2; 2], [1; 1; 1]); ([1; 2; 3], [1; 1; 1], [1; 1; 1])] in
  postn_ok gr3 parts /\
  l_orig l = map (fun p => (fst p, part_count (fst p) (snd p), ones_like (fst p)))
                 (filter (fun p => negb (zprod (part_count (fst p) (snd p)) =? 0)) parts) /\
  Zlen (varn_reqs (g_isrec gr3) 4 (g_xsz gr3) parts 9000) = 3 /\
  flat_map (fun q => areq_pairs (mkareq q l 0 0)) (varn_reqs (g_isrec gr3) 4 (g_xsz gr3) parts 9000)
  = lead_pairs l.
Proof.
  cbv zeta. destruct gr3_wf as [Hwf Hfit].
  split.
  - refine (conj Hwf (conj Hfit (conj _ _))); [discriminate|].
    repeat constructor; cbn [fst snd part_count ones_like map gr3 g_shape req_ok dims_ok]; lia.
  - repeat split; vm_compute; reflexivity.
Qed.

(* ================================================================== *)
(* Assumptions                                                          *)
(* ================================================================== *)
Print Assumptions areq_pairs_length.
Print Assumptions req_ftype_pairs.
Print Assumptions req_ftype_total.
Print Assumptions vars_flatten_pairs.
Print Assumptions vars_flatten_pos.
Print Assumptions rec_split_pairs.
Print Assumptions rec_split_wf.
Print Assumptions single_req_pairs.
Print Assumptions post_varm_reqs_ok.
Print Assumptions post_varn_reqs_ok.
