(* Proofs_NbGeom.v — GEOMETRY of the nonblocking-request model (Nonblocking.v):
   the two flattenings of a non-lead request (req_ftype, vars_flatten) and the record / varn
   splitting done when a request is posted address exactly the bytes of the row-major SPEC
   (Access.spec_offsets, Nonblocking.part_pairs / parts_pairs / lead_pairs).
   No axioms.
   Main results
     G1 areq_pairs_spec, areq_pairs_length
     G2 req_ftype_pairs, req_ftype_nonneg, req_ftype_total, req_ftype_contig_shape
     G3 vars_flatten_pairs, vars_flatten_pos
     G4 rec_split_pairs, rec_split_wf, rec_split_length, rec_split_lead, single_req_pairs
     G5 post_varm_reqs_ok, post_varn_reqs_ok *)
From Pnc Require Import NbSpec Proofs_Lists.
Require Import Lia ZArith List Bool ZifyBool.
Import ListNotations.
Local Open Scope Z_scope.
Local Arguments Z.mul : simpl never.
Local Arguments Z.add : simpl never.
Local Arguments Z.sub : simpl never.
Local Arguments Z.div : simpl never.
Local Arguments Z.of_nat : simpl never.
Local Arguments Z.to_nat : simpl never.

(* ================================================================== *)
(* 0. Small list facts                                                 *)
(* ================================================================== *)
Lemma nbg_Zlen_nil : forall A, Zlen (@nil A) = 0.
Proof. reflexivity. Qed.

Lemma nbg_Zlen_cons : forall A (x : A) l, Zlen (x :: l) = 1 + Zlen l.
Proof. intros. unfold Zlen. cbn [length]. lia. Qed.

Lemma nbg_Zlen_app : forall A (a b : list A), Zlen (a ++ b) = Zlen a + Zlen b.
Proof. intros. unfold Zlen. rewrite app_length. lia. Qed.

Lemma nbg_Zlen_nonneg : forall A (l : list A), 0 <= Zlen l.
Proof. intros. unfold Zlen. lia. Qed.

Lemma nbg_Zlen_map : forall A B (f : A -> B) l, Zlen (map f l) = Zlen l.
Proof. intros. unfold Zlen. rewrite map_length. reflexivity. Qed.

Lemma nbg_Zlen_zrange : forall lo n, 0 <= n -> Zlen (zrange lo n) = n.
Proof. intros. unfold Zlen. rewrite zrange_length. lia. Qed.

Lemma nbg_zrange_zseq : forall A (l : list A), zrange 0 (Zlen l) = zseq 0 (length l).
Proof. intros. unfold zrange, Zlen. rewrite Nat2Z.id. reflexivity. Qed.

Lemma ones_like_ones : forall l, ones_like l = ones (length l).
Proof.
  unfold ones_like. induction l as [|x l IH]; cbn [map length]; [reflexivity|].
  rewrite ones_S, IH. reflexivity.
Qed.

Lemma ones_like_length : forall l, length (ones_like l) = length l.
Proof. intros. unfold ones_like. apply map_length. Qed.

Lemma nbg_last_Forall : forall (P : Z -> Prop) l d, Forall P l -> l <> [] -> P (last l d).
Proof.
  induction l as [|x l IH]; intros d HF Hne; [congruence|].
  inversion HF as [|? ? Hx Hl]; subst.
  destruct l as [|y l']; [cbn [last]; assumption|].
  change (last (x :: y :: l') d) with (last (y :: l') d).
  apply IH; [assumption | discriminate].
Qed.

(* ================================================================== *)
(* 1. Byte pairs of an element-offset list                             *)
(* ================================================================== *)
(* element k of offs (xsz bytes at file offset offs[k]) <-> buffer bytes [a + k*xsz, +xsz) *)
Fixpoint epairs (xsz a : Z) (offs : list Z) : list (Z * Z) :=
  match offs with
  | [] => []
  | o :: r => zip (zrange o xsz) (zrange a xsz) ++ epairs xsz (a + xsz) r
  end.

Lemma nbg_Zlen_zip_zrange : forall o a n, 0 <= n -> Zlen (zip (zrange o n) (zrange a n)) = n.
Proof.
  intros o a n Hn. unfold Zlen. rewrite zip_length by (rewrite !zrange_length; reflexivity).
  rewrite zrange_length. lia.
Qed.

Lemma epairs_length : forall xsz offs a, 0 <= xsz -> Zlen (epairs xsz a offs) = Zlen offs * xsz.
Proof.
  intros xsz. induction offs as [|o r IH]; intros a Hx.
  - reflexivity.
  - cbn [epairs]. rewrite nbg_Zlen_app, IH by assumption.
    rewrite nbg_Zlen_zip_zrange by assumption. rewrite nbg_Zlen_cons. lia.
Qed.

Lemma epairs_app : forall xsz l1 l2 a,
  epairs xsz a (l1 ++ l2) = epairs xsz a l1 ++ epairs xsz (a + Zlen l1 * xsz) l2.
Proof.
  intros xsz. induction l1 as [|o r IH]; intros l2 a.
  - cbn [app epairs]. f_equal. rewrite nbg_Zlen_nil. lia.
  - cbn [app epairs]. rewrite IH. rewrite <- app_assoc. do 3 f_equal.
    rewrite nbg_Zlen_cons. lia.
Qed.

Lemma epairs_index : forall xsz a offs k,
  flat_map (fun q => zip (zrange (snd q) xsz) (zrange (a + fst q * xsz) xsz))
           (zip (zseq k (length offs)) offs)
  = epairs xsz (a + k * xsz) offs.
Proof.
  intros xsz a. induction offs as [|o r IH]; intros k.
  - reflexivity.
  - cbn [length zseq zip flat_map fst snd epairs]. rewrite IH. do 2 f_equal. lia.
Qed.

Lemma part_pairs_epairs : forall g start count stride a,
  req_ok (g_shape g) start count stride ->
  part_pairs g (start, count, stride) a = epairs (g_xsz g) a (spec_offsets g start count stride).
Proof.
  intros g start count stride a Hreq. unfold part_pairs.
  replace (zrange 0 (zprod count)) with (zseq 0 (length (spec_offsets g start count stride))).
  2:{ rewrite spec_offsets_length_req by assumption. reflexivity. }
  rewrite epairs_index. f_equal. lia.
Qed.

(* the stream of file bytes of the elements, zipped with a contiguous buffer *)
Lemma epairs_blocks : forall xsz offs a, 0 <= xsz ->
  zip (flat_map (fun o => zrange o xsz) offs) (zrange a (Zlen offs * xsz)) = epairs xsz a offs.
Proof.
  intros xsz. induction offs as [|o r IH]; intros a Hx.
  - reflexivity.
  - cbn [flat_map epairs]. rewrite nbg_Zlen_cons.
    replace ((1 + Zlen r) * xsz) with (xsz + Zlen r * xsz) by lia.
    pose proof (nbg_Zlen_nonneg _ r) as Hr.
    rewrite zrange_app by nia.
    rewrite zip_app by (rewrite !zrange_length; reflexivity).
    rewrite IH by assumption. reflexivity.
Qed.

(* consecutive elements *)
Lemma epairs_run : forall xsz a o n, 0 <= xsz -> 0 <= n ->
  epairs xsz a (map (fun j => o + j * xsz) (zrange 0 n)) =
  zip (zrange o (n * xsz)) (zrange a (n * xsz)).
Proof.
  intros xsz a o n Hx Hn. rewrite <- epairs_blocks by assumption.
  rewrite nbg_Zlen_map, nbg_Zlen_zrange by assumption.
  rewrite flat_map_map_comm. rewrite flat_map_zrange_blocks by assumption. reflexivity.
Qed.

Lemma blocks_bytes_elems : forall xsz offs,
  blocks_bytes (map (fun o => (o, xsz)) offs) = flat_map (fun o => zrange o xsz) offs.
Proof.
  intros. unfold blocks_bytes. rewrite flat_map_map_comm. apply flat_map_ext.
  intros o. reflexivity.
Qed.

(* ================================================================== *)
(* G1. areq_pairs                                                       *)
(* ================================================================== *)
Lemma areq_pairs_spec : forall a,
  areq_pairs a =
  flat_map (fun q => zip (zrange (snd q) (g_xsz (l_geom (a_lead a))))
                         (zrange (r_xaddr (a_req a) + fst q * g_xsz (l_geom (a_lead a)))
                                 (g_xsz (l_geom (a_lead a)))))
           (zip (zrange 0 (zprod (r_count (a_req a))))
                (spec_offsets (l_geom (a_lead a)) (r_start (a_req a)) (r_count (a_req a))
                              (req_stride (a_lead a) (a_req a)))).
Proof. reflexivity. Qed.

(* the element offsets of a non-lead request per SPEC *)
Definition areq_offs (a : areq) : list Z :=
  spec_offsets (l_geom (a_lead a)) (r_start (a_req a)) (r_count (a_req a))
               (req_stride (a_lead a) (a_req a)).

Lemma areq_wf_unpack : forall a, areq_wf a ->
  wf_geom (l_geom (a_lead a)) /\ rec_fits (l_geom (a_lead a)) /\
  req_ok (g_shape (l_geom (a_lead a))) (r_start (a_req a)) (r_count (a_req a))
         (req_stride (a_lead a) (a_req a)) /\
  r_nelems (a_req a) = zprod (r_count (a_req a)) /\ 0 < r_nelems (a_req a) /\
  (g_isrec (l_geom (a_lead a)) = true -> hd 0 (r_count (a_req a)) = 1) /\
  (match l_stride (a_lead a) with
   | Some t => length t = length (g_shape (l_geom (a_lead a))) | None => True end).
Proof. intros a H. exact H. Qed.

Lemma areq_pairs_epairs : forall a, areq_wf a ->
  areq_pairs a = epairs (g_xsz (l_geom (a_lead a))) (r_xaddr (a_req a)) (areq_offs a).
Proof.
  intros a H. destruct (areq_wf_unpack a H) as (_ & _ & Hreq & _).
  unfold areq_pairs, areq_offs. apply part_pairs_epairs. assumption.
Qed.

Lemma areq_offs_length : forall a, areq_wf a -> Zlen (areq_offs a) = r_nelems (a_req a).
Proof.
  intros a H. destruct (areq_wf_unpack a H) as (_ & _ & Hreq & Hn & Hpos & _).
  unfold areq_offs, Zlen. rewrite spec_offsets_length_req by assumption. lia.
Qed.

Lemma areq_pairs_length : forall a, areq_wf a ->
  Zlen (areq_pairs a) = r_nelems (a_req a) * g_xsz (l_geom (a_lead a)).
Proof.
  intros a H. rewrite areq_pairs_epairs by assumption.
  destruct (areq_wf_unpack a H) as ((Hx & _) & _).
  rewrite epairs_length by lia. rewrite areq_offs_length by assumption. reflexivity.
Qed.

(* ================================================================== *)
(* G2. req_ftype                                                        *)
(* ================================================================== *)
(* the per-request file type is built on the SPEC offsets *)
Lemma areq_model_offsets : forall a, areq_wf a ->
  model_offsets (l_geom (a_lead a)) (r_start (a_req a)) (r_count (a_req a)) (l_stride (a_lead a))
  = areq_offs a.
Proof.
  intros a H. destruct (areq_wf_unpack a H) as (Hwf & _ & Hreq & _).
  unfold areq_offs. unfold req_stride in *.
  destruct (l_stride (a_lead a)) as [t|].
  - apply model_offsets_eq_spec; assumption.
  - destruct (req_ok_lengths _ _ _ _ Hreq) as (Hls & _ & _).
    rewrite ones_like_ones in Hreq |- *. rewrite Hls in Hreq |- *.
    apply model_offsets_eq_spec_none; assumption.
Qed.

(* ftype_contig = true: the contiguous branch of filetype_create_vara *)
Lemma contig_model_offsets : forall g start count stride,
  ftype_contig g count stride = true -> zprod count <> 0 ->
  length count = length (g_shape g) ->
  model_offsets g start count stride =
  map (fun k => first_offset g start + k * g_xsz g) (zrange 0 (zprod count)).
Proof.
  intros g start count stride Hc Hz Hlc. unfold model_offsets.
  replace (zprod count =? 0) with false by lia.
  unfold ftype_contig in Hc.
  destruct (g_shape g) as [|sh ss] eqn:Es.
  - (* scalar *)
    destruct count as [|c ct]; [|discriminate].
    assert (Hv : vars_offsets g start [] stride = [g_begin g]).
    { unfold vars_offsets, vara_offsets. rewrite Es.
      destruct stride as [t|]; reflexivity. }
    rewrite Hv. unfold first_offset. rewrite Es. cbn [zprod]. rewrite zrange_1. cbn [map].
    f_equal. lia.
  - apply andb_true_iff in Hc. destruct Hc as [Hs Hctg].
    assert (Hv : vars_offsets g start count stride = vara_offsets g start count).
    { unfold vars_offsets. destruct stride as [t|]; [|reflexivity]. rewrite Hs. reflexivity. }
    rewrite Hv. unfold vara_offsets. rewrite Es. rewrite Hctg. reflexivity.
Qed.

Lemma req_ftype_bytes : forall a, areq_wf a ->
  blocks_bytes (snd (req_ftype a)) =
  flat_map (fun o => zrange o (g_xsz (l_geom (a_lead a)))) (areq_offs a).
Proof.
  intros a H. destruct (areq_wf_unpack a H) as (Hwf & _ & Hreq & Hn & Hpos & _).
  destruct Hwf as (Hx & _).
  destruct (req_ok_lengths _ _ _ _ Hreq) as (_ & Hlc & _).
  rewrite <- (areq_model_offsets a H).
  unfold req_ftype. cbv zeta.
  destruct (ftype_contig (l_geom (a_lead a)) (r_count (a_req a)) (l_stride (a_lead a))) eqn:Ec;
    cbn [snd].
  - rewrite contig_model_offsets by (assumption || lia).
    unfold blocks_bytes. cbn [flat_map]. rewrite app_nil_r. unfold expand. cbn [fst snd].
    rewrite flat_map_map_comm. rewrite flat_map_zrange_blocks by lia.
    f_equal. rewrite Hn. lia.
  - apply blocks_bytes_elems.
Qed.

Theorem req_ftype_pairs : forall a, areq_wf a ->
  zip (blocks_bytes (snd (req_ftype a))) (expand (req_bblock a)) = areq_pairs a.
Proof.
  intros a H. rewrite areq_pairs_epairs by assumption.
  rewrite req_ftype_bytes by assumption.
  destruct (areq_wf_unpack a H) as ((Hx & _) & _).
  unfold req_bblock, expand. cbn [fst snd].
  rewrite <- (areq_offs_length a H). apply epairs_blocks. lia.
Qed.

Lemma req_ftype_nonneg : forall a, areq_wf a ->
  Forall (fun b => 0 <= snd b) (snd (req_ftype a)).
Proof.
  intros a H. destruct (areq_wf_unpack a H) as ((Hx & _) & _ & _ & _ & Hpos & _).
  unfold req_ftype. cbv zeta.
  destruct (ftype_contig (l_geom (a_lead a)) (r_count (a_req a)) (l_stride (a_lead a)));
    cbn [snd].
  - constructor; [cbn [snd]; nia | constructor].
  - apply Forall_forall. intros b Hb. apply in_map_iff in Hb. destruct Hb as [o [<- _]].
    cbn [snd]. lia.
Qed.

Lemma nbg_zsum_const : forall (xsz : Z) (offs : list Z),
  zsum (map snd (map (fun o => (o, xsz)) offs)) = Zlen offs * xsz.
Proof.
  intros xsz. induction offs as [|o r IH]; [reflexivity|].
  cbn [map zsum snd]. rewrite IH, nbg_Zlen_cons. lia.
Qed.

Lemma req_ftype_total : forall a, areq_wf a ->
  zsum (map snd (snd (req_ftype a))) = r_nelems (a_req a) * g_xsz (l_geom (a_lead a)).
Proof.
  intros a H. unfold req_ftype. cbv zeta.
  destruct (ftype_contig (l_geom (a_lead a)) (r_count (a_req a)) (l_stride (a_lead a)));
    cbn [snd].
  - cbn [map zsum snd]. lia.
  - rewrite nbg_zsum_const. rewrite areq_model_offsets by assumption.
    rewrite areq_offs_length by assumption. reflexivity.
Qed.

Lemma req_ftype_contig_shape : forall a, fst (req_ftype a) = true ->
  exists o l, snd (req_ftype a) = [(o, l)].
Proof.
  intros a H. unfold req_ftype in *. cbv zeta in *.
  destruct (ftype_contig (l_geom (a_lead a)) (r_count (a_req a)) (l_stride (a_lead a)));
    cbn [fst snd] in *; [eauto | discriminate].
Qed.

Example req_ftype_pairs_example :
  let l := mklead 0 gf3 (Some [2; 2; 3]) 0 1 (-1) false false (-1) 5000 12 None 0
                  [([1; 0; 2], [2; 3; 2], [2; 2; 3])] in
  let a := mkareq (mkreq 0 [1; 0; 2] [2; 3; 2] 12 5000) l 0 0 in
  areq_wf a /\ fst (req_ftype a) = false /\
  zip (blocks_bytes (snd (req_ftype a))) (expand (req_bblock a)) = areq_pairs a.
Proof.
  cbv zeta. split; [|split; vm_compute; reflexivity].
  unfold areq_wf. cbn [a_lead a_req l_geom l_stride r_start r_count r_nelems req_stride].
  refine (conj gf3_wf (conj _ (conj gf3_req (conj _ (conj _ (conj _ _)))))).
  - intros H. vm_compute in H. discriminate.
  - vm_compute. reflexivity.
  - lia.
  - intros H. vm_compute in H. discriminate.
  - reflexivity.
Qed.

Example req_ftype_pairs_example_contig :
  (* one record of the record variable gr3, a contiguous piece of it *)
  let l := mklead 0 gr3 None 0 1 6 false false (-1) 7000 8 None 0
                  [([5; 1; 0], [1; 2; 4], [1; 1; 1])] in
  let a := mkareq (mkreq 0 [5; 1; 0] [1; 2; 4] 8 7000) l 0 0 in
  areq_wf a /\ fst (req_ftype a) = true /\
  zip (blocks_bytes (snd (req_ftype a))) (expand (req_bblock a)) = areq_pairs a.
Proof.
  cbv zeta. split; [|split; vm_compute; reflexivity].
  unfold areq_wf. cbn [a_lead a_req l_geom l_stride r_start r_count r_nelems].
  destruct gr3_wf as [Hwf Hfit].
  refine (conj Hwf (conj Hfit (conj _ (conj _ (conj _ (conj _ I)))))).
  - unfold req_stride. cbn [l_stride r_start ones_like map gr3 g_shape req_ok dims_ok]. lia.
  - vm_compute. reflexivity.
  - lia.
  - intros _. reflexivity.
Qed.

(* ================================================================== *)
(* G3. vars_flatten                                                     *)
(* ================================================================== *)
Lemma stride_flatten_snd : forall g s c t,
  snd (stride_flatten g s c t) = if last t 1 =? 1 then last c 0 else 1.
Proof. reflexivity. Qed.

(* stride_flatten + expansion of every block = SPEC, for a fixed-size variable and ANY stride
   (Proofs_Access.strided_path needs a truly strided request only to exclude the 1-D record
   variable) *)
Lemma strided_path_fixed : forall g start count stride,
  g_isrec g = false -> g_shape g <> [] ->
  length start = length (g_shape g) -> length count = length (g_shape g) ->
  length stride = length (g_shape g) ->
  flat_map (fun d => map (fun k => g_begin g + d + k * g_xsz g)
                         (zrange 0 (snd (stride_flatten g start count stride))))
           (fst (stride_flatten g start count stride))
  = spec_offsets g start count stride.
Proof.
  intros g start count stride Hnr Hne Hls Hlc Hlt.
  unfold spec_offsets.
  rewrite (map_ext _ _ (elem_off_dot g)).
  unfold stride_flatten. cbv zeta. cbn [fst snd]. fold (g_units g).
  assert (Hlu : length (g_units g) = length (g_shape g)) by apply dim_units_length.
  assert (Hul : last stride 1 = 1 -> last (g_units g) (g_xsz g) = g_xsz g).
  { intros _. apply last_g_units; [right; assumption | assumption]. }
  remember (g_units g) as units eqn:Eu.
  destruct (snoc_cases _ start) as [->|[so [sl ->]]];
    [destruct (g_shape g); [congruence | discriminate]|].
  destruct (snoc_cases _ count) as [->|[co [cl ->]]];
    [destruct (g_shape g); [congruence | discriminate]|].
  destruct (snoc_cases _ stride) as [->|[to [tl_ ->]]];
    [destruct (g_shape g); [congruence | discriminate]|].
  destruct (snoc_cases _ units) as [->|[uo [ul ->]]];
    [destruct (g_shape g); [congruence | discriminate]|].
  rewrite !app_length in *. cbn [length] in *.
  rewrite !removelast_snoc, !last_snoc in *.
  apply flatten_core; [lia | lia | lia | assumption].
Qed.

(* blocks of seg elements, buffer addresses consecutive *)
Lemma segs_epairs : forall xsz b L seg a0, 0 <= xsz -> 0 <= seg -> L = seg * xsz ->
  forall disps k,
  flat_map seg_pairs (map (fun p => (b + snd p, L, a0 + fst p * L))
                          (zip (zseq k (length disps)) disps))
  = epairs xsz (a0 + k * L)
           (flat_map (fun d => map (fun j => b + d + j * xsz) (zrange 0 seg)) disps).
Proof.
  intros xsz b L seg a0 Hx Hseg HL. induction disps as [|d r IH]; intros k.
  - reflexivity.
  - cbn [length zseq zip map flat_map fst snd]. rewrite IH. rewrite epairs_app. f_equal.
    + unfold seg_pairs, s_off, s_len, s_addr. cbn [fst snd].
      rewrite epairs_run by assumption. subst L. reflexivity.
    + f_equal. rewrite nbg_Zlen_map, nbg_Zlen_zrange by assumption. subst L. lia.
Qed.

(* the record-stripped request of vars_flatten *)
Definition vf_isrec (a : areq) : bool := g_isrec (l_geom (a_lead a)).
Definition vf_shape (a : areq) : list Z :=
  if vf_isrec a then tl (g_shape (l_geom (a_lead a))) else g_shape (l_geom (a_lead a)).
Definition vf_start (a : areq) : list Z :=
  if vf_isrec a then tl (r_start (a_req a)) else r_start (a_req a).
Definition vf_count (a : areq) : list Z :=
  if vf_isrec a then tl (r_count (a_req a)) else r_count (a_req a).
Definition vf_begin (a : areq) : Z :=
  g_begin (l_geom (a_lead a)) +
  (if vf_isrec a then hd 0 (r_start (a_req a)) * g_recsize (l_geom (a_lead a)) else 0).
Definition vf_stride0 (a : areq) : list Z :=
  match l_stride (a_lead a) with
  | Some t => if vf_isrec a then tl t else t
  | None => ones_like (vf_start a)
  end.
Definition vf_geom (a : areq) : geom :=
  mkgeom (vf_begin a) (g_xsz (l_geom (a_lead a))) (vf_shape a) 0 0.

Lemma vars_flatten_unfold : forall a,
  vars_flatten a =
  match vf_shape a with
  | [] => [(vf_begin a, g_xsz (l_geom (a_lead a)), r_xaddr (a_req a))]
  | _ :: _ =>
    let sf := stride_flatten (vf_geom a) (vf_start a) (vf_count a) (vf_stride0 a) in
    map (fun p => (vf_begin a + snd p, snd sf * g_xsz (l_geom (a_lead a)),
                   r_xaddr (a_req a) + fst p * (snd sf * g_xsz (l_geom (a_lead a)))))
        (zip (zrange 0 (Zlen (fst sf))) (fst sf))
  end.
Proof.
  intros a. unfold vars_flatten, vf_geom, vf_stride0, vf_begin, vf_count, vf_start, vf_shape,
    vf_isrec. cbv zeta.
  destruct (if g_isrec (l_geom (a_lead a)) then tl (g_shape (l_geom (a_lead a)))
            else g_shape (l_geom (a_lead a))) as [|z sh']; [reflexivity|].
  match goal with
  | |- (let '(d, s) := ?X in _) = _ => destruct X as [d s]
  end.
  reflexivity.
Qed.

Lemma vf_stride0_eq : forall a,
  vf_stride0 a = if vf_isrec a then tl (req_stride (a_lead a) (a_req a))
                 else req_stride (a_lead a) (a_req a).
Proof.
  intros a. unfold vf_stride0, req_stride, vf_start.
  destruct (l_stride (a_lead a)) as [t|]; [reflexivity|].
  destruct (vf_isrec a); [|reflexivity].
  destruct (r_start (a_req a)); reflexivity.
Qed.

Lemma strip_rec : forall g s0 st ct t0 ts,
  g_isrec g = true -> wf_geom g ->
  let g' := mkgeom (g_begin g + s0 * g_recsize g) (g_xsz g) (tl (g_shape g)) 0 0 in
  g_isrec g' = false /\
  spec_offsets g (s0 :: st) (1 :: ct) (t0 :: ts) = spec_offsets g' st ct ts.
Proof.
  intros g s0 st ct t0 ts Hrec Hwf g'.
  destruct Hwf as (_ & _ & Hd & _).
  destruct (g_isrec_cons g Hrec) as [ss Hs].
  assert (Hnr : g_isrec g' = false).
  { unfold g_isrec, g'. cbn [g_shape]. rewrite Hs in Hd |- *. cbn [tl dims_wf] in Hd |- *.
    destruct Hd as [_ Hd]. destruct ss as [|s1 ss']; [reflexivity|].
    inversion Hd as [|? ? H1 _]; subst. lia. }
  split; [assumption|].
  unfold spec_offsets. cbn [req_indices]. rewrite zrange_1. cbn [flat_map].
  rewrite app_nil_r. rewrite map_map. apply map_ext. intros x.
  rewrite elem_off_rec by assumption. rewrite elem_off_fixed by assumption.
  unfold g'. cbn [g_begin g_xsz g_shape]. lia.
Qed.

Lemma strip_fixed : forall g start count stride,
  g_isrec g = false ->
  let g' := mkgeom (g_begin g + 0) (g_xsz g) (g_shape g) 0 0 in
  g_isrec g' = false /\ spec_offsets g start count stride = spec_offsets g' start count stride.
Proof.
  intros g start count stride Hnr g'.
  assert (Hnr' : g_isrec g' = false) by exact Hnr.
  split; [assumption|].
  unfold spec_offsets. apply map_ext. intros x.
  rewrite !elem_off_fixed by assumption. unfold g'. cbn [g_begin g_xsz g_shape]. lia.
Qed.

Lemma vf_spec : forall a, areq_wf a ->
  g_isrec (vf_geom a) = false /\
  length (vf_start a) = length (vf_shape a) /\
  length (vf_count a) = length (vf_shape a) /\
  length (vf_stride0 a) = length (vf_shape a) /\
  Forall (fun c => 1 <= c) (vf_count a) /\
  areq_offs a = spec_offsets (vf_geom a) (vf_start a) (vf_count a) (vf_stride0 a).
Proof.
  intros a H. destruct (areq_wf_unpack a H) as (Hwf & _ & Hreq & Hn & Hpos & Hrec & _).
  rewrite vf_stride0_eq. unfold areq_offs, vf_geom, vf_begin, vf_count, vf_start, vf_shape, vf_isrec.
  remember (req_stride (a_lead a) (a_req a)) as strd eqn:Es. clear Es.
  remember (l_geom (a_lead a)) as g eqn:Eg. clear Eg.
  remember (r_start (a_req a)) as start eqn:Est. clear Est.
  remember (r_count (a_req a)) as count eqn:Ect.
  assert (Hcp : Forall (fun c => 1 <= c) count).
  { apply zprod_nonzero_pos; [eapply req_ok_count_nonneg; eassumption | lia]. }
  clear Ect Hn Hpos.
  destruct (req_ok_lengths _ _ _ _ Hreq) as (Hls & Hlc & Hlt).
  destruct (g_isrec g) eqn:Erec.
  - specialize (Hrec eq_refl).
    destruct (g_isrec_cons g Erec) as [ss Hs].
    rewrite Hs in Hls, Hlc, Hlt. cbn [length] in Hls, Hlc, Hlt.
    destruct start as [|s0 st]; [discriminate|].
    destruct count as [|c0 ct]; [discriminate|].
    destruct strd as [|t0 ts]; [discriminate|].
    cbn [hd] in Hrec. subst c0. cbn [tl hd length] in *.
    inversion Hcp as [|? ? _ Hcp']; subst.
    destruct (strip_rec g s0 st ct t0 ts Erec Hwf) as [Hnr Hsp]. cbv zeta in Hnr, Hsp.
    rewrite Hs in *. cbn [tl length] in *.
    repeat split; try assumption; lia.
  - destruct (strip_fixed g start count strd Erec) as [Hnr Hsp]. cbv zeta in Hnr, Hsp.
    repeat split; assumption.
Qed.

Theorem vars_flatten_pairs : forall a, areq_wf a -> segs_pairs (vars_flatten a) = areq_pairs a.
Proof.
  intros a H. rewrite areq_pairs_epairs by assumption.
  destruct (vf_spec a H) as (Hnr & Hls & Hlc & Hlt & Hcp & Hsp).
  destruct (areq_wf_unpack a H) as ((Hx & _) & _).
  rewrite Hsp. rewrite vars_flatten_unfold.
  destruct (vf_shape a) as [|z sh'] eqn:Esh.
  - cbn [length] in Hls, Hlc, Hlt.
    apply length_zero_iff_nil in Hls. apply length_zero_iff_nil in Hlc.
    apply length_zero_iff_nil in Hlt. rewrite Hls, Hlc, Hlt.
    unfold spec_offsets. cbn [req_indices map]. rewrite elem_off_fixed by assumption.
    change (g_shape (vf_geom a)) with (vf_shape a). rewrite Esh. cbn [lin].
    change (g_begin (vf_geom a)) with (vf_begin a).
    unfold segs_pairs. cbn [flat_map epairs]. unfold seg_pairs, s_off, s_len, s_addr.
    cbn [fst snd]. do 2 f_equal. lia.
  - cbv zeta.
    set (sf := stride_flatten (vf_geom a) (vf_start a) (vf_count a) (vf_stride0 a)).
    assert (Hseg : 1 <= snd sf).
    { unfold sf. rewrite stride_flatten_snd.
      destruct (last (vf_stride0 a) 1 =? 1); [|lia].
      apply (nbg_last_Forall (fun c => 1 <= c)); [assumption|].
      intros E. rewrite E in Hlc. discriminate. }
    unfold segs_pairs. rewrite nbg_zrange_zseq.
    rewrite (segs_epairs (g_xsz (l_geom (a_lead a))) (vf_begin a)
               (snd sf * g_xsz (l_geom (a_lead a))) (snd sf) (r_xaddr (a_req a)))
      by (lia || reflexivity).
    rewrite <- (strided_path_fixed (vf_geom a) (vf_start a) (vf_count a) (vf_stride0 a));
      [ | assumption
        | change (g_shape (vf_geom a)) with (vf_shape a); rewrite Esh; discriminate
        | change (g_shape (vf_geom a)) with (vf_shape a); rewrite Esh; assumption
        | change (g_shape (vf_geom a)) with (vf_shape a); rewrite Esh; assumption
        | change (g_shape (vf_geom a)) with (vf_shape a); rewrite Esh; assumption ].
    fold sf. f_equal. lia.
Qed.

Theorem vars_flatten_pos : forall a, areq_wf a -> Forall (fun s => 0 < s_len s) (vars_flatten a).
Proof.
  intros a H.
  destruct (vf_spec a H) as (Hnr & Hls & Hlc & Hlt & Hcp & Hsp).
  destruct (areq_wf_unpack a H) as ((Hx & _) & _).
  rewrite vars_flatten_unfold.
  destruct (vf_shape a) as [|z sh'] eqn:Esh.
  - constructor; [|constructor]. unfold s_len. cbn [fst snd]. assumption.
  - cbv zeta.
    set (sf := stride_flatten (vf_geom a) (vf_start a) (vf_count a) (vf_stride0 a)).
    assert (Hseg : 1 <= snd sf).
    { unfold sf. rewrite stride_flatten_snd.
      destruct (last (vf_stride0 a) 1 =? 1); [|lia].
      apply (nbg_last_Forall (fun c => 1 <= c)); [assumption|].
      intros E. rewrite E in Hlc. discriminate. }
    apply Forall_forall. intros s Hin. apply in_map_iff in Hin. destruct Hin as [p [<- _]].
    unfold s_len. cbn [fst snd]. nia.
Qed.

Example vars_flatten_pairs_example :
  (* one record of gr3, strided in the last dimension; and a strided request on gf3 *)
  let l := mklead 0 gr3 (Some [4; 1; 3]) 0 3 14 false false (-1) 7000 12 None 0
                  [([5; 1; 0], [3; 2; 2], [4; 1; 3])] in
  let a := mkareq (mkreq 0 [9; 1; 0] [1; 2; 2] 4 7032) l 0 0 in
  let l2 := mklead 2 gf3 (Some [2; 2; 1]) 3 1 (-1) false false (-1) 5000 24 None 0
                   [([1; 0; 2], [2; 3; 4], [2; 2; 1])] in
  let a2 := mkareq (mkreq 1 [1; 0; 2] [2; 3; 4] 24 5000) l2 0 0 in
  areq_wf a /\ segs_pairs (vars_flatten a) = areq_pairs a /\ Zlen (vars_flatten a) = 4 /\
  areq_wf a2 /\ segs_pairs (vars_flatten a2) = areq_pairs a2 /\ Zlen (vars_flatten a2) = 6.
Proof.
  cbv zeta. destruct gr3_wf as [Hwf Hfit].
  refine (conj _ (conj _ (conj _ (conj _ (conj _ _))))); try (vm_compute; reflexivity).
  - unfold areq_wf. cbn [a_lead a_req l_geom l_stride r_start r_count r_nelems req_stride].
    refine (conj Hwf (conj Hfit (conj _ (conj _ (conj _ (conj _ _)))))).
    + cbn [gr3 gf3 g_shape req_ok dims_ok]. lia.
    + vm_compute. reflexivity.
    + lia.
    + intros _. reflexivity.
    + reflexivity.
  - unfold areq_wf. cbn [a_lead a_req l_geom l_stride r_start r_count r_nelems req_stride].
    refine (conj gf3_wf (conj _ (conj _ (conj _ (conj _ (conj _ _)))))).
    + intros E. vm_compute in E. discriminate.
    + cbn [gr3 gf3 g_shape req_ok dims_ok]. lia.
    + vm_compute. reflexivity.
    + lia.
    + intros E. vm_compute in E. discriminate.
    + reflexivity.
Qed.
