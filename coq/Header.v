(* Header.v — in-memory schema, header encoder (ncmpio_header_put.c), header length
   (ncmpio_hdr_len_NC), variable shape/len (ncmpio_NC_var_shape64), size rules
   (ncmpio_NC_check_vlen(s)) and offset assignment (ncmpio__enddef + NC_begins).
   Executable model; no proofs here. *)
From Pnc Require Export Base Gen_consts.
Local Open Scope Z_scope.

(* ---------- external types ---------- *)
(* nc_type numbers: 1 BYTE 2 CHAR 3 SHORT 4 INT 5 FLOAT 6 DOUBLE 7 UBYTE 8 USHORT
   9 UINT 10 INT64 11 UINT64 *)
Definition xlen_type (t : Z) : Z :=
  if (t =? 1) || (t =? 2) || (t =? 7) then 1
  else if (t =? 3) || (t =? 8) then 2
  else if (t =? 4) || (t =? 5) || (t =? 9) then 4
  else if (t =? 6) || (t =? 10) || (t =? 11) then 8
  else 0.

Definition valid_type (fmt t : Z) : bool :=
  (1 <=? t) && (if fmt =? 5 then t <=? 11 else t <=? 6).

(* ---------- schema ---------- *)
Record dim := mkdim { d_name : list byte; d_size : Z }.          (* size 0 = NC_UNLIMITED *)
Record att := mkatt { a_name : list byte; a_type : Z; a_nelems : Z;
                      a_data : list byte }.                     (* external bytes, unpadded *)
Record var := mkvar { v_name : list byte; v_dimids : list Z; v_atts : list att;
                      v_type : Z; v_begin : Z;
                      v_nofill : bool }.                        (* per-variable fill mode *)
Record hdr := mkhdr { h_format : Z; h_numrecs : Z; h_dims : list dim;
                      h_gatts : list att; h_vars : list var }.

Definition dim_size (dims : list dim) (id : Z) : Z :=
  d_size (znth dims id (mkdim [] 0)).

Definition var_shape (dims : list dim) (v : var) : list Z :=
  map (dim_size dims) (v_dimids v).

Definition is_recvar (dims : list dim) (v : var) : bool :=
  match var_shape dims v with
  | s0 :: _ => s0 =? 0
  | [] => false
  end.

(* product of the non-record dimensions = dsizes[0] (with the code's conventions) *)
Definition var_nelems_per_rec (shape : list Z) : Z :=
  match shape with
  | [] => 1
  | s0 :: r => if s0 =? 0 then zprod r else zprod shape
  end.

(* varp->len: product * xsz rounded up to 4 *)
Definition var_len_of (xsz : Z) (shape : list Z) : Z :=
  let l := var_nelems_per_rec shape * xsz in
  if l mod 4 >? 0 then l + (4 - l mod 4) else l.

Definition var_len (dims : list dim) (v : var) : Z :=
  var_len_of (xlen_type (v_type v)) (var_shape dims v).

(* ---------- encoder ---------- *)
Definition put_nn (fmt x : Z) : list byte := if fmt <? 5 then put_u32 x else put_u64 x.

Definition put_name (fmt : Z) (nm : list byte) : list byte :=
  put_nn fmt (Zlen nm) ++ nm ++ pad4 (Zlen nm).

Definition put_dim (fmt : Z) (d : dim) : list byte :=
  put_name fmt (d_name d) ++ put_nn fmt (d_size d).

Definition put_list {A} (fmt tag : Z) (f : A -> list byte) (l : list A) : list byte :=
  match l with
  | [] => put_u32 0 ++ put_nn fmt 0
  | _ => put_u32 tag ++ put_nn fmt (Zlen l) ++ flat_map f l
  end.

Definition put_att (fmt : Z) (a : att) : list byte :=
  put_name fmt (a_name a) ++ put_u32 (a_type a) ++ put_nn fmt (a_nelems a) ++
  (if a_nelems a >? 0 then a_data a ++ pad4 (Zlen (a_data a)) else []).

Definition vsize_field (fmt len : Z) : list byte :=
  if fmt <? 5 then
    (if len >? 4294967292 then put_u32 4294967295 else put_u32 (len mod 4294967296))
  else put_u64 len.

Definition put_var (fmt : Z) (dims : list dim) (v : var) : list byte :=
  put_name fmt (v_name v) ++ put_nn fmt (Zlen (v_dimids v)) ++
  flat_map (put_nn fmt) (v_dimids v) ++
  put_list fmt NC_ATTRIBUTE_TAG (put_att fmt) (v_atts v) ++
  put_u32 (v_type v) ++
  vsize_field fmt (var_len dims v) ++
  (if fmt =? 1 then put_u32 (v_begin v) else put_u64 (v_begin v)).

Definition magic (fmt : Z) : list byte := [67; 68; 70; (if fmt =? 5 then 5 else if fmt =? 2 then 2 else 1)].

Definition encode_header (h : hdr) : list byte :=
  let fmt := h_format h in
  magic fmt ++ put_nn fmt (h_numrecs h) ++
  put_list fmt NC_DIMENSION_TAG (put_dim fmt) (h_dims h) ++
  put_list fmt NC_ATTRIBUTE_TAG (put_att fmt) (h_gatts h) ++
  put_list fmt NC_VARIABLE_TAG (put_var fmt (h_dims h)) (h_vars h).

(* ---------- header length as the library computes it (ncmpio_hdr_len_NC) ---------- *)
Definition sz_nn (fmt : Z) : Z := if fmt =? 5 then 8 else 4.
Definition sz_off (fmt : Z) : Z := if fmt =? 1 then 4 else 8.

Definition len_att (fmt : Z) (a : att) : Z :=
  sz_nn fmt + rndup (Zlen (a_name a)) 4 + 4 + sz_nn fmt +
  rndup (a_nelems a * xlen_type (a_type a)) 4.

Definition len_attarray (fmt : Z) (l : list att) : Z :=
  4 + sz_nn fmt + zsum (map (len_att fmt) l).

Definition len_dim (fmt : Z) (d : dim) : Z :=
  sz_nn fmt + rndup (Zlen (d_name d)) 4 + sz_nn fmt.

Definition len_var (fmt : Z) (v : var) : Z :=
  sz_nn fmt + rndup (Zlen (v_name v)) 4 + sz_nn fmt + sz_nn fmt * Zlen (v_dimids v) +
  len_attarray fmt (v_atts v) + 4 + sz_nn fmt + sz_off fmt.

Definition hdr_len (h : hdr) : Z :=
  let fmt := h_format h in
  4 + sz_nn fmt +
  (4 + sz_nn fmt + zsum (map (len_dim fmt) (h_dims h))) +
  len_attarray fmt (h_gatts h) +
  (4 + sz_nn fmt + zsum (map (len_var fmt) (h_vars h))).

(* ---------- size rules (ncmpio_NC_check_vlen / check_vlens) ---------- *)
(* prod starts at xsz; dims after the record dim; the C division is truncating on
   non-negative operands, which Z./ matches *)
Fixpoint check_vlen_loop (shape : list Z) (prod vlen_max : Z) : bool :=
  match shape with
  | [] => true
  | s :: r => if s >? vlen_max / prod then false else check_vlen_loop r (prod * s) vlen_max
  end.

Definition check_vlen (xsz : Z) (shape : list Z) (vlen_max : Z) : bool :=
  match shape with
  | s0 :: r => if s0 =? 0 then check_vlen_loop r xsz vlen_max
               else check_vlen_loop shape xsz vlen_max
  | [] => true
  end.

Definition vlen_max_of (fmt : Z) : Z :=
  if fmt >=? 5 then NC_MAX_INT64 - 3 else if fmt =? 2 then NC_MAX_UINT - 3 else NC_MAX_INT - 3.

(* one pass of check_vlens over the variables selected by [sel]; returns
   (fatal, large_count, last) *)
Fixpoint vlens_pass (fmt vmax : Z) (vs : list (bool * Z * list Z)) (want_rec : bool)
         (cnt : Z) (last : bool) (nsel : Z) : option (Z * bool * Z) :=
  match vs with
  | [] => Some (cnt, last, nsel)
  | (isrec, xsz, shape) :: r =>
      if Bool.eqb isrec want_rec then
        if check_vlen xsz shape vmax then vlens_pass fmt vmax r want_rec cnt false (nsel + 1)
        else if fmt >=? 5 then None
        else vlens_pass fmt vmax r want_rec (cnt + 1) true (nsel + 1)
      else vlens_pass fmt vmax r want_rec cnt last nsel
  end.

Definition var_triple (dims : list dim) (v : var) : bool * Z * list Z :=
  (is_recvar dims v, xlen_type (v_type v), var_shape dims v).

Definition check_vlens (h : hdr) : Z :=
  let fmt := h_format h in
  let vmax := vlen_max_of fmt in
  let vs := map (var_triple (h_dims h)) (h_vars h) in
  match vs with
  | [] => NC_NOERR
  | _ =>
    match vlens_pass fmt vmax vs false 0 false 0 with
    | None => NC_EVARSIZE
    | Some (lf, lastf, _) =>
        if lf >? 1 then NC_EVARSIZE
        else if (lf =? 1) && negb lastf then NC_EVARSIZE
        else
          let nrec := Zlen (filter (fun t => fst (fst t)) vs) in
          if nrec =? 0 then NC_NOERR
          else if lf =? 1 then NC_EVARSIZE
          else match vlens_pass fmt vmax vs true 0 false 0 with
               | None => NC_EVARSIZE
               | Some (lr, lastr, _) =>
                   if lr >? 1 then NC_EVARSIZE
                   else if (lr =? 1) && negb lastr then NC_EVARSIZE
                   else NC_NOERR
               end
    end
  end.

(* ---------- layout: alignment resolution (ncmpio__enddef) and NC_begins ---------- *)
Record layout := mklayout { l_xsz : Z; l_begin_var : Z; l_begin_rec : Z; l_recsize : Z;
                            l_begins : list Z }.   (* per variable, definition order *)

Record aligncfg := mkalign { env_h_align : Z; env_v_align : Z; env_r_align : Z }.
Record enddef_args := mkeargs { e_h_minfree : Z; e_v_align : Z; e_v_minfree : Z; e_r_align : Z }.

(* (h_align, v_align, r_align) as resolved at the top of ncmpio__enddef *)
Definition resolve_align (cfg : aligncfg) (ea : enddef_args) (num_fix_vars : Z) (is_new : bool)
  : Z * Z * Z :=
  let h := env_h_align cfg in let v := env_v_align cfg in let r := env_r_align cfg in
  let h1 :=
    if h =? 0 then
      let h' := if v >? 0 then v else if e_v_align ea >? 0 then e_v_align ea else h in
      let h'' := if (h' =? 0) && (num_fix_vars =? 0)
                 then (if r >? 0 then r else if e_r_align ea >? 0 then e_r_align ea else h')
                 else h' in
      if (h'' =? 0) && is_new then FILE_ALIGNMENT_DEFAULT else h''
    else h in
  let v1 := if v =? 0 then (if e_v_align ea >? 0 then e_v_align ea else v) else v in
  let r1 := if r =? 0 then (if e_r_align ea >? 0 then e_r_align ea else r) else r in
  let fin x := if x =? 0 then 4 else rndup x 4 in
  (fin h1, fin v1, fin r1).

(* old-variable begins of the same kind, consumed in order (the j cursor of NC_begins) *)
Fixpoint begins_fixed (fmt : Z) (vs : list (bool * Z)) (* (isrec, len) in definition order *)
         (oldb : list Z) (* begins of old fixed variables still unconsumed *)
         (end_var : Z) (acc : list (option Z)) : option (Z * list (option Z)) :=
  match vs with
  | [] => Some (end_var, rev acc)
  | (true, _) :: r => begins_fixed fmt r oldb end_var (None :: acc)
  | (false, len) :: r =>
      if (fmt =? 1) && (end_var >? NC_MAX_INT) then None
      else
        let b0 := rndup end_var 4 in
        let '(b, oldb') := match oldb with
                           | ob :: ro => (if b0 <? ob then ob else b0, ro)
                           | [] => (b0, [])
                           end in
        begins_fixed fmt r oldb' (b + len) (Some b :: acc)
  end.

Fixpoint begins_rec (fmt : Z) (vs : list (bool * Z)) (oldb : list Z) (end_var recsize : Z)
         (lastlen : option Z) (acc : list (option Z))
  : option (Z * Z * option Z * list (option Z)) :=
  match vs with
  | [] => Some (end_var, recsize, lastlen, rev acc)
  | (false, _) :: r => begins_rec fmt r oldb end_var recsize lastlen (None :: acc)
  | (true, len) :: r =>
      if (fmt =? 1) && (end_var >? NC_MAX_INT) then None
      else
        let '(b, oldb') := match oldb with
                           | ob :: ro => (if end_var <? ob then ob else end_var, ro)
                           | [] => (end_var, [])
                           end in
        begins_rec fmt r oldb' (end_var + len) (recsize + len) (Some len) (Some b :: acc)
  end.

Fixpoint merge_opts (a b : list (option Z)) : list Z :=
  match a, b with
  | Some x :: a', _ :: b' => x :: merge_opts a' b'
  | None :: a', Some y :: b' => y :: merge_opts a' b'
  | None :: a', None :: b' => 0 :: merge_opts a' b'
  | _, _ => []
  end.

(* old = layout + (isrec per old variable) of the header saved at redef; prev_begin_rec is
   the value ncp->begin_rec holds when NC_begins is entered (0 on a new file) *)
Definition begins (h : hdr) (h_minfree v_minfree h_align r_align : Z)
           (old : option (layout * list bool)) (prev_begin_rec : Z) : option layout :=
  let fmt := h_format h in
  let dims := h_dims h in
  let vs := map (fun v => (is_recvar dims v, var_len dims v)) (h_vars h) in
  let xsz := hdr_len h in
  let bv0 := match h_vars h with [] => xsz | _ => rndup (xsz + h_minfree) h_align end in
  let bv1 := match old with
             | Some (ol, _) => if bv0 <? l_begin_var ol then l_begin_var ol else bv0
             | None => bv0 end in
  let old_fixed := match old with
                   | Some (ol, recs) => map snd (filter (fun p => negb (fst p)) (zip recs (l_begins ol)))
                   | None => [] end in
  let old_recb := match old with
                  | Some (ol, recs) => map snd (filter (fun p => fst p) (zip recs (l_begins ol)))
                  | None => [] end in
  match begins_fixed fmt vs old_fixed bv1 [] with
  | None => None
  | Some (end_fixed, fb) =>
      let br0 := if prev_begin_rec <? end_fixed + v_minfree then end_fixed + v_minfree
                 else prev_begin_rec in
      let br1 := rndup br0 4 in
      let br2 := if r_align >? 1 then rndup br1 r_align else br1 in
      let br3 := match old with
                 | Some (ol, _) => if br2 <? l_begin_rec ol then l_begin_rec ol else br2
                 | None => br2 end in
      match begins_rec fmt vs old_recb br3 0 None [] with
      | None => None
      | Some (_, recsize0, lastlen, rb) =>
          let bl := merge_opts fb rb in
          let first_fixed := find_index (fun p => negb (fst p)) vs 0 in
          let begin_var := match first_fixed with
                           | Some i => znth bl i 0
                           | None => br3 end in
          (* single record variable: recsize is the unpadded size *)
          let last_rec := last_opt (filter (fun v => is_recvar dims v) (h_vars h)) in
          let recsize := match last_rec, lastlen with
                         | Some lv, Some ll =>
                             if recsize0 =? ll
                             then var_nelems_per_rec (var_shape dims lv) * xlen_type (v_type lv)
                             else recsize0
                         | _, _ => recsize0 end in
          Some (mklayout xsz begin_var br3 recsize bl)
      end
  end.

Definition set_begins (h : hdr) (bl : list Z) : hdr :=
  mkhdr (h_format h) (h_numrecs h) (h_dims h) (h_gatts h)
        (map (fun p => let v := fst p in
                       mkvar (v_name v) (v_dimids v) (v_atts v) (v_type v) (snd p) (v_nofill v))
             (zip (h_vars h) bl)).

Definition set_numrecs (h : hdr) (n : Z) : hdr :=
  mkhdr (h_format h) n (h_dims h) (h_gatts h) (h_vars h).
