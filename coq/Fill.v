(* Fill.v — fill at enddef: per-rank partition and the write plan of fillerup_aggregate
   (ncmpio_fill.c).  Executable. *)
From Pnc Require Export Disk.
Local Open Scope Z_scope.

(* ---------- fill (fillerup_aggregate) ---------- *)
Definition var_fill_bytes (v : var) : list byte :=
  match find_att (v_atts v) fillvalue_name with
  | Some i => let a := znth (v_atts v) i (mkatt [] 0 0 []) in a_data a
  | None => fill_bytes (v_type v)
  end.

(* per-rank share (start element, count) of var_len elements *)
Definition fill_share (nprocs rank var_len : Z) : Z * Z :=
  let c := var_len / nprocs in
  let st := c * rank in
  if rank <? var_len mod nprocs then (st + rank, c + 1) else (st + var_len mod nprocs, c).

(* the segments (byte offset, element count, variable) rank writes *)
Definition fill_plan (h : hdr) (lay : layout) (start_vid nrecs nprocs rank : Z) : list (Z * Z * var) :=
  let dims := h_dims h in
  let newvars := zskipn start_vid (h_vars h) in
  let fillable := filter (fun v => negb (v_nofill v)) newvars in
  let fixed := flat_map (fun v =>
      if is_recvar dims v then []
      else let vl := var_nelems_per_rec (var_shape dims v) in
           let '(st, c) := fill_share nprocs rank vl in
           [(v_begin v + st * xlen_type (v_type v), c, v)]) fillable in
  let recs := flat_map (fun recno =>
      flat_map (fun v =>
        if negb (is_recvar dims v) then []
        else let vl := var_nelems_per_rec (var_shape dims v) in
             let '(st, c) := fill_share nprocs rank vl in
             [(v_begin v + l_recsize lay * recno + st * xlen_type (v_type v), c, v)]) fillable)
      (zrange 0 nrecs) in
  fixed ++ recs.

Definition repeat_bytes (bs : list byte) (n : Z) : list byte :=
  flat_map (fun _ => bs) (zrange 0 n).

Definition do_fill (d : disk) (h : hdr) (lay : layout) (start_vid nrecs nprocs : Z) : disk :=
  fold_left (fun acc rank =>
     fold_left (fun acc2 seg => let '(off, c, v) := seg in
                                dk_write acc2 off (repeat_bytes (var_fill_bytes v) c))
               (fill_plan h lay start_vid nrecs nprocs rank) acc)
     (zrange 0 nprocs) d.

(* _FillValue attribute of a fill-mode variable must have the variable's type and length 1 *)
Definition fill_att_ok (v : var) : bool :=
  match find_att (v_atts v) fillvalue_name with
  | Some i => let a := znth (v_atts v) i (mkatt [] 0 0 []) in
              (a_type a =? v_type v) && (a_nelems a =? 1)
  | None => true
  end.

