(* Properties_C02.v — statements only: each property theorem is stated in full and closed by
   `exact <lemma>`; the lemmas live in the Proofs_*.v files.  Assembled by tools/mkprops.py. *)
(* C02 Nonblocking request aggregation is equivalent to blocking execution (model: Nonblocking.v; statement-level *)
(* definitions: NbSpec.v).  queue_inv (= NbSpec.nb_inv + parity of the id counters, nb_inv_full) holds initially and is *)
(* preserved by every accepted post (sorted insertion, record / varn splitting), every cancel and every wait that returns *)
(* NC_NOERR, hence over all histories (nb_run_inv).  Writes to pairwise disjoint byte ranges commute; for ANY sorted *)
(* permutation qsort returns and ANY partition into groups, the single (file type, buffer type) pair of a wait moves *)
(* exactly the bytes of the blocking calls when no file byte is addressed twice; hence wait refines blocking execution for *)
(* puts (any argument form, any order).  The model carries BOTH variants of extract_reqs (argument fx; the check reads the *)
(* variant from the sources as built).  FALSE of the snapshot variant (fx = false), refuted by a witness replayed on the library *)
(* (findings): reads completed together that overlap (F2), statuses / unnamed requests under the "same as ALL" *)
(* shortcuts (F3), a failed wait is not without effect (numrecs after a wait, F1, was repaired in /repo and is now proved in full); *)
(* each comes with the partial theorem that does hold. *)
From Coq Require Import ZArith List.
From Pnc Require Import NbSpec.
From Pnc Require Import Proofs_NbGeom.
From Pnc Require Import Proofs_NbSegs.
From Pnc Require Import Proofs_NbQueue.
From Pnc Require Import Proofs_NbWait.
From Pnc Require Import Proofs_Nonblocking.
Set Printing Width 100.
Set Printing Depth 100000.

Theorem C02_queue_inv_init :
  nb_inv_full init_state.
Proof. exact @nb_inv_full_init. Qed.
Print Assumptions C02_queue_inv_init.

Theorem C02_queue_inv_post_varm :
  forall (st : nbstate) (k : nkind) (g : geom) (start count : list Z)
           (stride : option (list Z)) (xaddr : Z) (data : list byte) (sw : bool) 
           (tag : Z),
         nb_inv_full st ->
         post_ok g start count stride ->
         nb_inv_full (fst (fst (post_varm st k g start count stride xaddr data sw tag))).
Proof. exact @post_varm_preserves_inv. Qed.
Print Assumptions C02_queue_inv_post_varm.

Theorem C02_queue_inv_post_varn :
  forall (st : nbstate) (k : nkind) (g : geom) (parts : list (list Z * option (list Z)))
           (xaddr : Z) (data : list byte) (sw : bool) (tag : Z),
         nb_inv_full st ->
         postn_ok g parts -> nb_inv_full (fst (fst (post_varn st k g parts xaddr data sw tag))).
Proof. exact @post_varn_preserves_inv. Qed.
Print Assumptions C02_queue_inv_post_varn.

Theorem C02_queue_inv_cancel :
  forall (st : nbstate) (n : Z) (ids stat0 : list Z),
         nb_inv_full st -> nb_inv_full (wr_st (cancel st n ids stat0)).
Proof. exact @cancel_inv. Qed.
Print Assumptions C02_queue_inv_cancel.

Theorem C02_queue_inv_wait :
  forall (sr : list areq -> list areq) (ss : list seg -> list seg) 
           (fx : bool) (st : nbstate) (a : waitargs) (file : disk),
         nb_inv_full st ->
         wr_rc (fst (wait_one sr ss fx st a file)) = NC_NOERR ->
         nb_inv_full (wr_st (fst (wait_one sr ss fx st a file))).
Proof. exact @wait_one_preserves_inv. Qed.
Print Assumptions C02_queue_inv_wait.

Theorem C02_queue_inv_histories :
  forall (sr : list areq -> list areq) (ss : list seg -> list seg) 
           (fx : bool) (ops : list nbop) (sf : nbstate * disk),
         nb_inv_full (fst sf) -> run_ok sr ss fx sf ops -> nb_inv_full (fst (nb_run sr ss fx sf ops)).
Proof. exact @nb_run_inv. Qed.
Print Assumptions C02_queue_inv_histories.

Theorem C02_enqueue_inv :
  forall (isput : bool) (maxid : Z) (sorted : bool) (key : Z) (leads : list lead)
           (reqs : list req) (mk_lead : Z -> lead) (mk_reqs : Z -> list req) 
           (n id : Z) (leads' : list lead) (reqs' : list req),
         queue_inv isput maxid leads reqs ->
         Forall (fun l : lead => (l_id l < id)%Z) leads ->
         Z.even id = isput ->
         (0 <= id)%Z ->
         (0 < n)%Z ->
         (forall off : Z,
          l_id (mk_lead off) = id /\
          l_nonlead_off (mk_lead off) = off /\
          l_nonlead_num (mk_lead off) = n /\ l_to_free (mk_lead off) = false) ->
         (forall off lo : Z,
          Forall
            (fun q : req => areq_wf {| a_req := q; a_lead := mk_lead off; a_start := 0; a_end := 0 |})
            (mk_reqs lo) /\
          flat_map
            (fun q : req =>
             areq_pairs {| a_req := q; a_lead := mk_lead off; a_start := 0; a_end := 0 |})
            (mk_reqs lo) = lead_pairs (mk_lead off) /\
          Forall (fun q : req => r_lead_off q = lo) (mk_reqs lo) /\ Zlen (mk_reqs lo) = n) ->
         enqueue sorted key leads reqs mk_lead mk_reqs n = (leads', reqs') ->
         queue_inv isput id leads' reqs' /\
         (exists (kept shifted : list lead) (off : Z),
            leads = kept ++ shifted /\
            (sorted = false -> shifted = []) /\ leads' = kept ++ mk_lead off :: shift_leads n shifted).
Proof. exact @enqueue_inv. Qed.
Print Assumptions C02_enqueue_inv.

Theorem C02_wait_leads_kept :
  forall (sr : list areq -> list areq) (ss : list seg -> list seg) 
           (fx : bool) (st : nbstate) (a : waitargs) (file : disk),
         nb_inv st ->
         wr_rc (fst (wait_one sr ss fx st a file)) = NC_NOERR ->
         put_lead (wr_st (fst (wait_one sr ss fx st a file))) =
         kept
           (put_lead (ex_st (extract_reqs fx st (wa_n a) (wa_ids a) (wa_has_stat a) (wa_stat0 a)))) /\
         get_lead (wr_st (fst (wait_one sr ss fx st a file))) =
         kept
           (get_lead (ex_st (extract_reqs fx st (wa_n a) (wa_ids a) (wa_has_stat a) (wa_stat0 a)))).
Proof. exact @wait_one_leads. Qed.
Print Assumptions C02_wait_leads_kept.

Theorem C02_dk_write_commute :
  forall (d : disk) (o1 : Z) (b1 : list byte) (o2 : Z) (b2 : list byte),
         (o1 + Zlen b1 <= o2)%Z \/ (o2 + Zlen b2 <= o1)%Z ->
         disk_eq (dk_write (dk_write d o1 b1) o2 b2) (dk_write (dk_write d o2 b2) o1 b1).
Proof. exact @dk_write_commute. Qed.
Print Assumptions C02_dk_write_commute.

Theorem C02_disjoint_writes_commute :
  forall (tiles tiles' : list (Z * list byte)) (d : disk),
         Permutation tiles tiles' ->
         tiles_disjoint tiles ->
         disk_eq (Proofs_Disk.write_tiles tiles d) (Proofs_Disk.write_tiles tiles' d).
Proof. exact @disjoint_writes_commute. Qed.
Print Assumptions C02_disjoint_writes_commute.

Theorem C02_request_filetype_is_spec :
  forall a : areq,
         areq_wf a -> zip (blocks_bytes (snd (req_ftype a))) (expand (req_bblock a)) = areq_pairs a.
Proof. exact @req_ftype_pairs. Qed.
Print Assumptions C02_request_filetype_is_spec.

Theorem C02_request_flatten_is_spec :
  forall a : areq, areq_wf a -> segs_pairs (vars_flatten a) = areq_pairs a.
Proof. exact @vars_flatten_pairs. Qed.
Print Assumptions C02_request_flatten_is_spec.

Theorem C02_record_split_is_spec :
  forall (l : lead) (g : geom) (lo : Z) (start count strd : list Z) (xaddr : Z),
         g_isrec g = true ->
         wf_geom g ->
         rec_fits g ->
         req_ok (g_shape g) start count strd ->
         (0 < zprod count)%Z ->
         l_geom l = g ->
         l_stride l = stride_eff (Some strd) ->
         flat_map (fun q : req => areq_pairs {| a_req := q; a_lead := l; a_start := 0; a_end := 0 |})
           (rec_split lo start count
              match stride_eff (Some strd) with
              | Some t => hd 1%Z t
              | None => 1
              end (hd 1%Z count) (zprod count / hd 1%Z count) xaddr (g_xsz g)) =
         part_pairs g (start, count, strd) xaddr.
Proof. exact @rec_split_pairs. Qed.
Print Assumptions C02_record_split_is_spec.

Theorem C02_post_varm_requests_are_spec :
  forall (g : geom) (start count : list Z) (stride : option (list Z)) 
           (xaddr lo : Z) (l : lead),
         post_ok g start count stride ->
         (0 < zprod count * g_xsz g)%Z ->
         l_geom l = g ->
         l_stride l = stride_eff stride ->
         l_xaddr l = xaddr ->
         l_orig l = [(start, count, match stride with
                                    | Some t => t
                                    | None => ones_like count
                                    end)] ->
         let reqs :=
           if g_isrec g
           then
            rec_split lo start count
              match stride_eff stride with
              | Some t => hd 1%Z t
              | None => 1
              end (hd 1%Z count) (zprod count / hd 1%Z count) xaddr (g_xsz g)
           else
            [{|
               r_lead_off := lo;
               r_start := start;
               r_count := count;
               r_nelems := zprod count;
               r_xaddr := xaddr
             |}] in
         Forall (fun q : req => areq_wf {| a_req := q; a_lead := l; a_start := 0; a_end := 0 |}) reqs /\
         flat_map (fun q : req => areq_pairs {| a_req := q; a_lead := l; a_start := 0; a_end := 0 |})
           reqs = lead_pairs l /\
         Forall (fun q : req => r_lead_off q = lo) reqs /\
         Zlen reqs = (if g_isrec g then hd 1%Z count else 1%Z) /\ (0 < Zlen reqs)%Z.
Proof. exact @post_varm_reqs_ok. Qed.
Print Assumptions C02_post_varm_requests_are_spec.

Theorem C02_post_varn_requests_are_spec :
  forall (g : geom) (parts : list (list Z * option (list Z))) (xaddr lo : Z) (l : lead),
         postn_ok g parts ->
         l_geom l = g ->
         l_stride l = None ->
         l_xaddr l = xaddr ->
         l_orig l =
         map
           (fun p : list Z * option (list Z) =>
            (fst p, part_count (fst p) (snd p), ones_like (fst p)))
           (filter
              (fun p : list Z * option (list Z) => negb (zprod (part_count (fst p) (snd p)) =? 0)%Z)
              parts) ->
         let reqs := varn_reqs (g_isrec g) lo (g_xsz g) parts xaddr in
         Forall (fun q : req => areq_wf {| a_req := q; a_lead := l; a_start := 0; a_end := 0 |}) reqs /\
         flat_map (fun q : req => areq_pairs {| a_req := q; a_lead := l; a_start := 0; a_end := 0 |})
           reqs = lead_pairs l /\
         Forall (fun q : req => r_lead_off q = lo) reqs /\
         Zlen reqs =
         zsum
           (map
              (fun p : list Z * option (list Z) =>
               if g_isrec g then hd 1%Z (part_count (fst p) (snd p)) else 1%Z)
              (filter
                 (fun p : list Z * option (list Z) =>
                  negb (zprod (part_count (fst p) (snd p)) =? 0)%Z) parts)).
Proof. exact @post_varn_reqs_ok. Qed.
Print Assumptions C02_post_varn_requests_are_spec.

Theorem C02_merge_segs_disjoint :
  forall (s : seg) (r : list seg),
         StronglySorted (fun a b : seg => (s_off a <= s_off b)%Z) (s :: r) ->
         Forall (fun x : seg => (0 < s_len x)%Z) (s :: r) ->
         NoDup (map fst (segs_pairs (s :: r))) -> segs_pairs (merge_segs s r) = segs_pairs (s :: r).
Proof. exact @merge_segs_disjoint. Qed.
Print Assumptions C02_merge_segs_disjoint.

Theorem C02_partition_groups_concat :
  forall l : list areq, flat_map snd (partition_groups l) = l.
Proof. exact @partition_groups_concat. Qed.
Print Assumptions C02_partition_groups_concat.

Theorem C02_mpi_write_is_byte_pairs :
  forall (file mem : disk) (t : iotypes),
         Forall (fun b : Z * Z => (0 <= snd b)%Z) (io_f t) ->
         Forall (fun b : Z * Z => (0 <= snd b)%Z) (io_b t) ->
         zsum (map snd (io_f t)) = zsum (map snd (io_b t)) ->
         disk_eq (mpi_write file mem t) (write_pairs file mem (io_pairs t)).
Proof. exact @mpi_write_pairs. Qed.
Print Assumptions C02_mpi_write_is_byte_pairs.

Theorem C02_commit_stream_correct :
  forall (sort_reqs : list areq -> list areq) (sort_segs : list seg -> list seg)
           (leads : list lead) (reqs : list req) (file mem : disk),
         sorter_ok a_start sort_reqs ->
         sorter_ok s_off sort_segs ->
         Forall areq_wf (map (annotate leads) reqs) ->
         NoDup (map fst (flat_map areq_pairs (map (annotate leads) reqs))) ->
         disk_eq (mpi_write file mem (aggregate sort_reqs sort_segs leads reqs))
           (write_pairs file mem (flat_map areq_pairs (map (annotate leads) reqs))).
Proof. exact @commit_stream_correct_write. Qed.
Print Assumptions C02_commit_stream_correct.

Theorem C02_commit_stream_correct_any_grouping :
  forall (sort_segs : list seg -> list seg) (gs : list (bool * list areq)) (file mem : disk),
         sorter_ok s_off sort_segs ->
         Forall areq_wf (flat_map snd gs) ->
         NoDup (map fst (flat_map areq_pairs (flat_map snd gs))) ->
         disk_eq (mpi_write file mem (types_of_groups sort_segs gs))
           (write_pairs file mem (flat_map areq_pairs (flat_map snd gs))).
Proof. exact @groups_stream_correct_write. Qed.
Print Assumptions C02_commit_stream_correct_any_grouping.

Theorem C02_commit_stream_correct_read_partial :
  forall (sort_reqs : list areq -> list areq) (sort_segs : list seg -> list seg)
           (leads : list lead) (reqs : list req) (file mem : disk),
         sorter_ok a_start sort_reqs ->
         sorter_ok s_off sort_segs ->
         Forall areq_wf (map (annotate leads) reqs) ->
         NoDup (map fst (flat_map areq_pairs (map (annotate leads) reqs))) ->
         NoDup (map snd (flat_map areq_pairs (map (annotate leads) reqs))) ->
         disk_eq (mpi_read file mem (aggregate sort_reqs sort_segs leads reqs))
           (read_pairs file mem (flat_map areq_pairs (map (annotate leads) reqs))).
Proof. exact @commit_stream_correct_read_partial. Qed.
Print Assumptions C02_commit_stream_correct_read_partial.

Theorem C02_insertion_sort_is_a_qsort :
  forall (A : Type) (key : A -> Z), sorter_ok key (isort key).
Proof. exact @isort_sorter_ok. Qed.
Print Assumptions C02_insertion_sort_is_a_qsort.

Theorem C02_extracted_requests_are_the_flagged_slices :
  forall (fx : bool) (st : nbstate) (n : Z) (ids : list Z) (hs : bool) (stat0 : list Z),
         nb_inv st ->
         ex_err (extract_reqs fx st n ids hs stat0) = NC_NOERR ->
         Forall areq_wf
           (map (annotate (put_lead (ex_st (extract_reqs fx st n ids hs stat0))))
              (ex_put (extract_reqs fx st n ids hs stat0))) /\
         Permutation
           (flat_map areq_pairs
              (map (annotate (put_lead (ex_st (extract_reqs fx st n ids hs stat0))))
                 (ex_put (extract_reqs fx st n ids hs stat0))))
           (flat_map lead_pairs (flagged (put_lead (ex_st (extract_reqs fx st n ids hs stat0))))).
Proof. exact @wait_put_pairs. Qed.
Print Assumptions C02_extracted_requests_are_the_flagged_slices.

Theorem C02_wait_refines_blocking_put :
  forall (sr : list areq -> list areq) (ss : list seg -> list seg) 
           (fx : bool) (st : nbstate) (a : waitargs) (file : disk),
         sorter_ok a_start sr ->
         sorter_ok s_off ss ->
         nb_inv st ->
         ex_err (extract_reqs fx st (wa_n a) (wa_ids a) (wa_has_stat a) (wa_stat0 a)) = NC_NOERR ->
         NoDup
           (map fst
              (flat_map lead_pairs
                 (flagged
                    (put_lead
                       (ex_st (extract_reqs fx st (wa_n a) (wa_ids a) (wa_has_stat a) (wa_stat0 a))))))) ->
         disk_eq (snd (wait_one sr ss fx st a file))
           (fold_left (fun (f : disk) (l : lead) => blocking_put f (st_mem st) l)
              (flagged
                 (put_lead
                    (ex_st (extract_reqs fx st (wa_n a) (wa_ids a) (wa_has_stat a) (wa_stat0 a)))))
              file).
Proof. exact @wait_refines_blocking_put. Qed.
Print Assumptions C02_wait_refines_blocking_put.

Theorem C02_wait_refines_blocking_put_any_order :
  forall (sr : list areq -> list areq) (ss : list seg -> list seg) 
           (fx : bool) (st : nbstate) (a : waitargs) (file : disk) (leads' : list lead),
         sorter_ok a_start sr ->
         sorter_ok s_off ss ->
         nb_inv st ->
         ex_err (extract_reqs fx st (wa_n a) (wa_ids a) (wa_has_stat a) (wa_stat0 a)) = NC_NOERR ->
         NoDup
           (map fst
              (flat_map lead_pairs
                 (flagged
                    (put_lead
                       (ex_st (extract_reqs fx st (wa_n a) (wa_ids a) (wa_has_stat a) (wa_stat0 a))))))) ->
         Permutation leads'
           (flagged
              (put_lead (ex_st (extract_reqs fx st (wa_n a) (wa_ids a) (wa_has_stat a) (wa_stat0 a))))) ->
         disk_eq (snd (wait_one sr ss fx st a file))
           (fold_left (fun (f : disk) (l : lead) => blocking_put f (st_mem st) l) leads' file).
Proof. exact @wait_refines_blocking_put_any_order. Qed.
Print Assumptions C02_wait_refines_blocking_put_any_order.

Theorem C02_one_process_write_is_blocking_puts :
  forall (sr : list areq -> list areq) (ss : list seg -> list seg) 
           (fx : bool) (st : nbstate) (n : Z) (ids : list Z) (hs : bool) 
           (stat0 : list Z) (f : disk),
         sorter_ok a_start sr ->
         sorter_ok s_off ss ->
         nb_inv st ->
         ex_err (extract_reqs fx st n ids hs stat0) = NC_NOERR ->
         NoDup
           (map fst
              (flat_map lead_pairs (flagged (put_lead (ex_st (extract_reqs fx st n ids hs stat0)))))) ->
         disk_eq
           (mpi_write f (st_mem st)
              (aggregate sr ss (put_lead (ex_st (extract_reqs fx st n ids hs stat0)))
                 (ex_put (extract_reqs fx st n ids hs stat0))))
           (fold_left (fun (f0 : disk) (l : lead) => blocking_put f0 (st_mem st) l)
              (flagged (put_lead (ex_st (extract_reqs fx st n ids hs stat0)))) f).
Proof. exact @rank_put_correct. Qed.
Print Assumptions C02_one_process_write_is_blocking_puts.

(* collective wait of any number of processes, any arguments per process (processes applied in rank order) *)
Theorem C02_wait_all_refines_blocking_put :
  forall (sr : list areq -> list areq) (ss : list seg -> list seg) 
           (fx : bool) (sa : list (nbstate * waitargs)) (file : disk),
         sorter_ok a_start sr ->
         sorter_ok s_off ss ->
         Forall (fun p : nbstate * waitargs => nb_inv (fst p)) sa ->
         Forall
           (fun p : nbstate * waitargs =>
            ex_err
              (extract_reqs fx (fst p) (wa_n (snd p)) (wa_ids (snd p)) (wa_has_stat (snd p))
                 (wa_stat0 (snd p))) = NC_NOERR) sa ->
         Forall
           (fun p : nbstate * waitargs =>
            NoDup
              (map fst
                 (flat_map lead_pairs
                    (flagged
                       (put_lead
                          (ex_st
                             (extract_reqs fx (fst p) (wa_n (snd p)) (wa_ids (snd p))
                                (wa_has_stat (snd p)) (wa_stat0 (snd p))))))))) sa ->
         disk_eq (snd (wait_coll sr ss fx (map fst sa) (map snd sa) file))
           (fold_left
              (fun (f : disk) (p : nbstate * waitargs) =>
               fold_left (fun (f0 : disk) (l : lead) => blocking_put f0 (st_mem (fst p)) l)
                 (flagged
                    (put_lead
                       (ex_st
                          (extract_reqs fx (fst p) (wa_n (snd p)) (wa_ids (snd p))
                             (wa_has_stat (snd p)) (wa_stat0 (snd p)))))) f) sa file).
Proof. exact @wait_coll_refines_blocking_put. Qed.
Print Assumptions C02_wait_all_refines_blocking_put.

(* F2 witness: two gets of the same two elements completed by one wait: the second buffer is never filled *)
Theorem C02_wait_refines_blocking_get_refuted :
  forall fx : bool, ~ wait_refines_blocking_get_full fx.
Proof. exact @wait_refines_blocking_get_refuted. Qed.
Print Assumptions C02_wait_refines_blocking_get_refuted.

Theorem C02_wait_refines_blocking_get_partial :
  forall (sr : list areq -> list areq) (ss : list seg -> list seg) 
           (fx : bool) (st : nbstate) (a : waitargs) (file : disk),
         sorter_ok a_start sr ->
         sorter_ok s_off ss ->
         nb_inv st ->
         ex_err (extract_reqs fx st (wa_n a) (wa_ids a) (wa_has_stat a) (wa_stat0 a)) = NC_NOERR ->
         NoDup
           (map fst
              (flat_map lead_pairs
                 (flagged
                    (get_lead
                       (ex_st (extract_reqs fx st (wa_n a) (wa_ids a) (wa_has_stat a) (wa_stat0 a))))))) ->
         NoDup
           (map snd
              (flat_map lead_pairs
                 (flagged
                    (get_lead
                       (ex_st (extract_reqs fx st (wa_n a) (wa_ids a) (wa_has_stat a) (wa_stat0 a))))))) ->
         disk_eq (st_mem (wr_st (fst (wait_one sr ss fx st a file))))
           (fold_left
              (fun (m : disk) (l : lead) => blocking_get (snd (wait_one sr ss fx st a file)) m l)
              (flagged
                 (get_lead
                    (ex_st (extract_reqs fx st (wa_n a) (wa_ids a) (wa_has_stat a) (wa_stat0 a)))))
              (st_mem st)).
Proof. exact @wait_refines_blocking_get_partial. Qed.
Print Assumptions C02_wait_refines_blocking_get_partial.

(* FULL statement for the repaired extract_reqs (fx = true, patches/F3_poison.diff): the status pointer of a completed request is the slot of a position naming it *)
Theorem C02_status_own :
  status_own_full true.
Proof. exact @status_own. Qed.
Print Assumptions C02_status_own.

Theorem C02_status_own_fixed :
  forall (st : nbstate) (n : Z) (ids stat0 : list Z),
         nb_inv st ->
         (0 <= n)%Z ->
         n = Zlen ids ->
         ex_err (extract_reqs true st n ids true stat0) = NC_NOERR ->
         forall (l' : lead) (i : Z),
         In l'
           (put_lead (ex_st (extract_reqs true st n ids true stat0)) ++
            get_lead (ex_st (extract_reqs true st n ids true stat0))) ->
         l_to_free l' = true -> l_status l' = Some i -> znth ids i NC_REQ_NULL = l_id l'.
Proof. exact @status_own_fixed. Qed.
Print Assumptions C02_status_own_fixed.

Theorem C02_named_iff_completed :
  forall (st : nbstate) (n : Z) (ids : list Z) (hs : bool) (stat0 : list Z),
         nb_inv st ->
         (0 <= n)%Z ->
         n = Zlen ids ->
         ex_err (extract_reqs true st n ids hs stat0) = NC_NOERR ->
         forall l' : lead,
         In l'
           (put_lead (ex_st (extract_reqs true st n ids hs stat0)) ++
            get_lead (ex_st (extract_reqs true st n ids hs stat0))) ->
         l_to_free l' = true <-> In (l_id l') ids.
Proof. exact @subset_flags_fixed. Qed.
Print Assumptions C02_named_iff_completed.

Theorem C02_ids_reset :
  forall (st : nbstate) (n : Z) (ids : list Z) (hs : bool) (stat0 : list Z),
         nb_inv st ->
         (0 <= n)%Z ->
         n = Zlen ids ->
         ex_err (extract_reqs true st n ids hs stat0) = NC_NOERR ->
         forall i : Z,
         (0 <= i < Zlen ids)%Z ->
         znth (ex_ids (extract_reqs true st n ids hs stat0)) i 0%Z = NC_REQ_NULL.
Proof. exact @ids_reset_fixed. Qed.
Print Assumptions C02_ids_reset.

Theorem C02_statuses_noerr :
  forall (st : nbstate) (n : Z) (ids stat0 : list Z),
         nb_inv st ->
         (0 <= n)%Z ->
         n = Zlen ids ->
         ex_err (extract_reqs true st n ids true stat0) = NC_NOERR ->
         Zlen stat0 = Zlen ids ->
         forall i : Z,
         (0 <= i < Zlen ids)%Z ->
         znth (ex_stat (extract_reqs true st n ids true stat0)) i 0%Z = NC_NOERR.
Proof. exact @statuses_fixed. Qed.
Print Assumptions C02_statuses_noerr.

(* F3 witness: two pending puts (ids 0, 2) named as [2; 0]: statuses[0] is bound to the request with id 0 *)
Theorem C02_status_own_old_refuted :
  ~ status_own_full false.
Proof. exact @status_own_old_refuted. Qed.
Print Assumptions C02_status_own_old_refuted.

Theorem C02_status_own_partial :
  forall (st : nbstate) (n : Z) (ids stat0 : list Z),
         nb_inv st ->
         no_shortcut st n ->
         (0 <= n)%Z ->
         ex_err (extract_reqs false st n ids true stat0) = NC_NOERR ->
         forall (l' : lead) (i : Z),
         In l'
           (put_lead (ex_st (extract_reqs false st n ids true stat0)) ++
            get_lead (ex_st (extract_reqs false st n ids true stat0))) ->
         l_to_free l' = true -> l_status l' = Some i -> znth ids i NC_REQ_NULL = l_id l'.
Proof. exact @status_own_partial. Qed.
Print Assumptions C02_status_own_partial.

Theorem C02_named_iff_completed_partial :
  forall (st : nbstate) (n : Z) (ids stat0 : list Z),
         nb_inv st ->
         no_shortcut st n ->
         (0 <= n)%Z ->
         ex_err (extract_reqs false st n ids true stat0) = NC_NOERR ->
         forall l' : lead,
         In l'
           (put_lead (ex_st (extract_reqs false st n ids true stat0)) ++
            get_lead (ex_st (extract_reqs false st n ids true stat0))) ->
         l_to_free l' = true <-> In (l_id l') ids.
Proof. exact @subset_flags. Qed.
Print Assumptions C02_named_iff_completed_partial.

Theorem C02_ids_reset_partial :
  forall (st : nbstate) (n : Z) (ids stat0 : list Z),
         nb_inv st ->
         no_shortcut st n ->
         (0 <= n)%Z ->
         ex_err (extract_reqs false st n ids true stat0) = NC_NOERR ->
         forall i : Z,
         (0 <= i < Zlen ids)%Z ->
         znth (ex_ids (extract_reqs false st n ids true stat0)) i 0%Z = NC_REQ_NULL.
Proof. exact @subset_ids_reset. Qed.
Print Assumptions C02_ids_reset_partial.

Theorem C02_statuses_noerr_partial :
  forall (st : nbstate) (n : Z) (ids stat0 : list Z),
         nb_inv st ->
         no_shortcut st n ->
         (0 <= n)%Z ->
         ex_err (extract_reqs false st n ids true stat0) = NC_NOERR ->
         forall i : Z,
         (0 <= i < Zlen ids)%Z ->
         Zlen stat0 = Zlen ids ->
         znth (ex_stat (extract_reqs false st n ids true stat0)) i 0%Z = NC_NOERR.
Proof. exact @subset_statuses. Qed.
Print Assumptions C02_statuses_noerr_partial.

Theorem C02_all_forms_complete_the_kind :
  forall (fx : bool) (st : nbstate) (n : Z) (ids : list Z) (hs : bool) (stat0 : list Z),
         nb_inv st ->
         (n < 0)%Z ->
         ex_err (extract_reqs fx st n ids hs stat0) = NC_NOERR /\
         (forall l' : lead,
          In l' (put_lead (ex_st (extract_reqs fx st n ids hs stat0))) ->
          l_to_free l' = true <-> n = NC_PUT_REQ_ALL \/ n = NC_REQ_ALL) /\
         (forall l' : lead,
          In l' (get_lead (ex_st (extract_reqs fx st n ids hs stat0))) ->
          l_to_free l' = true <-> n = NC_GET_REQ_ALL \/ n = NC_REQ_ALL).
Proof. exact @extract_all_flags. Qed.
Print Assumptions C02_all_forms_complete_the_kind.

(* FULL statement for the repaired variant: a request whose id is not passed stays pending *)
Theorem C02_wait_subset_frame :
  wait_subset_frame_full true.
Proof. exact @wait_subset_frame. Qed.
Print Assumptions C02_wait_subset_frame.

Theorem C02_wait_subset_frame_fixed :
  forall (sr : list areq -> list areq) (ss : list seg -> list seg) 
           (st : nbstate) (a : waitargs) (file : disk),
         nb_inv st ->
         (0 <= wa_n a)%Z ->
         wa_n a = Zlen (wa_ids a) ->
         wr_rc (fst (wait_one sr ss true st a file)) = NC_NOERR ->
         forall l : lead,
         In l (put_lead st ++ get_lead st) ->
         ~ In (l_id l) (wa_ids a) ->
         exists l' : lead,
           In l'
             (put_lead (wr_st (fst (wait_one sr ss true st a file))) ++
              get_lead (wr_st (fst (wait_one sr ss true st a file)))) /\
           lead_same l l' /\ l_to_free l' = false.
Proof. exact @wait_subset_frame_fixed. Qed.
Print Assumptions C02_wait_subset_frame_fixed.

(* F3 witness: two pending puts, wait(2, [NC_REQ_NULL; 0]) completes the request with id 2 as well *)
Theorem C02_wait_subset_frame_old_refuted :
  ~ wait_subset_frame_full false.
Proof. exact @wait_subset_frame_old_refuted. Qed.
Print Assumptions C02_wait_subset_frame_old_refuted.

Theorem C02_wait_subset_frame_partial :
  forall (sr : list areq -> list areq) (ss : list seg -> list seg) 
           (fx : bool) (st : nbstate) (a : waitargs) (file : disk),
         nb_inv st ->
         wr_rc (fst (wait_one sr ss fx st a file)) = NC_NOERR ->
         forall l : lead,
         In l (put_lead st ++ get_lead st) ->
         (forall l1 : lead,
          In l1
            (put_lead (ex_st (extract_reqs fx st (wa_n a) (wa_ids a) (wa_has_stat a) (wa_stat0 a))) ++
             get_lead (ex_st (extract_reqs fx st (wa_n a) (wa_ids a) (wa_has_stat a) (wa_stat0 a)))) ->
          l_id l1 = l_id l -> l_to_free l1 = false) ->
         exists l' : lead,
           In l'
             (put_lead (wr_st (fst (wait_one sr ss fx st a file))) ++
              get_lead (wr_st (fst (wait_one sr ss fx st a file)))) /\
           lead_same l l' /\
           l_to_free l' = false /\
           map (fun q : req => (r_start q, r_count q, r_nelems q, r_xaddr q))
             (lead_reqs
                (if Z.even (l_id l)
                 then put_reqs (wr_st (fst (wait_one sr ss fx st a file)))
                 else get_reqs (wr_st (fst (wait_one sr ss fx st a file)))) l') =
           map (fun q : req => (r_start q, r_count q, r_nelems q, r_xaddr q))
             (lead_reqs (if Z.even (l_id l) then put_reqs st else get_reqs st) l).
Proof. exact @wait_subset_frame_partial. Qed.
Print Assumptions C02_wait_subset_frame_partial.

Theorem C02_wait_nreqs :
  forall (sr : list areq -> list areq) (ss : list seg -> list seg) 
           (fx : bool) (st : nbstate) (a : waitargs) (file : disk),
         nb_inv st ->
         wr_rc (fst (wait_one sr ss fx st a file)) = NC_NOERR ->
         nreqs (wr_st (fst (wait_one sr ss fx st a file))) =
         (nreqs st -
          Zlen
            (flagged
               (put_lead
                  (ex_st (extract_reqs fx st (wa_n a) (wa_ids a) (wa_has_stat a) (wa_stat0 a))))) -
          Zlen
            (flagged
               (get_lead
                  (ex_st (extract_reqs fx st (wa_n a) (wa_ids a) (wa_has_stat a) (wa_stat0 a))))))%Z.
Proof. exact @wait_nreqs. Qed.
Print Assumptions C02_wait_nreqs.

Theorem C02_wait_completed_gone :
  forall (sr : list areq -> list areq) (ss : list seg -> list seg) 
           (fx : bool) (st : nbstate) (a : waitargs) (file : disk),
         nb_inv st ->
         wr_rc (fst (wait_one sr ss fx st a file)) = NC_NOERR ->
         forall l2 : lead,
         In l2
           (flagged
              (put_lead (ex_st (extract_reqs fx st (wa_n a) (wa_ids a) (wa_has_stat a) (wa_stat0 a)))) ++
            flagged
              (get_lead (ex_st (extract_reqs fx st (wa_n a) (wa_ids a) (wa_has_stat a) (wa_stat0 a))))) ->
         ~
         In (l_id l2)
           (map l_id
              (put_lead (wr_st (fst (wait_one sr ss fx st a file))) ++
               get_lead (wr_st (fst (wait_one sr ss fx st a file))))).
Proof. exact @wait_completed_gone. Qed.
Print Assumptions C02_wait_completed_gone.

Theorem C02_wait_events_put :
  forall (sr : list areq -> list areq) (ss : list seg -> list seg) 
           (fx : bool) (st : nbstate) (a : waitargs) (file : disk),
         nb_inv st ->
         wr_rc (fst (wait_one sr ss fx st a file)) = NC_NOERR ->
         forall l' : lead,
         In l'
           (flagged
              (put_lead (ex_st (extract_reqs fx st (wa_n a) (wa_ids a) (wa_has_stat a) (wa_stat0 a))))) ->
         In (EvPutDone (l_tag l')) (wr_ev (fst (wait_one sr ss fx st a file))).
Proof. exact @wait_events_put. Qed.
Print Assumptions C02_wait_events_put.

Theorem C02_wait_events_get :
  forall (sr : list areq -> list areq) (ss : list seg -> list seg) 
           (fx : bool) (st : nbstate) (a : waitargs) (file : disk),
         nb_inv st ->
         wr_rc (fst (wait_one sr ss fx st a file)) = NC_NOERR ->
         forall l' : lead,
         In l'
           (flagged
              (get_lead (ex_st (extract_reqs fx st (wa_n a) (wa_ids a) (wa_has_stat a) (wa_stat0 a))))) ->
         In (EvGetDone (l_tag l') (l_xaddr l') (l_nelems l' * g_xsz (l_geom l')) (l_status l'))
           (wr_ev (fst (wait_one sr ss fx st a file))).
Proof. exact @wait_events_get. Qed.
Print Assumptions C02_wait_events_get.

Theorem C02_cancel_frame :
  forall (st : nbstate) (n : Z) (ids stat0 : list Z),
         (0 <= n)%Z ->
         forall l : lead,
         In l (put_lead st ++ get_lead st) ->
         ~ In (l_id l) ids ->
         exists l' : lead,
           In l'
             (put_lead (wr_st (cancel st n ids stat0)) ++ get_lead (wr_st (cancel st n ids stat0))) /\
           l_id l' = l_id l /\
           l_tag l' = l_tag l /\
           l_orig l' = l_orig l /\
           l_xaddr l' = l_xaddr l /\ l_geom l' = l_geom l /\ l_swapbuf l' = l_swapbuf l.
Proof. exact @cancel_ids_frame. Qed.
Print Assumptions C02_cancel_frame.

Theorem C02_cancel_removed :
  forall (st : nbstate) (n : Z) (ids stat0 : list Z),
         nb_inv st ->
         (0 < n)%Z ->
         forall l : lead,
         In l (put_lead st ++ get_lead st) ->
         In (l_id l) ids ->
         ~
         In (l_id l)
           (map l_id
              (put_lead (wr_st (cancel st n ids stat0)) ++ get_lead (wr_st (cancel st n ids stat0)))).
Proof. exact @cancel_ids_removed. Qed.
Print Assumptions C02_cancel_removed.

Theorem C02_post_id :
  (forall (g : geom) (start count : list Z) (stride : option (list Z)) 
            (xaddr lo : Z) (l : lead),
          post_ok g start count stride ->
          (0 < zprod count * g_xsz g)%Z ->
          l_geom l = g ->
          l_stride l = stride_eff stride ->
          l_xaddr l = xaddr ->
          l_orig l = [(start, count, match stride with
                                     | Some t => t
                                     | None => ones_like count
                                     end)] ->
          let reqs :=
            if g_isrec g
            then
             rec_split lo start count
               match stride_eff stride with
               | Some t => hd 1%Z t
               | None => 1
               end (hd 1%Z count) (zprod count / hd 1%Z count) xaddr (g_xsz g)
            else
             [{|
                r_lead_off := lo;
                r_start := start;
                r_count := count;
                r_nelems := zprod count;
                r_xaddr := xaddr
              |}] in
          Forall (fun q : req => areq_wf {| a_req := q; a_lead := l; a_start := 0; a_end := 0 |})
            reqs /\
          flat_map
            (fun q : req => areq_pairs {| a_req := q; a_lead := l; a_start := 0; a_end := 0 |}) reqs =
          lead_pairs l /\
          Forall (fun q : req => r_lead_off q = lo) reqs /\
          Zlen reqs = (if g_isrec g then hd 1%Z count else 1%Z) /\ (0 < Zlen reqs)%Z) ->
         forall (st : nbstate) (k : nkind) (g : geom) (start count : list Z)
           (stride : option (list Z)) (xaddr : Z) (data : list byte) (sw : bool) 
           (tag : Z),
         nb_inv_full st ->
         post_ok g start count stride ->
         let
         '(st', id, rc) := post_varm st k g start count stride xaddr data sw tag in
          rc = NC_NOERR ->
          id <> NC_REQ_NULL ->
          Z.even id = k_isput k /\
          (exists l : lead,
             In l (if k_isput k then put_lead st' else get_lead st') /\
             l_id l = id /\
             l_tag l = tag /\
             l_orig l =
             [(start, count, match stride with
                             | Some t => t
                             | None => ones_like count
                             end)] /\ l_to_free l = false /\ nreqs st' = (nreqs st + 1)%Z).
Proof. exact @post_varm_id. Qed.
Print Assumptions C02_post_id.

(* FULL statement (holds since fix 186ba92c in /repo): the number of records covers every completed record put *)
Theorem C02_numrecs_after_wait :
  forall (sr : list areq -> list areq) (ss : list seg -> list seg) 
           (fx : bool) (st : nbstate) (a : waitargs) (file : disk),
         nb_inv st ->
         wr_rc (fst (wait_one sr ss fx st a file)) = NC_NOERR ->
         forall l : lead,
         In l
           (flagged
              (put_lead (ex_st (extract_reqs fx st (wa_n a) (wa_ids a) (wa_has_stat a) (wa_stat0 a))))) ->
         g_isrec (l_geom l) = true ->
         (l_max_rec l <= st_numrecs (wr_st (fst (wait_one sr ss fx st a file))))%Z /\
         (st_numrecs st <= st_numrecs (wr_st (fst (wait_one sr ss fx st a file))))%Z.
Proof. exact @numrecs_after_wait. Qed.
Print Assumptions C02_numrecs_after_wait.

Theorem C02_newnumrecs_covers_flagged :
  forall (st : nbstate) (l : lead),
         In l (put_lead st) ->
         l_to_free l = true ->
         g_isrec (l_geom l) = true ->
         (l_max_rec l <= newnumrecs_loop st)%Z /\ (st_numrecs st <= newnumrecs_loop st)%Z.
Proof. exact @newnumrecs_covers_flagged. Qed.
Print Assumptions C02_newnumrecs_covers_flagged.

(* the loop bound before the fix (first num_w_lead_reqs queue entries) is refuted: iput fixed variable, iput record 5, wait naming the second *)
Theorem C02_newnumrecs_old_loop_refuted :
  ~ newnumrecs_old_covers_flagged_full false.
Proof. exact @newnumrecs_old_refuted. Qed.
Print Assumptions C02_newnumrecs_old_loop_refuted.

(* FULL statement for the repaired variant: a wait that returns an error writes, delivers and marks nothing *)
Theorem C02_failed_wait_no_effect :
  failed_wait_no_effect_full true.
Proof. exact @failed_wait_no_effect. Qed.
Print Assumptions C02_failed_wait_no_effect.

Theorem C02_queue_inv_failed_wait :
  forall (sr : list areq -> list areq) (ss : list seg -> list seg) 
           (st : nbstate) (a : waitargs) (file : disk),
         nb_inv_full st -> nb_inv_full (wr_st (fst (wait_one sr ss true st a file))).
Proof. exact @wait_one_preserves_inv_fixed. Qed.
Print Assumptions C02_queue_inv_failed_wait.

Theorem C02_queue_inv_all_histories_fixed :
  forall (sr : list areq -> list areq) (ss : list seg -> list seg) 
           (ops : list nbop) (sf : nbstate * disk),
         nb_inv_full (fst sf) -> Forall nbop_ok ops -> nb_inv_full (fst (nb_run sr ss true sf ops)).
Proof. exact @nb_run_inv_fixed. Qed.
Print Assumptions C02_queue_inv_all_histories_fixed.

(* witness: wait(2, [0; 0]) with two puts and a get pending returns NC_EINVAL_REQUEST and leaves request 0 flagged for ever *)
Theorem C02_failed_wait_no_effect_old_refuted :
  ~ failed_wait_no_effect_full false.
Proof. exact @failed_wait_no_effect_old_refuted. Qed.
Print Assumptions C02_failed_wait_no_effect_old_refuted.

(* a comparator returning (int)(a->off - b->off) is not an order on offsets >= 2 GiB apart (0 vs 2^31: wrong sign, 0 vs 2^32: equal); the stream theorems hold for offsets of any magnitude (Z) given sorter_ok *)
Theorem C02_truncated_offset_comparator_refuted :
  ~ cmp_trunc32_orders_full.
Proof. exact @cmp_trunc32_orders_refuted. Qed.
Print Assumptions C02_truncated_offset_comparator_refuted.

Theorem C02_truncated_offset_comparator_small :
  forall a b : Z, (-2147483648 <= a - b < 2147483648)%Z -> cmp_trunc32 a b = (a - b)%Z.
Proof. exact @cmp_trunc32_small. Qed.
Print Assumptions C02_truncated_offset_comparator_small.
