(* Proofs_Reach4.v — examples for Proofs_Reach*.v: a concrete multi-step history on which the
   invariant and its corollaries are instantiated (non-vacuity), and the counterexamples that
   show why the script contract step_ok is needed (findings about the model). *)
From Pnc Require Import Base Gen_consts Header HeaderSpec Access Data Disk Move Fill Exec.
From Pnc Require Import Proofs_Base Proofs_Header Proofs_Layout Proofs_Redef.
From Pnc Require Import Proofs_Exec2 Proofs_Exec Proofs_Reach Proofs_Reach2 Proofs_Reach3.
Require Import Lia ZArith List Bool ZifyBool.
Import ListNotations.
Local Open Scope Z_scope.

(* ====================================================================== *)
(** * 12. Examples: the theorems are not vacuous                            *)
(* ====================================================================== *)

(* 2 ranks, CDF-1, move unit 7, an alignment hint; create, dims (one unlimited), a fixed and a
   record variable, an attribute, enddef; collective put, independent put on rank 1 (vars),
   a grouped collective put (var1 on rank 0, varn on rank 1); redef, fill mode, two new variables,
   enddef with arguments (data movement); fill_var_rec; get; close; open for writing *)
Definition ex_cs : list cmd :=
  [ CMoveUnit 7;
    CStep (SAll (OHint 0 64));
    CStep (SAll (OCreate 0 1 1));
    CStep (SAll (ODefDim 0 [116] 0));
    CStep (SAll (ODefDim 0 [120] 4));
    CStep (SAll (ODefVar 0 [97] 4 [1]));
    CStep (SAll (ODefVar 0 [114] 3 [0; 1]));
    CStep (SAll (OPutAtt 0 0 [117] 2 [109; 47; 115]));
    CStep (SAll (OEnddef 0));
    CStep (SAll (OPut 0 true (mkacc 0 (FVara (Some [0]) (Some [4])) 4 false BTyped 3)));
    CStep (SAll (OBeginIndep 0));
    CStep (SOne 1 (OPut 0 false (mkacc 1 (FVars (Some [2; 1]) (Some [2; 2]) (Some [1; 2])) 3 false BTyped 5)));
    CStep (SAll (OEndIndep 0));
    CStep (SEach [OPut 0 true (mkacc 1 (FVar1 (Some [0; 0])) 3 false BTyped 1);
                  OPut 0 true (mkacc 1 (FVarn [([5; 0], [1; 4])]) 3 false BTyped 2)]);
    CStep (SAll (ORedef 0));
    CStep (SAll (OSetFill 0 0));
    CStep (SAll (ODefVar 0 [98] 6 [1]));
    CStep (SAll (ODefVar 0 [115] 4 [0]));
    CStep (SAll (OEnddefX 0 100 0 0 64));
    CStep (SAll (OFillVarRec 0 3 7));
    CStep (SAll (OGet 0 true (mkacc 0 FVar 4 false BTyped 0)));
    CStep (SAll (OClose 0));
    CStep (SAll (OOpen 0 1)) ].

Example ex_run_ok : run_ok (world0 2) ex_cs = true.
Proof. vm_compute. reflexivity. Qed.

Notation ex_w := (run (world0 2) ex_cs) (only parsing).
Definition ex_f : filest := match znth (w_files ex_w) 0 None with Some f => f | None => dflt_file end.

(* the final world has an open, untainted file in data mode, collective, with 4 variables, 8
   records, an encodable header of 224 bytes and the layout computed by the second enddef *)
Example ex_final :
  znth (w_files ex_w) 0 None = Some ex_f /\
  f_indef ex_f = false /\ f_tainted ex_f = false /\ f_indep ex_f = false /\
  Zlen (h_vars (f_hdr ex_f)) = 4 /\ h_numrecs (f_hdr ex_f) = 8 /\ wf_hdr (f_hdr ex_f) = true /\
  hdr_len (f_hdr ex_f) = 224 /\
  f_lay ex_f = mklayout 224 384 448 12 [384; 448; 400; 456] /\
  map rk_numrecs (f_ranks ex_f) = [8; 8].
Proof. vm_compute. repeat split; reflexivity. Qed.

Example ex_world_inv : world_inv ex_w := reachable_inv 2 ex_cs ltac:(lia) ex_run_ok.

Example ex_header_on_disk :=
  reachable_header_on_disk 2 ex_cs 0 ex_f ltac:(lia) ex_run_ok
    (proj1 ex_final) (proj1 (proj2 (proj2 ex_final))) (proj1 (proj2 ex_final))
    (proj1 (proj2 (proj2 (proj2 (proj2 (proj2 (proj2 ex_final))))))).

Example ex_layout :=
  reachable_layout_ok_all 2 ex_cs 0 ex_f ltac:(lia) ex_run_ok
    (proj1 ex_final) (proj1 (proj2 (proj2 ex_final))) (proj1 (proj2 ex_final)).

(* the state just before the second enddef: define mode after a redef, old header saved *)
Definition ex_cs_redef : list cmd := firstn 18 ex_cs.
Notation ex_w_redef := (run (world0 2) ex_cs_redef) (only parsing).
Definition ex_f_redef : filest :=
  match znth (w_files ex_w_redef) 0 None with Some f => f | None => dflt_file end.

Example ex_redef_state :
  run_ok (world0 2) ex_cs_redef = true /\
  znth (w_files ex_w_redef) 0 None = Some ex_f_redef /\
  f_indef ex_f_redef = true /\ f_tainted ex_f_redef = false /\
  match f_old ex_f_redef with
  | Some (oh, ol) => Zlen (h_vars oh) = 2 /\ h_numrecs oh = 6 /\ l_begins ol = [192; 208]
  | None => False end /\
  Zlen (h_vars (f_hdr ex_f_redef)) = 4.
Proof. vm_compute. repeat split; reflexivity. Qed.

(* ====================================================================== *)
(** * 13. Why the contract step_ok is needed: counterexamples (model findings) *)
(* ====================================================================== *)

(* the witness of "exists f, znth (w_files w) 0 None = Some f /\ ..." *)
Ltac file_witness :=
  cbv zeta;
  match goal with |- exists f, znth (w_files ?w) 0 None = Some f /\ _ =>
    exists (match znth (w_files w) 0 None with Some f => f | None => dflt_file end) end.

(** (a) create with clobber on the slot of a file that is still open: the model resets the disk
    and leaves the first file open in data mode on an empty disk.  step_ok rejects the step. *)
Definition cex_alias_cs : list cmd :=
  [ CStep (SAll (OCreate 0 1 1)); CStep (SAll (ODefDim 0 [120] 4)); CStep (SAll (OEnddef 0));
    CStep (SAll (OCreate 0 1 1)) ].

Example cex_alias :
  run_ok (world0 1) cex_alias_cs = false /\
  let w := run (world0 1) cex_alias_cs in
  exists f, znth (w_files w) 0 None = Some f /\ f_indef f = false /\ f_tainted f = false /\
            wf_hdr (f_hdr f) = true /\ hdr_len (f_hdr f) = 44 /\ dk_size (disk_of w f) = 0.
Proof. split; [vm_compute; reflexivity|]. file_witness. vm_compute. repeat split; reflexivity. Qed.

Corollary cex_alias_not_inv : ~ world_inv (run (world0 1) cex_alias_cs).
Proof.
  intros Hw. destruct cex_alias as [_ (f & Hz & Hindef & Ht & Hwf & Hl & Hs)].
  destruct (inv_header_on_disk _ 0 f Hw Hz Ht Hindef Hwf) as [(_ & D2 & _) _]. lia.
Qed.

(** hence the unconditional statement "every step preserves the invariant" is FALSE of the
    model; exec_step_preserves_inv carries the hypothesis step_ok *)
Lemma run_snoc : forall w cs c, run w (cs ++ [c]) = run_cmd (run w cs) c.
Proof. intros w cs c. unfold run. rewrite fold_left_app. reflexivity. Qed.

Definition cex_alias_cs3 : list cmd :=
  [ CStep (SAll (OCreate 0 1 1)); CStep (SAll (ODefDim 0 [120] 4)); CStep (SAll (OEnddef 0)) ].

Theorem exec_step_preserves_inv_unconditional_false :
  ~ (forall w s, world_inv w -> world_inv (fst (exec_step w s))).
Proof.
  intros H. apply cex_alias_not_inv.
  assert (E : cex_alias_cs = cex_alias_cs3 ++ [CStep (SAll (OCreate 0 1 1))]) by reflexivity.
  rewrite E, run_snoc. cbn [run_cmd].
  apply H. apply reachable_inv; [lia|vm_compute; reflexivity].
Qed.

(* the name asked for when the full statement does not hold *)
Definition exec_step_preserves_inv_partial := exec_step_preserves_inv.

(** (b) a put whose count array is shorter than its start array: the model checks only the
    zipped entries, accepts start = [0; -3], count = [1] on a 2-D variable (return code NC_NOERR)
    and writes 12 bytes BELOW the variable's begin - into the header when the variable starts
    right after it (h_align 4).  The C arrays have ndims entries by contract; step_ok demands
    lists of ndims entries. *)
Definition cex_put_cs : list cmd :=
  [ CStep (SAll (OHint 0 4));
    CStep (SAll (OCreate 0 1 1)); CStep (SAll (ODefDim 0 [120] 4)); CStep (SAll (ODefDim 0 [121] 5));
    CStep (SAll (ODefVar 0 [118] 4 [0; 1])); CStep (SAll (OEnddef 0)) ].
Definition cex_put_step : step :=
  SAll (OPut 0 true (mkacc 0 (FVara (Some [0; -3]) (Some [1])) 4 false BTyped 1)).

Example cex_put :
  run_ok (world0 1) cex_put_cs = true /\
  step_ok (run (world0 1) cex_put_cs) cex_put_step = false /\
  let w := run (world0 1) cex_put_cs in
  let w' := fst (exec_step w cex_put_step) in
  map (fun o : obs => snd (fst o)) (snd (exec_step w cex_put_step)) = [NC_NOERR] /\
  exists f, znth (w_files w') 0 None = Some f /\ f_tainted f = false /\ wf_hdr (f_hdr f) = true /\
    hdr_len (f_hdr f) = 96 /\ l_begins (f_lay f) = [96] /\
    bytes_eqb (dk_read (disk_of w f) 0 96) (encode_header (f_hdr f)) = true /\
    bytes_eqb (dk_read (disk_of w' f) 0 96) (encode_header (f_hdr f)) = false.
Proof.
  split; [vm_compute; reflexivity|]. split; [vm_compute; reflexivity|].
  cbv zeta. split; [vm_compute; reflexivity|]. file_witness. vm_compute. repeat split; reflexivity.
Qed.

(** (c) the model's create accepts any format number; with format 3 the encoder writes version
    byte 1 but 8-byte begins, and the file does not decode to the header in memory.  The
    on-disk clause of the invariant is conditional on wf_hdr, which demands format 1, 2 or 5. *)
Example cex_format :
  let cs := [ CStep (SAll (OCreate 0 3 1)); CStep (SAll (ODefDim 0 [120] 4));
              CStep (SAll (ODefVar 0 [118] 4 [0])); CStep (SAll (OEnddef 0)) ] in
  run_ok (world0 1) cs = true /\
  let w := run (world0 1) cs in
  exists f, znth (w_files w) 0 None = Some f /\ f_indef f = false /\ wf_hdr (f_hdr f) = false /\
    map v_begin (h_vars (f_hdr f)) = [512] /\
    option_map (fun dc => map v_begin (h_vars (dc_hdr dc)))
               (decode (dk_read (disk_of w f) 0 (dk_size (disk_of w f)))) = Some [0].
Proof. cbv zeta. split; [vm_compute; reflexivity|]. file_witness. vm_compute. repeat split; reflexivity. Qed.

(** (d) sizes the format cannot hold are accepted by the model's guards: a CDF-5 dimension of
    2^64 (def_dim has no upper bound for format 5) reads back as 0; a CDF-1 record count of 2^32
    (start 2^32 - 1 passes the NC_MAX_UINT check) reads back as 0.  wf_hdr is false in both
    states, so the invariant claims nothing about the bytes on disk. *)
Example cex_dim_size :
  let w := run (world0 1) [CStep (SAll (OCreate 0 5 1));
                           CStep (SAll (ODefDim 0 [120] 18446744073709551616)); CStep (SAll (OEnddef 0))] in
  exists f, znth (w_files w) 0 None = Some f /\ f_indef f = false /\ f_tainted f = false /\
    wf_hdr (f_hdr f) = false /\ map d_size (h_dims (f_hdr f)) = [18446744073709551616] /\
    option_map (fun dc => map d_size (h_dims (dc_hdr dc)))
               (decode (dk_read (disk_of w f) 0 (dk_size (disk_of w f)))) = Some [0].
Proof. cbv zeta. file_witness. vm_compute. repeat split; reflexivity. Qed.

Example cex_numrecs :
  let w := run (world0 1) [CStep (SAll (OCreate 0 1 1)); CStep (SAll (ODefDim 0 [116] 0));
      CStep (SAll (ODefVar 0 [118] 1 [0])); CStep (SAll (OEnddef 0));
      CStep (SAll (OPut 0 true (mkacc 0 (FVar1 (Some [4294967295])) 1 false BTyped 1)))] in
  exists f, znth (w_files w) 0 None = Some f /\ f_indef f = false /\ f_tainted f = false /\
    wf_hdr (f_hdr f) = false /\ h_numrecs (f_hdr f) = 4294967296 /\
    option_map (fun dc => h_numrecs (dc_hdr dc)) (decode (dk_read (disk_of w f) 0 200)) = Some 0.
Proof. cbv zeta. file_witness. vm_compute. repeat split; reflexivity. Qed.

(* ---------- the corollaries instantiated on states of the run ---------- *)

(* the state after enddef + begin_indep (first 11 commands): an independent put of rank 1 on the
   record variable through a strided request, read back by the same rank *)
Definition ex_cs_put : list cmd := firstn 11 ex_cs.
Notation ex_w_put := (run (world0 2) ex_cs_put) (only parsing).
Definition ex_f_put : filest :=
  match znth (w_files ex_w_put) 0 None with Some f => f | None => dflt_file end.
Definition ex_a : access := mkacc 1 (FVars (Some [2; 1]) (Some [2; 2]) (Some [1; 2])) 3 false BTyped 5.
Definition ex_r : rreq := mkrreq [2; 1] [2; 2] (Some [1; 2]) None.

Example ex_put_hyps :
  run_ok (world0 2) ex_cs_put = true /\
  znth (w_files ex_w_put) 0 None = Some ex_f_put /\ f_tainted ex_f_put = false /\
  sanity ex_f_put true true false ex_a = NC_NOERR /\
  check_request ex_w_put ex_f_put 1 false ex_a = (NC_NOERR, Some [ex_r]) /\
  iomismatch ex_a [ex_r] = false.
Proof. vm_compute. repeat split; reflexivity. Qed.

Example ex_put_get :
  let w'' := fst (indep_put ex_w_put 0 ex_f_put 1 ex_a) in
  let f' := indep_numrecs ex_f_put 1 (put_newrecs ex_f_put ex_a ex_r) in
  get_rank_op w'' f' 1 false ex_a =
  (NC_NOERR,
   [THex (guard_bytes ++
          flat_map (fun k => mem_of_be (put_elem ex_a (acc_xt ex_f_put ex_a) k)) (zrange 0 (nelems_of ex_r)) ++
          guard_bytes)]).
Proof.
  destruct ex_put_hyps as (H0 & H1 & H2 & H3 & H4 & H5). cbv zeta.
  apply (reachable_put_get 2 ex_cs_put 0 ex_f_put 1 ex_a ex_r _ (snd (indep_put ex_w_put 0 ex_f_put 1 ex_a))
           1 false ex_a ltac:(lia) H0 H1 H2 H3 H4 H5).
  - vm_compute. repeat split; reflexivity.
  - apply surjective_pairing.
  - reflexivity.
  - vm_compute. reflexivity.
  - vm_compute. reflexivity.
  - reflexivity.
  - vm_compute. reflexivity.
  - vm_compute. repeat split; reflexivity.
Qed.

(* ... and the value, computed *)
Example ex_put_get_compute :
  get_rank_op (fst (indep_put ex_w_put 0 ex_f_put 1 ex_a))
              (indep_numrecs ex_f_put 1 (put_newrecs ex_f_put ex_a ex_r)) 1 false ex_a =
  (NC_NOERR, [THex (guard_bytes ++ [124; 37; 5; 95; 94; 35; 231; 92] ++ guard_bytes)]).
Proof. vm_compute. reflexivity. Qed.

(* the second enddef (after redef, fill mode, two new variables; h_minfree 100, r_align 64, move
   unit 7): every byte of the two old variables, in each of the 6 records, survives the move *)
Definition ex_ea : enddef_args := mkeargs 100 0 0 64.

Example ex_redef_enddef_ok :
  option_map snd (do_enddef ex_w_redef 0 ex_f_redef ex_ea) = Some NC_NOERR.
Proof. vm_compute. reflexivity. Qed.

Example ex_redef_preserves :
  match do_enddef ex_w_redef 0 ex_f_redef ex_ea, f_old ex_f_redef with
  | Some (w', rc), Some (oh, ol) =>
      rc = NC_NOERR ->
      exists lay, znth (w_files w') 0 None = Some (enddef_file ex_f_redef lay) /\
        (wf_hdr (enddef_hdr ex_f_redef lay) = true ->
         forall i, 0 <= i < Zlen (h_vars oh) ->
           let ov := znth (h_vars oh) i dv in
           (is_recvar (h_dims oh) ov = false ->
              forall o, 0 <= o < var_len (h_dims oh) ov ->
                dk_get (get_disk w' (f_slot ex_f_redef)) (znth (l_begins lay) i 0 + o) =
                dk_get (get_disk ex_w_redef (f_slot ex_f_redef)) (znth (l_begins ol) i 0 + o)) /\
           (is_recvar (h_dims oh) ov = true ->
              forall r o, 0 <= r < h_numrecs oh -> 0 <= o < var_len (h_dims oh) ov ->
                (znth (l_begins ol) i 0 - l_begin_rec ol) + o < l_recsize ol ->
                dk_get (get_disk w' (f_slot ex_f_redef)) (znth (l_begins lay) i 0 + r * l_recsize lay + o) =
                dk_get (get_disk ex_w_redef (f_slot ex_f_redef)) (znth (l_begins ol) i 0 + r * l_recsize ol + o)))
  | _, _ => True
  end.
Proof.
  destruct ex_redef_state as (H0 & H1 & H2 & H3 & _).
  destruct (do_enddef ex_w_redef 0 ex_f_redef ex_ea) as [[w' rc]|] eqn:E; [|exact I].
  destruct (f_old ex_f_redef) as [[oh ol]|] eqn:Eo; [|exact I].
  intros ->. exact (reachable_redef_preserves 2 ex_cs_redef 0 ex_f_redef ex_ea oh ol w' ltac:(lia) H0 H1 H3 H2 Eo E).
Qed.

(* the state before close (first 21 commands): closing leaves a world in which open is covered *)
Definition ex_cs_close : list cmd := firstn 21 ex_cs.
Notation ex_w_close := (run (world0 2) ex_cs_close) (only parsing).
Definition ex_f_close : filest :=
  match znth (w_files ex_w_close) 0 None with Some f => f | None => dflt_file end.

Example ex_close_hyps :
  run_ok (world0 2) ex_cs_close = true /\
  znth (w_files ex_w_close) 0 None = Some ex_f_close /\ f_tainted ex_f_close = false /\
  f_indef ex_f_close = false /\ negb (f_rdonly ex_f_close) && f_indep ex_f_close = false /\
  wf_hdr (f_hdr ex_f_close) = true /\ hdr_len (f_hdr ex_f_close) <= 65536.
Proof. vm_compute. repeat split; try reflexivity. discriminate. Qed.

Example ex_close_open_ok :=
  let H := ex_close_hyps in
  inv_close_open_ok ex_w_close 0 ex_f_close 1
    (reachable_inv 2 ex_cs_close ltac:(lia) (proj1 H))
    (proj1 (proj2 H)) (proj1 (proj2 (proj2 H))) (proj1 (proj2 (proj2 (proj2 H))))
    (proj1 (proj2 (proj2 (proj2 (proj2 H))))) (proj1 (proj2 (proj2 (proj2 (proj2 (proj2 H))))))
    (proj2 (proj2 (proj2 (proj2 (proj2 (proj2 H)))))).

Print Assumptions exec_step_preserves_inv.
Print Assumptions reachable_inv.
Print Assumptions reachable_header_on_disk.
Print Assumptions reachable_layout_ok_all.
Print Assumptions reachable_put_get.
Print Assumptions reachable_redef_preserves.
Print Assumptions inv_layout.
Print Assumptions inv_close_open_ok.
Print Assumptions exec_step_preserves_inv_unconditional_false.
Print Assumptions ex_put_get.
Print Assumptions ex_redef_preserves.
