(* Properties_C17.v — statements only: each property theorem is stated in full and closed by
   `exact <lemma>`; the lemmas live in the Proofs_*.v files.  Assembled by tools/mkprops.py. *)
(* C17 File handles and library resources.  Model: coq/Files.v (pnc_filelist[NC_MAX_NFILES], pnc_numfiles, *)
(* new_id_PNCList, del_from_PNCList, PNC_check_id exactly as written in src/dispatchers/file.c; create/open with *)
(* all their exits; close/abort; any API call; nonblocking posts).  The theorems hold for EVERY history of events *)
(* with arbitrary ids.  ck ranges over id checks; ck_honest holds of the check as built and of the repaired one. *)
(* PROVED part = the id table.  The heap / MPI object part of the property is OBSERVED by checks/C17.py, except *)
(* for the PNC object of a create/open refused with NC_ENFILE (theorems pnc_objects_...). *)
From Coq Require Import ZArith List.
From Pnc Require Import Proofs_Files.
From Pnc Require Import Proofs_Modes.
Set Printing Width 100.
Set Printing Depth 100000.

(* the full theorem for the check WITH a NULL-slot test (with or without the pnc_numfiles == 0 disjunct) *)
Theorem C17_check_id_fixed :
  forall z : bool, check_id_sound (Files.check_id_gen z true).
Proof. exact @check_id_fixed. Qed.
Print Assumptions C17_check_id_fixed.

Theorem C17_never_crashes_fixed :
  forall z : bool, never_crashes (Files.check_id_gen z true).
Proof. exact @never_crashes_fixed. Qed.
Print Assumptions C17_never_crashes_fixed.

(* F8: the check as written answers NC_NOERR with a NULL pointer for a closed or never-used slot while another file is open *)
Theorem C17_check_id_sound_refuted :
  ~ check_id_sound (Files.check_id_gen true false).
Proof. exact @check_id_sound_refuted. Qed.
Print Assumptions C17_check_id_sound_refuted.

Theorem C17_never_crashes_refuted :
  ~ never_crashes (Files.check_id_gen true false).
Proof. exact @never_crashes_refuted. Qed.
Print Assumptions C17_never_crashes_refuted.

(* what holds without the NULL test: open ids are accepted, a refusal is right, no file open / out of range => NC_EBADID *)
Theorem C17_check_id_sound_partial :
  forall (z : bool) (h : list Files.ev) (t : Files.tbl) (id : Z),
         Files.run (Files.check_id_gen z false) (Some Files.tbl0) h = Some t ->
         (Files.occupied t id = true ->
          Files.check_id_gen z false t id = Files.ChkOk (nth (Z.to_nat id) (Files.slots t) None)) /\
         (Files.check_id_gen z false t id = Files.ChkBad -> Files.occupied t id = false) /\
         (z = true /\ Files.numfiles t = 0%Z \/ (id < 0)%Z \/ (Gen_consts.NC_MAX_NFILES <= id)%Z ->
          Files.check_id_gen z false t id = Files.ChkBad).
Proof. exact @check_id_sound_partial. Qed.
Print Assumptions C17_check_id_sound_partial.

(* verdict for the sources as built (switch Gen_modes.CHECK_ID_NULL_TEST read from file.c by tools/tr_modes.py) *)
Theorem C17_check_id_sound_current :
  if Gen_modes.CHECK_ID_NULL_TEST
         then check_id_sound Files.check_id /\ never_crashes Files.check_id
         else ~ check_id_sound Files.check_id /\ ~ never_crashes Files.check_id.
Proof. exact @check_id_sound_current. Qed.
Print Assumptions C17_check_id_sound_current.

Theorem C17_valid_ids_accepted :
  forall (h : list Files.ev) (t : Files.tbl) (id : Z),
         Files.run Files.check_id (Some Files.tbl0) h = Some t ->
         In id (Files.live Files.check_id h) ->
         exists f : Files.fobj, Files.check_id t id = Files.ChkOk (Some f).
Proof. exact @valid_ids_accepted. Qed.
Print Assumptions C17_valid_ids_accepted.

Theorem C17_check_id_honest :
  forall z n : bool, ck_honest (Files.check_id_gen z n).
Proof. exact @check_id_gen_honest. Qed.
Print Assumptions C17_check_id_honest.

Theorem C17_table_invariant :
  forall ck : Files.tbl -> Z -> Files.chk,
         ck_honest ck ->
         forall (h : list Files.ev) (t : Files.tbl),
         Files.run ck (Some Files.tbl0) h = Some t ->
         length (Files.slots t) = Files.MAXF /\
         Files.numfiles t = Z.of_nat (Files.count_occ (Files.slots t)) /\
         (0 <= Files.numfiles t <= Gen_consts.NC_MAX_NFILES)%Z.
Proof. exact @table_invariant. Qed.
Print Assumptions C17_table_invariant.

Theorem C17_ids_valid_exactly_between :
  forall ck : Files.tbl -> Z -> Files.chk,
         ck_honest ck ->
         forall (h : list Files.ev) (t : Files.tbl) (id : Z),
         Files.run ck (Some Files.tbl0) h = Some t ->
         Files.occupied t id = true <-> In id (Files.live ck h).
Proof. exact @ids_valid_exactly_between. Qed.
Print Assumptions C17_ids_valid_exactly_between.

Theorem C17_id_reuse_first_free :
  forall ck : Files.tbl -> Z -> Files.chk,
         ck_honest ck ->
         forall (h : list Files.ev) (t t' : Files.tbl) (o : Files.outcome) 
           (isopen : bool) (rc id : Z),
         Files.run ck (Some Files.tbl0) h = Some t ->
         Files.step1 ck t (if isopen then Files.EOpen o else Files.ECreate o) =
         (Some t', Files.RRc rc (Some id)) ->
         (0 <= id)%Z ->
         (0 <= id < Gen_consts.NC_MAX_NFILES)%Z /\
         ~ In id (Files.live ck h) /\ (forall j : Z, (0 <= j < id)%Z -> In j (Files.live ck h)).
Proof. exact @id_reuse_first_free. Qed.
Print Assumptions C17_id_reuse_first_free.

Theorem C17_max_files :
  forall ck : Files.tbl -> Z -> Files.chk,
         ck_honest ck ->
         forall (h : list Files.ev) (t : Files.tbl) (isopen : bool),
         Files.run ck (Some Files.tbl0) h = Some t ->
         let e := if isopen then Files.EOpen Files.OOk else Files.ECreate Files.OOk in
         ((Files.numfiles t < Gen_consts.NC_MAX_NFILES)%Z ->
          exists (t' : Files.tbl) (id : Z),
            Files.step1 ck t e = (Some t', Files.RRc Gen_consts.NC_NOERR (Some id)) /\
            (0 <= id < Gen_consts.NC_MAX_NFILES)%Z /\ Files.numfiles t' = (Files.numfiles t + 1)%Z) /\
         (Files.numfiles t = Gen_consts.NC_MAX_NFILES ->
          exists t' : Files.tbl,
            Files.step1 ck t e = (Some t', Files.RRc Gen_consts.NC_ENFILE (Some (-1)%Z)) /\
            Files.slots t' = Files.slots t /\ Files.numfiles t' = Files.numfiles t).
Proof. exact @max_files. Qed.
Print Assumptions C17_max_files.

(* NC_MAX_NFILES (Gen_consts) creates succeed with ids 0..NC_MAX_NFILES-1, the next create and open get NC_ENFILE, a closed id is reissued *)
Theorem C17_max_files_exact :
  Files.run_codes
           (repeat (Files.ECreate Files.OOk) Files.MAXF ++
            Files.ECreate Files.OOk
            :: Files.EOpen Files.OOk
               :: Files.EClose 5 :: Files.ECreate Files.OOk :: Files.ECreate Files.OOk :: nil) =
         map (fun i : Z => (Gen_consts.NC_NOERR, i)) (zseq 0 Files.MAXF) ++
         (Gen_consts.NC_ENFILE, (-1)%Z)
         :: (Gen_consts.NC_ENFILE, (-1)%Z)
            :: (Gen_consts.NC_NOERR, (-99)%Z)
               :: (Gen_consts.NC_NOERR, 5%Z) :: (Gen_consts.NC_ENFILE, (-1)%Z) :: nil.
Proof. exact @max_files_exact. Qed.
Print Assumptions C17_max_files_exact.

Theorem C17_files_independent :
  forall ck : Files.tbl -> Z -> Files.chk,
         ck_honest ck ->
         forall (h : list Files.ev) (t t' : Files.tbl) (e : Files.ev) (r : Files.res) (j : nat),
         Files.run ck (Some Files.tbl0) h = Some t ->
         Files.step1 ck t e = (Some t', r) ->
         match ev_id e with
         | Some id => Z.of_nat j <> id
         | None => nth j (Files.slots t) None <> None
         end -> nth j (Files.slots t') None = nth j (Files.slots t) None.
Proof. exact @files_independent. Qed.
Print Assumptions C17_files_independent.

Theorem C17_pnc_objects_never_fewer :
  forall (h : list Files.ev) (t : Files.tbl),
         Files.run Files.check_id (Some Files.tbl0) h = Some t ->
         (Z.of_nat (Files.heap t) >= Files.numfiles t)%Z.
Proof. exact @pnc_objects_never_fewer. Qed.
Print Assumptions C17_pnc_objects_never_fewer.

Theorem C17_pnc_objects_balanced_partial :
  forall (h : list Files.ev) (t : Files.tbl),
         Files.run Files.check_id (Some Files.tbl0) h = Some t ->
         Forall not_enfile (Files.run_res Files.check_id (Some Files.tbl0) h) ->
         Z.of_nat (Files.heap t) = Files.numfiles t.
Proof. exact @pnc_objects_balanced_partial. Qed.
Print Assumptions C17_pnc_objects_balanced_partial.

(* ncmpi_create / ncmpi_open return NC_ENFILE without NCI_Free(pncp) (switches read from file.c): refuted when they do not *)
Theorem C17_pnc_objects_balanced_current :
  if (Gen_modes.ncmpi_create_ENFILE_FREES_PNC && Gen_modes.ncmpi_open_ENFILE_FREES_PNC)%bool
         then pnc_objects_balanced
         else ~ pnc_objects_balanced.
Proof. exact @pnc_objects_balanced_current. Qed.
Print Assumptions C17_pnc_objects_balanced_current.

(* from the C14 model (coq/Modes.v): close always releases the handle and returns NC_EPENDING iff requests were pending *)
Theorem C17_close_pending_cancels_and_reports :
  forall (cs : list Modes.call) (o : Modes.ost),
         Modes.co (Modes.run Modes.state0 cs) = Modes.COpen o ->
         let st := Modes.run Modes.state0 cs in
         fst (Modes.step st Modes.Close) = Modes.state0 /\
         snd (Modes.step st Modes.Close) =
         (if
           (Modes.v_get (Modes.view_aux (Modes.ax st)) || Modes.v_put (Modes.view_aux (Modes.ax st)))%bool
          then Gen_consts.NC_EPENDING
          else Gen_consts.NC_NOERR) /\
         fst (Modes.step st Modes.Abort) = Modes.state0 /\
         snd (Modes.step st Modes.Abort) = Gen_consts.NC_NOERR.
Proof. exact @close_pending_cancels_and_reports. Qed.
Print Assumptions C17_close_pending_cancels_and_reports.

Theorem C17_table_code_shape :
  Gen_modes.NEW_ID_SHAPE_OK = true /\ Gen_modes.DEL_ID_SHAPE_OK = true.
Proof. exact @table_code_shape. Qed.
Print Assumptions C17_table_code_shape.

(* what the property needs of the allocator (NOT that the slot is the first free one): while the table is not full it hands out an unused id in range and enters the object *)
Theorem C17_new_id_finds_free_slot :
  allocator_ok Files.new_id.
Proof. exact @new_id_finds_free_slot. Qed.
Print Assumptions C17_new_id_finds_free_slot.

(* the variant that starts the scan at pnc_numfiles fails this: witness = full table, close id 0, allocate -> NC_NOERR with id -1 *)
Theorem C17_new_id_from_numfiles_refuted :
  ~ allocator_ok Files.new_id_from_numfiles.
Proof. exact @new_id_from_numfiles_refuted. Qed.
Print Assumptions C17_new_id_from_numfiles_refuted.
