(* Modes.v — C14: executable model of the API mode state machine of PnetCDF (one file handle).

   Two layers of mode flags are kept exactly as the C code keeps them:
     dflag  = pncp->flag  of the dispatcher (src/dispatchers/file.c, src/include/dispatch.h)
     nflags = ncp->flags  of the ncmpio driver (src/drivers/ncmpio/ncmpio_NC.h), restricted to the NC_MODE_* bits
              (NC_NDIRTY/NC_HDIRTY/NC_HSYNC/NC_NSYNC, which are not modes, are not tracked)
     old    = (ncp->old != NULL)
   The bit values, the flag updates the dispatchers make after a successful driver call (the flagops definitions), the
   initial flag words of create/open and the build switches come from Gen_modes.v, which tools/tr_modes.py
   regenerates from the sources as built.

   Every API function is written as the C function is: dispatcher tests in source order (on dflag), then the
   driver function (tests on nflags), then the dispatcher's flag update.  Simplifications (ASSUMPTIONS of C14):
     - fault-free: the driver parts that do I/O or allocate succeed (ncmpio__enddef, MPI_File_open in
       begin_indep_data, numrecs sync, dup_NC);
     - arguments other than the ones named in the call constructors are valid;
     - one handle: PNC_check_id is EBADID for the closed handle, OK otherwise (the table is C17's model);
     - all ranks issue the same call (safe-mode cross-rank comparisons always agree);
     - MPI-IO refuses a write through a handle opened MPI_MODE_RDONLY and ncmpii_error_mpi2nc maps that to
       NC_EPERM (used only for fill_var_rec reaching the driver on a read-only file).
   NO PROOFS in this file (Proofs_Modes.v). *)
From Coq Require Import ZArith List Bool.
From Pnc Require Import Gen_consts Gen_modes.
Import ListNotations.
Local Open Scope Z_scope.

(* ---- the C macros of src/drivers/include/common.h *)
Definition fIsSet (t f : Z) : bool := negb (Z.land t f =? 0).
Definition fSet (t f : Z) : Z := Z.lor t f.
Definition fClr (t f : Z) : Z := Z.ldiff t f.
Definition apply_ops (f : Z) (ops : list (bool * Z)) : Z :=
  fold_left (fun f (sb : bool * Z) => if fst sb then fSet f (snd sb) else fClr f (snd sb)) ops f.

Definition ok (e : Z) : bool := e =? NC_NOERR.

(* ---- state *)
Record ost := mkO {
  dflag  : Z;     (* pncp->flag *)
  nflags : Z;     (* ncp->flags, NC_MODE_* bits *)
  old    : bool;  (* ncp->old != NULL *)
  nrecv  : bool;  (* ncp->vars.num_rec_vars > 0 : set at open and at every enddef *)
  hasrec : bool   (* a record variable is defined in the (in-memory) header *)
}.
Inductive core := CClosed | COpen (o : ost).

(* what the return codes (never the core transitions) depend on besides the core *)
Record auxv := mkV {
  v_put  : bool;  (* ncp->numLeadPutReqs > 0 *)
  v_get  : bool;  (* ncp->numLeadGetReqs > 0 *)
  v_bput : bool;  (* some pending put request has abuf_index >= 0 *)
  v_abuf : bool   (* ncp->abuf != NULL *)
}.
Record aux := mkA { a_put : nat; a_get : nat; a_bput : nat; a_abuf : bool }.
Definition aux0 : aux := mkA 0 0 0 false.
Definition view_aux (a : aux) : auxv :=
  mkV (negb (Nat.eqb (a_put a + a_bput a) 0)) (negb (Nat.eqb (a_get a) 0)) (negb (Nat.eqb (a_bput a) 0)) (a_abuf a).
Record state := mkS { co : core; ax : aux }.
Definition state0 : state := mkS CClosed aux0.

(* ---- calls: the mode-changing calls and one (or a few) probes per API family *)
Inductive attk := AttNew | AttSame | AttGrow | AttBadVar | AttNewBadType.
Inductive call :=
| Create (safe : bool)                 (* ncmpi_create, NC_CLOBBER *)
| Open (rw rec safe : bool)            (* ncmpi_open of an existing valid file with / without record variables *)
| Enddef
| EnddefX (neg : bool)                 (* ncmpi__enddef(0,0,0,0) / with one negative argument *)
| Redef | BeginIndep | EndIndep | Close | Abort
| Sync | SyncNumrecs | Flush
| SetFill (fill : bool)                (* NC_FILL / NC_NOFILL *)
| DefDim                               (* new legal name and size *)
| DefVar (rec : bool)                  (* new legal name; record / fixed-size *)
| DefVarFill                           (* existing variable *)
| PutAtt (k : attk)                    (* new name / existing same size / existing larger / bad varid / new + bad type *)
| DelAtt (badvar : bool)               (* of a name that does not exist *)
| GetAtt
| RenameVar                            (* new name not longer than the old one *)
| RenameDim                            (* new name longer than the old one *)
| Put (coll badvar : bool)             (* blocking put_vara, valid request *)
| Get (coll badvar : bool)
| IPut (badvar : bool) | IGet | BPut   (* post of a nonblocking request, valid request *)
| Wait (coll all : bool)               (* ncmpi_wait_all / ncmpi_wait with NC_REQ_ALL / with 0 requests *)
| Cancel                               (* NC_REQ_ALL *)
| Attach | Detach | InqBuffer
| FillVarRec                           (* on the record variable if there is one, else on a fixed-size one *)
| Inq.

Definition is_mode_call (c : call) : bool :=
  match c with
  | Create _ | Open _ _ _ | Enddef | EnddefX _ | Redef | BeginIndep | EndIndep | Close | Abort => true
  | _ => false
  end.

(* ---- tests as the two layers make them *)
Definition d_ro o    := fIsSet (dflag o) NC_MODE_RDONLY.
Definition d_def o   := fIsSet (dflag o) NC_MODE_DEF.
Definition d_indep o := fIsSet (dflag o) NC_MODE_INDEP.
Definition d_safe o  := fIsSet (dflag o) NC_MODE_SAFE.
Definition d_fill o  := fIsSet (dflag o) NC_MODE_FILL.
Definition n_ro o    := fIsSet (nflags o) macro_NC_readonly_tests.   (* NC_readonly(ncp) *)
Definition n_def o   := fIsSet (nflags o) macro_NC_indef_tests.      (* NC_indef(ncp)    *)
Definition n_indep o := fIsSet (nflags o) macro_NC_indep_tests.      (* NC_indep(ncp)    *)
Definition n_new o   := fIsSet (nflags o) macro_NC_IsNew_tests.      (* NC_IsNew(ncp)    *)
Definition n_fill o  := fIsSet (nflags o) macro_NC_dofill_tests.     (* NC_dofill(ncp)   *)

Definition set_dflag (o : ost) (f : Z) : ost := mkO f (nflags o) (old o) (nrecv o) (hasrec o).
Definition set_nflags (o : ost) (f : Z) : ost := mkO (dflag o) f (old o) (nrecv o) (hasrec o).

(* ---- driver (src/drivers/ncmpio) *)
(* ncmpio_end_indep_data *)
Definition n_end_indep_data (o : ost) : ost * Z :=
  if n_def o then (o, NC_EINDEFINE)
  else if negb (n_indep o) then (o, NC_NOERR)
  else (* numrecs sync when writable and num_rec_vars > 0: fault-free *)
       (set_nflags o (fClr (nflags o) NC_MODE_INDEP), NC_NOERR).
(* ncmpio_begin_indep_data *)
Definition n_begin_indep_data (o : ost) : ost * Z :=
  if n_def o then (o, NC_EINDEFINE)
  else if n_indep o then (o, NC_NOERR)
  else (set_nflags o (fSet (nflags o) NC_MODE_INDEP), NC_NOERR).
(* ncmpio_redef: the tests for EPERM/EINDEFINE are #if 0'ed in the driver *)
Definition n_redef (o : ost) : ost * Z :=
  let o1 := if n_indep o then fst (n_end_indep_data o) else o in
  (mkO (dflag o1) (fSet (nflags o1) NC_MODE_DEF) true (nrecv o1) (hasrec o1), NC_NOERR).
(* ncmpio__enddef: frees ncp->old, recounts num_rec_vars, clears CREATE|DEF *)
Definition n__enddef (o : ost) : ost * Z :=
  (mkO (dflag o) (fClr (nflags o) (Z.lor NC_MODE_CREATE NC_MODE_DEF)) false (hasrec o) (hasrec o), NC_NOERR).
(* ncmpio_sync *)
Definition n_sync (o : ost) : Z :=
  if n_def o then NC_EINDEFINE else if n_ro o then NC_NOERR else NC_NOERR.
(* ncmpio_sync_numrecs *)
Definition n_sync_numrecs (o : ost) : Z :=
  if n_def o then NC_EINDEFINE
  else if negb (nrecv o) then NC_NOERR
  else if n_ro o then NC_EPERM
  else NC_NOERR.
Definition first_err (status e : Z) : Z := if ok status then e else status.
(* ncmpio_close: pending requests are cancelled and reported *)
Definition n_close (o : ost) (v : auxv) : Z :=
  let '(o1, st1) := if n_def o then n__enddef o else (o, NC_NOERR) in
  let st2 := if negb (n_ro o1) && n_indep o1 then first_err st1 (snd (n_end_indep_data o1)) else st1 in
  let st3 := if v_get v then first_err (first_err st2 NC_NOERR) NC_EPENDING else st2 in
  let st4 := if v_put v then first_err (first_err st3 NC_NOERR) NC_EPENDING else st3 in
  st4.
(* ncmpio_abort: pending requests are NOT looked at *)
Definition n_abort (o : ost) : Z :=
  let doUnlink := n_new o in
  let o1 := if old o then mkO (dflag o) (fClr (nflags o) NC_MODE_DEF) false (nrecv o) (hasrec o) else o in
  let st := if negb doUnlink && (negb (n_ro o1) && n_indep o1) then snd (n_end_indep_data o1) else NC_NOERR in
  st.
(* ncmpio_wait prologue *)
Definition n_wait (o : ost) (coll all : bool) : Z :=
  if n_def o then NC_EINDEFINE
  else if ENABLE_REQ_AGGREGATION then
    if negb coll && negb (n_indep o) then NC_ENOTINDEP
    else if coll && n_indep o then NC_EINDEP
    else NC_NOERR
  else
    if negb coll then
      if negb all then NC_NOERR else if negb (n_indep o) then NC_ENOTINDEP else NC_NOERR
    else if n_indep o then NC_EINDEP else NC_NOERR.

(* ---- dispatcher helpers *)
(* sanity_check of var_getput.m4 *)
Definition sanity_check (o : ost) (isput blocking coll badvar : bool) : Z :=
  if isput && d_ro o then NC_EPERM
  else if blocking && d_def o then NC_EINDEFINE
  else if blocking && coll && d_indep o then NC_EINDEP
  else if blocking && negb coll && negb (d_indep o) then NC_ENOTINDEP
  else if badvar then NC_ENOTVAR
  else NC_NOERR.

Definition attk_needs_define (k : attk) : bool :=
  match k with AttNew | AttGrow | AttNewBadType => true | _ => false end.

(* ---- one step of the core: (new core, return code) *)
Definition cstep (s : core) (v : auxv) (c : call) : core * Z :=
  match s with
  | CClosed =>
      match c with
      | Create safe =>
          (COpen (mkO (Z.lor create_flag_init (if safe then NC_MODE_SAFE else 0))
                      (Z.lor NC_MODE_CREATE NC_MODE_DEF) false false false), NC_NOERR)
      | Open rw rec safe =>
          (COpen (mkO (Z.lor (Z.lor open_flag_init (if rw then 0 else NC_MODE_RDONLY)) (if safe then NC_MODE_SAFE else 0))
                      (if rw then 0 else NC_MODE_RDONLY) false rec rec), NC_NOERR)
      | _ => (CClosed, NC_EBADID)            (* PNC_check_id: pnc_numfiles == 0 *)
      end
  | COpen o =>
      match c with
      | Create _ | Open _ _ _ => (s, NC_NOERR)   (* another file gets another handle; this one is untouched *)
      | Enddef =>
          let err := if negb (d_def o) then NC_ENOTINDEFINE else NC_NOERR in
          if negb (ok err) then (s, err) else
          let '(o1, e) := n__enddef o in
          if negb (ok e) then (COpen o1, e) else
          (COpen (set_dflag o1 (apply_ops (dflag o1) flagops_ncmpi_enddef)), NC_NOERR)
      | EnddefX neg =>
          let err := if negb (d_def o) then NC_ENOTINDEFINE else if neg then NC_EINVAL else NC_NOERR in
          if negb (ok err) then (s, err) else
          let '(o1, e) := n__enddef o in
          if negb (ok e) then (COpen o1, e) else
          (COpen (set_dflag o1 (apply_ops (dflag o1) flagops_ncmpi__enddef)), NC_NOERR)
      | Redef =>
          if d_ro o then (s, NC_EPERM)
          else if d_def o then (s, NC_EINDEFINE)
          else let '(o1, e) := n_redef o in
               if negb (ok e) then (COpen o1, e) else
               (COpen (set_dflag o1 (apply_ops (dflag o1) flagops_ncmpi_redef)), NC_NOERR)
      | BeginIndep =>
          let '(o1, e) := n_begin_indep_data o in
          if negb (ok e) then (COpen o1, e) else
          (COpen (set_dflag o1 (apply_ops (dflag o1) flagops_ncmpi_begin_indep_data)), NC_NOERR)
      | EndIndep =>
          let '(o1, e) := n_end_indep_data o in
          if negb (ok e) then (COpen o1, e) else
          (COpen (set_dflag o1 (apply_ops (dflag o1) flagops_ncmpi_end_indep_data)), NC_NOERR)
      | Close => (CClosed, n_close o v)        (* the slot is released whatever the driver returns *)
      | Abort => (CClosed, n_abort o)
      | Sync => (s, n_sync o)
      | SyncNumrecs => (s, n_sync_numrecs o)
      | Flush => (s, NC_NOERR)
      | SetFill fill =>
          if d_ro o then (s, NC_EPERM)
          else if negb (d_def o) then (s, NC_ENOTINDEFINE)
          else let nf := if fill then fSet (nflags o) NC_MODE_FILL else fClr (nflags o) NC_MODE_FILL in
               let df := if fill then fSet (dflag o) NC_MODE_FILL else fClr (dflag o) NC_MODE_FILL in
               (COpen (mkO df nf (old o) (nrecv o) (hasrec o)), NC_NOERR)
      | DefDim => if negb (d_def o) then (s, NC_ENOTINDEFINE) else (s, NC_NOERR)
      | DefVar rec =>
          if negb (d_def o) then (s, NC_ENOTINDEFINE)
          else (COpen (mkO (dflag o) (nflags o) (old o) (nrecv o) (hasrec o || rec)), NC_NOERR)
      | DefVarFill => if negb (d_def o) then (s, NC_ENOTINDEFINE) else (s, NC_NOERR)
      | PutAtt k =>
          (* sanity_check_put, check_EBADTYPE_ECHAR; then ncmpio_put_att *)
          let err := if d_ro o then NC_EPERM
                     else match k with AttBadVar => NC_ENOTVAR | AttNewBadType => NC_EBADTYPE | _ => NC_NOERR end in
          if negb (ok err) then (s, err)
          else if attk_needs_define k && negb (n_def o) then (s, NC_ENOTINDEFINE)
          else (s, NC_NOERR)
      | DelAtt badvar =>
          if d_ro o then (s, NC_EPERM)
          else if negb (d_def o) then (s, NC_ENOTINDEFINE)
          else if badvar then (s, NC_ENOTVAR)
          else (s, NC_ENOTATT)                 (* ncmpio_del_att: no such attribute *)
      | GetAtt => (s, NC_NOERR)
      | RenameVar => if d_ro o then (s, NC_EPERM) else (s, NC_NOERR)
      | RenameDim =>
          if d_ro o then (s, NC_EPERM)
          else if negb (n_def o) then (s, NC_ENOTINDEFINE)   (* ncmpio_rename_dim: longer name in data mode *)
          else (s, NC_NOERR)
      | Put coll badvar => (s, sanity_check o true true coll badvar)
      | Get coll badvar => (s, sanity_check o false true coll badvar)
      | IPut badvar => (s, sanity_check o true false false badvar)
      | IGet => (s, sanity_check o false false false false)
      | BPut =>
          let err := sanity_check o true false false false in
          if negb (ok err) then (s, err)
          else if negb (v_abuf v) then (s, NC_ENULLABUF)      (* inq_misc(buf_size) *)
          else (s, NC_NOERR)
      | Wait coll all => (s, n_wait o coll all)
      | Cancel => (s, NC_NOERR)
      | Attach => if v_abuf v then (s, NC_EPREVATTACHBUF) else (s, NC_NOERR)
      | Detach => if negb (v_abuf v) then (s, NC_ENULLABUF)
                  else if v_bput v then (s, NC_EPENDINGBPUT) else (s, NC_NOERR)
      | InqBuffer => if negb (v_abuf v) then (s, NC_ENULLABUF) else (s, NC_NOERR)
      | FillVarRec =>
          (* ncmpi_fill_var_rec: the sanity tests assign err and jump to err_check *)
          let err := if d_ro o then NC_EPERM
                     else if d_def o then NC_EINDEFINE
                     else if negb (hasrec o) then NC_ENOTRECVAR
                     else if d_indep o then NC_EINDEP
                     else NC_NOERR in
          if (d_safe o || FILL_VAR_REC_RETURNS_ERR) && negb (ok err) then (s, err)
          else (* ncmpio_fill_var_rec *)
               if negb (hasrec o) then (s, NC_ENOTRECVAR)
               else if n_ro o then (s, NC_EPERM)            (* MPI write through a read-only handle *)
               else (s, NC_NOERR)
      | Inq => (s, NC_NOERR)
      end
  end.

(* ---- the request counters and the attached buffer *)
Definition aux_step (s : core) (a : aux) (c : call) (rc : Z) (s' : core) : aux :=
  match s' with
  | CClosed => aux0                      (* handle released: queues are gone with it *)
  | COpen _ =>
      match s with
      | CClosed => aux0                  (* fresh handle *)
      | COpen _ =>
          if negb (ok rc) then a else
          match c with
          | IPut false => mkA (S (a_put a)) (a_get a) (a_bput a) (a_abuf a)
          | IGet       => mkA (a_put a) (S (a_get a)) (a_bput a) (a_abuf a)
          | BPut       => mkA (a_put a) (a_get a) (S (a_bput a)) (a_abuf a)
          | Wait _ true => mkA 0 0 0 (a_abuf a)
          | Cancel     => mkA 0 0 0 (a_abuf a)
          | Attach     => mkA (a_put a) (a_get a) (a_bput a) true
          | Detach     => mkA (a_put a) (a_get a) (a_bput a) false
          | _ => a
          end
      end
  end.

Definition step (st : state) (c : call) : state * Z :=
  let '(s', rc) := cstep (co st) (view_aux (ax st)) c in
  (mkS s' (aux_step (co st) (ax st) c rc s'), rc).

Fixpoint run (st : state) (cs : list call) : state :=
  match cs with [] => st | c :: r => run (fst (step st c)) r end.
Fixpoint run_rcs (st : state) (cs : list call) : list Z :=
  match cs with [] => [] | c :: r => snd (step st c) :: run_rcs (fst (step st c)) r end.

(* ---- the three modes, read from BOTH layers *)
Definition in_define (o : ost) : bool := d_def o && n_def o.
Definition in_coll   (o : ost) : bool := negb (d_def o) && negb (n_def o) && negb (d_indep o) && negb (n_indep o).
Definition in_indep  (o : ost) : bool := negb (d_def o) && negb (n_def o) && d_indep o && n_indep o.
Definition exactly_one (a b c : bool) : bool :=
  (a && negb b && negb c) || (negb a && b && negb c) || (negb a && negb b && c).

(* ---- SPEC: documented precedence as an ordered filter over an abstract view of the file *)
Inductive amode := MDefine | MColl | MIndep.
Record fview := mkW { w_ro : bool; w_mode : amode; w_hasrec : bool; w_nrecv : bool }.
Definition view_of (o : ost) : fview :=
  mkW (d_ro o) (if d_def o then MDefine else if d_indep o then MIndep else MColl) (hasrec o) (nrecv o).
Definition isdef (w : fview) := match w_mode w with MDefine => true | _ => false end.
Definition isindep (w : fview) := match w_mode w with MIndep => true | _ => false end.
Definition iscoll (w : fview) := match w_mode w with MColl => true | _ => false end.

Definition rule := (Z * bool)%type.
(* the rules of call c, most serious first, already instantiated on the view: (code, applicable?) *)
Definition rules (c : call) (w : fview) (v : auxv) : list rule :=
  match c with
  | Create _ | Open _ _ _ => []
  | Enddef => [(NC_ENOTINDEFINE, negb (isdef w))]
  | EnddefX neg => [(NC_ENOTINDEFINE, negb (isdef w)); (NC_EINVAL, neg)]
  | Redef => [(NC_EPERM, w_ro w); (NC_EINDEFINE, isdef w)]
  | BeginIndep | EndIndep => [(NC_EINDEFINE, isdef w)]
  | Close => [(NC_EPENDING, v_get v || v_put v)]
  | Abort => []
  | Sync => [(NC_EINDEFINE, isdef w)]
  | SyncNumrecs => [(NC_EINDEFINE, isdef w); (NC_EPERM, w_nrecv w && w_ro w)]
  | Flush => []
  | SetFill _ => [(NC_EPERM, w_ro w); (NC_ENOTINDEFINE, negb (isdef w))]
  | DefDim | DefVar _ | DefVarFill => [(NC_ENOTINDEFINE, negb (isdef w))]
  | PutAtt k =>   (* DEVELOPER_NOTES: NC_EBADID, NC_EPERM, NC_ENOTVAR, NC_EBADNAME, NC_EBADTYPE, NC_ECHAR, NC_EINVAL, NC_ENOTINDEFINE, NC_ERANGE *)
      [(NC_EPERM, w_ro w);
       (NC_ENOTVAR, match k with AttBadVar => true | _ => false end);
       (NC_EBADTYPE, match k with AttNewBadType => true | _ => false end);
       (NC_ENOTINDEFINE, attk_needs_define k && negb (isdef w))]
  | DelAtt badvar => [(NC_EPERM, w_ro w); (NC_ENOTINDEFINE, negb (isdef w)); (NC_ENOTVAR, badvar); (NC_ENOTATT, true)]
  | GetAtt => []
  | RenameVar => [(NC_EPERM, w_ro w)]
  | RenameDim => [(NC_EPERM, w_ro w); (NC_ENOTINDEFINE, negb (isdef w))]
  | Put coll badvar => (* NC_EBADID, NC_EPERM, NC_EINDEFINE, (NC_EINDEP | NC_ENOTINDEP), NC_ENOTVAR, ... *)
      [(NC_EPERM, w_ro w); (NC_EINDEFINE, isdef w); (NC_EINDEP, coll && isindep w);
       (NC_ENOTINDEP, negb coll && iscoll w); (NC_ENOTVAR, badvar)]
  | Get coll badvar =>
      [(NC_EINDEFINE, isdef w); (NC_EINDEP, coll && isindep w); (NC_ENOTINDEP, negb coll && iscoll w); (NC_ENOTVAR, badvar)]
  | IPut badvar => [(NC_EPERM, w_ro w); (NC_ENOTVAR, badvar)]
  | IGet => []
  | BPut => [(NC_EPERM, w_ro w); (NC_ENULLABUF, negb (v_abuf v))]
  | Wait coll all =>
      if ENABLE_REQ_AGGREGATION then
        [(NC_EINDEFINE, isdef w); (NC_EINDEP, coll && isindep w); (NC_ENOTINDEP, negb coll && iscoll w)]
      else
        [(NC_EINDEFINE, isdef w); (NC_EINDEP, coll && isindep w); (NC_ENOTINDEP, negb coll && all && iscoll w)]
  | Cancel => []
  | Attach => [(NC_EPREVATTACHBUF, v_abuf v)]
  | Detach => [(NC_ENULLABUF, negb (v_abuf v)); (NC_EPENDINGBPUT, v_bput v)]
  | InqBuffer => [(NC_ENULLABUF, negb (v_abuf v))]
  | FillVarRec => [(NC_EPERM, w_ro w); (NC_EINDEFINE, isdef w); (NC_ENOTRECVAR, negb (w_hasrec w)); (NC_EINDEP, isindep w)]
  | Inq => []
  end.
Fixpoint first_applicable (l : list rule) : Z :=
  match l with [] => NC_NOERR | (e, b) :: r => if b then e else first_applicable r end.
Definition spec_err (s : core) (v : auxv) (c : call) : Z :=
  match s with
  | CClosed => match c with Create _ | Open _ _ _ => NC_NOERR | _ => NC_EBADID end
  | COpen o => first_applicable (rules c (view_of o) v)
  end.
Definition permitted (s : core) (v : auxv) (c : call) : bool := ok (spec_err s v c).

(* ---- finite enumerations (for the vm_compute sweeps of Proofs_Modes.v and for the tie) *)
Definition bools := [false; true].
Definition all_attk := [AttNew; AttSame; AttGrow; AttBadVar; AttNewBadType].
Definition all_calls : list call :=
  map Create bools ++
  flat_map (fun rw => flat_map (fun rec => map (Open rw rec) bools) bools) bools ++
  [Enddef] ++ map EnddefX bools ++ [Redef; BeginIndep; EndIndep; Close; Abort; Sync; SyncNumrecs; Flush] ++
  map SetFill bools ++ [DefDim] ++ map DefVar bools ++ [DefVarFill] ++ map PutAtt all_attk ++ map DelAtt bools ++
  [GetAtt; RenameVar; RenameDim] ++
  flat_map (fun cl => map (Put cl) bools) bools ++ flat_map (fun cl => map (Get cl) bools) bools ++
  map IPut bools ++ [IGet; BPut] ++ flat_map (fun cl => map (Wait cl) bools) bools ++
  [Cancel; Attach; Detach; InqBuffer; FillVarRec; Inq].
Definition all_auxv : list auxv :=
  flat_map (fun a => flat_map (fun b => flat_map (fun c => map (mkV a b c) bools) bools) bools) bools.

Definition ost_eqb (a b : ost) : bool :=
  (dflag a =? dflag b) && (nflags a =? nflags b) && Bool.eqb (old a) (old b) &&
  Bool.eqb (nrecv a) (nrecv b) && Bool.eqb (hasrec a) (hasrec b).
Definition core_eqb (a b : core) : bool :=
  match a, b with CClosed, CClosed => true | COpen x, COpen y => ost_eqb x y | _, _ => false end.
Definition core_mem (x : core) (l : list core) : bool := existsb (core_eqb x) l.
Definition core_add (x : core) (l : list core) : list core := if core_mem x l then l else l ++ [x].

(* breadth-first search of the core graph with a witness path for every state found *)
Definition cnext (s : core) (c : call) : core := fst (cstep s (mkV false false false false) c).
Definition path_mem (x : core) (l : list (core * list call)) : bool := existsb (fun p => core_eqb x (fst p)) l.
Definition bfs_round (l : list (core * list call)) : list (core * list call) :=
  fold_left (fun acc (p : core * list call) =>
     fold_left (fun acc c => let s' := cnext (fst p) c in
                             if path_mem s' acc then acc else acc ++ [(s', snd p ++ [c])]) all_calls acc) l l.
Fixpoint bfs (k : nat) (l : list (core * list call)) : list (core * list call) :=
  match k with O => l | S k' => bfs k' (bfs_round l) end.
Definition REACH_K : nat := 6.
Definition reach_table : list (core * list call) := bfs REACH_K [(CClosed, [])].
Definition reach_cores : list core := map fst reach_table.

(* ---- numeric codes of calls (shared with checks/C14.py through the extracted driver) *)
Definition call_code (c : call) : nat :=
  match c with
  | Create false => 0 | Create true => 1
  | Open rw rec safe => 2 + (if rw then 4 else 0) + (if rec then 2 else 0) + (if safe then 1 else 0)
  | Enddef => 10 | EnddefX false => 11 | EnddefX true => 12 | Redef => 13 | BeginIndep => 14 | EndIndep => 15
  | Close => 16 | Abort => 17 | Sync => 18 | SyncNumrecs => 19 | Flush => 20
  | SetFill false => 21 | SetFill true => 22 | DefDim => 23 | DefVar false => 24 | DefVar true => 25 | DefVarFill => 26
  | PutAtt AttNew => 27 | PutAtt AttSame => 28 | PutAtt AttGrow => 29 | PutAtt AttBadVar => 30 | PutAtt AttNewBadType => 31
  | DelAtt false => 32 | DelAtt true => 33 | GetAtt => 34 | RenameVar => 35 | RenameDim => 36
  | Put cl bv => 37 + (if cl then 2 else 0) + (if bv then 1 else 0)
  | Get cl bv => 41 + (if cl then 2 else 0) + (if bv then 1 else 0)
  | IPut false => 45 | IPut true => 46 | IGet => 47 | BPut => 48
  | Wait cl al => 49 + (if cl then 2 else 0) + (if al then 1 else 0)
  | Cancel => 53 | Attach => 54 | Detach => 55 | InqBuffer => 56 | FillVarRec => 57 | Inq => 58
  end%nat.
Definition call_of_code (n : nat) : option call :=
  find (fun c => Nat.eqb (call_code c) n) all_calls.

(* observation of one step for the tie: return code and the three words of the core afterwards
   (dflag, nflags, 4*old + 2*nrecv + hasrec); a closed handle is (-1,-1,-1) *)
Definition core_sig (s : core) : Z * Z * Z :=
  match s with
  | CClosed => (-1, -1, -1)
  | COpen o => (dflag o, nflags o, (if old o then 4 else 0) + (if nrecv o then 2 else 0) + (if hasrec o then 1 else 0))
  end.
(* per step: model return code, specification return code (before the step), core signature after the step,
   number of pending requests and attached-buffer flag after the step *)
Record obs := mkObs { o_rc : Z; o_spec : Z; o_sig : Z * Z * Z; o_nreq : Z; o_abuf : Z }.
Fixpoint run_codes (st : state) (cs : list nat) : list (option obs) :=
  match cs with
  | [] => []
  | n :: r => match call_of_code n with
              | None => None :: run_codes st r
              | Some c => let '(st', rc) := step st c in
                          Some (mkObs rc (spec_err (co st) (view_aux (ax st)) c) (core_sig (co st'))
                                      (Z.of_nat (a_put (ax st') + a_get (ax st') + a_bput (ax st')))
                                      (if a_abuf (ax st') then 1 else 0)) :: run_codes st' r
              end
  end.
