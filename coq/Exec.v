(* Exec.v — executable model of a PnetCDF session on n ranks: the interpreter of the
   script language of harness/SCRIPT.md.  Every operation returns the observation tokens
   that pnc_impl prints for the same line.  No proofs here (the model still runs when a
   proof breaks). *)
From Pnc Require Export Access Data.
Local Open Scope Z_scope.

(* ---------- observations ---------- *)
Inductive tok :=
| TZ (z : Z)                 (* decimal integer *)
| THex (bs : list byte)      (* hex dump, "-" when empty *)
| TName (prefix : Z) (bs : list byte)   (* prefix char code (0 = none) followed by hex name *)
| TSame                      (* the token "same" *)
| TBuf (slot : Z) (body : option (list byte))  (* B<slot>=<hex> or B<slot>=same *)
| TStat (st id : Z)          (* <status>:<idafter> *)
| TSkip.                     (* model does not predict this token *)

Definition RC_UNMODELLED : Z := -7777.

(* ---------- disk ---------- *)
Record disk := mkdisk { dk_exists : bool; dk_size : Z; dk_get : Z -> byte }.
Definition empty_disk := mkdisk false 0 (fun _ => 0).

Definition dk_write (d : disk) (off : Z) (bs : list byte) : disk :=
  match bs with
  | [] => d
  | _ =>
    let n := Zlen bs in
    mkdisk true (Z.max (dk_size d) (off + n))
           (fun x => if (off <=? x) && (x <? off + n) then znth bs (x - off) 0 else dk_get d x)
  end.

Definition dk_read (d : disk) (off n : Z) : list byte := map (dk_get d) (zrange off n).

(* ---------- nonblocking requests ---------- *)
Inductive bufspec :=
| BTyped                       (* typed API: contiguous, count ignored *)
| BContig (bufcount : Z)       (* flexible, predefined type x bufcount *)
| BVector (c b s : Z)          (* flexible, MPI_Type_vector(c,b,s,elem), bufcount 1 *)
| BNull.                       (* flexible, MPI_DATATYPE_NULL *)

Inductive form :=
| FVar
| FVar1 (start : option (list Z))
| FVara (start count : option (list Z))
| FVars (start count stride : option (list Z))
| FVarm (start count stride imap : option (list Z))
| FVarn (reqs : list (list Z * list Z)).

Record access := mkacc { ac_var : Z; ac_form : form; ac_memt : Z; ac_flex : bool;
                         ac_buf : bufspec; ac_seed : Z }.

(* a pending request as the model keeps it: everything needed to perform it later *)
Record preq := mkpreq { pr_id : Z; pr_isput : bool; pr_isbput : bool; pr_slot : Z;
                        pr_acc : access;
                        pr_stream : list byte;   (* put: external bytes captured at post *)
                        pr_bytes : Z }.          (* bput: bytes charged to the attached buffer *)

Record slotst := mkslot { sl_id : Z; sl_isput : bool; sl_acc : access;
                          sl_buf : list byte;    (* current content incl. guards *)
                          sl_last : list byte }. (* content at previous dump *)

Record rankst := mkrank { rk_numrecs : Z; rk_dirty : bool;
                          rk_reqs : list preq; rk_nput : Z; rk_nget : Z;
                          rk_abuf : option (Z * Z);      (* size, used *)
                          rk_slots : list (Z * slotst) }.

Definition rank0 := mkrank 0 false [] 0 0 None [].

Record filest := mkfile {
  f_hdr : hdr; f_lay : layout;
  f_indef : bool; f_indep : bool; f_rdonly : bool; f_isnew : bool;
  f_old : option (hdr * layout);
  f_fill : bool;
  f_align : aligncfg;
  f_ranks : list rankst;
  f_slot : Z;
  f_tainted : bool }.

Record world := mkworld {
  w_nprocs : Z;
  w_disks : list disk;
  w_files : list (option filest);     (* index = ncid *)
  w_ids : list Z;                     (* script slot -> ncid last stored *)
  w_hints : aligncfg;
  w_strict : bool }.

Definition no_align := mkalign 0 0 0.
Definition world0 (n : Z) : world :=
  mkworld n (repeat empty_disk 8) [] (repeat (-1) 8) no_align false.

(* ---------- generic helpers ---------- *)
Definition get_file (w : world) (slot : Z) : option (Z * filest) :=
  let id := znth (w_ids w) slot (-1) in
  if (id <? 0) then None else
  match znth (w_files w) id None with
  | Some f => Some (id, f)
  | None => None
  end.

Fixpoint set_nth {A} (l : list A) (i : Z) (v d : A) : list A :=
  match l with
  | [] => if i <=? 0 then [v] else d :: set_nth [] (i - 1) v d
  | x :: r => if i =? 0 then v :: r else x :: set_nth r (i - 1) v d
  end.
(* set_nth on [] with large i must terminate: structural on nothing -> use fuel version *)
