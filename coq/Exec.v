(* Exec.v — executable model of a PnetCDF session on n ranks: the interpreter of the
   script language of harness/SCRIPT.md.  Every operation returns the observation tokens
   that pnc_impl prints for the same line.  No proofs here (the model still runs when a
   proof breaks). *)
From Pnc Require Export Access Data Disk Move Fill.
Local Open Scope Z_scope.

(* ---------- observations ---------- *)
Inductive tok :=
| TZ (z : Z)                 (* decimal integer *)
| THex (bs : list byte)      (* hex dump, "-" when empty *)
| TName (prefix : Z) (bs : list byte)   (* prefix char code (0 = none) followed by hex name *)
| TSame                      (* the token "same" *)
| TBuf (slot : Z) (body : option (list byte))  (* B<slot>=<hex> or B<slot>=same *)
| TStat (st id : Z)          (* <status>:<idafter> *)
| TSkip.                     (* model does not predict this token *)

Definition RC_UNMODELLED : Z := -7777.
Definition RC_ANY : Z := -7776.   (* return code not predicted (data undefined); extras are *)

(* ---------- requests ---------- *)
Inductive bufspec :=
| BTyped                       (* typed API: contiguous, count ignored *)
| BContig (bufcount : Z)       (* flexible, predefined type x bufcount *)
| BVector (c b s : Z)          (* flexible, MPI_Type_vector(c,b,s,elem), bufcount 1 *)
| BNull.                       (* flexible, MPI_DATATYPE_NULL *)

Inductive form :=
| FVar
| FVar1 (start : option (list Z))
| FVara (start count : option (list Z))
| FVars (start count stride : option (list Z))
| FVarm (start count stride imap : option (list Z))
| FVarn (reqs : list (list Z * list Z)).

Record access := mkacc { ac_var : Z; ac_form : form; ac_memt : Z; ac_flex : bool;
                         ac_buf : bufspec; ac_seed : Z }.

Record preq := mkpreq { pr_id : Z; pr_isput : bool; pr_isbput : bool; pr_slot : Z;
                        pr_acc : access;
                        pr_stream : list byte;   (* put: external bytes captured at post *)
                        pr_bytes : Z }.          (* bput: bytes charged to the attached buffer *)

Record slotst := mkslot { sl_id : Z; sl_isput : bool;
                          sl_buf : list byte;    (* current content incl. guards *)
                          sl_last : list byte }. (* content at previous dump *)

Record rankst := mkrank { rk_numrecs : Z; rk_dirty : bool;
                          rk_reqs : list preq; rk_nput : Z; rk_nget : Z;
                          rk_abuf : option (Z * Z);      (* size, used *)
                          rk_slots : list (Z * slotst) }.

Definition rank_init (numrecs : Z) := mkrank numrecs false [] 0 0 None [].

Record filest := mkfile {
  f_hdr : hdr; f_lay : layout;
  f_indef : bool; f_indep : bool; f_rdonly : bool; f_isnew : bool;
  f_old : option (hdr * layout);
  f_fill : bool;
  f_align : aligncfg;
  f_ranks : list rankst;
  f_slot : Z;
  f_tainted : bool }.

Record world := mkworld {
  w_nprocs : Z;
  w_disks : list disk;
  w_files : list (option filest);     (* index = ncid *)
  w_ids : list Z;                     (* script slot -> ncid last stored *)
  w_hints : aligncfg;
  w_strict : bool;
  w_move_unit : Z }.

Definition no_align := mkalign 0 0 0.
Definition world0 (n : Z) : world :=
  mkworld n (repeat empty_disk 8) [] (repeat (-1) 8) no_align false MOVE_UNIT.

(* ---------- small helpers ---------- *)
Definition set_disk (w : world) (slot : Z) (d : disk) : world :=
  mkworld (w_nprocs w) (zupd (w_disks w) slot d) (w_files w) (w_ids w) (w_hints w) (w_strict w) (w_move_unit w).
Definition get_disk (w : world) (slot : Z) : disk := znth (w_disks w) slot empty_disk.
Definition set_files (w : world) (fs : list (option filest)) : world :=
  mkworld (w_nprocs w) (w_disks w) fs (w_ids w) (w_hints w) (w_strict w) (w_move_unit w).
Definition set_ids (w : world) (ids : list Z) : world :=
  mkworld (w_nprocs w) (w_disks w) (w_files w) ids (w_hints w) (w_strict w) (w_move_unit w).
Definition set_hints (w : world) (h : aligncfg) : world :=
  mkworld (w_nprocs w) (w_disks w) (w_files w) (w_ids w) h (w_strict w) (w_move_unit w).

Definition put_file (w : world) (id : Z) (f : option filest) : world :=
  set_files w (zupd (w_files w) id f).

Definition lookup_file (w : world) (slot : Z) : option (Z * filest) :=
  let id := znth (w_ids w) slot (-1) in
  if id <? 0 then None
  else match znth (w_files w) id None with
       | Some f => Some (id, f)
       | None => None
       end.

Definition upd_hdr (f : filest) (h : hdr) : filest :=
  mkfile h (f_lay f) (f_indef f) (f_indep f) (f_rdonly f) (f_isnew f) (f_old f) (f_fill f)
         (f_align f) (f_ranks f) (f_slot f) (f_tainted f).
Definition upd_ranks (f : filest) (r : list rankst) : filest :=
  mkfile (f_hdr f) (f_lay f) (f_indef f) (f_indep f) (f_rdonly f) (f_isnew f) (f_old f) (f_fill f)
         (f_align f) r (f_slot f) (f_tainted f).
Definition upd_rank (f : filest) (rank : Z) (r : rankst) : filest :=
  upd_ranks f (zupd (f_ranks f) rank r).
Definition get_rank (f : filest) (rank : Z) : rankst := znth (f_ranks f) rank (rank_init 0).
Definition taint (f : filest) : filest :=
  mkfile (f_hdr f) (f_lay f) (f_indef f) (f_indep f) (f_rdonly f) (f_isnew f) (f_old f) (f_fill f)
         (f_align f) (f_ranks f) (f_slot f) true.

Definition rk_set_numrecs (r : rankst) (n : Z) (dirty : bool) : rankst :=
  mkrank n dirty (rk_reqs r) (rk_nput r) (rk_nget r) (rk_abuf r) (rk_slots r).

Definition all_ranks (w : world) : list Z := zrange 0 (w_nprocs w).

(* result of one script step: for each executing rank (rank, rc, extra tokens) *)
Definition obs := (Z * Z * list tok)%type.
Definition same_all (w : world) (rc : Z) (ex : list tok) : list obs :=
  map (fun r => (r, rc, ex)) (all_ranks w).

Definition unlim_dimid (h : hdr) : Z :=
  match find_index (fun d => d_size d =? 0) (h_dims h) 0 with Some i => i | None => -1 end.
Definition num_rec_vars (h : hdr) : Z :=
  Zlen (filter (is_recvar (h_dims h)) (h_vars h)).

Definition geom_of (f : filest) (v : var) : geom :=
  mkgeom (v_begin v) (xlen_type (v_type v)) (var_shape (h_dims (f_hdr f)) v)
         (l_recsize (f_lay f)) (num_rec_vars (f_hdr f)).

(* ---------- create / open / close ---------- *)
Fixpoint first_free (l : list (option filest)) (i : Z) : Z :=
  match l with
  | [] => i
  | None :: _ => i
  | Some _ :: r => first_free r (i + 1)
  end.

Definition empty_layout := mklayout 0 0 0 0 [].

Definition do_create (w : world) (slot fmt clobber : Z) : world * list obs :=
  let d := get_disk w slot in
  if dk_exists d && (clobber =? 0) then
    (set_hints (set_ids w (zupd (w_ids w) slot (-1))) no_align, same_all w NC_EEXIST [TSkip])
  else
    let id := first_free (w_files w) 0 in
    let f := mkfile (mkhdr fmt 0 [] [] []) empty_layout true false false true None false
                    (w_hints w) (map (fun _ => rank_init 0) (all_ranks w)) slot false in
    let files := if id <? Zlen (w_files w) then zupd (w_files w) id (Some f)
                 else w_files w ++ [Some f] in
    let w1 := set_disk w slot (mkdisk true 0 (fun _ => UNDEF)) in
    let w2 := set_hints (set_ids (set_files w1 files) (zupd (w_ids w) slot id)) no_align in
    (w2, same_all w NC_NOERR [TZ id]).

(* ---------- metadata in define mode ---------- *)
Definition name_err (nm : list byte) : Z :=
  match nm with
  | [] => NC_EBADNAME
  | _ => if Zlen nm >? NC_MAX_NAME then NC_EMAXNAME else NC_NOERR
  end.

(* names the model is willing to judge: ASCII letters, digits, underscore; first not a digit *)
Definition simple_char (c : Z) : bool :=
  ((65 <=? c) && (c <=? 90)) || ((97 <=? c) && (c <=? 122)) || ((48 <=? c) && (c <=? 57)) || (c =? 95).
Definition simple_name (nm : list byte) : bool :=
  match nm with
  | [] => true
  | c :: _ => forallb simple_char nm && negb ((48 <=? c) && (c <=? 57))
  end.

Definition do_def_dim (f : filest) (nm : list byte) (len : Z) : option (filest * Z * list tok) :=
  if negb (simple_name nm) then None else
  let h := f_hdr f in
  let fmt := h_format h in
  if negb (f_indef f) then Some (f, NC_ENOTINDEFINE, [TSkip])
  else if negb (name_err nm =? NC_NOERR) then Some (f, name_err nm, [TSkip])
  else if (len <? 0) || ((fmt <? 5) && (len >? NC_MAX_INT)) then Some (f, NC_EDIMSIZE, [TSkip])
  else if (len =? 0) && negb (unlim_dimid h =? -1) then Some (f, NC_EUNLIMIT, [TSkip])
  else match find_dim h nm with
       | Some _ => Some (f, NC_ENAMEINUSE, [TSkip])
       | None =>
           let h' := mkhdr fmt (h_numrecs h) (h_dims h ++ [mkdim nm len]) (h_gatts h) (h_vars h) in
           Some (upd_hdr f h', NC_NOERR, [TZ (Zlen (h_dims h))])
       end.

Definition do_def_var (f : filest) (nm : list byte) (t : Z) (dimids : list Z)
  : option (filest * Z * list tok) :=
  if negb (simple_name nm) then None else
  let h := f_hdr f in
  let fmt := h_format h in
  if negb (f_indef f) then Some (f, NC_ENOTINDEFINE, [TSkip])
  else if negb (name_err nm =? NC_NOERR) then Some (f, name_err nm, [TSkip])
  else if negb ((1 <=? t) && (t <=? 11)) then Some (f, NC_EBADTYPE, [TSkip])
  else if (fmt <? 5) && (t >? 6) then Some (f, NC_ESTRICTCDF2, [TSkip])
  else if existsb (fun d => (d <? 0) || (d >=? Zlen (h_dims h))) dimids then Some (f, NC_EBADDIM, [TSkip])
  else if existsb (fun d => dim_size (h_dims h) d =? 0) (tl dimids) then Some (f, NC_EUNLIMPOS, [TSkip])
  else match find_var h nm with
       | Some _ => Some (f, NC_ENAMEINUSE, [TSkip])
       | None =>
           (* ncmpio_NC_var_shape64: no variable may exceed X_INT64_MAX - 3 bytes, whatever the format *)
           if negb (check_vlen (xlen_type t) (map (dim_size (h_dims h)) dimids) (NC_MAX_INT64 - 3))
           then Some (f, NC_EVARSIZE, [TSkip]) else
           let v := mkvar nm dimids [] t 0 (negb (f_fill f)) in
           let h' := mkhdr fmt (h_numrecs h) (h_dims h) (h_gatts h) (h_vars h ++ [v]) in
           Some (upd_hdr f h', NC_NOERR, [TZ (Zlen (h_vars h))])
       end.

(* attribute value bytes from script integers *)
Definition att_bytes (t : Z) (vals : list Z) : option (list byte) :=
  if t =? 2 then Some (map (fun v => v mod 256) vals)
  else if is_float_type t then
    if forallb (fun v => Z.abs v <? 16777216) vals then Some (flat_map (enc_value t) vals) else None
  else if forallb (fun v => (type_min t <=? v) && (v <=? type_max t)) vals
       then Some (flat_map (enc_value t) vals) else None.

Definition set_att_list (l : list att) (a : att) : list att :=
  match find_att l (a_name a) with
  | Some i => zupd l i a
  | None => l ++ [a]
  end.

Definition upd_var_atts (h : hdr) (varid : Z) (g : list att -> list att) : hdr :=
  if varid =? -1 then mkhdr (h_format h) (h_numrecs h) (h_dims h) (g (h_gatts h)) (h_vars h)
  else mkhdr (h_format h) (h_numrecs h) (h_dims h) (h_gatts h)
             (map (fun p => let v := snd p in
                            if fst p =? varid
                            then mkvar (v_name v) (v_dimids v) (g (v_atts v)) (v_type v) (v_begin v) (v_nofill v)
                            else v)
                  (zip (zrange 0 (Zlen (h_vars h))) (h_vars h))).

Definition atts_of (h : hdr) (varid : Z) : option (list att) :=
  if varid =? -1 then Some (h_gatts h)
  else if (0 <=? varid) && (varid <? Zlen (h_vars h))
       then Some (v_atts (znth (h_vars h) varid (mkvar [] [] [] 0 0 true)))
       else None.

(* ---------- header write, numrecs write ---------- *)
Definition write_header (d : disk) (h : hdr) : disk := dk_write d 0 (encode_header h).

Definition write_numrecs_bytes (d : disk) (fmt n : Z) : disk := dk_write d 4 (put_nn fmt n).

(* ---------- enddef ---------- *)
Definition sync_ranks_numrecs (f : filest) (n : Z) : filest :=
  upd_ranks f (map (fun r => rk_set_numrecs r n false) (f_ranks f)).

Definition do_enddef (w : world) (id : Z) (f : filest) (ea : enddef_args)
  : option (world * Z) :=
  let h := f_hdr f in
  if negb (f_indef f) then Some (w, NC_ENOTINDEFINE)
  else if (e_h_minfree ea <? 0) || (e_v_align ea <? 0) || (e_v_minfree ea <? 0) || (e_r_align ea <? 0)
  then Some (w, NC_EINVAL)
  else
    let e := check_vlens h in
    if negb (e =? NC_NOERR) then Some (w, e)
    else
      (* the code uses ncp->vars.num_rec_vars as it was BEFORE this enddef recounts it: 0 on a
         newly created file, the old header's count after a redef *)
      let stale_nrec := match f_old f with Some (oh, _) => num_rec_vars oh | None => 0 end in
      let nfix := Zlen (h_vars h) - stale_nrec in
      let is_new := match f_old f with None => true | Some _ => false end in
      let '(ha, _, ra) := resolve_align (f_align f) ea nfix is_new in
      let oldinfo := match f_old f with
                     | Some (oh, ol) => Some (ol, map (is_recvar (h_dims oh)) (h_vars oh))
                     | None => None end in
      match begins h (e_h_minfree ea) (e_v_minfree ea) ha ra oldinfo (l_begin_rec (f_lay f)) with
      | None => Some (w, NC_EVARSIZE)
      | Some lay =>
          let numrecs := if f_isnew f then 0 else h_numrecs h in
          let h1 := set_numrecs (set_begins h (l_begins lay)) numrecs in
          let d0 := get_disk w (f_slot f) in
          let np := w_nprocs w in
          let d1 :=
            match f_old f with
            | Some (oh, ol) =>
                match h_vars h with
                | [] => d0
                | _ =>
                  let lens := map (var_len (h_dims h)) (h_vars h) in
                  if l_begin_var lay >? l_begin_var ol then
                    move_fixed_vars (move_record_vars d0 np (w_move_unit w) numrecs lay ol)
                                    np (w_move_unit w) oh lay ol lens
                  else if (l_begin_rec lay >? l_begin_rec ol) || (l_recsize lay >? l_recsize ol) then
                    move_record_vars d0 np (w_move_unit w) numrecs lay ol
                  else d0
                end
            | None => d0
            end in
          let d2 := write_header d1 h1 in
          let start_vid := match f_old f with Some (oh, _) => Zlen (h_vars oh) | None => 0 end in
          let nrecs_fill := match f_old f with Some (oh, _) => h_numrecs oh | None => 0 end in
          let newvars := zskipn start_vid (h_vars h1) in
          if negb (forallb (fun v => v_nofill v || fill_att_ok v) newvars) then None
          else
          let d3 := match h_vars h1 with
                    | [] => d2
                    | _ => do_fill d2 h1 lay start_vid nrecs_fill np
                    end in
          let f' := mkfile h1 lay false false (f_rdonly f) false None (f_fill f) (f_align f)
                           (f_ranks f) (f_slot f) (f_tainted f) in
          let f'' := sync_ranks_numrecs f' numrecs in
          Some (put_file (set_disk w (f_slot f) d3) id (Some f''), NC_NOERR)
      end.

(* ---------- open: decode the header from disk (the reader proper is modelled in
   Reader.v; here we use the schema the model itself wrote, re-derived by the spec
   decoder in the OCaml driver being unnecessary: the model keeps headers of closed
   files per slot) ---------- *)

(* ---------- data access ---------- *)
Definition GUARD : Z := 16.
Definition guard_bytes : list byte := repeat 165 16.

(* C element size of memory type k *)
Definition mem_size (k : Z) : Z := xlen_type k.

(* resolved request: start/count/stride lists *)
Record rreq := mkrreq { rq_start : list Z; rq_count : list Z; rq_stride : option (list Z);
                        rq_imap : option (list Z) }.

Definition nelems_of (r : rreq) : Z := zprod (rq_count r).

(* positions (element index in the dense lbuf) of the request's elements, row-major *)
Definition lbuf_positions (r : rreq) : list Z :=
  match imap_positions (rq_count r) (rq_imap r) with
  | Some p => p
  | None => zrange 0 (nelems_of r)
  end.

(* user-buffer element index of the k-th element of the packed stream lbuf *)
Definition buf_index (b : bufspec) (k : Z) : Z :=
  match b with
  | BVector c bl s => (k / bl) * s + k mod bl
  | _ => k
  end.

(* number of elements described by the buffer (bnelems) ; None = taken from the request *)
Definition buf_nelems (b : bufspec) : option Z :=
  match b with
  | BContig n => Some n
  | BVector c bl s => Some (c * bl)
  | _ => None
  end.

(* the driver's nelems: product of counts, 1 when some count is negative *)
Definition nelems_or1 (r : rreq) : Z :=
  if existsb (fun c => c <? 0) (rq_count r) then 1 else nelems_of r.

(* extent in elements of the user buffer *)
Definition buf_extent_elems (b : bufspec) (r : rreq) : Z :=
  match b with
  | BContig n => Z.max n 0
  | BVector c bl s => if (c <=? 0) || (bl <=? 0) then 0 else (c - 1) * s + bl
  | _ =>
      match rq_imap r with
      | Some im =>
          if forallb (fun c => c >? 0) (rq_count r) && forallb (fun m => m >=? 0) im
          then 1 + zsum (map (fun p => (fst p - 1) * snd p) (zip (rq_count r) im))
          else nelems_or1 r
      | None => nelems_or1 r
      end
  end.

(* memory type actually used *)
Definition eff_memt (a : access) (xt : Z) : Z :=
  match ac_buf a with BNull => xt | _ => ac_memt a end.

Definition sanity (f : filest) (isput : bool) (blocking : bool) (coll : bool) (a : access) : Z :=
  let h := f_hdr f in
  if isput && f_rdonly f then NC_EPERM
  else if blocking && f_indef f then NC_EINDEFINE
  else if blocking && coll && f_indep f then NC_EINDEP
  else if blocking && negb coll && negb (f_indep f) then NC_ENOTINDEP
  else if ac_var a =? -1 then NC_EGLOBAL
  else if (ac_var a <? 0) || (ac_var a >=? Zlen (h_vars h)) then NC_ENOTVAR
  else if ac_flex a then NC_NOERR
  else
    let xt := v_type (znth (h_vars h) (ac_var a) (mkvar [] [] [] 0 0 true)) in
    if ac_memt a =? 2 then (if xt =? 2 then NC_NOERR else NC_ECHAR)
    else if xt =? 2 then NC_ECHAR else NC_NOERR.

(* resolve a (non-varn) form into start/count/stride/imap; also the api kind and the raw
   option arguments for the checker *)
Definition form_args (fm : form) : apikind * option (list Z) * option (list Z) * option (list Z) * option (list Z) :=
  match fm with
  | FVar1 s => (API_VAR1, s, None, None, None)
  | FVara s c => (API_VARA, s, c, None, None)
  | FVars s c t => ((match t with None => API_VARA | _ => API_VARS end), s, c, t, None)
  | FVarm s c t m => ((match m, t with
                       | None, None => API_VARA | None, Some _ => API_VARS | _, _ => API_VARM end), s, c, t, m)
  | _ => (API_VARA, None, None, None, None)
  end.

Definition the_var (f : filest) (a : access) : var :=
  znth (h_vars (f_hdr f)) (ac_var a) (mkvar [] [] [] 0 0 true).

(* argument check of one call; returns err and the list of sub-requests (one, except varn) *)
Definition check_request (w : world) (f : filest) (rank : Z) (isread : bool) (a : access)
  : Z * option (list rreq) :=
  let v := the_var f a in
  let dims := h_dims (f_hdr f) in
  let shape := var_shape dims v in
  let isrec := is_recvar dims v in
  let numrecs := rk_numrecs (get_rank f rank) in
  let fmt := h_format (f_hdr f) in
  match ac_form a with
  | FVar =>
      let cnt := if isrec then numrecs :: tl shape else shape in
      (NC_NOERR, Some [mkrreq (map (fun _ => 0) shape) cnt None None])
  | FVarn reqs =>
      match reqs with
      | [] => (NC_NOERR, Some [])
      | _ =>
        match shape with
        | [] => if Zlen reqs =? 1 then (NC_NOERR, Some [mkrreq [] [] None None]) else (NC_EINVAL, None)
        | _ =>
          let e := first_err (map (fun sc => check_scs fmt (w_strict w) isrec isread API_VARA shape numrecs
                                                       (Some (fst sc)) (Some (snd sc)) None) reqs) in
          if negb (e =? NC_NOERR) then (e, None)
          else (NC_NOERR, Some (map (fun sc => mkrreq (fst sc) (snd sc) None None) reqs))
        end
      end
  | fm =>
      let '(kind, s, c, t, m) := form_args fm in
      match shape with
      | [] => (NC_NOERR, Some [mkrreq [] [] None None])
      | _ =>
        let e := check_scs fmt (w_strict w) isrec isread kind shape numrecs s c t in
        if negb (e =? NC_NOERR) then (e, None)
        else
          match s with
          | None => (NC_EINVALCOORDS, None)
          | Some st =>
              let cn := match c with Some x => x | None => map (fun _ => 1) shape end in
              (NC_NOERR, Some [mkrreq st cn t m])
          end
      end
  end.

Definition total_elems (rs : list rreq) : Z := zsum (map nelems_of rs).

(* model of ncmpii_buftype_decode's consistency check *)
Definition iomismatch (a : access) (rs : list rreq) : bool :=
  match buf_nelems (ac_buf a) with
  | Some n => negb (n =? total_elems rs)
  | None => false
  end.

(* the external byte stream a put sends, in canonical (row-major) order *)
Definition put_stream (a : access) (xt : Z) (k0 : Z) (r : rreq) : list byte :=
  let memt := eff_memt a xt in
  let lim := pat_lim memt xt in
  flat_map (fun p => enc_value xt (pat_value (ac_seed a) (k0 + p) lim)) (lbuf_positions r).

(* sub-requests paired with the index of their first element in the user's stream *)
Fixpoint with_bases (rs : list rreq) (k0 : Z) : list (Z * rreq) :=
  match rs with
  | [] => []
  | r :: t => (k0, r) :: with_bases t (k0 + nelems_of r)
  end.

(* new_numrecs of a put *)
Definition put_new_numrecs (r : rreq) : Z :=
  match rq_stride r with
  | None => hd 0 (rq_start r) + hd 0 (rq_count r)
  | Some t => hd 0 (rq_start r) + (hd 0 (rq_count r) - 1) * hd 1 t + 1
  end.

(* blank user buffer (with guards) of n payload bytes *)
Definition blank_buf (n : Z) : list byte := guard_bytes ++ repeat 165 (Z.to_nat n) ++ guard_bytes.

Fixpoint poke (buf : list byte) (off : Z) (bs : list byte) : list byte :=
  match bs with
  | [] => buf
  | b :: r => poke (zupd buf off b) (off + 1) r
  end.

(* result of converting the streams read from the file into the user's buffer image *)
Definition buf_extent_list (b : bufspec) (rs : list rreq) : Z :=
  match rs with
  | [r] => buf_extent_elems b r
  | _ => match b with
         | BContig _ | BVector _ _ _ => buf_extent_elems b (mkrreq [] [] None None)
         | _ => total_elems rs
         end
  end.

Definition get_into_buffer (fmt : Z) (a : access) (xt : Z) (rs : list (Z * rreq * list byte))
  : option (list byte * bool * bool) :=      (* buffer, erange?, some element undefined? *)
  let memt := eff_memt a xt in
  let xsz := xlen_type xt in
  let msz := mem_size memt in
  let ext := buf_extent_list (ac_buf a) (map (fun x => snd (fst x)) rs) in
  let buf0 := blank_buf (ext * msz) in
  fold_left (fun acc0 x =>
    let '(k0, r, stream) := x in
    let elems := chunk_list xsz stream in
    let pos := lbuf_positions r in
    fold_left (fun acc pe =>
               match acc with
               | None => None
               | Some (buf, er, unk) =>
                   let at_ := GUARD + buf_index (ac_buf a) (k0 + fst pe) * msz in
                   if existsb is_undef (snd pe)
                   then Some (poke buf at_ (repeat UNDEF (Z.to_nat msz)), er, true)
                   else
                   (* CDF-1/2: NC_BYTE read into unsigned char is exempt from range checking *)
                   if (fmt <? 5) && (xt =? 1) && (memt =? 7)
                   then Some (poke buf at_ (snd pe), er, unk)
                   else
                   match convert xt memt (snd pe) with
                   | None => None
                   | Some (be, e) => Some (poke buf at_ (mem_of_be be), er || e, unk)
                   end
               end)
            (zip pos elems) acc0)
    rs (Some (buf0, false, false)).

Definition disk_of (w : world) (f : filest) : disk := get_disk w (f_slot f).

(* ----- one rank's part of a blocking put: returns (world', rc, new_numrecs option) ----- *)
Definition put_rank (w : world) (id : Z) (f : filest) (rank : Z) (coll : bool) (a : access)
  : world * Z * option Z * bool (* participated with data *) :=
  let e0 := sanity f true true coll a in
  if negb (e0 =? NC_NOERR) then (w, e0, None, false)
  else
    let v := the_var f a in
    let xt := v_type v in
    let '(e1, orq) := check_request w f rank false a in
    match orq with
    | None => (w, e1, None, false)
    | Some rs =>
        if iomismatch a rs then (w, NC_EIOMISMATCH, None, false)
        else if total_elems rs =? 0 then (w, NC_NOERR, None, false)
        else
          let g := geom_of f v in
          let d := fold_left (fun dacc kr =>
                     let r := snd kr in
                     let offs := model_offsets g (rq_start r) (rq_count r) (rq_stride r) in
                     dk_scatter dacc (g_xsz g) offs (put_stream a xt (fst kr) r))
                   (with_bases rs 0) (disk_of w f) in
          let nn := if g_isrec g
                    then Some (fold_left Z.max (map put_new_numrecs (filter (fun r => negb (nelems_of r =? 0)) rs)) 0)
                    else None in
          (set_disk w (f_slot f) d, NC_NOERR, nn, true)
    end.

(* after a collective put: numrecs agreement *)
Definition coll_numrecs_sync (w : world) (id : Z) (f : filest) (news : list (option Z)) : world :=
  let cur := map rk_numrecs (f_ranks f) in
  (* each rank proposes max(own numrecs? no: new_numrecs defaults to ncp->numrecs) *)
  let props := map (fun p => match snd p with Some n => n | None => fst p end) (zip cur news) in
  let mx := fold_left Z.max props 0 in
  let root_cur := hd 0 cur in
  let d := disk_of w f in
  let d' := if (root_cur <? mx) && (num_rec_vars (f_hdr f) >? 0)
            then write_numrecs_bytes d (h_format (f_hdr f)) mx else d in
  let ranks' := map (fun r => if rk_numrecs r <? mx then rk_set_numrecs r mx (rk_dirty r) else r) (f_ranks f) in
  let h' := set_numrecs (f_hdr f) (Z.max (h_numrecs (f_hdr f)) mx) in
  put_file (set_disk w (f_slot f) d') id (Some (upd_ranks (upd_hdr f h') ranks')).

Definition indep_numrecs (f : filest) (rank : Z) (nn : option Z) : filest :=
  match nn with
  | Some n => let r := get_rank f rank in
              if rk_numrecs r <? n then upd_rank f rank (rk_set_numrecs r n true) else f
  | None => f
  end.

(* ----- blocking get on one rank ----- *)
Definition get_rank_op (w : world) (f : filest) (rank : Z) (coll : bool) (a : access)
  : Z * list tok :=
  let e0 := sanity f false true coll a in
  if negb (e0 =? NC_NOERR) then (e0, [TSkip])
  else
    let v := the_var f a in
    let xt := v_type v in
    let '(e1, orq) := check_request w f rank true a in
    match orq with
    | None => (e1, [TSkip])
    | Some rs =>
        if iomismatch a rs then (NC_EIOMISMATCH, [TSkip])
        else
          let g := geom_of f v in
          let parts := map (fun kr =>
                 let r := snd kr in
                 let offs := model_offsets g (rq_start r) (rq_count r) (rq_stride r) in
                 (fst kr, r, dk_gather (disk_of w f) (g_xsz g) offs)) (with_bases rs 0) in
          match get_into_buffer (h_format (f_hdr f)) a xt parts with
          | None => (RC_UNMODELLED, [TSkip])
          | Some (buf, er, unk) =>
              ((if unk then RC_ANY else if er then NC_ERANGE else NC_NOERR), [THex buf])
          end
    end.

(* ================= operations and the step function ================= *)
From Pnc Require Import HeaderSpec.

Inductive op :=
| OCreate (f fmt clobber : Z)
| OOpen (f mode : Z)
| OClose (f : Z) | OAbort (f : Z) | OEnddef (f : Z)
| OEnddefX (f a b c d : Z)
| ORedef (f : Z) | OBeginIndep (f : Z) | OEndIndep (f : Z)
| OSync (f : Z) | OSyncNumrecs (f : Z) | OFlush (f : Z)
| ODefDim (f : Z) (nm : list byte) (len : Z)
| ODefVar (f : Z) (nm : list byte) (t : Z) (dimids : list Z)
| ORenameDim (f id : Z) (nm : list byte)
| ORenameVar (f id : Z) (nm : list byte)
| OPutAtt (f varid : Z) (nm : list byte) (t : Z) (vals : list Z)
| OGetAtt (f varid : Z) (nm : list byte)
| ODelAtt (f varid : Z) (nm : list byte)
| ORenameAtt (f varid : Z) (nm nm2 : list byte)
| OCopyAtt (f varid : Z) (nm : list byte) (f2 varid2 : Z)
| OSetFill (f mode : Z)
| ODefVarFill (f varid nofill hasval val : Z)
| OInqVarFill (f varid : Z)
| OFillVarRec (f varid recno : Z)
| OInq (f : Z)
| OInqName (f : Z) (kind : Z) (nm : list byte)      (* kind 0 = dim, 1 = var *)
| OInqAttid (f varid : Z) (nm : list byte)
| OInqNumrecs (f : Z) | OInqNreqs (f : Z) | OInqBuffer (f : Z)
| OAttach (f n : Z) | ODetach (f : Z)
| OSnapshot (f : Z) | OExists (f : Z) | OJunk (f n seed : Z)
| OPut (f : Z) (coll : bool) (a : access)
| OGet (f : Z) (coll : bool) (a : access)
| OIput (f slot : Z) (a : access) | OIget (f slot : Z) (a : access) | OBput (f slot : Z) (a : access)
| OWait (f : Z) (coll : bool) (n : Z) (slots : list Z)     (* slot -1 = NC_REQ_NULL *)
| OCancel (f n : Z) (slots : list Z)
| OBufs (f : Z)
| OSetId (f n : Z)
| OHint (key : Z) (v : Z)       (* key 0 h_align, 1 v_align, 2 r_align ; other hints are not layout *)
| ONoHints
| OBarrier | OSleep
| OUnknown.

Inductive step := SAll (o : op) | SEach (os : list op) | SOne (rank : Z) (o : op).

Definition slot_of (o : op) : Z :=
  match o with
  | OCreate f _ _ | OOpen f _ | OClose f | OAbort f | OEnddef f | OEnddefX f _ _ _ _
  | ORedef f | OBeginIndep f | OEndIndep f | OSync f | OSyncNumrecs f | OFlush f
  | ODefDim f _ _ | ODefVar f _ _ _ | ORenameDim f _ _ | ORenameVar f _ _
  | OPutAtt f _ _ _ _ | OGetAtt f _ _ | ODelAtt f _ _ | ORenameAtt f _ _ _ | OCopyAtt f _ _ _ _
  | OSetFill f _ | ODefVarFill f _ _ _ _ | OInqVarFill f _ | OFillVarRec f _ _
  | OInq f | OInqName f _ _ | OInqAttid f _ _ | OInqNumrecs f | OInqNreqs f | OInqBuffer f
  | OAttach f _ | ODetach f | OSnapshot f | OExists f | OJunk f _ _
  | OPut f _ _ | OGet f _ _ | OIput f _ _ | OIget f _ _ | OBput f _ _
  | OWait f _ _ _ | OCancel f _ _ | OBufs f | OSetId f _ => f
  | _ => -1
  end.

Definition unmodelled (w : world) (ranks : list Z) : list obs :=
  map (fun r => (r, RC_UNMODELLED, [TSkip])) ranks.

(* taint the file of a slot: from now on its observations are not predicted *)
Definition taint_slot (w : world) (slot : Z) : world :=
  match lookup_file w slot with
  | Some (id, f) => put_file w id (Some (taint f))
  | None => w
  end.

Definition is_tainted (w : world) (slot : Z) : bool :=
  match lookup_file w slot with
  | Some (_, f) => f_tainted f
  | None => false
  end.

(* ---------- inquiry dump ---------- *)
Definition att_toks (a : att) : list tok :=
  [TName 65 (a_name a); TZ (a_type a); TZ (a_nelems a);
   THex (flat_map mem_of_be (chunk_list (xlen_type (a_type a)) (a_data a)))].

Definition inq_toks (f : filest) (rank : Z) : list tok :=
  let h := f_hdr f in
  let dims := h_dims h in
  let nr := rk_numrecs (get_rank f rank) in
  [TZ (Zlen dims); TZ (Zlen (h_vars h)); TZ (Zlen (h_gatts h)); TZ (unlim_dimid h)] ++
  flat_map (fun d => [TName 68 (d_name d); TZ (if d_size d =? 0 then nr else d_size d)]) dims ++
  flat_map att_toks (h_gatts h) ++
  flat_map (fun v => [TName 86 (v_name v); TZ (v_type v); TZ (Zlen (v_dimids v))] ++ map TZ (v_dimids v)
                     ++ [TZ (Zlen (v_atts v)); (if f_indef f then TSkip else TZ (v_begin v))]
                     ++ flat_map att_toks (v_atts v)) (h_vars h) ++
  [TName 72 [];
   (if f_indef f then TSkip else TZ (l_xsz (f_lay f)));
   (if f_indef f then TSkip else TZ (l_begin_var (f_lay f)));
   (if f_indef f then TSkip else TZ (l_recsize (f_lay f)));
   TZ (if unlim_dimid h =? -1 then -1 else nr);
   TZ (h_format h)].

(* ---------- open ---------- *)
Definition do_open (w : world) (slot mode : Z) : option (world * list obs) :=
  let d := get_disk w slot in
  if negb (dk_exists d) then
    Some (set_hints (set_ids w (zupd (w_ids w) slot (-1))) no_align, same_all w NC_ENOENT [TSkip])
  else
    (* headers of the files used here are far below 64 KiB; do not enumerate sparse data *)
    match decode (dk_read d 0 (Z.min (dk_size d) 65536)) with
    | None => None
    | Some dc =>
        let h := dc_hdr dc in
        let lay := layout_of_hdr h (dc_len dc) in
        let id := first_free (w_files w) 0 in
        let f := mkfile h lay false false (mode =? 0) false None false (w_hints w)
                        (map (fun _ => rank_init (h_numrecs h)) (all_ranks w)) slot false in
        let files := if id <? Zlen (w_files w) then zupd (w_files w) id (Some f)
                     else w_files w ++ [Some f] in
        Some (set_hints (set_ids (set_files w files) (zupd (w_ids w) slot id)) no_align,
              same_all w NC_NOERR [TZ id])
    end.

(* ---------- leaving independent mode / sync of numrecs ---------- *)
Definition sync_numrecs_all (w : world) (id : Z) (f : filest) : world :=
  if num_rec_vars (f_hdr f) =? 0 then put_file w id (Some f) else
  let mx := fold_left Z.max (map rk_numrecs (f_ranks f)) 0 in
  let root := get_rank f 0 in
  let d := disk_of w f in
  (* root: new > numrecs || NDIRTY ; sync_numrecs sets NDIRTY on every rank first *)
  let d' := write_numrecs_bytes d (h_format (f_hdr f)) mx in
  let f' := sync_ranks_numrecs (upd_hdr f (set_numrecs (f_hdr f) mx)) mx in
  put_file (set_disk w (f_slot f) d') id (Some f').

Definition set_modes (f : filest) (indef indep : bool) : filest :=
  mkfile (f_hdr f) (f_lay f) indef indep (f_rdonly f) (f_isnew f) (f_old f) (f_fill f)
         (f_align f) (f_ranks f) (f_slot f) (f_tainted f).

Definition pending_any (f : filest) : bool :=
  existsb (fun r => match rk_reqs r with [] => false | _ => true end) (f_ranks f).

(* dump of all live slots of a rank *)
Definition dump_slots (r : rankst) : list tok * rankst :=
  let toks := map (fun p => let s := snd p in
                            TBuf (fst p) (if bytes_eqb (sl_buf s) (sl_last s) then None else Some (sl_buf s)))
                  (rk_slots r) in
  let slots' := map (fun p => let s := snd p in (fst p, mkslot (sl_id s) (sl_isput s) (sl_buf s) (sl_buf s)))
                    (rk_slots r) in
  (toks, mkrank (rk_numrecs r) (rk_dirty r) (rk_reqs r) (rk_nput r) (rk_nget r) (rk_abuf r) slots').

(* ---------- close ---------- *)
Definition do_close (w : world) (id : Z) (f : filest) : option (world * list obs) :=
  (* close in define mode performs enddef first *)
  let r1 := if f_indef f then do_enddef w id f (mkeargs 0 0 0 0) else Some (w, NC_NOERR) in
  match r1 with
  | None => None
  | Some (w1, e1) =>
      match znth (w_files w1) id None with
      | None => None
      | Some f1 =>
          if negb (e1 =? NC_NOERR) then None (* close after failed enddef: not modelled *)
          else
          let w2 := if negb (f_rdonly f1) && f_indep f1 then sync_numrecs_all w1 id f1 else w1 in
          match znth (w_files w2) id None with
          | None => None
          | Some f2 =>
              let obs := map (fun r =>
                   let rk := get_rank f2 r in
                   let pend := match rk_reqs rk with [] => false | _ => true end in
                   (r, (if pend then NC_EPENDING else NC_NOERR), fst (dump_slots rk)))
                 (all_ranks w) in
              (* truncate to header size when no variable is defined *)
              let d := disk_of w2 f2 in
              let d' := match h_vars (f_hdr f2) with
                        | [] => if negb (f_rdonly f2) && (dk_size d >? l_xsz (f_lay f2))
                                then mkdisk true (l_xsz (f_lay f2))
                                            (fun x => if x <? l_xsz (f_lay f2) then dk_get d x else UNDEF)
                                else d
                        | _ => d end in
              Some (put_file (set_disk w2 (f_slot f2) d') id None, obs)
          end
      end
  end.

(* ---------- one collective/independent data step ---------- *)
Definition put_obs (rc : Z) : list tok := [TSame].

(* apply the per-rank puts of a collective call in rank order, then agree on numrecs *)
Definition coll_put (w : world) (id : Z) (f : filest) (ras : list (Z * access))
  : world * list obs :=
  let np := w_nprocs w in
  let '(w1, res) :=
      fold_left (fun acc ra =>
                   let '(wc, out) := acc in
                   let '(w', rc, nn, part) := put_rank wc id f (fst ra) true (snd ra) in
                   (w', out ++ [(fst ra, rc, nn)]))
                ras (w, []) in
  (* fatal errors (mode errors) return before any collective; in a well-formed script they
     occur on all ranks alike *)
  let fatal rc := (rc =? NC_EPERM) || (rc =? NC_EINDEFINE) || (rc =? NC_EINDEP) || (rc =? NC_ENOTINDEP) in
  if existsb (fun x => fatal (snd (fst x))) res then
    (w, map (fun x => (fst (fst x), snd (fst x), [TSame])) res)
  else
    match znth (w_files w1) id None with
    | None => (w1, [])
    | Some f1 =>
        let v_isrec := fun (ra : Z * access) =>
              let a := snd ra in
              if (0 <=? ac_var a) && (ac_var a <? Zlen (h_vars (f_hdr f1)))
              then is_recvar (h_dims (f_hdr f1)) (the_var f1 a) else false in
        let w2 := if existsb v_isrec ras
                  then coll_numrecs_sync w1 id f1 (map (fun x => snd x) res) else w1 in
        (w2, map (fun x => (fst (fst x), snd (fst x), [TSame])) res)
    end.

Definition indep_put (w : world) (id : Z) (f : filest) (rank : Z) (a : access) : world * list obs :=
  let '(w', rc, nn, part) := put_rank w id f rank false a in
  match znth (w_files w') id None with
  | None => (w', [(rank, rc, [TSame])])
  | Some f1 => (put_file w' id (Some (indep_numrecs f1 rank nn)), [(rank, rc, [TSame])])
  end.

(* does the access use a feature the model does not cover? *)
Definition acc_unmodelled (a : access) : bool := false.

(* ---------- the step function ---------- *)
Definition exec_all (w : world) (o : op) : world * list obs :=
  let ranks := all_ranks w in
  let slot := slot_of o in
  let bad := (w, unmodelled w ranks) in
  let with_file (k : Z -> filest -> world * list obs) : world * list obs :=
      match lookup_file w slot with
      | Some (id, f) => if f_tainted f then bad else k id f
      | None => (w, same_all w NC_EBADID [TSkip])
      end in
  let taint_out := (taint_slot w slot, unmodelled w ranks) in
  match o with
  | OCreate f fmt clobber => do_create w f fmt clobber
  | OOpen f mode => match do_open w f mode with Some r => r | None => bad end
  | OHint k v =>
      let h := w_hints w in
      let v' := if v <? 0 then 0 else v in
      (set_hints w (if k =? 0 then mkalign v' (env_v_align h) (env_r_align h)
                    else if k =? 1 then mkalign (env_h_align h) v' (env_r_align h)
                    else if k =? 2 then mkalign (env_h_align h) (env_v_align h) v'
                    else h), [])
  | ONoHints => (set_hints w no_align, [])
  | OSetId f n => (set_ids w (zupd (w_ids w) f n), same_all w 0 [])
  | OBarrier | OSleep => (w, same_all w 0 [])
  | OExists f => (w, map (fun r => (r, (if (r =? 0) && negb (dk_exists (get_disk w f)) then -1 else 0), [])) ranks)
  | OSnapshot f =>
      let d := get_disk w f in
      if is_tainted w f then bad else
      if dk_exists d then
        (w, map (fun r => if r =? 0 then (r, 0, [TZ (dk_size d); THex (dk_read d 0 (dk_size d))])
                          else (r, 0, [])) ranks)
      else (w, same_all w (-1) [])
  | OJunk f n seed =>
      (set_disk w f (mkdisk true n (fun x => if (0 <=? x) && (x <? n) then (seed + x * 13) mod 251 + 1 else UNDEF)),
       same_all w 0 [])
  | ODefDim _ nm len =>
      with_file (fun id f => match do_def_dim f nm len with
                             | Some (f', rc, ex) => (put_file w id (Some f'), same_all w rc ex)
                             | None => taint_out end)
  | ODefVar _ nm t dimids =>
      with_file (fun id f => match do_def_var f nm t dimids with
                             | Some (f', rc, ex) => (put_file w id (Some f'), same_all w rc ex)
                             | None => taint_out end)
  | OPutAtt _ varid nm t vals =>
      with_file (fun id f =>
        if negb (simple_name nm) || bytes_eqb nm fillvalue_name then taint_out else
        if f_rdonly f then (w, same_all w NC_EPERM [])
        else match atts_of (f_hdr f) varid, att_bytes t vals with
             | Some l, Some bs =>
                 if negb (name_err nm =? NC_NOERR) then (w, same_all w (name_err nm) [])
                 else if negb ((1 <=? t) && (t <=? 11)) then (w, same_all w NC_EBADTYPE [])
                 else if (h_format (f_hdr f) <? 5) && (t >? 6) then (w, same_all w NC_ESTRICTCDF2 [])
                 else
                 let a := mkatt nm t (Zlen vals) bs in
                 if f_indef f then
                   (put_file w id (Some (upd_hdr f (upd_var_atts (f_hdr f) varid (fun l => set_att_list l a)))),
                    same_all w NC_NOERR [])
                 else taint_out (* data-mode attribute updates: Meta model (C07) *)
             | None, _ => (w, same_all w NC_ENOTVAR [])
             | _, None => taint_out
             end)
  | OGetAtt _ varid nm =>
      with_file (fun id f =>
        match atts_of (f_hdr f) varid with
        | Some l => match find_att l nm with
                    | Some i => let a := znth l i (mkatt [] 0 0 []) in
                                (w, same_all w NC_NOERR
                                     [TZ (a_type a); TZ (a_nelems a);
                                      THex (flat_map mem_of_be (chunk_list (xlen_type (a_type a)) (a_data a)))])
                    | None => (w, same_all w NC_ENOTATT [TSkip; TSkip; TSkip])
                    end
        | None => (w, same_all w NC_ENOTVAR [TSkip; TSkip; TSkip])
        end)
  | OSetFill _ mode =>
      with_file (fun id f =>
        if f_rdonly f then (w, same_all w NC_EPERM [TSkip])
        else if negb (f_indef f) then (w, same_all w NC_ENOTINDEFINE [TSkip])
        else
          let nofill := mode =? 1 in
          let h := f_hdr f in
          let h' := mkhdr (h_format h) (h_numrecs h) (h_dims h) (h_gatts h)
                          (map (fun v => mkvar (v_name v) (v_dimids v) (v_atts v) (v_type v) (v_begin v) nofill) (h_vars h)) in
          let f' := mkfile h' (f_lay f) (f_indef f) (f_indep f) (f_rdonly f) (f_isnew f) (f_old f)
                           (negb nofill) (f_align f) (f_ranks f) (f_slot f) (f_tainted f) in
          (put_file w id (Some f'), same_all w NC_NOERR [TZ (if f_fill f then 0 else 1)]))
  | ODefVarFill _ varid nofill hasval val =>
      with_file (fun id f =>
        if f_rdonly f then (w, same_all w NC_EPERM [])
        else if negb (f_indef f) then (w, same_all w NC_ENOTINDEFINE [])
        else if varid =? -1 then (w, same_all w NC_EGLOBAL [])
        else if (varid <? 0) || (varid >=? Zlen (h_vars (f_hdr f))) then (w, same_all w NC_ENOTVAR [])
        else
          let h := f_hdr f in
          let v := znth (h_vars h) varid (mkvar [] [] [] 0 0 true) in
          let t := v_type v in
          let inrange := if is_float_type t then Z.abs val <? 16777216
                         else (type_min t <=? val) && (val <=? type_max t) in
          if (hasval =? 1) && negb inrange then taint_out else
          let atts' := if (hasval =? 1) && (nofill =? 0)
                       then set_att_list (v_atts v) (mkatt fillvalue_name t 1 (enc_value t val))
                       else v_atts v in
          let v' := mkvar (v_name v) (v_dimids v) atts' t (v_begin v) (negb (nofill =? 0)) in
          let h' := mkhdr (h_format h) (h_numrecs h) (h_dims h) (h_gatts h) (zupd (h_vars h) varid v') in
          (put_file w id (Some (upd_hdr f h')), same_all w NC_NOERR []))
  | OInqVarFill _ varid =>
      with_file (fun id f =>
        if (varid <? 0) || (varid >=? Zlen (h_vars (f_hdr f))) then (w, same_all w NC_ENOTVAR [TSkip; TSkip])
        else let v := znth (h_vars (f_hdr f)) varid (mkvar [] [] [] 0 0 true) in
             (w, same_all w NC_NOERR [TZ (if v_nofill v then 1 else 0); THex (mem_of_be (var_fill_bytes v))]))
  | OEnddef _ =>
      with_file (fun id f => match do_enddef w id f (mkeargs 0 0 0 0) with
                             | Some (w', rc) => (w', same_all w rc [])
                             | None => taint_out end)
  | OEnddefX _ a b c d =>
      with_file (fun id f => match do_enddef w id f (mkeargs a b c d) with
                             | Some (w', rc) => (w', same_all w rc [])
                             | None => taint_out end)
  | ORedef _ =>
      with_file (fun id f =>
        if f_rdonly f then (w, same_all w NC_EPERM [])
        else if f_indef f then (w, same_all w NC_EINDEFINE [])
        else
          (* leaving independent mode first syncs numrecs *)
          let w1 := if f_indep f then sync_numrecs_all w id f else w in
          match znth (w_files w1) id None with
          | None => bad
          | Some f1 =>
              let f2 := mkfile (f_hdr f1) (f_lay f1) true false false false (Some (f_hdr f1, f_lay f1))
                               (f_fill f1) (f_align f1) (f_ranks f1) (f_slot f1) (f_tainted f1) in
              (put_file w1 id (Some f2), same_all w NC_NOERR [])
          end)
  | OBeginIndep _ =>
      with_file (fun id f =>
        if f_indef f then (w, same_all w NC_EINDEFINE [])
        else (put_file w id (Some (set_modes f false true)), same_all w NC_NOERR []))
  | OEndIndep _ =>
      with_file (fun id f =>
        if f_indef f then (w, same_all w NC_EINDEFINE [])
        else if negb (f_indep f) then (w, same_all w NC_ENOTINDEP [])
        else
          let w1 := if f_rdonly f then w else sync_numrecs_all w id f in
          match znth (w_files w1) id None with
          | None => bad
          | Some f1 => (put_file w1 id (Some (set_modes f1 false false)), same_all w NC_NOERR [])
          end)
  | OSync _ =>
      with_file (fun id f =>
        if f_indef f then (w, same_all w NC_EINDEFINE [])
        else if f_rdonly f then (w, same_all w NC_NOERR [])
        else ((if f_indep f then sync_numrecs_all w id f else w), same_all w NC_NOERR []))
  | OSyncNumrecs _ =>
      with_file (fun id f =>
        if f_indef f then (w, same_all w NC_EINDEFINE [])
        else if num_rec_vars (f_hdr f) =? 0 then (w, same_all w NC_NOERR [])
        else if f_rdonly f then (w, same_all w NC_EPERM [])
        else ((if f_indep f then sync_numrecs_all w id f else w), same_all w NC_NOERR []))
  | OClose _ =>
      with_file (fun id f => match do_close w id f with Some r => r | None => taint_out end)
  | OAbort _ =>
      with_file (fun id f =>
        let obs_of (f2 : filest) :=
            map (fun r => let rk := get_rank f2 r in
                          let pend := match rk_reqs rk with [] => false | _ => true end in
                          (r, (if pend then NC_EPENDING else NC_NOERR), fst (dump_slots rk))) ranks in
        if f_isnew f then
          (* newly created and never enddef-ed: the file is removed *)
          (put_file (set_disk w (f_slot f) empty_disk) id None, obs_of f)
        else if f_indef f then
          (* after redef: the new definitions are discarded, nothing was written *)
          (put_file w id None, obs_of f)
        else
          (* data mode: same as close *)
          match do_close w id f with Some r => r | None => taint_out end)
  | OFillVarRec _ varid recno =>
      with_file (fun id f =>
        let h := f_hdr f in
        (* NOTE the dispatcher computes these errors; the model lists them in its order *)
        if f_rdonly f then (w, same_all w NC_EPERM [])
        else if f_indef f then (w, same_all w NC_EINDEFINE [])
        else if varid =? -1 then (w, same_all w NC_EGLOBAL [])
        else if (varid <? 0) || (varid >=? Zlen (h_vars h)) then (w, same_all w NC_ENOTVAR [])
        else
          let v := znth (h_vars h) varid (mkvar [] [] [] 0 0 true) in
          if negb (is_recvar (h_dims h) v) then (w, same_all w NC_ENOTRECVAR [])
          else if f_indep f then (w, same_all w NC_EINDEP [])
          else if v_nofill v && (match find_att (v_atts v) fillvalue_name with None => true | Some _ => false end)
          then (w, same_all w NC_ENOTFILL [])
          else if negb (fill_att_ok v) then taint_out
          else if recno <? 0 then taint_out
          else
            let n := var_nelems_per_rec (var_shape (h_dims h) v) in
            let d := dk_write (disk_of w f) (v_begin v + l_recsize (f_lay f) * recno)
                              (repeat_bytes (var_fill_bytes v) n) in
            let w1 := set_disk w (f_slot f) d in
            let w2 := coll_numrecs_sync w1 id f (map (fun _ => Some (recno + 1)) (f_ranks f)) in
            (w2, same_all w NC_NOERR []))
  | OInq _ =>
      with_file (fun id f => (w, map (fun r => (r, NC_NOERR, inq_toks f r)) ranks))
  | OInqNumrecs _ =>
      with_file (fun id f =>
        (w, map (fun r => (r, NC_NOERR,
                           [TZ (if unlim_dimid (f_hdr f) =? -1 then -1 else rk_numrecs (get_rank f r))])) ranks))
  | OInqName _ kind nm =>
      with_file (fun id f =>
        if kind =? 0 then
          match find_dim (f_hdr f) nm with
          | Some i => (w, same_all w NC_NOERR [TZ i]) | None => (w, same_all w NC_EBADDIM [TSkip]) end
        else
          match find_var (f_hdr f) nm with
          | Some i => (w, same_all w NC_NOERR [TZ i]) | None => (w, same_all w NC_ENOTVAR [TSkip]) end)
  | OInqAttid _ varid nm =>
      with_file (fun id f =>
        match atts_of (f_hdr f) varid with
        | Some l => match find_att l nm with
                    | Some i => (w, same_all w NC_NOERR [TZ i])
                    | None => (w, same_all w NC_ENOTATT [TSkip]) end
        | None => (w, same_all w NC_ENOTVAR [TSkip])
        end)
  | OPut _ coll a =>
      with_file (fun id f =>
        if acc_unmodelled a then taint_out
        else if coll then coll_put w id f (map (fun r => (r, a)) ranks)
        else fold_left (fun acc r =>
                          let '(wc, out) := acc in
                          match znth (w_files wc) id None with
                          | Some fc => let '(w', o') := indep_put wc id fc r a in (w', out ++ o')
                          | None => acc end) ranks (w, []))
  | OGet _ coll a =>
      with_file (fun id f =>
        if acc_unmodelled a then taint_out
        else (w, map (fun r => let '(rc, ex) := get_rank_op w f r coll a in (r, rc, ex)) ranks))
  | _ => taint_out
  end.

Definition acc_of (o : op) : option (bool * bool * access) :=   (* isput, coll, access *)
  match o with
  | OPut _ c a => Some (true, c, a)
  | OGet _ c a => Some (false, c, a)
  | _ => None
  end.

Definition exec_each (w : world) (os : list op) : world * list obs :=
  let ranks := all_ranks w in
  match os with
  | [] => (w, [])
  | o0 :: _ =>
      let slot := slot_of o0 in
      match lookup_file w slot with
      | None => (w, same_all w NC_EBADID [TSkip])
      | Some (id, f) =>
          if f_tainted f then (w, unmodelled w ranks) else
          let accs := map acc_of os in
          if forallb (fun x => match x with Some (true, true, a) => negb (acc_unmodelled a) | _ => false end) accs
          then coll_put w id f (flat_map (fun p => match snd p with Some (_, _, a) => [(fst p, a)] | None => [] end)
                                         (zip ranks accs))
          else if forallb (fun x => match x with Some (false, true, a) => negb (acc_unmodelled a) | _ => false end) accs
          then (w, flat_map (fun p => match snd p with
                                      | Some (_, _, a) => let '(rc, ex) := get_rank_op w f (fst p) true a in
                                                          [(fst p, rc, ex)]
                                      | None => [] end) (zip ranks accs))
          else (taint_slot w slot, unmodelled w ranks)
      end
  end.

Definition exec_one (w : world) (rank : Z) (o : op) : world * list obs :=
  let slot := slot_of o in
  match o with
  | OExists f => (w, [(rank, (if (rank =? 0) && negb (dk_exists (get_disk w f)) then -1 else 0), [])])
  | OBarrier | OSleep => (w, [(rank, 0, [])])
  | _ =>
  match lookup_file w slot with
  | None => (w, [(rank, NC_EBADID, [TSkip])])
  | Some (id, f) =>
      if f_tainted f then (w, [(rank, RC_UNMODELLED, [TSkip])]) else
      match o with
      | OPut _ false a =>
          if acc_unmodelled a then (taint_slot w slot, [(rank, RC_UNMODELLED, [TSkip])])
          else indep_put w id f rank a
      | OGet _ false a =>
          if acc_unmodelled a then (taint_slot w slot, [(rank, RC_UNMODELLED, [TSkip])])
          else let '(rc, ex) := get_rank_op w f rank false a in (w, [(rank, rc, ex)])
      | OInqNumrecs _ =>
          (w, [(rank, NC_NOERR, [TZ (if unlim_dimid (f_hdr f) =? -1 then -1 else rk_numrecs (get_rank f rank))])])
      | OInq _ => (w, [(rank, NC_NOERR, inq_toks f rank)])
      | _ => (taint_slot w slot, [(rank, RC_UNMODELLED, [TSkip])])
      end
  end
  end.

Definition exec_step (w : world) (s : step) : world * list obs :=
  match s with
  | SAll o => exec_all w o
  | SEach os => exec_each w os
  | SOne r o => exec_one w r o
  end.

Definition set_strict (w : world) (b : bool) : world :=
  mkworld (w_nprocs w) (w_disks w) (w_files w) (w_ids w) (w_hints w) b (w_move_unit w).
Definition set_move_unit (w : world) (u : Z) : world :=
  mkworld (w_nprocs w) (w_disks w) (w_files w) (w_ids w) (w_hints w) (w_strict w) u.
