(* Properties_C05.v — statements only: each property theorem is stated in full and closed by
   `exact <lemma>`; the lemmas live in the Proofs_*.v files.  Assembled by tools/mkprops.py. *)
(* C05 Record count stays coherent across processes, memory and file header.  Model: Numrecs.v (n ranks, *)
(* per-rank numrecs / NC_NDIRTY / pending put queue, one header field; steps mirror put_varm, fill_var_rec, *)
(* igetput_varm, extract_reqs, req_commit, wait_getput, ncmpio_write_numrecs, ncmpio_sync_numrecs, redef, *)
(* enddef, close/open).  Histories are arbitrary op lists; independent operations of different ranks are *)
(* separate list elements, so all relative timings = all lists respecting each rank's program order. *)
(* run_head = the loop as written in the snapshot (req_commit's newnumrecs loop runs over the HEAD of the put queue); *)
(* run_fixed = the corrected loop (over all numLeadPutReqs entries).  g_own / written = ghost: 1 + highest *)
(* record index of the writes completed so far (by one rank / by any rank). *)
From Coq Require Import ZArith List.
From Pnc Require Import Proofs_Numrecs.
Set Printing Width 100.
Set Printing Depth 100000.

Theorem C05_coll_coherent :
  forall (n : nat) (N0 : Z) (ops : list Numrecs.op),
         (0 <= N0)%Z ->
         let st := Numrecs.run_fixed (Numrecs.init n N0) ops in
         Numrecs.indep st = false ->
         forall r : Numrecs.rk,
         In r (Numrecs.ranks st) ->
         Numrecs.numrecs r = Numrecs.hdr st /\ Numrecs.hdr st = Z.max N0 (Numrecs.written st).
Proof. exact @coll_coherent. Qed.
Print Assumptions C05_coll_coherent.

Theorem C05_coll_coherent_after_write :
  forall (n : nat) (N0 : Z) (ops : list Numrecs.op) (o : Numrecs.op),
         (0 <= N0)%Z ->
         coll_write o = true ->
         let st0 := Numrecs.run_fixed (Numrecs.init n N0) ops in
         Numrecs.indep st0 = false ->
         let st := Numrecs.step_fixed st0 o in
         forall r : Numrecs.rk,
         In r (Numrecs.ranks st) ->
         Numrecs.numrecs r = Numrecs.hdr st /\ Numrecs.hdr st = Z.max N0 (Numrecs.written st).
Proof. exact @coll_coherent_after_write. Qed.
Print Assumptions C05_coll_coherent_after_write.

Theorem C05_indep_then_sync :
  forall (n : nat) (N0 : Z) (ops : list Numrecs.op) (o : Numrecs.op) (ops2 : list Numrecs.op),
         (0 <= N0)%Z ->
         sync_op o = true ->
         Numrecs.hung (Numrecs.run_fixed (Numrecs.init n N0) ops) = false ->
         Numrecs.indef (Numrecs.run_fixed (Numrecs.init n N0) ops) = false ->
         forallb quiet ops2 = true ->
         let st := Numrecs.run_fixed (Numrecs.init n N0) (ops ++ o :: ops2) in
         forall r : Numrecs.rk,
         In r (Numrecs.ranks st) ->
         Numrecs.numrecs r = Numrecs.hdr st /\ Numrecs.hdr st = Z.max N0 (Numrecs.written st).
Proof. exact @indep_then_sync. Qed.
Print Assumptions C05_indep_then_sync.

Theorem C05_numrecs_monotone :
  forall (n : nat) (N0 : Z) (ops1 ops2 : list Numrecs.op),
         (0 <= N0)%Z ->
         let st := Numrecs.run_fixed (Numrecs.init n N0) ops1 in
         let st' := Numrecs.run_fixed (Numrecs.init n N0) (ops1 ++ ops2) in
         (Numrecs.hdr st <= Numrecs.hdr st')%Z /\
         Forall2
           (fun r r' : Numrecs.rk =>
            (Numrecs.numrecs r <= Numrecs.numrecs r')%Z /\ (Numrecs.g_own r <= Numrecs.g_own r')%Z)
           (Numrecs.ranks st) (Numrecs.ranks st').
Proof. exact @numrecs_monotone. Qed.
Print Assumptions C05_numrecs_monotone.

Theorem C05_completed_write_readable :
  forall (n : nat) (N0 : Z) (ops : list Numrecs.op),
         (0 <= N0)%Z ->
         let st := Numrecs.run_fixed (Numrecs.init n N0) ops in
         (forall r : Numrecs.rk, In r (Numrecs.ranks st) -> (Numrecs.g_own r <= Numrecs.numrecs r)%Z) /\
         (Numrecs.indep st = false ->
          forall r : Numrecs.rk,
          In r (Numrecs.ranks st) -> (Numrecs.written st <= Numrecs.numrecs r)%Z).
Proof. exact @completed_write_readable. Qed.
Print Assumptions C05_completed_write_readable.

Theorem C05_head_coll_agree :
  forall (n : nat) (N0 : Z) (ops : list Numrecs.op),
         (0 <= N0)%Z ->
         let st := Numrecs.run_head (Numrecs.init n N0) ops in
         (Numrecs.indep st = false ->
          forall r : Numrecs.rk, In r (Numrecs.ranks st) -> Numrecs.numrecs r = Numrecs.hdr st) /\
         (forall r : Numrecs.rk,
          In r (Numrecs.ranks st) ->
          (Numrecs.hdr st <= Numrecs.numrecs r <= Z.max N0 (Numrecs.written st))%Z) /\
         (N0 <= Numrecs.hdr st <= Z.max N0 (Numrecs.written st))%Z.
Proof. exact @coll_agree_head. Qed.
Print Assumptions C05_head_coll_agree.

Theorem C05_head_numrecs_monotone :
  forall (n : nat) (N0 : Z) (ops1 ops2 : list Numrecs.op),
         (0 <= N0)%Z ->
         let st := Numrecs.run_head (Numrecs.init n N0) ops1 in
         let st' := Numrecs.run_head (Numrecs.init n N0) (ops1 ++ ops2) in
         (Numrecs.hdr st <= Numrecs.hdr st')%Z /\
         Forall2
           (fun r r' : Numrecs.rk =>
            (Numrecs.numrecs r <= Numrecs.numrecs r')%Z /\ (Numrecs.g_own r <= Numrecs.g_own r')%Z)
           (Numrecs.ranks st) (Numrecs.ranks st').
Proof. exact @numrecs_monotone_head. Qed.
Print Assumptions C05_head_numrecs_monotone.

Theorem C05_head_indep_sync_agree :
  forall (n : nat) (N0 : Z) (ops : list Numrecs.op) (o : Numrecs.op) (ops2 : list Numrecs.op),
         (0 <= N0)%Z ->
         sync_op o = true ->
         Numrecs.hung (Numrecs.run_head (Numrecs.init n N0) ops) = false ->
         Numrecs.indef (Numrecs.run_head (Numrecs.init n N0) ops) = false ->
         forallb quiet ops2 = true ->
         let st := Numrecs.run_head (Numrecs.init n N0) (ops ++ o :: ops2) in
         forall r : Numrecs.rk, In r (Numrecs.ranks st) -> Numrecs.numrecs r = Numrecs.hdr st.
Proof. exact @indep_sync_agree_head. Qed.
Print Assumptions C05_head_indep_sync_agree.

Theorem C05_head_coll_coherent_refuted :
  ~ coll_coherent_full.
Proof. exact @coll_coherent_refuted. Qed.
Print Assumptions C05_head_coll_coherent_refuted.

Theorem C05_head_indep_then_sync_refuted :
  ~ indep_then_sync_full.
Proof. exact @indep_then_sync_refuted. Qed.
Print Assumptions C05_head_indep_then_sync_refuted.

Theorem C05_head_completed_write_readable_refuted :
  ~ completed_write_readable_full.
Proof. exact @completed_write_readable_refuted. Qed.
Print Assumptions C05_head_completed_write_readable_refuted.

Theorem C05_head_coll_coherent_partial :
  forall (n : nat) (N0 : Z) (ops : list Numrecs.op),
         (0 <= N0)%Z ->
         Numrecs.hist_allb Numrecs.commit_loop true Numrecs.head_ok (Numrecs.init n N0) ops = true ->
         let st := Numrecs.run_head (Numrecs.init n N0) ops in
         Numrecs.indep st = false ->
         forall r : Numrecs.rk,
         In r (Numrecs.ranks st) ->
         Numrecs.numrecs r = Numrecs.hdr st /\ Numrecs.hdr st = Z.max N0 (Numrecs.written st).
Proof. exact @coll_coherent_partial. Qed.
Print Assumptions C05_head_coll_coherent_partial.

Theorem C05_head_indep_then_sync_partial :
  forall (n : nat) (N0 : Z) (ops : list Numrecs.op) (o : Numrecs.op) (ops2 : list Numrecs.op),
         (0 <= N0)%Z ->
         Numrecs.hist_allb Numrecs.commit_loop true Numrecs.head_ok (Numrecs.init n N0)
           (ops ++ o :: ops2) = true ->
         sync_op o = true ->
         Numrecs.hung (Numrecs.run_head (Numrecs.init n N0) ops) = false ->
         Numrecs.indef (Numrecs.run_head (Numrecs.init n N0) ops) = false ->
         forallb quiet ops2 = true ->
         let st := Numrecs.run_head (Numrecs.init n N0) (ops ++ o :: ops2) in
         forall r : Numrecs.rk,
         In r (Numrecs.ranks st) ->
         Numrecs.numrecs r = Numrecs.hdr st /\ Numrecs.hdr st = Z.max N0 (Numrecs.written st).
Proof. exact @indep_then_sync_partial. Qed.
Print Assumptions C05_head_indep_then_sync_partial.

Theorem C05_head_completed_write_readable_partial :
  forall (n : nat) (N0 : Z) (ops : list Numrecs.op),
         (0 <= N0)%Z ->
         Numrecs.hist_allb Numrecs.commit_loop true Numrecs.head_ok (Numrecs.init n N0) ops = true ->
         let st := Numrecs.run_head (Numrecs.init n N0) ops in
         (forall r : Numrecs.rk, In r (Numrecs.ranks st) -> (Numrecs.g_own r <= Numrecs.numrecs r)%Z) /\
         (Numrecs.indep st = false ->
          forall r : Numrecs.rk,
          In r (Numrecs.ranks st) -> (Numrecs.written st <= Numrecs.numrecs r)%Z).
Proof. exact @completed_write_readable_partial. Qed.
Print Assumptions C05_head_completed_write_readable_partial.

Theorem C05_head_ok_when_all_named :
  forall q : list Numrecs.preq, Numrecs.head_ok_q q Numrecs.WAll = true.
Proof. exact @head_ok_wall. Qed.
Print Assumptions C05_head_ok_when_all_named.

Theorem C05_ex_coll_coherent :
  let st := Numrecs.run_fixed (Numrecs.init 2 0) f1_witness in
         Numrecs.indep st = false /\
         map Numrecs.numrecs (Numrecs.ranks st) = 6%Z :: 6%Z :: nil /\
         Numrecs.hdr st = 6%Z /\ Numrecs.written st = 6%Z.
Proof. exact @coll_coherent_ex. Qed.
Print Assumptions C05_ex_coll_coherent.

Theorem C05_ex_f1_witness_head :
  let st := Numrecs.run_head (Numrecs.init 2 0) f1_witness in
         map Numrecs.numrecs (Numrecs.ranks st) = 0%Z :: 0%Z :: nil /\
         Numrecs.hdr st = 0%Z /\
         Numrecs.written st = 6%Z /\
         Numrecs.hist_allb Numrecs.commit_loop true Numrecs.head_ok (Numrecs.init 2 0) f1_witness =
         false.
Proof. exact @f1_witness_head. Qed.
Print Assumptions C05_ex_f1_witness_head.

Theorem C05_ex_partial_hypothesis :
  Numrecs.hist_allb Numrecs.commit_loop true Numrecs.head_ok (Numrecs.init 3 0) subset_ok_hist =
         true /\
         (let st := Numrecs.run_head (Numrecs.init 3 0) subset_ok_hist in
          map Numrecs.numrecs (Numrecs.ranks st) = 10%Z :: 10%Z :: 10%Z :: nil /\
          Numrecs.hdr st = 10%Z /\ Numrecs.indep st = false).
Proof. exact @partial_hyp_ex. Qed.
Print Assumptions C05_ex_partial_hypothesis.

Theorem C05_ex_indep_then_sync :
  let ops :=
           Numrecs.BeginIndep
           :: Numrecs.IndepPutRec 1 (Numrecs.PRec 4) :: Numrecs.IndepPutRec 0 (Numrecs.PRec 2) :: nil
           in
         map Numrecs.numrecs (Numrecs.ranks (Numrecs.run_fixed (Numrecs.init 2 1) ops)) =
         3%Z :: 5%Z :: nil /\
         sync_op Numrecs.Sync = true /\
         Numrecs.hung (Numrecs.run_fixed (Numrecs.init 2 1) ops) = false /\
         Numrecs.indef (Numrecs.run_fixed (Numrecs.init 2 1) ops) = false /\
         map Numrecs.numrecs
           (Numrecs.ranks
              (Numrecs.run_fixed (Numrecs.init 2 1)
                 (ops ++ Numrecs.Sync :: Numrecs.Post 0 7 false 512 512 (-1) :: nil))) =
         5%Z :: 5%Z :: nil.
Proof. exact @indep_then_sync_ex. Qed.
Print Assumptions C05_ex_indep_then_sync.

Theorem C05_noerange_coll_coherent_refuted :
  ~ coll_coherent_noerange_full.
Proof. exact @coll_coherent_noerange_refuted. Qed.
Print Assumptions C05_noerange_coll_coherent_refuted.

Theorem C05_noerange_indep_then_sync_refuted :
  ~ indep_then_sync_noerange_full.
Proof. exact @indep_then_sync_noerange_refuted. Qed.
Print Assumptions C05_noerange_indep_then_sync_refuted.

Theorem C05_noerange_completed_write_readable_refuted :
  ~ completed_write_readable_noerange_full.
Proof. exact @completed_write_readable_noerange_refuted. Qed.
Print Assumptions C05_noerange_completed_write_readable_refuted.

Theorem C05_noerange_coll_coherent_partial :
  forall (n : nat) (N0 : Z) (ops : list Numrecs.op),
         (0 <= N0)%Z ->
         Numrecs.hist_allb Numrecs.commit_fixed false Numrecs.erange_free (Numrecs.init n N0) ops =
         true ->
         let st := Numrecs.run_noerange (Numrecs.init n N0) ops in
         Numrecs.indep st = false ->
         forall r : Numrecs.rk,
         In r (Numrecs.ranks st) ->
         Numrecs.numrecs r = Numrecs.hdr st /\ Numrecs.hdr st = Z.max N0 (Numrecs.written st).
Proof. exact @coll_coherent_noerange_partial. Qed.
Print Assumptions C05_noerange_coll_coherent_partial.

Theorem C05_noerange_completed_write_readable_partial :
  forall (n : nat) (N0 : Z) (ops : list Numrecs.op),
         (0 <= N0)%Z ->
         Numrecs.hist_allb Numrecs.commit_fixed false Numrecs.erange_free (Numrecs.init n N0) ops =
         true ->
         let st := Numrecs.run_noerange (Numrecs.init n N0) ops in
         (forall r : Numrecs.rk, In r (Numrecs.ranks st) -> (Numrecs.g_own r <= Numrecs.numrecs r)%Z) /\
         (Numrecs.indep st = false ->
          forall r : Numrecs.rk,
          In r (Numrecs.ranks st) -> (Numrecs.written st <= Numrecs.numrecs r)%Z).
Proof. exact @completed_write_readable_noerange_partial. Qed.
Print Assumptions C05_noerange_completed_write_readable_partial.

Theorem C05_noerange_coll_agree :
  forall (n : nat) (N0 : Z) (ops : list Numrecs.op),
         (0 <= N0)%Z ->
         let st := Numrecs.run_noerange (Numrecs.init n N0) ops in
         (Numrecs.indep st = false ->
          forall r : Numrecs.rk, In r (Numrecs.ranks st) -> Numrecs.numrecs r = Numrecs.hdr st) /\
         (forall r : Numrecs.rk,
          In r (Numrecs.ranks st) ->
          (Numrecs.hdr st <= Numrecs.numrecs r <= Z.max N0 (Numrecs.written st))%Z) /\
         (N0 <= Numrecs.hdr st <= Z.max N0 (Numrecs.written st))%Z.
Proof. exact @coll_agree_noerange. Qed.
Print Assumptions C05_noerange_coll_agree.

Theorem C05_ex_erange_counts :
  let st := Numrecs.run_fixed (Numrecs.init 2 0) erange_witness in
         map Numrecs.numrecs (Numrecs.ranks st) = 4%Z :: 4%Z :: nil /\
         Numrecs.hdr st = 4%Z /\
         Numrecs.written st = 4%Z /\
         (let st' := Numrecs.run_noerange (Numrecs.init 2 0) erange_witness in
          map Numrecs.numrecs (Numrecs.ranks st') = 0%Z :: 0%Z :: nil /\
          Numrecs.hdr st' = 0%Z /\ Numrecs.written st' = 4%Z).
Proof. exact @erange_counts_ex. Qed.
Print Assumptions C05_ex_erange_counts.
