
(** val negb : bool -> bool **)

let negb = function
| true -> false
| false -> true

type nat =
| O
| S of nat

(** val fst : ('a1 * 'a2) -> 'a1 **)

let fst = function
| (x, _) -> x

(** val snd : ('a1 * 'a2) -> 'a2 **)

let snd = function
| (_, y) -> y

(** val length : 'a1 list -> nat **)

let rec length = function
| [] -> O
| _ :: l' -> S (length l')

(** val app : 'a1 list -> 'a1 list -> 'a1 list **)

let rec app l m =
  match l with
  | [] -> m
  | a :: l1 -> a :: (app l1 m)

type comparison =
| Eq
| Lt
| Gt

(** val compOpp : comparison -> comparison **)

let compOpp = function
| Eq -> Eq
| Lt -> Gt
| Gt -> Lt

module Coq__1 = struct
 (** val add : nat -> nat -> nat **)
 let rec add n m =
   match n with
   | O -> m
   | S p -> S (add p m)
end
include Coq__1

(** val mul : nat -> nat -> nat **)

let rec mul n m =
  match n with
  | O -> O
  | S p -> add m (mul p m)

(** val hd : 'a1 -> 'a1 list -> 'a1 **)

let hd default = function
| [] -> default
| x :: _ -> x

(** val tl : 'a1 list -> 'a1 list **)

let tl = function
| [] -> []
| _ :: m -> m

(** val rev : 'a1 list -> 'a1 list **)

let rec rev = function
| [] -> []
| x :: l' -> app (rev l') (x :: [])

(** val concat : 'a1 list list -> 'a1 list **)

let rec concat = function
| [] -> []
| x :: l0 -> app x (concat l0)

(** val map : ('a1 -> 'a2) -> 'a1 list -> 'a2 list **)

let rec map f = function
| [] -> []
| a :: t -> (f a) :: (map f t)

(** val flat_map : ('a1 -> 'a2 list) -> 'a1 list -> 'a2 list **)

let rec flat_map f = function
| [] -> []
| x :: t -> app (f x) (flat_map f t)

(** val fold_left : ('a1 -> 'a2 -> 'a1) -> 'a2 list -> 'a1 -> 'a1 **)

let rec fold_left f l a0 =
  match l with
  | [] -> a0
  | b :: t -> fold_left f t (f a0 b)

(** val existsb : ('a1 -> bool) -> 'a1 list -> bool **)

let rec existsb f = function
| [] -> false
| a :: l0 -> (||) (f a) (existsb f l0)

(** val forallb : ('a1 -> bool) -> 'a1 list -> bool **)

let rec forallb f = function
| [] -> true
| a :: l0 -> (&&) (f a) (forallb f l0)

(** val filter : ('a1 -> bool) -> 'a1 list -> 'a1 list **)

let rec filter f = function
| [] -> []
| x :: l0 -> if f x then x :: (filter f l0) else filter f l0

(** val firstn : nat -> 'a1 list -> 'a1 list **)

let rec firstn n l =
  match n with
  | O -> []
  | S n0 -> (match l with
             | [] -> []
             | a :: l0 -> a :: (firstn n0 l0))

(** val skipn : nat -> 'a1 list -> 'a1 list **)

let rec skipn n l =
  match n with
  | O -> l
  | S n0 -> (match l with
             | [] -> []
             | _ :: l0 -> skipn n0 l0)

(** val seq : nat -> nat -> nat list **)

let rec seq start = function
| O -> []
| S len0 -> start :: (seq (S start) len0)

(** val repeat : 'a1 -> nat -> 'a1 list **)

let rec repeat x = function
| O -> []
| S k -> x :: (repeat x k)

type positive =
| XI of positive
| XO of positive
| XH

type z =
| Z0
| Zpos of positive
| Zneg of positive

module Pos =
 struct
  (** val succ : positive -> positive **)

  let rec succ = function
  | XI p -> XO (succ p)
  | XO p -> XI p
  | XH -> XO XH

  (** val add : positive -> positive -> positive **)

  let rec add x y =
    match x with
    | XI p ->
      (match y with
       | XI q -> XO (add_carry p q)
       | XO q -> XI (add p q)
       | XH -> XO (succ p))
    | XO p ->
      (match y with
       | XI q -> XI (add p q)
       | XO q -> XO (add p q)
       | XH -> XI p)
    | XH -> (match y with
             | XI q -> XO (succ q)
             | XO q -> XI q
             | XH -> XO XH)

  (** val add_carry : positive -> positive -> positive **)

  and add_carry x y =
    match x with
    | XI p ->
      (match y with
       | XI q -> XI (add_carry p q)
       | XO q -> XO (add_carry p q)
       | XH -> XI (succ p))
    | XO p ->
      (match y with
       | XI q -> XO (add_carry p q)
       | XO q -> XI (add p q)
       | XH -> XO (succ p))
    | XH ->
      (match y with
       | XI q -> XI (succ q)
       | XO q -> XO (succ q)
       | XH -> XI XH)

  (** val pred_double : positive -> positive **)

  let rec pred_double = function
  | XI p -> XI (XO p)
  | XO p -> XI (pred_double p)
  | XH -> XH

  (** val mul : positive -> positive -> positive **)

  let rec mul x y =
    match x with
    | XI p -> add y (XO (mul p y))
    | XO p -> XO (mul p y)
    | XH -> y

  (** val iter : ('a1 -> 'a1) -> 'a1 -> positive -> 'a1 **)

  let rec iter f x = function
  | XI n' -> f (iter f (iter f x n') n')
  | XO n' -> iter f (iter f x n') n'
  | XH -> f x

  (** val compare_cont : comparison -> positive -> positive -> comparison **)

  let rec compare_cont r x y =
    match x with
    | XI p ->
      (match y with
       | XI q -> compare_cont r p q
       | XO q -> compare_cont Gt p q
       | XH -> Gt)
    | XO p ->
      (match y with
       | XI q -> compare_cont Lt p q
       | XO q -> compare_cont r p q
       | XH -> Gt)
    | XH -> (match y with
             | XH -> r
             | _ -> Lt)

  (** val compare : positive -> positive -> comparison **)

  let compare =
    compare_cont Eq

  (** val eqb : positive -> positive -> bool **)

  let rec eqb p q =
    match p with
    | XI p0 -> (match q with
                | XI q0 -> eqb p0 q0
                | _ -> false)
    | XO p0 -> (match q with
                | XO q0 -> eqb p0 q0
                | _ -> false)
    | XH -> (match q with
             | XH -> true
             | _ -> false)

  (** val iter_op : ('a1 -> 'a1 -> 'a1) -> positive -> 'a1 -> 'a1 **)

  let rec iter_op op p a =
    match p with
    | XI p0 -> op a (iter_op op p0 (op a a))
    | XO p0 -> iter_op op p0 (op a a)
    | XH -> a

  (** val to_nat : positive -> nat **)

  let to_nat x =
    iter_op Coq__1.add x (S O)

  (** val of_succ_nat : nat -> positive **)

  let rec of_succ_nat = function
  | O -> XH
  | S x -> succ (of_succ_nat x)
 end

module Z =
 struct
  (** val double : z -> z **)

  let double = function
  | Z0 -> Z0
  | Zpos p -> Zpos (XO p)
  | Zneg p -> Zneg (XO p)

  (** val succ_double : z -> z **)

  let succ_double = function
  | Z0 -> Zpos XH
  | Zpos p -> Zpos (XI p)
  | Zneg p -> Zneg (Pos.pred_double p)

  (** val pred_double : z -> z **)

  let pred_double = function
  | Z0 -> Zneg XH
  | Zpos p -> Zpos (Pos.pred_double p)
  | Zneg p -> Zneg (XI p)

  (** val pos_sub : positive -> positive -> z **)

  let rec pos_sub x y =
    match x with
    | XI p ->
      (match y with
       | XI q -> double (pos_sub p q)
       | XO q -> succ_double (pos_sub p q)
       | XH -> Zpos (XO p))
    | XO p ->
      (match y with
       | XI q -> pred_double (pos_sub p q)
       | XO q -> double (pos_sub p q)
       | XH -> Zpos (Pos.pred_double p))
    | XH ->
      (match y with
       | XI q -> Zneg (XO q)
       | XO q -> Zneg (Pos.pred_double q)
       | XH -> Z0)

  (** val add : z -> z -> z **)

  let add x y =
    match x with
    | Z0 -> y
    | Zpos x' ->
      (match y with
       | Z0 -> x
       | Zpos y' -> Zpos (Pos.add x' y')
       | Zneg y' -> pos_sub x' y')
    | Zneg x' ->
      (match y with
       | Z0 -> x
       | Zpos y' -> pos_sub y' x'
       | Zneg y' -> Zneg (Pos.add x' y'))

  (** val opp : z -> z **)

  let opp = function
  | Z0 -> Z0
  | Zpos x0 -> Zneg x0
  | Zneg x0 -> Zpos x0

  (** val sub : z -> z -> z **)

  let sub m n =
    add m (opp n)

  (** val mul : z -> z -> z **)

  let mul x y =
    match x with
    | Z0 -> Z0
    | Zpos x' ->
      (match y with
       | Z0 -> Z0
       | Zpos y' -> Zpos (Pos.mul x' y')
       | Zneg y' -> Zneg (Pos.mul x' y'))
    | Zneg x' ->
      (match y with
       | Z0 -> Z0
       | Zpos y' -> Zneg (Pos.mul x' y')
       | Zneg y' -> Zpos (Pos.mul x' y'))

  (** val pow_pos : z -> positive -> z **)

  let pow_pos z0 =
    Pos.iter (mul z0) (Zpos XH)

  (** val pow : z -> z -> z **)

  let pow x = function
  | Z0 -> Zpos XH
  | Zpos p -> pow_pos x p
  | Zneg _ -> Z0

  (** val compare : z -> z -> comparison **)

  let compare x y =
    match x with
    | Z0 -> (match y with
             | Z0 -> Eq
             | Zpos _ -> Lt
             | Zneg _ -> Gt)
    | Zpos x' -> (match y with
                  | Zpos y' -> Pos.compare x' y'
                  | _ -> Gt)
    | Zneg x' ->
      (match y with
       | Zneg y' -> compOpp (Pos.compare x' y')
       | _ -> Lt)

  (** val leb : z -> z -> bool **)

  let leb x y =
    match compare x y with
    | Gt -> false
    | _ -> true

  (** val ltb : z -> z -> bool **)

  let ltb x y =
    match compare x y with
    | Lt -> true
    | _ -> false

  (** val geb : z -> z -> bool **)

  let geb x y =
    match compare x y with
    | Lt -> false
    | _ -> true

  (** val gtb : z -> z -> bool **)

  let gtb x y =
    match compare x y with
    | Gt -> true
    | _ -> false

  (** val eqb : z -> z -> bool **)

  let eqb x y =
    match x with
    | Z0 -> (match y with
             | Z0 -> true
             | _ -> false)
    | Zpos p -> (match y with
                 | Zpos q -> Pos.eqb p q
                 | _ -> false)
    | Zneg p -> (match y with
                 | Zneg q -> Pos.eqb p q
                 | _ -> false)

  (** val max : z -> z -> z **)

  let max n m =
    match compare n m with
    | Lt -> m
    | _ -> n

  (** val to_nat : z -> nat **)

  let to_nat = function
  | Zpos p -> Pos.to_nat p
  | _ -> O

  (** val of_nat : nat -> z **)

  let of_nat = function
  | O -> Z0
  | S n0 -> Zpos (Pos.of_succ_nat n0)

  (** val pos_div_eucl : positive -> z -> z * z **)

  let rec pos_div_eucl a b =
    match a with
    | XI a' ->
      let (q, r) = pos_div_eucl a' b in
      let r' = add (mul (Zpos (XO XH)) r) (Zpos XH) in
      if ltb r' b
      then ((mul (Zpos (XO XH)) q), r')
      else ((add (mul (Zpos (XO XH)) q) (Zpos XH)), (sub r' b))
    | XO a' ->
      let (q, r) = pos_div_eucl a' b in
      let r' = mul (Zpos (XO XH)) r in
      if ltb r' b
      then ((mul (Zpos (XO XH)) q), r')
      else ((add (mul (Zpos (XO XH)) q) (Zpos XH)), (sub r' b))
    | XH -> if leb (Zpos (XO XH)) b then (Z0, (Zpos XH)) else ((Zpos XH), Z0)

  (** val div_eucl : z -> z -> z * z **)

  let div_eucl a b =
    match a with
    | Z0 -> (Z0, Z0)
    | Zpos a' ->
      (match b with
       | Z0 -> (Z0, a)
       | Zpos _ -> pos_div_eucl a' b
       | Zneg b' ->
         let (q, r) = pos_div_eucl a' (Zpos b') in
         (match r with
          | Z0 -> ((opp q), Z0)
          | _ -> ((opp (add q (Zpos XH))), (add b r))))
    | Zneg a' ->
      (match b with
       | Z0 -> (Z0, a)
       | Zpos _ ->
         let (q, r) = pos_div_eucl a' b in
         (match r with
          | Z0 -> ((opp q), Z0)
          | _ -> ((opp (add q (Zpos XH))), (sub b r)))
       | Zneg b' -> let (q, r) = pos_div_eucl a' (Zpos b') in (q, (opp r)))

  (** val div : z -> z -> z **)

  let div a b =
    let (q, _) = div_eucl a b in q

  (** val modulo : z -> z -> z **)

  let modulo a b =
    let (_, r) = div_eucl a b in r
 end

type byte = z

(** val zlen : 'a1 list -> z **)

let zlen l =
  Z.of_nat (length l)

(** val put_u32 : z -> byte list **)

let put_u32 x =
  (Z.modulo
    (Z.div x (Zpos (XO (XO (XO (XO (XO (XO (XO (XO (XO (XO (XO (XO (XO (XO
      (XO (XO (XO (XO (XO (XO (XO (XO (XO (XO XH))))))))))))))))))))))))))
    (Zpos (XO (XO (XO (XO (XO (XO (XO (XO XH)))))))))) :: ((Z.modulo
                                                             (Z.div x (Zpos
                                                               (XO (XO (XO
                                                               (XO (XO (XO
                                                               (XO (XO (XO
                                                               (XO (XO (XO
                                                               (XO (XO (XO
                                                               (XO
                                                               XH))))))))))))))))))
                                                             (Zpos (XO (XO
                                                             (XO (XO (XO (XO
                                                             (XO (XO
                                                             XH)))))))))) :: (
    (Z.modulo (Z.div x (Zpos (XO (XO (XO (XO (XO (XO (XO (XO XH))))))))))
      (Zpos (XO (XO (XO (XO (XO (XO (XO (XO XH)))))))))) :: ((Z.modulo x
                                                               (Zpos (XO (XO
                                                               (XO (XO (XO
                                                               (XO (XO (XO
                                                               XH)))))))))) :: [])))

(** val put_u64 : z -> byte list **)

let put_u64 x =
  app
    (put_u32
      (Z.div x (Zpos (XO (XO (XO (XO (XO (XO (XO (XO (XO (XO (XO (XO (XO (XO
        (XO (XO (XO (XO (XO (XO (XO (XO (XO (XO (XO (XO (XO (XO (XO (XO (XO
        (XO XH)))))))))))))))))))))))))))))))))))
    (put_u32
      (Z.modulo x (Zpos (XO (XO (XO (XO (XO (XO (XO (XO (XO (XO (XO (XO (XO
        (XO (XO (XO (XO (XO (XO (XO (XO (XO (XO (XO (XO (XO (XO (XO (XO (XO
        (XO (XO XH)))))))))))))))))))))))))))))))))))

(** val get_u32 : byte list -> (z * byte list) option **)

let get_u32 = function
| [] -> None
| a :: l0 ->
  (match l0 with
   | [] -> None
   | b :: l1 ->
     (match l1 with
      | [] -> None
      | c :: l2 ->
        (match l2 with
         | [] -> None
         | d :: r ->
           Some
             ((Z.add
                (Z.add
                  (Z.add
                    (Z.mul a (Zpos (XO (XO (XO (XO (XO (XO (XO (XO (XO (XO
                      (XO (XO (XO (XO (XO (XO (XO (XO (XO (XO (XO (XO (XO (XO
                      XH))))))))))))))))))))))))))
                    (Z.mul b (Zpos (XO (XO (XO (XO (XO (XO (XO (XO (XO (XO
                      (XO (XO (XO (XO (XO (XO XH)))))))))))))))))))
                  (Z.mul c (Zpos (XO (XO (XO (XO (XO (XO (XO (XO XH)))))))))))
                d), r))))

(** val get_u64 : byte list -> (z * byte list) option **)

let get_u64 l =
  match get_u32 l with
  | Some p ->
    let (hi, r) = p in
    (match get_u32 r with
     | Some p0 ->
       let (lo, r') = p0 in
       Some
       ((Z.add
          (Z.mul hi (Zpos (XO (XO (XO (XO (XO (XO (XO (XO (XO (XO (XO (XO (XO
            (XO (XO (XO (XO (XO (XO (XO (XO (XO (XO (XO (XO (XO (XO (XO (XO
            (XO (XO (XO XH)))))))))))))))))))))))))))))))))) lo), r')
     | None -> None)
  | None -> None

(** val be_value : byte list -> z -> z **)

let rec be_value l acc =
  match l with
  | [] -> acc
  | b :: r ->
    be_value r
      (Z.add (Z.mul acc (Zpos (XO (XO (XO (XO (XO (XO (XO (XO XH)))))))))) b)

(** val rndup : z -> z -> z **)

let rndup x a =
  if Z.eqb a Z0 then x else Z.mul (Z.div (Z.sub (Z.add x a) (Zpos XH)) a) a

(** val padlen : z -> z **)

let padlen n =
  Z.modulo (Z.sub (Zpos (XO (XO XH))) (Z.modulo n (Zpos (XO (XO XH))))) (Zpos
    (XO (XO XH)))

(** val zeros : z -> byte list **)

let zeros n =
  repeat Z0 (Z.to_nat n)

(** val pad4 : z -> byte list **)

let pad4 n =
  zeros (padlen n)

(** val znth : 'a1 list -> z -> 'a1 -> 'a1 **)

let rec znth l i d =
  match l with
  | [] -> d
  | x :: r -> if Z.eqb i Z0 then x else znth r (Z.sub i (Zpos XH)) d

(** val zfirstn : z -> 'a1 list -> 'a1 list **)

let rec zfirstn n = function
| [] -> []
| x :: r -> if Z.leb n Z0 then [] else x :: (zfirstn (Z.sub n (Zpos XH)) r)

(** val zskipn : z -> 'a1 list -> 'a1 list **)

let rec zskipn n l = match l with
| [] -> []
| _ :: r -> if Z.leb n Z0 then l else zskipn (Z.sub n (Zpos XH)) r

(** val zprod : z list -> z **)

let rec zprod = function
| [] -> Zpos XH
| x :: r -> Z.mul x (zprod r)

(** val zsum : z list -> z **)

let rec zsum = function
| [] -> Z0
| x :: r -> Z.add x (zsum r)

(** val list_eqb : ('a1 -> 'a1 -> bool) -> 'a1 list -> 'a1 list -> bool **)

let rec list_eqb eqb0 a b =
  match a with
  | [] -> (match b with
           | [] -> true
           | _ :: _ -> false)
  | x :: a' ->
    (match b with
     | [] -> false
     | y :: b' -> (&&) (eqb0 x y) (list_eqb eqb0 a' b'))

(** val bytes_eqb : z list -> z list -> bool **)

let bytes_eqb =
  list_eqb Z.eqb

(** val zip : 'a1 list -> 'a2 list -> ('a1 * 'a2) list **)

let rec zip a b =
  match a with
  | [] -> []
  | x :: a' -> (match b with
                | [] -> []
                | y :: b' -> (x, y) :: (zip a' b'))

(** val last_opt : 'a1 list -> 'a1 option **)

let last_opt l =
  match rev l with
  | [] -> None
  | x :: _ -> Some x

(** val nC_DIMENSION_TAG : z **)

let nC_DIMENSION_TAG =
  Zpos (XO (XI (XO XH)))

(** val nC_VARIABLE_TAG : z **)

let nC_VARIABLE_TAG =
  Zpos (XI (XI (XO XH)))

(** val nC_ATTRIBUTE_TAG : z **)

let nC_ATTRIBUTE_TAG =
  Zpos (XO (XO (XI XH)))

(** val xlen_type : z -> z **)

let xlen_type t =
  if (||) ((||) (Z.eqb t (Zpos XH)) (Z.eqb t (Zpos (XO XH))))
       (Z.eqb t (Zpos (XI (XI XH))))
  then Zpos XH
  else if (||) (Z.eqb t (Zpos (XI XH))) (Z.eqb t (Zpos (XO (XO (XO XH)))))
       then Zpos (XO XH)
       else if (||)
                 ((||) (Z.eqb t (Zpos (XO (XO XH))))
                   (Z.eqb t (Zpos (XI (XO XH)))))
                 (Z.eqb t (Zpos (XI (XO (XO XH)))))
            then Zpos (XO (XO XH))
            else if (||)
                      ((||) (Z.eqb t (Zpos (XO (XI XH))))
                        (Z.eqb t (Zpos (XO (XI (XO XH))))))
                      (Z.eqb t (Zpos (XI (XI (XO XH)))))
                 then Zpos (XO (XO (XO XH)))
                 else Z0

(** val valid_type : z -> z -> bool **)

let valid_type fmt t =
  (&&) (Z.leb (Zpos XH) t)
    (if Z.eqb fmt (Zpos (XI (XO XH)))
     then Z.leb t (Zpos (XI (XI (XO XH))))
     else Z.leb t (Zpos (XO (XI XH))))

type dim = { d_name : byte list; d_size : z }

type att = { a_name : byte list; a_type : z; a_nelems : z; a_data : byte list }

type var = { v_name : byte list; v_dimids : z list; v_atts : att list;
             v_type : z; v_begin : z; v_nofill : bool }

type hdr = { h_format : z; h_numrecs : z; h_dims : dim list;
             h_gatts : att list; h_vars : var list }

(** val dim_size : dim list -> z -> z **)

let dim_size dims id =
  (znth dims id { d_name = []; d_size = Z0 }).d_size

(** val var_shape : dim list -> var -> z list **)

let var_shape dims v =
  map (dim_size dims) v.v_dimids

(** val is_recvar : dim list -> var -> bool **)

let is_recvar dims v =
  match var_shape dims v with
  | [] -> false
  | s0 :: _ -> Z.eqb s0 Z0

(** val var_nelems_per_rec : z list -> z **)

let var_nelems_per_rec shape = match shape with
| [] -> Zpos XH
| s0 :: r -> if Z.eqb s0 Z0 then zprod r else zprod shape

(** val var_len_of : z -> z list -> z **)

let var_len_of xsz shape =
  let l = Z.mul (var_nelems_per_rec shape) xsz in
  if Z.gtb (Z.modulo l (Zpos (XO (XO XH)))) Z0
  then Z.add l (Z.sub (Zpos (XO (XO XH))) (Z.modulo l (Zpos (XO (XO XH)))))
  else l

(** val var_len : dim list -> var -> z **)

let var_len dims v =
  var_len_of (xlen_type v.v_type) (var_shape dims v)

(** val put_nn : z -> z -> byte list **)

let put_nn fmt x =
  if Z.ltb fmt (Zpos (XI (XO XH))) then put_u32 x else put_u64 x

(** val put_name : z -> byte list -> byte list **)

let put_name fmt nm =
  app (put_nn fmt (zlen nm)) (app nm (pad4 (zlen nm)))

(** val put_dim : z -> dim -> byte list **)

let put_dim fmt d =
  app (put_name fmt d.d_name) (put_nn fmt d.d_size)

(** val put_list : z -> z -> ('a1 -> byte list) -> 'a1 list -> byte list **)

let put_list fmt tag f l = match l with
| [] -> app (put_u32 Z0) (put_nn fmt Z0)
| _ :: _ -> app (put_u32 tag) (app (put_nn fmt (zlen l)) (flat_map f l))

(** val put_att : z -> att -> byte list **)

let put_att fmt a =
  app (put_name fmt a.a_name)
    (app (put_u32 a.a_type)
      (app (put_nn fmt a.a_nelems)
        (if Z.gtb a.a_nelems Z0
         then app a.a_data (pad4 (zlen a.a_data))
         else [])))

(** val vsize_field : z -> z -> byte list **)

let vsize_field fmt len =
  if Z.ltb fmt (Zpos (XI (XO XH)))
  then if Z.gtb len (Zpos (XO (XO (XI (XI (XI (XI (XI (XI (XI (XI (XI (XI (XI
            (XI (XI (XI (XI (XI (XI (XI (XI (XI (XI (XI (XI (XI (XI (XI (XI
            (XI (XI XH))))))))))))))))))))))))))))))))
       then put_u32 (Zpos (XI (XI (XI (XI (XI (XI (XI (XI (XI (XI (XI (XI (XI
              (XI (XI (XI (XI (XI (XI (XI (XI (XI (XI (XI (XI (XI (XI (XI (XI
              (XI (XI XH))))))))))))))))))))))))))))))))
       else put_u32
              (Z.modulo len (Zpos (XO (XO (XO (XO (XO (XO (XO (XO (XO (XO (XO
                (XO (XO (XO (XO (XO (XO (XO (XO (XO (XO (XO (XO (XO (XO (XO
                (XO (XO (XO (XO (XO (XO XH))))))))))))))))))))))))))))))))))
  else put_u64 len

(** val put_var : z -> dim list -> var -> byte list **)

let put_var fmt dims v =
  app (put_name fmt v.v_name)
    (app (put_nn fmt (zlen v.v_dimids))
      (app (flat_map (put_nn fmt) v.v_dimids)
        (app (put_list fmt nC_ATTRIBUTE_TAG (put_att fmt) v.v_atts)
          (app (put_u32 v.v_type)
            (app (vsize_field fmt (var_len dims v))
              (if Z.eqb fmt (Zpos XH)
               then put_u32 v.v_begin
               else put_u64 v.v_begin))))))

(** val magic : z -> byte list **)

let magic fmt =
  (Zpos (XI (XI (XO (XO (XO (XO XH))))))) :: ((Zpos (XO (XO (XI (XO (XO (XO
    XH))))))) :: ((Zpos (XO (XI (XI (XO (XO (XO
    XH))))))) :: ((if Z.eqb fmt (Zpos (XI (XO XH)))
                   then Zpos (XI (XO XH))
                   else if Z.eqb fmt (Zpos (XO XH))
                        then Zpos (XO XH)
                        else Zpos XH) :: [])))

(** val encode_header : hdr -> byte list **)

let encode_header h =
  let fmt = h.h_format in
  app (magic fmt)
    (app (put_nn fmt h.h_numrecs)
      (app (put_list fmt nC_DIMENSION_TAG (put_dim fmt) h.h_dims)
        (app (put_list fmt nC_ATTRIBUTE_TAG (put_att fmt) h.h_gatts)
          (put_list fmt nC_VARIABLE_TAG (put_var fmt h.h_dims) h.h_vars))))

(** val sz_nn : z -> z **)

let sz_nn fmt =
  if Z.eqb fmt (Zpos (XI (XO XH)))
  then Zpos (XO (XO (XO XH)))
  else Zpos (XO (XO XH))

(** val sz_off : z -> z **)

let sz_off fmt =
  if Z.eqb fmt (Zpos XH) then Zpos (XO (XO XH)) else Zpos (XO (XO (XO XH)))

(** val len_att : z -> att -> z **)

let len_att fmt a =
  Z.add
    (Z.add
      (Z.add (Z.add (sz_nn fmt) (rndup (zlen a.a_name) (Zpos (XO (XO XH)))))
        (Zpos (XO (XO XH)))) (sz_nn fmt))
    (rndup (Z.mul a.a_nelems (xlen_type a.a_type)) (Zpos (XO (XO XH))))

(** val len_attarray : z -> att list -> z **)

let len_attarray fmt l =
  Z.add (Z.add (Zpos (XO (XO XH))) (sz_nn fmt)) (zsum (map (len_att fmt) l))

(** val len_dim : z -> dim -> z **)

let len_dim fmt d =
  Z.add (Z.add (sz_nn fmt) (rndup (zlen d.d_name) (Zpos (XO (XO XH)))))
    (sz_nn fmt)

(** val len_var : z -> var -> z **)

let len_var fmt v =
  Z.add
    (Z.add
      (Z.add
        (Z.add
          (Z.add
            (Z.add
              (Z.add (sz_nn fmt) (rndup (zlen v.v_name) (Zpos (XO (XO XH)))))
              (sz_nn fmt)) (Z.mul (sz_nn fmt) (zlen v.v_dimids)))
          (len_attarray fmt v.v_atts)) (Zpos (XO (XO XH)))) (sz_nn fmt))
    (sz_off fmt)

(** val hdr_len : hdr -> z **)

let hdr_len h =
  let fmt = h.h_format in
  Z.add
    (Z.add
      (Z.add (Z.add (Zpos (XO (XO XH))) (sz_nn fmt))
        (Z.add (Z.add (Zpos (XO (XO XH))) (sz_nn fmt))
          (zsum (map (len_dim fmt) h.h_dims)))) (len_attarray fmt h.h_gatts))
    (Z.add (Z.add (Zpos (XO (XO XH))) (sz_nn fmt))
      (zsum (map (len_var fmt) h.h_vars)))

type layout = { l_xsz : z; l_begin_var : z; l_begin_rec : z; l_recsize : 
                z; l_begins : z list }

type 'a parser0 = byte list -> ('a * byte list) option

(** val p_u32 : z parser0 **)

let p_u32 =
  get_u32

(** val p_u64 : z parser0 **)

let p_u64 =
  get_u64

(** val p_nn : z -> z parser0 **)

let p_nn fmt =
  if Z.ltb fmt (Zpos (XI (XO XH))) then p_u32 else p_u64

(** val p_bytes : z -> byte list parser0 **)

let p_bytes n l =
  if (||) (Z.ltb n Z0) (Z.ltb (zlen l) n)
  then None
  else Some ((zfirstn n l), (zskipn n l))

(** val p_padded : z -> (byte list * byte list) parser0 **)

let p_padded n l =
  match p_bytes n l with
  | Some p ->
    let (b, r) = p in
    (match p_bytes (padlen n) r with
     | Some p0 -> let (pad, r') = p0 in Some ((b, pad), r')
     | None -> None)
  | None -> None

(** val p_name : z -> (byte list * byte list) parser0 **)

let p_name fmt l =
  match p_nn fmt l with
  | Some p -> let (n, r) = p in p_padded n r
  | None -> None

(** val p_many : 'a1 parser0 -> nat -> 'a1 list parser0 **)

let rec p_many p n l =
  match n with
  | O -> Some ([], l)
  | S k ->
    (match p l with
     | Some p0 ->
       let (x, r) = p0 in
       (match p_many p k r with
        | Some p1 -> let (xs, r') = p1 in Some ((x :: xs), r')
        | None -> None)
     | None -> None)

(** val p_list : z -> z -> 'a1 parser0 -> 'a1 list parser0 **)

let p_list fmt tag p l =
  match p_u32 l with
  | Some p0 ->
    let (t, r) = p0 in
    (match p_nn fmt r with
     | Some p1 ->
       let (n, r') = p1 in
       if Z.eqb t Z0
       then if Z.eqb n Z0 then Some ([], r') else None
       else if Z.eqb t tag
            then if Z.ltb (zlen r') n then None else p_many p (Z.to_nat n) r'
            else None
     | None -> None)
  | None -> None

type dec_dim = { dd_dim : dim; dd_pad : byte list }

type dec_att = { da_att : att; da_pad : byte list }

type dec_var = { dv_var : var; dv_vsize : z; dv_pad : byte list;
                 dv_atts : dec_att list }

(** val p_dim : z -> dec_dim parser0 **)

let p_dim fmt l =
  match p_name fmt l with
  | Some p ->
    let (p0, r) = p in
    let (nm, pad) = p0 in
    (match p_nn fmt r with
     | Some p1 ->
       let (sz, r') = p1 in
       Some ({ dd_dim = { d_name = nm; d_size = sz }; dd_pad = pad }, r')
     | None -> None)
  | None -> None

(** val p_att : z -> dec_att parser0 **)

let p_att fmt l =
  match p_name fmt l with
  | Some p ->
    let (p0, r) = p in
    let (nm, pad) = p0 in
    (match p_u32 r with
     | Some p1 ->
       let (t, r1) = p1 in
       if negb (valid_type fmt t)
       then None
       else (match p_nn fmt r1 with
             | Some p2 ->
               let (n, r2) = p2 in
               if (||) (Z.ltb n Z0) (Z.ltb (zlen r2) n)
               then None
               else (match p_padded (Z.mul n (xlen_type t)) r2 with
                     | Some p3 ->
                       let (p4, r3) = p3 in
                       let (data, pad2) = p4 in
                       Some ({ da_att = { a_name = nm; a_type = t; a_nelems =
                       n; a_data = data }; da_pad = (app pad pad2) }, r3)
                     | None -> None)
             | None -> None)
     | None -> None)
  | None -> None

(** val p_var : z -> dec_var parser0 **)

let p_var fmt l =
  match p_name fmt l with
  | Some p ->
    let (p0, r) = p in
    let (nm, pad) = p0 in
    (match p_nn fmt r with
     | Some p1 ->
       let (nd, r1) = p1 in
       if Z.ltb (zlen r1) nd
       then None
       else (match p_many (p_nn fmt) (Z.to_nat nd) r1 with
             | Some p2 ->
               let (dimids, r2) = p2 in
               (match p_list fmt (Zpos (XO (XO (XI XH)))) (p_att fmt) r2 with
                | Some p3 ->
                  let (atts, r3) = p3 in
                  (match p_u32 r3 with
                   | Some p4 ->
                     let (t, r4) = p4 in
                     if negb (valid_type fmt t)
                     then None
                     else (match p_nn fmt r4 with
                           | Some p5 ->
                             let (vsize, r5) = p5 in
                             (match if Z.eqb fmt (Zpos XH)
                                    then p_u32 r5
                                    else p_u64 r5 with
                              | Some p6 ->
                                let (bg, r6) = p6 in
                                Some ({ dv_var = { v_name = nm; v_dimids =
                                dimids; v_atts =
                                (map (fun d -> d.da_att) atts); v_type = t;
                                v_begin = bg; v_nofill = true }; dv_vsize =
                                vsize; dv_pad = pad; dv_atts = atts }, r6)
                              | None -> None)
                           | None -> None)
                   | None -> None)
                | None -> None)
             | None -> None)
     | None -> None)
  | None -> None

type decoded = { dc_hdr : hdr; dc_dims : dec_dim list;
                 dc_gatts : dec_att list; dc_vars : dec_var list; dc_len : 
                 z }

(** val decode : byte list -> decoded option **)

let decode l = match l with
| [] -> None
| b :: l0 ->
  (match b with
   | Zpos p ->
     (match p with
      | XI p0 ->
        (match p0 with
         | XI p1 ->
           (match p1 with
            | XO p2 ->
              (match p2 with
               | XO p3 ->
                 (match p3 with
                  | XO p4 ->
                    (match p4 with
                     | XO p5 ->
                       (match p5 with
                        | XH ->
                          (match l0 with
                           | [] -> None
                           | b0 :: l1 ->
                             (match b0 with
                              | Zpos p6 ->
                                (match p6 with
                                 | XO p7 ->
                                   (match p7 with
                                    | XO p8 ->
                                      (match p8 with
                                       | XI p9 ->
                                         (match p9 with
                                          | XO p10 ->
                                            (match p10 with
                                             | XO p11 ->
                                               (match p11 with
                                                | XO p12 ->
                                                  (match p12 with
                                                   | XH ->
                                                     (match l1 with
                                                      | [] -> None
                                                      | b1 :: l2 ->
                                                        (match b1 with
                                                         | Zpos p13 ->
                                                           (match p13 with
                                                            | XO p14 ->
                                                              (match p14 with
                                                               | XI p15 ->
                                                                 (match p15 with
                                                                  | XI p16 ->
                                                                    (match p16 with
                                                                    | XO p17 ->
                                                                    (match p17 with
                                                                    | XO p18 ->
                                                                    (match p18 with
                                                                    | XO p19 ->
                                                                    (match p19 with
                                                                    | XH ->
                                                                    (match l2 with
                                                                    | [] ->
                                                                    None
                                                                    | ver :: r ->
                                                                    if 
                                                                    negb
                                                                    ((||)
                                                                    ((||)
                                                                    (Z.eqb
                                                                    ver (Zpos
                                                                    XH))
                                                                    (Z.eqb
                                                                    ver (Zpos
                                                                    (XO XH))))
                                                                    (Z.eqb
                                                                    ver (Zpos
                                                                    (XI (XO
                                                                    XH)))))
                                                                    then None
                                                                    else 
                                                                    (match 
                                                                    p_nn ver r with
                                                                    | Some p20 ->
                                                                    let (
                                                                    numrecs,
                                                                    r1) = p20
                                                                    in
                                                                    (
                                                                    match 
                                                                    p_list
                                                                    ver (Zpos
                                                                    (XO (XI
                                                                    (XO
                                                                    XH))))
                                                                    (p_dim
                                                                    ver) r1 with
                                                                    | Some p21 ->
                                                                    let (
                                                                    dims, r2) =
                                                                    p21
                                                                    in
                                                                    (
                                                                    match 
                                                                    p_list
                                                                    ver (Zpos
                                                                    (XO (XO
                                                                    (XI
                                                                    XH))))
                                                                    (p_att
                                                                    ver) r2 with
                                                                    | Some p22 ->
                                                                    let (
                                                                    gatts, r3) =
                                                                    p22
                                                                    in
                                                                    (
                                                                    match 
                                                                    p_list
                                                                    ver (Zpos
                                                                    (XI (XI
                                                                    (XO
                                                                    XH))))
                                                                    (p_var
                                                                    ver) r3 with
                                                                    | Some p23 ->
                                                                    let (
                                                                    vars, r4) =
                                                                    p23
                                                                    in
                                                                    Some
                                                                    { dc_hdr =
                                                                    { h_format =
                                                                    ver;
                                                                    h_numrecs =
                                                                    numrecs;
                                                                    h_dims =
                                                                    (map
                                                                    (fun d ->
                                                                    d.dd_dim)
                                                                    dims);
                                                                    h_gatts =
                                                                    (map
                                                                    (fun d ->
                                                                    d.da_att)
                                                                    gatts);
                                                                    h_vars =
                                                                    (map
                                                                    (fun d ->
                                                                    d.dv_var)
                                                                    vars) };
                                                                    dc_dims =
                                                                    dims;
                                                                    dc_gatts =
                                                                    gatts;
                                                                    dc_vars =
                                                                    vars;
                                                                    dc_len =
                                                                    (Z.sub
                                                                    (zlen l)
                                                                    (zlen r4)) }
                                                                    | None ->
                                                                    None)
                                                                    | None ->
                                                                    None)
                                                                    | None ->
                                                                    None)
                                                                    | None ->
                                                                    None))
                                                                    | _ ->
                                                                    None)
                                                                    | _ ->
                                                                    None)
                                                                    | _ ->
                                                                    None)
                                                                    | _ ->
                                                                    None)
                                                                  | _ -> None)
                                                               | _ -> None)
                                                            | _ -> None)
                                                         | _ -> None))
                                                   | _ -> None)
                                                | _ -> None)
                                             | _ -> None)
                                          | _ -> None)
                                       | _ -> None)
                                    | _ -> None)
                                 | _ -> None)
                              | _ -> None))
                        | _ -> None)
                     | _ -> None)
                  | _ -> None)
               | _ -> None)
            | _ -> None)
         | _ -> None)
      | _ -> None)
   | _ -> None)

(** val all_zero : byte list -> bool **)

let all_zero l =
  forallb (fun b -> Z.eqb b Z0) l

(** val expected_vsize : z -> z -> z **)

let expected_vsize fmt len =
  if Z.ltb fmt (Zpos (XI (XO XH)))
  then if Z.gtb len (Zpos (XO (XO (XI (XI (XI (XI (XI (XI (XI (XI (XI (XI (XI
            (XI (XI (XI (XI (XI (XI (XI (XI (XI (XI (XI (XI (XI (XI (XI (XI
            (XI (XI XH))))))))))))))))))))))))))))))))
       then Zpos (XI (XI (XI (XI (XI (XI (XI (XI (XI (XI (XI (XI (XI (XI (XI
              (XI (XI (XI (XI (XI (XI (XI (XI (XI (XI (XI (XI (XI (XI (XI (XI
              XH)))))))))))))))))))))))))))))))
       else len
  else len

(** val strict_valid : decoded -> bool **)

let strict_valid d =
  let h = d.dc_hdr in
  let dims = h.h_dims in
  (&&)
    ((&&)
      ((&&) (forallb (fun x -> all_zero x.dd_pad) d.dc_dims)
        (forallb (fun x -> all_zero x.da_pad) d.dc_gatts))
      (forallb (fun x ->
        (&&)
          ((&&)
            ((&&) (all_zero x.dv_pad)
              (forallb (fun y -> all_zero y.da_pad) x.dv_atts))
            (forallb (fun i -> (&&) (Z.leb Z0 i) (Z.ltb i (zlen dims)))
              x.dv_var.v_dimids))
          (Z.eqb x.dv_vsize
            (expected_vsize h.h_format (var_len dims x.dv_var)))) d.dc_vars))
    (Z.leb (zlen (filter (fun dd -> Z.eqb dd.d_size Z0) dims)) (Zpos XH))

(** val begins_increasing : z -> (z * z) list -> bool **)

let rec begins_increasing prev_end = function
| [] -> true
| p :: r ->
  let (b, len) = p in
  (&&) ((&&) (Z.leb prev_end b) (Z.eqb (Z.modulo b (Zpos (XO (XO XH)))) Z0))
    (begins_increasing (Z.add b len) r)

(** val layout_ok : hdr -> z -> bool **)

let layout_ok h hdr_size =
  let dims = h.h_dims in
  let fixed = filter (fun v -> negb (is_recvar dims v)) h.h_vars in
  let recs = filter (is_recvar dims) h.h_vars in
  let fl = map (fun v -> (v.v_begin, (var_len dims v))) fixed in
  let end_fixed =
    fold_left (fun e p -> Z.max e (Z.add (fst p) (snd p))) fl hdr_size
  in
  let rl = map (fun v -> (v.v_begin, (var_len dims v))) recs in
  (&&) (begins_increasing hdr_size fl) (begins_increasing end_fixed rl)

(** val layout_of_hdr : hdr -> z -> layout **)

let layout_of_hdr h xsz =
  let dims = h.h_dims in
  let vs = h.h_vars in
  let fixed = filter (fun v -> negb (is_recvar dims v)) vs in
  let recs = filter (is_recvar dims) vs in
  let begin_rec0 =
    match last_opt fixed with
    | Some v -> Z.add v.v_begin (var_len dims v)
    | None -> xsz
  in
  let recsize0 = zsum (map (var_len dims) recs) in
  (match recs with
   | [] ->
     let recsize = Z0 in
     let begin_var = match fixed with
                     | [] -> begin_rec0
                     | fv :: _ -> fv.v_begin
     in
     (match vs with
      | [] ->
        { l_xsz = xsz; l_begin_var = Z0; l_begin_rec = Z0; l_recsize = Z0;
          l_begins = [] }
      | _ :: _ ->
        { l_xsz = xsz; l_begin_var = begin_var; l_begin_rec = begin_rec0;
          l_recsize = recsize; l_begins = (map (fun v -> v.v_begin) vs) })
   | fr :: _ ->
     let begin_rec = fr.v_begin in
     let recsize =
       if Z.eqb recsize0 (var_len dims fr)
       then Z.mul (var_nelems_per_rec (var_shape dims fr))
              (xlen_type fr.v_type)
       else recsize0
     in
     let begin_var = match fixed with
                     | [] -> begin_rec
                     | fv :: _ -> fv.v_begin
     in
     (match vs with
      | [] ->
        { l_xsz = xsz; l_begin_var = Z0; l_begin_rec = Z0; l_recsize = Z0;
          l_begins = [] }
      | _ :: _ ->
        { l_xsz = xsz; l_begin_var = begin_var; l_begin_rec = begin_rec;
          l_recsize = recsize; l_begins = (map (fun v -> v.v_begin) vs) }))

type lvar = { lv_name : byte list; lv_type : z; lv_dimids : z list;
              lv_atts : att list; lv_data : byte list list }

type logical = { lg_format : z; lg_numrecs : z; lg_dims : dim list;
                 lg_gatts : att list; lg_vars : lvar list }

(** val has_unlim : dim list -> bool **)

let has_unlim dims =
  existsb (fun d -> Z.eqb d.d_size Z0) dims

(** val take_elems : z -> nat -> byte list -> byte list list **)

let rec take_elems xsz n l =
  match n with
  | O -> []
  | S k -> (zfirstn xsz l) :: (take_elems xsz k (zskipn xsz l))

(** val take_records : z -> nat -> z -> nat -> byte list -> byte list list **)

let rec take_records xsz nper recsize n cur =
  match n with
  | O -> []
  | S k ->
    app (take_elems xsz nper cur)
      (take_records xsz nper recsize k (zskipn recsize cur))

(** val var_data :
    byte list -> dim list -> z -> z -> var -> byte list list **)

let var_data bytes dims numrecs recsize v =
  let xsz = xlen_type v.v_type in
  let nper = Z.to_nat (var_nelems_per_rec (var_shape dims v)) in
  let cur = zskipn v.v_begin bytes in
  if is_recvar dims v
  then take_records xsz nper recsize (Z.to_nat numrecs) cur
  else take_elems xsz nper cur

(** val lvar_of : byte list -> dim list -> z -> z -> var -> lvar **)

let lvar_of bytes dims numrecs recsize v =
  { lv_name = v.v_name; lv_type = v.v_type; lv_dimids = v.v_dimids; lv_atts =
    v.v_atts; lv_data = (var_data bytes dims numrecs recsize v) }

(** val logical_of : byte list -> decoded -> logical **)

let logical_of bytes d =
  let h = d.dc_hdr in
  let recsize = (layout_of_hdr h d.dc_len).l_recsize in
  { lg_format = h.h_format; lg_numrecs =
  (if has_unlim h.h_dims then h.h_numrecs else Z0); lg_dims = h.h_dims;
  lg_gatts = h.h_gatts; lg_vars =
  (map (lvar_of bytes h.h_dims h.h_numrecs recsize) h.h_vars) }

(** val logical_content : byte list -> logical option **)

let logical_content bytes =
  match decode bytes with
  | Some d -> Some (logical_of bytes d)
  | None -> None

(** val dim_eqb : dim -> dim -> bool **)

let dim_eqb a b =
  (&&) (bytes_eqb a.d_name b.d_name) (Z.eqb a.d_size b.d_size)

(** val att_eqb : att -> att -> bool **)

let att_eqb a b =
  (&&)
    ((&&) ((&&) (bytes_eqb a.a_name b.a_name) (Z.eqb a.a_type b.a_type))
      (Z.eqb a.a_nelems b.a_nelems)) (bytes_eqb a.a_data b.a_data)

(** val lvar_eqb : lvar -> lvar -> bool **)

let lvar_eqb a b =
  (&&)
    ((&&)
      ((&&)
        ((&&) (bytes_eqb a.lv_name b.lv_name) (Z.eqb a.lv_type b.lv_type))
        (list_eqb Z.eqb a.lv_dimids b.lv_dimids))
      (list_eqb att_eqb a.lv_atts b.lv_atts))
    (list_eqb bytes_eqb a.lv_data b.lv_data)

(** val content_eq : logical -> logical -> bool **)

let content_eq a b =
  (&&)
    ((&&)
      ((&&) (Z.eqb a.lg_numrecs b.lg_numrecs)
        (list_eqb dim_eqb a.lg_dims b.lg_dims))
      (list_eqb att_eqb a.lg_gatts b.lg_gatts))
    (list_eqb lvar_eqb a.lg_vars b.lg_vars)

(** val logical_eq : logical -> logical -> bool **)

let logical_eq a b =
  (&&) (Z.eqb a.lg_format b.lg_format) (content_eq a b)

(** val file_valid : byte list -> bool **)

let file_valid bytes =
  match decode bytes with
  | Some d -> (&&) (strict_valid d) (layout_ok d.dc_hdr d.dc_len)
  | None -> false

type layout_choice = { lc_hfree : byte list; lc_gaps : byte list list;
                       lc_recgap : byte list; lc_tail : byte list }

(** val var_of : lvar -> z -> var **)

let var_of v b =
  { v_name = v.lv_name; v_dimids = v.lv_dimids; v_atts = v.lv_atts; v_type =
    v.lv_type; v_begin = b; v_nofill = true }

(** val hdr_of : logical -> z list -> hdr **)

let hdr_of c bl =
  { h_format = c.lg_format; h_numrecs = c.lg_numrecs; h_dims = c.lg_dims;
    h_gatts = c.lg_gatts; h_vars =
    (map (fun p -> var_of (fst p) (snd p)) (zip c.lg_vars bl)) }

(** val lx_isrec : dim list -> lvar -> bool **)

let lx_isrec dims v =
  is_recvar dims (var_of v Z0)

(** val lx_xsz : lvar -> z **)

let lx_xsz v =
  xlen_type v.lv_type

(** val lx_nper : dim list -> lvar -> z **)

let lx_nper dims v =
  var_nelems_per_rec (var_shape dims (var_of v Z0))

(** val lx_len : dim list -> lvar -> z **)

let lx_len dims v =
  var_len dims (var_of v Z0)

(** val rec_packed : dim list -> lvar list -> bool **)

let rec_packed dims vs =
  let recs = filter (lx_isrec dims) vs in
  (match recs with
   | [] -> false
   | fr :: _ -> Z.eqb (zsum (map (lx_len dims) recs)) (lx_len dims fr))

(** val lx_slot : dim list -> bool -> lvar -> z **)

let lx_slot dims packed v =
  if packed then Z.mul (lx_nper dims v) (lx_xsz v) else lx_len dims v

(** val pad_to : z -> byte list -> byte list **)

let pad_to n l =
  app l (zeros (Z.sub n (zlen l)))

(** val fixed_payload : dim list -> lvar -> byte list **)

let fixed_payload dims v =
  pad_to (lx_len dims v) (concat v.lv_data)

(** val slab : nat -> nat -> byte list list -> byte list list **)

let slab nper r data =
  firstn nper (skipn (mul r nper) data)

(** val rec_payload : dim list -> bool -> lvar -> nat -> byte list **)

let rec_payload dims packed v r =
  pad_to (lx_slot dims packed v)
    (concat (slab (Z.to_nat (lx_nper dims v)) r v.lv_data))

(** val enc_fixed : dim list -> lvar list -> byte list list -> byte list **)

let rec enc_fixed dims vs gaps =
  match vs with
  | [] -> []
  | v :: r ->
    if lx_isrec dims v
    then enc_fixed dims r (tl gaps)
    else app (hd [] gaps)
           (app (fixed_payload dims v) (enc_fixed dims r (tl gaps)))

(** val rec_bytes : dim list -> bool -> lvar list -> nat -> byte list **)

let rec_bytes dims packed vs r =
  flat_map (fun v ->
    if lx_isrec dims v then rec_payload dims packed v r else []) vs

(** val enc_records : dim list -> bool -> lvar list -> nat -> byte list **)

let enc_records dims packed vs n =
  flat_map (rec_bytes dims packed vs) (seq O n)

(** val begins_of :
    dim list -> bool -> lvar list -> byte list list -> z -> z -> z list **)

let rec begins_of dims packed vs gaps curf curr =
  match vs with
  | [] -> []
  | v :: r ->
    if lx_isrec dims v
    then curr :: (begins_of dims packed r (tl gaps) curf
                   (Z.add curr (lx_slot dims packed v)))
    else let b = Z.add curf (zlen (hd [] gaps)) in
         b :: (begins_of dims packed r (tl gaps) (Z.add b (lx_len dims v))
                curr)

(** val layout_begins : logical -> layout_choice -> z list **)

let layout_begins c lc =
  let dims = c.lg_dims in
  let vs = c.lg_vars in
  let hl = hdr_len (hdr_of c (map (fun _ -> Z0) vs)) in
  let bv = Z.add hl (zlen lc.lc_hfree) in
  let br =
    Z.add (Z.add bv (zlen (enc_fixed dims vs lc.lc_gaps))) (zlen lc.lc_recgap)
  in
  begins_of dims (rec_packed dims vs) vs lc.lc_gaps bv br

(** val encode_with_layout : logical -> layout_choice -> byte list **)

let encode_with_layout c lc =
  let dims = c.lg_dims in
  let vs = c.lg_vars in
  let packed = rec_packed dims vs in
  app (encode_header (hdr_of c (layout_begins c lc)))
    (app lc.lc_hfree
      (app (enc_fixed dims vs lc.lc_gaps)
        (app lc.lc_recgap
          (app (enc_records dims packed vs (Z.to_nat c.lg_numrecs))
            lc.lc_tail))))

(** val elems_ok : z -> z -> byte list list -> bool **)

let elems_ok xsz n data =
  (&&) (forallb (fun e -> Z.eqb (zlen e) xsz) data) (Z.eqb (zlen data) n)

(** val lvar_data_ok : dim list -> z -> lvar -> bool **)

let lvar_data_ok dims numrecs v =
  elems_ok (lx_xsz v)
    (if lx_isrec dims v
     then Z.mul numrecs (lx_nper dims v)
     else lx_nper dims v) v.lv_data

(** val data_ok : logical -> bool **)

let data_ok c =
  (&&) ((||) (has_unlim c.lg_dims) (Z.eqb c.lg_numrecs Z0))
    (forallb (lvar_data_ok c.lg_dims c.lg_numrecs) c.lg_vars)

(** val is_float_type : z -> bool **)

let is_float_type t =
  (||) (Z.eqb t (Zpos (XI (XO XH)))) (Z.eqb t (Zpos (XO (XI XH))))

(** val is_signed_int : z -> bool **)

let is_signed_int t =
  (||)
    ((||) ((||) (Z.eqb t (Zpos XH)) (Z.eqb t (Zpos (XI XH))))
      (Z.eqb t (Zpos (XO (XO XH))))) (Z.eqb t (Zpos (XO (XI (XO XH)))))

(** val fbias : z -> z **)

let fbias ebits =
  Z.sub (Z.pow (Zpos (XO XH)) (Z.sub ebits (Zpos XH))) (Zpos XH)

(** val float_decode : z -> z -> z -> ((bool * z) * z) option **)

let float_decode mant ebits bits =
  let sign =
    Z.eqb (Z.div bits (Z.pow (Zpos (XO XH)) (Z.add mant ebits))) (Zpos XH)
  in
  let ex =
    Z.modulo (Z.div bits (Z.pow (Zpos (XO XH)) mant))
      (Z.pow (Zpos (XO XH)) ebits)
  in
  let fr = Z.modulo bits (Z.pow (Zpos (XO XH)) mant) in
  if Z.eqb ex (Z.sub (Z.pow (Zpos (XO XH)) ebits) (Zpos XH))
  then None
  else if Z.eqb ex Z0
       then Some ((sign, fr), (Z.sub (Z.sub (Zpos XH) (fbias ebits)) mant))
       else Some ((sign, (Z.add fr (Z.pow (Zpos (XO XH)) mant))),
              (Z.sub (Z.sub ex (fbias ebits)) mant))

type cval =
| CInt of z
| CFloat of bool * z * z
| CNaN
| CInf of bool

(** val fmant : z -> z **)

let fmant t =
  if Z.eqb t (Zpos (XI (XO XH)))
  then Zpos (XI (XI (XI (XO XH))))
  else Zpos (XO (XO (XI (XO (XI XH)))))

(** val febits : z -> z **)

let febits t =
  if Z.eqb t (Zpos (XI (XO XH)))
  then Zpos (XO (XO (XO XH)))
  else Zpos (XI (XI (XO XH)))

(** val decode_ext : z -> byte list -> cval **)

let decode_ext t bs =
  let u = be_value bs Z0 in
  if is_float_type t
  then (match float_decode (fmant t) (febits t) u with
        | Some p -> let (p0, e) = p in let (s, m) = p0 in CFloat (s, m, e)
        | None ->
          if Z.eqb (Z.modulo u (Z.pow (Zpos (XO XH)) (fmant t))) Z0
          then CInf
                 (Z.eqb
                   (Z.div u
                     (Z.pow (Zpos (XO XH)) (Z.add (fmant t) (febits t))))
                   (Zpos XH))
          else CNaN)
  else if is_signed_int t
       then let n = Z.mul (Zpos (XO (XO (XO XH)))) (xlen_type t) in
            CInt
            (if Z.geb u (Z.pow (Zpos (XO XH)) (Z.sub n (Zpos XH)))
             then Z.sub u (Z.pow (Zpos (XO XH)) n)
             else u)
       else CInt u
