
val negb : bool -> bool

type nat =
| O
| S of nat

val fst : ('a1 * 'a2) -> 'a1

val snd : ('a1 * 'a2) -> 'a2

val length : 'a1 list -> nat

val app : 'a1 list -> 'a1 list -> 'a1 list

type comparison =
| Eq
| Lt
| Gt

val compOpp : comparison -> comparison

val add : nat -> nat -> nat

val eqb : bool -> bool -> bool

val tl : 'a1 list -> 'a1 list

val rev : 'a1 list -> 'a1 list

val concat : 'a1 list list -> 'a1 list

val map : ('a1 -> 'a2) -> 'a1 list -> 'a2 list

val fold_right : ('a2 -> 'a1 -> 'a1) -> 'a1 -> 'a2 list -> 'a1

val existsb : ('a1 -> bool) -> 'a1 list -> bool

val forallb : ('a1 -> bool) -> 'a1 list -> bool

val filter : ('a1 -> bool) -> 'a1 list -> 'a1 list

val repeat : 'a1 -> nat -> 'a1 list

type positive =
| XI of positive
| XO of positive
| XH

type n =
| N0
| Npos of positive

type z =
| Z0
| Zpos of positive
| Zneg of positive

module Pos :
 sig
  type mask =
  | IsNul
  | IsPos of positive
  | IsNeg
 end

module Coq_Pos :
 sig
  val succ : positive -> positive

  val add : positive -> positive -> positive

  val add_carry : positive -> positive -> positive

  val pred_double : positive -> positive

  type mask = Pos.mask =
  | IsNul
  | IsPos of positive
  | IsNeg

  val succ_double_mask : mask -> mask

  val double_mask : mask -> mask

  val double_pred_mask : positive -> mask

  val sub_mask : positive -> positive -> mask

  val sub_mask_carry : positive -> positive -> mask

  val mul : positive -> positive -> positive

  val size : positive -> positive

  val compare_cont : comparison -> positive -> positive -> comparison

  val compare : positive -> positive -> comparison

  val eqb : positive -> positive -> bool

  val iter_op : ('a1 -> 'a1 -> 'a1) -> positive -> 'a1 -> 'a1

  val to_nat : positive -> nat

  val of_succ_nat : nat -> positive
 end

module N :
 sig
  val succ_double : n -> n

  val double : n -> n

  val sub : n -> n -> n

  val compare : n -> n -> comparison

  val leb : n -> n -> bool

  val pos_div_eucl : positive -> n -> n * n
 end

module Z :
 sig
  val double : z -> z

  val succ_double : z -> z

  val pred_double : z -> z

  val pos_sub : positive -> positive -> z

  val add : z -> z -> z

  val opp : z -> z

  val sub : z -> z -> z

  val mul : z -> z -> z

  val compare : z -> z -> comparison

  val leb : z -> z -> bool

  val ltb : z -> z -> bool

  val geb : z -> z -> bool

  val gtb : z -> z -> bool

  val eqb : z -> z -> bool

  val max : z -> z -> z

  val min : z -> z -> z

  val to_nat : z -> nat

  val of_nat : nat -> z

  val of_N : n -> z

  val pos_div_eucl : positive -> z -> z * z

  val div_eucl : z -> z -> z * z

  val div : z -> z -> z

  val modulo : z -> z -> z

  val quotrem : z -> z -> z * z

  val quot : z -> z -> z

  val rem : z -> z -> z

  val log2 : z -> z
 end

type byte = z

val zlen : 'a1 list -> z

val put_u32 : z -> byte list

val put_u64 : z -> byte list

val get_u32 : byte list -> (z * byte list) option

val get_u64 : byte list -> (z * byte list) option

val rndup : z -> z -> z

val padlen : z -> z

val zeros : z -> byte list

val znth : 'a1 list -> z -> 'a1 -> 'a1

val zfirstn : z -> 'a1 list -> 'a1 list

val zskipn : z -> 'a1 list -> 'a1 list

val zprod : z list -> z

val zsum : z list -> z

val list_eqb : ('a1 -> 'a1 -> bool) -> 'a1 list -> 'a1 list -> bool

val bytes_eqb : z list -> z list -> bool

val zip : 'a1 list -> 'a2 list -> ('a1 * 'a2) list

val last_opt : 'a1 list -> 'a1 option

val pNC_ARRAY_GROWBY : z

val mIN_NC_XSZ : z

val x_ALIGN : z

val nC_MAX_NAME : z

val nC_MAX_INT : z

val nC_MAX_UINT : z

val nC_MAX_INT64 : z

val nC_DIMENSION_TAG : z

val nC_VARIABLE_TAG : z

val nC_ATTRIBUTE_TAG : z

val nC_NOERR : z

val nC_EMAXDIMS : z

val nC_EMAXATTS : z

val nC_EBADTYPE : z

val nC_EBADDIM : z

val nC_EUNLIMPOS : z

val nC_EMAXVARS : z

val nC_ENOTNC : z

val nC_EMAXNAME : z

val nC_EUNLIMIT : z

val nC_ENOMEM : z

val nC_EVARSIZE : z

val nC_EFILE : z

val nC_ENOTBUILT : z

val xlen_type : z -> z

val valid_type : z -> z -> bool

type dim = { d_name : byte list; d_size : z }

type att = { a_name : byte list; a_type : z; a_nelems : z; a_data : byte list }

type var = { v_name : byte list; v_dimids : z list; v_atts : att list;
             v_type : z; v_begin : z; v_nofill : bool }

type hdr = { h_format : z; h_numrecs : z; h_dims : dim list;
             h_gatts : att list; h_vars : var list }

val dim_size : dim list -> z -> z

val var_shape : dim list -> var -> z list

val is_recvar : dim list -> var -> bool

val var_nelems_per_rec : z list -> z

val var_len_of : z -> z list -> z

val var_len : dim list -> var -> z

val sz_nn : z -> z

val sz_off : z -> z

val len_att : z -> att -> z

val len_attarray : z -> att list -> z

val len_dim : z -> dim -> z

val len_var : z -> var -> z

val hdr_len : hdr -> z

val check_vlen_loop : z list -> z -> z -> bool

val check_vlen : z -> z list -> z -> bool

val vlen_max_of : z -> z

val vlens_pass :
  z -> z -> ((bool * z) * z list) list -> bool -> z -> bool -> z ->
  ((z * bool) * z) option

val var_triple : dim list -> var -> (bool * z) * z list

val check_vlens : hdr -> z

type layout = { l_xsz : z; l_begin_var : z; l_begin_rec : z; l_recsize : 
                z; l_begins : z list }

type 'a parser0 = byte list -> ('a * byte list) option

val p_u32 : z parser0

val p_u64 : z parser0

val p_nn : z -> z parser0

val p_bytes : z -> byte list parser0

val p_padded : z -> (byte list * byte list) parser0

val p_name : z -> (byte list * byte list) parser0

val p_many : 'a1 parser0 -> nat -> 'a1 list parser0

val p_list : z -> z -> 'a1 parser0 -> 'a1 list parser0

type dec_dim = { dd_dim : dim; dd_pad : byte list }

type dec_att = { da_att : att; da_pad : byte list }

type dec_var = { dv_var : var; dv_vsize : z; dv_pad : byte list;
                 dv_atts : dec_att list }

val p_dim : z -> dec_dim parser0

val p_att : z -> dec_att parser0

val p_var : z -> dec_var parser0

type decoded = { dc_hdr : hdr; dc_dims : dec_dim list;
                 dc_gatts : dec_att list; dc_vars : dec_var list; dc_len : 
                 z }

val decode : byte list -> decoded option

val layout_of_hdr : hdr -> z -> layout

type site =
| S_rndup_int
| S_attr_xlen
| S_attrV_mul
| S_attr_memcpy_null
| S_var_calloc_null
| S_shape_product
| S_check_vlen_mul
| S_div_zero
| S_len
| S_recsize
| S_begin_len
| S_hdr_len

type 'a res =
| Ok of 'a
| Err of z
| Crash of site

val rbind : 'a1 res -> ('a1 -> 'a2 res) -> 'a2 res

type acct = { ac_alloc : z; ac_maxreq : z; ac_nalloc : z }

val i64_MAX : z

val i64_MIN : z

val tWO64 : z

val iNT_MAX : z

val nC_ENOTNC3 : z

val nC_MAX_DIMS : z

val nC_MAX_ATTRS : z

val nC_MAX_VARS : z

val nC_MAX_VAR_DIMS : z

val sZ_NC_DIM : z

val sZ_NC_ATTR : z

val sZ_NC_VAR : z

val in_i64 : z -> bool

val chk : site -> z -> z res

val to_i64 : z -> z

val take_z : z -> byte list -> byte list

type 's src = { g32 : ('s -> z * 's); g64 : ('s -> z * 's);
                gbytes : (z -> 's -> byte list * 's); gskip : (z -> 's -> 's) }

type 's pst = 's * acct

type ('s, 'a) p = 's pst -> 'a res * 's pst

val ret : 'a2 -> ('a1, 'a2) p

val fail : z -> ('a1, 'a2) p

val crash : site -> ('a1, 'a2) p

val bind : ('a1, 'a2) p -> ('a2 -> ('a1, 'a3) p) -> ('a1, 'a3) p

val lift : ('a1 -> 'a2 * 'a1) -> ('a1, 'a2) p

val lift_ : ('a1 -> 'a1) -> ('a1, unit) p

val pure : 'a2 res -> ('a1, 'a2) p

val alloc : z -> z -> ('a1, bool) p

val iter_p : positive -> ('a2 -> ('a1, 'a2) p) -> 'a2 -> ('a1, 'a2) p

val iter_n : z -> ('a2 -> ('a1, 'a2) p) -> 'a2 -> ('a1, 'a2) p

val rd_nn : 'a1 src -> z -> ('a1, z) p

val rd_name : 'a1 src -> z -> z -> ('a1, byte list) p

val rd_dim : 'a1 src -> z -> z -> z -> ('a1, dim) p

val rndup_int : z -> ('a1, z) p

val rd_dimarray : 'a1 src -> z -> z -> ('a1, dim list) p

val rd_type : 'a1 src -> z -> ('a1, z) p

val attr_xsz : z -> z -> z res

val rd_att : 'a1 src -> z -> z -> ('a1, att) p

val rd_attarray : 'a1 src -> z -> z -> ('a1, att list) p

val rd_var : 'a1 src -> z -> z -> z -> ('a1, var * bool) p

val rd_vararray : 'a1 src -> z -> z -> z -> ('a1, (var * bool) list) p

val cvlen_loop : z list -> z -> z -> bool res

val shape_isrec : z list -> bool

val cvlen : z -> z list -> z -> bool res

val shape_prod : z list -> z -> z res

val var_product : z list -> z res

val unlimpos_bad : z list -> bool

val var_shape64 : dim list -> var -> bool -> ((z list * z) * z) res

val cvs_loop :
  dim list -> (var * bool) list -> z -> z -> z option -> ((z * z) * z) option
  -> z list -> ((((z * z) * z option) * ((z * z) * z) option) * z list) res

val compute_var_shape :
  z -> dim list -> (var * bool) list -> (((z * z) * z) * z list) res

val rvl_pass :
  z -> z -> (z * z list) list -> bool -> z -> bool -> (z * bool) option res

val rd_check_vlens : z -> (z * z list) list -> z res

val voffs_pass : ((bool * z) * z) list -> bool -> z -> z option res

val rd_check_voffs : z -> z -> ((bool * z) * z) list -> z res

type opened = { o_hdr : hdr; o_lay : layout; o_lens : z list; o_nrec : z }

val post_open : hdr -> bool list -> opened res

val hdf5_sig : byte list

val hdr_get_NC : 'a1 src -> z -> ('a1, opened) p

type cst = { c_chunk : z; c_pos : z; c_tail : byte list; c_off : z;
             c_rest : byte list; c_getsize : z; c_fetches : z }

val c_fetch : cst -> cst

val c_adv : z -> cst -> cst

val c_need : z -> cst -> cst

val c_g32 : cst -> z * cst

val c_g64 : cst -> z * cst

val c_copy : nat -> z -> byte list list -> cst -> byte list list * cst

val c_gbytes : z -> cst -> byte list * cst

val c_gskip : z -> cst -> cst

val csrc : cst src

val norm_chunk : z -> z

val c_init : z -> byte list -> cst

val acct0 : acct

val read_header : z -> z -> byte list -> opened res * (cst * acct)

val f_g32 : byte list -> z * byte list

val f_g64 : byte list -> z * byte list

val f_gbytes : z -> byte list -> byte list * byte list

val f_gskip : z -> byte list -> byte list

val fsrc : byte list src

val read_header_flat : z -> byte list -> opened res * (byte list * acct)

val hdf5_probe : nat -> byte list -> z -> bool

val inq_file_format : byte list -> z res

type outcome = { out_res : opened res; out_fetches : z; out_offset : 
                 z; out_getsize : z; out_acct : acct }

val open_model : z -> z -> byte list -> outcome

val open_flat : z -> byte list -> opened res

val att_req : att -> z

val list_req : z -> z

val var_req : var -> z

val hdr_req : hdr -> z

val name_ok : byte list -> bool

val att_ok : att -> bool

val order_ok : z -> (z * z) list -> z option

val c04_valid : z -> decoded -> bool

val expected_open : decoded -> opened

val consistent : opened -> bool

val u32 : z -> byte list

val u64 : z -> byte list

val nm1 : z -> byte list

val nm5 : z -> byte list

val absent1 : byte list

val absent5 : byte list

val w_rndup_int : byte list

val w_attr_null : byte list

val w_attrV_mul : byte list

val w_attr_xlen : byte list

val w_shape_product : byte list

val w_var_calloc : byte list

val w_check_vlen : byte list

val w_begin_len : byte list

val w_numrecs_neg : byte list

val w_dim_neg : byte list

val w_alloc_dims : byte list

val w_read_zeros : byte list
