(* Properties_C16.v — statements only: each property theorem is stated in full and closed by
   `exact <lemma>`; the lemmas live in the Proofs_*.v files.  Assembled by tools/mkprops.py. *)
(* C16 Fill-value semantics: for ALL variable lengths and process counts the per-rank shares tile the *)
(* variable exactly; the fill plan at enddef addresses exactly the new fill-mode variables (and their slices *)
(* of the existing records), each element once; no byte outside those extents changes. *)
From Coq Require Import ZArith List.
From Pnc Require Import Proofs_Fill.
From Pnc Require Import Proofs_Exec.
Set Printing Width 100.
Set Printing Depth 100000.

Theorem C16_fill_share_partition :
  forall nprocs var_len : Z,
         (1 <= nprocs)%Z ->
         (0 <= var_len)%Z ->
         (forall r : Z, (0 <= snd (Fill.fill_share nprocs r var_len))%Z) /\
         fst (Fill.fill_share nprocs 0 var_len) = 0%Z /\
         (forall r : Z,
          (0 <= r < nprocs - 1)%Z ->
          fst (Fill.fill_share nprocs (r + 1) var_len) =
          (fst (Fill.fill_share nprocs r var_len) + snd (Fill.fill_share nprocs r var_len))%Z) /\
         (fst (Fill.fill_share nprocs (nprocs - 1) var_len) +
          snd (Fill.fill_share nprocs (nprocs - 1) var_len))%Z = var_len.
Proof. exact @fill_share_partition. Qed.
Print Assumptions C16_fill_share_partition.

Theorem C16_fill_share_exact_cover :
  forall nprocs var_len : Z,
         (1 <= nprocs)%Z ->
         (0 <= var_len)%Z ->
         (forall r : Z,
          (0 <= r < nprocs)%Z ->
          (0 <= fst (Fill.fill_share nprocs r var_len))%Z /\
          (fst (Fill.fill_share nprocs r var_len) + snd (Fill.fill_share nprocs r var_len) <= var_len)%Z) /\
         (forall e : Z,
          (0 <= e < var_len)%Z ->
          exists r : Z,
            ((0 <= r < nprocs)%Z /\
             (fst (Fill.fill_share nprocs r var_len) <= e <
              fst (Fill.fill_share nprocs r var_len) + snd (Fill.fill_share nprocs r var_len))%Z) /\
            (forall r' : Z,
             (0 <= r' < nprocs)%Z ->
             (fst (Fill.fill_share nprocs r' var_len) <= e <
              fst (Fill.fill_share nprocs r' var_len) + snd (Fill.fill_share nprocs r' var_len))%Z ->
             r' = r)).
Proof. exact @fill_share_exact_cover. Qed.
Print Assumptions C16_fill_share_exact_cover.

Theorem C16_fill_plan_only_new_fillmode :
  forall (h : Header.hdr) (lay : Header.layout) (sv nrecs np r off c : Z) (v : Header.var),
         In (off, c, v) (Fill.fill_plan h lay sv nrecs np r) ->
         In v (Base.zskipn sv (Header.h_vars h)) /\ Header.v_nofill v = false.
Proof. exact @fill_plan_only_new_fillmode. Qed.
Print Assumptions C16_fill_plan_only_new_fillmode.

Theorem C16_fill_plan_fixed_cover :
  forall (h : Header.hdr) (lay : Header.layout) (sv nrecs np : Z) (v : Header.var) (e : Z),
         (1 <= np)%Z ->
         In v (Base.zskipn sv (Header.h_vars h)) ->
         Header.v_nofill v = false ->
         Header.is_recvar (Header.h_dims h) v = false ->
         (0 < vxsz v)%Z ->
         (0 <= e < nelems h v)%Z ->
         exists r st c : Z,
           ((0 <= r < np)%Z /\
            In ((Header.v_begin v + st * vxsz v)%Z, c, v) (Fill.fill_plan h lay sv nrecs np r) /\
            (st <= e < st + c)%Z) /\
           (forall r' st' c' : Z,
            (0 <= r' < np)%Z ->
            In ((Header.v_begin v + st' * vxsz v)%Z, c', v) (Fill.fill_plan h lay sv nrecs np r') ->
            (st' <= e < st' + c')%Z -> r' = r /\ st' = st /\ c' = c).
Proof. exact @fill_plan_fixed_cover. Qed.
Print Assumptions C16_fill_plan_fixed_cover.

Theorem C16_fill_plan_rec_cover :
  forall (h : Header.hdr) (lay : Header.layout) (sv nrecs np : Z) 
           (v : Header.var) (recno e : Z),
         (1 <= np)%Z ->
         In v (Base.zskipn sv (Header.h_vars h)) ->
         Header.v_nofill v = false ->
         Header.is_recvar (Header.h_dims h) v = true ->
         (0 < vxsz v)%Z ->
         (nelems h v * vxsz v <= Header.l_recsize lay)%Z ->
         (0 <= recno < nrecs)%Z ->
         (0 <= e < nelems h v)%Z ->
         exists r st c : Z,
           ((0 <= r < np)%Z /\
            In ((Header.v_begin v + Header.l_recsize lay * recno + st * vxsz v)%Z, c, v)
              (Fill.fill_plan h lay sv nrecs np r) /\ (st <= e < st + c)%Z) /\
           (forall r' st' c' : Z,
            (0 <= r' < np)%Z ->
            In ((Header.v_begin v + Header.l_recsize lay * recno + st' * vxsz v)%Z, c', v)
              (Fill.fill_plan h lay sv nrecs np r') ->
            (st' <= e < st' + c')%Z -> r' = r /\ st' = st /\ c' = c).
Proof. exact @fill_plan_rec_cover. Qed.
Print Assumptions C16_fill_plan_rec_cover.

Theorem C16_do_fill_frame :
  forall (d : Disk.disk) (h : Header.hdr) (lay : Header.layout) (sv nrecs np x : Z),
         (forall (r off c : Z) (v : Header.var),
          (0 <= r < np)%Z ->
          In (off, c, v) (Fill.fill_plan h lay sv nrecs np r) ->
          ~ (off <= x < off + c * Base.Zlen (Fill.var_fill_bytes v))%Z) ->
         Disk.dk_get (Fill.do_fill d h lay sv nrecs np) x = Disk.dk_get d x.
Proof. exact @do_fill_frame. Qed.
Print Assumptions C16_do_fill_frame.

Theorem C16_do_fill_frame_extent :
  forall (d : Disk.disk) (h : Header.hdr) (lay : Header.layout) (sv nrecs np x : Z),
         (1 <= np)%Z ->
         (forall v : Header.var,
          In v (Base.zskipn sv (Header.h_vars h)) ->
          Header.v_nofill v = false ->
          vxsz v = Base.Zlen (Fill.var_fill_bytes v) /\ ~ in_fill_extent h lay nrecs v x) ->
         Disk.dk_get (Fill.do_fill d h lay sv nrecs np) x = Disk.dk_get d x.
Proof. exact @do_fill_frame_extent. Qed.
Print Assumptions C16_do_fill_frame_extent.

Theorem C16_do_fill_writes_fill :
  forall (d : Disk.disk) (h : Header.hdr) (lay : Header.layout) (sv nrecs np : Z)
           (v : Header.var) (e : Z),
         (1 <= np)%Z ->
         In v (Base.zskipn sv (Header.h_vars h)) ->
         Header.v_nofill v = false ->
         Header.is_recvar (Header.h_dims h) v = false ->
         (0 < vxsz v)%Z ->
         Base.Zlen (Fill.var_fill_bytes v) = vxsz v ->
         (0 <= e < nelems h v)%Z ->
         (forall (r off c : Z) (v' : Header.var),
          (0 <= r < np)%Z ->
          In (off, c, v') (Fill.fill_plan h lay sv nrecs np r) ->
          v' = v \/
          (off + c * Base.Zlen (Fill.var_fill_bytes v') <= Header.v_begin v)%Z \/
          (Header.v_begin v + nelems h v * vxsz v <= off)%Z) ->
         Disk.dk_read (Fill.do_fill d h lay sv nrecs np) (Header.v_begin v + e * vxsz v) (vxsz v) =
         Fill.var_fill_bytes v.
Proof. exact @do_fill_writes_fill. Qed.
Print Assumptions C16_do_fill_writes_fill.

Theorem C16_exec_enddef_fill_reads_fill :
  forall (w : Exec.world) (id : Z) (f : Exec.filest) (ea : Header.enddef_args)
           (w' : Exec.world),
         Exec.f_old f = None ->
         Exec.f_indef f = true ->
         Exec.f_isnew f = true ->
         Header.l_begin_rec (Exec.f_lay f) = 0%Z ->
         Proofs_Layout.hdr_wf (Exec.f_hdr f) ->
         (0 <= Header.env_h_align (Exec.f_align f))%Z ->
         (0 <= Header.env_v_align (Exec.f_align f))%Z ->
         (0 <= Header.env_r_align (Exec.f_align f))%Z ->
         (0 <= Exec.f_slot f < Base.Zlen (Exec.w_disks w))%Z ->
         (0 <= id < Base.Zlen (Exec.w_files w))%Z ->
         (1 <= Exec.w_nprocs w)%Z ->
         Exec.do_enddef w id f ea = Some (w', Gen_consts.NC_NOERR) ->
         exists lay : Header.layout,
           let f'' := Proofs_Exec2.enddef_file f lay in
           Base.znth (Exec.w_files w') id None = Some f'' /\
           (Proofs_Header.wf_hdr (Exec.f_hdr f'') = true ->
            forall (rank : Z) (coll : bool) (a : Exec.access) (r : Exec.rreq),
            get_accepted w' f'' rank coll a r ->
            let v := Exec.the_var f'' a in
            Header.v_nofill v = false ->
            Header.is_recvar (Header.h_dims (Exec.f_hdr f'')) v = false ->
            Forall byte_ok (Fill.var_fill_bytes v) ->
            Exec.get_rank_op w' f'' rank coll a =
            (Gen_consts.NC_NOERR,
             Exec.THex
               (Exec.guard_bytes ++
                concat
                  (repeat (Data.mem_of_be (Fill.var_fill_bytes v)) (Z.to_nat (Exec.nelems_of r))) ++
                Exec.guard_bytes) :: nil)).
Proof. exact @enddef_fill_reads_fill. Qed.
Print Assumptions C16_exec_enddef_fill_reads_fill.
