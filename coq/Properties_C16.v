(* Properties_C16.v — statements only: each property theorem is stated in full and closed by
   `exact <lemma>`; the lemmas live in the Proofs_*.v files.  Assembled by tools/mkprops.py. *)
(* C16 Fill-value semantics: for ALL variable lengths and process counts the per-rank shares tile the *)
(* variable exactly; the fill plan at enddef addresses exactly the new fill-mode variables (and their slices *)
(* of the existing records), each element once; no byte outside those extents changes. *)
From Pnc Require Import Proofs_Fill.
Set Printing Width 100.

Theorem C16_fill_share_partition :
  forall nprocs var_len : BinNums.Z,
         BinInt.Z.le (BinNums.Zpos BinNums.xH) nprocs ->
         BinInt.Z.le BinNums.Z0 var_len ->
         (forall r : BinNums.Z, BinInt.Z.le BinNums.Z0 (snd (Fill.fill_share nprocs r var_len))) /\
         fst (Fill.fill_share nprocs BinNums.Z0 var_len) = BinNums.Z0 /\
         (forall r : BinNums.Z,
          BinInt.Z.le BinNums.Z0 r /\ BinInt.Z.lt r (BinInt.Z.sub nprocs (BinNums.Zpos BinNums.xH)) ->
          fst (Fill.fill_share nprocs (BinInt.Z.add r (BinNums.Zpos BinNums.xH)) var_len) =
          BinInt.Z.add (fst (Fill.fill_share nprocs r var_len))
            (snd (Fill.fill_share nprocs r var_len))) /\
         BinInt.Z.add
           (fst (Fill.fill_share nprocs (BinInt.Z.sub nprocs (BinNums.Zpos BinNums.xH)) var_len))
           (snd (Fill.fill_share nprocs (BinInt.Z.sub nprocs (BinNums.Zpos BinNums.xH)) var_len)) =
         var_len.
Proof. exact @fill_share_partition. Qed.
Print Assumptions C16_fill_share_partition.

Theorem C16_fill_share_exact_cover :
  forall nprocs var_len : BinNums.Z,
         BinInt.Z.le (BinNums.Zpos BinNums.xH) nprocs ->
         BinInt.Z.le BinNums.Z0 var_len ->
         (forall r : BinNums.Z,
          BinInt.Z.le BinNums.Z0 r /\ BinInt.Z.lt r nprocs ->
          BinInt.Z.le BinNums.Z0 (fst (Fill.fill_share nprocs r var_len)) /\
          BinInt.Z.le
            (BinInt.Z.add (fst (Fill.fill_share nprocs r var_len))
               (snd (Fill.fill_share nprocs r var_len))) var_len) /\
         (forall e : BinNums.Z,
          BinInt.Z.le BinNums.Z0 e /\ BinInt.Z.lt e var_len ->
          exists r : BinNums.Z,
            ((BinInt.Z.le BinNums.Z0 r /\ BinInt.Z.lt r nprocs) /\
             BinInt.Z.le (fst (Fill.fill_share nprocs r var_len)) e /\
             BinInt.Z.lt e
               (BinInt.Z.add (fst (Fill.fill_share nprocs r var_len))
                  (snd (Fill.fill_share nprocs r var_len)))) /\
            (forall r' : BinNums.Z,
             BinInt.Z.le BinNums.Z0 r' /\ BinInt.Z.lt r' nprocs ->
             BinInt.Z.le (fst (Fill.fill_share nprocs r' var_len)) e /\
             BinInt.Z.lt e
               (BinInt.Z.add (fst (Fill.fill_share nprocs r' var_len))
                  (snd (Fill.fill_share nprocs r' var_len))) -> r' = r)).
Proof. exact @fill_share_exact_cover. Qed.
Print Assumptions C16_fill_share_exact_cover.

Theorem C16_fill_plan_only_new_fillmode :
  forall (h : Header.hdr) (lay : Header.layout) (sv nrecs np r off c : BinNums.Z)
           (v : Header.var),
         List.In (off, c, v) (Fill.fill_plan h lay sv nrecs np r) ->
         List.In v (Base.zskipn sv (Header.h_vars h)) /\ Header.v_nofill v = false.
Proof. exact @fill_plan_only_new_fillmode. Qed.
Print Assumptions C16_fill_plan_only_new_fillmode.

Theorem C16_fill_plan_fixed_cover :
  forall (h : Header.hdr) (lay : Header.layout) (sv nrecs np : BinNums.Z) 
           (v : Header.var) (e : BinNums.Z),
         BinInt.Z.le (BinNums.Zpos BinNums.xH) np ->
         List.In v (Base.zskipn sv (Header.h_vars h)) ->
         Header.v_nofill v = false ->
         Header.is_recvar (Header.h_dims h) v = false ->
         BinInt.Z.lt BinNums.Z0 (vxsz v) ->
         BinInt.Z.le BinNums.Z0 e /\ BinInt.Z.lt e (nelems h v) ->
         exists r st c : BinNums.Z,
           ((BinInt.Z.le BinNums.Z0 r /\ BinInt.Z.lt r np) /\
            List.In (BinInt.Z.add (Header.v_begin v) (BinInt.Z.mul st (vxsz v)), c, v)
              (Fill.fill_plan h lay sv nrecs np r) /\
            BinInt.Z.le st e /\ BinInt.Z.lt e (BinInt.Z.add st c)) /\
           (forall r' st' c' : BinNums.Z,
            BinInt.Z.le BinNums.Z0 r' /\ BinInt.Z.lt r' np ->
            List.In (BinInt.Z.add (Header.v_begin v) (BinInt.Z.mul st' (vxsz v)), c', v)
              (Fill.fill_plan h lay sv nrecs np r') ->
            BinInt.Z.le st' e /\ BinInt.Z.lt e (BinInt.Z.add st' c') -> r' = r /\ st' = st /\ c' = c).
Proof. exact @fill_plan_fixed_cover. Qed.
Print Assumptions C16_fill_plan_fixed_cover.

Theorem C16_fill_plan_rec_cover :
  forall (h : Header.hdr) (lay : Header.layout) (sv nrecs np : BinNums.Z) 
           (v : Header.var) (recno e : BinNums.Z),
         BinInt.Z.le (BinNums.Zpos BinNums.xH) np ->
         List.In v (Base.zskipn sv (Header.h_vars h)) ->
         Header.v_nofill v = false ->
         Header.is_recvar (Header.h_dims h) v = true ->
         BinInt.Z.lt BinNums.Z0 (vxsz v) ->
         BinInt.Z.le (BinInt.Z.mul (nelems h v) (vxsz v)) (Header.l_recsize lay) ->
         BinInt.Z.le BinNums.Z0 recno /\ BinInt.Z.lt recno nrecs ->
         BinInt.Z.le BinNums.Z0 e /\ BinInt.Z.lt e (nelems h v) ->
         exists r st c : BinNums.Z,
           ((BinInt.Z.le BinNums.Z0 r /\ BinInt.Z.lt r np) /\
            List.In
              (BinInt.Z.add
                 (BinInt.Z.add (Header.v_begin v) (BinInt.Z.mul (Header.l_recsize lay) recno))
                 (BinInt.Z.mul st (vxsz v)), c, v) (Fill.fill_plan h lay sv nrecs np r) /\
            BinInt.Z.le st e /\ BinInt.Z.lt e (BinInt.Z.add st c)) /\
           (forall r' st' c' : BinNums.Z,
            BinInt.Z.le BinNums.Z0 r' /\ BinInt.Z.lt r' np ->
            List.In
              (BinInt.Z.add
                 (BinInt.Z.add (Header.v_begin v) (BinInt.Z.mul (Header.l_recsize lay) recno))
                 (BinInt.Z.mul st' (vxsz v)), c', v) (Fill.fill_plan h lay sv nrecs np r') ->
            BinInt.Z.le st' e /\ BinInt.Z.lt e (BinInt.Z.add st' c') -> r' = r /\ st' = st /\ c' = c).
Proof. exact @fill_plan_rec_cover. Qed.
Print Assumptions C16_fill_plan_rec_cover.

Theorem C16_do_fill_frame :
  forall (d : Disk.disk) (h : Header.hdr) (lay : Header.layout) (sv nrecs np x : BinNums.Z),
         (forall (r off c : BinNums.Z) (v : Header.var),
          BinInt.Z.le BinNums.Z0 r /\ BinInt.Z.lt r np ->
          List.In (off, c, v) (Fill.fill_plan h lay sv nrecs np r) ->
          ~
          (BinInt.Z.le off x /\
           BinInt.Z.lt x (BinInt.Z.add off (BinInt.Z.mul c (Base.Zlen (Fill.var_fill_bytes v)))))) ->
         Disk.dk_get (Fill.do_fill d h lay sv nrecs np) x = Disk.dk_get d x.
Proof. exact @do_fill_frame. Qed.
Print Assumptions C16_do_fill_frame.

Theorem C16_do_fill_frame_extent :
  forall (d : Disk.disk) (h : Header.hdr) (lay : Header.layout) (sv nrecs np x : BinNums.Z),
         BinInt.Z.le (BinNums.Zpos BinNums.xH) np ->
         (forall v : Header.var,
          List.In v (Base.zskipn sv (Header.h_vars h)) ->
          Header.v_nofill v = false ->
          vxsz v = Base.Zlen (Fill.var_fill_bytes v) /\ ~ in_fill_extent h lay nrecs v x) ->
         Disk.dk_get (Fill.do_fill d h lay sv nrecs np) x = Disk.dk_get d x.
Proof. exact @do_fill_frame_extent. Qed.
Print Assumptions C16_do_fill_frame_extent.

Theorem C16_do_fill_writes_fill :
  forall (d : Disk.disk) (h : Header.hdr) (lay : Header.layout) (sv nrecs np : BinNums.Z)
           (v : Header.var) (e : BinNums.Z),
         BinInt.Z.le (BinNums.Zpos BinNums.xH) np ->
         List.In v (Base.zskipn sv (Header.h_vars h)) ->
         Header.v_nofill v = false ->
         Header.is_recvar (Header.h_dims h) v = false ->
         BinInt.Z.lt BinNums.Z0 (vxsz v) ->
         Base.Zlen (Fill.var_fill_bytes v) = vxsz v ->
         BinInt.Z.le BinNums.Z0 e /\ BinInt.Z.lt e (nelems h v) ->
         (forall (r off c : BinNums.Z) (v' : Header.var),
          BinInt.Z.le BinNums.Z0 r /\ BinInt.Z.lt r np ->
          List.In (off, c, v') (Fill.fill_plan h lay sv nrecs np r) ->
          v' = v \/
          BinInt.Z.le (BinInt.Z.add off (BinInt.Z.mul c (Base.Zlen (Fill.var_fill_bytes v'))))
            (Header.v_begin v) \/
          BinInt.Z.le (BinInt.Z.add (Header.v_begin v) (BinInt.Z.mul (nelems h v) (vxsz v))) off) ->
         Disk.dk_read (Fill.do_fill d h lay sv nrecs np)
           (BinInt.Z.add (Header.v_begin v) (BinInt.Z.mul e (vxsz v))) (vxsz v) =
         Fill.var_fill_bytes v.
Proof. exact @do_fill_writes_fill. Qed.
Print Assumptions C16_do_fill_writes_fill.
