(* Proofs_GenBeginsRedef.v — NC_begins as generated (Gen_begins.v) when a saved old header exists
   (ncp->old != NULL, i.e. enddef after redef), against Header.begins_fixed / begins_rec with the old begins. *)
From Pnc Require Import Base Gen_consts Header CSub Gen_begins Proofs_CSub Proofs_GenBegins.
Require Import String.
Require Import Lia ZArith ZifyBool List Bool.
Import ListNotations.
Local Open Scope Z_scope.
Ltac Zify.zify_post_hook ::= Z.div_mod_to_equations.

(* an old variable as NC_begins reads it: is it a record variable, its begin *)
Definition cv_old (p : bool * Z) : c_NC_var :=
  {| NC_var__begin := snd p; NC_var__dsizes := None; NC_var__len := 0;
     NC_var__shape := if fst p then Some ([0], 0) else None; NC_var__xsz := 0 |}.
Lemma cv_isrec_old : forall p, cv_isrec (cv_old p) = fst p.
Proof. intros [[|] b]; reflexivity. Qed.
Lemma cv_wf_old : forall p, cv_wf (cv_old p).
Proof. intros [[|] b]; reflexivity. Qed.

(* the view of ncp->old *)
Definition c_old (ovs : list (bool * Z)) (obv obr : Z) : c_NC__old :=
  {| NC__old__begin_rec := obr; NC__old__begin_var := obv;
     NC__old__vars := {| NC_vararray__ndefined := Zlen ovs; NC_vararray__value := Some (map cv_old ovs, 0) |} |}.

Fixpoint drop_rec (l : list (bool * Z)) : list (bool * Z) :=
  match l with (true, _) :: t => drop_rec t | _ => l end.
Fixpoint drop_fix (l : list (bool * Z)) : list (bool * Z) :=
  match l with (false, _) :: t => drop_fix t | _ => l end.

Lemma drop_rec_len : forall l, Zlen (drop_rec l) <= Zlen l.
Proof. induction l as [|[[|] b] t IH]; cbn [drop_rec]; rewrite ?cs_Zlen_cons; lia. Qed.
Lemma drop_fix_len : forall l, Zlen (drop_fix l) <= Zlen l.
Proof. induction l as [|[[|] b] t IH]; cbn [drop_fix]; rewrite ?cs_Zlen_cons; lia. Qed.

Section Cursor.
Variables (p0 : c_NC) (xsz : Z) (ovs : list (bool * Z)) (obv obr : Z).
Hypothesis Hno : Zlen ovs <= 2147483647.

(* the cursor loop of the first pass: skip old record variables *)
Lemma gb_loop2 : forall l pre s fuel,
  ovs = pre ++ l -> NC__old (NC_begins__P_ncp s) = Some (c_old ovs obv obr) ->
  NC_begins__j s = Zlen pre -> (Datatypes.length l < fuel)%nat ->
  c_loop fuel (NC_begins_loop2_cdef p0 xsz) (NC_begins_loop2_cond p0 xsz)
              (NC_begins_loop2_body p0 xsz) (NC_begins_loop2_inc p0 xsz) s
  = CNorm (set_NC_begins__j (Zlen ovs - Zlen (drop_rec l)) s).
Proof.
  induction l as [|[r b] t IH]; intros pre s fuel Ho Hold Hj Hf.
  - destruct fuel as [|f]; [cbn in Hf; lia|].
    rewrite app_nil_r in Ho. subst pre.
    rewrite c_loop_exit.
    + cbn [drop_rec]. rewrite cs_Zlen_nil, Z.sub_0_r, <- Hj. destruct s; reflexivity.
    + unfold NC_begins_loop2_cdef. rewrite Hold. reflexivity.
    + unfold NC_begins_loop2_cond. rewrite Hold, Hj. cbn [o_get c_old NC__old__vars NC_vararray__ndefined]. lia.
  - destruct fuel as [|f]; [cbn in Hf; lia|].
    assert (Hlen : Zlen ovs = Zlen pre + 1 + Zlen t) by (rewrite Ho, cs_Zlen_app, cs_Zlen_cons; lia).
    pose proof (cs_Zlen_nonneg _ pre) as Hp0. pose proof (cs_Zlen_nonneg _ t) as Ht0.
    rewrite c_loop_iter;
      [ | unfold NC_begins_loop2_cdef; rewrite Hold; reflexivity
        | unfold NC_begins_loop2_cond; rewrite Hold, Hj; cbn [o_get c_old NC__old__vars NC_vararray__ndefined]; lia ].
    unfold NC_begins_loop2_body at 1. rewrite Hold, Hj.
    cbn [o_ok o_get c_old NC__old__vars NC_vararray__value andb].
    assert (Hok : p_ok (Some (map cv_old ovs, 0)) (Zlen pre) = true) by (apply p_ok_some; rewrite cs_Zlen_map; lia).
    assert (Hget : p_get c_NC_var_default (Some (map cv_old ovs, 0)) (Zlen pre) = cv_old (r, b)).
    { rewrite p_get_some, Z.add_0_l, Ho, map_app. cbn [map]. rewrite <- (cs_Zlen_map _ _ cv_old pre).
      apply cs_znth_app_Zlen. }
    rewrite !Hok, !Hget. cbn [andb]. rewrite (cv_wf_old (r, b)). cbn [c_chk].
    fold (cv_isrec (cv_old (r, b))). rewrite cv_isrec_old. cbn [fst drop_rec].
    destruct r; cbn [negb].
    + unfold NC_begins_loop2_inc at 1. rewrite Hj.
      assert (Hi : in_i32 (Zlen pre + 1) = true) by (apply in_i32_iff; lia).
      rewrite Hi. cbn [c_chk c_bind].
      rewrite (IH (pre ++ [(true, b)]) (set_NC_begins__j (Zlen pre + 1) s) f).
      * destruct s; reflexivity.
      * rewrite <- app_assoc. exact Ho.
      * destruct s; exact Hold.
      * destruct s. cbn. rewrite cs_Zlen_app, cs_Zlen_cons, cs_Zlen_nil. lia.
      * cbn [Datatypes.length] in Hf. lia.
    + rewrite cs_Zlen_cons. replace (Zlen ovs - (1 + Zlen t)) with (Zlen pre) by lia.
      rewrite <- Hj. destruct s; reflexivity.
Qed.
(* the cursor loop of the second pass: skip old fixed-size variables *)
Lemma gb_loop4 : forall l pre s fuel,
  ovs = pre ++ l -> NC__old (NC_begins__P_ncp s) = Some (c_old ovs obv obr) ->
  NC_begins__j s = Zlen pre -> (Datatypes.length l < fuel)%nat ->
  c_loop fuel (NC_begins_loop4_cdef p0 xsz) (NC_begins_loop4_cond p0 xsz)
              (NC_begins_loop4_body p0 xsz) (NC_begins_loop4_inc p0 xsz) s
  = CNorm (set_NC_begins__j (Zlen ovs - Zlen (drop_fix l)) s).
Proof.
  induction l as [|[r b] t IH]; intros pre s fuel Ho Hold Hj Hf.
  - destruct fuel as [|f]; [cbn in Hf; lia|].
    rewrite app_nil_r in Ho. subst pre.
    rewrite c_loop_exit.
    + cbn [drop_fix]. rewrite cs_Zlen_nil, Z.sub_0_r, <- Hj. destruct s; reflexivity.
    + unfold NC_begins_loop4_cdef. rewrite Hold. reflexivity.
    + unfold NC_begins_loop4_cond. rewrite Hold, Hj. cbn [o_get c_old NC__old__vars NC_vararray__ndefined]. lia.
  - destruct fuel as [|f]; [cbn in Hf; lia|].
    assert (Hlen : Zlen ovs = Zlen pre + 1 + Zlen t) by (rewrite Ho, cs_Zlen_app, cs_Zlen_cons; lia).
    pose proof (cs_Zlen_nonneg _ pre) as Hp0. pose proof (cs_Zlen_nonneg _ t) as Ht0.
    rewrite c_loop_iter;
      [ | unfold NC_begins_loop4_cdef; rewrite Hold; reflexivity
        | unfold NC_begins_loop4_cond; rewrite Hold, Hj; cbn [o_get c_old NC__old__vars NC_vararray__ndefined]; lia ].
    unfold NC_begins_loop4_body at 1. rewrite Hold, Hj.
    cbn [o_ok o_get c_old NC__old__vars NC_vararray__value andb].
    assert (Hok : p_ok (Some (map cv_old ovs, 0)) (Zlen pre) = true) by (apply p_ok_some; rewrite cs_Zlen_map; lia).
    assert (Hget : p_get c_NC_var_default (Some (map cv_old ovs, 0)) (Zlen pre) = cv_old (r, b)).
    { rewrite p_get_some, Z.add_0_l, Ho, map_app. cbn [map]. rewrite <- (cs_Zlen_map _ _ cv_old pre).
      apply cs_znth_app_Zlen. }
    rewrite !Hok, !Hget. cbn [andb]. rewrite (cv_wf_old (r, b)). cbn [c_chk].
    fold (cv_isrec (cv_old (r, b))). rewrite cv_isrec_old. cbn [fst drop_fix].
    destruct r.
    + rewrite cs_Zlen_cons. replace (Zlen ovs - (1 + Zlen t)) with (Zlen pre) by lia.
      rewrite <- Hj. destruct s; reflexivity.
    + unfold NC_begins_loop4_inc at 1. rewrite Hj.
      assert (Hi : in_i32 (Zlen pre + 1) = true) by (apply in_i32_iff; lia).
      rewrite Hi. cbn [c_chk c_bind].
      rewrite (IH (pre ++ [(false, b)]) (set_NC_begins__j (Zlen pre + 1) s) f).
      * destruct s; reflexivity.
      * rewrite <- app_assoc. exact Ho.
      * destruct s; exact Hold.
      * destruct s. cbn. rewrite cs_Zlen_app, cs_Zlen_cons, cs_Zlen_nil. lia.
      * cbn [Datatypes.length] in Hf. lia.
Qed.
End Cursor.

Lemma drop_rec_suffix : forall l, exists m, l = m ++ drop_rec l.
Proof.
  induction l as [|[[|] b] t [m IH]].
  - exists []. reflexivity.
  - exists ((true, b) :: m). cbn [drop_rec app]. rewrite <- IH. reflexivity.
  - exists []. reflexivity.
Qed.
Lemma drop_fix_suffix : forall l, exists m, l = m ++ drop_fix l.
Proof.
  induction l as [|[[|] b] t [m IH]].
  - exists []. reflexivity.
  - exists []. reflexivity.
  - exists ((false, b) :: m). cbn [drop_fix app]. rewrite <- IH. reflexivity.
Qed.

(* the first pass with the cursor over the old variables (ol = old variables not yet passed) *)
Fixpoint fix_pass_o (fmt : Z) (rest : list c_NC_var) (k ev : Z) (fv : c_ref) (ol : list (bool * Z))
  : list c_NC_var * Z * c_ref * Z * list (bool * Z) * bool :=
  match rest with
  | [] => ([], ev, fv, k, ol, true)
  | v :: r =>
      if cv_isrec v then
        let '(r', ev', fv', i', ol', ok) := fix_pass_o fmt r (k + 1) ev fv ol in (v :: r', ev', fv', i', ol', ok)
      else
        let fv1 := if r_isnull fv then Some k else fv in
        if (fmt =? 1) && (ev >? 2147483647) then (v :: r, ev, fv1, k, ol, false)
        else
          let b0 := rndup ev 4 in
          match drop_rec ol with
          | (_, ob) :: ol2 =>
              let b := if b0 <? ob then ob else b0 in
              let '(r', ev', fv', i', ol', ok) := fix_pass_o fmt r (k + 1) (b + NC_var__len v) fv1 ol2 in
              (set_NC_var__begin b v :: r', ev', fv', i', ol', ok)
          | [] =>
              let '(r', ev', fv', i', ol', ok) := fix_pass_o fmt r (k + 1) (b0 + NC_var__len v) fv1 [] in
              (set_NC_var__begin b0 v :: r', ev', fv', i', ol', ok)
          end
  end.

Fixpoint rec_pass_o (fmt : Z) (rest : list c_NC_var) (k ev rs : Z) (lastv : c_ref) (ol : list (bool * Z))
  : list c_NC_var * Z * Z * c_ref * Z * list (bool * Z) * bool :=
  match rest with
  | [] => ([], ev, rs, lastv, k, ol, true)
  | v :: r =>
      if negb (cv_isrec v) then
        let '(r', ev', rs', l', i', ol', ok) := rec_pass_o fmt r (k + 1) ev rs lastv ol in
        (v :: r', ev', rs', l', i', ol', ok)
      else
        if (fmt =? 1) && (ev >? 2147483647) then (v :: r, ev, rs, lastv, k, ol, false)
        else
          match drop_fix ol with
          | (_, ob) :: ol2 =>
              let b := if ev <? ob then ob else ev in
              let '(r', ev', rs', l', i', ol', ok) :=
                rec_pass_o fmt r (k + 1) (ev + NC_var__len v) (rs + NC_var__len v) (Some k) ol2 in
              (set_NC_var__begin b v :: r', ev', rs', l', i', ol', ok)
          | [] =>
              let '(r', ev', rs', l', i', ol', ok) :=
                rec_pass_o fmt r (k + 1) (ev + NC_var__len v) (rs + NC_var__len v) (Some k) [] in
              (set_NC_var__begin ev v :: r', ev', rs', l', i', ol', ok)
          end
  end.

Section Redef.
Variables (n0 : c_NC) (xsz : Z) (ovs : list (bool * Z)) (obv obr OB : Z).
Hypothesis Hold : NC__old n0 = Some (c_old ovs obv obr).
Hypothesis Hno : Zlen ovs <= 2147483647.
Let fmt := NC__format n0.

Lemma old_at : forall pre p t, ovs = pre ++ p :: t ->
  p_ok (Some (map cv_old ovs, 0)) (Zlen pre) = true /\
  p_get c_NC_var_default (Some (map cv_old ovs, 0)) (Zlen pre) = cv_old p.
Proof.
  intros pre p t Ho. split.
  - apply p_ok_some. rewrite cs_Zlen_map, Ho, cs_Zlen_app, cs_Zlen_cons.
    pose proof (cs_Zlen_nonneg _ pre). pose proof (cs_Zlen_nonneg _ t). lia.
  - rewrite p_get_some, Z.add_0_l, Ho, map_app. cbn [map]. rewrite <- (cs_Zlen_map _ _ cv_old pre).
    apply cs_znth_app_Zlen.
Qed.

Lemma gb_loop1_o : forall rest pre ev fv lastv ol fuel,
  NC_vararray__ndefined (NC__vars n0) = Zlen (pre ++ rest) -> Zlen (pre ++ rest) <= 2147483647 ->
  Forall cv_wf rest -> Forall (fun v => 0 <= NC_var__len v) rest ->
  0 <= ev -> ev + lens4 rest <= MAXOFF -> OB + lens4 rest <= MAXOFF ->
  (exists preo, ovs = preo ++ ol) -> Forall (fun p => snd p <= OB) ol ->
  (Datatypes.length rest < fuel)%nat ->
  c_loop fuel (NC_begins_loop1_cdef n0 xsz) (NC_begins_loop1_cond n0 xsz)
              (NC_begins_loop1_body n0 xsz) (NC_begins_loop1_inc n0 xsz)
              (mkS (with_vals n0 (pre ++ rest)) ev fv (Zlen pre) (Zlen ovs - Zlen ol) lastv)
  = let '(r', ev', fv', i', ol', ok) := fix_pass_o fmt rest (Zlen pre) ev fv ol in
    if ok then CNorm (mkS (with_vals n0 (pre ++ r')) ev' fv' i' (Zlen ovs - Zlen ol') lastv)
    else CRetS (-62) (mkS (with_vals n0 (pre ++ r')) ev' fv' i' (Zlen ovs - Zlen ol') lastv).
Proof.
  induction rest as [|v r IH]; intros pre ev fv lastv ol fuel Hnd Hn Hwf Hlen Hev Hb HbO Hsuf HOB Hf.
  - destruct fuel as [|f]; [cbn in Hf; lia|].
    rewrite app_nil_r in *.
    rewrite c_loop_exit;
      [ | reflexivity | unfold NC_begins_loop1_cond, mkS; gb_st; gb_nc; rewrite Hnd; lia ].
    cbn [fix_pass_o]. rewrite app_nil_r. reflexivity.
  - destruct fuel as [|f]; [cbn in Hf; lia|].
    inversion Hwf as [|? ? Hv Hwr]; subst. inversion Hlen as [|? ? Hlv Hlr]; subst.
    assert (Hlen' : Zlen (pre ++ v :: r) = Zlen pre + 1 + Zlen r) by (rewrite cs_Zlen_app, cs_Zlen_cons; lia).
    pose proof (cs_Zlen_nonneg _ pre) as Hpre0. pose proof (cs_Zlen_nonneg _ r) as Hr0.
    assert (Hb' : lens4 (v :: r) = NC_var__len v + 4 + lens4 r) by reflexivity.
    assert (Hl4 : 0 <= lens4 r).
    { clear - Hlr. unfold lens4. induction Hlr as [|x l Hx Hl IHl]; cbn [map zsum]; lia. }
    rewrite c_loop_iter;
      [ | reflexivity | unfold NC_begins_loop1_cond, mkS; gb_st; gb_nc; rewrite Hnd; lia ].
    unfold NC_begins_loop1_body at 1. unfold mkS. gb_st. gb_nc.
    assert (Hok : p_ok (Some (pre ++ v :: r, 0)) (Zlen pre) = true) by (apply p_ok_some; lia).
    assert (Hget : p_get c_NC_var_default (Some (pre ++ v :: r, 0)) (Zlen pre) = v)
      by (rewrite p_get_some, Z.add_0_l; apply cs_znth_app_Zlen).
    rewrite !Hok, !Hget. cbn [andb]. rewrite Hv. cbn [c_chk].
    fold (cv_isrec v). cbn [fix_pass_o].
    assert (Hi : in_i32 (Zlen pre + 1) = true) by (apply in_i32_iff; lia).
    assert (Hpre1 : Zlen pre + 1 = Zlen (pre ++ [v])) by (rewrite cs_Zlen_app, cs_Zlen_cons, cs_Zlen_nil; lia).
    assert (Happ : pre ++ v :: r = (pre ++ [v]) ++ r) by (rewrite <- app_assoc; reflexivity).
    assert (Hf' : (Datatypes.length r < f)%nat) by (cbn [Datatypes.length] in Hf; lia).
    destruct (cv_isrec v) eqn:Erec.
    + cbn [c_bind].
      unfold NC_begins_loop1_inc at 1. gb_st. rewrite Hi. cbn [c_chk c_bind]. gb_st.
      rewrite Hpre1, Happ.
      assert (Hnd1 : NC_vararray__ndefined (NC__vars n0) = Zlen ((pre ++ [v]) ++ r)) by (rewrite <- Happ; exact Hnd).
      assert (Hn1 : Zlen ((pre ++ [v]) ++ r) <= 2147483647) by (rewrite <- Happ; exact Hn).
      assert (Hb1 : ev + lens4 r <= MAXOFF) by (unfold MAXOFF in *; lia).
      assert (HbO1 : OB + lens4 r <= MAXOFF) by (unfold MAXOFF in *; lia).
      refine (eq_trans (IH (pre ++ [v]) ev fv lastv ol f Hnd1 Hn1 Hwr Hlr Hev Hb1 HbO1 Hsuf HOB Hf') _).
      rewrite <- Hpre1.
      destruct (fix_pass_o fmt r (Zlen pre + 1) ev fv ol) as [[[[[r' ev'] fv'] i'] ol'] ok].
      rewrite <- !app_assoc. cbn [app]. reflexivity.
    + cbn [c_bind]. gb_st. gb_nc.
      set (fv1 := if r_isnull fv then Some (Zlen pre) else fv).
      match goal with |- context [c_bind (if r_isnull fv then ?A else ?B) ?K] =>
        assert (Hfv : c_bind (if r_isnull fv then A else B) K
                      = K (mkS (with_vals n0 (pre ++ v :: r)) ev fv1 (Zlen pre) (Zlen ovs - Zlen ol) lastv)) end.
      { unfold fv1, mkS. gb_nc. destruct (r_isnull fv); [rewrite Hok|]; reflexivity. }
      rewrite Hfv. clear Hfv. unfold mkS. gb_st. gb_nc. fold fmt.
      destruct ((fmt =? 1) && (ev >? 2147483647)) eqn:Efmt.
      * cbn [c_bind]. reflexivity.
      * cbn [c_bind]. gb_st. gb_nc. rewrite !Hok, !Hget.
        rewrite rnd4_quot by lia.
        pose proof (rndup_bounds ev 4 Hev ltac:(lia)) as Hrb.
        unfold MAXOFF in Hb, HbO.
        assert (H1 : in_i64 (ev + 4) = true) by (apply in_i64_iff; lia).
        assert (H2 : in_i64 (ev + 4 - 1) = true) by (apply in_i64_iff; lia).
        assert (H3 : div_ok i64_min (ev + 4 - 1) 4 = true) by (apply div_ok_pos; lia).
        assert (H4 : in_i64 (rndup ev 4) = true) by (apply in_i64_iff; lia).
        rewrite H1, H2, H3, H4. cbn [andb c_chk c_bind]. gb_st. gb_nc.
        cbn [p_set]. rewrite Z.add_0_l, zupd_app_Zlen.
        set (b0 := rndup ev 4) in *.
        set (v' := set_NC_var__begin b0 v).
        assert (Ho : o_ok (NC__old n0) = true) by (rewrite Hold; reflexivity).
        rewrite ?Ho. cbn [negb c_bind]. gb_st. gb_nc.
        destruct Hsuf as [preo Hpo].
        assert (HZo : Zlen ovs = Zlen preo + Zlen ol) by (rewrite Hpo, cs_Zlen_app; reflexivity).
        match goal with |- context [c_loop ?fu (NC_begins_loop2_cdef n0 xsz) ?b ?c ?d ?st] =>
          rewrite (gb_loop2 n0 xsz ovs obv obr Hno ol preo st fu Hpo);
            [ | exact Hold | cbn [NC_begins__j]; lia
              | unfold NC_begins_loop2_fuel, c_fuel_lt; gb_st; gb_nc; rewrite Hold;
                cbn [o_get c_old NC__old__vars NC_vararray__ndefined];
                replace (Zlen ovs - (Zlen ovs - Zlen ol)) with (Zlen ol) by lia; unfold Zlen; rewrite Nat2Z.id; lia ]
        end.
        assert (Hog0 : o_get c_NC__old_default (NC__old n0) = c_old ovs obv obr) by (rewrite Hold; reflexivity).
        cbn [c_bind]. gb_st. gb_nc. rewrite ?Ho, ?Hog0. cbn [c_chk c_old NC__old__vars NC_vararray__ndefined NC_vararray__value].
        destruct (drop_rec_suffix ol) as [m Hm].
        assert (HOBd : Forall (fun p => snd p <= OB) (drop_rec ol)).
        { rewrite Hm in HOB. apply Forall_app in HOB. exact (proj2 HOB). }
        assert (Hpd : ovs = (preo ++ m) ++ drop_rec ol) by (rewrite <- app_assoc, <- Hm; exact Hpo).
        assert (HZd : Zlen ovs - Zlen (drop_rec ol) = Zlen (preo ++ m)) by (rewrite Hpd at 1; rewrite cs_Zlen_app; lia).
        assert (Hi1 : Zlen pre + 1 = Zlen (pre ++ [v'])) by (rewrite cs_Zlen_app, cs_Zlen_cons, cs_Zlen_nil; lia).
        assert (HZ' : Zlen (pre ++ [v]) = Zlen (pre ++ [v'])) by (rewrite !cs_Zlen_app, !cs_Zlen_cons; reflexivity).
        destruct (drop_rec ol) as [|[rb ob] ol2] eqn:Edl.
        -- (* no old fixed-size variable left *)
           replace (Zlen ovs - Zlen (@nil (bool * Z)) <? Zlen ovs) with false by (rewrite cs_Zlen_nil; lia).
           cbn [c_bind]. gb_st. gb_nc.
           assert (Hok' : p_ok (Some (pre ++ v' :: r, 0)) (Zlen pre) = true)
             by (apply p_ok_some; rewrite cs_Zlen_app, cs_Zlen_cons; lia).
           assert (Hget' : p_get c_NC_var_default (Some (pre ++ v' :: r, 0)) (Zlen pre) = v')
             by (rewrite p_get_some, Z.add_0_l; apply cs_znth_app_Zlen).
           rewrite !Hok', !Hget'. cbn [andb].
           change (NC_var__begin v') with b0. change (NC_var__len v') with (NC_var__len v).
           assert (H5 : in_i64 (b0 + NC_var__len v) = true) by (apply in_i64_iff; lia).
           rewrite H5. cbn [c_chk c_bind]. gb_st.
           unfold NC_begins_loop1_inc at 1. gb_st. rewrite Hi. cbn [c_chk c_bind]. gb_st.
           assert (Happ' : pre ++ v' :: r = (pre ++ [v']) ++ r) by (rewrite <- app_assoc; reflexivity).
           assert (HZ2 : Zlen (pre ++ v :: r) = Zlen ((pre ++ [v']) ++ r))
             by (rewrite <- Happ', !cs_Zlen_app, !cs_Zlen_cons; reflexivity).
           rewrite Hi1, Happ'.
           assert (Hnd1 : NC_vararray__ndefined (NC__vars n0) = Zlen ((pre ++ [v']) ++ r)) by (rewrite <- HZ2; exact Hnd).
           assert (Hn1 : Zlen ((pre ++ [v']) ++ r) <= 2147483647) by (rewrite <- HZ2; exact Hn).
           assert (Hev1 : 0 <= b0 + NC_var__len v) by lia.
           assert (Hbb : b0 + NC_var__len v + lens4 r <= MAXOFF) by (unfold MAXOFF; lia).
           assert (HbO1 : OB + lens4 r <= MAXOFF) by (unfold MAXOFF; lia).
           assert (Hsuf1 : exists preo1, ovs = preo1 ++ []) by (exists ovs; rewrite app_nil_r; reflexivity).
           refine (eq_trans (IH (pre ++ [v']) (b0 + NC_var__len v) fv1 lastv [] f Hnd1 Hn1 Hwr Hlr Hev1 Hbb HbO1 Hsuf1
                               (Forall_nil _) Hf') _).
           rewrite <- Hi1. fold fv1.
           destruct (fix_pass_o fmt r (Zlen pre + 1) (b0 + NC_var__len v) fv1 []) as [[[[[r' ev'] fv'] i'] ol'] ok].
           rewrite <- !app_assoc. cbn [app]. reflexivity.
        -- (* the next old fixed-size variable: its begin is kept if larger *)
           rewrite cs_Zlen_cons. pose proof (cs_Zlen_nonneg _ ol2) as Hol20.
           replace (Zlen ovs - (1 + Zlen ol2) <? Zlen ovs) with true by lia.
           rewrite cs_Zlen_cons in HZd.
           destruct (old_at (preo ++ m) (rb, ob) ol2 Hpd) as [Hoa Hog].
           rewrite HZd.
           assert (Hok' : p_ok (Some (pre ++ v' :: r, 0)) (Zlen pre) = true)
             by (apply p_ok_some; rewrite cs_Zlen_app, cs_Zlen_cons; lia).
           assert (Hget' : p_get c_NC_var_default (Some (pre ++ v' :: r, 0)) (Zlen pre) = v')
             by (rewrite p_get_some, Z.add_0_l; apply cs_znth_app_Zlen).
           rewrite !Hok', !Hget', !Hoa, !Hog. cbn [andb c_chk].
           change (NC_var__begin v') with b0. change (NC_var__begin (cv_old (rb, ob))) with ob.
           assert (Hob1 : ob <= OB) by (apply Forall_inv in HOBd; exact HOBd).
           set (b := if b0 <? ob then ob else b0).
           set (v'' := set_NC_var__begin b v).
           assert (Hbb0 : b0 <= b <= Z.max b0 OB) by (unfold b; destruct (b0 <? ob) eqn:E; lia).
           match goal with |- context [c_bind (c_bind (if b0 <? ob then ?A else ?B) ?K1) ?K] =>
             assert (Hs : c_bind (c_bind (if b0 <? ob then A else B) K1) K =
                          K (mkS (with_vals n0 (pre ++ v'' :: r)) ev fv1 (Zlen pre) (Zlen ovs - Zlen ol2) lastv)) end.
           { unfold mkS, with_vals. gb_nc. unfold b in v''. unfold v''.
             assert (Hij : in_i32 (Zlen (preo ++ m) + 1) = true).
             { apply in_i32_iff. pose proof (cs_Zlen_nonneg _ (preo ++ m)). lia. }
             assert (Hjn : Zlen (preo ++ m) + 1 = Zlen ovs - Zlen ol2) by lia.
             destruct (b0 <? ob).
             - cbn [c_bind c_chk]. gb_st. gb_nc. rewrite Hij. cbn [c_chk]. gb_st. gb_nc.
               cbn [p_set]. rewrite Z.add_0_l, zupd_app_Zlen, Hjn. reflexivity.
             - cbn [c_bind]. gb_st. rewrite Hij. cbn [c_chk]. gb_st. rewrite Hjn. reflexivity. }
           rewrite Hs; clear Hs. unfold mkS, with_vals. gb_st. gb_nc.
           assert (Hok2 : p_ok (Some (pre ++ v'' :: r, 0)) (Zlen pre) = true)
             by (apply p_ok_some; rewrite cs_Zlen_app, cs_Zlen_cons; lia).
           assert (Hget2 : p_get c_NC_var_default (Some (pre ++ v'' :: r, 0)) (Zlen pre) = v'')
             by (rewrite p_get_some, Z.add_0_l; apply cs_znth_app_Zlen).
           rewrite !Hok2, !Hget2. cbn [andb].
           change (NC_var__begin v'') with b. change (NC_var__len v'') with (NC_var__len v).
           assert (H5 : in_i64 (b + NC_var__len v) = true) by (apply in_i64_iff; lia).
           rewrite H5. cbn [c_chk c_bind]. gb_st.
           unfold NC_begins_loop1_inc at 1. gb_st. rewrite Hi. cbn [c_chk c_bind]. gb_st.
           assert (Hi2 : Zlen pre + 1 = Zlen (pre ++ [v''])) by (rewrite cs_Zlen_app, cs_Zlen_cons, cs_Zlen_nil; lia).
           assert (Happ' : pre ++ v'' :: r = (pre ++ [v'']) ++ r) by (rewrite <- app_assoc; reflexivity).
           assert (HZ2 : Zlen (pre ++ v :: r) = Zlen ((pre ++ [v'']) ++ r))
             by (rewrite <- Happ', !cs_Zlen_app, !cs_Zlen_cons; reflexivity).
           rewrite Hi2, Happ'.
           assert (Hnd1 : NC_vararray__ndefined (NC__vars n0) = Zlen ((pre ++ [v'']) ++ r)) by (rewrite <- HZ2; exact Hnd).
           assert (Hn1 : Zlen ((pre ++ [v'']) ++ r) <= 2147483647) by (rewrite <- HZ2; exact Hn).
           assert (Hev1 : 0 <= b + NC_var__len v) by lia.
           assert (Hbb : b + NC_var__len v + lens4 r <= MAXOFF) by (unfold MAXOFF; lia).
           assert (HbO1 : OB + lens4 r <= MAXOFF) by (unfold MAXOFF; lia).
           assert (Hsuf1 : exists preo1, ovs = preo1 ++ ol2).
           { exists ((preo ++ m) ++ [(rb, ob)]). rewrite <- app_assoc. exact Hpd. }
           assert (HOB2 : Forall (fun p => snd p <= OB) ol2) by (apply Forall_inv_tail in HOBd; exact HOBd).
           refine (eq_trans (IH (pre ++ [v'']) (b + NC_var__len v) fv1 lastv ol2 f Hnd1 Hn1 Hwr Hlr Hev1 Hbb HbO1 Hsuf1
                               HOB2 Hf') _).
           rewrite <- Hi2. fold fv1. fold b.
           destruct (fix_pass_o fmt r (Zlen pre + 1) (b + NC_var__len v) fv1 ol2) as [[[[[r' ev'] fv'] i'] ol'] ok].
           rewrite <- !app_assoc. cbn [app]. reflexivity.
Qed.

Lemma gb_loop3_o : forall rest pre ev rs fv lastv ol fuel,
  NC_vararray__ndefined (NC__vars n0) = Zlen (pre ++ rest) -> Zlen (pre ++ rest) <= 2147483647 ->
  Forall cv_wf rest -> Forall (fun v => 0 <= NC_var__len v) rest ->
  0 <= ev -> ev + lens4 rest <= MAXOFF -> 0 <= rs <= ev ->
  (exists preo, ovs = preo ++ ol) ->
  (Datatypes.length rest < fuel)%nat ->
  c_loop fuel (NC_begins_loop3_cdef n0 xsz) (NC_begins_loop3_cond n0 xsz)
              (NC_begins_loop3_body n0 xsz) (NC_begins_loop3_inc n0 xsz)
              (mkS (with_vals_rs n0 (pre ++ rest) rs) ev fv (Zlen pre) (Zlen ovs - Zlen ol) lastv)
  = let '(r', ev', rs', l', i', ol', ok) := rec_pass_o fmt rest (Zlen pre) ev rs lastv ol in
    if ok then CNorm (mkS (with_vals_rs n0 (pre ++ r') rs') ev' fv i' (Zlen ovs - Zlen ol') l')
    else CRetS (-62) (mkS (with_vals_rs n0 (pre ++ r') rs') ev' fv i' (Zlen ovs - Zlen ol') l').
Proof.
  induction rest as [|v r IH]; intros pre ev rs fv lastv ol fuel Hnd Hn Hwf Hlen Hev Hb Hrs Hsuf Hf.
  - destruct fuel as [|f]; [cbn in Hf; lia|].
    rewrite app_nil_r in *.
    rewrite c_loop_exit;
      [ | reflexivity | unfold NC_begins_loop3_cond, mkS, with_vals_rs; gb_st; gb_nc; rewrite Hnd; lia ].
    cbn [rec_pass_o]. rewrite app_nil_r. reflexivity.
  - destruct fuel as [|f]; [cbn in Hf; lia|].
    inversion Hwf as [|? ? Hv Hwr]; subst. inversion Hlen as [|? ? Hlv Hlr]; subst.
    assert (Hlen' : Zlen (pre ++ v :: r) = Zlen pre + 1 + Zlen r) by (rewrite cs_Zlen_app, cs_Zlen_cons; lia).
    pose proof (cs_Zlen_nonneg _ pre) as Hpre0. pose proof (cs_Zlen_nonneg _ r) as Hr0.
    assert (Hb' : lens4 (v :: r) = NC_var__len v + 4 + lens4 r) by reflexivity.
    assert (Hl4 : 0 <= lens4 r).
    { clear - Hlr. unfold lens4. induction Hlr as [|x l Hx Hl IHl]; cbn [map zsum]; lia. }
    rewrite c_loop_iter;
      [ | reflexivity | unfold NC_begins_loop3_cond, mkS, with_vals_rs; gb_st; gb_nc; rewrite Hnd; lia ].
    unfold NC_begins_loop3_body at 1. unfold mkS, with_vals_rs. gb_st. gb_nc.
    assert (Hok : p_ok (Some (pre ++ v :: r, 0)) (Zlen pre) = true) by (apply p_ok_some; lia).
    assert (Hget : p_get c_NC_var_default (Some (pre ++ v :: r, 0)) (Zlen pre) = v)
      by (rewrite p_get_some, Z.add_0_l; apply cs_znth_app_Zlen).
    rewrite !Hok, !Hget. cbn [andb]. rewrite Hv. cbn [c_chk].
    fold (cv_isrec v). cbn [rec_pass_o].
    assert (Hi : in_i32 (Zlen pre + 1) = true) by (apply in_i32_iff; lia).
    assert (Hpre1 : Zlen pre + 1 = Zlen (pre ++ [v])) by (rewrite cs_Zlen_app, cs_Zlen_cons, cs_Zlen_nil; lia).
    assert (Happ : pre ++ v :: r = (pre ++ [v]) ++ r) by (rewrite <- app_assoc; reflexivity).
    assert (Hf' : (Datatypes.length r < f)%nat) by (cbn [Datatypes.length] in Hf; lia).
    destruct (cv_isrec v) eqn:Erec; cbn [negb].
    + cbn [c_bind]. gb_st. gb_nc. fold fmt.
      destruct ((fmt =? 1) && (ev >? 2147483647)) eqn:Efmt.
      * cbn [c_bind]. reflexivity.
      * cbn [c_bind]. gb_st. gb_nc. rewrite !Hok, !Hget. cbn [andb c_chk c_bind]. gb_st. gb_nc.
        cbn [p_set]. rewrite Z.add_0_l, zupd_app_Zlen.
        set (v' := set_NC_var__begin ev v).
        assert (Ho : o_ok (NC__old n0) = true) by (rewrite Hold; reflexivity).
        assert (Hog0 : o_get c_NC__old_default (NC__old n0) = c_old ovs obv obr) by (rewrite Hold; reflexivity).
        rewrite ?Ho. cbn [negb c_bind]. gb_st. gb_nc.
        destruct Hsuf as [preo Hpo].
        assert (HZo : Zlen ovs = Zlen preo + Zlen ol) by (rewrite Hpo, cs_Zlen_app; reflexivity).
        match goal with |- context [c_loop ?fu (NC_begins_loop4_cdef n0 xsz) ?b ?c ?d ?st] =>
          rewrite (gb_loop4 n0 xsz ovs obv obr Hno ol preo st fu Hpo);
            [ | exact Hold | cbn [NC_begins__j]; lia
              | unfold NC_begins_loop4_fuel, c_fuel_lt; gb_st; gb_nc; rewrite Hold;
                cbn [o_get c_old NC__old__vars NC_vararray__ndefined];
                replace (Zlen ovs - (Zlen ovs - Zlen ol)) with (Zlen ol) by lia; unfold Zlen; rewrite Nat2Z.id; lia ]
        end.
        cbn [c_bind]. gb_st. gb_nc. rewrite ?Ho, ?Hog0. cbn [c_chk c_old NC__old__vars NC_vararray__ndefined NC_vararray__value].
        destruct (drop_fix_suffix ol) as [m Hm].
        assert (Hpd : ovs = (preo ++ m) ++ drop_fix ol) by (rewrite <- app_assoc, <- Hm; exact Hpo).
        assert (HZd : Zlen ovs - Zlen (drop_fix ol) = Zlen (preo ++ m)) by (rewrite Hpd at 1; rewrite cs_Zlen_app; lia).
        unfold MAXOFF in Hb.
        assert (H5 : in_i64 (ev + NC_var__len v) = true) by (apply in_i64_iff; lia).
        assert (H6 : in_i64 (rs + NC_var__len v) = true) by (apply in_i64_iff; lia).
        assert (Hev1 : 0 <= ev + NC_var__len v) by lia.
        assert (Hbb : ev + NC_var__len v + lens4 r <= MAXOFF) by (unfold MAXOFF; lia).
        assert (Hrs1 : 0 <= rs + NC_var__len v <= ev + NC_var__len v) by lia.
        destruct (drop_fix ol) as [|[rb ob] ol2] eqn:Edl.
        -- replace (Zlen ovs - Zlen (@nil (bool * Z)) <? Zlen ovs) with false by (rewrite cs_Zlen_nil; lia).
           cbn [c_bind]. gb_st. gb_nc.
           assert (Hok' : p_ok (Some (pre ++ v' :: r, 0)) (Zlen pre) = true)
             by (apply p_ok_some; rewrite cs_Zlen_app, cs_Zlen_cons; lia).
           assert (Hget' : p_get c_NC_var_default (Some (pre ++ v' :: r, 0)) (Zlen pre) = v')
             by (rewrite p_get_some, Z.add_0_l; apply cs_znth_app_Zlen).
           rewrite !Hok', !Hget'. cbn [andb]. change (NC_var__len v') with (NC_var__len v).
           rewrite H5. cbn [c_chk c_bind]. gb_st. gb_nc. rewrite !Hok', !Hget'. change (NC_var__len v') with (NC_var__len v). cbn [andb].
           rewrite H6. cbn [c_chk c_bind]. gb_st. gb_nc. rewrite !Hok'. cbn [c_chk c_bind]. gb_st.
           unfold NC_begins_loop3_inc at 1. gb_st. rewrite Hi. cbn [c_chk c_bind]. gb_st.
           assert (Hi1 : Zlen pre + 1 = Zlen (pre ++ [v'])) by (rewrite cs_Zlen_app, cs_Zlen_cons, cs_Zlen_nil; lia).
           assert (Happ' : pre ++ v' :: r = (pre ++ [v']) ++ r) by (rewrite <- app_assoc; reflexivity).
           assert (HZ2 : Zlen (pre ++ v :: r) = Zlen ((pre ++ [v']) ++ r))
             by (rewrite <- Happ', !cs_Zlen_app, !cs_Zlen_cons; reflexivity).
           rewrite Hi1, Happ'.
           assert (Hnd1 : NC_vararray__ndefined (NC__vars n0) = Zlen ((pre ++ [v']) ++ r)) by (rewrite <- HZ2; exact Hnd).
           assert (Hn1 : Zlen ((pre ++ [v']) ++ r) <= 2147483647) by (rewrite <- HZ2; exact Hn).
           assert (Hsuf1 : exists preo1, ovs = preo1 ++ []) by (exists ovs; rewrite app_nil_r; reflexivity).
           refine (eq_trans (IH (pre ++ [v']) (ev + NC_var__len v) (rs + NC_var__len v) fv (Some (Zlen pre)) [] f
                               Hnd1 Hn1 Hwr Hlr Hev1 Hbb Hrs1 Hsuf1 Hf') _).
           rewrite <- Hi1.
           destruct (rec_pass_o fmt r (Zlen pre + 1) (ev + NC_var__len v) (rs + NC_var__len v) (Some (Zlen pre)) [])
             as [[[[[[r' ev'] rs'] l'] i'] ol'] ok].
           rewrite <- !app_assoc. cbn [app]. reflexivity.
        -- rewrite cs_Zlen_cons. pose proof (cs_Zlen_nonneg _ ol2) as Hol20.
           replace (Zlen ovs - (1 + Zlen ol2) <? Zlen ovs) with true by lia.
           rewrite cs_Zlen_cons in HZd.
           destruct (old_at (preo ++ m) (rb, ob) ol2 Hpd) as [Hoa Hog].
           rewrite HZd.
           assert (Hok' : p_ok (Some (pre ++ v' :: r, 0)) (Zlen pre) = true)
             by (apply p_ok_some; rewrite cs_Zlen_app, cs_Zlen_cons; lia).
           assert (Hget' : p_get c_NC_var_default (Some (pre ++ v' :: r, 0)) (Zlen pre) = v')
             by (rewrite p_get_some, Z.add_0_l; apply cs_znth_app_Zlen).
           rewrite !Hok', !Hget', !Hoa, !Hog. cbn [andb c_chk].
           change (NC_var__begin v') with ev. change (NC_var__begin (cv_old (rb, ob))) with ob.
           set (b := if ev <? ob then ob else ev).
           set (v'' := set_NC_var__begin b v).
           match goal with |- context [c_bind (c_bind (if ev <? ob then ?A else ?B) ?K1) ?K] =>
             assert (Hs : c_bind (c_bind (if ev <? ob then A else B) K1) K =
                          K (mkS (with_vals_rs n0 (pre ++ v'' :: r) rs) ev fv (Zlen pre) (Zlen ovs - Zlen ol2) lastv)) end.
           { unfold mkS, with_vals_rs, with_vals. gb_nc. unfold b in v''. unfold v''.
             assert (Hij : in_i32 (Zlen (preo ++ m) + 1) = true).
             { apply in_i32_iff. pose proof (cs_Zlen_nonneg _ (preo ++ m)). lia. }
             assert (Hjn : Zlen (preo ++ m) + 1 = Zlen ovs - Zlen ol2) by lia.
             destruct (ev <? ob).
             - cbn [c_bind c_chk]. gb_st. gb_nc. rewrite Hij. cbn [c_chk]. gb_st. gb_nc.
               cbn [p_set]. rewrite Z.add_0_l, zupd_app_Zlen, Hjn. reflexivity.
             - cbn [c_bind]. gb_st. rewrite Hij. cbn [c_chk]. gb_st. rewrite Hjn. reflexivity. }
           rewrite Hs; clear Hs. unfold mkS, with_vals_rs, with_vals. gb_st. gb_nc.
           assert (Hok2 : p_ok (Some (pre ++ v'' :: r, 0)) (Zlen pre) = true)
             by (apply p_ok_some; rewrite cs_Zlen_app, cs_Zlen_cons; lia).
           assert (Hget2 : p_get c_NC_var_default (Some (pre ++ v'' :: r, 0)) (Zlen pre) = v'')
             by (rewrite p_get_some, Z.add_0_l; apply cs_znth_app_Zlen).
           rewrite !Hok2, !Hget2. cbn [andb]. change (NC_var__len v'') with (NC_var__len v).
           rewrite H5. cbn [c_chk c_bind]. gb_st. gb_nc. rewrite !Hok2, !Hget2. change (NC_var__len v'') with (NC_var__len v). cbn [andb].
           rewrite H6. cbn [c_chk c_bind]. gb_st. gb_nc. rewrite !Hok2. cbn [c_chk c_bind]. gb_st.
           unfold NC_begins_loop3_inc at 1. gb_st. rewrite Hi. cbn [c_chk c_bind]. gb_st.
           assert (Hi2 : Zlen pre + 1 = Zlen (pre ++ [v''])) by (rewrite cs_Zlen_app, cs_Zlen_cons, cs_Zlen_nil; lia).
           assert (Happ' : pre ++ v'' :: r = (pre ++ [v'']) ++ r) by (rewrite <- app_assoc; reflexivity).
           assert (HZ2 : Zlen (pre ++ v :: r) = Zlen ((pre ++ [v'']) ++ r))
             by (rewrite <- Happ', !cs_Zlen_app, !cs_Zlen_cons; reflexivity).
           rewrite Hi2, Happ'.
           assert (Hnd1 : NC_vararray__ndefined (NC__vars n0) = Zlen ((pre ++ [v'']) ++ r)) by (rewrite <- HZ2; exact Hnd).
           assert (Hn1 : Zlen ((pre ++ [v'']) ++ r) <= 2147483647) by (rewrite <- HZ2; exact Hn).
           assert (Hsuf1 : exists preo1, ovs = preo1 ++ ol2).
           { exists ((preo ++ m) ++ [(rb, ob)]). rewrite <- app_assoc. exact Hpd. }
           refine (eq_trans (IH (pre ++ [v'']) (ev + NC_var__len v) (rs + NC_var__len v) fv (Some (Zlen pre)) ol2 f
                               Hnd1 Hn1 Hwr Hlr Hev1 Hbb Hrs1 Hsuf1 Hf') _).
           rewrite <- Hi2. fold b.
           destruct (rec_pass_o fmt r (Zlen pre + 1) (ev + NC_var__len v) (rs + NC_var__len v) (Some (Zlen pre)) ol2)
             as [[[[[[r' ev'] rs'] l'] i'] ol'] ok].
           rewrite <- !app_assoc. cbn [app]. reflexivity.
    + cbn [c_bind].
      unfold NC_begins_loop3_inc at 1. gb_st. rewrite Hi. cbn [c_chk c_bind]. gb_st.
      rewrite Hpre1, Happ.
      assert (Hnd1 : NC_vararray__ndefined (NC__vars n0) = Zlen ((pre ++ [v]) ++ r)) by (rewrite <- Happ; exact Hnd).
      assert (Hn1 : Zlen ((pre ++ [v]) ++ r) <= 2147483647) by (rewrite <- Happ; exact Hn).
      assert (Hb1 : ev + lens4 r <= MAXOFF) by (unfold MAXOFF in *; lia).
      refine (eq_trans (IH (pre ++ [v]) ev rs fv lastv ol f Hnd1 Hn1 Hwr Hlr Hev Hb1 Hrs Hsuf Hf') _).
      rewrite <- Hpre1.
      destruct (rec_pass_o fmt r (Zlen pre + 1) ev rs lastv ol) as [[[[[[r' ev'] rs'] l'] i'] ol'] ok].
      rewrite <- !app_assoc. cbn [app]. reflexivity.
Qed.
End Redef.

(* ---------- against Header.begins_fixed with the old begins ---------- *)
Definition ofix (ol : list (bool * Z)) : list Z := map snd (filter (fun p => negb (fst p)) ol).
Definition orec (ol : list (bool * Z)) : list Z := map snd (filter (fun p => fst p) ol).

Lemma ofix_drop : forall ol,
  ofix ol = match drop_rec ol with (_, ob) :: ol2 => ob :: ofix ol2 | [] => [] end.
Proof.
  induction ol as [|[[|] b] t IH]; [reflexivity | | reflexivity].
  unfold ofix in *. cbn [filter fst negb drop_rec]. exact IH.
Qed.
Lemma orec_drop : forall ol,
  orec ol = match drop_fix ol with (_, ob) :: ol2 => ob :: orec ol2 | [] => [] end.
Proof.
  induction ol as [|[[|] b] t IH]; [reflexivity | reflexivity | ].
  unfold orec in *. cbn [filter fst drop_fix]. exact IH.
Qed.

Lemma fix_pass_o_begins_fixed : forall fmt rest k ev fv ol acc,
  let '(r', ev', _, _, _, ok) := fix_pass_o fmt rest k ev fv ol in
  begins_fixed fmt (map pair_of rest) (ofix ol) ev acc =
  if ok then Some (ev', rev acc ++ map fixed_begin r') else None.
Proof.
  intros fmt rest. induction rest as [|v r IH]; intros k ev fv ol acc.
  - cbn. rewrite app_nil_r. reflexivity.
  - cbn [fix_pass_o map begins_fixed]. unfold pair_of at 1.
    destruct (cv_isrec v) eqn:Erec.
    + match goal with |- context [fix_pass_o ?a ?b ?c ?d ?e ?g] =>
        specialize (IH c d e g (None :: acc));
        destruct (fix_pass_o a b c d e g) as [[[[[r' ev'] fv'] i'] ol'] ok] end.
      cbv beta iota zeta in IH |- *.
      rewrite IH. destruct ok; [|reflexivity].
      cbn [rev map]. unfold fixed_begin at 2. rewrite Erec. rewrite <- app_assoc. reflexivity.
    + change NC_MAX_INT with 2147483647.
      destruct ((fmt =? 1) && (ev >? 2147483647)); [reflexivity|]. cbv zeta.
      rewrite (ofix_drop ol).
      destruct (drop_rec ol) as [|[rb ob] ol2].
      * match goal with |- context [fix_pass_o ?a ?b ?c ?d ?e ?g] =>
          specialize (IH c d e g (Some (rndup ev 4) :: acc));
          destruct (fix_pass_o a b c d e g) as [[[[[r' ev'] fv'] i'] ol'] ok] end.
        cbv beta iota zeta in IH |- *. change (ofix []) with (@nil Z) in IH.
        rewrite IH. destruct ok; [|reflexivity].
        cbn [rev map]. unfold fixed_begin at 2. rewrite cv_isrec_set_begin, Erec. rewrite <- app_assoc. reflexivity.
      * match goal with |- context [fix_pass_o ?a ?b ?c ?d ?e ?g] =>
          specialize (IH c d e g (Some (if rndup ev 4 <? ob then ob else rndup ev 4) :: acc));
          destruct (fix_pass_o a b c d e g) as [[[[[r' ev'] fv'] i'] ol'] ok] end.
        cbv beta iota zeta in IH |- *.
        rewrite IH. destruct ok; [|reflexivity].
        cbn [rev map]. unfold fixed_begin at 2. rewrite cv_isrec_set_begin, Erec. rewrite <- app_assoc. reflexivity.
Qed.

(* the first loop of the generated NC_begins after a redef, against Header.begins_fixed with the begins of the
   old fixed-size variables *)
Theorem gen_begins_redef_fixed_partial : forall n0 xsz ovs obv obr OB vars ev lastv,
  NC__old n0 = Some (c_old ovs obv obr) -> Zlen ovs <= 2147483647 ->
  NC_vararray__ndefined (NC__vars n0) = Zlen vars -> Zlen vars <= 2147483647 ->
  Forall cv_wf vars -> Forall (fun v => 0 <= NC_var__len v) vars ->
  0 <= ev -> ev + lens4 vars <= MAXOFF -> OB + lens4 vars <= MAXOFF ->
  Forall (fun p => snd p <= OB) ovs ->
  let s0 := mkS (with_vals n0 vars) ev None 0 0 lastv in
  exists s',
    c_loop (NC_begins_loop1_fuel n0 xsz s0) (NC_begins_loop1_cdef n0 xsz) (NC_begins_loop1_cond n0 xsz)
           (NC_begins_loop1_body n0 xsz) (NC_begins_loop1_inc n0 xsz) s0
    = match begins_fixed (NC__format n0) (map pair_of vars) (ofix ovs) ev [] with
      | Some _ => CNorm s'
      | None => CRetS NC_EVARSIZE s'
      end /\
    forall ef fb, begins_fixed (NC__format n0) (map pair_of vars) (ofix ovs) ev [] = Some (ef, fb) ->
      NC_begins__end_var s' = ef /\ map fixed_begin (arr_of s') = fb.
Proof.
  intros n0 xsz ovs obv obr OB vars ev lastv Hold Hno Hnd Hn Hwf Hlen Hev Hb HbO HOB s0.
  assert (Hf : (Datatypes.length vars < NC_begins_loop1_fuel n0 xsz s0)%nat).
  { apply (lens4_nonneg_fuel vars n0 xsz s0 Hnd); [reflexivity | exact Hnd]. }
  assert (Hsuf : exists preo, ovs = preo ++ ovs) by (exists []; reflexivity).
  pose proof (gb_loop1_o n0 xsz ovs obv obr OB Hold Hno vars [] ev None lastv ovs _ Hnd Hn Hwf Hlen Hev Hb HbO Hsuf HOB Hf) as HL.
  pose proof (fix_pass_o_begins_fixed (NC__format n0) vars 0 ev None ovs []) as HP.
  change (Zlen (@nil c_NC_var)) with 0 in HL. cbn [app] in HL. rewrite Z.sub_diag in HL.
  destruct (fix_pass_o (NC__format n0) vars 0 ev None ovs) as [[[[[r' ev'] fv'] i'] ol'] ok] eqn:Efp.
  cbv beta iota zeta in HL, HP. cbn [rev app] in HP.
  destruct ok.
  - exists (mkS (with_vals n0 r') ev' fv' i' (Zlen ovs - Zlen ol') lastv). split.
    + rewrite HP. exact HL.
    + intros ef fb E. rewrite HP in E. inversion E; subst. split; reflexivity.
  - exists (mkS (with_vals n0 r') ev' fv' i' (Zlen ovs - Zlen ol') lastv). split.
    + rewrite HP. exact HL.
    + intros ef fb E. rewrite HP in E. discriminate.
Qed.

Lemma rec_pass_o_begins_rec : forall fmt rest k ev rs lastv ol lastlen acc,
  let '(r', ev', rs', _, _, _, ok) := rec_pass_o fmt rest k ev rs lastv ol in
  begins_rec fmt (map pair_of rest) (orec ol) ev rs lastlen acc =
  if ok then Some (ev', rs', last_rec_len lastlen r', rev acc ++ map rec_begin r') else None.
Proof.
  intros fmt rest. induction rest as [|v r IH]; intros k ev rs lastv ol lastlen acc.
  - cbn. rewrite app_nil_r. reflexivity.
  - cbn [rec_pass_o map begins_rec]. unfold pair_of at 1.
    destruct (cv_isrec v) eqn:Erec; cbn [negb].
    + change NC_MAX_INT with 2147483647.
      destruct ((fmt =? 1) && (ev >? 2147483647)); [reflexivity|]. cbv zeta.
      rewrite (orec_drop ol).
      destruct (drop_fix ol) as [|[rb ob] ol2].
      * match goal with |- context [rec_pass_o ?a ?b ?c ?d ?e ?g ?h] =>
          specialize (IH c d e g h (Some (NC_var__len v)) (Some ev :: acc));
          destruct (rec_pass_o a b c d e g h) as [[[[[[r' ev'] rs'] l'] i'] ol'] ok] end.
        cbv beta iota zeta in IH |- *. change (orec []) with (@nil Z) in IH.
        rewrite IH. destruct ok; [|reflexivity].
        cbn [rev map]. unfold rec_begin at 2. rewrite cv_isrec_set_begin, Erec.
        unfold last_rec_len. cbn [fold_left]. rewrite cv_isrec_set_begin, Erec.
        rewrite <- app_assoc. reflexivity.
      * match goal with |- context [rec_pass_o ?a ?b ?c ?d ?e ?g ?h] =>
          specialize (IH c d e g h (Some (NC_var__len v)) (Some (if ev <? ob then ob else ev) :: acc));
          destruct (rec_pass_o a b c d e g h) as [[[[[[r' ev'] rs'] l'] i'] ol'] ok] end.
        cbv beta iota zeta in IH |- *.
        rewrite IH. destruct ok; [|reflexivity].
        cbn [rev map]. unfold rec_begin at 2. rewrite cv_isrec_set_begin, Erec.
        unfold last_rec_len. cbn [fold_left]. rewrite cv_isrec_set_begin, Erec.
        rewrite <- app_assoc. reflexivity.
    + match goal with |- context [rec_pass_o ?a ?b ?c ?d ?e ?g ?h] =>
        specialize (IH c d e g h lastlen (None :: acc));
        destruct (rec_pass_o a b c d e g h) as [[[[[[r' ev'] rs'] l'] i'] ol'] ok] end.
      cbv beta iota zeta in IH |- *.
      rewrite IH. destruct ok; [|reflexivity].
      cbn [rev map]. unfold rec_begin at 2. rewrite Erec.
      unfold last_rec_len. cbn [fold_left]. rewrite Erec.
      rewrite <- app_assoc. reflexivity.
Qed.

(* the second loop after a redef, against Header.begins_rec with the begins of the old record variables *)
Theorem gen_begins_redef_rec_partial : forall n0 xsz ovs obv obr vars ev fv lastv,
  NC__old n0 = Some (c_old ovs obv obr) -> Zlen ovs <= 2147483647 ->
  NC_vararray__ndefined (NC__vars n0) = Zlen vars -> Zlen vars <= 2147483647 ->
  Forall cv_wf vars -> Forall (fun v => 0 <= NC_var__len v) vars ->
  0 <= ev -> ev + lens4 vars <= MAXOFF ->
  let s0 := mkS (with_vals_rs n0 vars 0) ev fv 0 0 lastv in
  exists s',
    c_loop (NC_begins_loop3_fuel n0 xsz s0) (NC_begins_loop3_cdef n0 xsz) (NC_begins_loop3_cond n0 xsz)
           (NC_begins_loop3_body n0 xsz) (NC_begins_loop3_inc n0 xsz) s0
    = match begins_rec (NC__format n0) (map pair_of vars) (orec ovs) ev 0 None [] with
      | Some _ => CNorm s'
      | None => CRetS NC_EVARSIZE s'
      end /\
    forall er rs ll rb, begins_rec (NC__format n0) (map pair_of vars) (orec ovs) ev 0 None [] = Some (er, rs, ll, rb) ->
      NC_begins__end_var s' = er /\ NC__recsize (NC_begins__P_ncp s') = rs /\
      map rec_begin (arr_of s') = rb /\ last_rec_len None (arr_of s') = ll.
Proof.
  intros n0 xsz ovs obv obr vars ev fv lastv Hold Hno Hnd Hn Hwf Hlen Hev Hb s0.
  assert (Hf : (Datatypes.length vars < NC_begins_loop3_fuel n0 xsz s0)%nat).
  { apply (lens4_nonneg_fuel vars n0 xsz s0 Hnd); [reflexivity | exact Hnd]. }
  assert (Hrs : 0 <= 0 <= ev) by lia.
  assert (Hsuf : exists preo, ovs = preo ++ ovs) by (exists []; reflexivity).
  pose proof (gb_loop3_o n0 xsz ovs obv obr Hold Hno vars [] ev 0 fv lastv ovs _ Hnd Hn Hwf Hlen Hev Hb Hrs Hsuf Hf) as HL.
  pose proof (rec_pass_o_begins_rec (NC__format n0) vars 0 ev 0 lastv ovs None []) as HP.
  change (Zlen (@nil c_NC_var)) with 0 in HL. cbn [app] in HL. rewrite Z.sub_diag in HL.
  destruct (rec_pass_o (NC__format n0) vars 0 ev 0 lastv ovs) as [[[[[[r' ev'] rs'] l'] i'] ol'] ok] eqn:Efp.
  cbv beta iota zeta in HL, HP. cbn [rev app] in HP.
  destruct ok.
  - exists (mkS (with_vals_rs n0 r' rs') ev' fv i' (Zlen ovs - Zlen ol') l'). split.
    + rewrite HP. exact HL.
    + intros er rs ll rb E. rewrite HP in E. inversion E; subst. repeat split.
  - exists (mkS (with_vals_rs n0 r' rs') ev' fv i' (Zlen ovs - Zlen ol') l'). split.
    + rewrite HP. exact HL.
    + intros er rs ll rb E. rewrite HP in E. discriminate.
Qed.

(* ------------------------------------------------------------------------- *)
(** * The whole generated function after a redef RUNS: concrete cases against Header.begins (Some old) *)
(* ------------------------------------------------------------------------- *)
(* the view of NC *ncp at the entry of NC_begins in an enddef that follows a redef: old = (old layout, is-record
   flags of the old variables), as Exec.do_enddef passes it to Header.begins *)
Definition c_view_nc_redef (h : hdr) (hm vm ha ra pbr flags : Z) (ol : layout) (recs : list bool) : c_NC :=
  {| NC__begin_rec := pbr; NC__begin_var := 0; NC__flags := flags; NC__format := h_format h;
     NC__h_align := ha; NC__h_minfree := hm; NC__nprocs := 1; NC__numrecs := h_numrecs h;
     NC__old := Some (c_old (zip recs (l_begins ol)) (l_begin_var ol) (l_begin_rec ol));
     NC__r_align := ra; NC__recsize := 0; NC__safe_mode := 0; NC__v_minfree := vm;
     NC__vars := {| NC_vararray__ndefined := Zlen (h_vars h);
                    NC_vararray__value := match h_vars h with [] => None
                                          | _ => Some (map (cv_of (h_dims h)) (h_vars h), 0) end |};
     NC__xsz := 0 |}.

Definition begins_agree_redef (h : hdr) (hm vm ha ra pbr : Z) (ol : layout) (recs : list bool) : bool :=
  match NC_begins_c (c_view_nc_redef h hm vm ha ra pbr 0 ol recs) (hdr_len h),
        begins h hm vm ha ra (Some (ol, recs)) pbr with
  | FValS rc s, Some lay =>
      (rc =? NC_NOERR) &&
      let l := layout_of_state s in
      (l_xsz l =? l_xsz lay) && (l_begin_var l =? l_begin_var lay) && (l_begin_rec l =? l_begin_rec lay) &&
      (l_recsize l =? l_recsize lay) && list_eqb Z.eqb (l_begins l) (l_begins lay)
  | FValS rc _, None => rc =? NC_EVARSIZE
  | _, _ => false
  end.

Definition exr_h1 : hdr :=   (* old header: fixed a, record r1 *)
  mkhdr 2 3 exb_dims [] [exb_var 97 [1; 2] 3; exb_var 98 [0; 1] 5].
Definition exr_lay (hm vm ha ra : Z) : layout :=
  match begins exr_h1 hm vm ha ra None 0 with Some l => l | None => mklayout 0 0 0 0 [] end.

Example gen_begins_redef_runs :
  (* variables appended (fixed and record), alignment grown, old begins larger than the packed ones, header grown *)
  begins_agree_redef (mkhdr 2 3 exb_dims [] [exb_var 97 [1; 2] 3; exb_var 98 [0; 1] 5; exb_var 99 [2] 1; exb_var 100 [0; 2] 6])
                     0 0 4 4 (l_begin_rec (exr_lay 0 0 512 4)) (exr_lay 0 0 512 4) [false; true] = true /\
  begins_agree_redef (mkhdr 2 3 exb_dims [] [exb_var 97 [1; 2] 3; exb_var 98 [0; 1] 5; exb_var 99 [2] 1])
                     0 0 1024 8 (l_begin_rec (exr_lay 0 0 4 4)) (exr_lay 0 0 4 4) [false; true] = true /\
  begins_agree_redef (mkhdr 2 3 exb_dims [] [exb_var 97 [1; 2] 3; exb_var 98 [0; 1] 5])
                     2000 64 4 4 (l_begin_rec (exr_lay 0 0 4 4)) (exr_lay 0 0 4 4) [false; true] = true /\
  begins_agree_redef (mkhdr 2 3 exb_dims [] [exb_var 96 [0; 2] 4; exb_var 97 [1; 2] 3; exb_var 98 [0; 1] 5])
                     0 0 4 4 (l_begin_rec (exr_lay 0 100 512 4)) (exr_lay 0 100 512 4) [false; true] = true /\
  (* a previous begin_rec below the old one: the old begin_rec wins *)
  begins_agree_redef (mkhdr 2 3 exb_dims [] [exb_var 97 [1; 2] 3; exb_var 98 [0; 1] 5])
                     0 0 4 4 0 (exr_lay 0 100 512 4) [false; true] = true.
Proof. repeat split; vm_compute; reflexivity. Qed.

Print Assumptions gen_begins_redef_fixed_partial.
Print Assumptions gen_begins_redef_rec_partial.
Print Assumptions gen_begins_redef_runs.
