(* Properties_C14.v — statements only: each property theorem is stated in full and closed by
   `exact <lemma>`; the lemmas live in the Proofs_*.v files.  Assembled by tools/mkprops.py. *)
(* C14 API mode state machine and error precedence.  Model: coq/Modes.v (dispatcher flag word pncp->flag and *)
(* driver flag word ncp->flags kept exactly as src/dispatchers/*.c and src/drivers/ncmpio/*.c keep them, *)
(* one step function per API family).  Spec: the documented precedence lists as an ordered filter *)
(* (Modes.rules / spec_err).  All theorems quantify over ARBITRARY call sequences cs from the closed state. *)
From Coq Require Import ZArith List.
From Pnc Require Import Proofs_Modes.
Set Printing Width 100.
Set Printing Depth 100000.

(* every history stays inside the finite set RC of 97 cores computed by breadth-first search *)
Theorem C14_reachable_closed :
  forall cs : list Modes.call, In (Modes.co (Modes.run Modes.state0 cs)) RC.
Proof. exact @reachable_in_table. Qed.
Print Assumptions C14_reachable_closed.

(* every reachable core is reached by at most REACH_K = 6 calls (bound tight: reachable_within_k_tight) *)
Theorem C14_reachable_within_k :
  forall cs : list Modes.call,
         exists cs' : list Modes.call,
           length cs' <= Modes.REACH_K /\
           Modes.co (Modes.run Modes.state0 cs') = Modes.co (Modes.run Modes.state0 cs).
Proof. exact @reachable_within_k. Qed.
Print Assumptions C14_reachable_within_k.

Theorem C14_mode_unique :
  forall (cs : list Modes.call) (o : Modes.ost),
         Modes.co (Modes.run Modes.state0 cs) = Modes.COpen o ->
         Modes.exactly_one (Modes.in_define o) (Modes.in_coll o) (Modes.in_indep o) = true.
Proof. exact @mode_unique. Qed.
Print Assumptions C14_mode_unique.

Theorem C14_mode_changes_only_by :
  forall (cs : list Modes.call) (c : Modes.call),
         Modes.is_mode_call c = false ->
         match Modes.co (Modes.run Modes.state0 cs) with
         | Modes.CClosed =>
             match Modes.co (fst (Modes.step (Modes.run Modes.state0 cs) c)) with
             | Modes.CClosed => True
             | Modes.COpen _ => False
             end
         | Modes.COpen o =>
             match Modes.co (fst (Modes.step (Modes.run Modes.state0 cs) c)) with
             | Modes.CClosed => False
             | Modes.COpen o' =>
                 Z.land (Modes.dflag o') MODE_MASK = Z.land (Modes.dflag o) MODE_MASK /\
                 Z.land (Modes.nflags o') MODE_MASK = Z.land (Modes.nflags o) MODE_MASK /\
                 Modes.old o' = Modes.old o /\
                 (is_setfill c = false ->
                  Modes.dflag o' = Modes.dflag o /\ Modes.nflags o' = Modes.nflags o) /\
                 Z.land (Modes.dflag o') (Z.lnot Gen_modes.NC_MODE_FILL) =
                 Z.land (Modes.dflag o) (Z.lnot Gen_modes.NC_MODE_FILL) /\
                 Z.land (Modes.nflags o') (Z.lnot Gen_modes.NC_MODE_FILL) =
                 Z.land (Modes.nflags o) (Z.lnot Gen_modes.NC_MODE_FILL)
             end
         end.
Proof. exact @mode_changes_only_by. Qed.
Print Assumptions C14_mode_changes_only_by.

Theorem C14_mode_transitions :
  forall (cs : list Modes.call) (c : Modes.call) (o o' : Modes.ost),
         Modes.co (Modes.run Modes.state0 cs) = Modes.COpen o ->
         Modes.co (fst (Modes.step (Modes.run Modes.state0 cs) c)) = Modes.COpen o' ->
         (forall s : bool, c <> Modes.Create s) ->
         (forall a b d : bool, c <> Modes.Open a b d) ->
         Modes.w_mode (Modes.view_of o') =
         amode_next (Modes.w_mode (Modes.view_of o)) c
           (snd (Modes.step (Modes.run Modes.state0 cs) c)) /\
         Modes.w_ro (Modes.view_of o') = Modes.w_ro (Modes.view_of o).
Proof. exact @mode_transitions. Qed.
Print Assumptions C14_mode_transitions.

Theorem C14_start_modes :
  forall (cs : list Modes.call) (c : Modes.call) (o' : Modes.ost),
         Modes.co (Modes.run Modes.state0 cs) = Modes.CClosed ->
         Modes.co (fst (Modes.step (Modes.run Modes.state0 cs) c)) = Modes.COpen o' ->
         match c with
         | Modes.Create _ =>
             Modes.w_mode (Modes.view_of o') = Modes.MDefine /\ Modes.w_ro (Modes.view_of o') = false
         | Modes.Open rw _ _ =>
             Modes.w_mode (Modes.view_of o') = Modes.MColl /\ Modes.w_ro (Modes.view_of o') = negb rw
         | _ => False
         end.
Proof. exact @start_modes. Qed.
Print Assumptions C14_start_modes.

Theorem C14_rejected_no_effect :
  forall (cs : list Modes.call) (c : Modes.call),
         c <> Modes.Close ->
         c <> Modes.Abort ->
         snd (Modes.step (Modes.run Modes.state0 cs) c) <> Gen_consts.NC_NOERR ->
         fst (Modes.step (Modes.run Modes.state0 cs) c) = Modes.run Modes.state0 cs.
Proof. exact @rejected_no_effect. Qed.
Print Assumptions C14_rejected_no_effect.

Theorem C14_close_pending_cancels_and_reports :
  forall (cs : list Modes.call) (o : Modes.ost),
         Modes.co (Modes.run Modes.state0 cs) = Modes.COpen o ->
         let st := Modes.run Modes.state0 cs in
         fst (Modes.step st Modes.Close) = Modes.state0 /\
         snd (Modes.step st Modes.Close) =
         (if
           (Modes.v_get (Modes.view_aux (Modes.ax st)) || Modes.v_put (Modes.view_aux (Modes.ax st)))%bool
          then Gen_consts.NC_EPENDING
          else Gen_consts.NC_NOERR) /\
         fst (Modes.step st Modes.Abort) = Modes.state0 /\
         snd (Modes.step st Modes.Abort) = Gen_consts.NC_NOERR.
Proof. exact @close_pending_cancels_and_reports. Qed.
Print Assumptions C14_close_pending_cancels_and_reports.

Theorem C14_layers_agree :
  forall (cs : list Modes.call) (o : Modes.ost),
         Modes.co (Modes.run Modes.state0 cs) = Modes.COpen o ->
         Modes.d_def o = Modes.n_def o /\
         (Modes.d_def o = false -> Modes.d_indep o = Modes.n_indep o) /\
         Modes.d_ro o = Modes.n_ro o /\
         Modes.d_fill o = Modes.n_fill o /\
         (Modes.old o = true -> Modes.n_def o = true /\ Modes.n_new o = false) /\
         (Modes.n_new o = true -> Modes.n_def o = true) /\
         (Modes.d_ro o = true -> Modes.d_def o = false) /\
         (Modes.n_def o = true -> Modes.n_indep o = false).
Proof. exact @layers_agree. Qed.
Print Assumptions C14_layers_agree.

(* the unguarded statement is false of the code: ncmpi_redef keeps NC_MODE_INDEP in pncp->flag (cleared by the next enddef) *)
Theorem C14_layers_agree_indep_refuted :
  ~ layers_agree_indep_full.
Proof. exact @layers_agree_indep_refuted. Qed.
Print Assumptions C14_layers_agree_indep_refuted.

(* the dispatcher's NC_MODE_CREATE bit is never cleared (and never read) *)
Theorem C14_layers_agree_create_refuted :
  ~ layers_agree_create_full.
Proof. exact @layers_agree_create_refuted. Qed.
Print Assumptions C14_layers_agree_create_refuted.

(* with the guard fvr_ok: fill_var_rec only in safe mode or once the dispatcher returns its sanity error *)
Theorem C14_error_is_first_applicable_partial :
  forall (cs : list Modes.call) (c : Modes.call),
         fvr_ok (Modes.co (Modes.run Modes.state0 cs)) c = true ->
         snd (Modes.step (Modes.run Modes.state0 cs) c) =
         Modes.spec_err (Modes.co (Modes.run Modes.state0 cs))
           (Modes.view_aux (Modes.ax (Modes.run Modes.state0 cs))) c.
Proof. exact @error_is_first_applicable_partial. Qed.
Print Assumptions C14_error_is_first_applicable_partial.

(* the full statement if Gen_modes.FILL_VAR_REC_RETURNS_ERR (library repaired), its refutation otherwise *)
Theorem C14_error_is_first_applicable_current :
  if Gen_modes.FILL_VAR_REC_RETURNS_ERR
         then error_is_first_applicable_full
         else ~ error_is_first_applicable_full.
Proof. exact @error_is_first_applicable_current. Qed.
Print Assumptions C14_error_is_first_applicable_current.

Theorem C14_permitted_succeeds :
  forall (cs : list Modes.call) (c : Modes.call),
         Modes.permitted (Modes.co (Modes.run Modes.state0 cs))
           (Modes.view_aux (Modes.ax (Modes.run Modes.state0 cs))) c = true ->
         snd (Modes.step (Modes.run Modes.state0 cs) c) = Gen_consts.NC_NOERR.
Proof. exact @permitted_succeeds. Qed.
Print Assumptions C14_permitted_succeeds.

(* the order of the error tests in the C sources (regenerated into Gen_modes.v) is the order the model uses *)
Theorem C14_source_order_matches_model :
  hd 0%Z Gen_modes.order_ncmpi_enddef = Gen_consts.NC_ENOTINDEFINE /\
         is_subseq (Gen_consts.NC_ENOTINDEFINE :: Gen_consts.NC_EINVAL :: nil)
           Gen_modes.order_ncmpi__enddef = true /\
         Gen_modes.order_ncmpi_redef = Gen_consts.NC_EPERM :: Gen_consts.NC_EINDEFINE :: nil /\
         Gen_modes.order_ncmpi_set_fill = Gen_consts.NC_EPERM :: Gen_consts.NC_ENOTINDEFINE :: nil /\
         hd 0%Z Gen_modes.order_ncmpi_def_dim = Gen_consts.NC_ENOTINDEFINE /\
         hd 0%Z Gen_modes.order_ncmpi_def_var = Gen_consts.NC_ENOTINDEFINE /\
         hd 0%Z Gen_modes.order_ncmpi_def_var_fill = Gen_consts.NC_ENOTINDEFINE /\
         is_subseq
           (Gen_consts.NC_EPERM
            :: Gen_consts.NC_EINDEFINE :: Gen_consts.NC_ENOTRECVAR :: Gen_consts.NC_EINDEP :: nil)
           Gen_modes.order_ncmpi_fill_var_rec = true /\
         hd 0%Z Gen_modes.order_ncmpi_rename_var = Gen_consts.NC_EPERM /\
         hd 0%Z Gen_modes.order_ncmpi_rename_dim = Gen_consts.NC_EPERM /\
         is_subseq
           (Gen_consts.NC_EPERM :: Gen_consts.NC_ENOTINDEFINE :: Gen_consts.NC_ENOTVAR :: nil)
           Gen_modes.order_ncmpi_del_att = true /\
         is_subseq (Gen_consts.NC_EPERM :: Gen_consts.NC_ENOTVAR :: nil)
           Gen_modes.order_sanity_check_put = true /\
         is_subseq
           (Gen_consts.NC_EPERM
            :: Gen_consts.NC_EINDEFINE
               :: Gen_consts.NC_EINDEP :: Gen_consts.NC_ENOTINDEP :: Gen_consts.NC_ENOTVAR :: nil)
           Gen_modes.order_sanity_check = true /\
         hd 0%Z Gen_modes.order_ncmpio_begin_indep_data = Gen_consts.NC_EINDEFINE /\
         hd 0%Z Gen_modes.order_ncmpio_end_indep_data = Gen_consts.NC_EINDEFINE /\
         hd 0%Z Gen_modes.order_ncmpio_sync = Gen_consts.NC_EINDEFINE /\
         is_subseq (Gen_consts.NC_EINDEFINE :: Gen_consts.NC_EPERM :: nil)
           Gen_modes.order_ncmpio_sync_numrecs = true /\
         Gen_modes.order_ncmpio_wait =
         Gen_consts.NC_EINDEFINE :: Gen_consts.NC_ENOTINDEP :: Gen_consts.NC_EINDEP :: nil /\
         is_subseq (Gen_consts.NC_EPREVATTACHBUF :: nil) Gen_modes.order_ncmpio_buffer_attach = true /\
         Gen_modes.order_ncmpio_buffer_detach =
         Gen_consts.NC_ENULLABUF :: Gen_consts.NC_EPENDINGBPUT :: nil /\
         is_subseq (Gen_consts.NC_ENOTINDEFINE :: nil) Gen_modes.order_ncmpio_put_att = true /\
         is_subseq (Gen_consts.NC_ENOTATT :: nil) Gen_modes.order_ncmpio_del_att = true /\
         Gen_modes.order_ncmpio_rename_var = Gen_consts.NC_ENOTINDEFINE :: nil /\
         Gen_modes.order_ncmpio_rename_dim = Gen_consts.NC_ENOTINDEFINE :: nil /\
         Gen_modes.COMPLETE_NONBLOCKING_IO = false /\
         Gen_modes.macro_NC_readonly_tests = Gen_modes.NC_MODE_RDONLY /\
         Gen_modes.macro_NC_indef_tests = Gen_modes.NC_MODE_DEF /\
         Gen_modes.macro_NC_indep_tests = Gen_modes.NC_MODE_INDEP /\
         Gen_modes.macro_NC_IsNew_tests = Gen_modes.NC_MODE_CREATE /\
         Gen_modes.macro_NC_dofill_tests = Gen_modes.NC_MODE_FILL /\
         Gen_modes.create_flag_init = Z.lor Gen_modes.NC_MODE_DEF Gen_modes.NC_MODE_CREATE /\
         Gen_modes.open_flag_init = 0%Z.
Proof. exact @source_order_matches_model. Qed.
Print Assumptions C14_source_order_matches_model.
