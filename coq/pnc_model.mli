
val negb : bool -> bool

type nat =
| O
| S of nat

val fst : ('a1 * 'a2) -> 'a1

val snd : ('a1 * 'a2) -> 'a2

val length : 'a1 list -> nat

val app : 'a1 list -> 'a1 list -> 'a1 list

type comparison =
| Eq
| Lt
| Gt

val compOpp : comparison -> comparison

val add : nat -> nat -> nat

val eqb : bool -> bool -> bool

module Nat :
 sig
  val eqb : nat -> nat -> bool
 end

val hd : 'a1 -> 'a1 list -> 'a1

val tl : 'a1 list -> 'a1 list

val last : 'a1 list -> 'a1 -> 'a1

val removelast : 'a1 list -> 'a1 list

val rev : 'a1 list -> 'a1 list

val map : ('a1 -> 'a2) -> 'a1 list -> 'a2 list

val flat_map : ('a1 -> 'a2 list) -> 'a1 list -> 'a2 list

val fold_left : ('a1 -> 'a2 -> 'a1) -> 'a2 list -> 'a1 -> 'a1

val existsb : ('a1 -> bool) -> 'a1 list -> bool

val forallb : ('a1 -> bool) -> 'a1 list -> bool

val filter : ('a1 -> bool) -> 'a1 list -> 'a1 list

val firstn : nat -> 'a1 list -> 'a1 list

val skipn : nat -> 'a1 list -> 'a1 list

val repeat : 'a1 -> nat -> 'a1 list

type positive =
| XI of positive
| XO of positive
| XH

type z =
| Z0
| Zpos of positive
| Zneg of positive

module Pos :
 sig
  val succ : positive -> positive

  val add : positive -> positive -> positive

  val add_carry : positive -> positive -> positive

  val pred_double : positive -> positive

  val mul : positive -> positive -> positive

  val iter : ('a1 -> 'a1) -> 'a1 -> positive -> 'a1

  val size : positive -> positive

  val compare_cont : comparison -> positive -> positive -> comparison

  val compare : positive -> positive -> comparison

  val eqb : positive -> positive -> bool

  val iter_op : ('a1 -> 'a1 -> 'a1) -> positive -> 'a1 -> 'a1

  val to_nat : positive -> nat

  val of_succ_nat : nat -> positive
 end

module Z :
 sig
  val double : z -> z

  val succ_double : z -> z

  val pred_double : z -> z

  val pos_sub : positive -> positive -> z

  val add : z -> z -> z

  val opp : z -> z

  val sub : z -> z -> z

  val mul : z -> z -> z

  val pow_pos : z -> positive -> z

  val pow : z -> z -> z

  val compare : z -> z -> comparison

  val leb : z -> z -> bool

  val ltb : z -> z -> bool

  val geb : z -> z -> bool

  val gtb : z -> z -> bool

  val eqb : z -> z -> bool

  val max : z -> z -> z

  val abs : z -> z

  val to_nat : z -> nat

  val of_nat : nat -> z

  val pos_div_eucl : positive -> z -> z * z

  val div_eucl : z -> z -> z * z

  val div : z -> z -> z

  val modulo : z -> z -> z

  val odd : z -> bool

  val log2 : z -> z
 end

type byte = z

val zlen : 'a1 list -> z

val put_u32 : z -> byte list

val put_u64 : z -> byte list

val get_u32 : byte list -> (z * byte list) option

val get_u64 : byte list -> (z * byte list) option

val be_bytes : nat -> z -> byte list

val be_value : byte list -> z -> z

val rndup : z -> z -> z

val padlen : z -> z

val zeros : z -> byte list

val pad4 : z -> byte list

val znth : 'a1 list -> z -> 'a1 -> 'a1

val zfirstn : z -> 'a1 list -> 'a1 list

val zskipn : z -> 'a1 list -> 'a1 list

val zupd : 'a1 list -> z -> 'a1 -> 'a1 list

val zseq : z -> nat -> z list

val zrange : z -> z -> z list

val zprod : z list -> z

val zsum : z list -> z

val list_eqb : ('a1 -> 'a1 -> bool) -> 'a1 list -> 'a1 list -> bool

val bytes_eqb : z list -> z list -> bool

val find_index : ('a1 -> bool) -> 'a1 list -> z -> z option

val zip : 'a1 list -> 'a2 list -> ('a1 * 'a2) list

val last_opt : 'a1 list -> 'a1 option

val fILE_ALIGNMENT_DEFAULT : z

val nC_MAX_NAME : z

val nC_MAX_INT : z

val nC_MAX_UINT : z

val nC_MAX_INT64 : z

val mOVE_UNIT : z

val nC_DIMENSION_TAG : z

val nC_VARIABLE_TAG : z

val nC_ATTRIBUTE_TAG : z

val nC_NOERR : z

val nC_EBADID : z

val nC_EEXIST : z

val nC_EINVAL : z

val nC_EPERM : z

val nC_ENOTINDEFINE : z

val nC_EINDEFINE : z

val nC_EINVALCOORDS : z

val nC_ENAMEINUSE : z

val nC_ENOTATT : z

val nC_EBADTYPE : z

val nC_EBADDIM : z

val nC_EUNLIMPOS : z

val nC_ENOTVAR : z

val nC_EGLOBAL : z

val nC_EMAXNAME : z

val nC_EUNLIMIT : z

val nC_ECHAR : z

val nC_EEDGE : z

val nC_ESTRIDE : z

val nC_EBADNAME : z

val nC_ERANGE : z

val nC_EVARSIZE : z

val nC_EDIMSIZE : z

val nC_ENOTINDEP : z

val nC_EINDEP : z

val nC_EIOMISMATCH : z

val nC_ENEGATIVECNT : z

val nC_ENOENT : z

val nC_ESTRICTCDF2 : z

val nC_EPENDING : z

val xlen_type : z -> z

val valid_type : z -> z -> bool

type dim = { d_name : byte list; d_size : z }

type att = { a_name : byte list; a_type : z; a_nelems : z; a_data : byte list }

type var = { v_name : byte list; v_dimids : z list; v_atts : att list;
             v_type : z; v_begin : z; v_nofill : bool }

type hdr = { h_format : z; h_numrecs : z; h_dims : dim list;
             h_gatts : att list; h_vars : var list }

val dim_size : dim list -> z -> z

val var_shape : dim list -> var -> z list

val is_recvar : dim list -> var -> bool

val var_nelems_per_rec : z list -> z

val var_len_of : z -> z list -> z

val var_len : dim list -> var -> z

val put_nn : z -> z -> byte list

val put_name : z -> byte list -> byte list

val put_dim : z -> dim -> byte list

val put_list : z -> z -> ('a1 -> byte list) -> 'a1 list -> byte list

val put_att : z -> att -> byte list

val vsize_field : z -> z -> byte list

val put_var : z -> dim list -> var -> byte list

val magic : z -> byte list

val encode_header : hdr -> byte list

val sz_nn : z -> z

val sz_off : z -> z

val len_att : z -> att -> z

val len_attarray : z -> att list -> z

val len_dim : z -> dim -> z

val len_var : z -> var -> z

val hdr_len : hdr -> z

val check_vlen_loop : z list -> z -> z -> bool

val check_vlen : z -> z list -> z -> bool

val vlen_max_of : z -> z

val vlens_pass :
  z -> z -> ((bool * z) * z list) list -> bool -> z -> bool -> z ->
  ((z * bool) * z) option

val var_triple : dim list -> var -> (bool * z) * z list

val check_vlens : hdr -> z

type layout = { l_xsz : z; l_begin_var : z; l_begin_rec : z; l_recsize : 
                z; l_begins : z list }

type aligncfg = { env_h_align : z; env_v_align : z; env_r_align : z }

type enddef_args = { e_h_minfree : z; e_v_align : z; e_v_minfree : z;
                     e_r_align : z }

val resolve_align : aligncfg -> enddef_args -> z -> bool -> (z * z) * z

val begins_fixed :
  z -> (bool * z) list -> z list -> z -> z option list -> (z * z option list)
  option

val begins_rec :
  z -> (bool * z) list -> z list -> z -> z -> z option -> z option list ->
  (((z * z) * z option) * z option list) option

val merge_opts : z option list -> z option list -> z list

val begins :
  hdr -> z -> z -> z -> z -> (layout * bool list) option -> z -> layout option

val set_begins : hdr -> z list -> hdr

val set_numrecs : hdr -> z -> hdr

type geom = { g_begin : z; g_xsz : z; g_shape : z list; g_recsize : z;
              g_nrecvars : z }

val g_isrec : geom -> bool

val lin : z list -> z list -> z

val all_le1 : z list -> bool

val contig_scan : (z * z) list -> z list -> bool

val is_contig : bool -> z -> z list -> z list -> bool

val first_offset : geom -> z list -> z

val subarray_disps : z list -> z list -> z list -> z list

val vara_offsets : geom -> z list -> z list -> z list

val flatten_outer : (((z * z) * z) * z) list -> z list -> z list

val dim_units : bool -> z -> z -> z list -> nat -> z list

val quad : (z * z) -> (z * z) -> ((z * z) * z) * z

val stride_flatten : geom -> z list -> z list -> z list -> z list * z

val is_true_vars : z list -> z list -> bool

val vars_offsets : geom -> z list -> z list -> z list option -> z list

val model_offsets : geom -> z list -> z list -> z list option -> z list

val imap_contig_scan : (z * z) list -> z -> z * (z * z) list

val imap_outer : (z * z) list -> z list -> z list

val imap_positions : z list -> z list option -> z list option

val check_EINVALCOORDS : bool -> z -> z -> z -> z

val check_EEDGE : z -> z -> z option -> z -> z

val first_err : z list -> z

type apikind =
| API_VAR1
| API_VARA
| API_VARS
| API_VARM

val check_scs :
  z -> bool -> bool -> bool -> apikind -> z list -> z -> z list option -> z
  list option -> z list option -> z

val is_float_type : z -> bool

val is_signed_int : z -> bool

val type_min : z -> z

val type_max : z -> z

val fbias : z -> z

val pos_to_float_bits : z -> z -> z -> z

val z_to_float_bits : z -> z -> z -> z

val float_decode : z -> z -> z -> ((bool * z) * z) option

val cmp_scaled : z -> z -> z -> comparison

val trunc_scaled : z -> z -> z

type cval =
| CInt of z
| CFloat of bool * z * z
| CNaN
| CInf of bool

val fmant : z -> z

val febits : z -> z

val decode_ext : z -> byte list -> cval

val float_bits_of : z -> cval -> z option

val nC_FILL : z -> z

val fill_bytes : z -> byte list

val convert : z -> z -> byte list -> (byte list * bool) option

val is8 : z -> bool

val is16 : z -> bool

val pat_lim : z -> z -> z

val pat_value : z -> z -> z -> z

val enc_value : z -> z -> byte list

val mem_of_be : byte list -> byte list

val chunks : nat -> nat -> 'a1 list -> 'a1 list list

val chunk_list : z -> 'a1 list -> 'a1 list list

type 'a parser0 = byte list -> ('a * byte list) option

val p_u32 : z parser0

val p_u64 : z parser0

val p_nn : z -> z parser0

val p_bytes : z -> byte list parser0

val p_padded : z -> (byte list * byte list) parser0

val p_name : z -> (byte list * byte list) parser0

val p_many : 'a1 parser0 -> nat -> 'a1 list parser0

val p_list : z -> z -> 'a1 parser0 -> 'a1 list parser0

type dec_dim = { dd_dim : dim; dd_pad : byte list }

type dec_att = { da_att : att; da_pad : byte list }

type dec_var = { dv_var : var; dv_vsize : z; dv_pad : byte list;
                 dv_atts : dec_att list }

val p_dim : z -> dec_dim parser0

val p_att : z -> dec_att parser0

val p_var : z -> dec_var parser0

type decoded = { dc_hdr : hdr; dc_dims : dec_dim list;
                 dc_gatts : dec_att list; dc_vars : dec_var list; dc_len : 
                 z }

val decode : byte list -> decoded option

val all_zero : byte list -> bool

val expected_vsize : z -> z -> z

val strict_valid : decoded -> bool

val begins_increasing : z -> (z * z) list -> bool

val layout_ok : hdr -> z -> bool

val layout_of_hdr : hdr -> z -> layout

type tok =
| TZ of z
| THex of byte list
| TName of z * byte list
| TSame
| TBuf of z * byte list option
| TStat of z * z
| TSkip

val rC_UNMODELLED : z

type disk = { dk_exists : bool; dk_size : z; dk_get : (z -> byte) }

val empty_disk : disk

val dk_write : disk -> z -> byte list -> disk

val dk_read : disk -> z -> z -> byte list

val dk_scatter : disk -> z -> z list -> byte list -> disk

val dk_gather : disk -> z -> z list -> byte list

type bufspec =
| BTyped
| BContig of z
| BVector of z * z * z
| BNull

type form =
| FVar
| FVar1 of z list option
| FVara of z list option * z list option
| FVars of z list option * z list option * z list option
| FVarm of z list option * z list option * z list option * z list option
| FVarn of (z list * z list) list

type access = { ac_var : z; ac_form : form; ac_memt : z; ac_flex : bool;
                ac_buf : bufspec; ac_seed : z }

type preq = { pr_id : z; pr_isput : bool; pr_isbput : bool; pr_slot : 
              z; pr_acc : access; pr_stream : byte list; pr_bytes : z }

type slotst = { sl_id : z; sl_isput : bool; sl_buf : byte list;
                sl_last : byte list }

type rankst = { rk_numrecs : z; rk_dirty : bool; rk_reqs : preq list;
                rk_nput : z; rk_nget : z; rk_abuf : (z * z) option;
                rk_slots : (z * slotst) list }

val rank_init : z -> rankst

type filest = { f_hdr : hdr; f_lay : layout; f_indef : bool; f_indep : 
                bool; f_rdonly : bool; f_isnew : bool;
                f_old : (hdr * layout) option; f_fill : bool;
                f_align : aligncfg; f_ranks : rankst list; f_slot : z;
                f_tainted : bool }

type world = { w_nprocs : z; w_disks : disk list;
               w_files : filest option list; w_ids : z list;
               w_hints : aligncfg; w_strict : bool; w_move_unit : z }

val no_align : aligncfg

val world0 : z -> world

val set_disk : world -> z -> disk -> world

val get_disk : world -> z -> disk

val set_files : world -> filest option list -> world

val set_ids : world -> z list -> world

val set_hints : world -> aligncfg -> world

val put_file : world -> z -> filest option -> world

val lookup_file : world -> z -> (z * filest) option

val upd_hdr : filest -> hdr -> filest

val upd_ranks : filest -> rankst list -> filest

val upd_rank : filest -> z -> rankst -> filest

val get_rank : filest -> z -> rankst

val taint : filest -> filest

val rk_set_numrecs : rankst -> z -> bool -> rankst

val all_ranks : world -> z list

type obs = (z * z) * tok list

val same_all : world -> z -> tok list -> obs list

val name_eqb : z list -> z list -> bool

val find_dim : hdr -> byte list -> z option

val find_var : hdr -> byte list -> z option

val find_att : att list -> byte list -> z option

val unlim_dimid : hdr -> z

val num_rec_vars : hdr -> z

val geom_of : filest -> var -> geom

val first_free : filest option list -> z -> z

val empty_layout : layout

val do_create : world -> z -> z -> z -> world * obs list

val name_err : byte list -> z

val simple_char : z -> bool

val simple_name : byte list -> bool

val do_def_dim : filest -> byte list -> z -> ((filest * z) * tok list) option

val do_def_var :
  filest -> byte list -> z -> z list -> ((filest * z) * tok list) option

val att_bytes : z -> z list -> byte list option

val set_att_list : att list -> att -> att list

val upd_var_atts : hdr -> z -> (att list -> att list) -> hdr

val atts_of : hdr -> z -> att list option

val fillvalue_name : byte list

val write_header : disk -> hdr -> disk

val write_numrecs_bytes : disk -> z -> z -> disk

val move_round : z -> z -> z -> z -> z -> z * ((z * z) * z) list

val move_rounds : nat -> disk -> z -> z -> z -> z -> z -> disk

val move_file_block : disk -> z -> z -> z -> z -> z -> disk

val move_record_vars : disk -> z -> z -> z -> layout -> layout -> disk

val move_fixed_vars :
  disk -> z -> z -> hdr -> layout -> layout -> z list -> disk

val var_fill_bytes : var -> byte list

val fill_share : z -> z -> z -> z * z

val fill_plan : hdr -> layout -> z -> z -> z -> z -> ((z * z) * var) list

val repeat_bytes : byte list -> z -> byte list

val do_fill : disk -> hdr -> layout -> z -> z -> z -> disk

val fill_att_ok : var -> bool

val sync_ranks_numrecs : filest -> z -> filest

val do_enddef : world -> z -> filest -> enddef_args -> (world * z) option

val gUARD : z

val guard_bytes : byte list

val mem_size : z -> z

type rreq = { rq_start : z list; rq_count : z list;
              rq_stride : z list option; rq_imap : z list option }

val nelems_of : rreq -> z

val lbuf_positions : rreq -> z list

val buf_index : bufspec -> z -> z

val buf_nelems : bufspec -> z option

val buf_extent_elems : bufspec -> rreq -> z

val eff_memt : access -> z -> z

val sanity : filest -> bool -> bool -> bool -> access -> z

val form_args :
  form -> (((apikind * z list option) * z list option) * z list option) * z
  list option

val the_var : filest -> access -> var

val check_request :
  world -> filest -> z -> bool -> access -> z * rreq list option

val total_elems : rreq list -> z

val iomismatch : access -> rreq list -> bool

val put_stream : access -> z -> z -> rreq -> byte list

val with_bases : rreq list -> z -> (z * rreq) list

val put_new_numrecs : rreq -> z

val blank_buf : z -> byte list

val poke : byte list -> z -> byte list -> byte list

val buf_extent_list : bufspec -> rreq list -> z

val get_into_buffer :
  access -> z -> ((z * rreq) * byte list) list -> (byte list * bool) option

val disk_of : world -> filest -> disk

val put_rank :
  world -> z -> filest -> z -> bool -> access -> ((world * z) * z
  option) * bool

val coll_numrecs_sync : world -> z -> filest -> z option list -> world

val indep_numrecs : filest -> z -> z option -> filest

val get_rank_op : world -> filest -> z -> bool -> access -> z * tok list

type op =
| OCreate of z * z * z
| OOpen of z * z
| OClose of z
| OAbort of z
| OEnddef of z
| OEnddefX of z * z * z * z * z
| ORedef of z
| OBeginIndep of z
| OEndIndep of z
| OSync of z
| OSyncNumrecs of z
| OFlush of z
| ODefDim of z * byte list * z
| ODefVar of z * byte list * z * z list
| ORenameDim of z * z * byte list
| ORenameVar of z * z * byte list
| OPutAtt of z * z * byte list * z * z list
| OGetAtt of z * z * byte list
| ODelAtt of z * z * byte list
| ORenameAtt of z * z * byte list * byte list
| OCopyAtt of z * z * byte list * z * z
| OSetFill of z * z
| ODefVarFill of z * z * z * z * z
| OInqVarFill of z * z
| OFillVarRec of z * z * z
| OInq of z
| OInqName of z * z * byte list
| OInqAttid of z * z * byte list
| OInqNumrecs of z
| OInqNreqs of z
| OInqBuffer of z
| OAttach of z * z
| ODetach of z
| OSnapshot of z
| OExists of z
| OJunk of z * z * z
| OPut of z * bool * access
| OGet of z * bool * access
| OIput of z * z * access
| OIget of z * z * access
| OBput of z * z * access
| OWait of z * bool * z * z list
| OCancel of z * z * z list
| OBufs of z
| OSetId of z * z
| OHint of z * z
| ONoHints
| OBarrier
| OSleep
| OUnknown

type step =
| SAll of op
| SEach of op list
| SOne of z * op

val slot_of : op -> z

val unmodelled : world -> z list -> obs list

val taint_slot : world -> z -> world

val is_tainted : world -> z -> bool

val att_toks : att -> tok list

val inq_toks : filest -> z -> tok list

val do_open : world -> z -> z -> (world * obs list) option

val sync_numrecs_all : world -> z -> filest -> world

val set_modes : filest -> bool -> bool -> filest

val dump_slots : rankst -> tok list * rankst

val do_close : world -> z -> filest -> (world * obs list) option

val coll_put : world -> z -> filest -> (z * access) list -> world * obs list

val indep_put : world -> z -> filest -> z -> access -> world * obs list

val acc_unmodelled : access -> bool

val exec_all : world -> op -> world * obs list

val acc_of : op -> ((bool * bool) * access) option

val exec_each : world -> op list -> world * obs list

val exec_one : world -> z -> op -> world * obs list

val exec_step : world -> step -> world * obs list

val set_strict : world -> bool -> world

val set_move_unit : world -> z -> world
