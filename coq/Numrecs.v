(* Numrecs.v — executable model of PnetCDF's record-count bookkeeping (property C05).

   MODEL FILE: definitions only, no proofs (proofs: Proofs_Numrecs.v; statements: Properties_C05.v).
   It is run (vm_compute on generated cases) against the real library by checks/C05.py.

   What is modelled (file : function  ->  definition here)
     ncmpio_getput.m4 : put_varm, the block "for record variable, update number of records"
                        (new_numrecs computed when `status == NC_NOERR || status == NC_ERANGE`: an
                        NC_ERANGE put has written its data, PRecE; MPI_Allreduce MAX, `if (ncp->numrecs < max_numrecs)
                        write_numrecs + assign`; NC_REQ_INDEP else-branch)   -> coll_put_rec, indep_put_rec
     ncmpio_getput.m4 : GETPUT_API, NC_REQ_ZERO -> ncmpio_getput_zero_req (skips the Allreduce)
                                                                              -> PInvalid / hung
     ncmpio_fill.c    : fill_var_rec (max_numrecs = recno+1, Allreduce, update); the dispatcher
                        ncmpi_fill_var_rec returns NC_EINDEFINE / NC_EINDEP before calling the driver
                        (since the repair 080701ed also outside safe mode), so the call has no
                        effect in define or independent mode                  -> fill_rec
     ncmpio_i_getput.m4 : ncmpio_igetput_varm, queue insertion (SORT_LEAD_LIST_BASED_ON_VAR_BEGIN:
                        scan from the tail while put_lead_list[i].varp->begin > req_off), max_rec
                                                                              -> enqueue, post
     ncmpio_wait.c    : extract_reqs (NC_REQ_ALL/NC_PUT_REQ_ALL, the "same as NC_PUT_REQ_ALL"
                        shortcut num_reqs == numLeadPutReqs, the per-id search that skips
                        NC_REQ_NULL and already flagged entries)              -> extract
                        req_commit: the newnumrecs loop EXACTLY as written
                        `for (i=0; i<num_w_lead_reqs; i++)` over the HEAD of put_lead_list
                                                                              -> commit_loop
                        (corrected variant, loop over all numLeadPutReqs entries -> commit_fixed)
                        Allreduce MAX of do_io[3], do_write = (max num_w_reqs > 0),
                        wait_getput's numrecs update (collective / independent)
                                                                              -> wait_all, wait_indep
     ncmpio_sync.c    : ncmpio_write_numrecs (root only, guard `new_numrecs > ncp->numrecs ||
                        NC_ndirty`), ncmpio_sync_numrecs, ncmpio_sync      -> write_numrecs, sync_body
     ncmpio_file_misc.c : ncmpio_redef, begin/end_indep_data               -> redef, begin_indep, end_indep
     ncmpio_enddef.c  : write_NC writes root's numrecs, clears NC_NDIRTY   -> enddef
     ncmpio_close.c + open : end_indep if independent, pending requests are CANCELLED (not
                        completed), header re-read and broadcast            -> reopen

   Simplifications (stated, not verified):
     * one file with at least one record variable, opened for writing, safe mode off, NC_HCOLL off,
       no intra-node aggregation, no burst buffering, no subfiling; numrecs stays below 2^31
       (CDF-1/2 NC_EINTOVERFLOW path not modelled); MPI calls succeed.
     * data/define/independent mode flags are single fields: only collective calls change them,
       so they are equal on all ranks.
     * request ids are abstracted to caller-chosen tags (q_tag); get requests are not modelled
       (numGetReqs = 0); a wait naming an id that is not pending returns NC_EINVAL_REQUEST and
       the model leaves the state unchanged (the stale NC_REQ_TO_FREE flags the library leaves
       behind in that case belong to C02); NC_REQ_SKIP is never set.
     * blocking put_varn(_all) is `iput_varn` + `ncmpio_wait(1,&id)` in the library
       (ncmpio_varn.m4); the generator decomposes it into Post + WaitAll/Wait [Some tag]
       (zero-length participant: no Post, selection [None]).
     * a collective put on a record variable in which some but not all ranks take the
       NC_REQ_ZERO path never returns (F4, property C08): the model raises `hung` and freezes.
     * g_own is GHOST state (1 + highest record index whose write this rank has completed so
       far, 0 if none).  No step reads it except to update it; it exists for the theorems
       and is compared with the Python oracle's bookkeeping by the check.

   Timing: independent operations of different ranks are separate list elements, so "all
   relative timings of the processes" = all op lists that respect each rank's program order. *)
From Coq Require Import ZArith List Bool Arith.
Import ListNotations.
Local Open Scope Z_scope.

(* ---------------------------------------------------------------- state *)

(* pending lead put request (NC_lead_req) *)
Record preq := mkreq {
  q_tag : nat;        (* stands for the request id *)
  q_isrec : bool;     (* IS_RECVAR(varp) *)
  q_begin : Z;        (* varp->begin *)
  q_maxrec : Z }.     (* max_rec: 1 + highest record requested (-1 for fixed-size variables) *)

Record rk := mkrk {
  numrecs : Z;        (* ncp->numrecs *)
  ndirty : bool;      (* NC_NDIRTY *)
  queue : list preq;  (* ncp->put_lead_list[0..numLeadPutReqs-1] *)
  g_own : Z }.        (* ghost *)

Record state := mkst {
  ranks : list rk;    (* rank 0 (root) first *)
  hdr : Z;            (* numrecs field of the file header on disk *)
  indep : bool;       (* NC_MODE_INDEP *)
  indef : bool;       (* NC_MODE_DEF *)
  hung : bool }.

Definition set_numrecs (r : rk) (v : Z) := mkrk v (ndirty r) (queue r) (g_own r).
Definition set_ndirty (r : rk) (b : bool) := mkrk (numrecs r) b (queue r) (g_own r).
Definition set_queue (r : rk) (q : list preq) := mkrk (numrecs r) (ndirty r) q (g_own r).
Definition set_own (r : rk) (v : Z) := mkrk (numrecs r) (ndirty r) (queue r) v.
Definition set_ranks (s : state) (l : list rk) := mkst l (hdr s) (indep s) (indef s) (hung s).
Definition set_hdr (s : state) (v : Z) := mkst (ranks s) v (indep s) (indef s) (hung s).
Definition set_indep (s : state) (b : bool) := mkst (ranks s) (hdr s) b (indef s) (hung s).
Definition set_indef (s : state) (b : bool) := mkst (ranks s) (hdr s) (indep s) b (hung s).
Definition set_hung (s : state) := mkst (ranks s) (hdr s) (indep s) (indef s) true.

Definition init_rank (n0 : Z) := mkrk n0 false [] 0.
(* n ranks right after create+enddef (n0 = 0) or open of a file holding n0 records *)
Definition init (n : nat) (n0 : Z) := mkst (repeat (init_rank n0) n) n0 false false false.

(* MPI_Allreduce(MAX) over the participating ranks *)
Definition zmaxl (l : list Z) : Z :=
  match l with [] => 0 | x :: t => fold_right Z.max x t end.

Fixpoint upd_nth {A} (i : nat) (f : A -> A) (l : list A) {struct l} : list A :=
  match l, i with
  | [], _ => []
  | x :: t, O => f x :: t
  | x :: t, S j => x :: upd_nth j f t
  end.

(* ---------------------------------------------------------------- ncmpio_write_numrecs *)

(* executed by the root; returns the root's new state and the value written to the header *)
Definition write_numrecs (r0 : rk) (new : Z) : rk * option Z :=
  if (new >? numrecs r0) || ndirty r0 then
    let r0' := if new >? numrecs r0 then set_numrecs r0 new else r0 in
    (r0', Some (numrecs r0'))
  else (r0, None).

(* the common tail of put_varm / fill_var_rec / wait_getput in collective mode:
     if (ncp->numrecs < max_numrecs) { ncmpio_write_numrecs(ncp, max_numrecs); ncp->numrecs = max_numrecs; } *)
Definition upd_if_less (isroot : bool) (mx : Z) (r : rk) : rk * option Z :=
  if numrecs r <? mx then
    let rw := if isroot then write_numrecs r mx else (r, None) in
    (set_numrecs (fst rw) mx, snd rw)
  else (r, None).

Definition coll_update (mx : Z) (st : state) : state :=
  match ranks st with
  | [] => st
  | r0 :: rest =>
      let rw := upd_if_less true mx r0 in
      mkst (fst rw :: map (fun r => fst (upd_if_less false mx r)) rest)
           (match snd rw with Some v => v | None => hdr st end)
           (indep st) (indef st) (hung st)
  end.

(* ---------------------------------------------------------------- blocking puts, fill *)

Inductive part :=
| PNone                (* zero-length request (count 0): takes part in every collective *)
| PRec (hi : Z)        (* writes records up to index hi: start[0] + (count[0]-1)*stride[0] = hi; status NC_NOERR *)
| PRecE (hi : Z)       (* the same, but a value was not representable in the external type: the data is
                          written (the element gets the fill value) and the call returns NC_ERANGE *)
| PInvalid.            (* argument error detected by the dispatcher: NC_REQ_ZERO path *)

Definition is_invalid (p : part) := match p with PInvalid => true | _ => false end.
Definition erange_free_part (p : part) := match p with PRecE _ => false | _ => true end.

(* ghost: the write is complete in both cases (NC_ERANGE is not a fatal error, put_varm proceeds) *)
Definition part_done (r : rk) (p : part) : rk :=
  match p with
  | PRec hi | PRecE hi => set_own r (Z.max (g_own r) (hi + 1))
  | _ => r
  end.

Section Put.
(* put_varm: `if (nelems > 0 && (status == NC_NOERR || status == NC_ERANGE))` computes new_numrecs from
   the request; E = true mirrors that condition, E = false is the condition without the NC_ERANGE
   disjunct (checks/C05.py reads the condition from the sources as built) *)
Variable E : bool.

(* new_numrecs of one rank *)
Definition part_new (r : rk) (p : part) : Z :=
  match p with
  | PRec hi => hi + 1
  | PRecE hi => if E then hi + 1 else numrecs r
  | _ => numrecs r
  end.

Definition coll_put_rec (ps : list part) (st : state) : state :=
  if indef st || indep st then st                       (* NC_EINDEFINE / NC_EINDEP on every rank *)
  else if negb (length ps =? length (ranks st))%nat then st
  else
    let ninv := length (filter is_invalid ps) in
    if (ninv =? length ps)%nat then st                   (* every rank: ncmpio_getput_zero_req *)
    else if (0 <? ninv)%nat then set_hung st             (* some ranks skip the Allreduce: F4 *)
    else
      let rp := combine (ranks st) ps in
      let mx := zmaxl (map (fun x => part_new (fst x) (snd x)) rp) in
      coll_update mx (set_ranks st (map (fun x => part_done (fst x) (snd x)) rp)).

(* NC_REQ_INDEP branch: if (ncp->numrecs < new_numrecs) { ncp->numrecs = new_numrecs; set_NC_ndirty } *)
Definition indep_put_f (p : part) (r : rk) : rk :=
  let r1 := part_done r p in
  let new := part_new r p in
  if numrecs r1 <? new then set_ndirty (set_numrecs r1 new) true else r1.

Definition indep_put_rec (i : nat) (p : part) (st : state) : state :=
  if indef st || negb (indep st) then st                 (* NC_EINDEFINE / NC_ENOTINDEP *)
  else set_ranks st (upd_nth i (indep_put_f p) (ranks st)).
End Put.

Definition fill_rec (recnos : list Z) (st : state) : state :=
  if indef st || indep st then st                       (* NC_EINDEFINE / NC_EINDEP returned by the dispatcher *)
  else if negb (length recnos =? length (ranks st))%nat then st
  else
    let rp := combine (ranks st) recnos in
    let mx := zmaxl (map (fun x => snd x + 1) rp) in
    coll_update mx (set_ranks st (map (fun x => set_own (fst x) (Z.max (g_own (fst x)) (snd x + 1))) rp)).

(* ---------------------------------------------------------------- nonblocking: post *)

(* for (i=numLeadPutReqs-1; i>=0; i--) { if (put_lead_list[i].varp->begin <= req_off) break; shift } *)
Fixpoint ins_rev (rq : list preq) (reqoff : Z) (e : preq) : list preq :=
  match rq with
  | [] => [e]
  | x :: t => if q_begin x <=? reqoff then e :: x :: t else x :: ins_rev t reqoff e
  end.
Definition enqueue (q : list preq) (reqoff : Z) (e : preq) : list preq :=
  rev (ins_rev (rev q) reqoff e).

(* iput/bput accepted by rank i: req_off = varp->begin (+ recsize*start[0] for a record variable) *)
Definition post (i : nat) (tag : nat) (isrec : bool) (vbegin reqoff maxrec : Z) (st : state) : state :=
  set_ranks st (upd_nth i (fun r => set_queue r (enqueue (queue r) reqoff (mkreq tag isrec vbegin maxrec)))
                        (ranks st)).

(* ---------------------------------------------------------------- nonblocking: wait *)

Inductive wsel :=
| WAll                               (* NC_REQ_ALL / NC_PUT_REQ_ALL *)
| WIds (ids : list (option nat)).    (* explicit id array; None = NC_REQ_NULL *)

Fixpoint mark1 (q : list preq) (fl : list bool) (t : nat) : option (list bool) :=
  match q, fl with
  | e :: q', f :: fl' =>
      if negb f && Nat.eqb (q_tag e) t then Some (true :: fl')
      else match mark1 q' fl' t with Some r => Some (f :: r) | None => None end
  | _, _ => None
  end.

Fixpoint mark_ids (q : list preq) (fl : list bool) (ids : list (option nat)) : option (list bool) :=
  match ids with
  | [] => Some fl
  | None :: r => mark_ids q fl r
  | Some t :: r => match mark1 q fl t with Some fl' => mark_ids q fl' r | None => None end
  end.

(* extract_reqs: which lead requests get NC_REQ_TO_FREE; None = NC_EINVAL_REQUEST *)
Definition extract (q : list preq) (sel : wsel) : option (list bool) :=
  match sel with
  | WAll => Some (map (fun _ => true) q)
  | WIds ids =>
      if (length ids =? length q)%nat then Some (map (fun _ => true) q)   (* "same as NC_PUT_REQ_ALL" *)
      else mark_ids q (map (fun _ => false) q) ids
  end.

Definition loop_body (a : Z) (ef : preq * bool) : Z :=
  if q_isrec (fst ef) && snd ef then Z.max a (q_maxrec (fst ef)) else a.

(* newnumrecs = ncp->numrecs; for (i=0; i<k; i++) { skip unless recvar && TO_FREE; MAX with max_rec } *)
Definition loop_over (k : nat) (a : Z) (q : list preq) (fl : list bool) : Z :=
  fold_left loop_body (firstn k (combine q fl)) a.

Definition count_true (fl : list bool) : nat := length (filter (fun b => b) fl).

(* req_commit as written: k = num_w_lead_reqs, the NUMBER of flagged requests *)
Definition commit_loop (a : Z) (q : list preq) (fl : list bool) : Z := loop_over (count_true fl) a q fl.
(* corrected loop: k = ncp->numLeadPutReqs *)
Definition commit_fixed (a : Z) (q : list preq) (fl : list bool) : Z := loop_over (length q) a q fl.

Definition keep (q : list preq) (fl : list bool) : list preq :=
  map fst (filter (fun ef => negb (snd ef)) (combine q fl)).

(* queue coalesced, ghost: the flagged record requests are now completed writes *)
Definition complete (r : rk) (fl : list bool) : rk :=
  mkrk (numrecs r) (ndirty r) (keep (queue r) fl) (fold_left loop_body (combine (queue r) fl) (g_own r)).

Fixpoint extract_all (l : list (rk * wsel)) : option (list (rk * list bool)) :=
  match l with
  | [] => Some []
  | (r, s) :: t =>
      match extract (queue r) s, extract_all t with
      | Some fl, Some t' => Some ((r, fl) :: t')
      | _, _ => None
      end
  end.

(* structural condition under which the loop as written sees every request it completes:
   no flagged record request sits beyond the first k = #flagged queue positions *)
Definition head_ok_q (q : list preq) (sel : wsel) : bool :=
  match extract q sel with
  | Some fl => forallb (fun ef => negb (q_isrec (fst ef) && snd ef)) (skipn (count_true fl) (combine q fl))
  | None => true
  end.

Section Step.
Variable L : Z -> list preq -> list bool -> Z.     (* commit_loop or commit_fixed *)
Variable E : bool.                                 (* does put_varm count an NC_ERANGE put for new_numrecs *)

(* ncmpi_wait_all *)
Definition wait_all (sels : list wsel) (st : state) : state :=
  if indef st || indep st then st                         (* NC_EINDEFINE / NC_EINDEP *)
  else if negb (length sels =? length (ranks st))%nat then st
  else match extract_all (combine (ranks st) sels) with
       | None => st                                       (* do_io[2] != 0: every rank returns the error *)
       | Some rfl =>
           let mx := zmaxl (map (fun rf => L (numrecs (fst rf)) (queue (fst rf)) (snd rf)) rfl) in
           let do_write := existsb (fun rf => existsb (fun b => b) (snd rf)) rfl in
           let st1 := set_ranks st (map (fun rf => complete (fst rf) (snd rf)) rfl) in
           if do_write then coll_update mx st1 else st1
       end.

(* ncmpi_wait by rank i *)
Definition wait_indep (i : nat) (sel : wsel) (st : state) : state :=
  if indef st || negb (indep st) then st                  (* NC_EINDEFINE / NC_ENOTINDEP *)
  else set_ranks st (upd_nth i (fun r =>
         match extract (queue r) sel with
         | None => r
         | Some fl =>
             let new := L (numrecs r) (queue r) fl in
             let r1 := complete r fl in
             if existsb (fun b => b) fl && (numrecs r1 <? new)
             then set_ndirty (set_numrecs r1 new) true else r1
         end) (ranks st)).

(* ---------------------------------------------------------------- synchronisation calls *)

(* ncmpio_sync_numrecs in independent mode *)
Definition sync_body (st : state) : state :=
  let rs := map (fun r => set_ndirty r true) (ranks st) in
  let mx := zmaxl (map numrecs rs) in
  match rs with
  | [] => st
  | r0 :: rest =>
      let rw := write_numrecs r0 mx in
      mkst (map (fun r => set_ndirty (set_numrecs r mx) false) (fst rw :: rest))
           (match snd rw with Some v => v | None => hdr st end)
           (indep st) (indef st) (hung st)
  end.

Definition sync_numrecs (st : state) : state :=
  if indef st then st else if indep st then sync_body st else st.
Definition sync (st : state) : state := sync_numrecs st.
Definition begin_indep (st : state) : state := if indef st then st else set_indep st true.
Definition end_indep (st : state) : state :=
  if indef st then st else if indep st then set_indep (sync_body st) false else st.
Definition redef (st : state) : state :=
  if indef st then st else set_indef (end_indep st) true.
Definition enddef (st : state) : state :=
  if negb (indef st) then st
  else mkst (map (fun r => set_ndirty r false) (ranks st))
            (match ranks st with r0 :: _ => numrecs r0 | [] => hdr st end)
            false false (hung st).
(* ncmpi_close; ncmpi_open(NC_WRITE) *)
Definition reopen (st : state) : state :=
  let s1 := enddef st in
  let s2 := end_indep s1 in
  mkst (map (fun r => mkrk (hdr s2) false [] (g_own r)) (ranks s2)) (hdr s2) false false (hung s2).

(* ---------------------------------------------------------------- operations *)

Inductive op :=
| CollPutRec (ps : list part)          (* ncmpi_put_var*_all on a record variable, one entry per rank *)
| CollPutFix                           (* ... on a fixed-size variable *)
| IndepPutRec (i : nat) (p : part)     (* ncmpi_put_var* by rank i on a record variable *)
| IndepPutFix (i : nat)
| FillRec (recnos : list Z)            (* ncmpi_fill_var_rec, one record number per rank *)
| Post (i : nat) (tag : nat) (isrec : bool) (vbegin reqoff maxrec : Z)   (* iput / bput by rank i *)
| WaitAll (sels : list wsel)           (* ncmpi_wait_all, one selection per rank *)
| Wait (i : nat) (sel : wsel)          (* ncmpi_wait by rank i *)
| BeginIndep | EndIndep | Sync | SyncNumrecs | Redef | Enddef | Reopen.

Definition step (st : state) (o : op) : state :=
  if hung st then st else
  match o with
  | CollPutRec ps => coll_put_rec E ps st
  | CollPutFix => st
  | IndepPutRec i p => indep_put_rec E i p st
  | IndepPutFix _ => st
  | FillRec rs => fill_rec rs st
  | Post i t b vb ro mr => post i t b vb ro mr st
  | WaitAll sels => wait_all sels st
  | Wait i sel => wait_indep i sel st
  | BeginIndep => begin_indep st
  | EndIndep => end_indep st
  | Sync => sync st
  | SyncNumrecs => sync_numrecs st
  | Redef => redef st
  | Enddef => enddef st
  | Reopen => reopen st
  end.

Definition run (st : state) (ops : list op) : state := fold_left step ops st.

(* what the harness observes after a call: inq_numrecs per rank, header field, inq_nreqs per rank,
   ghost per rank, mode flags *)
Definition obs (st : state) : list Z :=
  map numrecs (ranks st) ++ [hdr st] ++ map (fun r => Z.of_nat (length (queue r))) (ranks st)
  ++ map g_own (ranks st) ++ [Z.b2z (indep st); Z.b2z (indef st); Z.b2z (hung st)].

Fixpoint trace (st : state) (ops : list op) : list (list Z) :=
  match ops with
  | [] => []
  | o :: t => let st' := step st o in obs st' :: trace st' t
  end.

(* the structural side condition of the _partial theorems, evaluated in the state where the
   wait is issued *)
Definition head_ok (st : state) (o : op) : bool :=
  match o with
  | WaitAll sels => forallb (fun rs => head_ok_q (queue (fst rs)) (snd rs)) (combine (ranks st) sels)
  | Wait i sel => match nth_error (ranks st) i with Some r => head_ok_q (queue r) sel | None => true end
  | _ => true
  end.

(* a predicate holds at every step of a history, evaluated in the state the step starts from *)
Fixpoint hist_all (P : state -> op -> Prop) (st : state) (ops : list op) : Prop :=
  match ops with
  | [] => True
  | o :: t => P st o /\ hist_all P (step st o) t
  end.
Fixpoint hist_allb (P : state -> op -> bool) (st : state) (ops : list op) : bool :=
  match ops with
  | [] => true
  | o :: t => P st o && hist_allb P (step st o) t
  end.

End Step.

(* the two variants of req_commit's loop: `head` = as written in the snapshot (over the first
   num_w_lead_reqs queue entries), `fixed` = over all numLeadPutReqs entries.  checks/C05.py reads the
   loop bound from the sources as built and ties the matching variant to the library; all theorems
   are stated for an explicit variant, so nothing here changes when the library is repaired. *)
Definition step_head := step commit_loop true.
Definition step_fixed := step commit_fixed true.
Definition run_head := run commit_loop true.
Definition run_fixed := run commit_fixed true.
(* corrected loop, but put_varm's condition without the NC_ERANGE disjunct *)
Definition run_noerange := run commit_fixed false.
Definition trace_head (n : nat) (n0 : Z) (ops : list op) := trace commit_loop true (init n n0) ops.
Definition trace_fixed (n : nat) (n0 : Z) (ops : list op) := trace commit_fixed true (init n n0) ops.

(* no blocking put of the step returns NC_ERANGE (side condition of the _partial theorems of run_noerange) *)
Definition erange_free (st : state) (o : op) : bool :=
  match o with
  | CollPutRec ps => forallb erange_free_part ps
  | IndepPutRec _ p => erange_free_part p
  | _ => true
  end.

(* 1 + highest record index of any write completed so far (0 if none) *)
Definition written (st : state) : Z := fold_right Z.max 0 (map g_own (ranks st)).
