(* Disk.v — the file as a byte map with an extent, and MPI-IO style scatter/gather of an
   element stream.  Executable; no proofs here. *)
From Pnc Require Export Data.
Local Open Scope Z_scope.

(* ---------- disk ---------- *)
Record disk := mkdisk { dk_exists : bool; dk_size : Z; dk_get : Z -> byte }.
(* a byte the library never wrote has no defined content (MPI-IO read-modify-write of
   collective buffering may leave anything in never-written holes): UNDEF, printed "??" *)
Definition UNDEF : byte := -1.
Definition is_undef (b : byte) : bool := b <? 0.
Definition empty_disk := mkdisk false 0 (fun _ => UNDEF).

Definition dk_write (d : disk) (off : Z) (bs : list byte) : disk :=
  match bs with
  | [] => d
  | _ =>
    let n := Zlen bs in
    mkdisk true (Z.max (dk_size d) (off + n))
           (fun x => if (off <=? x) && (x <? off + n) then znth bs (x - off) 0 else dk_get d x)
  end.

Definition dk_read (d : disk) (off n : Z) : list byte := map (dk_get d) (zrange off n).

(* write the element stream [bs] (xsz bytes per element) at the element offsets [offs] *)
Fixpoint dk_scatter (d : disk) (xsz : Z) (offs : list Z) (bs : list byte) : disk :=
  match offs with
  | [] => d
  | o :: r => dk_scatter (dk_write d o (zfirstn xsz bs)) xsz r (zskipn xsz bs)
  end.

Definition dk_gather (d : disk) (xsz : Z) (offs : list Z) : list byte :=
  flat_map (fun o => dk_read d o xsz) offs.


(* ---------- name lookup (linear; the hash tables are modelled in Meta.v) ---------- *)
Definition name_eqb := bytes_eqb.
Definition find_dim (h : hdr) (nm : list byte) : option Z :=
  find_index (fun d => name_eqb (d_name d) nm) (h_dims h) 0.
Definition find_var (h : hdr) (nm : list byte) : option Z :=
  find_index (fun v => name_eqb (v_name v) nm) (h_vars h) 0.
Definition find_att (l : list att) (nm : list byte) : option Z :=
  find_index (fun a => name_eqb (a_name a) nm) l 0.
Definition fillvalue_name : list byte := [95; 70; 105; 108; 108; 86; 97; 108; 117; 101].

