
val negb : bool -> bool

type nat =
| O
| S of nat

val option_map : ('a1 -> 'a2) -> 'a1 option -> 'a2 option

type comparison =
| Eq
| Lt
| Gt

val compOpp : comparison -> comparison

val add : nat -> nat -> nat

type positive =
| XI of positive
| XO of positive
| XH

type z =
| Z0
| Zpos of positive
| Zneg of positive

val eqb : bool -> bool -> bool

module Pos :
 sig
  val succ : positive -> positive

  val add : positive -> positive -> positive

  val add_carry : positive -> positive -> positive

  val pred_double : positive -> positive

  val mul : positive -> positive -> positive

  val iter : ('a1 -> 'a1) -> 'a1 -> positive -> 'a1

  val size : positive -> positive

  val compare_cont : comparison -> positive -> positive -> comparison

  val compare : positive -> positive -> comparison

  val eqb : positive -> positive -> bool

  val iter_op : ('a1 -> 'a1 -> 'a1) -> positive -> 'a1 -> 'a1

  val to_nat : positive -> nat
 end

module Z :
 sig
  val double : z -> z

  val succ_double : z -> z

  val pred_double : z -> z

  val pos_sub : positive -> positive -> z

  val add : z -> z -> z

  val opp : z -> z

  val sub : z -> z -> z

  val mul : z -> z -> z

  val pow_pos : z -> positive -> z

  val pow : z -> z -> z

  val compare : z -> z -> comparison

  val leb : z -> z -> bool

  val ltb : z -> z -> bool

  val eqb : z -> z -> bool

  val max : z -> z -> z

  val min : z -> z -> z

  val abs : z -> z

  val to_nat : z -> nat

  val pos_div_eucl : positive -> z -> z * z

  val div_eucl : z -> z -> z * z

  val div : z -> z -> z

  val modulo : z -> z -> z

  val odd : z -> bool

  val log2 : z -> z
 end

val nth_error : 'a1 list -> nat -> 'a1 option

val last : 'a1 list -> 'a1 -> 'a1

val map : ('a1 -> 'a2) -> 'a1 list -> 'a2 list

val fold_left : ('a1 -> 'a2 -> 'a1) -> 'a2 list -> 'a1 -> 'a1

val existsb : ('a1 -> bool) -> 'a1 list -> bool

val find : ('a1 -> bool) -> 'a1 list -> 'a1 option

type cty =
| Schar
| Uchar
| Short
| Ushort
| Int
| Uint
| Long
| Ulong
| Longlong
| Ulonglong
| Float
| Double

type xty =
| XBYTE
| XUBYTE
| XSHORT
| XUSHORT
| XINT
| XUINT
| XFLOAT
| XDOUBLE
| XINT64
| XUINT64

type cop =
| OGt
| OLt
| OGe
| OLe
| OEq
| ONe

type kconst =
| KI of z
| KF of bool * z * z

type cact =
| AFill of bool * kconst option
| AStore of kconst

type ctest = { t_op : cop; t_cmp : cty; t_chain : cty list; t_k : kconst;
               t_act : cact }

type cbody =
| BIdent
| BTests of ctest list * cty list
| BSext of ctest list
| BZext of ctest list
| BUnrec

type cloop =
| LMemcpy
| LSwap
| LCall
| LInline
| LUnrec

type cdir =
| Put
| Get

type cfun = { f_dir : cdir; f_pad : bool; f_x : xty; f_i : cty;
              f_loop : cloop; f_body : cbody }

val ncx_table : cfun list

val ncx_unrecognised : nat

val is_float : cty -> bool

val ibits : cty -> z

val isigned : cty -> bool

val imin : cty -> z

val imax : cty -> z

val wrap : cty -> z -> z

val fprec : cty -> z

val femin : cty -> z

val femax : cty -> z

val cty_eqb : cty -> cty -> bool

val xty_eqb : xty -> xty -> bool

val xcty : xty -> cty

val xsize : xty -> z

type val0 =
| VI of z
| VF of bool * z * z
| VInf of bool
| VNaN

val dy_cmp : z -> z -> z -> z -> comparison

val smant : bool -> z -> z

val vcmp : val0 -> val0 -> comparison option

val test_op : cop -> comparison option -> bool

val ftrunc : bool -> z -> z -> z

val rne : cty -> bool -> z -> z -> val0

val cconv : cty -> val0 -> val0 option

val cchain : cty list -> val0 -> val0 option

val kval : kconst -> val0

type res =
| ROk of val0
| RRange of val0 option
| RUndef
| RUnrec

val do_act : cact -> val0 option -> res

val chain_ty : cty -> cty list -> cty

val run_tests : cty -> ctest list -> val0 option -> val0 -> res -> res

val src_ty : cfun -> cty

val dst_ty : cfun -> cty

val ext_bytes : bool -> cty -> val0 -> res

val conv1 : cfun -> val0 option -> val0 -> res

val nC_NOERR : z

val nC_ERANGE : z

val nC_ECHAR : z

val status1 : res -> z

val loop_status : cloop -> res list -> z

val convn : cfun -> val0 option -> val0 list -> z * res list

val dir_eqb : cdir -> cdir -> bool

val key_eqb : cfun -> cdir -> bool -> xty -> cty -> bool

val lookup : cdir -> bool -> xty -> cty -> cfun option

val all_x : xty list

val all_i : cty list

val fill_of_cty : cty -> val0

val spec_default_fill : xty -> val0

val fmax_m : cty -> z

val spec_in_range : cty -> val0 -> bool

val spec_value : cty -> val0 -> val0

val spec_fill : cdir -> cty -> val0 option -> val0

val same_repr : cty -> cty -> bool

val spec_conv : cdir -> cty -> cty -> val0 option -> val0 -> res

val spec_erange : cty -> cty -> val0 -> bool

val spec_convn :
  cdir -> cty -> cty -> val0 option -> val0 list -> z * res list

type mty =
| MText
| MNum of cty

type nct =
| NChar
| NNum of xty

type route =
| RtEchar
| RtCopy
| RtSwap
| RtEntry of cfun option

val same_type : xty -> cty -> bool

val route_var : z -> cdir -> nct -> mty -> route

val att_pad : xty -> bool

val route_att : z -> cdir -> nct -> mty -> route

val reinterpret : cty -> val0 -> val0

val map_ok : (val0 -> val0) -> res -> res

val run_route : route -> cty -> val0 option -> val0 list -> z * res list

val api_src : cdir -> xty -> cty -> cty

val api_dst : cdir -> xty -> cty -> cty

val exempt : z -> xty -> cty -> bool

val api_var :
  z -> cdir -> nct -> mty -> val0 option -> val0 list -> z * res list

val api_att : z -> cdir -> nct -> mty -> val0 list -> z * res list

val spec_api :
  z -> cdir -> nct -> mty -> val0 option -> val0 list -> z * res list

val fbits : cty -> val0 -> z

val of_fbits : cty -> z -> val0

val val_of_code : cty -> z -> val0

val code_of_val : cty -> val0 -> z

val res_code : cty -> res -> z * z

val model1 : bool -> bool -> z -> z -> bool -> z -> z -> z * z

val spec1 : bool -> z -> z -> bool -> z -> z -> z * z

val nct_of : z -> nct

val mty_of : z -> mty

val api_types : cdir -> nct -> mty -> cty * cty

val api_model :
  bool -> bool -> z -> z -> z -> bool -> z -> z list -> z * (z * z) list

val api_spec : bool -> z -> z -> z -> bool -> z -> z list -> z * (z * z) list

val leaf_model :
  bool -> bool -> z -> z -> bool -> z -> z list -> z * (z * z) list

val leaf_spec : bool -> z -> z -> bool -> z -> z list -> z * (z * z) list
