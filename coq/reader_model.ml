
(** val negb : bool -> bool **)

let negb = function
| true -> false
| false -> true

type nat =
| O
| S of nat

(** val fst : ('a1 * 'a2) -> 'a1 **)

let fst = function
| (x, _) -> x

(** val snd : ('a1 * 'a2) -> 'a2 **)

let snd = function
| (_, y) -> y

(** val length : 'a1 list -> nat **)

let rec length = function
| [] -> O
| _ :: l' -> S (length l')

(** val app : 'a1 list -> 'a1 list -> 'a1 list **)

let rec app l m =
  match l with
  | [] -> m
  | a :: l1 -> a :: (app l1 m)

type comparison =
| Eq
| Lt
| Gt

(** val compOpp : comparison -> comparison **)

let compOpp = function
| Eq -> Eq
| Lt -> Gt
| Gt -> Lt

module Coq__1 = struct
 (** val add : nat -> nat -> nat **)
 let rec add n0 m =
   match n0 with
   | O -> m
   | S p0 -> S (add p0 m)
end
include Coq__1

(** val eqb : bool -> bool -> bool **)

let eqb b1 b2 =
  if b1 then b2 else if b2 then false else true

(** val tl : 'a1 list -> 'a1 list **)

let tl = function
| [] -> []
| _ :: m -> m

(** val rev : 'a1 list -> 'a1 list **)

let rec rev = function
| [] -> []
| x :: l' -> app (rev l') (x :: [])

(** val concat : 'a1 list list -> 'a1 list **)

let rec concat = function
| [] -> []
| x :: l0 -> app x (concat l0)

(** val map : ('a1 -> 'a2) -> 'a1 list -> 'a2 list **)

let rec map f = function
| [] -> []
| a :: t -> (f a) :: (map f t)

(** val fold_right : ('a2 -> 'a1 -> 'a1) -> 'a1 -> 'a2 list -> 'a1 **)

let rec fold_right f a0 = function
| [] -> a0
| b :: t -> f b (fold_right f a0 t)

(** val existsb : ('a1 -> bool) -> 'a1 list -> bool **)

let rec existsb f = function
| [] -> false
| a :: l0 -> (||) (f a) (existsb f l0)

(** val forallb : ('a1 -> bool) -> 'a1 list -> bool **)

let rec forallb f = function
| [] -> true
| a :: l0 -> (&&) (f a) (forallb f l0)

(** val filter : ('a1 -> bool) -> 'a1 list -> 'a1 list **)

let rec filter f = function
| [] -> []
| x :: l0 -> if f x then x :: (filter f l0) else filter f l0

(** val repeat : 'a1 -> nat -> 'a1 list **)

let rec repeat x = function
| O -> []
| S k -> x :: (repeat x k)

type positive =
| XI of positive
| XO of positive
| XH

type n =
| N0
| Npos of positive

type z =
| Z0
| Zpos of positive
| Zneg of positive

module Pos =
 struct
  type mask =
  | IsNul
  | IsPos of positive
  | IsNeg
 end

module Coq_Pos =
 struct
  (** val succ : positive -> positive **)

  let rec succ = function
  | XI p0 -> XO (succ p0)
  | XO p0 -> XI p0
  | XH -> XO XH

  (** val add : positive -> positive -> positive **)

  let rec add x y =
    match x with
    | XI p0 ->
      (match y with
       | XI q -> XO (add_carry p0 q)
       | XO q -> XI (add p0 q)
       | XH -> XO (succ p0))
    | XO p0 ->
      (match y with
       | XI q -> XI (add p0 q)
       | XO q -> XO (add p0 q)
       | XH -> XI p0)
    | XH -> (match y with
             | XI q -> XO (succ q)
             | XO q -> XI q
             | XH -> XO XH)

  (** val add_carry : positive -> positive -> positive **)

  and add_carry x y =
    match x with
    | XI p0 ->
      (match y with
       | XI q -> XI (add_carry p0 q)
       | XO q -> XO (add_carry p0 q)
       | XH -> XI (succ p0))
    | XO p0 ->
      (match y with
       | XI q -> XO (add_carry p0 q)
       | XO q -> XI (add p0 q)
       | XH -> XO (succ p0))
    | XH ->
      (match y with
       | XI q -> XI (succ q)
       | XO q -> XO (succ q)
       | XH -> XI XH)

  (** val pred_double : positive -> positive **)

  let rec pred_double = function
  | XI p0 -> XI (XO p0)
  | XO p0 -> XI (pred_double p0)
  | XH -> XH

  type mask = Pos.mask =
  | IsNul
  | IsPos of positive
  | IsNeg

  (** val succ_double_mask : mask -> mask **)

  let succ_double_mask = function
  | IsNul -> IsPos XH
  | IsPos p0 -> IsPos (XI p0)
  | IsNeg -> IsNeg

  (** val double_mask : mask -> mask **)

  let double_mask = function
  | IsPos p0 -> IsPos (XO p0)
  | x0 -> x0

  (** val double_pred_mask : positive -> mask **)

  let double_pred_mask = function
  | XI p0 -> IsPos (XO (XO p0))
  | XO p0 -> IsPos (XO (pred_double p0))
  | XH -> IsNul

  (** val sub_mask : positive -> positive -> mask **)

  let rec sub_mask x y =
    match x with
    | XI p0 ->
      (match y with
       | XI q -> double_mask (sub_mask p0 q)
       | XO q -> succ_double_mask (sub_mask p0 q)
       | XH -> IsPos (XO p0))
    | XO p0 ->
      (match y with
       | XI q -> succ_double_mask (sub_mask_carry p0 q)
       | XO q -> double_mask (sub_mask p0 q)
       | XH -> IsPos (pred_double p0))
    | XH -> (match y with
             | XH -> IsNul
             | _ -> IsNeg)

  (** val sub_mask_carry : positive -> positive -> mask **)

  and sub_mask_carry x y =
    match x with
    | XI p0 ->
      (match y with
       | XI q -> succ_double_mask (sub_mask_carry p0 q)
       | XO q -> double_mask (sub_mask p0 q)
       | XH -> IsPos (pred_double p0))
    | XO p0 ->
      (match y with
       | XI q -> double_mask (sub_mask_carry p0 q)
       | XO q -> succ_double_mask (sub_mask_carry p0 q)
       | XH -> double_pred_mask p0)
    | XH -> IsNeg

  (** val mul : positive -> positive -> positive **)

  let rec mul x y =
    match x with
    | XI p0 -> add y (XO (mul p0 y))
    | XO p0 -> XO (mul p0 y)
    | XH -> y

  (** val size : positive -> positive **)

  let rec size = function
  | XI p1 -> succ (size p1)
  | XO p1 -> succ (size p1)
  | XH -> XH

  (** val compare_cont : comparison -> positive -> positive -> comparison **)

  let rec compare_cont r x y =
    match x with
    | XI p0 ->
      (match y with
       | XI q -> compare_cont r p0 q
       | XO q -> compare_cont Gt p0 q
       | XH -> Gt)
    | XO p0 ->
      (match y with
       | XI q -> compare_cont Lt p0 q
       | XO q -> compare_cont r p0 q
       | XH -> Gt)
    | XH -> (match y with
             | XH -> r
             | _ -> Lt)

  (** val compare : positive -> positive -> comparison **)

  let compare =
    compare_cont Eq

  (** val eqb : positive -> positive -> bool **)

  let rec eqb p0 q =
    match p0 with
    | XI p1 -> (match q with
                | XI q0 -> eqb p1 q0
                | _ -> false)
    | XO p1 -> (match q with
                | XO q0 -> eqb p1 q0
                | _ -> false)
    | XH -> (match q with
             | XH -> true
             | _ -> false)

  (** val iter_op : ('a1 -> 'a1 -> 'a1) -> positive -> 'a1 -> 'a1 **)

  let rec iter_op op p0 a =
    match p0 with
    | XI p1 -> op a (iter_op op p1 (op a a))
    | XO p1 -> iter_op op p1 (op a a)
    | XH -> a

  (** val to_nat : positive -> nat **)

  let to_nat x =
    iter_op Coq__1.add x (S O)

  (** val of_succ_nat : nat -> positive **)

  let rec of_succ_nat = function
  | O -> XH
  | S x -> succ (of_succ_nat x)
 end

module N =
 struct
  (** val succ_double : n -> n **)

  let succ_double = function
  | N0 -> Npos XH
  | Npos p0 -> Npos (XI p0)

  (** val double : n -> n **)

  let double = function
  | N0 -> N0
  | Npos p0 -> Npos (XO p0)

  (** val sub : n -> n -> n **)

  let sub n0 m =
    match n0 with
    | N0 -> N0
    | Npos n' ->
      (match m with
       | N0 -> n0
       | Npos m' ->
         (match Coq_Pos.sub_mask n' m' with
          | Coq_Pos.IsPos p0 -> Npos p0
          | _ -> N0))

  (** val compare : n -> n -> comparison **)

  let compare n0 m =
    match n0 with
    | N0 -> (match m with
             | N0 -> Eq
             | Npos _ -> Lt)
    | Npos n' -> (match m with
                  | N0 -> Gt
                  | Npos m' -> Coq_Pos.compare n' m')

  (** val leb : n -> n -> bool **)

  let leb x y =
    match compare x y with
    | Gt -> false
    | _ -> true

  (** val pos_div_eucl : positive -> n -> n * n **)

  let rec pos_div_eucl a b =
    match a with
    | XI a' ->
      let (q, r) = pos_div_eucl a' b in
      let r' = succ_double r in
      if leb b r' then ((succ_double q), (sub r' b)) else ((double q), r')
    | XO a' ->
      let (q, r) = pos_div_eucl a' b in
      let r' = double r in
      if leb b r' then ((succ_double q), (sub r' b)) else ((double q), r')
    | XH ->
      (match b with
       | N0 -> (N0, (Npos XH))
       | Npos p0 ->
         (match p0 with
          | XH -> ((Npos XH), N0)
          | _ -> (N0, (Npos XH))))
 end

module Z =
 struct
  (** val double : z -> z **)

  let double = function
  | Z0 -> Z0
  | Zpos p0 -> Zpos (XO p0)
  | Zneg p0 -> Zneg (XO p0)

  (** val succ_double : z -> z **)

  let succ_double = function
  | Z0 -> Zpos XH
  | Zpos p0 -> Zpos (XI p0)
  | Zneg p0 -> Zneg (Coq_Pos.pred_double p0)

  (** val pred_double : z -> z **)

  let pred_double = function
  | Z0 -> Zneg XH
  | Zpos p0 -> Zpos (Coq_Pos.pred_double p0)
  | Zneg p0 -> Zneg (XI p0)

  (** val pos_sub : positive -> positive -> z **)

  let rec pos_sub x y =
    match x with
    | XI p0 ->
      (match y with
       | XI q -> double (pos_sub p0 q)
       | XO q -> succ_double (pos_sub p0 q)
       | XH -> Zpos (XO p0))
    | XO p0 ->
      (match y with
       | XI q -> pred_double (pos_sub p0 q)
       | XO q -> double (pos_sub p0 q)
       | XH -> Zpos (Coq_Pos.pred_double p0))
    | XH ->
      (match y with
       | XI q -> Zneg (XO q)
       | XO q -> Zneg (Coq_Pos.pred_double q)
       | XH -> Z0)

  (** val add : z -> z -> z **)

  let add x y =
    match x with
    | Z0 -> y
    | Zpos x' ->
      (match y with
       | Z0 -> x
       | Zpos y' -> Zpos (Coq_Pos.add x' y')
       | Zneg y' -> pos_sub x' y')
    | Zneg x' ->
      (match y with
       | Z0 -> x
       | Zpos y' -> pos_sub y' x'
       | Zneg y' -> Zneg (Coq_Pos.add x' y'))

  (** val opp : z -> z **)

  let opp = function
  | Z0 -> Z0
  | Zpos x0 -> Zneg x0
  | Zneg x0 -> Zpos x0

  (** val sub : z -> z -> z **)

  let sub m n0 =
    add m (opp n0)

  (** val mul : z -> z -> z **)

  let mul x y =
    match x with
    | Z0 -> Z0
    | Zpos x' ->
      (match y with
       | Z0 -> Z0
       | Zpos y' -> Zpos (Coq_Pos.mul x' y')
       | Zneg y' -> Zneg (Coq_Pos.mul x' y'))
    | Zneg x' ->
      (match y with
       | Z0 -> Z0
       | Zpos y' -> Zneg (Coq_Pos.mul x' y')
       | Zneg y' -> Zpos (Coq_Pos.mul x' y'))

  (** val compare : z -> z -> comparison **)

  let compare x y =
    match x with
    | Z0 -> (match y with
             | Z0 -> Eq
             | Zpos _ -> Lt
             | Zneg _ -> Gt)
    | Zpos x' -> (match y with
                  | Zpos y' -> Coq_Pos.compare x' y'
                  | _ -> Gt)
    | Zneg x' ->
      (match y with
       | Zneg y' -> compOpp (Coq_Pos.compare x' y')
       | _ -> Lt)

  (** val leb : z -> z -> bool **)

  let leb x y =
    match compare x y with
    | Gt -> false
    | _ -> true

  (** val ltb : z -> z -> bool **)

  let ltb x y =
    match compare x y with
    | Lt -> true
    | _ -> false

  (** val geb : z -> z -> bool **)

  let geb x y =
    match compare x y with
    | Lt -> false
    | _ -> true

  (** val gtb : z -> z -> bool **)

  let gtb x y =
    match compare x y with
    | Gt -> true
    | _ -> false

  (** val eqb : z -> z -> bool **)

  let eqb x y =
    match x with
    | Z0 -> (match y with
             | Z0 -> true
             | _ -> false)
    | Zpos p0 -> (match y with
                  | Zpos q -> Coq_Pos.eqb p0 q
                  | _ -> false)
    | Zneg p0 -> (match y with
                  | Zneg q -> Coq_Pos.eqb p0 q
                  | _ -> false)

  (** val max : z -> z -> z **)

  let max n0 m =
    match compare n0 m with
    | Lt -> m
    | _ -> n0

  (** val min : z -> z -> z **)

  let min n0 m =
    match compare n0 m with
    | Gt -> m
    | _ -> n0

  (** val to_nat : z -> nat **)

  let to_nat = function
  | Zpos p0 -> Coq_Pos.to_nat p0
  | _ -> O

  (** val of_nat : nat -> z **)

  let of_nat = function
  | O -> Z0
  | S n1 -> Zpos (Coq_Pos.of_succ_nat n1)

  (** val of_N : n -> z **)

  let of_N = function
  | N0 -> Z0
  | Npos p0 -> Zpos p0

  (** val pos_div_eucl : positive -> z -> z * z **)

  let rec pos_div_eucl a b =
    match a with
    | XI a' ->
      let (q, r) = pos_div_eucl a' b in
      let r' = add (mul (Zpos (XO XH)) r) (Zpos XH) in
      if ltb r' b
      then ((mul (Zpos (XO XH)) q), r')
      else ((add (mul (Zpos (XO XH)) q) (Zpos XH)), (sub r' b))
    | XO a' ->
      let (q, r) = pos_div_eucl a' b in
      let r' = mul (Zpos (XO XH)) r in
      if ltb r' b
      then ((mul (Zpos (XO XH)) q), r')
      else ((add (mul (Zpos (XO XH)) q) (Zpos XH)), (sub r' b))
    | XH -> if leb (Zpos (XO XH)) b then (Z0, (Zpos XH)) else ((Zpos XH), Z0)

  (** val div_eucl : z -> z -> z * z **)

  let div_eucl a b =
    match a with
    | Z0 -> (Z0, Z0)
    | Zpos a' ->
      (match b with
       | Z0 -> (Z0, a)
       | Zpos _ -> pos_div_eucl a' b
       | Zneg b' ->
         let (q, r) = pos_div_eucl a' (Zpos b') in
         (match r with
          | Z0 -> ((opp q), Z0)
          | _ -> ((opp (add q (Zpos XH))), (add b r))))
    | Zneg a' ->
      (match b with
       | Z0 -> (Z0, a)
       | Zpos _ ->
         let (q, r) = pos_div_eucl a' b in
         (match r with
          | Z0 -> ((opp q), Z0)
          | _ -> ((opp (add q (Zpos XH))), (sub b r)))
       | Zneg b' -> let (q, r) = pos_div_eucl a' (Zpos b') in (q, (opp r)))

  (** val div : z -> z -> z **)

  let div a b =
    let (q, _) = div_eucl a b in q

  (** val modulo : z -> z -> z **)

  let modulo a b =
    let (_, r) = div_eucl a b in r

  (** val quotrem : z -> z -> z * z **)

  let quotrem a b =
    match a with
    | Z0 -> (Z0, Z0)
    | Zpos a0 ->
      (match b with
       | Z0 -> (Z0, a)
       | Zpos b0 ->
         let (q, r) = N.pos_div_eucl a0 (Npos b0) in ((of_N q), (of_N r))
       | Zneg b0 ->
         let (q, r) = N.pos_div_eucl a0 (Npos b0) in
         ((opp (of_N q)), (of_N r)))
    | Zneg a0 ->
      (match b with
       | Z0 -> (Z0, a)
       | Zpos b0 ->
         let (q, r) = N.pos_div_eucl a0 (Npos b0) in
         ((opp (of_N q)), (opp (of_N r)))
       | Zneg b0 ->
         let (q, r) = N.pos_div_eucl a0 (Npos b0) in
         ((of_N q), (opp (of_N r))))

  (** val quot : z -> z -> z **)

  let quot a b =
    fst (quotrem a b)

  (** val rem : z -> z -> z **)

  let rem a b =
    snd (quotrem a b)

  (** val log2 : z -> z **)

  let log2 = function
  | Zpos p0 ->
    (match p0 with
     | XI p1 -> Zpos (Coq_Pos.size p1)
     | XO p1 -> Zpos (Coq_Pos.size p1)
     | XH -> Z0)
  | _ -> Z0
 end

type byte = z

(** val zlen : 'a1 list -> z **)

let zlen l =
  Z.of_nat (length l)

(** val put_u32 : z -> byte list **)

let put_u32 x =
  (Z.modulo
    (Z.div x (Zpos (XO (XO (XO (XO (XO (XO (XO (XO (XO (XO (XO (XO (XO (XO
      (XO (XO (XO (XO (XO (XO (XO (XO (XO (XO XH))))))))))))))))))))))))))
    (Zpos (XO (XO (XO (XO (XO (XO (XO (XO XH)))))))))) :: ((Z.modulo
                                                             (Z.div x (Zpos
                                                               (XO (XO (XO
                                                               (XO (XO (XO
                                                               (XO (XO (XO
                                                               (XO (XO (XO
                                                               (XO (XO (XO
                                                               (XO
                                                               XH))))))))))))))))))
                                                             (Zpos (XO (XO
                                                             (XO (XO (XO (XO
                                                             (XO (XO
                                                             XH)))))))))) :: (
    (Z.modulo (Z.div x (Zpos (XO (XO (XO (XO (XO (XO (XO (XO XH))))))))))
      (Zpos (XO (XO (XO (XO (XO (XO (XO (XO XH)))))))))) :: ((Z.modulo x
                                                               (Zpos (XO (XO
                                                               (XO (XO (XO
                                                               (XO (XO (XO
                                                               XH)))))))))) :: [])))

(** val put_u64 : z -> byte list **)

let put_u64 x =
  app
    (put_u32
      (Z.div x (Zpos (XO (XO (XO (XO (XO (XO (XO (XO (XO (XO (XO (XO (XO (XO
        (XO (XO (XO (XO (XO (XO (XO (XO (XO (XO (XO (XO (XO (XO (XO (XO (XO
        (XO XH)))))))))))))))))))))))))))))))))))
    (put_u32
      (Z.modulo x (Zpos (XO (XO (XO (XO (XO (XO (XO (XO (XO (XO (XO (XO (XO
        (XO (XO (XO (XO (XO (XO (XO (XO (XO (XO (XO (XO (XO (XO (XO (XO (XO
        (XO (XO XH)))))))))))))))))))))))))))))))))))

(** val get_u32 : byte list -> (z * byte list) option **)

let get_u32 = function
| [] -> None
| a :: l0 ->
  (match l0 with
   | [] -> None
   | b :: l1 ->
     (match l1 with
      | [] -> None
      | c :: l2 ->
        (match l2 with
         | [] -> None
         | d :: r ->
           Some
             ((Z.add
                (Z.add
                  (Z.add
                    (Z.mul a (Zpos (XO (XO (XO (XO (XO (XO (XO (XO (XO (XO
                      (XO (XO (XO (XO (XO (XO (XO (XO (XO (XO (XO (XO (XO (XO
                      XH))))))))))))))))))))))))))
                    (Z.mul b (Zpos (XO (XO (XO (XO (XO (XO (XO (XO (XO (XO
                      (XO (XO (XO (XO (XO (XO XH)))))))))))))))))))
                  (Z.mul c (Zpos (XO (XO (XO (XO (XO (XO (XO (XO XH)))))))))))
                d), r))))

(** val get_u64 : byte list -> (z * byte list) option **)

let get_u64 l =
  match get_u32 l with
  | Some p0 ->
    let (hi, r) = p0 in
    (match get_u32 r with
     | Some p1 ->
       let (lo, r') = p1 in
       Some
       ((Z.add
          (Z.mul hi (Zpos (XO (XO (XO (XO (XO (XO (XO (XO (XO (XO (XO (XO (XO
            (XO (XO (XO (XO (XO (XO (XO (XO (XO (XO (XO (XO (XO (XO (XO (XO
            (XO (XO (XO XH)))))))))))))))))))))))))))))))))) lo), r')
     | None -> None)
  | None -> None

(** val rndup : z -> z -> z **)

let rndup x a =
  if Z.eqb a Z0 then x else Z.mul (Z.div (Z.sub (Z.add x a) (Zpos XH)) a) a

(** val padlen : z -> z **)

let padlen n0 =
  Z.modulo (Z.sub (Zpos (XO (XO XH))) (Z.modulo n0 (Zpos (XO (XO XH)))))
    (Zpos (XO (XO XH)))

(** val zeros : z -> byte list **)

let zeros n0 =
  repeat Z0 (Z.to_nat n0)

(** val znth : 'a1 list -> z -> 'a1 -> 'a1 **)

let rec znth l i d =
  match l with
  | [] -> d
  | x :: r -> if Z.eqb i Z0 then x else znth r (Z.sub i (Zpos XH)) d

(** val zfirstn : z -> 'a1 list -> 'a1 list **)

let rec zfirstn n0 = function
| [] -> []
| x :: r -> if Z.leb n0 Z0 then [] else x :: (zfirstn (Z.sub n0 (Zpos XH)) r)

(** val zskipn : z -> 'a1 list -> 'a1 list **)

let rec zskipn n0 l = match l with
| [] -> []
| _ :: r -> if Z.leb n0 Z0 then l else zskipn (Z.sub n0 (Zpos XH)) r

(** val zprod : z list -> z **)

let rec zprod = function
| [] -> Zpos XH
| x :: r -> Z.mul x (zprod r)

(** val zsum : z list -> z **)

let rec zsum = function
| [] -> Z0
| x :: r -> Z.add x (zsum r)

(** val list_eqb : ('a1 -> 'a1 -> bool) -> 'a1 list -> 'a1 list -> bool **)

let rec list_eqb eqb0 a b =
  match a with
  | [] -> (match b with
           | [] -> true
           | _ :: _ -> false)
  | x :: a' ->
    (match b with
     | [] -> false
     | y :: b' -> (&&) (eqb0 x y) (list_eqb eqb0 a' b'))

(** val bytes_eqb : z list -> z list -> bool **)

let bytes_eqb =
  list_eqb Z.eqb

(** val zip : 'a1 list -> 'a2 list -> ('a1 * 'a2) list **)

let rec zip a b =
  match a with
  | [] -> []
  | x :: a' -> (match b with
                | [] -> []
                | y :: b' -> (x, y) :: (zip a' b'))

(** val last_opt : 'a1 list -> 'a1 option **)

let last_opt l =
  match rev l with
  | [] -> None
  | x :: _ -> Some x

(** val pNC_ARRAY_GROWBY : z **)

let pNC_ARRAY_GROWBY =
  Zpos (XO (XO (XO (XO (XO (XO XH))))))

(** val mIN_NC_XSZ : z **)

let mIN_NC_XSZ =
  Zpos (XO (XO (XO (XO (XO XH)))))

(** val x_ALIGN : z **)

let x_ALIGN =
  Zpos (XO (XO XH))

(** val nC_MAX_NAME : z **)

let nC_MAX_NAME =
  Zpos (XO (XO (XO (XO (XO (XO (XO (XO XH))))))))

(** val nC_MAX_INT : z **)

let nC_MAX_INT =
  Zpos (XI (XI (XI (XI (XI (XI (XI (XI (XI (XI (XI (XI (XI (XI (XI (XI (XI
    (XI (XI (XI (XI (XI (XI (XI (XI (XI (XI (XI (XI (XI
    XH))))))))))))))))))))))))))))))

(** val nC_MAX_UINT : z **)

let nC_MAX_UINT =
  Zpos (XI (XI (XI (XI (XI (XI (XI (XI (XI (XI (XI (XI (XI (XI (XI (XI (XI
    (XI (XI (XI (XI (XI (XI (XI (XI (XI (XI (XI (XI (XI (XI
    XH)))))))))))))))))))))))))))))))

(** val nC_MAX_INT64 : z **)

let nC_MAX_INT64 =
  Zpos (XI (XI (XI (XI (XI (XI (XI (XI (XI (XI (XI (XI (XI (XI (XI (XI (XI
    (XI (XI (XI (XI (XI (XI (XI (XI (XI (XI (XI (XI (XI (XI (XI (XI (XI (XI
    (XI (XI (XI (XI (XI (XI (XI (XI (XI (XI (XI (XI (XI (XI (XI (XI (XI (XI
    (XI (XI (XI (XI (XI (XI (XI (XI (XI
    XH))))))))))))))))))))))))))))))))))))))))))))))))))))))))))))))

(** val nC_DIMENSION_TAG : z **)

let nC_DIMENSION_TAG =
  Zpos (XO (XI (XO XH)))

(** val nC_VARIABLE_TAG : z **)

let nC_VARIABLE_TAG =
  Zpos (XI (XI (XO XH)))

(** val nC_ATTRIBUTE_TAG : z **)

let nC_ATTRIBUTE_TAG =
  Zpos (XO (XO (XI XH)))

(** val nC_NOERR : z **)

let nC_NOERR =
  Z0

(** val nC_EMAXDIMS : z **)

let nC_EMAXDIMS =
  Zneg (XI (XO (XO (XI (XO XH)))))

(** val nC_EMAXATTS : z **)

let nC_EMAXATTS =
  Zneg (XO (XO (XI (XI (XO XH)))))

(** val nC_EBADTYPE : z **)

let nC_EBADTYPE =
  Zneg (XI (XO (XI (XI (XO XH)))))

(** val nC_EBADDIM : z **)

let nC_EBADDIM =
  Zneg (XO (XI (XI (XI (XO XH)))))

(** val nC_EUNLIMPOS : z **)

let nC_EUNLIMPOS =
  Zneg (XI (XI (XI (XI (XO XH)))))

(** val nC_EMAXVARS : z **)

let nC_EMAXVARS =
  Zneg (XO (XO (XO (XO (XI XH)))))

(** val nC_ENOTNC : z **)

let nC_ENOTNC =
  Zneg (XI (XI (XO (XO (XI XH)))))

(** val nC_EMAXNAME : z **)

let nC_EMAXNAME =
  Zneg (XI (XO (XI (XO (XI XH)))))

(** val nC_EUNLIMIT : z **)

let nC_EUNLIMIT =
  Zneg (XO (XI (XI (XO (XI XH)))))

(** val nC_ENOMEM : z **)

let nC_ENOMEM =
  Zneg (XI (XO (XI (XI (XI XH)))))

(** val nC_EVARSIZE : z **)

let nC_EVARSIZE =
  Zneg (XO (XI (XI (XI (XI XH)))))

(** val nC_EFILE : z **)

let nC_EFILE =
  Zneg (XO (XO (XI (XI (XO (XO (XI XH)))))))

(** val nC_ENOTBUILT : z **)

let nC_ENOTBUILT =
  Zneg (XO (XO (XO (XO (XO (XO (XO XH)))))))

(** val xlen_type : z -> z **)

let xlen_type t =
  if (||) ((||) (Z.eqb t (Zpos XH)) (Z.eqb t (Zpos (XO XH))))
       (Z.eqb t (Zpos (XI (XI XH))))
  then Zpos XH
  else if (||) (Z.eqb t (Zpos (XI XH))) (Z.eqb t (Zpos (XO (XO (XO XH)))))
       then Zpos (XO XH)
       else if (||)
                 ((||) (Z.eqb t (Zpos (XO (XO XH))))
                   (Z.eqb t (Zpos (XI (XO XH)))))
                 (Z.eqb t (Zpos (XI (XO (XO XH)))))
            then Zpos (XO (XO XH))
            else if (||)
                      ((||) (Z.eqb t (Zpos (XO (XI XH))))
                        (Z.eqb t (Zpos (XO (XI (XO XH))))))
                      (Z.eqb t (Zpos (XI (XI (XO XH)))))
                 then Zpos (XO (XO (XO XH)))
                 else Z0

(** val valid_type : z -> z -> bool **)

let valid_type fmt t =
  (&&) (Z.leb (Zpos XH) t)
    (if Z.eqb fmt (Zpos (XI (XO XH)))
     then Z.leb t (Zpos (XI (XI (XO XH))))
     else Z.leb t (Zpos (XO (XI XH))))

type dim = { d_name : byte list; d_size : z }

type att = { a_name : byte list; a_type : z; a_nelems : z; a_data : byte list }

type var = { v_name : byte list; v_dimids : z list; v_atts : att list;
             v_type : z; v_begin : z; v_nofill : bool }

type hdr = { h_format : z; h_numrecs : z; h_dims : dim list;
             h_gatts : att list; h_vars : var list }

(** val dim_size : dim list -> z -> z **)

let dim_size dims id =
  (znth dims id { d_name = []; d_size = Z0 }).d_size

(** val var_shape : dim list -> var -> z list **)

let var_shape dims v =
  map (dim_size dims) v.v_dimids

(** val is_recvar : dim list -> var -> bool **)

let is_recvar dims v =
  match var_shape dims v with
  | [] -> false
  | s0 :: _ -> Z.eqb s0 Z0

(** val var_nelems_per_rec : z list -> z **)

let var_nelems_per_rec shape = match shape with
| [] -> Zpos XH
| s0 :: r -> if Z.eqb s0 Z0 then zprod r else zprod shape

(** val var_len_of : z -> z list -> z **)

let var_len_of xsz shape =
  let l = Z.mul (var_nelems_per_rec shape) xsz in
  if Z.gtb (Z.modulo l (Zpos (XO (XO XH)))) Z0
  then Z.add l (Z.sub (Zpos (XO (XO XH))) (Z.modulo l (Zpos (XO (XO XH)))))
  else l

(** val var_len : dim list -> var -> z **)

let var_len dims v =
  var_len_of (xlen_type v.v_type) (var_shape dims v)

(** val sz_nn : z -> z **)

let sz_nn fmt =
  if Z.eqb fmt (Zpos (XI (XO XH)))
  then Zpos (XO (XO (XO XH)))
  else Zpos (XO (XO XH))

(** val sz_off : z -> z **)

let sz_off fmt =
  if Z.eqb fmt (Zpos XH) then Zpos (XO (XO XH)) else Zpos (XO (XO (XO XH)))

(** val len_att : z -> att -> z **)

let len_att fmt a =
  Z.add
    (Z.add
      (Z.add (Z.add (sz_nn fmt) (rndup (zlen a.a_name) (Zpos (XO (XO XH)))))
        (Zpos (XO (XO XH)))) (sz_nn fmt))
    (rndup (Z.mul a.a_nelems (xlen_type a.a_type)) (Zpos (XO (XO XH))))

(** val len_attarray : z -> att list -> z **)

let len_attarray fmt l =
  Z.add (Z.add (Zpos (XO (XO XH))) (sz_nn fmt)) (zsum (map (len_att fmt) l))

(** val len_dim : z -> dim -> z **)

let len_dim fmt d =
  Z.add (Z.add (sz_nn fmt) (rndup (zlen d.d_name) (Zpos (XO (XO XH)))))
    (sz_nn fmt)

(** val len_var : z -> var -> z **)

let len_var fmt v =
  Z.add
    (Z.add
      (Z.add
        (Z.add
          (Z.add
            (Z.add
              (Z.add (sz_nn fmt) (rndup (zlen v.v_name) (Zpos (XO (XO XH)))))
              (sz_nn fmt)) (Z.mul (sz_nn fmt) (zlen v.v_dimids)))
          (len_attarray fmt v.v_atts)) (Zpos (XO (XO XH)))) (sz_nn fmt))
    (sz_off fmt)

(** val hdr_len : hdr -> z **)

let hdr_len h =
  let fmt = h.h_format in
  Z.add
    (Z.add
      (Z.add (Z.add (Zpos (XO (XO XH))) (sz_nn fmt))
        (Z.add (Z.add (Zpos (XO (XO XH))) (sz_nn fmt))
          (zsum (map (len_dim fmt) h.h_dims)))) (len_attarray fmt h.h_gatts))
    (Z.add (Z.add (Zpos (XO (XO XH))) (sz_nn fmt))
      (zsum (map (len_var fmt) h.h_vars)))

(** val check_vlen_loop : z list -> z -> z -> bool **)

let rec check_vlen_loop shape prod0 vlen_max =
  match shape with
  | [] -> true
  | s :: r ->
    if Z.gtb s (Z.div vlen_max prod0)
    then false
    else check_vlen_loop r (Z.mul prod0 s) vlen_max

(** val check_vlen : z -> z list -> z -> bool **)

let check_vlen xsz shape vlen_max =
  match shape with
  | [] -> true
  | s0 :: r ->
    if Z.eqb s0 Z0
    then check_vlen_loop r xsz vlen_max
    else check_vlen_loop shape xsz vlen_max

(** val vlen_max_of : z -> z **)

let vlen_max_of fmt =
  if Z.geb fmt (Zpos (XI (XO XH)))
  then Z.sub nC_MAX_INT64 (Zpos (XI XH))
  else if Z.eqb fmt (Zpos (XO XH))
       then Z.sub nC_MAX_UINT (Zpos (XI XH))
       else Z.sub nC_MAX_INT (Zpos (XI XH))

(** val vlens_pass :
    z -> z -> ((bool * z) * z list) list -> bool -> z -> bool -> z ->
    ((z * bool) * z) option **)

let rec vlens_pass fmt vmax vs want_rec cnt last nsel =
  match vs with
  | [] -> Some ((cnt, last), nsel)
  | p0 :: r ->
    let (p1, shape) = p0 in
    let (isrec, xsz) = p1 in
    if eqb isrec want_rec
    then if check_vlen xsz shape vmax
         then vlens_pass fmt vmax r want_rec cnt false (Z.add nsel (Zpos XH))
         else if Z.geb fmt (Zpos (XI (XO XH)))
              then None
              else vlens_pass fmt vmax r want_rec (Z.add cnt (Zpos XH)) true
                     (Z.add nsel (Zpos XH))
    else vlens_pass fmt vmax r want_rec cnt last nsel

(** val var_triple : dim list -> var -> (bool * z) * z list **)

let var_triple dims v =
  (((is_recvar dims v), (xlen_type v.v_type)), (var_shape dims v))

(** val check_vlens : hdr -> z **)

let check_vlens h =
  let fmt = h.h_format in
  let vmax = vlen_max_of fmt in
  let vs = map (var_triple h.h_dims) h.h_vars in
  (match vs with
   | [] -> nC_NOERR
   | _ :: _ ->
     (match vlens_pass fmt vmax vs false Z0 false Z0 with
      | Some p0 ->
        let (p1, _) = p0 in
        let (lf, lastf) = p1 in
        if Z.gtb lf (Zpos XH)
        then nC_EVARSIZE
        else if (&&) (Z.eqb lf (Zpos XH)) (negb lastf)
             then nC_EVARSIZE
             else let nrec = zlen (filter (fun t -> fst (fst t)) vs) in
                  if Z.eqb nrec Z0
                  then nC_NOERR
                  else if Z.eqb lf (Zpos XH)
                       then nC_EVARSIZE
                       else (match vlens_pass fmt vmax vs true Z0 false Z0 with
                             | Some p2 ->
                               let (p3, _) = p2 in
                               let (lr, lastr) = p3 in
                               if Z.gtb lr (Zpos XH)
                               then nC_EVARSIZE
                               else if (&&) (Z.eqb lr (Zpos XH)) (negb lastr)
                                    then nC_EVARSIZE
                                    else nC_NOERR
                             | None -> nC_EVARSIZE)
      | None -> nC_EVARSIZE))

type layout = { l_xsz : z; l_begin_var : z; l_begin_rec : z; l_recsize : 
                z; l_begins : z list }

type 'a parser0 = byte list -> ('a * byte list) option

(** val p_u32 : z parser0 **)

let p_u32 =
  get_u32

(** val p_u64 : z parser0 **)

let p_u64 =
  get_u64

(** val p_nn : z -> z parser0 **)

let p_nn fmt =
  if Z.ltb fmt (Zpos (XI (XO XH))) then p_u32 else p_u64

(** val p_bytes : z -> byte list parser0 **)

let p_bytes n0 l =
  if (||) (Z.ltb n0 Z0) (Z.ltb (zlen l) n0)
  then None
  else Some ((zfirstn n0 l), (zskipn n0 l))

(** val p_padded : z -> (byte list * byte list) parser0 **)

let p_padded n0 l =
  match p_bytes n0 l with
  | Some p0 ->
    let (b, r) = p0 in
    (match p_bytes (padlen n0) r with
     | Some p1 -> let (pad, r') = p1 in Some ((b, pad), r')
     | None -> None)
  | None -> None

(** val p_name : z -> (byte list * byte list) parser0 **)

let p_name fmt l =
  match p_nn fmt l with
  | Some p0 -> let (n0, r) = p0 in p_padded n0 r
  | None -> None

(** val p_many : 'a1 parser0 -> nat -> 'a1 list parser0 **)

let rec p_many p0 n0 l =
  match n0 with
  | O -> Some ([], l)
  | S k ->
    (match p0 l with
     | Some p1 ->
       let (x, r) = p1 in
       (match p_many p0 k r with
        | Some p2 -> let (xs, r') = p2 in Some ((x :: xs), r')
        | None -> None)
     | None -> None)

(** val p_list : z -> z -> 'a1 parser0 -> 'a1 list parser0 **)

let p_list fmt tag p0 l =
  match p_u32 l with
  | Some p1 ->
    let (t, r) = p1 in
    (match p_nn fmt r with
     | Some p2 ->
       let (n0, r') = p2 in
       if Z.eqb t Z0
       then if Z.eqb n0 Z0 then Some ([], r') else None
       else if Z.eqb t tag
            then if Z.ltb (zlen r') n0
                 then None
                 else p_many p0 (Z.to_nat n0) r'
            else None
     | None -> None)
  | None -> None

type dec_dim = { dd_dim : dim; dd_pad : byte list }

type dec_att = { da_att : att; da_pad : byte list }

type dec_var = { dv_var : var; dv_vsize : z; dv_pad : byte list;
                 dv_atts : dec_att list }

(** val p_dim : z -> dec_dim parser0 **)

let p_dim fmt l =
  match p_name fmt l with
  | Some p0 ->
    let (p1, r) = p0 in
    let (nm, pad) = p1 in
    (match p_nn fmt r with
     | Some p2 ->
       let (sz, r') = p2 in
       Some ({ dd_dim = { d_name = nm; d_size = sz }; dd_pad = pad }, r')
     | None -> None)
  | None -> None

(** val p_att : z -> dec_att parser0 **)

let p_att fmt l =
  match p_name fmt l with
  | Some p0 ->
    let (p1, r) = p0 in
    let (nm, pad) = p1 in
    (match p_u32 r with
     | Some p2 ->
       let (t, r1) = p2 in
       if negb (valid_type fmt t)
       then None
       else (match p_nn fmt r1 with
             | Some p3 ->
               let (n0, r2) = p3 in
               if (||) (Z.ltb n0 Z0) (Z.ltb (zlen r2) n0)
               then None
               else (match p_padded (Z.mul n0 (xlen_type t)) r2 with
                     | Some p4 ->
                       let (p5, r3) = p4 in
                       let (data, pad2) = p5 in
                       Some ({ da_att = { a_name = nm; a_type = t; a_nelems =
                       n0; a_data = data }; da_pad = (app pad pad2) }, r3)
                     | None -> None)
             | None -> None)
     | None -> None)
  | None -> None

(** val p_var : z -> dec_var parser0 **)

let p_var fmt l =
  match p_name fmt l with
  | Some p0 ->
    let (p1, r) = p0 in
    let (nm, pad) = p1 in
    (match p_nn fmt r with
     | Some p2 ->
       let (nd, r1) = p2 in
       if Z.ltb (zlen r1) nd
       then None
       else (match p_many (p_nn fmt) (Z.to_nat nd) r1 with
             | Some p3 ->
               let (dimids, r2) = p3 in
               (match p_list fmt (Zpos (XO (XO (XI XH)))) (p_att fmt) r2 with
                | Some p4 ->
                  let (atts, r3) = p4 in
                  (match p_u32 r3 with
                   | Some p5 ->
                     let (t, r4) = p5 in
                     if negb (valid_type fmt t)
                     then None
                     else (match p_nn fmt r4 with
                           | Some p6 ->
                             let (vsize, r5) = p6 in
                             (match if Z.eqb fmt (Zpos XH)
                                    then p_u32 r5
                                    else p_u64 r5 with
                              | Some p7 ->
                                let (bg, r6) = p7 in
                                Some ({ dv_var = { v_name = nm; v_dimids =
                                dimids; v_atts =
                                (map (fun d -> d.da_att) atts); v_type = t;
                                v_begin = bg; v_nofill = true }; dv_vsize =
                                vsize; dv_pad = pad; dv_atts = atts }, r6)
                              | None -> None)
                           | None -> None)
                   | None -> None)
                | None -> None)
             | None -> None)
     | None -> None)
  | None -> None

type decoded = { dc_hdr : hdr; dc_dims : dec_dim list;
                 dc_gatts : dec_att list; dc_vars : dec_var list; dc_len : 
                 z }

(** val decode : byte list -> decoded option **)

let decode l = match l with
| [] -> None
| b :: l0 ->
  (match b with
   | Zpos p0 ->
     (match p0 with
      | XI p1 ->
        (match p1 with
         | XI p2 ->
           (match p2 with
            | XO p3 ->
              (match p3 with
               | XO p4 ->
                 (match p4 with
                  | XO p5 ->
                    (match p5 with
                     | XO p6 ->
                       (match p6 with
                        | XH ->
                          (match l0 with
                           | [] -> None
                           | b0 :: l1 ->
                             (match b0 with
                              | Zpos p7 ->
                                (match p7 with
                                 | XO p8 ->
                                   (match p8 with
                                    | XO p9 ->
                                      (match p9 with
                                       | XI p10 ->
                                         (match p10 with
                                          | XO p11 ->
                                            (match p11 with
                                             | XO p12 ->
                                               (match p12 with
                                                | XO p13 ->
                                                  (match p13 with
                                                   | XH ->
                                                     (match l1 with
                                                      | [] -> None
                                                      | b1 :: l2 ->
                                                        (match b1 with
                                                         | Zpos p14 ->
                                                           (match p14 with
                                                            | XO p15 ->
                                                              (match p15 with
                                                               | XI p16 ->
                                                                 (match p16 with
                                                                  | XI p17 ->
                                                                    (match p17 with
                                                                    | XO p18 ->
                                                                    (match p18 with
                                                                    | XO p19 ->
                                                                    (match p19 with
                                                                    | XO p20 ->
                                                                    (match p20 with
                                                                    | XH ->
                                                                    (match l2 with
                                                                    | [] ->
                                                                    None
                                                                    | ver :: r ->
                                                                    if 
                                                                    negb
                                                                    ((||)
                                                                    ((||)
                                                                    (Z.eqb
                                                                    ver (Zpos
                                                                    XH))
                                                                    (Z.eqb
                                                                    ver (Zpos
                                                                    (XO XH))))
                                                                    (Z.eqb
                                                                    ver (Zpos
                                                                    (XI (XO
                                                                    XH)))))
                                                                    then None
                                                                    else 
                                                                    (match 
                                                                    p_nn ver r with
                                                                    | Some p21 ->
                                                                    let (
                                                                    numrecs,
                                                                    r1) = p21
                                                                    in
                                                                    (
                                                                    match 
                                                                    p_list
                                                                    ver (Zpos
                                                                    (XO (XI
                                                                    (XO
                                                                    XH))))
                                                                    (p_dim
                                                                    ver) r1 with
                                                                    | Some p22 ->
                                                                    let (
                                                                    dims, r2) =
                                                                    p22
                                                                    in
                                                                    (
                                                                    match 
                                                                    p_list
                                                                    ver (Zpos
                                                                    (XO (XO
                                                                    (XI
                                                                    XH))))
                                                                    (p_att
                                                                    ver) r2 with
                                                                    | Some p23 ->
                                                                    let (
                                                                    gatts, r3) =
                                                                    p23
                                                                    in
                                                                    (
                                                                    match 
                                                                    p_list
                                                                    ver (Zpos
                                                                    (XI (XI
                                                                    (XO
                                                                    XH))))
                                                                    (p_var
                                                                    ver) r3 with
                                                                    | Some p24 ->
                                                                    let (
                                                                    vars, r4) =
                                                                    p24
                                                                    in
                                                                    Some
                                                                    { dc_hdr =
                                                                    { h_format =
                                                                    ver;
                                                                    h_numrecs =
                                                                    numrecs;
                                                                    h_dims =
                                                                    (map
                                                                    (fun d ->
                                                                    d.dd_dim)
                                                                    dims);
                                                                    h_gatts =
                                                                    (map
                                                                    (fun d ->
                                                                    d.da_att)
                                                                    gatts);
                                                                    h_vars =
                                                                    (map
                                                                    (fun d ->
                                                                    d.dv_var)
                                                                    vars) };
                                                                    dc_dims =
                                                                    dims;
                                                                    dc_gatts =
                                                                    gatts;
                                                                    dc_vars =
                                                                    vars;
                                                                    dc_len =
                                                                    (Z.sub
                                                                    (zlen l)
                                                                    (zlen r4)) }
                                                                    | None ->
                                                                    None)
                                                                    | None ->
                                                                    None)
                                                                    | None ->
                                                                    None)
                                                                    | None ->
                                                                    None))
                                                                    | _ ->
                                                                    None)
                                                                    | _ ->
                                                                    None)
                                                                    | _ ->
                                                                    None)
                                                                    | _ ->
                                                                    None)
                                                                  | _ -> None)
                                                               | _ -> None)
                                                            | _ -> None)
                                                         | _ -> None))
                                                   | _ -> None)
                                                | _ -> None)
                                             | _ -> None)
                                          | _ -> None)
                                       | _ -> None)
                                    | _ -> None)
                                 | _ -> None)
                              | _ -> None))
                        | _ -> None)
                     | _ -> None)
                  | _ -> None)
               | _ -> None)
            | _ -> None)
         | _ -> None)
      | _ -> None)
   | _ -> None)

(** val layout_of_hdr : hdr -> z -> layout **)

let layout_of_hdr h xsz =
  let dims = h.h_dims in
  let vs = h.h_vars in
  let fixed = filter (fun v -> negb (is_recvar dims v)) vs in
  let recs = filter (is_recvar dims) vs in
  let begin_rec0 =
    match last_opt fixed with
    | Some v -> Z.add v.v_begin (var_len dims v)
    | None -> xsz
  in
  let recsize0 = zsum (map (var_len dims) recs) in
  (match recs with
   | [] ->
     let recsize = Z0 in
     let begin_var = match fixed with
                     | [] -> begin_rec0
                     | fv :: _ -> fv.v_begin
     in
     (match vs with
      | [] ->
        { l_xsz = xsz; l_begin_var = Z0; l_begin_rec = Z0; l_recsize = Z0;
          l_begins = [] }
      | _ :: _ ->
        { l_xsz = xsz; l_begin_var = begin_var; l_begin_rec = begin_rec0;
          l_recsize = recsize; l_begins = (map (fun v -> v.v_begin) vs) })
   | fr :: _ ->
     let begin_rec = fr.v_begin in
     let recsize =
       if Z.eqb recsize0 (var_len dims fr)
       then Z.mul (var_nelems_per_rec (var_shape dims fr))
              (xlen_type fr.v_type)
       else recsize0
     in
     let begin_var = match fixed with
                     | [] -> begin_rec
                     | fv :: _ -> fv.v_begin
     in
     (match vs with
      | [] ->
        { l_xsz = xsz; l_begin_var = Z0; l_begin_rec = Z0; l_recsize = Z0;
          l_begins = [] }
      | _ :: _ ->
        { l_xsz = xsz; l_begin_var = begin_var; l_begin_rec = begin_rec;
          l_recsize = recsize; l_begins = (map (fun v -> v.v_begin) vs) }))

type site =
| S_rndup_int
| S_attr_xlen
| S_attrV_mul
| S_attr_memcpy_null
| S_var_calloc_null
| S_shape_product
| S_check_vlen_mul
| S_div_zero
| S_len
| S_recsize
| S_begin_len
| S_hdr_len

type 'a res =
| Ok of 'a
| Err of z
| Crash of site

(** val rbind : 'a1 res -> ('a1 -> 'a2 res) -> 'a2 res **)

let rbind r f =
  match r with
  | Ok a -> f a
  | Err e -> Err e
  | Crash s -> Crash s

type acct = { ac_alloc : z; ac_maxreq : z; ac_nalloc : z }

(** val i64_MAX : z **)

let i64_MAX =
  Zpos (XI (XI (XI (XI (XI (XI (XI (XI (XI (XI (XI (XI (XI (XI (XI (XI (XI
    (XI (XI (XI (XI (XI (XI (XI (XI (XI (XI (XI (XI (XI (XI (XI (XI (XI (XI
    (XI (XI (XI (XI (XI (XI (XI (XI (XI (XI (XI (XI (XI (XI (XI (XI (XI (XI
    (XI (XI (XI (XI (XI (XI (XI (XI (XI
    XH))))))))))))))))))))))))))))))))))))))))))))))))))))))))))))))

(** val i64_MIN : z **)

let i64_MIN =
  Zneg (XO (XO (XO (XO (XO (XO (XO (XO (XO (XO (XO (XO (XO (XO (XO (XO (XO
    (XO (XO (XO (XO (XO (XO (XO (XO (XO (XO (XO (XO (XO (XO (XO (XO (XO (XO
    (XO (XO (XO (XO (XO (XO (XO (XO (XO (XO (XO (XO (XO (XO (XO (XO (XO (XO
    (XO (XO (XO (XO (XO (XO (XO (XO (XO (XO
    XH)))))))))))))))))))))))))))))))))))))))))))))))))))))))))))))))

(** val tWO64 : z **)

let tWO64 =
  Zpos (XO (XO (XO (XO (XO (XO (XO (XO (XO (XO (XO (XO (XO (XO (XO (XO (XO
    (XO (XO (XO (XO (XO (XO (XO (XO (XO (XO (XO (XO (XO (XO (XO (XO (XO (XO
    (XO (XO (XO (XO (XO (XO (XO (XO (XO (XO (XO (XO (XO (XO (XO (XO (XO (XO
    (XO (XO (XO (XO (XO (XO (XO (XO (XO (XO (XO
    XH))))))))))))))))))))))))))))))))))))))))))))))))))))))))))))))))

(** val iNT_MAX : z **)

let iNT_MAX =
  Zpos (XI (XI (XI (XI (XI (XI (XI (XI (XI (XI (XI (XI (XI (XI (XI (XI (XI
    (XI (XI (XI (XI (XI (XI (XI (XI (XI (XI (XI (XI (XI
    XH))))))))))))))))))))))))))))))

(** val nC_ENOTNC3 : z **)

let nC_ENOTNC3 =
  Zneg (XI (XO (XO (XO (XI (XI XH))))))

(** val nC_MAX_DIMS : z **)

let nC_MAX_DIMS =
  nC_MAX_INT

(** val nC_MAX_ATTRS : z **)

let nC_MAX_ATTRS =
  nC_MAX_INT

(** val nC_MAX_VARS : z **)

let nC_MAX_VARS =
  nC_MAX_INT

(** val nC_MAX_VAR_DIMS : z **)

let nC_MAX_VAR_DIMS =
  nC_MAX_INT

(** val sZ_NC_DIM : z **)

let sZ_NC_DIM =
  Zpos (XO (XO (XO (XI XH))))

(** val sZ_NC_ATTR : z **)

let sZ_NC_ATTR =
  Zpos (XO (XO (XO (XO (XI XH)))))

(** val sZ_NC_VAR : z **)

let sZ_NC_VAR =
  Zpos (XO (XO (XO (XO (XO (XI (XO XH)))))))

(** val in_i64 : z -> bool **)

let in_i64 x =
  (&&) (Z.leb i64_MIN x) (Z.leb x i64_MAX)

(** val chk : site -> z -> z res **)

let chk s x =
  if in_i64 x then Ok x else Crash s

(** val to_i64 : z -> z **)

let to_i64 x =
  if Z.gtb x i64_MAX then Z.sub x tWO64 else x

(** val take_z : z -> byte list -> byte list **)

let take_z n0 l =
  let got = zfirstn n0 l in app got (zeros (Z.sub n0 (zlen got)))

type 's src = { g32 : ('s -> z * 's); g64 : ('s -> z * 's);
                gbytes : (z -> 's -> byte list * 's); gskip : (z -> 's -> 's) }

type 's pst = 's * acct

type ('s, 'a) p = 's pst -> 'a res * 's pst

(** val ret : 'a2 -> ('a1, 'a2) p **)

let ret a s =
  ((Ok a), s)

(** val fail : z -> ('a1, 'a2) p **)

let fail e s =
  ((Err e), s)

(** val crash : site -> ('a1, 'a2) p **)

let crash c s =
  ((Crash c), s)

(** val bind : ('a1, 'a2) p -> ('a2 -> ('a1, 'a3) p) -> ('a1, 'a3) p **)

let bind m f s =
  let (r, s') = m s in
  (match r with
   | Ok a -> f a s'
   | Err e -> ((Err e), s')
   | Crash c -> ((Crash c), s'))

(** val lift : ('a1 -> 'a2 * 'a1) -> ('a1, 'a2) p **)

let lift f s =
  let (x, s') = f (fst s) in ((Ok x), (s', (snd s)))

(** val lift_ : ('a1 -> 'a1) -> ('a1, unit) p **)

let lift_ f s =
  ((Ok ()), ((f (fst s)), (snd s)))

(** val pure : 'a2 res -> ('a1, 'a2) p **)

let pure r s =
  (r, s)

(** val alloc : z -> z -> ('a1, bool) p **)

let alloc mm n0 s =
  let a = snd s in
  ((Ok (Z.leb n0 mm)), ((fst s), { ac_alloc = (Z.add a.ac_alloc n0);
  ac_maxreq = (Z.max a.ac_maxreq n0); ac_nalloc =
  (Z.add a.ac_nalloc (Zpos XH)) }))

(** val iter_p : positive -> ('a2 -> ('a1, 'a2) p) -> 'a2 -> ('a1, 'a2) p **)

let rec iter_p p0 f x =
  match p0 with
  | XI q -> bind (f x) (fun x1 -> bind (iter_p q f x1) (iter_p q f))
  | XO q -> bind (iter_p q f x) (iter_p q f)
  | XH -> f x

(** val iter_n : z -> ('a2 -> ('a1, 'a2) p) -> 'a2 -> ('a1, 'a2) p **)

let iter_n n0 f x =
  match n0 with
  | Zpos p0 -> iter_p p0 f x
  | _ -> ret x

(** val rd_nn : 'a1 src -> z -> ('a1, z) p **)

let rd_nn x fmt =
  if Z.ltb fmt (Zpos (XI (XO XH))) then lift x.g32 else lift x.g64

(** val rd_name : 'a1 src -> z -> z -> ('a1, byte list) p **)

let rd_name x mm fmt =
  bind (rd_nn x fmt) (fun n0 ->
    if Z.gtb n0 nC_MAX_NAME
    then fail nC_EMAXNAME
    else bind (alloc mm (Z.add n0 (Zpos XH))) (fun ok ->
           if negb ok
           then fail nC_ENOMEM
           else bind (lift (x.gbytes n0)) (fun b ->
                  let padding = padlen n0 in
                  bind
                    (if Z.gtb padding Z0
                     then lift_ (x.gskip padding)
                     else ret ()) (fun _ -> ret b))))

(** val rd_dim : 'a1 src -> z -> z -> z -> ('a1, dim) p **)

let rd_dim x mm fmt unlimited_id =
  bind (rd_name x mm fmt) (fun nm ->
    bind (rd_nn x fmt) (fun sz0 ->
      let sz = to_i64 sz0 in
      if (&&) (negb (Z.eqb unlimited_id (Zneg XH))) (Z.eqb sz Z0)
      then fail nC_EUNLIMIT
      else bind (alloc mm sZ_NC_DIM) (fun ok ->
             if negb ok
             then fail nC_ENOMEM
             else ret { d_name = nm; d_size = sz })))

(** val rndup_int : z -> ('a1, z) p **)

let rndup_int n0 =
  if Z.gtb (Z.add n0 (Z.sub pNC_ARRAY_GROWBY (Zpos XH))) iNT_MAX
  then crash S_rndup_int
  else ret
         (Z.mul
           (Z.div (Z.add n0 (Z.sub pNC_ARRAY_GROWBY (Zpos XH)))
             pNC_ARRAY_GROWBY) pNC_ARRAY_GROWBY)

(** val rd_dimarray : 'a1 src -> z -> z -> ('a1, dim list) p **)

let rd_dimarray x mm fmt =
  bind (lift x.g32) (fun tag ->
    bind (rd_nn x fmt) (fun n0 ->
      if Z.gtb n0 nC_MAX_DIMS
      then fail nC_EMAXDIMS
      else if Z.eqb n0 Z0
           then ret []
           else if negb (Z.eqb tag nC_DIMENSION_TAG)
                then fail nC_ENOTNC
                else bind (rndup_int n0) (fun asz ->
                       bind (alloc mm (Z.mul asz (Zpos (XO (XO (XO XH))))))
                         (fun ok ->
                         if negb ok
                         then fail nC_ENOMEM
                         else bind
                                (iter_n n0 (fun st ->
                                  let (p0, acc) = st in
                                  let (i, unlim) = p0 in
                                  bind (rd_dim x mm fmt unlim) (fun d ->
                                    ret (((Z.add i (Zpos XH)),
                                      (if Z.eqb d.d_size Z0 then i else unlim)),
                                      (d :: acc)))) ((Z0, (Zneg XH)), []))
                                (fun st -> ret (rev (snd st)))))))

(** val rd_type : 'a1 src -> z -> ('a1, z) p **)

let rd_type x fmt =
  bind (lift x.g32) (fun t ->
    if Z.ltb t (Zpos XH)
    then fail nC_EBADTYPE
    else if Z.ltb fmt (Zpos (XI (XO XH)))
         then if Z.gtb t (Zpos (XO (XI XH))) then fail nC_EBADTYPE else ret t
         else if Z.gtb t (Zpos (XI (XI (XO XH))))
              then fail nC_EBADTYPE
              else ret t)

(** val attr_xsz : z -> z -> z res **)

let attr_xsz t nelems =
  let x = xlen_type t in
  if Z.eqb x (Zpos XH)
  then rbind (chk S_attr_xlen (Z.add nelems (Zpos (XI XH)))) (fun s -> Ok
         (Z.mul (Z.div s (Zpos (XO (XO XH)))) (Zpos (XO (XO XH)))))
  else if Z.eqb x (Zpos (XO XH))
       then rbind
              (chk S_attr_xlen (Z.add nelems (Z.rem nelems (Zpos (XO XH)))))
              (fun s -> chk S_attr_xlen (Z.mul s (Zpos (XO XH))))
       else chk S_attr_xlen (Z.mul nelems x)

(** val rd_att : 'a1 src -> z -> z -> ('a1, att) p **)

let rd_att x mm fmt =
  bind (rd_name x mm fmt) (fun nm ->
    bind (rd_type x fmt) (fun t ->
      bind (rd_nn x fmt) (fun n0 ->
        let n1 = to_i64 n0 in
        bind (alloc mm sZ_NC_ATTR) (fun ok ->
          if negb ok
          then fail nC_ENOMEM
          else if Z.gtb n1 Z0
               then bind (pure (attr_xsz t n1)) (fun xsz ->
                      bind (alloc mm xsz) (fun ok2 ->
                        if negb ok2
                        then fail nC_ENOMEM
                        else let nbytes = Z.mul n1 (xlen_type t) in
                             let padding = Z.sub xsz nbytes in
                             bind (lift (x.gbytes nbytes)) (fun data ->
                               bind
                                 (if Z.gtb padding Z0
                                  then lift_ (x.gskip padding)
                                  else ret ()) (fun _ ->
                                 ret { a_name = nm; a_type = t; a_nelems =
                                   n1; a_data = data }))))
               else bind (pure (chk S_attrV_mul (Z.mul n1 (xlen_type t))))
                      (fun prod0 ->
                      let nbytes = Z.modulo prod0 tWO64 in
                      if Z.gtb nbytes Z0
                      then crash S_attr_memcpy_null
                      else ret { a_name = nm; a_type = t; a_nelems = n1;
                             a_data = [] })))))

(** val rd_attarray : 'a1 src -> z -> z -> ('a1, att list) p **)

let rd_attarray x mm fmt =
  bind (lift x.g32) (fun tag ->
    bind (rd_nn x fmt) (fun n0 ->
      if Z.gtb n0 nC_MAX_ATTRS
      then fail nC_EMAXATTS
      else if Z.eqb n0 Z0
           then ret []
           else if negb (Z.eqb tag nC_ATTRIBUTE_TAG)
                then fail nC_ENOTNC
                else bind (rndup_int n0) (fun asz ->
                       bind (alloc mm (Z.mul asz (Zpos (XO (XO (XO XH))))))
                         (fun ok ->
                         if negb ok
                         then fail nC_ENOMEM
                         else bind
                                (iter_n n0 (fun acc ->
                                  bind (rd_att x mm fmt) (fun a ->
                                    ret (a :: acc))) []) (fun acc ->
                                ret (rev acc))))))

(** val rd_var : 'a1 src -> z -> z -> z -> ('a1, var * bool) p **)

let rd_var x mm fmt f_ndims =
  bind (rd_name x mm fmt) (fun nm ->
    bind (rd_nn x fmt) (fun nd ->
      if Z.gtb nd nC_MAX_VAR_DIMS
      then fail nC_EMAXDIMS
      else bind (alloc mm sZ_NC_VAR) (fun ok ->
             if negb ok
             then fail nC_ENOMEM
             else bind
                    (if Z.gtb nd Z0
                     then bind (alloc mm (Z.mul nd (Zpos (XO (XO (XO XH))))))
                            (fun a ->
                            bind
                              (alloc mm (Z.mul nd (Zpos (XO (XO (XO XH))))))
                              (fun b ->
                              bind (alloc mm (Z.mul nd (Zpos (XO (XO XH)))))
                                (fun c -> ret (((&&) a b), c))))
                     else ret (true, true)) (fun oks ->
                    bind
                      (iter_n nd (fun acc ->
                        bind (rd_nn x fmt) (fun d ->
                          if Z.geb d f_ndims
                          then fail nC_EBADDIM
                          else if negb (snd oks)
                               then crash S_var_calloc_null
                               else ret (d :: acc))) []) (fun racc ->
                      bind (rd_attarray x mm fmt) (fun atts ->
                        bind (rd_type x fmt) (fun t ->
                          bind (rd_nn x fmt) (fun _ ->
                            bind
                              (if Z.eqb fmt (Zpos XH)
                               then lift x.g32
                               else lift x.g64) (fun bg ->
                              ret ({ v_name = nm; v_dimids = (rev racc);
                                v_atts = atts; v_type = t; v_begin =
                                (to_i64 bg); v_nofill = true }, (fst oks)))))))))))

(** val rd_vararray : 'a1 src -> z -> z -> z -> ('a1, (var * bool) list) p **)

let rd_vararray x mm fmt f_ndims =
  bind (lift x.g32) (fun tag ->
    bind (rd_nn x fmt) (fun n0 ->
      if Z.gtb n0 nC_MAX_VARS
      then fail nC_EMAXVARS
      else if Z.eqb n0 Z0
           then ret []
           else if negb (Z.eqb tag nC_VARIABLE_TAG)
                then fail nC_ENOTNC
                else bind (rndup_int n0) (fun asz ->
                       bind (alloc mm (Z.mul asz (Zpos (XO (XO (XO XH))))))
                         (fun ok ->
                         if negb ok
                         then fail nC_ENOMEM
                         else bind
                                (iter_n n0 (fun acc ->
                                  bind (rd_var x mm fmt f_ndims) (fun v ->
                                    ret (v :: acc))) []) (fun acc ->
                                ret (rev acc))))))

(** val cvlen_loop : z list -> z -> z -> bool res **)

let rec cvlen_loop shape prod0 vmax =
  match shape with
  | [] -> Ok true
  | s :: r ->
    if Z.eqb prod0 Z0
    then Crash S_div_zero
    else if Z.gtb s (Z.quot vmax prod0)
         then Ok false
         else rbind (chk S_check_vlen_mul (Z.mul prod0 s)) (fun p0 ->
                cvlen_loop r p0 vmax)

(** val shape_isrec : z list -> bool **)

let shape_isrec = function
| [] -> false
| s0 :: _ -> Z.eqb s0 Z0

(** val cvlen : z -> z list -> z -> bool res **)

let cvlen xsz shape vmax =
  cvlen_loop (if shape_isrec shape then tl shape else shape) xsz vmax

(** val shape_prod : z list -> z -> z res **)

let rec shape_prod rs p0 =
  match rs with
  | [] -> Ok p0
  | s :: r ->
    if Z.eqb s Z0
    then shape_prod r p0
    else rbind (chk S_shape_product (Z.mul p0 s)) (fun p' -> shape_prod r p')

(** val var_product : z list -> z res **)

let var_product shape =
  match rev shape with
  | [] -> Ok (Zpos XH)
  | sl :: r ->
    (match r with
     | [] -> Ok (if Z.eqb sl Z0 then Zpos XH else sl)
     | _ :: _ -> shape_prod r sl)

(** val unlimpos_bad : z list -> bool **)

let unlimpos_bad = function
| [] -> false
| _ :: r -> existsb (fun s -> Z.eqb s Z0) r

(** val var_shape64 : dim list -> var -> bool -> ((z list * z) * z) res **)

let var_shape64 dims v shape_ok =
  let shape = var_shape dims v in
  let xsz = xlen_type v.v_type in
  if (&&) (negb shape_ok) (Z.ltb Z0 (zlen v.v_dimids))
  then Crash S_var_calloc_null
  else if unlimpos_bad shape
       then Err nC_EUNLIMPOS
       else rbind (var_product shape) (fun p0 ->
              rbind (cvlen xsz shape (Z.sub i64_MAX (Zpos (XI XH))))
                (fun ok ->
                if negb ok
                then Err nC_EVARSIZE
                else rbind (chk S_len (Z.mul p0 xsz)) (fun raw ->
                       rbind
                         (if Z.gtb (Z.rem raw (Zpos (XO (XO XH)))) Z0
                          then chk S_len
                                 (Z.add raw
                                   (Z.sub (Zpos (XO (XO XH)))
                                     (Z.rem raw (Zpos (XO (XO XH))))))
                          else Ok raw) (fun len -> Ok ((shape, len), raw)))))

(** val cvs_loop :
    dim list -> (var * bool) list -> z -> z -> z option -> ((z * z) * z)
    option -> z list -> ((((z * z) * z option) * ((z * z) * z) option) * z
    list) res **)

let rec cvs_loop dims vs begin_rec recsize fv fr lens =
  match vs with
  | [] -> Ok ((((begin_rec, recsize), fv), fr), (rev lens))
  | p0 :: r ->
    let (v, sok) = p0 in
    rbind (var_shape64 dims v sok) (fun t ->
      let (p1, raw) = t in
      let (shape, len) = p1 in
      if shape_isrec shape
      then rbind (chk S_recsize (Z.add recsize len)) (fun rs ->
             cvs_loop dims r begin_rec rs fv
               (match fr with
                | Some _ -> fr
                | None -> Some ((v.v_begin, len), raw)) (len :: lens))
      else rbind (chk S_begin_len (Z.add v.v_begin len)) (fun br ->
             cvs_loop dims r br recsize
               (match fv with
                | Some _ -> fv
                | None -> Some v.v_begin) fr (len :: lens)))

(** val compute_var_shape :
    z -> dim list -> (var * bool) list -> (((z * z) * z) * z list) res **)

let compute_var_shape xsz dims vs = match vs with
| [] -> Ok (((Z0, Z0), Z0), [])
| _ :: _ ->
  rbind (cvs_loop dims vs xsz Z0 None None []) (fun t ->
    let (p0, lens) = t in
    let (p1, fr) = p0 in
    let (p2, fv) = p1 in
    let (br0, rs0) = p2 in
    rbind
      (match fr with
       | Some p3 ->
         let (p4, fraw) = p3 in
         let (fb, fl) = p4 in
         if Z.gtb br0 fb
         then Err nC_ENOTNC
         else Ok (fb, (if Z.eqb rs0 fl then fraw else rs0))
       | None -> Ok (br0, rs0)) (fun q ->
      let (br, rs) = q in
      let bv = match fv with
               | Some b -> b
               | None -> br in
      if (||) ((||) ((||) (Z.leb bv Z0) (Z.gtb xsz bv)) (Z.leb br Z0))
           (Z.gtb bv br)
      then Err nC_ENOTNC
      else Ok (((bv, br), rs), lens)))

(** val rvl_pass :
    z -> z -> (z * z list) list -> bool -> z -> bool -> (z * bool) option res **)

let rec rvl_pass fmt vmax vs want_rec cnt last =
  match vs with
  | [] -> Ok (Some (cnt, last))
  | p0 :: r ->
    let (xsz, shape) = p0 in
    if eqb (shape_isrec shape) want_rec
    then rbind (cvlen xsz shape vmax) (fun ok ->
           if ok
           then rvl_pass fmt vmax r want_rec cnt false
           else if Z.geb fmt (Zpos (XI (XO XH)))
                then Ok None
                else rvl_pass fmt vmax r want_rec (Z.add cnt (Zpos XH)) true)
    else rvl_pass fmt vmax r want_rec cnt last

(** val rd_check_vlens : z -> (z * z list) list -> z res **)

let rd_check_vlens fmt vs =
  let vmax = vlen_max_of fmt in
  (match vs with
   | [] -> Ok nC_NOERR
   | _ :: _ ->
     rbind (rvl_pass fmt vmax vs false Z0 false) (fun o ->
       match o with
       | Some p0 ->
         let (lf, lastf) = p0 in
         if Z.gtb lf (Zpos XH)
         then Ok nC_EVARSIZE
         else if (&&) (Z.eqb lf (Zpos XH)) (negb lastf)
              then Ok nC_EVARSIZE
              else let nrec = zlen (filter (fun t -> shape_isrec (snd t)) vs)
                   in
                   if Z.eqb nrec Z0
                   then Ok nC_NOERR
                   else if Z.eqb lf (Zpos XH)
                        then Ok nC_EVARSIZE
                        else rbind (rvl_pass fmt vmax vs true Z0 false)
                               (fun o2 ->
                               match o2 with
                               | Some p1 ->
                                 let (lr, lastr) = p1 in
                                 if Z.gtb lr (Zpos XH)
                                 then Ok nC_EVARSIZE
                                 else if (&&) (Z.eqb lr (Zpos XH))
                                           (negb lastr)
                                      then Ok nC_EVARSIZE
                                      else Ok nC_NOERR
                               | None -> Ok nC_EVARSIZE)
       | None -> Ok nC_EVARSIZE))

(** val voffs_pass : ((bool * z) * z) list -> bool -> z -> z option res **)

let rec voffs_pass vs want_rec prev =
  match vs with
  | [] -> Ok (Some prev)
  | p0 :: r ->
    let (p1, len) = p0 in
    let (isrec, bg) = p1 in
    if eqb isrec want_rec
    then if Z.ltb bg prev
         then Ok None
         else rbind (chk S_begin_len (Z.add bg len)) (fun e ->
                voffs_pass r want_rec e)
    else voffs_pass r want_rec prev

(** val rd_check_voffs : z -> z -> ((bool * z) * z) list -> z res **)

let rd_check_voffs begin_var begin_rec vs = match vs with
| [] -> Ok nC_NOERR
| _ :: _ ->
  let nrec = zlen (filter (fun t -> fst (fst t)) vs) in
  let nfix = Z.sub (zlen vs) nrec in
  rbind
    (if Z.eqb nfix Z0
     then Ok nC_NOERR
     else rbind (voffs_pass vs false begin_var) (fun o ->
            match o with
            | Some e ->
              if Z.ltb begin_rec e then Ok nC_ENOTNC else Ok nC_NOERR
            | None -> Ok nC_ENOTNC)) (fun st ->
    if negb (Z.eqb st nC_NOERR)
    then Ok st
    else if Z.eqb nrec Z0
         then Ok nC_NOERR
         else rbind (voffs_pass vs true begin_rec) (fun o ->
                match o with
                | Some _ -> Ok nC_NOERR
                | None -> Ok nC_ENOTNC))

type opened = { o_hdr : hdr; o_lay : layout; o_lens : z list; o_nrec : z }

(** val post_open : hdr -> bool list -> opened res **)

let post_open h soks =
  rbind (chk S_hdr_len (hdr_len h)) (fun xsz ->
    let dims = h.h_dims in
    rbind (compute_var_shape xsz dims (zip h.h_vars soks)) (fun t ->
      let (p0, lens) = t in
      let (p1, rs) = p0 in
      let (bv, br) = p1 in
      let shapes = map (var_shape dims) h.h_vars in
      let nrec = zlen (filter shape_isrec shapes) in
      rbind
        (rd_check_vlens h.h_format
          (zip (map (fun v -> xlen_type v.v_type) h.h_vars) shapes))
        (fun e1 ->
        if negb (Z.eqb e1 nC_NOERR)
        then Err e1
        else rbind
               (rd_check_voffs bv br
                 (zip
                   (zip (map shape_isrec shapes)
                     (map (fun v -> v.v_begin) h.h_vars)) lens)) (fun e2 ->
               if negb (Z.eqb e2 nC_NOERR)
               then Err e2
               else Ok { o_hdr = h; o_lay = { l_xsz = xsz; l_begin_var = bv;
                      l_begin_rec = br; l_recsize = rs; l_begins =
                      (map (fun v -> v.v_begin) h.h_vars) }; o_lens = lens;
                      o_nrec = nrec }))))

(** val hdf5_sig : byte list **)

let hdf5_sig =
  (Zpos (XI (XO (XO (XI (XO (XO (XO XH)))))))) :: ((Zpos (XO (XO (XO (XI (XO
    (XO XH))))))) :: ((Zpos (XO (XO (XI (XO (XO (XO XH))))))) :: ((Zpos (XO
    (XI (XI (XO (XO (XO XH))))))) :: ((Zpos (XI (XO (XI XH)))) :: ((Zpos (XO
    (XI (XO XH)))) :: ((Zpos (XO (XI (XO (XI XH))))) :: ((Zpos (XO (XI (XO
    XH)))) :: [])))))))

(** val hdr_get_NC : 'a1 src -> z -> ('a1, opened) p **)

let hdr_get_NC x mm =
  bind (lift (x.gbytes (Zpos (XO (XO XH))))) (fun m ->
    if negb
         (bytes_eqb (zfirstn (Zpos (XI XH)) m) ((Zpos (XI (XI (XO (XO (XO (XO
           XH))))))) :: ((Zpos (XO (XO (XI (XO (XO (XO XH))))))) :: ((Zpos
           (XO (XI (XI (XO (XO (XO XH))))))) :: []))))
    then bind (lift (x.gbytes (Zpos (XO (XO (XO XH)))))) (fun sg ->
           if bytes_eqb sg hdf5_sig then fail nC_ENOTNC3 else fail nC_ENOTNC)
    else let ver = znth m (Zpos (XI XH)) Z0 in
         if negb
              ((||) ((||) (Z.eqb ver (Zpos XH)) (Z.eqb ver (Zpos (XO XH))))
                (Z.eqb ver (Zpos (XI (XO XH)))))
         then fail nC_ENOTNC
         else bind (rd_nn x ver) (fun nr ->
                bind (rd_dimarray x mm ver) (fun dims ->
                  bind (rd_attarray x mm ver) (fun gatts ->
                    bind (rd_vararray x mm ver (zlen dims)) (fun vars ->
                      pure
                        (post_open { h_format = ver; h_numrecs = (to_i64 nr);
                          h_dims = dims; h_gatts = gatts; h_vars =
                          (map fst vars) } (map snd vars)))))))

type cst = { c_chunk : z; c_pos : z; c_tail : byte list; c_off : z;
             c_rest : byte list; c_getsize : z; c_fetches : z }

(** val c_fetch : cst -> cst **)

let c_fetch c =
  let slack0 = Z.sub c.c_chunk c.c_pos in
  let slack = if Z.eqb slack0 c.c_chunk then Z0 else slack0 in
  let kept = if Z.gtb slack Z0 then zfirstn slack c.c_tail else [] in
  let readLen = Z.sub c.c_chunk slack in
  let got = zfirstn readLen c.c_rest in
  { c_chunk = c.c_chunk; c_pos = Z0; c_tail =
  (app kept (app got (zeros (Z.sub readLen (zlen got))))); c_off =
  (Z.add c.c_off readLen); c_rest = (zskipn readLen c.c_rest); c_getsize =
  (Z.add c.c_getsize (zlen got)); c_fetches = (Z.add c.c_fetches (Zpos XH)) }

(** val c_adv : z -> cst -> cst **)

let c_adv k c =
  { c_chunk = c.c_chunk; c_pos = (Z.add c.c_pos k); c_tail =
    (zskipn k c.c_tail); c_off = c.c_off; c_rest = c.c_rest; c_getsize =
    c.c_getsize; c_fetches = c.c_fetches }

(** val c_need : z -> cst -> cst **)

let c_need k c =
  if Z.gtb (Z.add c.c_pos k) c.c_chunk then c_fetch c else c

(** val c_g32 : cst -> z * cst **)

let c_g32 c =
  let c1 = c_need (Zpos (XO (XO XH))) c in
  (match get_u32 c1.c_tail with
   | Some p0 -> let (v, _) = p0 in (v, (c_adv (Zpos (XO (XO XH))) c1))
   | None -> (Z0, (c_adv (Zpos (XO (XO XH))) c1)))

(** val c_g64 : cst -> z * cst **)

let c_g64 c =
  let c1 = c_need (Zpos (XO (XO (XO XH)))) c in
  (match get_u64 c1.c_tail with
   | Some p0 -> let (v, _) = p0 in (v, (c_adv (Zpos (XO (XO (XO XH)))) c1))
   | None -> (Z0, (c_adv (Zpos (XO (XO (XO XH)))) c1)))

(** val c_copy : nat -> z -> byte list list -> cst -> byte list list * cst **)

let rec c_copy fuel n0 acc c =
  match fuel with
  | O -> (acc, c)
  | S k ->
    if Z.leb n0 Z0
    then (acc, c)
    else let rem0 = Z.sub c.c_chunk c.c_pos in
         if Z.gtb rem0 Z0
         then let m = Z.min rem0 n0 in
              c_copy k (Z.sub n0 m) ((zfirstn m c.c_tail) :: acc) (c_adv m c)
         else c_copy k n0 acc (c_fetch c)

(** val c_gbytes : z -> cst -> byte list * cst **)

let c_gbytes n0 c =
  let (acc, c') =
    c_copy (Z.to_nat (Z.add (Z.mul (Zpos (XO XH)) n0) (Zpos (XO XH)))) n0 [] c
  in
  ((concat (rev acc)), c')

(** val c_gskip : z -> cst -> cst **)

let c_gskip k c =
  c_adv k (c_need k c)

(** val csrc : cst src **)

let csrc =
  { g32 = c_g32; g64 = c_g64; gbytes = c_gbytes; gskip = c_gskip }

(** val norm_chunk : z -> z **)

let norm_chunk hint =
  rndup (Z.max (Z.add mIN_NC_XSZ (Zpos (XO (XO XH)))) hint) x_ALIGN

(** val c_init : z -> byte list -> cst **)

let c_init chunk f =
  c_fetch { c_chunk = chunk; c_pos = Z0; c_tail = (zeros chunk); c_off = Z0;
    c_rest = f; c_getsize = Z0; c_fetches = Z0 }

(** val acct0 : acct **)

let acct0 =
  { ac_alloc = Z0; ac_maxreq = Z0; ac_nalloc = Z0 }

(** val read_header : z -> z -> byte list -> opened res * (cst * acct) **)

let read_header chunk mm f =
  hdr_get_NC csrc mm ((c_init chunk f), acct0)

(** val f_g32 : byte list -> z * byte list **)

let f_g32 l =
  match get_u32 (take_z (Zpos (XO (XO XH))) l) with
  | Some p0 -> let (v, _) = p0 in (v, (zskipn (Zpos (XO (XO XH))) l))
  | None -> (Z0, (zskipn (Zpos (XO (XO XH))) l))

(** val f_g64 : byte list -> z * byte list **)

let f_g64 l =
  match get_u64 (take_z (Zpos (XO (XO (XO XH)))) l) with
  | Some p0 -> let (v, _) = p0 in (v, (zskipn (Zpos (XO (XO (XO XH)))) l))
  | None -> (Z0, (zskipn (Zpos (XO (XO (XO XH)))) l))

(** val f_gbytes : z -> byte list -> byte list * byte list **)

let f_gbytes n0 l =
  ((take_z n0 l), (zskipn n0 l))

(** val f_gskip : z -> byte list -> byte list **)

let f_gskip =
  zskipn

(** val fsrc : byte list src **)

let fsrc =
  { g32 = f_g32; g64 = f_g64; gbytes = f_gbytes; gskip = f_gskip }

(** val read_header_flat :
    z -> byte list -> opened res * (byte list * acct) **)

let read_header_flat mm f =
  hdr_get_NC fsrc mm (f, acct0)

(** val hdf5_probe : nat -> byte list -> z -> bool **)

let rec hdf5_probe fuel f off =
  match fuel with
  | O -> false
  | S k ->
    let sg = zfirstn (Zpos (XO (XO (XO XH)))) (zskipn off f) in
    if Z.ltb (zlen sg) (Zpos (XO (XO (XO XH))))
    then false
    else if bytes_eqb sg hdf5_sig
         then true
         else hdf5_probe k f
                (if Z.eqb off Z0
                 then Zpos (XO (XO (XO (XO (XO (XO (XO (XO (XO XH)))))))))
                 else Z.mul off (Zpos (XO XH)))

(** val inq_file_format : byte list -> z res **)

let inq_file_format f =
  if Z.ltb (zlen f) (Zpos (XO (XO (XO XH))))
  then Err nC_EFILE
  else let v = znth f (Zpos (XI XH)) Z0 in
       if (&&)
            (bytes_eqb (zfirstn (Zpos (XI XH)) f) ((Zpos (XI (XI (XO (XO (XO
              (XO XH))))))) :: ((Zpos (XO (XO (XI (XO (XO (XO
              XH))))))) :: ((Zpos (XO (XI (XI (XO (XO (XO XH))))))) :: []))))
            ((||) ((||) (Z.eqb v (Zpos XH)) (Z.eqb v (Zpos (XO XH))))
              (Z.eqb v (Zpos (XI (XO XH)))))
       then Ok v
       else if hdf5_probe (S (S (Z.to_nat (Z.log2 (zlen f))))) f Z0
            then Err nC_ENOTBUILT
            else Err nC_ENOTNC

type outcome = { out_res : opened res; out_fetches : z; out_offset : 
                 z; out_getsize : z; out_acct : acct }

(** val open_model : z -> z -> byte list -> outcome **)

let open_model chunk_hint mm f =
  match inq_file_format f with
  | Ok _ ->
    let chunk = norm_chunk chunk_hint in
    let (r, p0) = read_header chunk mm f in
    let (c, a) = p0 in
    { out_res = r; out_fetches = c.c_fetches; out_offset = c.c_off;
    out_getsize = c.c_getsize; out_acct = { ac_alloc =
    (Z.add a.ac_alloc chunk); ac_maxreq = (Z.max a.ac_maxreq chunk);
    ac_nalloc = (Z.add a.ac_nalloc (Zpos XH)) } }
  | Err e ->
    { out_res = (Err e); out_fetches = Z0; out_offset = Z0; out_getsize = Z0;
      out_acct = { ac_alloc = Z0; ac_maxreq = Z0; ac_nalloc = Z0 } }
  | Crash s ->
    { out_res = (Crash s); out_fetches = Z0; out_offset = Z0; out_getsize =
      Z0; out_acct = { ac_alloc = Z0; ac_maxreq = Z0; ac_nalloc = Z0 } }

(** val open_flat : z -> byte list -> opened res **)

let open_flat mm f =
  match inq_file_format f with
  | Ok _ -> fst (read_header_flat mm f)
  | Err e -> Err e
  | Crash s -> Crash s

(** val att_req : att -> z **)

let att_req a =
  Z.max (Z.add (zlen a.a_name) (Zpos XH))
    (rndup (Z.mul a.a_nelems (xlen_type a.a_type)) (Zpos (XO (XO XH))))

(** val list_req : z -> z **)

let list_req n0 =
  Z.mul
    (Z.mul
      (Z.div (Z.add n0 (Zpos (XI (XI (XI (XI (XI XH))))))) (Zpos (XO (XO (XO
        (XO (XO (XO XH)))))))) (Zpos (XO (XO (XO (XO (XO (XO XH)))))))) (Zpos
    (XO (XO (XO XH))))

(** val var_req : var -> z **)

let var_req v =
  Z.max
    (Z.max (Z.add (zlen v.v_name) (Zpos XH))
      (Z.mul (zlen v.v_dimids) (Zpos (XO (XO (XO XH))))))
    (Z.max (list_req (zlen v.v_atts))
      (fold_right Z.max Z0 (map att_req v.v_atts)))

(** val hdr_req : hdr -> z **)

let hdr_req h =
  Z.max
    (Z.max sZ_NC_VAR
      (fold_right Z.max Z0
        (map (fun d -> Z.add (zlen d.d_name) (Zpos XH)) h.h_dims)))
    (Z.max (Z.max (list_req (zlen h.h_dims)) (list_req (zlen h.h_gatts)))
      (Z.max (fold_right Z.max Z0 (map att_req h.h_gatts))
        (Z.max (list_req (zlen h.h_vars))
          (fold_right Z.max Z0 (map var_req h.h_vars)))))

(** val name_ok : byte list -> bool **)

let name_ok nm =
  Z.leb (zlen nm) nC_MAX_NAME

(** val att_ok : att -> bool **)

let att_ok a =
  (&&) ((&&) (name_ok a.a_name) (Z.leb a.a_nelems i64_MAX))
    (Z.leb
      (rndup (Z.mul a.a_nelems (xlen_type a.a_type)) (Zpos (XO (XO XH))))
      i64_MAX)

(** val order_ok : z -> (z * z) list -> z option **)

let rec order_ok prev = function
| [] -> Some prev
| p0 :: r ->
  let (b, len) = p0 in if Z.ltb b prev then None else order_ok (Z.add b len) r

(** val c04_valid : z -> decoded -> bool **)

let c04_valid mm d =
  let h = d.dc_hdr in
  let fmt = h.h_format in
  let dims = h.h_dims in
  let vars = h.h_vars in
  let fixed = filter (fun v -> negb (is_recvar dims v)) vars in
  let recs = filter (is_recvar dims) vars in
  (&&)
    ((&&)
      ((&&)
        ((&&)
          ((&&)
            ((&&)
              ((&&)
                ((&&)
                  ((&&)
                    ((&&)
                      ((&&)
                        ((&&)
                          ((&&) (Z.leb h.h_numrecs i64_MAX)
                            (Z.leb (zlen dims)
                              (Z.sub nC_MAX_INT (Zpos (XI (XI (XI (XI (XI
                                XH)))))))))
                          (Z.leb (zlen h.h_gatts)
                            (Z.sub nC_MAX_INT (Zpos (XI (XI (XI (XI (XI
                              XH)))))))))
                        (Z.leb (zlen vars)
                          (Z.sub nC_MAX_INT (Zpos (XI (XI (XI (XI (XI
                            XH)))))))))
                      (forallb (fun x ->
                        (&&) ((&&) (name_ok x.d_name) (Z.leb Z0 x.d_size))
                          (Z.leb x.d_size i64_MAX)) dims))
                    (Z.leb (zlen (filter (fun x -> Z.eqb x.d_size Z0) dims))
                      (Zpos XH))) (forallb att_ok h.h_gatts))
                (forallb (fun v ->
                  (&&)
                    ((&&)
                      ((&&)
                        ((&&)
                          ((&&)
                            ((&&)
                              ((&&)
                                ((&&)
                                  ((&&)
                                    ((&&) (name_ok v.v_name)
                                      (Z.leb (zlen v.v_dimids) nC_MAX_INT))
                                    (Z.leb (zlen v.v_atts)
                                      (Z.sub nC_MAX_INT (Zpos (XI (XI (XI (XI
                                        (XI XH)))))))))
                                  (forallb att_ok v.v_atts))
                                (forallb (fun i ->
                                  (&&) (Z.leb Z0 i) (Z.ltb i (zlen dims)))
                                  v.v_dimids))
                              (negb (unlimpos_bad (var_shape dims v))))
                            (valid_type fmt v.v_type))
                          (check_vlen (xlen_type v.v_type) (var_shape dims v)
                            (Z.sub i64_MAX (Zpos (XI XH)))))
                        (Z.leb Z0 v.v_begin)) (Z.leb v.v_begin i64_MAX))
                    (Z.leb v.v_begin (Z.sub i64_MAX (var_len dims v)))) vars))
              (Z.leb (zsum (map (var_len dims) recs)) i64_MAX))
            (Z.eqb (check_vlens h) nC_NOERR)) (Z.ltb Z0 d.dc_len))
        (Z.leb d.dc_len i64_MAX)) (Z.leb (hdr_req h) mm))
    (match vars with
     | [] -> true
     | _ :: _ ->
       (match order_ok d.dc_len
                (map (fun v -> (v.v_begin, (var_len dims v))) fixed) with
        | Some end_fixed ->
          (match recs with
           | [] -> true
           | _ :: _ ->
             (match order_ok end_fixed
                      (map (fun v -> (v.v_begin, (var_len dims v))) recs) with
              | Some _ -> true
              | None -> false))
        | None -> false))

(** val expected_open : decoded -> opened **)

let expected_open d =
  let h = d.dc_hdr in
  let dims = h.h_dims in
  { o_hdr = h; o_lay = (layout_of_hdr h d.dc_len); o_lens =
  (map (var_len dims) h.h_vars); o_nrec =
  (zlen (filter (is_recvar dims) h.h_vars)) }

(** val consistent : opened -> bool **)

let consistent o =
  let h = o.o_hdr in
  let dims = h.h_dims in
  let lay = o.o_lay in
  (&&)
    ((&&)
      ((&&)
        ((&&)
          ((&&)
            ((&&) (Z.leb Z0 h.h_numrecs)
              (forallb (fun x -> Z.leb Z0 x.d_size) dims))
            (forallb (fun a ->
              (&&) (Z.leb Z0 a.a_nelems)
                (Z.eqb (zlen a.a_data)
                  (Z.mul a.a_nelems (xlen_type a.a_type)))) h.h_gatts))
          (forallb (fun v ->
            (&&)
              ((&&)
                (forallb (fun i -> (&&) (Z.leb Z0 i) (Z.ltb i (zlen dims)))
                  v.v_dimids)
                (forallb (fun a ->
                  (&&) (Z.leb Z0 a.a_nelems)
                    (Z.eqb (zlen a.a_data)
                      (Z.mul a.a_nelems (xlen_type a.a_type)))) v.v_atts))
              (Z.leb Z0 v.v_begin)) h.h_vars))
        (forallb (fun l -> Z.leb Z0 l) o.o_lens)) (Z.leb Z0 lay.l_recsize))
    (match h.h_vars with
     | [] -> true
     | _ :: _ ->
       (&&) (Z.leb lay.l_xsz lay.l_begin_var)
         (Z.leb lay.l_begin_var lay.l_begin_rec))

(** val u32 : z -> byte list **)

let u32 =
  put_u32

(** val u64 : z -> byte list **)

let u64 =
  put_u64

(** val nm1 : z -> byte list **)

let nm1 c =
  app (u32 (Zpos XH)) (c :: (Z0 :: (Z0 :: (Z0 :: []))))

(** val nm5 : z -> byte list **)

let nm5 c =
  app (u64 (Zpos XH)) (c :: (Z0 :: (Z0 :: (Z0 :: []))))

(** val absent1 : byte list **)

let absent1 =
  app (u32 Z0) (u32 Z0)

(** val absent5 : byte list **)

let absent5 =
  app (u32 Z0) (u64 Z0)

(** val w_rndup_int : byte list **)

let w_rndup_int =
  app ((Zpos (XI (XI (XO (XO (XO (XO XH))))))) :: ((Zpos (XO (XO (XI (XO (XO
    (XO XH))))))) :: ((Zpos (XO (XI (XI (XO (XO (XO XH))))))) :: ((Zpos
    XH) :: []))))
    (app (u32 Z0)
      (app (u32 (Zpos (XO (XI (XO XH)))))
        (app
          (u32 (Zpos (XI (XI (XI (XI (XI (XI (XI (XI (XI (XI (XI (XI (XI (XI
            (XI (XI (XI (XI (XI (XI (XI (XI (XI (XI (XI (XI (XI (XI (XI (XI
            XH)))))))))))))))))))))))))))))))) (app absent1 absent1))))

(** val w_attr_null : byte list **)

let w_attr_null =
  app ((Zpos (XI (XI (XO (XO (XO (XO XH))))))) :: ((Zpos (XO (XO (XI (XO (XO
    (XO XH))))))) :: ((Zpos (XO (XI (XI (XO (XO (XO XH))))))) :: ((Zpos (XI
    (XO XH))) :: []))))
    (app (u64 Z0)
      (app absent5
        (app (u32 (Zpos (XO (XO (XI XH)))))
          (app (u64 (Zpos XH))
            (app (nm5 (Zpos (XI (XO (XO (XO (XO (XI XH))))))))
              (app (u32 (Zpos XH))
                (app
                  (u64 (Zpos (XI (XI (XI (XI (XI (XI (XI (XI (XI (XI (XI (XI
                    (XI (XI (XI (XI (XI (XI (XI (XI (XI (XI (XI (XI (XI (XI
                    (XI (XI (XI (XI (XI (XI (XI (XI (XI (XI (XI (XI (XI (XI
                    (XI (XI (XI (XI (XI (XI (XI (XI (XI (XI (XI (XI (XI (XI
                    (XI (XI (XI (XI (XI (XI (XI (XI (XI
                    XH)))))))))))))))))))))))))))))))))))))))))))))))))))))))))))))))))
                  absent5)))))))

(** val w_attrV_mul : byte list **)

let w_attrV_mul =
  app ((Zpos (XI (XI (XO (XO (XO (XO XH))))))) :: ((Zpos (XO (XO (XI (XO (XO
    (XO XH))))))) :: ((Zpos (XO (XI (XI (XO (XO (XO XH))))))) :: ((Zpos (XI
    (XO XH))) :: []))))
    (app (u64 Z0)
      (app absent5
        (app (u32 (Zpos (XO (XO (XI XH)))))
          (app (u64 (Zpos XH))
            (app (nm5 (Zpos (XI (XO (XO (XO (XO (XI XH))))))))
              (app (u32 (Zpos (XO (XI XH))))
                (app
                  (u64 (Zpos (XO (XO (XO (XO (XO (XO (XO (XO (XO (XO (XO (XO
                    (XO (XO (XO (XO (XO (XO (XO (XO (XO (XO (XO (XO (XO (XO
                    (XO (XO (XO (XO (XO (XO (XO (XO (XO (XO (XO (XO (XO (XO
                    (XO (XO (XO (XO (XO (XO (XO (XO (XO (XO (XO (XO (XO (XO
                    (XO (XO (XO (XO (XO (XO (XO (XO (XO
                    XH)))))))))))))))))))))))))))))))))))))))))))))))))))))))))))))))))
                  absent5)))))))

(** val w_attr_xlen : byte list **)

let w_attr_xlen =
  app ((Zpos (XI (XI (XO (XO (XO (XO XH))))))) :: ((Zpos (XO (XO (XI (XO (XO
    (XO XH))))))) :: ((Zpos (XO (XI (XI (XO (XO (XO XH))))))) :: ((Zpos (XI
    (XO XH))) :: []))))
    (app (u64 Z0)
      (app absent5
        (app (u32 (Zpos (XO (XO (XI XH)))))
          (app (u64 (Zpos XH))
            (app (nm5 (Zpos (XI (XO (XO (XO (XO (XI XH))))))))
              (app (u32 (Zpos (XO (XI XH))))
                (app
                  (u64 (Zpos (XO (XO (XO (XO (XO (XO (XO (XO (XO (XO (XO (XO
                    (XO (XO (XO (XO (XO (XO (XO (XO (XO (XO (XO (XO (XO (XO
                    (XO (XO (XO (XO (XO (XO (XO (XO (XO (XO (XO (XO (XO (XO
                    (XO (XO (XO (XO (XO (XO (XO (XO (XO (XO (XO (XO (XO (XO
                    (XO (XO (XO (XO (XO (XO (XO
                    XH)))))))))))))))))))))))))))))))))))))))))))))))))))))))))))))))
                  absent5)))))))

(** val w_shape_product : byte list **)

let w_shape_product =
  app ((Zpos (XI (XI (XO (XO (XO (XO XH))))))) :: ((Zpos (XO (XO (XI (XO (XO
    (XO XH))))))) :: ((Zpos (XO (XI (XI (XO (XO (XO XH))))))) :: ((Zpos
    XH) :: []))))
    (app (u32 Z0)
      (app (u32 (Zpos (XO (XI (XO XH)))))
        (app (u32 (Zpos (XO XH)))
          (app (nm1 (Zpos (XO (XO (XO (XI (XI (XI XH))))))))
            (app
              (u32 (Zpos (XI (XI (XI (XI (XI (XI (XI (XI (XI (XI (XI (XI (XI
                (XI (XI (XI (XI (XI (XI (XI (XI (XI (XI (XI (XI (XI (XI (XI
                (XI (XI (XI XH)))))))))))))))))))))))))))))))))
              (app (nm1 (Zpos (XI (XO (XO (XI (XI (XI XH))))))))
                (app
                  (u32 (Zpos (XI (XI (XI (XI (XI (XI (XI (XI (XI (XI (XI (XI
                    (XI (XI (XI (XI (XI (XI (XI (XI (XI (XI (XI (XI (XI (XI
                    (XI (XI (XI (XI (XI XH)))))))))))))))))))))))))))))))))
                  (app absent1
                    (app (u32 (Zpos (XI (XI (XO XH)))))
                      (app (u32 (Zpos XH))
                        (app (nm1 (Zpos (XO (XI (XI (XO (XI (XI XH))))))))
                          (app (u32 (Zpos (XO XH)))
                            (app (u32 Z0)
                              (app (u32 (Zpos XH))
                                (app absent1
                                  (app (u32 (Zpos XH))
                                    (app (u32 Z0)
                                      (u32 (Zpos (XO (XO (XO (XI (XO (XO (XI
                                        XH))))))))))))))))))))))))))

(** val w_var_calloc : byte list **)

let w_var_calloc =
  app ((Zpos (XI (XI (XO (XO (XO (XO XH))))))) :: ((Zpos (XO (XO (XI (XO (XO
    (XO XH))))))) :: ((Zpos (XO (XI (XI (XO (XO (XO XH))))))) :: ((Zpos
    XH) :: []))))
    (app (u32 Z0)
      (app (u32 (Zpos (XO (XI (XO XH)))))
        (app (u32 (Zpos XH))
          (app (nm1 (Zpos (XO (XO (XO (XI (XI (XI XH))))))))
            (app (u32 (Zpos (XI (XO XH))))
              (app absent1
                (app (u32 (Zpos (XI (XI (XO XH)))))
                  (app (u32 (Zpos XH))
                    (app (nm1 (Zpos (XO (XI (XI (XO (XI (XI XH))))))))
                      (app
                        (u32 (Zpos (XI (XI (XI (XI (XI (XI (XI (XI (XI (XI
                          (XI (XI (XI (XI (XI (XI (XI (XI (XI (XI (XI (XI (XI
                          (XI (XI (XI (XI (XI (XI (XI
                          XH))))))))))))))))))))))))))))))))
                        (app (u32 Z0) (app (u32 Z0) (app (u32 Z0) (u32 Z0))))))))))))))

(** val w_check_vlen : byte list **)

let w_check_vlen =
  app ((Zpos (XI (XI (XO (XO (XO (XO XH))))))) :: ((Zpos (XO (XO (XI (XO (XO
    (XO XH))))))) :: ((Zpos (XO (XI (XI (XO (XO (XO XH))))))) :: ((Zpos (XI
    (XO XH))) :: []))))
    (app (u64 Z0)
      (app (u32 (Zpos (XO (XI (XO XH)))))
        (app (u64 (Zpos XH))
          (app (nm5 (Zpos (XO (XO (XO (XI (XI (XI XH))))))))
            (app
              (u64 (Zpos (XO (XO (XO (XO (XO (XO (XO (XO (XO (XO (XO (XO (XO
                (XO (XO (XO (XO (XO (XO (XO (XO (XO (XO (XO (XO (XO (XO (XO
                (XO (XO (XO (XO (XO (XO (XO (XO (XO (XO (XO (XO (XO (XO (XO
                (XO (XO (XO (XO (XO (XO (XO (XO (XO (XO (XO (XO (XO (XO (XO
                (XO (XO (XO (XO (XO
                XH)))))))))))))))))))))))))))))))))))))))))))))))))))))))))))))))))
              (app absent5
                (app (u32 (Zpos (XI (XI (XO XH)))))
                  (app (u64 (Zpos XH))
                    (app (nm5 (Zpos (XO (XI (XI (XO (XI (XI XH))))))))
                      (app (u64 (Zpos XH))
                        (app (u64 Z0)
                          (app absent5
                            (app (u32 (Zpos (XO (XO XH))))
                              (app (u64 Z0)
                                (u64 (Zpos (XO (XO (XO (XI (XO (XO (XI
                                  XH)))))))))))))))))))))))

(** val w_begin_len : byte list **)

let w_begin_len =
  app ((Zpos (XI (XI (XO (XO (XO (XO XH))))))) :: ((Zpos (XO (XO (XI (XO (XO
    (XO XH))))))) :: ((Zpos (XO (XI (XI (XO (XO (XO XH))))))) :: ((Zpos (XO
    XH)) :: []))))
    (app (u32 Z0)
      (app absent1
        (app absent1
          (app (u32 (Zpos (XI (XI (XO XH)))))
            (app (u32 (Zpos XH))
              (app (nm1 (Zpos (XO (XI (XI (XO (XI (XI XH))))))))
                (app (u32 Z0)
                  (app absent1
                    (app (u32 (Zpos (XO (XI XH))))
                      (app (u32 (Zpos (XO (XO (XO XH)))))
                        (u64 (Zpos (XO (XO (XI (XI (XI (XI (XI (XI (XI (XI
                          (XI (XI (XI (XI (XI (XI (XI (XI (XI (XI (XI (XI (XI
                          (XI (XI (XI (XI (XI (XI (XI (XI (XI (XI (XI (XI (XI
                          (XI (XI (XI (XI (XI (XI (XI (XI (XI (XI (XI (XI (XI
                          (XI (XI (XI (XI (XI (XI (XI (XI (XI (XI (XI (XI (XI
                          XH))))))))))))))))))))))))))))))))))))))))))))))))))))))))))))))))))))))))))

(** val w_numrecs_neg : byte list **)

let w_numrecs_neg =
  app ((Zpos (XI (XI (XO (XO (XO (XO XH))))))) :: ((Zpos (XO (XO (XI (XO (XO
    (XO XH))))))) :: ((Zpos (XO (XI (XI (XO (XO (XO XH))))))) :: ((Zpos (XI
    (XO XH))) :: []))))
    (app
      (u64 (Zpos (XI (XI (XI (XI (XI (XI (XI (XI (XI (XI (XI (XI (XI (XI (XI
        (XI (XI (XI (XI (XI (XI (XI (XI (XI (XI (XI (XI (XI (XI (XI (XI (XI
        (XI (XI (XI (XI (XI (XI (XI (XI (XI (XI (XI (XI (XI (XI (XI (XI (XI
        (XI (XI (XI (XI (XI (XI (XI (XI (XI (XI (XI (XI (XI (XI
        XH)))))))))))))))))))))))))))))))))))))))))))))))))))))))))))))))))
      (app absent5 (app absent5 absent5)))

(** val w_dim_neg : byte list **)

let w_dim_neg =
  app ((Zpos (XI (XI (XO (XO (XO (XO XH))))))) :: ((Zpos (XO (XO (XI (XO (XO
    (XO XH))))))) :: ((Zpos (XO (XI (XI (XO (XO (XO XH))))))) :: ((Zpos (XI
    (XO XH))) :: []))))
    (app (u64 Z0)
      (app (u32 (Zpos (XO (XI (XO XH)))))
        (app (u64 (Zpos XH))
          (app (nm5 (Zpos (XO (XO (XO (XI (XI (XI XH))))))))
            (app
              (u64 (Zpos (XI (XO (XI (XO (XO (XO (XO (XO (XO (XO (XO (XO (XO
                (XO (XO (XO (XO (XO (XO (XO (XO (XO (XO (XO (XO (XO (XO (XO
                (XO (XO (XO (XO (XO (XO (XO (XO (XO (XO (XO (XO (XO (XO (XO
                (XO (XO (XO (XO (XO (XO (XO (XO (XO (XO (XO (XO (XO (XO (XO
                (XO (XO (XO (XO (XO
                XH)))))))))))))))))))))))))))))))))))))))))))))))))))))))))))))))))
              (app absent5 absent5))))))

(** val w_alloc_dims : byte list **)

let w_alloc_dims =
  app ((Zpos (XI (XI (XO (XO (XO (XO XH))))))) :: ((Zpos (XO (XO (XI (XO (XO
    (XO XH))))))) :: ((Zpos (XO (XI (XI (XO (XO (XO XH))))))) :: ((Zpos
    XH) :: []))))
    (app (u32 Z0)
      (app (u32 (Zpos (XO (XI (XO XH)))))
        (app
          (u32 (Zpos (XO (XO (XO (XO (XO (XO (XI (XI (XI (XI (XI (XI (XI (XI
            (XI (XI (XI (XI (XI (XI (XI (XI (XI (XI (XI (XI (XI (XI (XI (XI
            XH))))))))))))))))))))))))))))))))
          (app absent1 (app absent1 (app absent1 absent1))))))

(** val w_read_zeros : byte list **)

let w_read_zeros =
  app ((Zpos (XI (XI (XO (XO (XO (XO XH))))))) :: ((Zpos (XO (XO (XI (XO (XO
    (XO XH))))))) :: ((Zpos (XO (XI (XI (XO (XO (XO XH))))))) :: ((Zpos
    XH) :: []))))
    (app (u32 Z0)
      (app absent1
        (app (u32 (Zpos (XO (XO (XI XH)))))
          (app (u32 (Zpos XH))
            (app (nm1 (Zpos (XI (XO (XO (XO (XO (XI XH))))))))
              (app (u32 (Zpos XH))
                (app
                  (u32 (Zpos (XO (XO (XO (XO (XO (XI (XO (XI (XO (XI (XI (XO
                    (XO (XO (XO (XI XH)))))))))))))))))) absent1)))))))
