(* Proofs_Reach.v — the invariant of EVERY reachable state of the interpreter of Exec.v.

   Part 1 (this file):
     A  definitions: hdr_good, lay_core, disk_has_hdr, data_ok, ranks_ok, file_ok,
        file_inv, world_inv, the script contract step_ok (bool) and its pieces
        (slot_free, acc_lens_b, put_acc_ok, open_ok)
     B  small list / world lemmas, the frame relation, inv_update, inv_store
     C  the operations that do not touch a file state or only taint it, the world settings
        (hints, ids), and the define-mode metadata operations
        (def_dim, def_var, put_att, set_fill, def_var_fill)
   Part 2 (Proofs_Reach2.v): enddef (new file and after redef), numrecs agreement, redef,
        begin/end_indep, sync, close, abort, create, open.
   Part 3 (Proofs_Reach3.v): put (collective, independent), fill_var_rec, the case analysis
        exec_step_preserves_inv, reachable_inv and the corollaries.
   Part 4 (Proofs_Reach4.v): examples (a 23-command history, the corollaries instantiated on its
        states) and the counterexamples that show why the contract step_ok is needed.

   No model definition is modified. *)
From Pnc Require Import Base Gen_consts Header HeaderSpec Access Data Disk Move Fill Exec.
From Pnc Require Import Proofs_Base Proofs_Header Proofs_Layout Proofs_Fill Proofs_Move Proofs_Redef.
From Pnc Require Import Proofs_Lists Proofs_Access Proofs_CheckScs Proofs_Disk Proofs_RoundTrip.
From Pnc Require Import Proofs_Exec2.
Require Import Lia ZArith List Bool ZifyBool.
Import ListNotations.
Ltac Zify.zify_post_hook ::= Z.div_mod_to_equations.
Local Open Scope Z_scope.

Local Arguments Z.mul : simpl never.
Local Arguments Z.add : simpl never.
Local Arguments Z.sub : simpl never.
Local Arguments Z.div : simpl never.
Local Arguments Z.modulo : simpl never.
Local Arguments Z.max : simpl never.
Local Arguments Z.min : simpl never.
Local Arguments Z.pow : simpl never.
Local Arguments Z.of_nat : simpl never.
Local Arguments Z.to_nat : simpl never.

(* ====================================================================== *)
(** * A. Definitions                                                       *)
(* ====================================================================== *)

Definition align_ok (c : aligncfg) : Prop :=
  0 <= env_h_align c /\ 0 <= env_v_align c /\ 0 <= env_r_align c.

(* what the guards of def_var guarantee of a variable (and what open_ok checks of a file
   found on disk): a legal type number, dimension ids that exist, the record dimension only
   in front *)
Definition var_good (dims : list dim) (v : var) : Prop :=
  1 <= v_type v <= 11 /\
  Forall (fun d => 0 <= d < Zlen dims) (v_dimids v) /\
  Forall (fun d => dim_size dims d <> 0) (tl (v_dimids v)).

Definition hdr_good (h : hdr) : Prop :=
  hdr_wf h /\ Forall (var_good (h_dims h)) (h_vars h) /\ 0 <= h_numrecs h.

(* the layout with its header extent capped at begin_var.  For a header WITH variables the
   layout invariant says l_xsz <= l_begin_var, so lay_core lay = lay; a file without variables
   that was closed and reopened has the layout (hdr_len, 0, 0, 0, []) of layout_of_hdr, whose
   begin_var 0 is below the header extent: only its core satisfies lay_inv.  [begins], the data
   movement and the fill never read l_xsz of the OLD layout. *)
Definition lay_core (lay : layout) : layout :=
  mklayout (Z.min (l_xsz lay) (l_begin_var lay)) (l_begin_var lay) (l_begin_rec lay)
           (l_recsize lay) (l_begins lay).

(* Proofs_Exec2.hdr_on_disk, for a disk and a header *)
Definition disk_has_hdr (d : disk) (h : hdr) : Prop :=
  dk_exists d = true /\ hdr_len h <= dk_size d /\ dk_read d 0 (hdr_len h) = encode_header h.

(* the data-mode clauses of a header h with layout lay kept on disk d *)
Definition data_ok (d : disk) (h : hdr) (lay : layout) : Prop :=
  lay_inv (t3of h) (lay_core lay) /\
  (h_vars h <> [] -> lay_inv (t3of h) lay) /\
  map v_begin (h_vars h) = l_begins lay /\
  l_xsz lay = hdr_len h /\
  (wf_hdr h = true -> disk_has_hdr d h).

(* per-rank numrecs: never below the header's numrecs (which is what the file holds); equal to
   it on every rank unless the file is writable, in independent mode and has a record variable
   (then a rank may be ahead until the next sync) *)
Definition ranks_ok (np : Z) (f : filest) : Prop :=
  Zlen (f_ranks f) = np /\
  Forall (fun r => h_numrecs (f_hdr f) <= rk_numrecs r) (f_ranks f) /\
  (f_indep f = false \/ num_rec_vars (f_hdr f) = 0 \/ f_rdonly f = true ->
     Forall (fun r => rk_numrecs r = h_numrecs (f_hdr f)) (f_ranks f)).

Definition file_ok (np nd : Z) (d : disk) (f : filest) : Prop :=
  0 <= f_slot f < nd /\ hdr_good (f_hdr f) /\ align_ok (f_align f) /\ ranks_ok np f /\
  if f_indef f then
    f_indep f = false /\ f_rdonly f = false /\
    match f_old f with
    | None => f_isnew f = true /\ f_lay f = empty_layout
    | Some (oh, ol) =>
        f_isnew f = false /\ f_lay f = ol /\ hdr_good oh /\ data_ok d oh ol /\
        hdr_extends oh (f_hdr f) /\ h_numrecs (f_hdr f) = h_numrecs oh
    end
  else f_old f = None /\ f_isnew f = false /\ data_ok d (f_hdr f) (f_lay f).

(** the invariant of one open file *)
Definition file_inv (w : world) (f : filest) : Prop :=
  file_ok (w_nprocs w) (Zlen (w_disks w)) (disk_of w f) f.

Definition slots_distinct (fs : list (option filest)) : Prop :=
  forall i j f g, znth fs i None = Some f -> znth fs j None = Some g ->
    f_slot f = f_slot g -> i = j.

(** the invariant of the world *)
Definition world_inv (w : world) : Prop :=
  1 <= w_nprocs w /\ 1 <= w_move_unit w /\ align_ok (w_hints w) /\
  slots_distinct (w_files w) /\
  (forall i f, znth (w_files w) i None = Some f -> f_tainted f = false -> file_inv w f).

(* ---------- the script contract: which steps the invariant theorem covers ---------- *)

(* no open file (tainted or not) sits on disk slot s *)
Definition slot_free (w : world) (s : Z) : bool :=
  forallb (fun o => match o with Some g => negb (f_slot g =? s) | None => true end) (w_files w).

Definition slot_in_range (w : world) (s : Z) : bool := (0 <=? s) && (s <? Zlen (w_disks w)).

(* the C arrays start/count/stride have ndims entries *)
Definition olen (o : option (list Z)) (n : nat) : bool :=
  match o with Some l => Nat.eqb (length l) n | None => true end.

Definition acc_lens_b (fm : form) (n : nat) : bool :=
  match fm with
  | FVar => true
  | FVar1 s => olen s n
  | FVara s c => olen s n && olen c n
  | FVars s c t => olen s n && olen c n && olen t n
  | FVarm s c t m => olen s n && olen c n && olen t n
  | FVarn reqs => forallb (fun sc => Nat.eqb (length (fst sc)) n && Nat.eqb (length (snd sc)) n) reqs
  end.

Definition put_acc_ok (f : filest) (a : access) : bool :=
  (ac_var a <? 0) || (ac_var a >=? Zlen (h_vars (f_hdr f))) ||
  acc_lens_b (ac_form a) (length (v_dimids (the_var f a))).

(* boolean readings of the clauses an opened file must satisfy *)
Definition var_good_b (dims : list dim) (v : var) : bool :=
  (1 <=? v_type v) && (v_type v <=? 11) &&
  forallb (fun d => (0 <=? d) && (d <? Zlen dims)) (v_dimids v) &&
  forallb (fun d => negb (dim_size dims d =? 0)) (tl (v_dimids v)).

Definition hdr_good_b (h : hdr) : bool :=
  forallb (fun d => 0 <=? d_size d) (h_dims h) &&
  forallb (var_good_b (h_dims h)) (h_vars h) && (0 <=? h_numrecs h).

Fixpoint contig_b (e : Z) (l : list (Z * Z)) : bool :=
  match l with [] => true | (b, len) :: r => (b =? e) && contig_b (e + len) r end.

Definition lay_inv_b (t3 : list (bool * Z * Z)) (lay : layout) : bool :=
  let vs := map fst t3 in
  let fl := sel false vs (l_begins lay) in
  let rl := sel true vs (l_begins lay) in
  Nat.eqb (length (l_begins lay)) (length vs) &&
  (l_xsz lay <=? l_begin_var lay) &&
  begins_increasing (l_begin_var lay) fl &&
  (l_begin_var lay =? match fl with (b, _) :: _ => b | [] => l_begin_rec lay end) &&
  (last_end (l_begin_var lay) fl <=? l_begin_rec lay) &&
  (l_begin_rec lay mod 4 =? 0) &&
  contig_b (l_begin_rec lay) rl &&
  (l_recsize lay =? rs_rule t3).

(* the validation of the file found on disk by open: when its first bytes decode, the decoded
   header is well formed, re-encodes to exactly those bytes, and the layout the library derives
   from it satisfies the layout invariant *)
Definition open_ok (d : disk) : bool :=
  negb (dk_exists d) ||
  match decode (dk_read d 0 (Z.min (dk_size d) 65536)) with
  | None => true
  | Some dc =>
      let h := dc_hdr dc in
      let lay := layout_of_hdr h (dc_len dc) in
      wf_hdr h && hdr_good_b h && (dc_len dc =? hdr_len h) && (hdr_len h <=? dk_size d) &&
      bytes_eqb (dk_read d 0 (hdr_len h)) (encode_header h) &&
      lay_inv_b (t3of h) (lay_core lay) &&
      (match h_vars h with [] => true | _ => lay_inv_b (t3of h) lay end)
  end.

Definition op_ok (w : world) (o : op) : bool :=
  match o with
  | OCreate s _ clobber =>
      slot_in_range w s && (slot_free w s || (dk_exists (get_disk w s) && (clobber =? 0)))
  | OOpen s _ =>
      negb (dk_exists (get_disk w s)) || (slot_in_range w s && slot_free w s && open_ok (get_disk w s))
  | OJunk s _ _ => slot_free w s
  | OPut s _ a =>
      match lookup_file w s with Some (_, f) => put_acc_ok f a | None => true end
  | _ => true
  end.

Definition step_ok (w : world) (s : step) : bool :=
  match s with
  | SAll o => op_ok w o
  | SOne _ o => op_ok w o
  | SEach os =>
      match os with
      | [] => true
      | o0 :: _ =>
          match lookup_file w (slot_of o0) with
          | Some (_, f) =>
              forallb (fun o => match o with OPut _ _ a => put_acc_ok f a | _ => true end) os
          | None => true
          end
      end
  end.

(* ====================================================================== *)
(** * B. Small lemmas                                                      *)
(* ====================================================================== *)

Lemma rz_znth_out : forall A (l : list A) i d, i < 0 \/ Zlen l <= i -> znth l i d = d.
Proof.
  intros A l. induction l as [|x l IH]; intros i d H; [reflexivity|].
  rewrite Proofs_Base.Zlen_cons in H. pose proof (Proofs_Base.Zlen_nonneg _ l) as Hn.
  cbn [znth]. destruct (Z.eqb_spec i 0) as [E|E]; [lia|]. apply IH. lia.
Qed.

Lemma rz_znth_some_range : forall A (l : list (option A)) i x,
  znth l i None = Some x -> 0 <= i < Zlen l.
Proof.
  intros A l i x H. destruct (Z_lt_ge_dec i 0) as [Hl|Hl].
  - rewrite rz_znth_out in H by lia. discriminate H.
  - destruct (Z_lt_ge_dec i (Zlen l)) as [Hu|Hu]; [lia|].
    rewrite rz_znth_out in H by lia. discriminate H.
Qed.

Lemma rz_Forall_zupd : forall A (P : A -> Prop) (l : list A) i v,
  Forall P l -> P v -> Forall P (zupd l i v).
Proof.
  intros A P l. induction l as [|x l IH]; intros i v Hl Hv; [constructor|].
  inversion Hl as [|? ? Hx Hr]; subst. cbn [zupd].
  destruct (i =? 0); constructor; try assumption. apply IH; assumption.
Qed.

Lemma rz_Forall_map : forall A B (P : B -> Prop) (g : A -> B) (l : list A),
  (forall x, In x l -> P (g x)) -> Forall P (map g l).
Proof.
  intros A B P g l H. apply Forall_forall. intros y Hy. apply in_map_iff in Hy.
  destruct Hy as [x [<- Hx]]. apply H. exact Hx.
Qed.

Lemma rz_Zlen_all_ranks : forall w, 1 <= w_nprocs w -> Zlen (all_ranks w) = w_nprocs w.
Proof. intros w H. unfold all_ranks. rewrite Proofs_Disk.Zlen_zrange. lia. Qed.

Lemma lookup_file_some : forall w slot id f, lookup_file w slot = Some (id, f) ->
  znth (w_files w) id None = Some f /\ 0 <= id < Zlen (w_files w).
Proof.
  intros w slot id f H. unfold lookup_file in H. cbv zeta in H.
  destruct (znth (w_ids w) slot (-1) <? 0) eqn:E; [discriminate H|].
  destruct (znth (w_files w) (znth (w_ids w) slot (-1)) None) as [g|] eqn:Ez; [|discriminate H].
  injection H as <- <-. split; [exact Ez|]. exact (rz_znth_some_range _ _ _ _ Ez).
Qed.

Lemma slot_free_spec : forall w s i g, slot_free w s = true ->
  znth (w_files w) i None = Some g -> f_slot g <> s.
Proof.
  intros w s i g H Hz. unfold slot_free in H. rewrite forallb_forall in H.
  pose proof (rz_znth_some_range _ _ _ _ Hz) as Hi.
  specialize (H (znth (w_files w) i None) (Proofs_Disk.znth_In _ _ _ Hi)).
  rewrite Hz in H. lia.
Qed.

(* ---------- lay_core ---------- *)
Lemma lay_core_id : forall t3 lay, lay_inv t3 lay -> lay_core lay = lay.
Proof.
  intros t3 lay (_ & Hx & _). unfold lay_core. rewrite Z.min_l by exact Hx. destruct lay; reflexivity.
Qed.

Lemma lay_inv_core : forall t3 lay, lay_inv t3 lay -> lay_inv t3 (lay_core lay).
Proof. intros t3 lay H. rewrite (lay_core_id t3 lay H). exact H. Qed.

Lemma lay_core_fields : forall lay,
  l_begin_var (lay_core lay) = l_begin_var lay /\ l_begin_rec (lay_core lay) = l_begin_rec lay /\
  l_recsize (lay_core lay) = l_recsize lay /\ l_begins (lay_core lay) = l_begins lay.
Proof. intros lay. repeat split; reflexivity. Qed.

(* ---------- hdr_good ---------- *)
Definition vkey (v : var) : list Z * Z := (v_dimids v, v_type v).

Lemma var_good_key : forall dims v v', vkey v' = vkey v -> var_good dims v -> var_good dims v'.
Proof.
  intros dims v v' E H. unfold vkey in E. injection E as E1 E2. unfold var_good in *.
  rewrite E1, E2. exact H.
Qed.

Lemma vars_good_key : forall dims vs vs', map vkey vs' = map vkey vs ->
  Forall (var_good dims) vs -> Forall (var_good dims) vs'.
Proof.
  intros dims vs. induction vs as [|v vs IH]; intros [|v' vs'] E H; cbn [map] in E;
    try discriminate E; [constructor|].
  pose proof (f_equal (fun l => hd (vkey v) l) E) as E1. pose proof (f_equal (@tl _) E) as E2.
  cbn [hd tl] in E1, E2. inversion H as [|? ? Hv Hr]; subst.
  constructor; [exact (var_good_key dims v v' E1 Hv)|exact (IH vs' E2 Hr)].
Qed.

Lemma t3of_key : forall h h', h_dims h' = h_dims h ->
  map vkey (h_vars h') = map vkey (h_vars h) -> t3of h' = t3of h.
Proof.
  intros h h' Ed Ev. unfold t3of. rewrite Ed. clear Ed.
  revert Ev. generalize (h_vars h'). generalize (h_vars h). generalize (h_dims h). intros dims vs.
  induction vs as [|v vs IH]; intros [|v' vs'] E; cbn [map] in E; try discriminate E; [reflexivity|].
  pose proof (f_equal (fun l => hd (vkey v) l) E) as E1. pose proof (f_equal (@tl _) E) as E3.
  cbn [hd tl] in E1, E3. unfold vkey in E1. injection E1 as E1 E2.
  cbn [map]. rewrite (IH vs' E3). f_equal.
  unfold is_recvar, var_len, unpadded, var_shape. rewrite E1, E2. reflexivity.
Qed.

Lemma var_good_app_dims : forall dims nd v, var_good dims v -> var_good (dims ++ nd) v.
Proof.
  intros dims nd v (Ht & Hids & Htl). split; [exact Ht|].
  pose proof (Proofs_Base.Zlen_nonneg _ nd) as Hn.
  split.
  - eapply Forall_impl; [|exact Hids]. intros d Hd. cbn beta in *. rewrite Proofs_Base.Zlen_app. lia.
  - assert (Hin : Forall (fun d => 0 <= d < Zlen dims) (tl (v_dimids v))).
    { destruct (v_dimids v) as [|x l]; [constructor|]. inversion Hids; assumption. }
    clear Hids. induction Htl as [|d l Hd Hl IH]; [constructor|].
    inversion Hin as [|? ? Hd' Hl']; subst. constructor; [|apply IH; exact Hl'].
    unfold dim_size in *. rewrite znth_app_l by exact Hd'. exact Hd.
Qed.

Lemma t3of_app_dims : forall fmt nr dims nd gatts vars,
  Forall (var_good dims) vars ->
  t3of (mkhdr fmt nr (dims ++ nd) gatts vars) = t3of (mkhdr fmt nr dims gatts vars).
Proof.
  intros fmt nr dims nd gatts vars H. unfold t3of. cbn [h_dims h_vars].
  apply map_ext_in. intros v Hv. rewrite Forall_forall in H. destruct (H v Hv) as (_ & Hids & _).
  unfold is_recvar, var_len, unpadded. rewrite (var_shape_app_dims dims nd v Hids). reflexivity.
Qed.

Lemma hdr_extends_refl : forall h, hdr_extends h h.
Proof. intros h. exists []. rewrite app_nil_r. reflexivity. Qed.

(* a variable the guards accept has a usable geometry *)
Lemma var_good_geom : forall dims v, Forall (fun d => 0 <= d_size d) dims -> var_good dims v ->
  0 < xlen_type (v_type v) /\ dims_wf (var_shape dims v).
Proof.
  intros dims v Hwf (Ht & Hids & Htl). split.
  - pose proof (xlen_type_pos (v_type v) Ht). lia.
  - unfold dims_wf, var_shape. destruct (v_dimids v) as [|d0 ds]; cbn [map]; [exact I|].
    split; [apply dim_size_nonneg; exact Hwf|].
    cbn [tl] in Htl. clear Hids. induction Htl as [|d l Hd Hl IH]; cbn [map]; constructor.
    + pose proof (dim_size_nonneg dims d Hwf). lia.
    + exact IH.
Qed.

(* booleans to propositions *)
Lemma var_good_b_sound : forall dims v, var_good_b dims v = true -> var_good dims v.
Proof.
  intros dims v H. unfold var_good_b in H. rewrite !andb_true_iff in H.
  destruct H as [[[H1 H2] H3] H4]. split; [lia|]. split.
  - apply forallb_Forall in H3. eapply Forall_impl; [|exact H3]. intros d Hd. cbn beta in Hd. lia.
  - apply forallb_Forall in H4. eapply Forall_impl; [|exact H4]. intros d Hd. cbn beta in Hd. lia.
Qed.

Lemma hdr_good_b_sound : forall h, hdr_good_b h = true -> hdr_good h.
Proof.
  intros h H. unfold hdr_good_b in H. rewrite !andb_true_iff in H. destruct H as [[H1 H2] H3].
  split; [apply hdr_wf_b; exact H1|]. split; [|lia].
  apply forallb_Forall in H2. eapply Forall_impl; [|exact H2]. intros v Hv.
  apply var_good_b_sound. exact Hv.
Qed.

Lemma contig_b_sound : forall l e, contig_b e l = true -> contig e l.
Proof.
  induction l as [|[b len] r IH]; intros e H; cbn [contig_b contig] in *; [exact I|].
  rewrite andb_true_iff in H. destruct H as [H1 H2]. split; [lia|].
  replace (b + len) with (e + len) by lia. apply IH. exact H2.
Qed.

Lemma lay_inv_b_sound : forall t3 lay, lay_inv_b t3 lay = true -> lay_inv t3 lay.
Proof.
  intros t3 lay H. unfold lay_inv_b in H. cbv zeta in H. rewrite !andb_true_iff in H.
  destruct H as [[[[[[[H1 H2] H3] H4] H5] H6] H7] H8].
  unfold lay_inv. cbv zeta.
  split; [apply Nat.eqb_eq; exact H1|]. split; [lia|]. split; [exact H3|].
  split; [lia|]. split; [lia|]. split; [lia|]. split; [apply contig_b_sound; exact H7|lia].
Qed.

(* ---------- the frame relation ---------- *)
(* w' differs from w at most in file id and disk slot *)
Definition frame (w w' : world) (id slot : Z) : Prop :=
  w_nprocs w' = w_nprocs w /\ w_move_unit w' = w_move_unit w /\ w_hints w' = w_hints w /\
  Zlen (w_disks w') = Zlen (w_disks w) /\
  (forall j, j <> id -> znth (w_files w') j None = znth (w_files w) j None) /\
  (forall s, s <> slot -> get_disk w' s = get_disk w s) /\
  Zlen (w_files w') = Zlen (w_files w).

Lemma frame_refl : forall w id slot, frame w w id slot.
Proof. intros. unfold frame. repeat split; reflexivity. Qed.

Lemma frame_trans : forall w1 w2 w3 id slot,
  frame w1 w2 id slot -> frame w2 w3 id slot -> frame w1 w3 id slot.
Proof.
  intros w1 w2 w3 id slot (A1 & A2 & A3 & A4 & A5 & A6 & A7) (B1 & B2 & B3 & B4 & B5 & B6 & B7).
  unfold frame. repeat split; try congruence.
  - intros j Hj. rewrite (B5 j Hj). apply A5. exact Hj.
  - intros s Hs. rewrite (B6 s Hs). apply A6. exact Hs.
Qed.

Lemma frame_set_disk : forall w id slot d, frame w (set_disk w slot d) id slot.
Proof.
  intros w id slot d. unfold frame. repeat split; try reflexivity.
  - apply Zlen_w_disks_set_disk.
  - intros s Hs. apply get_disk_set_disk_other. lia.
Qed.

Lemma frame_put_file : forall w id slot x, frame w (put_file w id x) id slot.
Proof.
  intros w id slot x. unfold frame. repeat split; try reflexivity.
  - intros j Hj. apply znth_put_file_other. lia.
  - apply Zlen_w_files_put_file.
Qed.

Lemma frame_put_set : forall w id slot d x, frame w (put_file (set_disk w slot d) id x) id slot.
Proof.
  intros. eapply frame_trans; [apply frame_set_disk|apply frame_put_file].
Qed.

(* file_ok only reads the world through nprocs, the number of disks and the file's disk *)
Lemma file_inv_frame : forall w w' g,
  w_nprocs w' = w_nprocs w -> Zlen (w_disks w') = Zlen (w_disks w) ->
  get_disk w' (f_slot g) = get_disk w (f_slot g) -> file_inv w g -> file_inv w' g.
Proof. intros w w' g H1 H2 H3 H. unfold file_inv, disk_of in *. rewrite H1, H2, H3. exact H. Qed.

(** the generic step: the world changes at most in file id (whose entry is replaced by a file
    on the same slot satisfying the invariant, or removed) and in that file's disk *)
Lemma inv_update : forall w w' id f,
  world_inv w -> znth (w_files w) id None = Some f -> frame w w' id (f_slot f) ->
  match znth (w_files w') id None with
  | None => True
  | Some f' => f_slot f' = f_slot f /\ (f_tainted f' = false -> file_inv w' f')
  end ->
  world_inv w'.
Proof.
  intros w w' id f (Hnp & Hmu & Hal & Hdist & Hfiles) Hz (F1 & F2 & F3 & F4 & F5 & F6 & _) Hnew.
  unfold world_inv. rewrite F1, F2, F3.
  split; [exact Hnp|]. split; [exact Hmu|]. split; [exact Hal|]. split.
  - intros i j a b Ha Hb Hs.
    destruct (Z.eq_dec i id) as [Ei|Ei]; destruct (Z.eq_dec j id) as [Ej|Ej]; [lia| | |].
    + subst i. rewrite Ha in Hnew. destruct Hnew as [Hsl _].
      rewrite (F5 j Ej) in Hb. exfalso. apply Ej. symmetry.
      apply (Hdist id j f b Hz Hb). congruence.
    + subst j. rewrite Hb in Hnew. destruct Hnew as [Hsl _].
      rewrite (F5 i Ei) in Ha. exfalso. apply Ei.
      apply (Hdist i id a f Ha Hz). congruence.
    + rewrite (F5 i Ei) in Ha. rewrite (F5 j Ej) in Hb. exact (Hdist i j a b Ha Hb Hs).
  - intros i g Hg Ht. destruct (Z.eq_dec i id) as [Ei|Ei].
    + subst i. rewrite Hg in Hnew. destruct Hnew as [_ Hn]. exact (Hn Ht).
    + rewrite (F5 i Ei) in Hg.
      assert (Hsl : f_slot g <> f_slot f).
      { intros C. apply Ei. exact (Hdist i id g f Hg Hz C). }
      apply (file_inv_frame w w' g F1 F4 (F6 _ Hsl)). exact (Hfiles i g Hg Ht).
Qed.

(* changing hints, ids or the strict flag does not matter *)
Lemma world_inv_set_hints : forall w c, world_inv w -> align_ok c -> world_inv (set_hints w c).
Proof.
  intros w c (H1 & H2 & H3 & H4 & H5) Hc. unfold world_inv.
  split; [exact H1|]. split; [exact H2|]. split; [exact Hc|]. split; [exact H4|exact H5].
Qed.

Lemma world_inv_set_ids : forall w ids, world_inv w -> world_inv (set_ids w ids).
Proof. intros w ids H. exact H. Qed.

Lemma world_inv_set_strict : forall w b, world_inv w -> world_inv (set_strict w b).
Proof. intros w b H. exact H. Qed.

Lemma world_inv_set_move_unit : forall w u, world_inv w -> 1 <= u -> world_inv (set_move_unit w u).
Proof.
  intros w u (H1 & H2 & H3 & H4 & H5) Hu. unfold world_inv.
  split; [exact H1|]. split; [exact Hu|]. split; [exact H3|]. split; [exact H4|exact H5].
Qed.

Lemma align_ok_no_align : align_ok no_align.
Proof. unfold align_ok, no_align. cbn. lia. Qed.

(** adding a file at the first free id, on a free slot (create, open) *)
Lemma znth_store_file_any : forall fs f j, j <> first_free fs 0 ->
  znth (store_file fs f) j None = znth fs j None.
Proof.
  intros fs f j Hne. destruct (Z_lt_ge_dec j 0) as [Hl|Hl].
  { rewrite !rz_znth_out by lia. reflexivity. }
  destruct (Z_lt_ge_dec j (Zlen fs)) as [Hu|Hu].
  { apply znth_store_file_other; lia. }
  rewrite (rz_znth_out _ fs j None) by lia.
  unfold store_file. pose proof (first_free_0_bounds fs) as Hb.
  destruct (Z.ltb_spec (first_free fs 0) (Zlen fs)) as [Hlt|Hge].
  - apply rz_znth_out. rewrite Zlen_zupd. lia.
  - apply rz_znth_out. rewrite Proofs_Base.Zlen_app, Proofs_Base.Zlen_cons, Proofs_Base.Zlen_nil. lia.
Qed.

Lemma znth_first_free_none : forall fs, znth fs (first_free fs 0) None = None.
Proof.
  intros fs. pose proof (first_free_0_bounds fs) as Hb.
  destruct (Z_lt_ge_dec (first_free fs 0) (Zlen fs)) as [Hlt|Hge].
  - pose proof (first_free_none fs 0 ltac:(lia)) as H. rewrite Z.sub_0_r in H. exact H.
  - apply rz_znth_out. lia.
Qed.

Lemma inv_store : forall w w' f,
  world_inv w -> slot_free w (f_slot f) = true ->
  w_nprocs w' = w_nprocs w -> w_move_unit w' = w_move_unit w -> align_ok (w_hints w') ->
  Zlen (w_disks w') = Zlen (w_disks w) ->
  w_files w' = store_file (w_files w) f ->
  (forall s, s <> f_slot f -> get_disk w' s = get_disk w s) ->
  (f_tainted f = false -> file_inv w' f) ->
  world_inv w'.
Proof.
  intros w w' f (Hnp & Hmu & Hal & Hdist & Hfiles) Hfree F1 F2 F3 F4 F5 F6 Hnew.
  set (id := first_free (w_files w) 0).
  assert (Hid : znth (w_files w') id None = Some f) by (rewrite F5; apply znth_store_file).
  assert (Hoth : forall j, j <> id -> znth (w_files w') j None = znth (w_files w) j None).
  { intros j Hj. rewrite F5. apply znth_store_file_any. exact Hj. }
  unfold world_inv. rewrite F1, F2.
  split; [exact Hnp|]. split; [exact Hmu|]. split; [exact F3|]. split.
  - intros i j a b Ha Hb Hs.
    destruct (Z.eq_dec i id) as [Ei|Ei]; destruct (Z.eq_dec j id) as [Ej|Ej]; [lia| | |].
    + subst i. rewrite Hid in Ha. injection Ha as <-. rewrite (Hoth j Ej) in Hb.
      exfalso. apply (slot_free_spec w (f_slot f) j b Hfree Hb). congruence.
    + subst j. rewrite Hid in Hb. injection Hb as <-. rewrite (Hoth i Ei) in Ha.
      exfalso. apply (slot_free_spec w (f_slot f) i a Hfree Ha). congruence.
    + rewrite (Hoth i Ei) in Ha. rewrite (Hoth j Ej) in Hb. exact (Hdist i j a b Ha Hb Hs).
  - intros i g Hg Ht. destruct (Z.eq_dec i id) as [Ei|Ei].
    + subst i. rewrite Hid in Hg. injection Hg as <-. exact (Hnew Ht).
    + rewrite (Hoth i Ei) in Hg.
      pose proof (slot_free_spec w (f_slot f) i g Hfree Hg) as Hsl.
      apply (file_inv_frame w w' g F1 F4 (F6 _ Hsl)). exact (Hfiles i g Hg Ht).
Qed.

(* ---------- the shape of exec_all on a file operation ---------- *)
Lemma with_file_inv : forall w slot (k : Z -> filest -> world * list obs) (bad none : list obs),
  world_inv w ->
  (forall id f, lookup_file w slot = Some (id, f) -> f_tainted f = false -> world_inv (fst (k id f))) ->
  world_inv (fst (match lookup_file w slot with
                  | Some (id, f) => if f_tainted f then (w, bad) else k id f
                  | None => (w, none)
                  end)).
Proof.
  intros w slot k bad none Hw Hk. destruct (lookup_file w slot) as [[id f]|] eqn:El; [|exact Hw].
  destruct (f_tainted f) eqn:Et; [exact Hw|]. apply Hk; [reflexivity|exact Et].
Qed.

(* tainting a file: it leaves the invariant's scope *)
Lemma taint_slot_inv : forall w slot, world_inv w -> world_inv (taint_slot w slot).
Proof.
  intros w slot Hw. unfold taint_slot. destruct (lookup_file w slot) as [[id f]|] eqn:El; [|exact Hw].
  destruct (lookup_file_some w slot id f El) as [Hz Hid].
  apply (inv_update w _ id f Hw Hz (frame_put_file w id (f_slot f) _)).
  rewrite znth_put_file_same by exact Hid. split; [reflexivity|]. intros C. discriminate C.
Qed.

(* replacing the state of file id, the disks untouched *)
Lemma inv_put_file : forall w id f f',
  world_inv w -> znth (w_files w) id None = Some f -> f_tainted f = false ->
  f_slot f' = f_slot f ->
  (file_inv w f -> f_tainted f' = false ->
     file_ok (w_nprocs w) (Zlen (w_disks w)) (disk_of w f) f') ->
  world_inv (put_file w id (Some f')).
Proof.
  intros w id f f' Hw Hz Ht Hs Hn.
  pose proof (rz_znth_some_range _ _ _ _ Hz) as Hid.
  apply (inv_update w _ id f Hw Hz (frame_put_file w id (f_slot f) _)).
  rewrite znth_put_file_same by exact Hid. split; [exact Hs|]. intros Ht'.
  destruct Hw as (_ & _ & _ & _ & Hfiles).
  unfold file_inv. rewrite disk_of_put_file. unfold disk_of at 1. rewrite Hs.
  apply (Hn (Hfiles id f Hz Ht) Ht').
Qed.

(* ====================================================================== *)
(** * C. Define-mode metadata operations                                   *)
(* ====================================================================== *)

Lemma hdr_extends_trans : forall a b c, hdr_extends a b -> hdr_extends b c -> hdr_extends a c.
Proof.
  intros a b c [e1 H1] [e2 H2]. exists (e1 ++ e2). rewrite H2, H1, app_assoc. reflexivity.
Qed.

(** a define-mode operation that replaces the header by one extending it (same numrecs) and
    keeps every other field the invariant reads *)
Lemma file_ok_indef_hdr : forall np nd d f f',
  file_ok np nd d f -> f_indef f = true ->
  f_slot f' = f_slot f -> f_align f' = f_align f -> f_ranks f' = f_ranks f ->
  f_indef f' = true -> f_indep f' = f_indep f -> f_rdonly f' = f_rdonly f ->
  f_old f' = f_old f -> f_isnew f' = f_isnew f -> f_lay f' = f_lay f ->
  hdr_good (f_hdr f') -> hdr_extends (f_hdr f) (f_hdr f') ->
  h_numrecs (f_hdr f') = h_numrecs (f_hdr f) ->
  file_ok np nd d f'.
Proof.
  intros np nd d f f' (Hs & Hg & Ha & (R1 & R2 & R3) & Hm) Hindef E1 E2 E3 E4 E5 E6 E7 E8 E9 Hg' Hext Hnr.
  rewrite Hindef in Hm. destruct Hm as (Hindep & Hro & Hold).
  unfold file_ok. rewrite E1, E2, E4, E5, E6, E7, E8, E9.
  split; [exact Hs|]. split; [exact Hg'|]. split; [exact Ha|].
  split.
  { unfold ranks_ok. rewrite E3, E5, E6, Hnr. split; [exact R1|]. split; [exact R2|].
    intros _. apply R3. left. exact Hindep. }
  split; [exact Hindep|]. split; [exact Hro|].
  destruct (f_old f) as [[oh ol]|]; [|exact Hold].
  destruct Hold as (O1 & O2 & O3 & O4 & O5 & O6).
  split; [exact O1|]. split; [exact O2|]. split; [exact O3|]. split; [exact O4|].
  split; [exact (hdr_extends_trans _ _ _ O5 Hext)|congruence].
Qed.

(* ---------- def_dim ---------- *)
Lemma def_dim_file_ok : forall np nd d f nm len f' rc ex,
  file_ok np nd d f -> do_def_dim f nm len = Some (f', rc, ex) ->
  file_ok np nd d f' /\ f_slot f' = f_slot f.
Proof.
  intros np nd d f nm len f' rc ex Hok H. unfold do_def_dim in H. cbv zeta in H.
  destruct (negb (simple_name nm)); [discriminate H|].
  destruct (f_indef f) eqn:Hindef; cbn [negb] in H; [|injection H as <- _ _; split; [exact Hok|reflexivity]].
  destruct (negb (name_err nm =? NC_NOERR)); [injection H as <- _ _; split; [exact Hok|reflexivity]|].
  destruct ((len <? 0) || ((h_format (f_hdr f) <? 5) && (len >? NC_MAX_INT))) eqn:Elen;
    [injection H as <- _ _; split; [exact Hok|reflexivity]|].
  destruct ((len =? 0) && negb (unlim_dimid (f_hdr f) =? -1));
    [injection H as <- _ _; split; [exact Hok|reflexivity]|].
  destruct (find_dim (f_hdr f) nm); [injection H as <- _ _; split; [exact Hok|reflexivity]|].
  injection H as <- _ _. split; [|reflexivity].
  pose proof Hok as (_ & (Hwf & Hvars & Hnr) & _).
  apply (file_ok_indef_hdr np nd d f _ Hok Hindef); try reflexivity; try exact Hindef.
  - cbn [upd_hdr f_hdr]. unfold hdr_good. cbn [h_dims h_vars h_numrecs].
    split; [|split; [|exact Hnr]].
    + unfold hdr_wf. cbn [h_dims]. apply Forall_app. split; [exact Hwf|].
      constructor; [cbn [d_size]; lia|constructor].
    + eapply Forall_impl; [|exact Hvars]. intros v Hv. apply var_good_app_dims. exact Hv.
  - cbn [upd_hdr f_hdr]. exists [].
    rewrite app_nil_r. rewrite (t3of_app_dims _ _ _ _ _ _ Hvars).
    destruct (f_hdr f); reflexivity.
Qed.

(* ---------- def_var ---------- *)
Lemma existsb_false_Forall : forall A (p : A -> bool) l, existsb p l = false ->
  Forall (fun x => p x = false) l.
Proof.
  intros A p l H. apply Forall_forall. intros x Hx.
  destruct (p x) eqn:E; [|reflexivity]. exfalso.
  assert (existsb p l = true) by (apply existsb_exists; exists x; split; assumption). congruence.
Qed.

Lemma def_var_file_ok : forall np nd d f nm t dimids f' rc ex,
  file_ok np nd d f -> do_def_var f nm t dimids = Some (f', rc, ex) ->
  file_ok np nd d f' /\ f_slot f' = f_slot f.
Proof.
  intros np nd d f nm t dimids f' rc ex Hok H. unfold do_def_var in H. cbv zeta in H.
  destruct (negb (simple_name nm)); [discriminate H|].
  destruct (f_indef f) eqn:Hindef; cbn [negb] in H; [|injection H as <- _ _; split; [exact Hok|reflexivity]].
  destruct (negb (name_err nm =? NC_NOERR)); [injection H as <- _ _; split; [exact Hok|reflexivity]|].
  destruct ((1 <=? t) && (t <=? 11)) eqn:Et; cbn [negb] in H;
    [|injection H as <- _ _; split; [exact Hok|reflexivity]].
  destruct ((h_format (f_hdr f) <? 5) && (t >? 6)); [injection H as <- _ _; split; [exact Hok|reflexivity]|].
  destruct (existsb (fun d0 => (d0 <? 0) || (d0 >=? Zlen (h_dims (f_hdr f)))) dimids) eqn:Eids;
    [injection H as <- _ _; split; [exact Hok|reflexivity]|].
  destruct (existsb (fun d0 => dim_size (h_dims (f_hdr f)) d0 =? 0) (tl dimids)) eqn:Etl;
    [injection H as <- _ _; split; [exact Hok|reflexivity]|].
  destruct (find_var (f_hdr f) nm); [injection H as <- _ _; split; [exact Hok|reflexivity]|].
  destruct (negb (check_vlen (xlen_type t) (map (dim_size (h_dims (f_hdr f))) dimids) (NC_MAX_INT64 - 3)));
    [injection H as <- _ _; split; [exact Hok|reflexivity]|].
  injection H as <- _ _. split; [|reflexivity].
  pose proof Hok as (_ & (Hwf & Hvars & Hnr) & _).
  apply (file_ok_indef_hdr np nd d f _ Hok Hindef); try reflexivity; try exact Hindef.
  - cbn [upd_hdr f_hdr]. unfold hdr_good. cbn [h_dims h_vars h_numrecs].
    split; [exact Hwf|]. split; [|exact Hnr].
    apply Forall_app. split; [exact Hvars|]. constructor; [|constructor].
    unfold var_good. cbn [v_type v_dimids]. split; [lia|]. split.
    + apply existsb_false_Forall in Eids. eapply Forall_impl; [|exact Eids].
      intros x Hx. cbn beta in Hx. lia.
    + apply existsb_false_Forall in Etl. eapply Forall_impl; [|exact Etl].
      intros x Hx. cbn beta in Hx. lia.
  - cbn [upd_hdr f_hdr]. eexists. unfold t3of at 1. cbn [h_dims h_vars]. rewrite map_app. reflexivity.
Qed.

(* ---------- attributes and fill modes: the variable keys are unchanged ---------- *)
Lemma hdr_good_key : forall h h', hdr_good h -> h_dims h' = h_dims h ->
  map vkey (h_vars h') = map vkey (h_vars h) -> h_numrecs h' = h_numrecs h -> hdr_good h'.
Proof.
  intros h h' (H1 & H2 & H3) Ed Ev En. unfold hdr_good, hdr_wf. rewrite Ed, En.
  split; [exact H1|]. split; [|exact H3]. exact (vars_good_key _ _ _ Ev H2).
Qed.

Lemma hdr_extends_key : forall h h', h_dims h' = h_dims h ->
  map vkey (h_vars h') = map vkey (h_vars h) -> hdr_extends h h'.
Proof. intros h h' Ed Ev. exists []. rewrite app_nil_r. apply t3of_key; assumption. Qed.

Lemma map_vkey_upd_atts : forall (varid : Z) (g : list att -> list att) vs s,
  map vkey (map (fun p : Z * var => let v := snd p in
                   if fst p =? varid
                   then mkvar (v_name v) (v_dimids v) (g (v_atts v)) (v_type v) (v_begin v) (v_nofill v)
                   else v) (zip (zseq s (length vs)) vs)) = map vkey vs.
Proof.
  intros varid g vs. induction vs as [|v vs IH]; intros s; [reflexivity|].
  cbn [length zseq zip map fst snd]. cbv zeta. rewrite IH. f_equal.
  destruct (s =? varid); reflexivity.
Qed.

Lemma upd_var_atts_key : forall h varid g,
  h_dims (upd_var_atts h varid g) = h_dims h /\
  map vkey (h_vars (upd_var_atts h varid g)) = map vkey (h_vars h) /\
  h_numrecs (upd_var_atts h varid g) = h_numrecs h.
Proof.
  intros h varid g. unfold upd_var_atts. destruct (varid =? -1); cbn [h_dims h_vars h_numrecs].
  - repeat split; reflexivity.
  - split; [reflexivity|]. split; [|reflexivity].
    unfold zrange. rewrite Proofs_Base.to_nat_Zlen. apply map_vkey_upd_atts.
Qed.

Lemma map_vkey_zupd : forall (l : list var) i v' d0, vkey v' = vkey (znth l i d0) ->
  map vkey (zupd l i v') = map vkey l.
Proof.
  induction l as [|x l IH]; intros i v' d0 E; [reflexivity|].
  cbn [zupd]. cbn [znth] in E. destruct (i =? 0).
  - cbn [map]. rewrite E. reflexivity.
  - cbn [map]. rewrite (IH (i - 1) v' d0 E). reflexivity.
Qed.

(** any define-mode replacement of the header that keeps dims, variable keys and numrecs *)
Lemma file_ok_indef_key : forall np nd d f f',
  file_ok np nd d f -> f_indef f = true ->
  f_slot f' = f_slot f -> f_align f' = f_align f -> f_ranks f' = f_ranks f ->
  f_indef f' = true -> f_indep f' = f_indep f -> f_rdonly f' = f_rdonly f ->
  f_old f' = f_old f -> f_isnew f' = f_isnew f -> f_lay f' = f_lay f ->
  h_dims (f_hdr f') = h_dims (f_hdr f) ->
  map vkey (h_vars (f_hdr f')) = map vkey (h_vars (f_hdr f)) ->
  h_numrecs (f_hdr f') = h_numrecs (f_hdr f) ->
  file_ok np nd d f'.
Proof.
  intros np nd d f f' Hok Hindef E1 E2 E3 E4 E5 E6 E7 E8 E9 Ed Ev En.
  pose proof Hok as (_ & Hg & _).
  apply (file_ok_indef_hdr np nd d f f' Hok Hindef); try assumption.
  - exact (hdr_good_key _ _ Hg Ed Ev En).
  - exact (hdr_extends_key _ _ Ed Ev).
Qed.

(* ====================================================================== *)
(** * D. exec_all on the operations of this file                           *)
(* ====================================================================== *)

Ltac exec_all_file Hw :=
  unfold exec_all; cbv beta iota zeta delta [slot_of];
  apply with_file_inv; [exact Hw|]; intros id f Hl Ht.

Lemma file_inv_of_lookup : forall w slot id f, world_inv w -> lookup_file w slot = Some (id, f) ->
  f_tainted f = false -> file_inv w f.
Proof.
  intros w slot id f (_ & _ & _ & _ & Hfiles) Hl Ht.
  destruct (lookup_file_some w slot id f Hl) as [Hz _]. exact (Hfiles id f Hz Ht).
Qed.

Lemma exec_def_dim_inv : forall w s nm len, world_inv w ->
  world_inv (fst (exec_all w (ODefDim s nm len))).
Proof.
  intros w s nm len Hw. exec_all_file Hw.
  destruct (lookup_file_some w s id f Hl) as [Hz Hid].
  destruct (do_def_dim f nm len) as [[[f' rc] ex]|] eqn:E; cbn [fst]; [|apply taint_slot_inv; exact Hw].
  apply (inv_put_file w id f f' Hw Hz Ht).
  - intros. exact (proj2 (def_dim_file_ok _ _ _ f nm len f' rc ex (file_inv_of_lookup w s id f Hw Hl Ht) E)).
  - intros Hf _. exact (proj1 (def_dim_file_ok _ _ _ f nm len f' rc ex Hf E)).
Qed.

Lemma exec_def_var_inv : forall w s nm t dimids, world_inv w ->
  world_inv (fst (exec_all w (ODefVar s nm t dimids))).
Proof.
  intros w s nm t dimids Hw. exec_all_file Hw.
  destruct (lookup_file_some w s id f Hl) as [Hz Hid].
  destruct (do_def_var f nm t dimids) as [[[f' rc] ex]|] eqn:E; cbn [fst]; [|apply taint_slot_inv; exact Hw].
  apply (inv_put_file w id f f' Hw Hz Ht).
  - intros. exact (proj2 (def_var_file_ok _ _ _ f nm t dimids f' rc ex (file_inv_of_lookup w s id f Hw Hl Ht) E)).
  - intros Hf _. exact (proj1 (def_var_file_ok _ _ _ f nm t dimids f' rc ex Hf E)).
Qed.

Lemma exec_put_att_inv : forall w s varid nm t vals, world_inv w ->
  world_inv (fst (exec_all w (OPutAtt s varid nm t vals))).
Proof.
  intros w s varid nm t vals Hw. exec_all_file Hw.
  destruct (lookup_file_some w s id f Hl) as [Hz Hid].
  destruct (negb (simple_name nm) || bytes_eqb nm fillvalue_name); [apply taint_slot_inv; exact Hw|].
  destruct (f_rdonly f); [exact Hw|].
  destruct (atts_of (f_hdr f) varid) as [l|]; [|exact Hw].
  destruct (att_bytes t vals) as [bs|]; [|apply taint_slot_inv; exact Hw].
  destruct (negb (name_err nm =? NC_NOERR)); [exact Hw|].
  destruct (negb ((1 <=? t) && (t <=? 11))); [exact Hw|].
  destruct ((h_format (f_hdr f) <? 5) && (t >? 6)); [exact Hw|].
  destruct (f_indef f) eqn:Hindef; [|apply taint_slot_inv; exact Hw].
  cbn [fst]. apply (inv_put_file w id f _ Hw Hz Ht); [reflexivity|].
  intros Hf _.
  destruct (upd_var_atts_key (f_hdr f) varid (fun l0 => set_att_list l0 (mkatt nm t (Zlen vals) bs)))
    as (K1 & K2 & K3).
  apply (file_ok_indef_key _ _ _ f _ Hf Hindef); try reflexivity; try exact Hindef; assumption.
Qed.

Lemma exec_set_fill_inv : forall w s mode, world_inv w ->
  world_inv (fst (exec_all w (OSetFill s mode))).
Proof.
  intros w s mode Hw. exec_all_file Hw.
  destruct (lookup_file_some w s id f Hl) as [Hz Hid].
  destruct (f_rdonly f) eqn:Hro; [exact Hw|].
  destruct (f_indef f) eqn:Hindef; cbn [negb]; [|exact Hw].
  cbn [fst]. apply (inv_put_file w id f _ Hw Hz Ht); [reflexivity|].
  intros Hf _.
  apply (file_ok_indef_key _ _ _ f _ Hf Hindef); try reflexivity; try exact Hindef; try assumption;
    try (symmetry; assumption).
  cbn [f_hdr h_vars]. rewrite map_map. reflexivity.
Qed.

Lemma exec_def_var_fill_inv : forall w s varid nofill hasval val, world_inv w ->
  world_inv (fst (exec_all w (ODefVarFill s varid nofill hasval val))).
Proof.
  intros w s varid nofill hasval val Hw. exec_all_file Hw.
  destruct (lookup_file_some w s id f Hl) as [Hz Hid].
  destruct (f_rdonly f) eqn:Hro; [exact Hw|].
  destruct (f_indef f) eqn:Hindef; cbn [negb]; [|exact Hw].
  destruct (varid =? -1); [exact Hw|].
  destruct ((varid <? 0) || (varid >=? Zlen (h_vars (f_hdr f)))); [exact Hw|].
  match goal with |- context [if ?c then (taint_slot _ _, _) else _] => destruct c end;
    [apply taint_slot_inv; exact Hw|].
  cbn [fst]. apply (inv_put_file w id f _ Hw Hz Ht); [reflexivity|].
  intros Hf _.
  apply (file_ok_indef_key _ _ _ f _ Hf Hindef); try reflexivity; try exact Hindef; try assumption.
  cbn [upd_hdr f_hdr h_vars]. apply (map_vkey_zupd _ _ _ (mkvar [] [] [] 0 0 true)). reflexivity.
Qed.

(* operations that fall in the default branch of exec_all: the file is tainted *)
Lemma exec_taint_out_inv : forall w slot, world_inv w ->
  world_inv (fst (match lookup_file w slot with
                  | Some (id, f) => if f_tainted f then (w, unmodelled w (all_ranks w))
                                    else (taint_slot w slot, unmodelled w (all_ranks w))
                  | None => (w, same_all w NC_EBADID [TSkip])
                  end)).
Proof.
  intros w slot Hw.
  apply (with_file_inv w slot (fun _ _ => (taint_slot w slot, unmodelled w (all_ranks w)))); [exact Hw|].
  intros id f _ _. apply taint_slot_inv. exact Hw.
Qed.
