(* HeaderSpec.v — a decoder written from the BNF of the classic CDF-1/2/5 format
   specification only (it never looks at the encoder of Header.v), and the format-level
   validity predicates.  Executable; the theorems relating it to the encoder are in
   Proofs_Header.v / Properties_C03.v. *)
From Pnc Require Export Header.
Local Open Scope Z_scope.

Definition parser (A : Type) := list byte -> option (A * list byte).

Definition p_u32 : parser Z := get_u32.
Definition p_u64 : parser Z := get_u64.
Definition p_nn (fmt : Z) : parser Z := if fmt <? 5 then p_u32 else p_u64.

Definition p_bytes (n : Z) : parser (list byte) := fun l =>
  if (n <? 0) || (Zlen l <? n) then None else Some (zfirstn n l, zskipn n l).

(* padding must be present; its content is checked by strict_valid, not by the decoder *)
Definition p_padded (n : Z) : parser (list byte * list byte) := fun l =>
  match p_bytes n l with
  | Some (b, r) => match p_bytes (padlen n) r with
                   | Some (pad, r') => Some ((b, pad), r')
                   | None => None
                   end
  | None => None
  end.

Definition p_name (fmt : Z) : parser (list byte * list byte) := fun l =>
  match p_nn fmt l with
  | Some (n, r) => p_padded n r
  | None => None
  end.

Fixpoint p_many {A} (p : parser A) (n : nat) : parser (list A) := fun l =>
  match n with
  | O => Some ([], l)
  | S k => match p l with
           | Some (x, r) => match p_many p k r with
                            | Some (xs, r') => Some (x :: xs, r')
                            | None => None
                            end
           | None => None
           end
  end.

(* tagged list: ABSENT (ZERO nelems=0) or TAG nelems [elem ...] *)
Definition p_list {A} (fmt tag : Z) (p : parser A) : parser (list A) := fun l =>
  match p_u32 l with
  | Some (t, r) =>
      match p_nn fmt r with
      | Some (n, r') =>
          if t =? 0 then (if n =? 0 then Some ([], r') else None)
          else if t =? tag then
            (if Zlen r' <? n then None else p_many p (Z.to_nat n) r')
          else None
      | None => None
      end
  | None => None
  end.

(* all padding bytes seen, collected so that strict validity can demand zeros *)
Record dec_dim := mkddim { dd_dim : dim; dd_pad : list byte }.
Record dec_att := mkdatt { da_att : att; da_pad : list byte }.
Record dec_var := mkdvar { dv_var : var; dv_vsize : Z; dv_pad : list byte; dv_atts : list dec_att }.

Definition p_dim (fmt : Z) : parser dec_dim := fun l =>
  match p_name fmt l with
  | Some ((nm, pad), r) =>
      match p_nn fmt r with
      | Some (sz, r') => Some (mkddim (mkdim nm sz) pad, r')
      | None => None
      end
  | None => None
  end.

Definition p_att (fmt : Z) : parser dec_att := fun l =>
  match p_name fmt l with
  | Some ((nm, pad), r) =>
      match p_u32 r with
      | Some (t, r1) =>
          if negb (valid_type fmt t) then None else
          match p_nn fmt r1 with
          | Some (n, r2) =>
              if (n <? 0) || (Zlen r2 <? n) then None else
              match p_padded (n * xlen_type t) r2 with
              | Some ((data, pad2), r3) => Some (mkdatt (mkatt nm t n data) (pad ++ pad2), r3)
              | None => None
              end
          | None => None
          end
      | None => None
      end
  | None => None
  end.

Definition p_var (fmt : Z) : parser dec_var := fun l =>
  match p_name fmt l with
  | Some ((nm, pad), r) =>
      match p_nn fmt r with
      | Some (nd, r1) =>
          if Zlen r1 <? nd then None else
          match p_many (p_nn fmt) (Z.to_nat nd) r1 with
          | Some (dimids, r2) =>
              match p_list fmt 12 (p_att fmt) r2 with
              | Some (atts, r3) =>
                  match p_u32 r3 with
                  | Some (t, r4) =>
                      if negb (valid_type fmt t) then None else
                      match p_nn fmt r4 with
                      | Some (vsize, r5) =>
                          match (if fmt =? 1 then p_u32 r5 else p_u64 r5) with
                          | Some (bg, r6) =>
                              Some (mkdvar (mkvar nm dimids (map da_att atts) t bg true) vsize pad atts, r6)
                          | None => None
                          end
                      | None => None
                      end
                  | None => None
                  end
              | None => None
              end
          | None => None
          end
      | None => None
      end
  | None => None
  end.

Record decoded := mkdec { dc_hdr : hdr; dc_dims : list dec_dim; dc_gatts : list dec_att;
                          dc_vars : list dec_var; dc_len : Z }.  (* bytes consumed *)

Definition decode (l : list byte) : option decoded :=
  match l with
  | 67 :: 68 :: 70 :: ver :: r =>
      if negb ((ver =? 1) || (ver =? 2) || (ver =? 5)) then None else
      let fmt := ver in
      match p_nn fmt r with
      | Some (numrecs, r1) =>
          match p_list fmt 10 (p_dim fmt) r1 with
          | Some (dims, r2) =>
              match p_list fmt 12 (p_att fmt) r2 with
              | Some (gatts, r3) =>
                  match p_list fmt 11 (p_var fmt) r3 with
                  | Some (vars, r4) =>
                      Some (mkdec (mkhdr fmt numrecs (map dd_dim dims) (map da_att gatts) (map dv_var vars))
                                  dims gatts vars (Zlen l - Zlen r4))
                  | None => None
                  end
              | None => None
              end
          | None => None
          end
      | None => None
      end
  | _ => None
  end.

(* ---------- strict validity of the decoded header ---------- *)
Definition all_zero (l : list byte) : bool := forallb (fun b => b =? 0) l.

Definition expected_vsize (fmt : Z) (len : Z) : Z :=
  if fmt <? 5 then (if len >? 4294967292 then 4294967295 else len) else len.

Definition strict_valid (d : decoded) : bool :=
  let h := dc_hdr d in
  let dims := h_dims h in
  forallb (fun x => all_zero (dd_pad x)) (dc_dims d) &&
  forallb (fun x => all_zero (da_pad x)) (dc_gatts d) &&
  forallb (fun x => all_zero (dv_pad x) && forallb (fun y => all_zero (da_pad y)) (dv_atts x)
                    && forallb (fun i => (0 <=? i) && (i <? Zlen dims)) (v_dimids (dv_var x))
                    && (dv_vsize x =? expected_vsize (h_format h) (var_len dims (dv_var x))))
          (dc_vars d) &&
  (Zlen (filter (fun dd => d_size dd =? 0) dims) <=? 1).

(* layout well-formedness: definition order, 4-byte aligned, non overlapping, record section
   after the fixed section *)
Fixpoint begins_increasing (prev_end : Z) (l : list (Z * Z)) : bool :=
  match l with
  | [] => true
  | (b, len) :: r => (prev_end <=? b) && (b mod 4 =? 0) && begins_increasing (b + len) r
  end.

Definition layout_ok (h : hdr) (hdr_size : Z) : bool :=
  let dims := h_dims h in
  let fixed := filter (fun v => negb (is_recvar dims v)) (h_vars h) in
  let recs := filter (is_recvar dims) (h_vars h) in
  let fl := map (fun v => (v_begin v, var_len dims v)) fixed in
  let end_fixed := fold_left (fun e p => Z.max e (fst p + snd p)) fl hdr_size in
  let rl := map (fun v => (v_begin v, var_len dims v)) recs in
  begins_increasing hdr_size fl && begins_increasing end_fixed rl.

(* layout derived from a decoded header the way the library derives it at open
   (compute_var_shape): begin_var, begin_rec, recsize *)
Definition layout_of_hdr (h : hdr) (xsz : Z) : layout :=
  let dims := h_dims h in
  let vs := h_vars h in
  let fixed := filter (fun v => negb (is_recvar dims v)) vs in
  let recs := filter (is_recvar dims) vs in
  let begin_rec0 := match last_opt fixed with
                    | Some v => v_begin v + var_len dims v
                    | None => xsz end in
  let recsize0 := zsum (map (var_len dims) recs) in
  let '(begin_rec, recsize) :=
      match recs with
      | fr :: _ => (v_begin fr,
                    if recsize0 =? var_len dims fr
                    then var_nelems_per_rec (var_shape dims fr) * xlen_type (v_type fr)
                    else recsize0)
      | [] => (begin_rec0, 0)
      end in
  let begin_var := match fixed with fv :: _ => v_begin fv | [] => begin_rec end in
  match vs with
  | [] => mklayout xsz 0 0 0 []
  | _ => mklayout xsz begin_var begin_rec recsize (map v_begin vs)
  end.
