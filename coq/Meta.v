(* Meta.v — metadata / namespace model (property C07).
   CONCRETE model: the per-file object arrays with their nameT hash buckets, mirroring
     src/drivers/ncmpio/ncmpio_hash_func.c   (Bernstein hash, hash_insert/delete/replace,
                                              update_name_lookup_table, table_copy, populate)
     src/drivers/ncmpio/ncmpio_dim.c, ncmpio_var.c, ncmpio_attr.m4 (def/rename/put/copy/del + find)
     src/drivers/ncmpio/ncmpio_util.c         (hash size hints)
     src/dispatchers/{dimension,variable,attribute}.c, attr_getput.m4 (argument checks)
     src/drivers/common/check_name.c, utf8proc.c (utf8proc_iterate; NFC is a parameter)
   SPEC model: the same operations on ordered association lists with linear lookup
     (what the C code is when compiled with SEARCH_NAME_LINEARLY).
   A result [None] of a concrete operation means: the C code performs an out-of-bounds /
   NULL access or fails an assert (undefined behaviour or abort).
   Executable; no proofs here (Proofs_Meta.v). *)
From Pnc Require Export Header Data HeaderSpec.
Local Open Scope Z_scope.

(* ---------- nat-indexed list helpers ---------- *)
Fixpoint set_nth {A} (n : nat) (l : list A) (x : A) : list A :=
  match l, n with
  | [], _ => []
  | _ :: r, O => x :: r
  | y :: r, S k => y :: set_nth k r x
  end.

Fixpoint del_nth {A} (n : nat) (l : list A) : list A :=
  match l, n with
  | [], _ => []
  | _ :: r, O => r
  | y :: r, S k => y :: del_nth k r
  end.

(* linear search: index of the first entry equal to nm *)
Fixpoint find_name (nm : list byte) (l : list (list byte)) : option nat :=
  match l with
  | [] => None
  | x :: r => if bytes_eqb x nm then Some O else option_map S (find_name nm r)
  end.

(* ---------- the hash function in use: HASH_FUNC = ncmpio_Bernstein_hash ---------- *)
Definition u32 (x : Z) : Z := x mod 4294967296.
Definition s32 (x : Z) : Z := let y := u32 x in if y <? 2147483648 then y else y - 4294967296.
(* C [char] is signed on the target: (unsigned int)str_name[i] sign-extends *)
Definition schar (b : Z) : Z := if b <? 128 then b else b - 256.

Fixpoint bern_loop (l : list byte) (h : Z) : Z :=
  match l with
  | [] => h
  | c :: r => bern_loop r (u32 (h + h * 64 + schar c))
  end.

(* (int)((hash ^ (hash>>10) ^ (hash>>20)) & (hsize-1)); hsize-1 is converted to unsigned *)
Definition bernstein (nm : list byte) (hsize : Z) : Z :=
  let h := bern_loop nm (u32 (Zlen nm)) in
  s32 (Z.land (Z.lxor (Z.lxor h (h / 1024)) (h / 1048576)) (u32 (hsize - 1))).

(* ncmpio_util.c: atoi(value); errno != 0 || size <= 0 -> default *)
Definition hint_size (given : option Z) (dflt : Z) : Z :=
  match given with
  | Some v => if v <=? 0 then dflt else v
  | None => dflt
  end.
(* before repair c39b68a0 only negative sizes fell back to the default: size 0 was accepted *)
Definition hint_size_old (given : option Z) (dflt : Z) : Z :=
  match given with
  | Some v => if v <? 0 then dflt else v
  | None => dflt
  end.

(* ---------- name legality: ncmpii_check_name = check_name_CDF2 ---------- *)
Definition is_cont (b : Z) : bool := (128 <=? b) && (b <=? 191).

(* utf8proc_iterate on a NUL terminated string: bytes consumed, -1 = invalid *)
Definition utf8_iter (l : list byte) : Z :=
  match l with
  | [] => 0
  | c0 :: r =>
    if c0 <? 128 then 1
    else if (c0 <? 194) || (c0 >? 244) then -1
    else if c0 <? 224 then
      match r with c1 :: _ => if is_cont c1 then 2 else -1 | _ => -1 end
    else if c0 <? 240 then
      match r with
      | c1 :: c2 :: _ =>
          if negb (is_cont c1 && is_cont c2) then -1
          else if (c0 =? 237) && (c1 >? 159) then -1
          else if (c0 - 224) * 4096 + (c1 - 128) * 64 + (c2 - 128) <? 2048 then -1
          else 3
      | _ => -1
      end
    else
      match r with
      | c1 :: c2 :: c3 :: _ =>
          if negb (is_cont c1 && is_cont c2 && is_cont c3) then -1
          else if (c0 =? 240) && (c1 <? 144) then -1
          else if (c0 =? 244) && (c1 >? 143) then -1
          else 4
      | _ => -1
      end
  end.

Fixpoint utf8_valid_f (fuel : nat) (l : list byte) : bool :=
  match l with
  | [] => true
  | _ => match fuel with
         | O => false
         | S f => let k := utf8_iter l in
                  if k <=? 0 then false else utf8_valid_f f (zskipn k l)
         end
  end.
Definition utf8_valid (l : list byte) : bool := utf8_valid_f (length l) l.

(* nextUTF8 with UTF8_CHECK == 2 (the code tests cp[1] in every RANGE0) *)
Definition next_utf8 (l : list byte) : Z :=
  match l with
  | [] => -1
  | c0 :: r =>
    if c0 <=? 127 then 1
    else
      let c1ok := match r with c1 :: _ => is_cont c1 | [] => false end in
      if (192 <=? c0) && (c0 <=? 223) then (if c1ok then 2 else -1)
      else if (224 <=? c0) && (c0 <=? 239) then
        (if c1ok && (2 <=? Zlen r) then 3 else -1)
      else if (240 <=? c0) && (c0 <=? 247) then
        (if c1ok && (3 <=? Zlen r) then 4 else -1)
      else -1
  end.

Definition is_alnum_ (c : Z) : bool :=
  ((65 <=? c) && (c <=? 90)) || ((97 <=? c) && (c <=? 122)) || ((48 <=? c) && (c <=? 57)) || (c =? 95).
Definition c_isspace (c : Z) : bool := (c =? 32) || ((9 <=? c) && (c <=? 13)).

(* the while loop of check_name_CDF2; pos = cp - name; returns (rc, last ch) *)
Fixpoint cn_loop (fuel : nat) (l : list byte) (pos ch : Z) : Z * Z :=
  match l with
  | [] => (NC_NOERR, ch)
  | c :: _ =>
    match fuel with
    | O => (NC_NOERR, ch)
    | S f =>
      if c <=? 127 then
        if (c <? 32) || (c >? 126) then (NC_EBADNAME, c)
        else if pos + 1 >? NC_MAX_NAME then (NC_EMAXNAME, c)
        else cn_loop f (zskipn 1 l) (pos + 1) c
      else
        let k := next_utf8 l in
        if k <? 0 then (NC_EBADNAME, c)
        else if pos + k >? NC_MAX_NAME then (NC_EMAXNAME, c)
        else cn_loop f (zskipn k l) (pos + k) c
    end
  end.

Definition check_name (nm : list byte) : Z :=
  match nm with
  | [] => NC_EBADNAME
  | c0 :: _ =>
    if existsb (Z.eqb 47) nm then NC_EBADNAME
    else if negb (utf8_valid nm) then NC_EBADNAME
    else
      let first := if c0 <=? 127 then (if is_alnum_ c0 then 1 else -1) else next_utf8 nm in
      if first <? 0 then NC_EBADNAME
      else
        let '(rc, ch) := cn_loop (length nm) (zskipn first nm) first c0 in
        if negb (rc =? NC_NOERR) then rc
        else if (ch <=? 127) && c_isspace ch then NC_EBADNAME
        else NC_NOERR
  end.

(* name == NULL || *name == 0 -> EBADNAME ; strlen(name) > NC_MAX_NAME -> EMAXNAME *)
Definition name_pre (nm : list byte) : Z :=
  match nm with
  | [] => NC_EBADNAME
  | _ => if Zlen nm >? NC_MAX_NAME then NC_EMAXNAME else NC_NOERR
  end.

(* ncmpii_utf8_normalize fails with NC_EBADNAME on a string that is not valid UTF-8 (names that went
   through ncmpii_check_name are valid; the lookup-only paths are not checked before) *)
Definition norm_err (nm : list byte) : Z := if utf8_valid nm then NC_NOERR else NC_EBADNAME.

(* ---------- NFC: a fixed table instance used when the model is run (utf8proc is modelled,
   not verified; the theorems take [nfc] as a parameter) ---------- *)
Definition nfc_pairs : list (list byte * list byte) :=
  [ ([101; 204; 129], [195; 169]);              (* e + U+0301 -> U+00E9 *)
    ([65; 204; 138], [195; 133]);               (* A + U+030A -> U+00C5 *)
    ([226; 132; 171], [195; 133]);              (* U+212B ANGSTROM SIGN -> U+00C5 *)
    ([111; 204; 136], [195; 182]);              (* o + U+0308 -> U+00F6 *)
    ([110; 204; 131], [195; 177]);              (* n + U+0303 -> U+00F1 *)
    ([225; 132; 128; 225; 133; 161], [234; 176; 128]);  (* U+1100 U+1161 -> U+AC00 *)
    ([226; 132; 166], [206; 169]) ].            (* U+2126 OHM SIGN -> U+03A9 *)

Fixpoint is_prefix (p l : list byte) : bool :=
  match p, l with
  | [], _ => true
  | x :: p', y :: l' => (x =? y) && is_prefix p' l'
  | _, [] => false
  end.

Fixpoint nfc_tab_f (fuel : nat) (l : list byte) : list byte :=
  match fuel with
  | O => l
  | S f =>
    match l with
    | [] => []
    | c :: r =>
      match find (fun p => is_prefix (fst p) l) nfc_pairs with
      | Some (k, v) => v ++ nfc_tab_f f (skipn (length k) l)
      | None => c :: nfc_tab_f f r
      end
    end
  end.
Definition nfc_tab (l : list byte) : list byte := nfc_tab_f (length l) l.

(* ---------- attribute sizes and values ---------- *)
(* x_len_NC_attrV *)
Definition x_len_attrV (t n : Z) : Z :=
  if (t =? 1) || (t =? 2) || (t =? 7) then rndup n 4
  else if (t =? 3) || (t =? 8) then (n + n mod 2) * 2
  else if (t =? 4) || (t =? 5) || (t =? 9) then n * 4
  else if (t =? 6) || (t =? 10) || (t =? 11) then n * 8
  else 0.
Definition att_xsz (a : att) : Z := x_len_attrV (a_type a) (a_nelems a).

(* values handed to ncmpi_put_att_text (t = 2), _double (5, 6), _ulonglong (11), _longlong
   (others) as integers; external bytes and the code of the conversion (ERANGE_FILL build).
   Float types: modelled for |v| < 2^24 (exact in float and double). *)
Definition att_put_value (t : Z) (vals : list Z) : list byte * Z :=
  if t =? 2 then (map (fun v => v mod 256) vals, NC_NOERR)
  else if is_float_type t then (flat_map (enc_value t) vals, NC_NOERR)
  else if t =? 11 then (flat_map (fun v => enc_value 11 (v mod 18446744073709551616)) vals, NC_NOERR)
  else
    let ok v := (type_min t <=? v) && (v <=? type_max t) in
    (flat_map (fun v => if ok v then enc_value t v else fill_bytes t) vals,
     if forallb ok vals then NC_NOERR else NC_ERANGE).

(* memory image (little endian host) of external attribute bytes *)
Definition att_mem (a : att) : list byte :=
  flat_map mem_of_be (chunk_list (xlen_type (a_type a)) (a_data a)).

Definition FILLVALUE : list byte := [95; 70; 105; 108; 108; 86; 97; 108; 117; 101].

(* =====================================================================================
   Concrete name tables
   ===================================================================================== *)
Section WithHash.
Variable hashf : list byte -> Z -> Z.      (* HASH_FUNC(name, hsize) *)
Variable nfc : list byte -> list byte.     (* ncmpii_utf8_normalize on a checked name *)

(* nameT == NULL is [None]; otherwise hash_size buckets, each the list of ids *)
Record ntab := mkntab { nt_hsize : Z; nt_tab : option (list (list nat)) }.

(* nameT[key]: key outside the allocated array is an out-of-bounds access *)
Definition bucket (bs : list (list nat)) (nm : list byte) (hs : Z) : option (nat * list nat) :=
  let k := hashf nm hs in
  if k <? 0 then None
  else match nth_error bs (Z.to_nat k) with
       | Some ids => Some (Z.to_nat k, ids)
       | None => None
       end.

(* if (nameT == NULL) nameT = NCI_Calloc(hash_size, sizeof(NC_nametable)) *)
Definition tab_calloc (t : ntab) : ntab :=
  match nt_tab t with
  | Some _ => t
  | None => mkntab (nt_hsize t) (Some (repeat [] (Z.to_nat (nt_hsize t))))
  end.

(* ncmpio_hash_insert *)
Definition hash_insert (t : ntab) (nm : list byte) (id : nat) : option ntab :=
  match nt_tab t with
  | None => None
  | Some bs =>
    match bucket bs nm (nt_hsize t) with
    | None => None
    | Some (k, ids) => Some (mkntab (nt_hsize t) (Some (set_nth k bs (ids ++ [id]))))
    end
  end.

(* find the entry that matches id, coalesce the list; None = not found *)
Fixpoint remove_id (id : nat) (ids : list nat) : option (list nat) :=
  match ids with
  | [] => None
  | x :: r => if Nat.eqb x id then Some r else option_map (cons x) (remove_id id r)
  end.

(* ncmpio_update_name_lookup_table (dims, vars): assert(found) *)
Definition hash_update (t : ntab) (id : nat) (oldnm newnm : list byte) : option ntab :=
  match nt_tab t with
  | None => None
  | Some bs =>
    match bucket bs oldnm (nt_hsize t) with
    | None => None
    | Some (k, ids) =>
      match remove_id id ids with
      | None => None                                   (* assert(i != num) fails *)
      | Some ids' =>
        let bs1 := set_nth k bs ids' in
        match bucket bs1 newnm (nt_hsize t) with
        | None => None
        | Some (k2, ids2) => Some (mkntab (nt_hsize t) (Some (set_nth k2 bs1 (ids2 ++ [id]))))
        end
      end
    end
  end.

(* ncmpio_hash_replace (attributes): not found returns NC_ENOTATT, which the only caller
   (ncmpio_rename_att) ignores: the table is then left unchanged *)
Definition hash_replace (t : ntab) (id : nat) (oldnm newnm : list byte) : option ntab :=
  match nt_tab t with
  | None => None
  | Some bs =>
    match bucket bs oldnm (nt_hsize t) with
    | None => None
    | Some (k, ids) =>
      match remove_id id ids with
      | None => Some t
      | Some ids' =>
        let bs1 := set_nth k bs ids' in
        match bucket bs1 newnm (nt_hsize t) with
        | None => None
        | Some (k2, ids2) => Some (mkntab (nt_hsize t) (Some (set_nth k2 bs1 (ids2 ++ [id]))))
        end
      end
    end
  end.

Definition renumber (id : nat) (bs : list (list nat)) : list (list nat) :=
  map (map (fun j => if Nat.ltb id j then pred j else j)) bs.

(* ncmpio_hash_delete: Some None = NC_ENOTATT *)
Definition hash_delete (t : ntab) (nm : list byte) (id : nat) : option (option ntab) :=
  match nt_tab t with
  | None => None
  | Some bs =>
    match bucket bs nm (nt_hsize t) with
    | None => None
    | Some (k, ids) =>
      match remove_id id ids with
      | None => Some None
      | Some ids' => Some (Some (mkntab (nt_hsize t) (Some (renumber id (set_nth k bs ids')))))
      end
    end
  end.

(* NC_finddim / NC_findvar / ncmpio_NC_findattr: Some None = not found *)
Fixpoint scan_ids (names : list (list byte)) (nm : list byte) (ids : list nat)
  : option (option nat) :=
  match ids with
  | [] => Some None
  | i :: r =>
    match nth_error names i with
    | None => None                                     (* value[id] beyond ndefined *)
    | Some x => if bytes_eqb x nm then Some (Some i) else scan_ids names nm r
    end
  end.

Definition hfind (names : list (list byte)) (t : ntab) (nm : list byte) : option (option nat) :=
  match names with
  | [] => Some None                                    (* ndefined == 0 *)
  | _ =>
    match nt_tab t with
    | None => None
    | Some bs =>
      match bucket bs nm (nt_hsize t) with
      | None => None
      | Some (_, ids) => scan_ids names nm ids
      end
    end
  end.

(* ncmpio_hash_table_populate_NC_{dim,var,attr} *)
Fixpoint populate_from (t : ntab) (names : list (list byte)) (i : nat) : option ntab :=
  match names with
  | [] => Some t
  | nm :: r => match hash_insert t nm i with
               | None => None
               | Some t' => populate_from t' r (S i)
               end
  end.

Definition hash_populate (hs : Z) (names : list (list byte)) : option ntab :=
  match names with
  | [] => Some (mkntab hs None)
  | _ => populate_from (tab_calloc (mkntab hs None)) names O
  end.

(* ncmpio_dup_NC_*array: ndefined == 0 -> nameT stays NULL; else calloc(hs) and
   ncmpio_hash_table_copy, which reads hs entries of the source table *)
Definition hash_dup (hs : Z) (ndefined : nat) (src : ntab) : option ntab :=
  match ndefined with
  | O => Some (mkntab hs None)
  | _ =>
    match nt_tab src with
    | None => None
    | Some bs => if (Z.to_nat hs <=? length bs)%nat
                 then Some (mkntab hs (Some (firstn (Z.to_nat hs) bs))) else None
    end
  end.

(* =====================================================================================
   Checks shared by the concrete and the linear model (dispatcher argument checks; they
   look only at counts, modes and the arguments)
   ===================================================================================== *)
Definition first_nonzero (l : list Z) : Z :=
  match find (fun x => negb (x =? NC_NOERR)) l with Some e => e | None => NC_NOERR end.

Definition unlim_of (dims : list dim) : Z :=
  match find_index (fun d => d_size d =? 0) dims 0 with Some i => i | None => -1 end.

Definition varid_ok (nvars varid : Z) : bool :=
  (varid =? -1) || ((0 <=? varid) && (varid <? nvars)).

(* ncmpi_def_dim up to the name-in-use test *)
Definition def_dim_pre (fmt : Z) (indef : bool) (dims : list dim) (nm : list byte) (size : Z) : Z :=
  if negb indef then NC_ENOTINDEFINE
  else if negb (name_pre nm =? NC_NOERR) then name_pre nm
  else if negb (check_name nm =? NC_NOERR) then check_name nm
  else if (size <? 0) || (negb (fmt =? 5) && (size >? NC_MAX_INT)) then NC_EDIMSIZE
  else if (size =? 0) && negb (unlim_of dims =? -1) then NC_EUNLIMIT
  else if Zlen dims =? NC_MAX_INT then NC_EMAXDIMS
  else NC_NOERR.

(* ncmpi_def_var up to the name-in-use test *)
Definition def_var_pre (fmt : Z) (indef : bool) (nvars : Z) (nm : list byte) (t : Z) : Z :=
  if negb indef then NC_ENOTINDEFINE
  else if negb (name_pre nm =? NC_NOERR) then name_pre nm
  else if negb (check_name nm =? NC_NOERR) then check_name nm
  else if (t <=? 0) || (t >? 11) then NC_EBADTYPE
  else if (t >? 6) && (fmt <=? 2) then NC_ESTRICTCDF2
  else if nvars =? NC_MAX_INT then NC_EMAXVARS
  else NC_NOERR.

(* after the name test: dimids[] check (dispatcher), then ncmpio_NC_var_shape64 (driver) *)
Definition def_var_post (dims : list dim) (t : Z) (dimids : list Z) : Z :=
  if existsb (fun d => (d <? 0) || (d >=? Zlen dims)) dimids then NC_EBADDIM
  else if existsb (fun d => dim_size dims d =? 0) (tl dimids) then NC_EUNLIMPOS
  else if negb (check_vlen (xlen_type t) (map (dim_size dims) dimids) (NC_MAX_INT64 - 3))
       then NC_EVARSIZE
  else NC_NOERR.

(* sanity_check_put + check_EBADTYPE_ECHAR + check_EINVAL, as reached from the script driver:
   type 2 through ncmpi_put_att_text (no type check), other types through a numeric API *)
Definition put_att_pre (fmt : Z) (rdonly : bool) (nvars varid : Z) (nm : list byte) (t n : Z) : Z :=
  if rdonly then NC_EPERM
  else if negb (varid_ok nvars varid) then NC_ENOTVAR
  else if negb (name_pre nm =? NC_NOERR) then name_pre nm
  else if negb (check_name nm =? NC_NOERR) then check_name nm
  else if negb (t =? 2) && ((t <=? 0) || (t >? 11)) then NC_EBADTYPE
  else if negb (t =? 2) && (fmt <=? 2) && (t >? 6) then NC_ESTRICTCDF2
  else if (n <? 0) || ((n >? NC_MAX_INT) && (fmt <=? 2)) then NC_EINVAL
  else NC_NOERR.

(* the _FillValue rules at the top of ncmpio_put_att (raw, un-normalised name) *)
Definition fillvalue_rule (varid : Z) (nm : list byte) (t n vtype : Z) (old_nvars : option Z) : Z :=
  if negb (varid =? -1) && bytes_eqb nm FILLVALUE then
    if negb (t =? vtype) then NC_EBADTYPE
    else if negb (n =? 1) then NC_EINVAL
    else match old_nvars with
         | Some k => if varid <? k then NC_ELATEFILL else NC_NOERR
         | None => NC_NOERR
         end
  else NC_NOERR.

Definition get_att_pre (nvars varid : Z) (nm : list byte) : Z :=
  if negb (varid_ok nvars varid) then NC_ENOTVAR
  else if negb (name_pre nm =? NC_NOERR) then name_pre nm
  else norm_err nm.

(* ncmpi_inq_dimid / ncmpi_inq_varid before the lookup *)
Definition inq_id_pre (nm : list byte) : Z :=
  if negb (name_pre nm =? NC_NOERR) then name_pre nm else norm_err nm.

Definition rename_dim_pre (rdonly : bool) (ndims id : Z) (nm : list byte) : Z :=
  if rdonly then NC_EPERM
  else if negb (name_pre nm =? NC_NOERR) then name_pre nm
  else if negb (check_name nm =? NC_NOERR) then check_name nm
  else if (id <? 0) || (id >=? ndims) then NC_EBADDIM
  else NC_NOERR.

Definition rename_var_pre (rdonly : bool) (nvars id : Z) (nm : list byte) : Z :=
  if rdonly then NC_EPERM
  else if id =? -1 then NC_EGLOBAL
  else if (id <? 0) || (id >=? nvars) then NC_ENOTVAR
  else if negb (name_pre nm =? NC_NOERR) then name_pre nm
  else if negb (check_name nm =? NC_NOERR) then check_name nm
  else NC_NOERR.

Definition rename_att_pre (rdonly : bool) (nvars varid : Z) (nm nnm : list byte) : Z :=
  if rdonly then NC_EPERM
  else if negb (varid_ok nvars varid) then NC_ENOTVAR
  else if negb (name_pre nm =? NC_NOERR) then name_pre nm
  else if negb (name_pre nnm =? NC_NOERR) then name_pre nnm
  else if negb (check_name nnm =? NC_NOERR) then check_name nnm
  else norm_err nm.

Definition del_att_pre (rdonly indef : bool) (nvars varid : Z) (nm : list byte) : Z :=
  if rdonly then NC_EPERM
  else if negb indef then NC_ENOTINDEFINE
  else if negb (varid_ok nvars varid) then NC_ENOTVAR
  else if negb (name_pre nm =? NC_NOERR) then name_pre nm
  else norm_err nm.

Definition copy_att_pre (rdonly_out : bool) (nvars_in vin nvars_out vout : Z) (nm : list byte) : Z :=
  if rdonly_out then NC_EPERM
  else if negb (varid_ok nvars_in vin) then NC_ENOTVAR
  else if negb (varid_ok nvars_out vout) then NC_ENOTVAR
  else if negb (name_pre nm =? NC_NOERR) then name_pre nm
  else norm_err nm.

Definition dflt_att : att := mkatt [] 0 0 [].
Definition dflt_dim : dim := mkdim [] 0.

(* =====================================================================================
   Concrete attribute arrays (NC_attrarray: value[] + nameT)
   ===================================================================================== *)
Record cattrs := mkcattrs { ca_vals : list att; ca_tab : ntab }.
Definition ca_names (ca : cattrs) : list (list byte) := map a_name (ca_vals ca).
Definition ca_find (ca : cattrs) (nm : list byte) : option (option nat) :=
  hfind (ca_names ca) (ca_tab ca) nm.

(* the array part of ncmpio_put_att / ncmpio_copy_att: nname normalised; (t, n, data) the new
   content.  Result: new array and NC_NOERR / NC_ENOTINDEFINE / NC_EMAXATTS *)
Definition c_attr_put (indef : bool) (ca : cattrs) (nname : list byte) (t n : Z) (data : list byte)
  : option (cattrs * Z) :=
  match ca_find ca nname with
  | None => None
  | Some (Some i) =>
      let old := nth i (ca_vals ca) dflt_att in
      if negb indef && (x_len_attrV t n >? att_xsz old) then Some (ca, NC_ENOTINDEFINE)
      else Some (mkcattrs (set_nth i (ca_vals ca) (mkatt (a_name old) t n data)) (ca_tab ca), NC_NOERR)
  | Some None =>
      if negb indef then Some (ca, NC_ENOTINDEFINE)
      else if Zlen (ca_vals ca) =? NC_MAX_INT then Some (ca, NC_EMAXATTS)
      else match hash_insert (tab_calloc (ca_tab ca)) nname (length (ca_vals ca)) with
           | None => None
           | Some t' => Some (mkcattrs (ca_vals ca ++ [mkatt nname t n data]) t', NC_NOERR)
           end
  end.

(* ncmpio_rename_att on the array *)
Definition c_attr_rename (indef : bool) (ca : cattrs) (nname nnew : list byte) : option (cattrs * Z) :=
  match ca_find ca nname with
  | None => None
  | Some None => Some (ca, NC_ENOTATT)
  | Some (Some i) =>
    match ca_find ca nnew with
    | None => None
    | Some (Some _) => Some (ca, NC_ENAMEINUSE)
    | Some None =>
      let old := nth i (ca_vals ca) dflt_att in
      if negb indef && (Zlen (a_name old) <? Zlen nnew) then Some (ca, NC_ENOTINDEFINE)
      else match hash_replace (ca_tab ca) i (a_name old) nnew with
           | None => None
           | Some t' =>
             Some (mkcattrs (set_nth i (ca_vals ca)
                                     (mkatt nnew (a_type old) (a_nelems old) (a_data old))) t',
                   NC_NOERR)
           end
    end
  end.

(* ncmpio_del_att on the array *)
Definition c_attr_del (ca : cattrs) (nname : list byte) : option (cattrs * Z) :=
  match ca_find ca nname with
  | None => None
  | Some None => Some (ca, NC_ENOTATT)
  | Some (Some i) =>
    match hash_delete (ca_tab ca) nname i with
    | None => None
    | Some None => Some (ca, NC_ENOTATT)
    | Some (Some t') => Some (mkcattrs (del_nth i (ca_vals ca)) t', NC_NOERR)
    end
  end.

(* =====================================================================================
   Concrete file: NC (driver) + the counts the dispatcher mirrors
   ===================================================================================== *)
Record cvar := mkcvar { cv_name : list byte; cv_type : Z; cv_dimids : list Z; cv_begin : Z;
                        cv_atts : cattrs }.
Record cmeta := mkcmeta { cm_dims : list dim; cm_dtab : ntab;
                          cm_vars : list cvar; cm_vtab : ntab;
                          cm_gatts : cattrs }.
Record cfile := mkcfile { cf_fmt : Z; cf_numrecs : Z; cf_meta : cmeta; cf_old : option cmeta;
                          cf_indef : bool; cf_rdonly : bool; cf_hs_vattr : Z }.

Definition dflt_cvar : cvar := mkcvar [] 0 [] 0 (mkcattrs [] (mkntab 0 None)).

Definition dnames (m : cmeta) : list (list byte) := map d_name (cm_dims m).
Definition vnames (m : cmeta) : list (list byte) := map cv_name (cm_vars m).

Definition abs_var (v : cvar) : var :=
  mkvar (cv_name v) (cv_dimids v) (ca_vals (cv_atts v)) (cv_type v) (cv_begin v) true.
Definition abs_hdr (fmt numrecs : Z) (m : cmeta) : hdr :=
  mkhdr fmt numrecs (cm_dims m) (ca_vals (cm_gatts m)) (map abs_var (cm_vars m)).
Definition cf_hdr (f : cfile) : hdr := abs_hdr (cf_fmt f) (cf_numrecs f) (cf_meta f).

Definition set_meta (f : cfile) (m : cmeta) : cfile :=
  mkcfile (cf_fmt f) (cf_numrecs f) m (cf_old f) (cf_indef f) (cf_rdonly f) (cf_hs_vattr f).

(* NC_attrarray0 *)
Definition get_ca (m : cmeta) (varid : Z) : option cattrs :=
  if varid =? -1 then Some (cm_gatts m)
  else if (0 <=? varid) && (varid <? Zlen (cm_vars m))
       then option_map cv_atts (nth_error (cm_vars m) (Z.to_nat varid))
       else None.

Definition set_ca (m : cmeta) (varid : Z) (ca : cattrs) : cmeta :=
  if varid =? -1 then mkcmeta (cm_dims m) (cm_dtab m) (cm_vars m) (cm_vtab m) ca
  else
    let i := Z.to_nat varid in
    let v := nth i (cm_vars m) dflt_cvar in
    mkcmeta (cm_dims m) (cm_dtab m)
            (set_nth i (cm_vars m) (mkcvar (cv_name v) (cv_type v) (cv_dimids v) (cv_begin v) ca))
            (cm_vtab m) (cm_gatts m).

Definition var_type_of (m : cmeta) (varid : Z) : Z :=
  cv_type (nth (Z.to_nat varid) (cm_vars m) dflt_cvar).

(* result of an operation on one open file: new state, observation, header written? *)
Definition cres := option (cfile * list Z * bool).
Definition cret (f : cfile) (o : list Z) : cres := Some (f, o, false).

(* ---------- ncmpi_def_dim ---------- *)
Definition c_def_dim (f : cfile) (nm : list byte) (size : Z) : cres :=
  let m := cf_meta f in
  let e := def_dim_pre (cf_fmt f) (cf_indef f) (cm_dims m) nm size in
  if negb (e =? NC_NOERR) then cret f [e; -99]
  else
    match hfind (dnames m) (cm_dtab m) (nfc nm) with
    | None => None
    | Some (Some _) => cret f [NC_ENAMEINUSE; -99]
    | Some None =>
      match hash_insert (tab_calloc (cm_dtab m)) (nfc nm) (length (cm_dims m)) with
      | None => None
      | Some t' =>
        cret (set_meta f (mkcmeta (cm_dims m ++ [mkdim (nfc nm) size]) t'
                                  (cm_vars m) (cm_vtab m) (cm_gatts m)))
             [NC_NOERR; Zlen (cm_dims m)]
      end
    end.

(* ---------- ncmpi_def_var ---------- *)
Definition c_def_var (f : cfile) (nm : list byte) (t : Z) (dimids : list Z) : cres :=
  let m := cf_meta f in
  let e := def_var_pre (cf_fmt f) (cf_indef f) (Zlen (cm_vars m)) nm t in
  if negb (e =? NC_NOERR) then cret f [e; -99]
  else
    match hfind (vnames m) (cm_vtab m) (nfc nm) with
    | None => None
    | Some (Some _) => cret f [NC_ENAMEINUSE; -99]
    | Some None =>
      let e2 := def_var_post (cm_dims m) t dimids in
      if negb (e2 =? NC_NOERR) then cret f [e2; -99]
      else
        match hash_insert (tab_calloc (cm_vtab m)) (nfc nm) (length (cm_vars m)) with
        | None => None
        | Some t' =>
          let v := mkcvar (nfc nm) t dimids 0 (mkcattrs [] (mkntab (cf_hs_vattr f) None)) in
          cret (set_meta f (mkcmeta (cm_dims m) (cm_dtab m) (cm_vars m ++ [v]) t' (cm_gatts m)))
               [NC_NOERR; Zlen (cm_vars m)]
        end
    end.

(* ---------- ncmpi_put_att_<type> ---------- *)
Definition c_put_att (f : cfile) (varid : Z) (nm : list byte) (t : Z) (vals : list Z) : cres :=
  let m := cf_meta f in
  let n := Zlen vals in
  let e := put_att_pre (cf_fmt f) (cf_rdonly f) (Zlen (cm_vars m)) varid nm t n in
  if negb (e =? NC_NOERR) then cret f [e]
  else
    let e1 := fillvalue_rule varid nm t n (var_type_of m varid)
                             (option_map (fun o => Zlen (cm_vars o)) (cf_old f)) in
    if negb (e1 =? NC_NOERR) then cret f [e1]
    else
      match get_ca m varid with
      | None => None
      | Some ca =>
        let '(data, ce) := att_put_value t vals in
        match c_attr_put (cf_indef f) ca (nfc nm) t n data with
        | None => None
        | Some (ca', rc) =>
          if negb (rc =? NC_NOERR) then cret f [rc]
          else Some (set_meta f (set_ca m varid ca'), [ce], negb (cf_indef f))
        end
      end.

(* ---------- script op get_att: ncmpi_inq_att, then the typed get of the attribute's own type *)
Definition c_get_att (f : cfile) (varid : Z) (nm : list byte) : cres :=
  let m := cf_meta f in
  let e := get_att_pre (Zlen (cm_vars m)) varid nm in
  if negb (e =? NC_NOERR) then cret f [e; -99; -99; 0]
  else
    match get_ca m varid with
    | None => None
    | Some ca =>
      match ca_find ca (nfc nm) with
      | None => None
      | Some None => cret f [NC_ENOTATT; -99; -99; 0]
      | Some (Some i) =>
        let a := nth i (ca_vals ca) dflt_att in
        cret f ([NC_NOERR; a_type a; a_nelems a; Zlen (att_mem a)] ++ att_mem a)
      end
    end.

Definition c_inq_attid (f : cfile) (varid : Z) (nm : list byte) : cres :=
  let m := cf_meta f in
  let e := get_att_pre (Zlen (cm_vars m)) varid nm in
  if negb (e =? NC_NOERR) then cret f [e; -99]
  else
    match get_ca m varid with
    | None => None
    | Some ca =>
      match ca_find ca (nfc nm) with
      | None => None
      | Some None => cret f [NC_ENOTATT; -99]
      | Some (Some i) => cret f [NC_NOERR; Z.of_nat i]
      end
    end.

Definition c_inq_dimid (f : cfile) (nm : list byte) : cres :=
  let m := cf_meta f in
  if negb (inq_id_pre nm =? NC_NOERR) then cret f [inq_id_pre nm; -99]
  else match hfind (dnames m) (cm_dtab m) (nfc nm) with
       | None => None
       | Some None => cret f [NC_EBADDIM; -99]
       | Some (Some i) => cret f [NC_NOERR; Z.of_nat i]
       end.

Definition c_inq_varid (f : cfile) (nm : list byte) : cres :=
  let m := cf_meta f in
  if negb (inq_id_pre nm =? NC_NOERR) then cret f [inq_id_pre nm; -99]
  else match hfind (vnames m) (cm_vtab m) (nfc nm) with
       | None => None
       | Some None => cret f [NC_ENOTVAR; -99]
       | Some (Some i) => cret f [NC_NOERR; Z.of_nat i]
       end.

(* ---------- ncmpi_del_att ---------- *)
Definition c_del_att (f : cfile) (varid : Z) (nm : list byte) : cres :=
  let m := cf_meta f in
  let e := del_att_pre (cf_rdonly f) (cf_indef f) (Zlen (cm_vars m)) varid nm in
  if negb (e =? NC_NOERR) then cret f [e]
  else
    match get_ca m varid with
    | None => None
    | Some ca =>
      match c_attr_del ca (nfc nm) with
      | None => None
      | Some (ca', rc) =>
        if negb (rc =? NC_NOERR) then cret f [rc]
        else cret (set_meta f (set_ca m varid ca')) [NC_NOERR]
      end
    end.

(* ---------- ncmpi_rename_att ---------- *)
Definition c_rename_att (f : cfile) (varid : Z) (nm nnm : list byte) : cres :=
  let m := cf_meta f in
  let e := rename_att_pre (cf_rdonly f) (Zlen (cm_vars m)) varid nm nnm in
  if negb (e =? NC_NOERR) then cret f [e]
  else
    match get_ca m varid with
    | None => None
    | Some ca =>
      match c_attr_rename (cf_indef f) ca (nfc nm) (nfc nnm) with
      | None => None
      | Some (ca', rc) =>
        if negb (rc =? NC_NOERR) then cret f [rc]
        else Some (set_meta f (set_ca m varid ca'), [NC_NOERR], negb (cf_indef f))
      end
    end.

(* ---------- ncmpi_rename_dim ---------- *)
Definition c_rename_dim (f : cfile) (id : Z) (nm : list byte) : cres :=
  let m := cf_meta f in
  let e := rename_dim_pre (cf_rdonly f) (Zlen (cm_dims m)) id nm in
  if negb (e =? NC_NOERR) then cret f [e]
  else
    let i := Z.to_nat id in
    match hfind (dnames m) (cm_dtab m) (nfc nm) with
    | None => None
    | Some (Some j) => if Nat.eqb j i then cret f [NC_NOERR] else cret f [NC_ENAMEINUSE]
    | Some None =>
      let old := nth i (cm_dims m) dflt_dim in
      if negb (cf_indef f) && (Zlen (d_name old) <? Zlen (nfc nm)) then cret f [NC_ENOTINDEFINE]
      else
        match hash_update (cm_dtab m) i (d_name old) (nfc nm) with
        | None => None
        | Some t' =>
          Some (set_meta f (mkcmeta (set_nth i (cm_dims m) (mkdim (nfc nm) (d_size old))) t'
                                    (cm_vars m) (cm_vtab m) (cm_gatts m)),
                [NC_NOERR], negb (cf_indef f))
        end
    end.

(* ---------- ncmpi_rename_var ---------- *)
Definition c_rename_var (f : cfile) (id : Z) (nm : list byte) : cres :=
  let m := cf_meta f in
  let e := rename_var_pre (cf_rdonly f) (Zlen (cm_vars m)) id nm in
  if negb (e =? NC_NOERR) then cret f [e]
  else
    let i := Z.to_nat id in
    match hfind (vnames m) (cm_vtab m) (nfc nm) with
    | None => None
    | Some (Some _) => cret f [NC_ENAMEINUSE]
    | Some None =>
      let old := nth i (cm_vars m) dflt_cvar in
      if negb (cf_indef f) && (Zlen (cv_name old) <? Zlen (nfc nm)) then cret f [NC_ENOTINDEFINE]
      else
        match hash_update (cm_vtab m) i (cv_name old) (nfc nm) with
        | None => None
        | Some t' =>
          Some (set_meta f (mkcmeta (cm_dims m) (cm_dtab m)
                                    (set_nth i (cm_vars m)
                                       (mkcvar (nfc nm) (cv_type old) (cv_dimids old) (cv_begin old)
                                               (cv_atts old)))
                                    t' (cm_gatts m)),
                [NC_NOERR], negb (cf_indef f))
        end
    end.

(* ---------- ncmpi_copy_att: read side on the input file, write side on the output file ------ *)
(* inl rc / inr attribute *)
Definition c_copy_read (f : cfile) (varid : Z) (nm : list byte) : option (Z + att) :=
  match get_ca (cf_meta f) varid with
  | None => None
  | Some ca =>
    match ca_find ca (nfc nm) with
    | None => None
    | Some None => Some (inl NC_ENOTATT)
    | Some (Some i) => Some (inr (nth i (ca_vals ca) dflt_att))
    end
  end.

Definition c_copy_write (f : cfile) (varid : Z) (nm : list byte) (a : att) (self : bool) : cres :=
  let m := cf_meta f in
  match get_ca m varid with
  | None => None
  | Some ca =>
    if self then
      match ca_find ca (nfc nm) with
      | None => None
      | Some _ => cret f [NC_NOERR]
      end
    else
      match c_attr_put (cf_indef f) ca (nfc nm) (a_type a) (a_nelems a) (a_data a) with
      | None => None
      | Some (ca', rc) =>
        if negb (rc =? NC_NOERR) then cret f [rc]
        else Some (set_meta f (set_ca m varid ca'), [NC_NOERR], negb (cf_indef f))
      end
  end.

(* ---------- redef: dup_NC keeps a copy of the header, tables included ---------- *)
Definition dup_cattrs (hs : Z) (ca : cattrs) : option cattrs :=
  match hash_dup hs (length (ca_vals ca)) (ca_tab ca) with
  | None => None
  | Some t => Some (mkcattrs (ca_vals ca) t)
  end.

Fixpoint dup_vars (hs : Z) (vs : list cvar) : option (list cvar) :=
  match vs with
  | [] => Some []
  | v :: r =>
    match dup_cattrs hs (cv_atts v), dup_vars hs r with
    | Some ca, Some r' => Some (mkcvar (cv_name v) (cv_type v) (cv_dimids v) (cv_begin v) ca :: r')
    | _, _ => None
    end
  end.

Definition dup_meta (hs_vattr : Z) (m : cmeta) : option cmeta :=
  match hash_dup (nt_hsize (cm_dtab m)) (length (cm_dims m)) (cm_dtab m),
        dup_cattrs (nt_hsize (ca_tab (cm_gatts m))) (cm_gatts m),
        dup_vars hs_vattr (cm_vars m),
        hash_dup (nt_hsize (cm_vtab m)) (length (cm_vars m)) (cm_vtab m) with
  | Some dt, Some ga, Some vs, Some vt => Some (mkcmeta (cm_dims m) dt vs vt ga)
  | _, _, _, _ => None
  end.

Definition c_redef (f : cfile) : cres :=
  if cf_rdonly f then cret f [NC_EPERM]
  else if cf_indef f then cret f [NC_EINDEFINE]
  else match dup_meta (cf_hs_vattr f) (cf_meta f) with
       | None => None
       | Some o => cret (mkcfile (cf_fmt f) (cf_numrecs f) (cf_meta f) (Some o) true
                                 (cf_rdonly f) (cf_hs_vattr f)) [NC_NOERR]
       end.

(* ---------- enddef: the layout (variable begins) is an input: property C03/C06 ---------- *)
Fixpoint apply_begins (vs : list cvar) (bl : list Z) : list cvar :=
  match vs with
  | [] => []
  | v :: r =>
    match bl with
    | b :: bl' => mkcvar (cv_name v) (cv_type v) (cv_dimids v) b (cv_atts v) :: apply_begins r bl'
    | [] => v :: apply_begins r []
    end
  end.

Definition c_enddef (f : cfile) (bl : list Z) : cres :=
  if negb (cf_indef f) then cret f [NC_ENOTINDEFINE]
  else
    let e := check_vlens (cf_hdr f) in
    if negb (e =? NC_NOERR) then cret f [e]
    else
      let m := cf_meta f in
      Some (mkcfile (cf_fmt f) (cf_numrecs f)
                    (mkcmeta (cm_dims m) (cm_dtab m) (apply_begins (cm_vars m) bl) (cm_vtab m)
                             (cm_gatts m))
                    None false (cf_rdonly f) (cf_hs_vattr f),
            [NC_NOERR], true).

(* ---------- the inquiry dump (script op inq): by id, in definition order ---------- *)
Definition name_flat (nm : list byte) : list Z := Zlen nm :: nm.
Definition att_flat (a : att) : list Z :=
  65 :: name_flat (a_name a) ++ [a_type a; a_nelems a] ++ name_flat (att_mem a).
Definition inq_flat (h : hdr) (indef : bool) : list Z :=
  [NC_NOERR; (if indef then 1 else 0); Zlen (h_dims h); Zlen (h_vars h); Zlen (h_gatts h);
   unlim_of (h_dims h)] ++
  flat_map (fun d => 68 :: name_flat (d_name d) ++ [if d_size d =? 0 then h_numrecs h else d_size d])
           (h_dims h) ++
  flat_map att_flat (h_gatts h) ++
  flat_map (fun v => 86 :: name_flat (v_name v) ++ [v_type v; Zlen (v_dimids v)] ++ v_dimids v ++
                     [Zlen (v_atts v); v_begin v] ++ flat_map att_flat (v_atts v)) (h_vars h) ++
  [72; hdr_len h; (if unlim_of (h_dims h) =? -1 then -1 else h_numrecs h); h_format h].

Definition c_inq (f : cfile) : cres := cret f (inq_flat (cf_hdr f) (cf_indef f)).

(* ---------- open: the header decoded from the file; tables populated ---------- *)
Definition open_cattrs (hs : Z) (l : list att) : option cattrs :=
  match hash_populate hs (map a_name l) with
  | None => None
  | Some t => Some (mkcattrs l t)
  end.

Fixpoint open_vars (hs : Z) (vs : list var) : option (list cvar) :=
  match vs with
  | [] => Some []
  | v :: r =>
    match open_cattrs hs (v_atts v), open_vars hs r with
    | Some ca, Some r' => Some (mkcvar (v_name v) (v_type v) (v_dimids v) (v_begin v) ca :: r')
    | _, _ => None
    end
  end.

Record hcfg := mkhcfg { hc_dim : Z; hc_var : Z; hc_gatt : Z; hc_vatt : Z }.
Definition hcfg_of (hd hv hg ha : option Z) : hcfg :=
  mkhcfg (hint_size hd PNC_HSIZE_DIM) (hint_size hv PNC_HSIZE_VAR)
         (hint_size hg PNC_HSIZE_GATTR) (hint_size ha PNC_HSIZE_VATTR).

Definition c_open_file (h : hdr) (rdonly : bool) (c : hcfg) : option cfile :=
  match hash_populate (hc_dim c) (map d_name (h_dims h)),
        open_vars (hc_vatt c) (h_vars h),
        open_cattrs (hc_gatt c) (h_gatts h) with
  | Some dt, Some vs, Some ga =>
    match hash_populate (hc_var c) (map cv_name vs) with
    | Some vt => Some (mkcfile (h_format h) (h_numrecs h) (mkcmeta (h_dims h) dt vs vt ga) None
                               false rdonly (hc_vatt c))
    | None => None
    end
  | _, _, _ => None
  end.

Definition c_create_file (fmt : Z) (c : hcfg) : cfile :=
  mkcfile fmt 0 (mkcmeta [] (mkntab (hc_dim c) None) [] (mkntab (hc_var c) None)
                         (mkcattrs [] (mkntab (hc_gatt c) None)))
          None true false (hc_vatt c).

(* =====================================================================================
   Concrete world: file slots (disk image of the header region + open file)
   ===================================================================================== *)
Definition UNMODELLED : Z := -7777.    (* op on a closed slot / create on an open slot: not generated *)

Record cslot := mkcslot { cs_disk : option (list byte); cs_file : option cfile }.
Definition cworld := list cslot.

(* ncmpio_write_header: root writes the whole encoded header at offset 0 *)
Definition wr_hdr (disk : option (list byte)) (h : hdr) : option (list byte) :=
  let e := encode_header h in
  Some (e ++ zskipn (Zlen e) (match disk with Some d => d | None => [] end)).

(* ncmpio_close: a file open for writing in which no variable is defined is truncated to the
   header size ncp->xsz *)
Definition close_trunc (rdonly : bool) (h : hdr) (disk : option (list byte)) : option (list byte) :=
  if negb rdonly && (Zlen (h_vars h) =? 0) then option_map (zfirstn (hdr_len h)) disk else disk.

Definition slot_get {A} (w : list A) (s : Z) : option A :=
  if s <? 0 then None else nth_error w (Z.to_nat s).

Definition c_on_file (w : cworld) (s : Z) (g : cfile -> cres) : option (cworld * list Z) :=
  match slot_get w s with
  | None => Some (w, [UNMODELLED])
  | Some sl =>
    match cs_file sl with
    | None => Some (w, [UNMODELLED])
    | Some f =>
      match g f with
      | None => None
      | Some (f', o, wrote) =>
        Some (set_nth (Z.to_nat s) w
                      (mkcslot (if wrote then wr_hdr (cs_disk sl) (cf_hdr f') else cs_disk sl)
                               (Some f')), o)
      end
    end
  end.

Definition c_copy_att (w : cworld) (s v : Z) (nm : list byte) (s2 v2 : Z) : option (cworld * list Z) :=
  match slot_get w s, slot_get w s2 with
  | Some sl1, Some sl2 =>
    match cs_file sl1, cs_file sl2 with
    | Some fin, Some fout =>
      let e := copy_att_pre (cf_rdonly fout) (Zlen (cm_vars (cf_meta fin))) v
                            (Zlen (cm_vars (cf_meta fout))) v2 nm in
      if negb (e =? NC_NOERR) then Some (w, [e])
      else
        match c_copy_read fin v nm with
        | None => None
        | Some (inl rc) => Some (w, [rc])
        | Some (inr a) =>
          (* CDF-1 and CDF-2 files cannot hold attributes of the CDF-5 data types (repair 549716e0) *)
          if (cf_fmt fout <? 5) && (a_type a >? 6) then Some (w, [NC_ESTRICTCDF2])
          else c_on_file w s2 (fun f => c_copy_write f v2 nm a ((s =? s2) && (v =? v2)))
        end
    | _, _ => Some (w, [UNMODELLED])
    end
  | _, _ => Some (w, [UNMODELLED])
  end.

(* ncmpi_close: a file still in define mode goes through enddef first *)
Definition c_close (w : cworld) (s : Z) (bl : list Z) : option (cworld * list Z) :=
  match slot_get w s with
  | None => Some (w, [UNMODELLED])
  | Some sl =>
    match cs_file sl with
    | None => Some (w, [UNMODELLED])
    | Some f =>
      if cf_indef f then
        match c_enddef f bl with
        | None => None
        | Some (f', o, wrote) =>
          Some (set_nth (Z.to_nat s) w
                        (mkcslot (close_trunc (cf_rdonly f') (cf_hdr f')
                                   (if wrote then wr_hdr (cs_disk sl) (cf_hdr f') else cs_disk sl)) None), o)
        end
      else Some (set_nth (Z.to_nat s) w
                         (mkcslot (close_trunc (cf_rdonly f) (cf_hdr f) (cs_disk sl)) None), [NC_NOERR])
    end
  end.

Definition fmt_valid (fmt : Z) : bool := (fmt =? 1) || (fmt =? 2) || (fmt =? 5).

Definition c_create (w : cworld) (s fmt : Z) (c : hcfg) : option (cworld * list Z) :=
  match slot_get w s with
  | None => Some (w, [UNMODELLED])
  | Some sl =>
    match cs_file sl with
    | Some _ => Some (w, [UNMODELLED])
    | None =>
      if negb (fmt_valid fmt) then Some (w, [UNMODELLED])
      else Some (set_nth (Z.to_nat s) w (mkcslot (Some []) (Some (c_create_file fmt c))), [NC_NOERR])
    end
  end.

Definition c_open (w : cworld) (s mode : Z) (c : hcfg) : option (cworld * list Z) :=
  match slot_get w s with
  | None => Some (w, [UNMODELLED])
  | Some sl =>
    match cs_file sl with
    | Some _ => Some (w, [UNMODELLED])
    | None =>
      match cs_disk sl with
      | None => Some (w, [NC_ENOENT])
      | Some d =>
        match decode d with
        | None => Some (w, [NC_ENOTNC])
        | Some dc =>
          match c_open_file (dc_hdr dc) (mode =? 0) c with
          | None => None
          | Some f => Some (set_nth (Z.to_nat s) w (mkcslot (Some d) (Some f)), [NC_NOERR])
          end
        end
      end
    end
  end.

(* observation of the file image: rc, length of the header image the format decoder finds at the start
   (0 if none), size, bytes.  Only the header image is comparable with the real file: what follows it is the
   data section (or was never written), which is not the business of the metadata model *)
Definition snapshot_flat (disk : option (list byte)) : list Z :=
  match disk with
  | None => [-1]
  | Some d => NC_NOERR :: (match decode d with Some dc => dc_len dc | None => 0 end) :: Zlen d :: d
  end.

(* =====================================================================================
   Operations and histories
   ===================================================================================== *)
Inductive op :=
| OCreate (s fmt : Z) (hd hv hg ha : option Z)
| OOpen (s mode : Z) (hd hv hg ha : option Z)
| OClose (s : Z) (bl : list Z)
| OEnddef (s : Z) (bl : list Z)
| ORedef (s : Z)
| ODefDim (s : Z) (nm : list byte) (size : Z)
| ODefVar (s : Z) (nm : list byte) (t : Z) (dimids : list Z)
| OPutAtt (s v : Z) (nm : list byte) (t : Z) (vals : list Z)
| OGetAtt (s v : Z) (nm : list byte)
| ODelAtt (s v : Z) (nm : list byte)
| ORenameDim (s id : Z) (nm : list byte)
| ORenameVar (s id : Z) (nm : list byte)
| ORenameAtt (s v : Z) (nm nnm : list byte)
| OCopyAtt (s v : Z) (nm : list byte) (s2 v2 : Z)
| OInq (s : Z)
| OInqDimid (s : Z) (nm : list byte)
| OInqVarid (s : Z) (nm : list byte)
| OInqAttid (s v : Z) (nm : list byte)
| OSnapshot (s : Z).

Definition c_step (w : cworld) (o : op) : option (cworld * list Z) :=
  match o with
  | OCreate s fmt hd hv hg ha => c_create w s fmt (hcfg_of hd hv hg ha)
  | OOpen s mode hd hv hg ha => c_open w s mode (hcfg_of hd hv hg ha)
  | OClose s bl => c_close w s bl
  | OEnddef s bl => c_on_file w s (fun f => c_enddef f bl)
  | ORedef s => c_on_file w s c_redef
  | ODefDim s nm size => c_on_file w s (fun f => c_def_dim f nm size)
  | ODefVar s nm t dimids => c_on_file w s (fun f => c_def_var f nm t dimids)
  | OPutAtt s v nm t vals => c_on_file w s (fun f => c_put_att f v nm t vals)
  | OGetAtt s v nm => c_on_file w s (fun f => c_get_att f v nm)
  | ODelAtt s v nm => c_on_file w s (fun f => c_del_att f v nm)
  | ORenameDim s id nm => c_on_file w s (fun f => c_rename_dim f id nm)
  | ORenameVar s id nm => c_on_file w s (fun f => c_rename_var f id nm)
  | ORenameAtt s v nm nnm => c_on_file w s (fun f => c_rename_att f v nm nnm)
  | OCopyAtt s v nm s2 v2 => c_copy_att w s v nm s2 v2
  | OInq s => c_on_file w s c_inq
  | OInqDimid s nm => c_on_file w s (fun f => c_inq_dimid f nm)
  | OInqVarid s nm => c_on_file w s (fun f => c_inq_varid f nm)
  | OInqAttid s v nm => c_on_file w s (fun f => c_inq_attid f v nm)
  | OSnapshot s => match slot_get w s with
                   | None => Some (w, [UNMODELLED])
                   | Some sl => Some (w, snapshot_flat (cs_disk sl))
                   end
  end.

(* a history; None as soon as one step is undefined behaviour *)
Fixpoint c_run (w : cworld) (ops : list op) : option (cworld * list (list Z)) :=
  match ops with
  | [] => Some (w, [])
  | o :: r =>
    match c_step w o with
    | None => None
    | Some (w1, ob) =>
      match c_run w1 r with
      | None => None
      | Some (w2, obs) => Some (w2, ob :: obs)
      end
    end
  end.

(* the same, but reporting the observations made before the undefined step *)
Fixpoint c_run_upto (w : cworld) (ops : list op) : list (list Z) * bool :=
  match ops with
  | [] => ([], true)
  | o :: r =>
    match c_step w o with
    | None => ([], false)
    | Some (w1, ob) => let '(obs, ok) := c_run_upto w1 r in (ob :: obs, ok)
    end
  end.

Definition cworld0 (nslots : nat) : cworld := repeat (mkcslot None None) nslots.

(* =====================================================================================
   SPEC: the simple sequential reference model — ordered lists, linear lookup by name
   ===================================================================================== *)
Record sfile := mksfile { sf_hdr : hdr; sf_old_nvars : option Z; sf_indef : bool; sf_rdonly : bool }.
Definition sres := (sfile * list Z * bool)%type.
Definition sret (f : sfile) (o : list Z) : sres := (f, o, false).

Definition set_hdr (f : sfile) (h : hdr) : sfile :=
  mksfile h (sf_old_nvars f) (sf_indef f) (sf_rdonly f).

Definition dflt_var : var := mkvar [] [] [] 0 0 true.

Definition get_sa (h : hdr) (varid : Z) : option (list att) :=
  if varid =? -1 then Some (h_gatts h)
  else if (0 <=? varid) && (varid <? Zlen (h_vars h))
       then option_map v_atts (nth_error (h_vars h) (Z.to_nat varid))
       else None.

Definition set_sa (h : hdr) (varid : Z) (l : list att) : hdr :=
  if varid =? -1 then mkhdr (h_format h) (h_numrecs h) (h_dims h) l (h_vars h)
  else
    let i := Z.to_nat varid in
    let v := nth i (h_vars h) dflt_var in
    mkhdr (h_format h) (h_numrecs h) (h_dims h) (h_gatts h)
          (set_nth i (h_vars h) (mkvar (v_name v) (v_dimids v) l (v_type v) (v_begin v) (v_nofill v))).

Definition s_attr_put (indef : bool) (l : list att) (nname : list byte) (t n : Z) (data : list byte)
  : list att * Z :=
  match find_name nname (map a_name l) with
  | Some i =>
      let old := nth i l dflt_att in
      if negb indef && (x_len_attrV t n >? att_xsz old) then (l, NC_ENOTINDEFINE)
      else (set_nth i l (mkatt (a_name old) t n data), NC_NOERR)
  | None =>
      if negb indef then (l, NC_ENOTINDEFINE)
      else if Zlen l =? NC_MAX_INT then (l, NC_EMAXATTS)
      else (l ++ [mkatt nname t n data], NC_NOERR)
  end.

Definition s_attr_rename (indef : bool) (l : list att) (nname nnew : list byte) : list att * Z :=
  match find_name nname (map a_name l) with
  | None => (l, NC_ENOTATT)
  | Some i =>
    match find_name nnew (map a_name l) with
    | Some _ => (l, NC_ENAMEINUSE)
    | None =>
      let old := nth i l dflt_att in
      if negb indef && (Zlen (a_name old) <? Zlen nnew) then (l, NC_ENOTINDEFINE)
      else (set_nth i l (mkatt nnew (a_type old) (a_nelems old) (a_data old)), NC_NOERR)
    end
  end.

Definition s_attr_del (l : list att) (nname : list byte) : list att * Z :=
  match find_name nname (map a_name l) with
  | None => (l, NC_ENOTATT)
  | Some i => (del_nth i l, NC_NOERR)
  end.

Definition s_def_dim (f : sfile) (nm : list byte) (size : Z) : sres :=
  let h := sf_hdr f in
  let e := def_dim_pre (h_format h) (sf_indef f) (h_dims h) nm size in
  if negb (e =? NC_NOERR) then sret f [e; -99]
  else match find_name (nfc nm) (map d_name (h_dims h)) with
       | Some _ => sret f [NC_ENAMEINUSE; -99]
       | None =>
         sret (set_hdr f (mkhdr (h_format h) (h_numrecs h) (h_dims h ++ [mkdim (nfc nm) size])
                                (h_gatts h) (h_vars h)))
              [NC_NOERR; Zlen (h_dims h)]
       end.

Definition s_def_var (f : sfile) (nm : list byte) (t : Z) (dimids : list Z) : sres :=
  let h := sf_hdr f in
  let e := def_var_pre (h_format h) (sf_indef f) (Zlen (h_vars h)) nm t in
  if negb (e =? NC_NOERR) then sret f [e; -99]
  else match find_name (nfc nm) (map v_name (h_vars h)) with
       | Some _ => sret f [NC_ENAMEINUSE; -99]
       | None =>
         let e2 := def_var_post (h_dims h) t dimids in
         if negb (e2 =? NC_NOERR) then sret f [e2; -99]
         else sret (set_hdr f (mkhdr (h_format h) (h_numrecs h) (h_dims h) (h_gatts h)
                                     (h_vars h ++ [mkvar (nfc nm) dimids [] t 0 true])))
                   [NC_NOERR; Zlen (h_vars h)]
       end.

Definition s_put_att (f : sfile) (varid : Z) (nm : list byte) (t : Z) (vals : list Z) : sres :=
  let h := sf_hdr f in
  let n := Zlen vals in
  let e := put_att_pre (h_format h) (sf_rdonly f) (Zlen (h_vars h)) varid nm t n in
  if negb (e =? NC_NOERR) then sret f [e]
  else
    let e1 := fillvalue_rule varid nm t n (v_type (nth (Z.to_nat varid) (h_vars h) dflt_var))
                             (sf_old_nvars f) in
    if negb (e1 =? NC_NOERR) then sret f [e1]
    else
      match get_sa h varid with
      | None => sret f [UNMODELLED]
      | Some l =>
        let '(data, ce) := att_put_value t vals in
        let '(l', rc) := s_attr_put (sf_indef f) l (nfc nm) t n data in
        if negb (rc =? NC_NOERR) then sret f [rc]
        else (set_hdr f (set_sa h varid l'), [ce], negb (sf_indef f))
      end.

Definition s_get_att (f : sfile) (varid : Z) (nm : list byte) : sres :=
  let h := sf_hdr f in
  let e := get_att_pre (Zlen (h_vars h)) varid nm in
  if negb (e =? NC_NOERR) then sret f [e; -99; -99; 0]
  else match get_sa h varid with
       | None => sret f [UNMODELLED]
       | Some l =>
         match find_name (nfc nm) (map a_name l) with
         | None => sret f [NC_ENOTATT; -99; -99; 0]
         | Some i => let a := nth i l dflt_att in
                     sret f ([NC_NOERR; a_type a; a_nelems a; Zlen (att_mem a)] ++ att_mem a)
         end
       end.

Definition s_inq_attid (f : sfile) (varid : Z) (nm : list byte) : sres :=
  let h := sf_hdr f in
  let e := get_att_pre (Zlen (h_vars h)) varid nm in
  if negb (e =? NC_NOERR) then sret f [e; -99]
  else match get_sa h varid with
       | None => sret f [UNMODELLED]
       | Some l =>
         match find_name (nfc nm) (map a_name l) with
         | None => sret f [NC_ENOTATT; -99]
         | Some i => sret f [NC_NOERR; Z.of_nat i]
         end
       end.

Definition s_inq_dimid (f : sfile) (nm : list byte) : sres :=
  if negb (inq_id_pre nm =? NC_NOERR) then sret f [inq_id_pre nm; -99]
  else match find_name (nfc nm) (map d_name (h_dims (sf_hdr f))) with
       | None => sret f [NC_EBADDIM; -99]
       | Some i => sret f [NC_NOERR; Z.of_nat i]
       end.

Definition s_inq_varid (f : sfile) (nm : list byte) : sres :=
  if negb (inq_id_pre nm =? NC_NOERR) then sret f [inq_id_pre nm; -99]
  else match find_name (nfc nm) (map v_name (h_vars (sf_hdr f))) with
       | None => sret f [NC_ENOTVAR; -99]
       | Some i => sret f [NC_NOERR; Z.of_nat i]
       end.

Definition s_del_att (f : sfile) (varid : Z) (nm : list byte) : sres :=
  let h := sf_hdr f in
  let e := del_att_pre (sf_rdonly f) (sf_indef f) (Zlen (h_vars h)) varid nm in
  if negb (e =? NC_NOERR) then sret f [e]
  else match get_sa h varid with
       | None => sret f [UNMODELLED]
       | Some l =>
         let '(l', rc) := s_attr_del l (nfc nm) in
         if negb (rc =? NC_NOERR) then sret f [rc]
         else sret (set_hdr f (set_sa h varid l')) [NC_NOERR]
       end.

Definition s_rename_att (f : sfile) (varid : Z) (nm nnm : list byte) : sres :=
  let h := sf_hdr f in
  let e := rename_att_pre (sf_rdonly f) (Zlen (h_vars h)) varid nm nnm in
  if negb (e =? NC_NOERR) then sret f [e]
  else match get_sa h varid with
       | None => sret f [UNMODELLED]
       | Some l =>
         let '(l', rc) := s_attr_rename (sf_indef f) l (nfc nm) (nfc nnm) in
         if negb (rc =? NC_NOERR) then sret f [rc]
         else (set_hdr f (set_sa h varid l'), [NC_NOERR], negb (sf_indef f))
       end.

Definition s_rename_dim (f : sfile) (id : Z) (nm : list byte) : sres :=
  let h := sf_hdr f in
  let e := rename_dim_pre (sf_rdonly f) (Zlen (h_dims h)) id nm in
  if negb (e =? NC_NOERR) then sret f [e]
  else
    let i := Z.to_nat id in
    match find_name (nfc nm) (map d_name (h_dims h)) with
    | Some j => if Nat.eqb j i then sret f [NC_NOERR] else sret f [NC_ENAMEINUSE]
    | None =>
      let old := nth i (h_dims h) dflt_dim in
      if negb (sf_indef f) && (Zlen (d_name old) <? Zlen (nfc nm)) then sret f [NC_ENOTINDEFINE]
      else (set_hdr f (mkhdr (h_format h) (h_numrecs h)
                             (set_nth i (h_dims h) (mkdim (nfc nm) (d_size old)))
                             (h_gatts h) (h_vars h)),
            [NC_NOERR], negb (sf_indef f))
    end.

Definition s_rename_var (f : sfile) (id : Z) (nm : list byte) : sres :=
  let h := sf_hdr f in
  let e := rename_var_pre (sf_rdonly f) (Zlen (h_vars h)) id nm in
  if negb (e =? NC_NOERR) then sret f [e]
  else
    let i := Z.to_nat id in
    match find_name (nfc nm) (map v_name (h_vars h)) with
    | Some _ => sret f [NC_ENAMEINUSE]
    | None =>
      let old := nth i (h_vars h) dflt_var in
      if negb (sf_indef f) && (Zlen (v_name old) <? Zlen (nfc nm)) then sret f [NC_ENOTINDEFINE]
      else (set_hdr f (mkhdr (h_format h) (h_numrecs h) (h_dims h) (h_gatts h)
                             (set_nth i (h_vars h)
                                (mkvar (nfc nm) (v_dimids old) (v_atts old) (v_type old) (v_begin old)
                                       (v_nofill old)))),
            [NC_NOERR], negb (sf_indef f))
    end.

Definition s_copy_read (f : sfile) (varid : Z) (nm : list byte) : option (Z + att) :=
  match get_sa (sf_hdr f) varid with
  | None => None
  | Some l =>
    match find_name (nfc nm) (map a_name l) with
    | None => Some (inl NC_ENOTATT)
    | Some i => Some (inr (nth i l dflt_att))
    end
  end.

Definition s_copy_write (f : sfile) (varid : Z) (nm : list byte) (a : att) (self : bool) : sres :=
  let h := sf_hdr f in
  match get_sa h varid with
  | None => sret f [UNMODELLED]
  | Some l =>
    if self then sret f [NC_NOERR]
    else
      let '(l', rc) := s_attr_put (sf_indef f) l (nfc nm) (a_type a) (a_nelems a) (a_data a) in
      if negb (rc =? NC_NOERR) then sret f [rc]
      else (set_hdr f (set_sa h varid l'), [NC_NOERR], negb (sf_indef f))
  end.

Definition s_redef (f : sfile) : sres :=
  if sf_rdonly f then sret f [NC_EPERM]
  else if sf_indef f then sret f [NC_EINDEFINE]
  else sret (mksfile (sf_hdr f) (Some (Zlen (h_vars (sf_hdr f)))) true (sf_rdonly f)) [NC_NOERR].

Fixpoint s_apply_begins (vs : list var) (bl : list Z) : list var :=
  match vs with
  | [] => []
  | v :: r =>
    match bl with
    | b :: bl' => mkvar (v_name v) (v_dimids v) (v_atts v) (v_type v) b (v_nofill v)
                  :: s_apply_begins r bl'
    | [] => v :: s_apply_begins r []
    end
  end.

Definition s_enddef (f : sfile) (bl : list Z) : sres :=
  if negb (sf_indef f) then sret f [NC_ENOTINDEFINE]
  else
    let h := sf_hdr f in
    let e := check_vlens h in
    if negb (e =? NC_NOERR) then sret f [e]
    else (mksfile (mkhdr (h_format h) (h_numrecs h) (h_dims h) (h_gatts h)
                         (s_apply_begins (h_vars h) bl))
                  None false (sf_rdonly f),
          [NC_NOERR], true).

Definition s_inq (f : sfile) : sres := sret f (inq_flat (sf_hdr f) (sf_indef f)).

Record sslot := mksslot { ss_disk : option (list byte); ss_file : option sfile }.
Definition sworld := list sslot.

Definition s_on_file (w : sworld) (s : Z) (g : sfile -> sres) : sworld * list Z :=
  match slot_get w s with
  | None => (w, [UNMODELLED])
  | Some sl =>
    match ss_file sl with
    | None => (w, [UNMODELLED])
    | Some f =>
      let '(f', o, wrote) := g f in
      (set_nth (Z.to_nat s) w
               (mksslot (if wrote then wr_hdr (ss_disk sl) (sf_hdr f') else ss_disk sl) (Some f')), o)
    end
  end.

Definition s_copy_att (w : sworld) (s v : Z) (nm : list byte) (s2 v2 : Z) : sworld * list Z :=
  match slot_get w s, slot_get w s2 with
  | Some sl1, Some sl2 =>
    match ss_file sl1, ss_file sl2 with
    | Some fin, Some fout =>
      let e := copy_att_pre (sf_rdonly fout) (Zlen (h_vars (sf_hdr fin))) v
                            (Zlen (h_vars (sf_hdr fout))) v2 nm in
      if negb (e =? NC_NOERR) then (w, [e])
      else
        match s_copy_read fin v nm with
        | None => (w, [UNMODELLED])
        | Some (inl rc) => (w, [rc])
        | Some (inr a) =>
          if (h_format (sf_hdr fout) <? 5) && (a_type a >? 6) then (w, [NC_ESTRICTCDF2])
          else s_on_file w s2 (fun f => s_copy_write f v2 nm a ((s =? s2) && (v =? v2)))
        end
    | _, _ => (w, [UNMODELLED])
    end
  | _, _ => (w, [UNMODELLED])
  end.

Definition s_close (w : sworld) (s : Z) (bl : list Z) : sworld * list Z :=
  match slot_get w s with
  | None => (w, [UNMODELLED])
  | Some sl =>
    match ss_file sl with
    | None => (w, [UNMODELLED])
    | Some f =>
      if sf_indef f then
        let '(f', o, wrote) := s_enddef f bl in
        (set_nth (Z.to_nat s) w
                 (mksslot (close_trunc (sf_rdonly f') (sf_hdr f')
                             (if wrote then wr_hdr (ss_disk sl) (sf_hdr f') else ss_disk sl)) None), o)
      else (set_nth (Z.to_nat s) w
                    (mksslot (close_trunc (sf_rdonly f) (sf_hdr f) (ss_disk sl)) None), [NC_NOERR])
    end
  end.

Definition s_create (w : sworld) (s fmt : Z) : sworld * list Z :=
  match slot_get w s with
  | None => (w, [UNMODELLED])
  | Some sl =>
    match ss_file sl with
    | Some _ => (w, [UNMODELLED])
    | None =>
      if negb (fmt_valid fmt) then (w, [UNMODELLED])
      else (set_nth (Z.to_nat s) w
                    (mksslot (Some []) (Some (mksfile (mkhdr fmt 0 [] [] []) None true false))),
            [NC_NOERR])
    end
  end.

(* the per-variable fill mode is not part of the file header: a decoded variable has the default *)
Definition norm_var (v : var) : var := mkvar (v_name v) (v_dimids v) (v_atts v) (v_type v) (v_begin v) true.
Definition norm_hdr (h : hdr) : hdr :=
  mkhdr (h_format h) (h_numrecs h) (h_dims h) (h_gatts h) (map norm_var (h_vars h)).

(* open reads the file through the format-specification decoder *)
Definition s_open (w : sworld) (s mode : Z) : sworld * list Z :=
  match slot_get w s with
  | None => (w, [UNMODELLED])
  | Some sl =>
    match ss_file sl with
    | Some _ => (w, [UNMODELLED])
    | None =>
      match ss_disk sl with
      | None => (w, [NC_ENOENT])
      | Some d =>
        match decode d with
        | None => (w, [NC_ENOTNC])
        | Some dc => (set_nth (Z.to_nat s) w
                              (mksslot (Some d) (Some (mksfile (norm_hdr (dc_hdr dc)) None false (mode =? 0)))),
                      [NC_NOERR])
        end
      end
    end
  end.

Definition s_step (w : sworld) (o : op) : sworld * list Z :=
  match o with
  | OCreate s fmt _ _ _ _ => s_create w s fmt
  | OOpen s mode _ _ _ _ => s_open w s mode
  | OClose s bl => s_close w s bl
  | OEnddef s bl => s_on_file w s (fun f => s_enddef f bl)
  | ORedef s => s_on_file w s s_redef
  | ODefDim s nm size => s_on_file w s (fun f => s_def_dim f nm size)
  | ODefVar s nm t dimids => s_on_file w s (fun f => s_def_var f nm t dimids)
  | OPutAtt s v nm t vals => s_on_file w s (fun f => s_put_att f v nm t vals)
  | OGetAtt s v nm => s_on_file w s (fun f => s_get_att f v nm)
  | ODelAtt s v nm => s_on_file w s (fun f => s_del_att f v nm)
  | ORenameDim s id nm => s_on_file w s (fun f => s_rename_dim f id nm)
  | ORenameVar s id nm => s_on_file w s (fun f => s_rename_var f id nm)
  | ORenameAtt s v nm nnm => s_on_file w s (fun f => s_rename_att f v nm nnm)
  | OCopyAtt s v nm s2 v2 => s_copy_att w s v nm s2 v2
  | OInq s => s_on_file w s s_inq
  | OInqDimid s nm => s_on_file w s (fun f => s_inq_dimid f nm)
  | OInqVarid s nm => s_on_file w s (fun f => s_inq_varid f nm)
  | OInqAttid s v nm => s_on_file w s (fun f => s_inq_attid f v nm)
  | OSnapshot s => match slot_get w s with
                   | None => (w, [UNMODELLED])
                   | Some sl => (w, snapshot_flat (ss_disk sl))
                   end
  end.

Fixpoint s_run (w : sworld) (ops : list op) : sworld * list (list Z) :=
  match ops with
  | [] => (w, [])
  | o :: r => let '(w1, ob) := s_step w o in
              let '(w2, obs) := s_run w1 r in (w2, ob :: obs)
  end.

Definition sworld0 (nslots : nat) : sworld := repeat (mksslot None None) nslots.

(* abstraction: forget the tables *)
Definition abs_file (f : cfile) : sfile :=
  mksfile (cf_hdr f) (option_map (fun o => Zlen (cm_vars o)) (cf_old f)) (cf_indef f) (cf_rdonly f).
Definition abs_slot (sl : cslot) : sslot := mksslot (cs_disk sl) (option_map abs_file (cs_file sl)).
Definition abs_world (w : cworld) : sworld := map abs_slot w.

End WithHash.

(* =====================================================================================
   The instance that is run against the library, and the flat integer codec used by the
   check (checks/C07.py writes the integers; harness/c07_driver.ml only does I/O)
   ===================================================================================== *)
Definition mc_step := c_step bernstein nfc_tab.
Definition ms_step := s_step nfc_tab.

Inductive item := IOp (o : op) | IHash (nm : list byte) (hs : Z) | INfc (nm : list byte)
                | ICheckName (nm : list byte).

Definition dec_list (l : list Z) : list Z * list Z :=
  match l with
  | n :: r => (zfirstn n r, zskipn n r)
  | [] => ([], [])
  end.
Definition dec_hint (x : Z) : option Z := if x =? -1000000 then None else Some x.

Fixpoint dec_items (fuel : nat) (l : list Z) : list item :=
  match fuel with
  | O => []
  | S f =>
    match l with
    | [] => []
    | 1 :: s :: fmt :: a :: b :: c :: d :: r =>
        IOp (OCreate s fmt (dec_hint a) (dec_hint b) (dec_hint c) (dec_hint d)) :: dec_items f r
    | 2 :: s :: mode :: a :: b :: c :: d :: r =>
        IOp (OOpen s mode (dec_hint a) (dec_hint b) (dec_hint c) (dec_hint d)) :: dec_items f r
    | 3 :: s :: r => let '(bl, r1) := dec_list r in IOp (OClose s bl) :: dec_items f r1
    | 4 :: s :: r => let '(bl, r1) := dec_list r in IOp (OEnddef s bl) :: dec_items f r1
    | 5 :: s :: r => IOp (ORedef s) :: dec_items f r
    | 6 :: s :: r => let '(nm, r1) := dec_list r in
                     match r1 with
                     | size :: r2 => IOp (ODefDim s nm size) :: dec_items f r2
                     | [] => []
                     end
    | 7 :: s :: r => let '(nm, r1) := dec_list r in
                     match r1 with
                     | t :: r2 => let '(ids, r3) := dec_list r2 in IOp (ODefVar s nm t ids) :: dec_items f r3
                     | [] => []
                     end
    | 8 :: s :: v :: r => let '(nm, r1) := dec_list r in
                          match r1 with
                          | t :: r2 => let '(vals, r3) := dec_list r2 in
                                       IOp (OPutAtt s v nm t vals) :: dec_items f r3
                          | [] => []
                          end
    | 9 :: s :: v :: r => let '(nm, r1) := dec_list r in IOp (OGetAtt s v nm) :: dec_items f r1
    | 10 :: s :: v :: r => let '(nm, r1) := dec_list r in IOp (ODelAtt s v nm) :: dec_items f r1
    | 11 :: s :: id :: r => let '(nm, r1) := dec_list r in IOp (ORenameDim s id nm) :: dec_items f r1
    | 12 :: s :: id :: r => let '(nm, r1) := dec_list r in IOp (ORenameVar s id nm) :: dec_items f r1
    | 13 :: s :: v :: r => let '(nm, r1) := dec_list r in
                           let '(nnm, r2) := dec_list r1 in
                           IOp (ORenameAtt s v nm nnm) :: dec_items f r2
    | 14 :: s :: v :: r => let '(nm, r1) := dec_list r in
                           match r1 with
                           | s2 :: v2 :: r2 => IOp (OCopyAtt s v nm s2 v2) :: dec_items f r2
                           | _ => []
                           end
    | 15 :: s :: r => IOp (OInq s) :: dec_items f r
    | 16 :: s :: r => let '(nm, r1) := dec_list r in IOp (OInqDimid s nm) :: dec_items f r1
    | 17 :: s :: r => let '(nm, r1) := dec_list r in IOp (OInqVarid s nm) :: dec_items f r1
    | 18 :: s :: v :: r => let '(nm, r1) := dec_list r in IOp (OInqAttid s v nm) :: dec_items f r1
    | 19 :: s :: r => IOp (OSnapshot s) :: dec_items f r
    | 20 :: hs :: r => let '(nm, r1) := dec_list r in IHash nm hs :: dec_items f r1
    | 21 :: r => let '(nm, r1) := dec_list r in INfc nm :: dec_items f r1
    | 22 :: r => let '(nm, r1) := dec_list r in ICheckName nm :: dec_items f r1
    | _ => []
    end
  end.

Definition UB_MARK : Z := -8888.   (* the concrete model performs an out-of-bounds access / abort *)

Fixpoint m_run_items (w : cworld) (l : list item) : list (list Z) :=
  match l with
  | [] => []
  | IHash nm hs :: r => [bernstein nm hs] :: m_run_items w r
  | INfc nm :: r => nfc_tab nm :: m_run_items w r
  | ICheckName nm :: r => [check_name nm] :: m_run_items w r
  | IOp o :: r =>
    match mc_step w o with
    | None => [[UB_MARK]]
    | Some (w1, ob) => ob :: m_run_items w1 r
    end
  end.

(* entry point of the extracted model: one output line per decoded item *)
Definition m_run (nslots : Z) (input : list Z) : list (list Z) :=
  m_run_items (cworld0 (Z.to_nat nslots)) (dec_items (length input) input).
