(* ExtractLogical.v — extraction of the C20 oracle (grammar decoder, strict validity, layout
   validity, logical content / equality, free-layout encoder, external value decoding) to OCaml.
   ExtrOcamlBasic only: bool/option/unit/prod/list/sumbool map to OCaml's; Z, positive, nat stay
   Coq datatypes; no Extract Constant. *)
Require Extraction.
Require ExtrOcamlBasic.
From Pnc Require Import Logical Data.
Extraction Language OCaml.
Extraction "c20_model.ml" decode strict_valid layout_ok file_valid logical_of logical_content
           logical_eq content_eq encode_with_layout layout_begins data_ok decode_ext hdr_len
           layout_of_hdr.
