(* Aggregate.v — intra-node write aggregation (src/drivers/ncmpio/ncmpio_intra_node.c):
     ncmpio_intra_node_aggr_init      who aggregates for whom
     flatten_subarray / flatten_req   a blocking put request -> (offset,length) pairs
     flatten_reqs                     the per-record requests of ncmpi_wait_all -> pairs
     intra_node_aggregation           gather to the aggregator in rank order, sort by offset
                                      (qsort_off_len_buf), overlap merge, pack + coalesce,
                                      ONE write by the aggregator through an hindexed file view
   and the SPEC: every rank writes its own pairs.
   Executable definitions only; proofs are in Proofs_Aggregate.v. *)
From Pnc Require Export Config.
Local Open Scope Z_scope.

(* ================================================================== *)
(* 1. ncmpio_intra_node_aggr_init                                      *)
(* ================================================================== *)
(* node_ids: compute-node id of every rank (index = rank), as broadcast by the root *)
Definition ranks_of_node (node_ids : list Z) (n : Z) : list Z :=
  map fst (filter (fun p => snd p =? n) (zip (zrange 0 (Zlen node_ids)) node_ids)).

Definition index_of (x : Z) (l : list Z) : Z :=
  match find_index (fun y => y =? x) l 0 with Some i => i | None => -1 end.

(* number of ranks per aggregation group on a node of np ranks (includes the aggregator) *)
Definition group_size (naggr np_node : Z) : Z :=
  let na := Z.min naggr np_node in
  np_node / na + (if np_node mod na =? 0 then 0 else 1).

(* (my_aggr, nonaggr_ranks) of one rank; my_aggr = -1: aggregation disabled for this rank *)
Definition aggr_init (nprocs naggr : Z) (node_ids : list Z) (rank : Z) : Z * list Z :=
  if (naggr =? 0) || (naggr =? nprocs) then (-1, [])
  else
    let rn := ranks_of_node node_ids (znth node_ids rank 0) in
    let np_node := Zlen rn in
    let idx := index_of rank rn in
    let nn := group_size naggr np_node in
    if nn =? 1 then (-1, [])
    else
      let a := znth rn (idx - idx mod nn) (-1) in
      if a =? rank then
        let mine := Z.min nn (np_node - idx) in
        if mine =? 1 then (-1, []) else (a, zfirstn mine (zskipn idx rn))
      else (a, []).

(* the aggregation groups of a run: for every aggregator, its member ranks in gather order
   (the aggregator itself first); ranks whose my_aggr is -1 are not in any group *)
Definition aggr_groups (nprocs naggr : Z) (node_ids : list Z) : list (list Z) :=
  flat_map (fun r => let '(a, members) := aggr_init nprocs naggr node_ids r in
                     if (a =? r) && (0 <=? a) then [members] else [])
           (zrange 0 nprocs).
Definition unaggregated (nprocs naggr : Z) (node_ids : list Z) : list Z :=
  filter (fun r => fst (aggr_init nprocs naggr node_ids r) <? 0) (zrange 0 nprocs).

(* ================================================================== *)
(* 2. flatten_subarray, flatten_req, flatten_reqs                      *)
(* ================================================================== *)
(* dimlen/start/count/stride of the ndim fixed dimensions; pairs in the order produced *)
Definition flatten_subarray (el var_begin : Z) (dimlen start count stride : list Z)
  : list (Z * Z) :=
  match dimlen with
  | [] => [(var_begin, el)]                                  (* ndim == 0 *)
  | _ =>
    let sl := last start 0 in let cl := last count 0 in let tl_ := last stride 1 in
    let npairs := (if tl_ =? 1 then 1 else cl) * zprod (removelast count) in
    if npairs =? 0 then []
    else
      let len := (if tl_ =? 1 then cl else 1) * el in
      let nstride := if tl_ =? 1 then 1 else cl in
      (* the lowest dimension: off = var_begin + start*el, then += stride*el *)
      let d0 := map (fun k => var_begin + (sl + k * tl_) * el) (zrange 0 nstride) in
      (* higher dimensions: array_len * el = bytes of one index step *)
      let units := dim_units false 0 el dimlen 0 in
      let outer := zip (zip (removelast start) (removelast count))
                       (zip (removelast stride) (removelast units)) in
      map (fun o => (o, len))
          (flatten_outer (rev (map (fun p => quad (fst p) (snd p)) outer)) d0)
  end.

(* flatten_req: one blocking put.  stride = None is a NULL pointer.
   The record loop advances var_begin by recsize * stride0 per iteration (stride0 = stride[0], or 1
   for a NULL stride).  Before the fix it advanced by ONE record whatever stride[0] was: that
   version is kept as flatten_req_old in Proofs_Aggregate.v together with its refutation. *)
Definition flatten_req (g : geom) (start count : list Z) (stride : option (list Z)) : list (Z * Z) :=
  match g_shape g with
  | [] => [(g_begin g, g_xsz g)]
  | _ =>
    let st := match stride with Some t => t | None => ones (length (g_shape g)) end in
    if g_isrec g then
      let vb := g_begin g + hd 0 start * g_recsize g in
      let stride0 := match stride with Some t => hd 1 t | None => 1 end in
      flat_map (fun j => flatten_subarray (g_xsz g) (vb + j * (g_recsize g * stride0))
                                          (tl (g_shape g)) (tl start) (tl count) (tl st))
               (zrange 0 (hd 0 count))
    else flatten_subarray (g_xsz g) (g_begin g) (g_shape g) start count st
  end.

(* flatten_reqs: each NC_req of a record variable lies within ONE record (reqs[i].start[0]);
   count[0] and stride[0] are not consulted *)
Definition flatten_one (g : geom) (start count : list Z) (stride : option (list Z)) : list (Z * Z) :=
  match g_shape g with
  | [] => [(g_begin g, g_xsz g)]
  | _ =>
    let st := match stride with Some t => t | None => ones (length (g_shape g)) end in
    if g_isrec g then
      flatten_subarray (g_xsz g) (g_begin g + hd 0 start * g_recsize g)
                       (tl (g_shape g)) (tl start) (tl count) (tl st)
    else flatten_subarray (g_xsz g) (g_begin g) (g_shape g) start count st
  end.
Definition flatten_reqs (reqs : list (geom * list Z * list Z * option (list Z))) : list (Z * Z) :=
  flat_map (fun r => let '(g, s, c, t) := r in flatten_one g s c t) reqs.

(* element offsets covered by a pair list, in order (xsz bytes per element) *)
Definition pair_elems (xsz : Z) (pairs : list (Z * Z)) : list Z :=
  flat_map (fun p => map (fun k => fst p + k * xsz) (zrange 0 (snd p / xsz))) pairs.

(* ================================================================== *)
(* 3. intra_node_aggregation                                           *)
(* ================================================================== *)
(* what one rank contributes: its (offset,length) pairs and its packed write data (bufLen bytes,
   consumed by the pairs in order) *)
Definition contrib := (list (Z * Z) * list byte)%type.

(* a rank writing for itself: pair k receives the next length_k bytes of its data *)
Fixpoint tiles_of (pairs : list (Z * Z)) (data : list byte) : list (Z * list byte) :=
  match pairs with
  | [] => []
  | (o, l) :: r => (o, zfirstn l data) :: tiles_of r (zskipn l data)
  end.

Definition write_own (d : disk) (c : contrib) : disk :=
  fold_left (fun acc p => dk_write acc (fst p) (snd p)) (tiles_of (fst c) (snd c)) d.

(* SPEC: the union of the ranks' own writes *)
Definition spec_writes (d : disk) (cs : list contrib) : disk := fold_left write_own cs d.

(* (offset, length, bufAddr) *)
Definition triple := (Z * Z * Z)%type.
Definition t_off (t : triple) : Z := fst (fst t).
Definition t_len (t : triple) : Z := snd (fst t).
Definition t_addr (t : triple) : Z := snd t.

(* bufAddr[0] = 0; bufAddr[i] = bufAddr[i-1] + lengths[i-1] *)
Fixpoint mk_triples (pairs : list (Z * Z)) (addr : Z) : list triple :=
  match pairs with
  | [] => []
  | (o, l) :: r => (o, l, addr) :: mk_triples r (addr + l)
  end.

(* qsort_off_len_buf sorts by increasing offset (not stable); here: insertion sort.  The
   theorems hold for ANY sorted permutation. *)
Fixpoint ins_triple (t : triple) (l : list triple) : list triple :=
  match l with
  | [] => [t]
  | u :: r => if t_off t <=? t_off u then t :: l else u :: ins_triple t r
  end.
Definition sort_triples (l : list triple) : list triple := fold_right ins_triple [] l.

(* the overlap-merge loop: cur is entry i, the list holds entries j, j+1, ... *)
Fixpoint merge_loop (cur : triple) (rest : list triple) : list triple :=
  match rest with
  | [] => [cur]
  | j :: r =>
      if t_off cur + t_len cur >=? t_off j + t_len j then merge_loop cur r   (* i covers j: skip j *)
      else
        let gap := t_off cur + t_len cur - t_off j in
        if gap >=? 0 then
          if t_addr cur + t_len cur =? t_addr j + gap
          then merge_loop (t_off cur, t_len cur + (t_len j - gap), t_addr cur) r
          else cur :: merge_loop (t_off j + gap, t_len j - gap, t_addr j + gap) r
        else cur :: merge_loop j r
  end.

(* coalescing of the (offset,length) pairs while packing *)
Fixpoint coalesce (cur : Z * Z) (rest : list (Z * Z)) : list (Z * Z) :=
  match rest with
  | [] => [cur]
  | j :: r => if fst cur + snd cur =? fst j then coalesce (fst cur, snd cur + snd j) r
              else cur :: coalesce j r
  end.

(* everything the aggregator does after the sort *)
Definition aggr_after_sort (d : disk) (recv_buf : list byte) (sorted : list triple) : disk :=
  match sorted with
  | [] => d                                  (* npairs == 0: a zero-length write *)
  | t :: r =>
      let merged := merge_loop t r in
      let wr_buf := flat_map (fun u => slice recv_buf (t_addr u) (t_len u)) merged in
      let view := match map (fun u => (t_off u, t_len u)) merged with
                  | [] => []
                  | p :: ps => coalesce p ps
                  end in
      match view with
      | [(o, _)] => scatter d (zrange o (Zlen wr_buf)) wr_buf   (* fileType = MPI_BYTE at offset o *)
      | _ => view_write d view wr_buf                           (* hindexed file view *)
      end
  end.

(* one aggregation group: members in gather order (the aggregator first) *)
Definition aggr_group_write (d : disk) (members : list contrib) : disk :=
  let pairs := concat (map fst members) in
  let recv_buf := concat (map snd members) in
  aggr_after_sort d recv_buf (sort_triples (mk_triples pairs 0)).

(* a whole collective put: every group is written by its aggregator, the ranks outside any
   group write for themselves *)
Definition aggr_writes (d : disk) (groups : list (list contrib)) (singles : list contrib) : disk :=
  fold_left write_own singles (fold_left aggr_group_write groups d).

(* ---------- request level: a collective blocking put under aggregation ---------- *)
(* each rank: geometry of its variable, request, and its packed external data (xbuf) *)
Definition put_req := (geom * list Z * list Z * option (list Z) * list byte)%type.
Definition contrib_of_req (r : put_req) : contrib :=
  let '(g, s, c, t, data) := r in
  if zprod c =? 0 then ([], []) else (flatten_req g s c t, data).
