
val negb : bool -> bool

type nat =
| O
| S of nat

val fst : ('a1 * 'a2) -> 'a1

val snd : ('a1 * 'a2) -> 'a2

val length : 'a1 list -> nat

val app : 'a1 list -> 'a1 list -> 'a1 list

type comparison =
| Eq
| Lt
| Gt

val compOpp : comparison -> comparison

val add : nat -> nat -> nat

val mul : nat -> nat -> nat

val hd : 'a1 -> 'a1 list -> 'a1

val tl : 'a1 list -> 'a1 list

val rev : 'a1 list -> 'a1 list

val concat : 'a1 list list -> 'a1 list

val map : ('a1 -> 'a2) -> 'a1 list -> 'a2 list

val flat_map : ('a1 -> 'a2 list) -> 'a1 list -> 'a2 list

val fold_left : ('a1 -> 'a2 -> 'a1) -> 'a2 list -> 'a1 -> 'a1

val existsb : ('a1 -> bool) -> 'a1 list -> bool

val forallb : ('a1 -> bool) -> 'a1 list -> bool

val filter : ('a1 -> bool) -> 'a1 list -> 'a1 list

val firstn : nat -> 'a1 list -> 'a1 list

val skipn : nat -> 'a1 list -> 'a1 list

val seq : nat -> nat -> nat list

val repeat : 'a1 -> nat -> 'a1 list

type positive =
| XI of positive
| XO of positive
| XH

type z =
| Z0
| Zpos of positive
| Zneg of positive

module Pos :
 sig
  val succ : positive -> positive

  val add : positive -> positive -> positive

  val add_carry : positive -> positive -> positive

  val pred_double : positive -> positive

  val mul : positive -> positive -> positive

  val iter : ('a1 -> 'a1) -> 'a1 -> positive -> 'a1

  val compare_cont : comparison -> positive -> positive -> comparison

  val compare : positive -> positive -> comparison

  val eqb : positive -> positive -> bool

  val iter_op : ('a1 -> 'a1 -> 'a1) -> positive -> 'a1 -> 'a1

  val to_nat : positive -> nat

  val of_succ_nat : nat -> positive
 end

module Z :
 sig
  val double : z -> z

  val succ_double : z -> z

  val pred_double : z -> z

  val pos_sub : positive -> positive -> z

  val add : z -> z -> z

  val opp : z -> z

  val sub : z -> z -> z

  val mul : z -> z -> z

  val pow_pos : z -> positive -> z

  val pow : z -> z -> z

  val compare : z -> z -> comparison

  val leb : z -> z -> bool

  val ltb : z -> z -> bool

  val geb : z -> z -> bool

  val gtb : z -> z -> bool

  val eqb : z -> z -> bool

  val max : z -> z -> z

  val to_nat : z -> nat

  val of_nat : nat -> z

  val pos_div_eucl : positive -> z -> z * z

  val div_eucl : z -> z -> z * z

  val div : z -> z -> z

  val modulo : z -> z -> z
 end

type byte = z

val zlen : 'a1 list -> z

val put_u32 : z -> byte list

val put_u64 : z -> byte list

val get_u32 : byte list -> (z * byte list) option

val get_u64 : byte list -> (z * byte list) option

val be_value : byte list -> z -> z

val rndup : z -> z -> z

val padlen : z -> z

val zeros : z -> byte list

val pad4 : z -> byte list

val znth : 'a1 list -> z -> 'a1 -> 'a1

val zfirstn : z -> 'a1 list -> 'a1 list

val zskipn : z -> 'a1 list -> 'a1 list

val zprod : z list -> z

val zsum : z list -> z

val list_eqb : ('a1 -> 'a1 -> bool) -> 'a1 list -> 'a1 list -> bool

val bytes_eqb : z list -> z list -> bool

val zip : 'a1 list -> 'a2 list -> ('a1 * 'a2) list

val last_opt : 'a1 list -> 'a1 option

val nC_DIMENSION_TAG : z

val nC_VARIABLE_TAG : z

val nC_ATTRIBUTE_TAG : z

val xlen_type : z -> z

val valid_type : z -> z -> bool

type dim = { d_name : byte list; d_size : z }

type att = { a_name : byte list; a_type : z; a_nelems : z; a_data : byte list }

type var = { v_name : byte list; v_dimids : z list; v_atts : att list;
             v_type : z; v_begin : z; v_nofill : bool }

type hdr = { h_format : z; h_numrecs : z; h_dims : dim list;
             h_gatts : att list; h_vars : var list }

val dim_size : dim list -> z -> z

val var_shape : dim list -> var -> z list

val is_recvar : dim list -> var -> bool

val var_nelems_per_rec : z list -> z

val var_len_of : z -> z list -> z

val var_len : dim list -> var -> z

val put_nn : z -> z -> byte list

val put_name : z -> byte list -> byte list

val put_dim : z -> dim -> byte list

val put_list : z -> z -> ('a1 -> byte list) -> 'a1 list -> byte list

val put_att : z -> att -> byte list

val vsize_field : z -> z -> byte list

val put_var : z -> dim list -> var -> byte list

val magic : z -> byte list

val encode_header : hdr -> byte list

val sz_nn : z -> z

val sz_off : z -> z

val len_att : z -> att -> z

val len_attarray : z -> att list -> z

val len_dim : z -> dim -> z

val len_var : z -> var -> z

val hdr_len : hdr -> z

type layout = { l_xsz : z; l_begin_var : z; l_begin_rec : z; l_recsize : 
                z; l_begins : z list }

type 'a parser0 = byte list -> ('a * byte list) option

val p_u32 : z parser0

val p_u64 : z parser0

val p_nn : z -> z parser0

val p_bytes : z -> byte list parser0

val p_padded : z -> (byte list * byte list) parser0

val p_name : z -> (byte list * byte list) parser0

val p_many : 'a1 parser0 -> nat -> 'a1 list parser0

val p_list : z -> z -> 'a1 parser0 -> 'a1 list parser0

type dec_dim = { dd_dim : dim; dd_pad : byte list }

type dec_att = { da_att : att; da_pad : byte list }

type dec_var = { dv_var : var; dv_vsize : z; dv_pad : byte list;
                 dv_atts : dec_att list }

val p_dim : z -> dec_dim parser0

val p_att : z -> dec_att parser0

val p_var : z -> dec_var parser0

type decoded = { dc_hdr : hdr; dc_dims : dec_dim list;
                 dc_gatts : dec_att list; dc_vars : dec_var list; dc_len : 
                 z }

val decode : byte list -> decoded option

val all_zero : byte list -> bool

val expected_vsize : z -> z -> z

val strict_valid : decoded -> bool

val begins_increasing : z -> (z * z) list -> bool

val layout_ok : hdr -> z -> bool

val layout_of_hdr : hdr -> z -> layout

type lvar = { lv_name : byte list; lv_type : z; lv_dimids : z list;
              lv_atts : att list; lv_data : byte list list }

type logical = { lg_format : z; lg_numrecs : z; lg_dims : dim list;
                 lg_gatts : att list; lg_vars : lvar list }

val has_unlim : dim list -> bool

val take_elems : z -> nat -> byte list -> byte list list

val take_records : z -> nat -> z -> nat -> byte list -> byte list list

val var_data : byte list -> dim list -> z -> z -> var -> byte list list

val lvar_of : byte list -> dim list -> z -> z -> var -> lvar

val logical_of : byte list -> decoded -> logical

val logical_content : byte list -> logical option

val dim_eqb : dim -> dim -> bool

val att_eqb : att -> att -> bool

val lvar_eqb : lvar -> lvar -> bool

val content_eq : logical -> logical -> bool

val logical_eq : logical -> logical -> bool

val file_valid : byte list -> bool

type layout_choice = { lc_hfree : byte list; lc_gaps : byte list list;
                       lc_recgap : byte list; lc_tail : byte list }

val var_of : lvar -> z -> var

val hdr_of : logical -> z list -> hdr

val lx_isrec : dim list -> lvar -> bool

val lx_xsz : lvar -> z

val lx_nper : dim list -> lvar -> z

val lx_len : dim list -> lvar -> z

val rec_packed : dim list -> lvar list -> bool

val lx_slot : dim list -> bool -> lvar -> z

val pad_to : z -> byte list -> byte list

val fixed_payload : dim list -> lvar -> byte list

val slab : nat -> nat -> byte list list -> byte list list

val rec_payload : dim list -> bool -> lvar -> nat -> byte list

val enc_fixed : dim list -> lvar list -> byte list list -> byte list

val rec_bytes : dim list -> bool -> lvar list -> nat -> byte list

val enc_records : dim list -> bool -> lvar list -> nat -> byte list

val begins_of :
  dim list -> bool -> lvar list -> byte list list -> z -> z -> z list

val layout_begins : logical -> layout_choice -> z list

val encode_with_layout : logical -> layout_choice -> byte list

val elems_ok : z -> z -> byte list list -> bool

val lvar_data_ok : dim list -> z -> lvar -> bool

val data_ok : logical -> bool

val is_float_type : z -> bool

val is_signed_int : z -> bool

val fbias : z -> z

val float_decode : z -> z -> z -> ((bool * z) * z) option

type cval =
| CInt of z
| CFloat of bool * z * z
| CNaN
| CInf of bool

val fmant : z -> z

val febits : z -> z

val decode_ext : z -> byte list -> cval
